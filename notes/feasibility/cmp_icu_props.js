const fs=require('fs'); const R=JSON.parse(fs.readFileSync('regress_props.json','utf8'));
const parts=[]; for(let c=0;c<=0x10FFFF;c++) parts.push(String.fromCodePoint(c));
function ranges(re){ const out=[]; let start=-1; for(let c=0;c<=0x10FFFF;c++){ const m=re.test(parts[c]); if(m&&start<0)start=c; if(!m&&start>=0){out.push([start,c-1]);start=-1;} } if(start>=0)out.push([start,0x10FFFF]); return out;}
let n=0,bad=0,rej=0;
function cmp(kind,name,expr){ let re; try{ re=new RegExp('^\\p{'+expr+'}$','u'); }catch(e){ rej++; console.log('V8 rejects',kind,name); return; } const ref=ranges(re); const got=R[kind][name]; n++; if(JSON.stringify(ref)!==JSON.stringify(got)){ bad++; console.log('DIFF',kind,name,'ref',ref.length,'got',got.length); } }
for(const k in R.binary) cmp('binary',k,k);
for(const k in R.gc){ cmp('gc',k,k); cmp('gc',k,'gc='+k); }
for(const k in R.sc){ cmp('sc',k,'sc='+k); cmp('scx',k,'scx='+k); }
console.log('compared',n,'diff',bad,'v8-rejected',rej);
