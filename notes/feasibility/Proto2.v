(* Scratch feasibility prototype 2: undo-log backtracker (BT) refines clone-style machine (BTc) via [unwind].
   Counter protocol and records mirror classicalbacktrack.rs (with the EnterLoop save-before-zero repair). *)
From Coq Require Import List Arith Bool Lia NArith.
Import ListNotations.
Require Import Proto.

Inductive rec :=
| RPos (ip pos : nat)
| RLoop (id : nat) (d : nat * nat)
| RNG (lip id orig : nat) (d : nat * nat).

Section BT.
Variable prog : list insn.
Variable inp : list N.

(* ---------- clone-style machine with the backtracker's loop protocol ---------- *)
Definition c_run_loop (s : st) (lip id min : nat) (max : option nat) (g : bool) (exit : nat) : sm :=
  let L := loops s in
  let '(it, en) := get_loop L id in
  if (en =? pos s) && (min <? it) then Fail else
  let do_taken := olt it max in
  let do_not := min <=? it in
  let s_enter L' := mk (S lip) (pos s) (set_loop L' id (S it, pos s)) in
  match do_taken, do_not with
  | false, false => Fail
  | false, true => Cont (mk exit (pos s) L)
  | true, false => Cont (s_enter L)
  | true, true =>
      if g then Split (s_enter L) (mk exit (pos s) L)
      else let L1 := set_loop L id (it, pos s) in Split (mk exit (pos s) L1) (s_enter L1)
  end.

Definition cstep (s : st) : sm :=
  match nth_error prog (ip s) with
  | None => Stuck
  | Some IGoal => Complete
  | Some (IChar c) => if chr_ok inp c (pos s) then Cont (mk (S (ip s)) (S (pos s)) (loops s)) else Fail
  | Some (IAlt sec) => Split (mk (S (ip s)) (pos s) (loops s)) (mk sec (pos s) (loops s))
  | Some (IJump t) => Cont (mk t (pos s) (loops s))
  | Some (IEnter id min max g exit) =>
      let '(_, en) := get_loop (loops s) id in
      c_run_loop (mk (ip s) (pos s) (set_loop (loops s) id (0, en))) (ip s) id min max g exit
  | Some (IAgain b) =>
      match nth_error prog b with
      | Some (IEnter id min max g exit) => c_run_loop s b id min max g exit
      | _ => Stuck
      end
  end.

Inductive DenC : list st -> option nat -> Prop :=
| C_nil : DenC [] None
| C_goal s K : cstep s = Complete -> DenC (s :: K) (Some (pos s))
| C_fail s K o : cstep s = Fail -> DenC K o -> DenC (s :: K) o
| C_cont s s' K o : cstep s = Cont s' -> DenC (s' :: K) o -> DenC (s :: K) o
| C_split s t b K o : cstep s = Split t b -> DenC (t :: b :: K) o -> DenC (s :: K) o.

(* ---------- undo-log machine ---------- *)
Definition cfg := (st * list rec)%type.

Fixpoint backtrack (L : list (nat*nat)) (B : list rec) : option cfg :=
  match B with
  | [] => None
  | RPos ip pos :: r => Some (mk ip pos L, r)
  | RLoop id d :: r => backtrack (set_loop L id d) r
  | RNG lip id orig (it, en) :: r =>
      let L1 := set_loop L id (it, en) in
      Some (mk (S lip) en (set_loop L1 id (S it, en)), RLoop id (it, en) :: RLoop id (it, orig) :: r)
  end.

Definition b_run_loop (s : st) (B : list rec) (lip id min : nat) (max : option nat) (g : bool) (exit : nat) : option cfg :=
  let L := loops s in
  let '(it, en) := get_loop L id in
  if (en =? pos s) && (min <? it) then None else
  let do_taken := olt it max in
  let do_not := min <=? it in
  match do_taken, do_not with
  | false, false => None
  | false, true => Some (mk exit (pos s) L, B)
  | true, false => Some (mk (S lip) (pos s) (set_loop L id (S it, pos s)), RLoop id (it, en) :: B)
  | true, true =>
      if g then Some (mk (S lip) (pos s) (set_loop L id (S it, pos s)), RLoop id (it, en) :: RPos exit (pos s) :: B)
      else Some (mk exit (pos s) (set_loop L id (it, pos s)), RNG lip id en (it, pos s) :: B)
  end.

Inductive bres := BDone (o : option nat) | BNext (c : cfg) | BStuck.

Definition or_backtrack (s : st) (B : list rec) (r : option cfg) : bres :=
  match r with
  | Some c => BNext c
  | None => match backtrack (loops s) B with Some c => BNext c | None => BDone None end
  end.

Definition bstep (c : cfg) : bres :=
  let '(s, B) := c in
  match nth_error prog (ip s) with
  | None => BStuck
  | Some IGoal => BDone (Some (pos s))
  | Some (IChar ch) => or_backtrack s B (if chr_ok inp ch (pos s) then Some (mk (S (ip s)) (S (pos s)) (loops s), B) else None)
  | Some (IAlt sec) => BNext (mk (S (ip s)) (pos s) (loops s), RPos sec (pos s) :: B)
  | Some (IJump t) => BNext (mk t (pos s) (loops s), B)
  | Some (IEnter id min max g exit) =>
      let '(it0, en) := get_loop (loops s) id in
      (* repaired order: save, then zero *)
      let B' := RLoop id (it0, en) :: B in
      let s0 := mk (ip s) (pos s) (set_loop (loops s) id (0, en)) in
      or_backtrack s0 B' (b_run_loop s0 B' (ip s) id min max g exit)
  | Some (IAgain b) =>
      match nth_error prog b with
      | Some (IEnter id min max g exit) => or_backtrack s B (b_run_loop s B b id min max g exit)
      | _ => BStuck
      end
  end.

Inductive DenB : cfg -> option nat -> Prop :=
| B_done c o : bstep c = BDone o -> DenB c o
| B_next c c' o : bstep c = BNext c' -> DenB c' o -> DenB c o.

(* ---------- unwind ---------- *)
Fixpoint unwind (L : list (nat*nat)) (B : list rec) : list st :=
  match B with
  | [] => []
  | RPos ip pos :: r => mk ip pos L :: unwind L r
  | RLoop id d :: r => unwind (set_loop L id d) r
  | RNG lip id orig (it, en) :: r =>
      mk (S lip) en (set_loop (set_loop L id (it, en)) id (S it, en)) :: unwind (set_loop L id (it, orig)) r
  end.

(* all loop ids mentioned in records / instructions are in range *)
Fixpoint recs_ok (n : nat) (B : list rec) : Prop :=
  match B with
  | [] => True
  | RPos _ _ :: r => recs_ok n r
  | RLoop id _ :: r => id < n /\ recs_ok n r
  | RNG _ id _ _ :: r => id < n /\ recs_ok n r
  end.
Definition prog_ok (n : nat) := forall i id min max g exit, nth_error prog i = Some (IEnter id min max g exit) -> id < n.

Lemma set_set : forall l id a b, id < length l -> set_loop (set_loop l id a) id b = set_loop l id b.
Proof.
  unfold set_loop. induction l as [|x tl IH]; intros id a b H; simpl in H; [lia|].
  destruct id; simpl; [reflexivity|]. f_equal. apply IH. lia.
Qed.

Lemma set_get : forall l id, id < length l -> set_loop l id (get_loop l id) = l.
Proof.
  unfold set_loop, get_loop. induction l as [|x tl IH]; intros id H; simpl in H; [lia|].
  destruct id; simpl; [reflexivity|]. f_equal. apply IH. lia.
Qed.

Lemma recs_ok_len n B : recs_ok n B -> True. Proof. trivial. Qed.

Lemma backtrack_unwind : forall B L n, length L = n -> recs_ok n B ->
  match backtrack L B with
  | Some (s', B') => unwind L B = s' :: unwind (loops s') B' /\ length (loops s') = n /\ recs_ok n B'
  | None => unwind L B = []
  end.
Proof.
  induction B as [|r B IH]; intros L n HL Hok; simpl.
  - reflexivity.
  - destruct r as [ip0 pos0|id d|lip id orig [it en]]; simpl in *.
    + repeat split; auto.
    + destruct Hok as [Hid Hok]. apply IH; auto. rewrite length_set; lia.
    + destruct Hok as [Hid Hok]. simpl. repeat split; auto.
      * rewrite !set_set by (rewrite ?length_set; lia). reflexivity.
      * rewrite !length_set; rewrite ?length_set; lia.
Qed.

Definition stack (c : cfg) : list st := fst c :: unwind (loops (fst c)) (snd c).
Definition Inv (n : nat) (c : cfg) := length (loops (fst c)) = n /\ recs_ok n (snd c).

(* failing in state s with records B: the clone machine fails s and continues with the unwound alternatives *)
Lemma fail_sim n s B : Inv n (s, B) -> cstep s = Fail ->
  match backtrack (loops s) B with
  | Some c' => Inv n c' /\ forall o, DenC (stack c') o -> DenC (stack (s, B)) o
  | None => DenC (stack (s, B)) None
  end.
Proof.
  intros [HL Hok] Hf. simpl in *. pose proof (backtrack_unwind B (loops s) n HL Hok) as H.
  destruct (backtrack (loops s) B) as [[s' B']|].
  - destruct H as (Hu & HL' & Hok'). split; [split; auto|]. intros o Ho. unfold stack in *. simpl in *.
    rewrite Hu. apply C_fail; auto.
  - unfold stack. simpl. rewrite H. apply C_fail; auto. constructor.
Qed.

Lemma c_b_run_loop n s B lip id min max g exit : Inv n (s, B) -> id < n ->
  match b_run_loop s B lip id min max g exit with
  | Some c' => Inv n c' /\ forall (K : list st) o, DenC (fst c' :: unwind (loops (fst c')) (snd c') ) o ->
                 forall s0, cstep s0 = c_run_loop s lip id min max g exit -> DenC (s0 :: unwind (loops s) B) o
  | None => c_run_loop s lip id min max g exit = Fail
  end.
Proof.
  intros [HL Hok] Hid. simpl in *. unfold b_run_loop, c_run_loop.
  destruct (get_loop (loops s) id) as [it en] eqn:Eg.
  destruct ((en =? pos s) && (min <? it)); [reflexivity|].
  assert (Hrestore : set_loop (set_loop (loops s) id (S it, pos s)) id (it, en) = loops s).
  { rewrite set_set by lia. rewrite <- Eg. apply set_get. lia. }
  destruct (olt it max), (min <=? it); simpl.
  - (* both *) destruct g.
    + split; [split; simpl; [rewrite length_set; lia|auto]|].
      intros _ o Ho s0 Hs0. eapply C_split; [exact Hs0|]. simpl in Ho. rewrite Hrestore in Ho. exact Ho.
    + split; [split; simpl; [rewrite length_set; lia|auto]|].
      intros _ o Ho s0 Hs0. eapply C_split; [exact Hs0|]. simpl in Ho.
      rewrite !set_set in Ho by (rewrite ?length_set; lia).
      assert (Hr : set_loop (loops s) id (it, en) = loops s) by (rewrite <- Eg; apply set_get; lia).
      rewrite Hr in Ho. rewrite set_set by lia. exact Ho.
  - (* enter only *)
    split; [split; simpl; [rewrite length_set; lia|auto]|].
    intros _ o Ho s0 Hs0. eapply C_cont; [exact Hs0|]. simpl in Ho. rewrite Hrestore in Ho. exact Ho.
  - (* exit only *)
    split; [split; simpl; auto|].
    intros _ o Ho s0 Hs0. eapply C_cont; [exact Hs0|]. exact Ho.
  - reflexivity.
Qed.

Theorem bt_refines_btc n : prog_ok n -> forall c o, DenB c o -> Inv n c -> DenC (stack c) o.
Proof.
  intros Hprog c o H. induction H as [c o Hd | c c' o Hs Hden IH]; intros HI.
  - (* done *)
    destruct c as [s B]. unfold bstep in Hd. unfold stack; simpl.
    destruct (nth_error prog (ip s)) as [i|] eqn:Ei; [|discriminate].
    destruct i as [ch|sec|t|id min max g exit|b|].
    + (* IChar *) unfold or_backtrack in Hd.
      destruct (chr_ok inp ch (pos s)) eqn:Ec; [discriminate|].
      assert (Hf : cstep s = Fail) by (unfold cstep; rewrite Ei, Ec; reflexivity).
      pose proof (fail_sim n s B HI Hf) as Hfs. destruct (backtrack (loops s) B); [discriminate|].
      inversion Hd; subst. exact Hfs.
    + discriminate.
    + discriminate.
    + (* IEnter *) destruct (get_loop (loops s) id) as [it0 en] eqn:Eg.
      assert (Hid : id < n) by (eapply Hprog; eauto).
      destruct HI as [HL Hok]. simpl in HL, Hok.
      set (s0 := mk (ip s) (pos s) (set_loop (loops s) id (0, en))) in *.
      set (B' := RLoop id (it0, en) :: B) in *.
      assert (HI0 : Inv n (s0, B')) by (split; simpl; [rewrite length_set; lia|auto]).
      pose proof (c_b_run_loop n s0 B' (ip s) id min max g exit HI0 Hid) as Hrl.
      unfold or_backtrack in Hd.
      destruct (b_run_loop s0 B' (ip s) id min max g exit); [discriminate|].
      assert (Hf : cstep s = Fail) by (unfold cstep; rewrite Ei, Eg; exact Hrl).
      (* backtracking from s0 with B' = undo the save, then B *)
      assert (Hbt : backtrack (loops s0) B' = backtrack (loops s) B).
      { simpl. rewrite set_set by lia. rewrite <- Eg. rewrite set_get by lia. reflexivity. }
      rewrite Hbt in Hd.
      pose proof (fail_sim n s B (conj HL Hok) Hf) as Hfs.
      destruct (backtrack (loops s) B); [discriminate|]. inversion Hd; subst. exact Hfs.
    + (* IAgain *) destruct (nth_error prog b) as [[| | |id min max g exit| |]|] eqn:Eb; try discriminate.
      assert (Hid : id < n) by (eapply Hprog; eauto).
      pose proof (c_b_run_loop n s B b id min max g exit HI Hid) as Hrl.
      unfold or_backtrack in Hd. destruct (b_run_loop s B b id min max g exit); [discriminate|].
      assert (Hf : cstep s = Fail) by (unfold cstep; rewrite Ei, Eb; exact Hrl).
      pose proof (fail_sim n s B HI Hf) as Hfs.
      destruct (backtrack (loops s) B); [discriminate|]. inversion Hd; subst. exact Hfs.
    + (* IGoal *) inversion Hd; subst. apply C_goal. unfold cstep. rewrite Ei. reflexivity.
  - (* next *)
    destruct c as [s B]. unfold bstep in Hs. unfold stack; simpl.
    destruct (nth_error prog (ip s)) as [i|] eqn:Ei; [|discriminate].
    destruct i as [ch|sec|t|id min max g exit|b|].
    + (* IChar *) unfold or_backtrack in Hs. destruct (chr_ok inp ch (pos s)) eqn:Ec.
      * inversion Hs; subst c'. eapply C_cont; [unfold cstep; rewrite Ei, Ec; reflexivity|].
        apply IH. destruct HI; split; auto.
      * assert (Hf : cstep s = Fail) by (unfold cstep; rewrite Ei, Ec; reflexivity).
        pose proof (fail_sim n s B HI Hf) as Hfs. destruct (backtrack (loops s) B) as [c1|]; [|discriminate].
        inversion Hs; subst c'. destruct Hfs as [HI1 Hsim]. apply Hsim. apply IH. exact HI1.
    + (* IAlt *) inversion Hs; subst c'. eapply C_split; [unfold cstep; rewrite Ei; reflexivity|].
      apply (IH (conj (proj1 HI) (proj2 HI))).
    + (* IJump *) inversion Hs; subst c'. eapply C_cont; [unfold cstep; rewrite Ei; reflexivity|].
      apply IH. destruct HI; split; auto.
    + (* IEnter *) destruct (get_loop (loops s) id) as [it0 en] eqn:Eg.
      assert (Hid : id < n) by (eapply Hprog; eauto).
      destruct HI as [HL Hok]. simpl in HL, Hok.
      set (s0 := mk (ip s) (pos s) (set_loop (loops s) id (0, en))) in *.
      set (B' := RLoop id (it0, en) :: B) in *.
      assert (HI0 : Inv n (s0, B')) by (split; simpl; [rewrite length_set; lia|auto]).
      pose proof (c_b_run_loop n s0 B' (ip s) id min max g exit HI0 Hid) as Hrl.
      assert (Hu0 : unwind (loops s0) B' = unwind (loops s) B).
      { simpl. rewrite set_set by lia. rewrite <- Eg. rewrite set_get by lia. reflexivity. }
      unfold or_backtrack in Hs.
      destruct (b_run_loop s0 B' (ip s) id min max g exit) as [c1|].
      * inversion Hs; subst c'. destruct Hrl as [HI1 Hsim].
        specialize (Hsim [] o (IH HI1) s). rewrite Hu0 in Hsim. apply Hsim.
        unfold cstep. rewrite Ei, Eg. reflexivity.
      * assert (Hf : cstep s = Fail) by (unfold cstep; rewrite Ei, Eg; exact Hrl).
        assert (Hbt : backtrack (loops s0) B' = backtrack (loops s) B).
        { simpl. rewrite set_set by lia. rewrite <- Eg. rewrite set_get by lia. reflexivity. }
        rewrite Hbt in Hs.
        pose proof (fail_sim n s B (conj HL Hok) Hf) as Hfs.
        destruct (backtrack (loops s) B) as [c1|]; [|discriminate].
        inversion Hs; subst c'. destruct Hfs as [HI1 Hsim]. apply Hsim. apply IH. exact HI1.
    + (* IAgain *) destruct (nth_error prog b) as [[| | |id min max g exit| |]|] eqn:Eb; try discriminate.
      assert (Hid : id < n) by (eapply Hprog; eauto).
      pose proof (c_b_run_loop n s B b id min max g exit HI Hid) as Hrl.
      unfold or_backtrack in Hs. destruct (b_run_loop s B b id min max g exit) as [c1|].
      * inversion Hs; subst c'. destruct Hrl as [HI1 Hsim].
        apply (Hsim [] o (IH HI1) s). unfold cstep. rewrite Ei, Eb. reflexivity.
      * assert (Hf : cstep s = Fail) by (unfold cstep; rewrite Ei, Eb; exact Hrl).
        pose proof (fail_sim n s B HI Hf) as Hfs. destruct (backtrack (loops s) B) as [c1|]; [|discriminate].
        inversion Hs; subst c'. destruct Hfs as [HI1 Hsim]. apply Hsim. apply IH. exact HI1.
    + discriminate.
Qed.
End BT.
Print Assumptions bt_refines_btc.
