use regress::{Flags, backends};
fn main(){
    let a: Vec<String> = std::env::args().collect();
    let mut ire = backends::try_parse(a[1].chars().map(u32::from), Flags::from(a[2].as_str())).unwrap();
    println!("{:?}", ire.node);
    backends::optimize(&mut ire);
    println!("{:?}", ire.node);
    println!("{:?}", backends::emit(&ire));
}
