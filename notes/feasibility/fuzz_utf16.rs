use regress::{Regex, Flags, backends};
use std::panic;
struct Rng(u64);
impl Rng { fn next(&mut self)->u64{ self.0 ^= self.0<<13; self.0 ^= self.0>>7; self.0 ^= self.0<<17; self.0 } fn below(&mut self,n:u64)->u64{ self.next()%n } }
fn atom(r:&mut Rng, depth:u32, ngroups:&mut u32, lb: bool)->String{
    let k = if depth==0 { r.below(6) } else { r.below(16) };
    match k {
        0|1 => ["a","b","c","é"][r.below(4) as usize].to_string(),
        2 => ".".to_string(),
        3 => ["[ab]","[^a]","\\w","\\d","[a-c]","\\W"][r.below(6) as usize].to_string(),
        4 => ["^","$","\\b","\\B"][r.below(4) as usize].to_string(),
        5 => { if *ngroups>0 { format!("\\{}", 1+r.below(*ngroups as u64)) } else { "a".into() } }
        6|7|8 => { *ngroups+=1; let inner=alt(r,depth-1,ngroups,lb); format!("({})",inner) }
        9|10 => { let inner=alt(r,depth-1,ngroups,lb); format!("(?:{})",inner) }
        11 => { let inner=alt(r,depth-1,ngroups,lb); format!("(?={})",inner) }
        12 => { let inner=alt(r,depth-1,ngroups,lb); format!("(?!{})",inner) }
        13 => { let inner=alt(r,depth-1,ngroups,true); format!("(?<={})",inner) }
        14 => { let inner=alt(r,depth-1,ngroups,true); format!("(?<!{})",inner) }
        _ => "".to_string(),
    }
}
fn quant(r:&mut Rng)->String{
    let q = match r.below(12){0=>"*".to_string(),1=>"+".into(),2=>"?".into(),3=>format!("{{{}}}",r.below(3)),4=>{let a=r.below(3);format!("{{{},{}}}",a,a+r.below(3))},5=>format!("{{{},}}",r.below(3)),_=>return "".into()};
    if r.below(3)==0 { format!("{}?",q) } else { q }
}
fn term(r:&mut Rng, depth:u32, ngroups:&mut u32, lb:bool)->String{
    let n = r.below(4);
    let mut s=String::new();
    for _ in 0..n { let a=atom(r,depth,ngroups,lb); let isassert = a.starts_with("(?<")||a=="^"||a=="$"||a=="\\b"||a=="\\B"||a.is_empty(); s.push_str(&a); if !isassert { s.push_str(&quant(r)); } }
    s
}
fn alt(r:&mut Rng, depth:u32, ngroups:&mut u32, lb:bool)->String{
    let n=1+r.below(3); let mut v=vec![]; for _ in 0..n { v.push(term(r,depth,ngroups,lb)); } v.join("|")
}
type Res = Vec<(std::ops::Range<usize>, Vec<Option<std::ops::Range<usize>>>)>;
fn conv(u16s:&[u16], r: std::ops::Range<usize>) -> std::ops::Range<usize> {
    let pre: usize = std::char::decode_utf16(u16s[0..r.start].iter().copied()).map(|c| c.map(|c| c.len_utf8()).unwrap_or(3)).sum();
    let len: usize = std::char::decode_utf16(u16s[r.clone()].iter().copied()).map(|c| c.map(|c| c.len_utf8()).unwrap_or(3)).sum();
    pre..pre+len
}
fn run(p:&str, f:&str, no_opt:bool, mode:u8, t:&str)->Result<Option<Res>,String>{
    let mut fl=Flags::from(f); fl.no_opt=no_opt;
    let re = match Regex::with_flags(p, fl){ Ok(r)=>r, Err(_)=>return Ok(None)};
    let u: Vec<u16> = t.encode_utf16().collect();
    let r = panic::catch_unwind(|| { match mode {
        0 => backends::find::<backends::BacktrackExecutor>(&re,t,0).map(|m|(m.range(),m.captures.clone())).collect::<Res>(),
        1 => re.find_from_utf16(&u,0).map(|m|(conv(&u,m.range()),m.captures.iter().map(|c| c.clone().map(|r| conv(&u,r))).collect())).collect::<Res>(),
        _ => re.find_from_ucs2(&u,0).map(|m|(conv(&u,m.range()),m.captures.iter().map(|c| c.clone().map(|r| conv(&u,r))).collect())).collect::<Res>(),
    }});
    match r { Ok(v)=>Ok(Some(v)), Err(_)=>Err("panic".into()) }
}
fn main(){
    panic::set_hook(Box::new(|_|{}));
    let args:Vec<String>=std::env::args().collect();
    let seed:u64=args.get(1).map(|s|s.parse().unwrap()).unwrap_or(1);
    let n:u64=args.get(2).map(|s|s.parse().unwrap()).unwrap_or(100000);
    let mut r=Rng(seed*0x9E3779B97F4A7C15+1);
    let hay=["","a","b","ab","aa","aab","aba","abc","aaa","abab","a\nb","éa","aé","ééa","abca","ba","ca","aaaa","bab"];
    let flagsets=["","i","m","s","u","iu","ms"];
    let dump = args.get(3).map(|s| s=="dump").unwrap_or(false);
    let (mut cases,mut dis_bp,mut dis_opt,mut panics)=(0u64,0u64,0u64,0u64);
    let mut shown=0;
    for _ in 0..n {
        let mut ng=0; let d = 1 + r.below(3) as u32; let p=alt(&mut r,d,&mut ng,false);
        let f=flagsets[r.below(flagsets.len() as u64) as usize];
        for t in hay.iter() {
            let a=run(&p,f,false,0,t); if let Ok(None)=a { break; }
            let b=run(&p,f,false,1,t); let c=run(&p,f,true,1,t); let d2=run(&p,f,false,2,t);
            cases+=1;
            if a.is_err()||b.is_err()||c.is_err()||d2.is_err() { panics+=1; if shown<20 {shown+=1; println!("PANIC /{}/{} on {:?} {} {} {} {}",p,f,t,a.is_err(),b.is_err(),c.is_err(),d2.is_err());} continue; }
            if a!=b || a!=c { dis_bp+=1; if shown<30 { shown+=1; println!("UTF16!=UTF8 /{}/{} on {:?}: {:?} vs {:?} / {:?}",p,f,t,a,b,c);} }
            else if a!=d2 { dis_opt+=1; if shown<30 { shown+=1; println!("UCS2!=UTF8 /{}/{} on {:?}: {:?} vs {:?}",p,f,t,a,d2);} }
        }
    }
    println!("cases={} utf16!=utf8={} ucs2!=utf8={} panics={}",cases,dis_bp,dis_opt,panics);
}
