const fs=require('fs'); const lines=fs.readFileSync(process.argv[2],'utf8').split('\n').filter(x=>x);
let n=0, bad={}, ex={};
for(const ln of lines){ const [p,f,r]=ln.split('\t'); let ok=true; try{ new RegExp(p,f);}catch(e){ ok=false;} n++; const rr=(r==='ok'); if(r==='panic'){ console.log('PANIC',p,f); } if(rr!==ok){ const k=f+':'+(rr?'regress-accepts':'regress-rejects'); bad[k]=(bad[k]||0)+1; (ex[k]=ex[k]||[]); if(ex[k].length<12) ex[k].push(p); } }
console.log('n',n, bad); for(const k in ex){ console.log(k, JSON.stringify(ex[k])); }
