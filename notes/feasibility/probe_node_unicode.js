const t0=Date.now();
// all code points string (surrogates as lone code units are fine under /u: they are code points)
let parts=[]; for(let c=0;c<=0x10FFFF;c++){ parts.push(String.fromCodePoint(c)); }
const all=parts.join('');
function ranges(re){ const out=[]; let pos=0,cp=0; // walk code points
  // faster: test each cp
  let start=-1; for(let c=0;c<=0x10FFFF;c++){ const m=re.test(parts[c]); if(m&&start<0)start=c; if(!m&&start>=0){out.push([start,c-1]);start=-1;} } if(start>=0)out.push([start,0x10FFFF]); return out;}
const r=ranges(/^\p{Alphabetic}$/u); console.log('Alphabetic ranges',r.length, Date.now()-t0,'ms');
const r2=ranges(/^\p{Script_Extensions=Latn}$/u); console.log('scx=Latn',r2.length, Date.now()-t0,'ms');
const r3=ranges(/^\p{Lu}$/u); console.log('Lu',r3.length, Date.now()-t0,'ms');
// unicode 17 check: new script
for (const s of ['Sidt','Sidetic','Tols','Berf','Beria_Erfe','Tayo','Chis','Garay','Gara']) { try{ new RegExp('\\p{Script='+s+'}','u'); console.log(s,'ok', ranges(new RegExp('^\\p{Script='+s+'}$','u')).length);}catch(e){console.log(s,'ERR');} }
// v flag
try{ console.log('v flag', /^[\p{RGI_Emoji}--\q{a}]$/v.test('\u{1F600}'), /^\p{RGI_Emoji}$/v.test('👨‍👩‍👧')); }catch(e){console.log('v ERR',e.message)}
try{ new RegExp('(?<a>x)|(?<a>y)'); console.log('dup names ok')}catch(e){console.log('dup names ERR')}
try{ new RegExp('(?i:a)'); console.log('modifiers ok')}catch(e){console.log('modifiers ERR')}
// fold classes
const cased=[]; for(let c=0;c<=0x10FFFF;c++){ if(c>=0xD800&&c<=0xDFFF)continue; const s=parts[c]; if(s.toLowerCase()!==s||s.toUpperCase()!==s) cased.push(c);} console.log('cased',cased.length, Date.now()-t0,'ms');
const t1=Date.now(); let n=0; for (const c of cased.slice(0,200)){ const re=new RegExp('\\u{'+c.toString(16)+'}','giu'); const ms=all.match(re); n+=ms.length;} console.log('200 scans', Date.now()-t1,'ms', n);
