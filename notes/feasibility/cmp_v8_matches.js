const fs=require('fs');
const lines=fs.readFileSync(process.argv[2],'utf8').split('\n').filter(x=>x.length);
let n=0,bad=0,skip=0,shown=0;
function b2i(s){ // map byte offset -> utf16 index
  const m=[0]; let bi=0; for(let i=0;i<s.length;){ const cp=s.codePointAt(i); const len=cp<0x80?1:cp<0x800?2:cp<0x10000?3:4; const ul=cp>0xFFFF?2:1; for(let k=1;k<=len;k++){ m[bi+k]=(k==len)?i+ul:-1;} bi+=len; i+=ul;} return m; }
for(const ln of lines){ const parts=ln.split('\t'); if(parts.length!=4){continue;} const [p,f,t0,res]=parts; const t=t0.replace(/\\n/g,'\n'); let re; try{ re=new RegExp(p,f+'d'); }catch(e){ skip++; continue; }
  n++; const m=re.exec(t); let js='null';
  if(m){ // convert indices to byte offsets
    const enc=(i)=>Buffer.byteLength(t.slice(0,i),'utf8');
    const caps=[]; for(let k=1;k<m.length;k++){ caps.push(m.indices[k]?`[${enc(m.indices[k][0])},${enc(m.indices[k][1])}]`:'null'); }
    js=`[[${enc(m.indices[0][0])},${enc(m.indices[0][1])}],[${caps.join(',')}]]`; }
  if(js!==res){ bad++; if(shown<25){shown++; console.log('DIFF /'+p+'/'+f+' on '+JSON.stringify(t)+' regress='+res+' v8='+js);} }
}
console.log('compared',n,'diff',bad,'js-rejected',skip);
