(* Scratch feasibility prototype: list-of-successes spec vs clone-stack (Pike-style) machine with
   EnterLoop/LoopAgain counters and the ES empty-iteration rule.  Not framework code. *)
From Coq Require Import List Arith Bool Lia NArith.
Import ListNotations.

Inductive node :=
| Empty | Chr (c : N) | Cat (a b : node) | Alt (a b : node)
| Loop (min : nat) (max : option nat) (greedy : bool) (body : node).

Section Spec.
Variable inp : list N.

Definition chr_ok (c : N) (p : nat) : bool :=
  match nth_error inp p with Some d => N.eqb c d | None => false end.

Definition omax_zero (m : option nat) := match m with Some 0 => true | _ => false end.
Definition opred (m : option nat) := match m with Some k => Some (pred k) | None => None end.

(* bind for option (list _) *)
Fixpoint obind {A B} (f : A -> option (list B)) (l : list A) : option (list B) :=
  match l with
  | [] => Some []
  | x :: tl => match f x, obind f tl with Some a, Some b => Some (a ++ b) | _, _ => None end
  end.

Fixpoint results (fuel : nat) (n : node) (p : nat) {struct fuel} : option (list nat) :=
  match fuel with O => None | S f =>
  match n with
  | Empty => Some [p]
  | Chr c => Some (if chr_ok c p then [S p] else [])
  | Cat a b => match results f a p with Some l => obind (results f b) l | None => None end
  | Alt a b => match results f a p, results f b p with Some x, Some y => Some (x ++ y) | _, _ => None end
  | Loop min max g body =>
      if omax_zero max then Some [p] else
      match results f body p with
      | None => None
      | Some qs =>
        match obind (fun q => if (min =? 0) && (q =? p) then Some []
                              else results f (Loop (pred min) (opred max) g body) q) qs with
        | None => None
        | Some iter =>
            Some (if 0 <? min then iter else if g then iter ++ [p] else p :: iter)
        end
      end
  end end.
End Spec.

(* ---------------- machine ---------------- *)
Inductive insn :=
| IChar (c : N) | IAlt (sec : nat) | IJump (t : nat)
| IEnter (id min : nat) (max : option nat) (g : bool) (exit : nat)
| IAgain (b : nat) | IGoal.

Record st := mk { ip : nat; pos : nat; loops : list (nat * nat) }.

Definition set_loop (l : list (nat*nat)) (id : nat) (v : nat*nat) : list (nat*nat) :=
  firstn id l ++ v :: skipn (S id) l.
Definition get_loop (l : list (nat*nat)) (id : nat) := nth id l (0,0).

Inductive sm := Fail | Cont (s : st) | Split (top below : st) | Complete | Stuck.

Definition olt (k : nat) (m : option nat) := match m with None => true | Some x => k <? x end.

Definition run_loop (s : st) (id min : nat) (max : option nat) (g : bool) (exit : nat) (initial : bool) : sm :=
  let '(it, en) := get_loop (loops s) id in
  let it' := if initial then 0 else S it in
  if negb initial && (min <? it') && (en =? pos s) then Fail else
  let enter_ok := olt it' max in
  let skip_ok := min <=? it' in
  let s1 := mk (S (ip s)) (pos s) (set_loop (loops s) id (it', pos s)) in
  let sx := mk exit (pos s) (set_loop (loops s) id (it', pos s)) in
  if negb enter_ok && negb skip_ok then Fail
  else if negb enter_ok then Cont sx
  else if negb skip_ok then Cont s1
  else if g then Split s1 sx else Split sx s1.

Section Machine.
Variable prog : list insn.
Variable inp : list N.

Definition step1 (s : st) : sm :=
  match nth_error prog (ip s) with
  | None => Stuck
  | Some IGoal => Complete
  | Some (IChar c) => if chr_ok inp c (pos s) then Cont (mk (S (ip s)) (S (pos s)) (loops s)) else Fail
  | Some (IAlt sec) => Split (mk (S (ip s)) (pos s) (loops s)) (mk sec (pos s) (loops s))
  | Some (IJump t) => Cont (mk t (pos s) (loops s))
  | Some (IEnter id min max g exit) => run_loop s id min max g exit true
  | Some (IAgain b) =>
      match nth_error prog b with
      | Some (IEnter id min max g exit) => run_loop (mk b (pos s) (loops s)) id min max g exit false
      | _ => Stuck
      end
  end.

(* big-step denotation of a stack: deterministic DFS; outcome = first state reaching Goal *)
Inductive Den : list st -> option st -> Prop :=
| D_nil : Den [] None
| D_goal s K : step1 s = Complete -> Den (s :: K) (Some s)
| D_fail s K o : step1 s = Fail -> Den K o -> Den (s :: K) o
| D_cont s s' K o : step1 s = Cont s' -> Den (s' :: K) o -> Den (s :: K) o
| D_split s t b K o : step1 s = Split t b -> Den (t :: b :: K) o -> Den (s :: K) o.

Lemma Den_det S o1 : Den S o1 -> forall o2, Den S o2 -> o1 = o2.
Proof.
  induction 1; intros o2 H2; inversion H2; subst; try congruence; auto.
  - apply IHDen. match goal with h1 : step1 s = Cont _, h2 : step1 s = Cont _ |- _ => rewrite h1 in h2; inversion h2; subst end. assumption.
  - apply IHDen. match goal with h1 : step1 s = Split _ _, h2 : step1 s = Split _ _ |- _ => rewrite h1 in h2; inversion h2; subst end. assumption.
Qed.

(* frame / append lemmas *)
Lemma Den_app_none S1 : Den S1 None -> forall S2 o, Den S2 o -> Den (S1 ++ S2) o.
Proof.
  intros H. remember None as r eqn:E. induction H; intros S2 o2 H2; simpl; try discriminate.
  - exact H2.
  - eapply D_fail; eauto.
  - eapply D_cont; eauto.
  - eapply D_split; eauto. apply (IHDen E _ _ H2).
Qed.

Lemma Den_app_some S1 r : Den S1 (Some r) -> forall S2, Den (S1 ++ S2) (Some r).
Proof.
  intros H. remember (Some r) as o eqn:E. induction H; intros S2; simpl; try discriminate.
  - inversion E; subst. now constructor.
  - eapply D_fail; eauto.
  - eapply D_cont; eauto.
  - eapply D_split; eauto. apply (IHDen E S2).
Qed.

(* "first success over a list of stacks" characterisation used by the compile proof *)
Definition Den_equiv_onto (S S' : list st) := forall K o, Den (S' ++ K) o -> Den (S ++ K) o.

Lemma Den_app_split S1 : forall S2 o, Den (S1 ++ S2) o ->
  (exists r, Den S1 (Some r) /\ o = Some r) \/ (Den S1 None /\ Den S2 o).
Proof.
  intros S2 o H. remember (S1 ++ S2) as S eqn:E. revert S1 S2 E.
  induction H; intros S1 S2 E.
  - destruct S1; [|discriminate]. right. split; [constructor|]. simpl in E. subst. constructor.
  - destruct S1 as [|x S1].
    + right. split; [constructor|]. simpl in E. subst. now constructor.
    + inversion E; subst. left. exists x. split; [now constructor|reflexivity].
  - destruct S1 as [|x S1].
    + right. split; [constructor|]. simpl in E. subst. eapply D_fail; eauto.
    + inversion E; subst. destruct (IHDen S1 S2 eq_refl) as [(r & Hr & ->)|(Hn & H2)].
      * left. exists r. split; auto. eapply D_fail; eauto.
      * right. split; auto. eapply D_fail; eauto.
  - destruct S1 as [|x S1].
    + right. split; [constructor|]. simpl in E. subst. eapply D_cont; eauto.
    + inversion E; subst. destruct (IHDen (s' :: S1) S2 eq_refl) as [(r & Hr & ->)|(Hn & H2)].
      * left. exists r. split; auto. eapply D_cont; eauto.
      * right. split; auto. eapply D_cont; eauto.
  - destruct S1 as [|x S1].
    + right. split; [constructor|]. simpl in E. subst. eapply D_split; eauto.
    + inversion E; subst. destruct (IHDen (t :: b :: S1) S2 eq_refl) as [(r & Hr & ->)|(Hn & H2)].
      * left. exists r. split; auto. eapply D_split; eauto.
      * right. split; auto. eapply D_split; eauto.
Qed.

(* Replacing a prefix by an "onto-equivalent" prefix. *)
Lemma onto_app S S' T T' : Den_equiv_onto S S' -> Den_equiv_onto T T' -> Den_equiv_onto (S ++ T) (S' ++ T').
Proof.
  intros HS HT K o H. rewrite <- app_assoc in *.
  apply HS. destruct (Den_app_split S' _ _ H) as [(r & Hr & ->)|(Hn & H2)].
  - now apply Den_app_some.
  - apply Den_app_none; auto.
Qed.

Lemma onto_refl S : Den_equiv_onto S S. Proof. intros K o H; exact H. Qed.
Lemma onto_trans A B C : Den_equiv_onto A B -> Den_equiv_onto B C -> Den_equiv_onto A C.
Proof. intros H1 H2 K o H. apply H1, H2, H. Qed.

Lemma onto_cont s s' : step1 s = Cont s' -> Den_equiv_onto [s] [s'].
Proof. intros E K o H. simpl in *. eapply D_cont; eauto. Qed.
Lemma onto_fail s : step1 s = Fail -> Den_equiv_onto [s] [].
Proof. intros E K o H. simpl in *. eapply D_fail; eauto. Qed.
Lemma onto_split s t b : step1 s = Split t b -> Den_equiv_onto [s] [t; b].
Proof. intros E K o H. simpl in *. eapply D_split; eauto. Qed.

End Machine.

(* ---------------- compiler ---------------- *)
Fixpoint emit (n : node) (off lid : nat) : list insn * nat :=
  match n with
  | Empty => ([], lid)
  | Chr c => ([IChar c], lid)
  | Cat a b => let '(ca, l1) := emit a off lid in
               let '(cb, l2) := emit b (off + length ca) l1 in (ca ++ cb, l2)
  | Alt a b => let '(ca, l1) := emit a (S off) lid in
               let '(cb, l2) := emit b (off + length ca + 2) l1 in
               (IAlt (off + length ca + 2) :: ca ++ IJump (off + length ca + 2 + length cb) :: cb, l2)
  | Loop min max g body =>
               let '(cb, l1) := emit body (S off) (S lid) in
               (IEnter lid min max g (off + length cb + 2) :: cb ++ [IAgain off], l1)
  end.

Fixpoint wf (n : node) : bool :=
  match n with
  | Empty | Chr _ => true
  | Cat a b | Alt a b => wf a && wf b
  | Loop min max _ body => (match max with Some x => min <=? x | None => true end) && wf body
  end.

Definition code_at (prog : list insn) (off : nat) (code : list insn) :=
  forall i x, nth_error code i = Some x -> nth_error prog (off + i) = Some x.

Lemma code_at_app prog off a b : code_at prog off (a ++ b) -> code_at prog off a /\ code_at prog (off + length a) b.
Proof.
  intros H; split; intros i x Hi.
  - apply H. rewrite nth_error_app1; auto. apply nth_error_Some. congruence.
  - rewrite <- Nat.add_assoc. apply H. rewrite nth_error_app2 by lia. replace (length a + i - length a) with i by lia. auto.
Qed.
Lemma code_at_cons prog off x c : code_at prog off (x :: c) -> nth_error prog off = Some x /\ code_at prog (S off) c.
Proof.
  intros H; split.
  - specialize (H 0 x eq_refl). now rewrite Nat.add_0_r in H.
  - intros i y Hi. specialize (H (S i) y Hi). now rewrite Nat.add_succ_r in H.
Qed.

Lemma emit_mono n : forall off lid code lid', emit n off lid = (code, lid') -> lid <= lid'.
Proof.
  induction n; simpl; intros off lid code lid' E.
  - inversion E; lia.
  - inversion E; lia.
  - destruct (emit n1 off lid) as [ca l1] eqn:E1. destruct (emit n2 (off + length ca) l1) as [cb l2] eqn:E2.
    inversion E; subst. apply IHn1 in E1. apply IHn2 in E2. lia.
  - destruct (emit n1 (S off) lid) as [ca l1] eqn:E1. destruct (emit n2 (off + length ca + 2) l1) as [cb l2] eqn:E2.
    inversion E; subst. apply IHn1 in E1. apply IHn2 in E2. lia.
  - destruct (emit n (S off) (S lid)) as [cb l1] eqn:E1. inversion E; subst. apply IHn in E1. lia.
Qed.

(* loop-table helpers *)
Lemma nth_firstn_lt {A} (l : list A) d : forall n i, i < n -> nth i (firstn n l) d = nth i l d.
Proof.
  induction l as [|x tl IH]; intros n i H.
  - rewrite firstn_nil. reflexivity.
  - destruct n; [lia|]. destruct i; simpl; auto. apply IH. lia.
Qed.
Lemma nth_skipn_add {A} (l : list A) d : forall n i, nth i (skipn n l) d = nth (n + i) l d.
Proof.
  induction l as [|x tl IH]; intros n i.
  - rewrite skipn_nil. destruct i, n; reflexivity.
  - destruct n; simpl; auto.
Qed.
Lemma get_set_same l id v : id < length l -> get_loop (set_loop l id v) id = v.
Proof.
  intros H. unfold get_loop, set_loop. rewrite app_nth2; rewrite firstn_length_le by lia; [|lia].
  now rewrite Nat.sub_diag.
Qed.
Lemma get_set_other l id id' v : id < length l -> id <> id' -> get_loop (set_loop l id v) id' = get_loop l id'.
Proof.
  intros H Hne. unfold get_loop, set_loop.
  destruct (Nat.lt_ge_cases id' id) as [Hlt|Hge].
  - rewrite app_nth1 by (rewrite firstn_length_le; lia). apply nth_firstn_lt; lia.
  - rewrite app_nth2 by (rewrite firstn_length_le; lia). rewrite firstn_length_le by lia.
    destruct (id' - id) as [|d] eqn:Ed; [lia|]. cbn [nth]. rewrite nth_skipn_add. f_equal. lia.
Qed.
Lemma length_set l id v : id < length l -> length (set_loop l id v) = length l.
Proof.
  intros H. unfold set_loop. rewrite app_length. cbn [length]. rewrite firstn_length_le by lia. rewrite skipn_length. lia.
Qed.

Lemma obind_inv {A B} (f : A -> option (list B)) l r : obind f l = Some r ->
  exists pieces, Forall2 (fun x pc => f x = Some pc) l pieces /\ r = concat pieces.
Proof.
  revert r; induction l as [|x tl IH]; simpl; intros r H.
  - inversion H. exists []. split; constructor.
  - destruct (f x) as [a|] eqn:Ea; [|discriminate]. destruct (obind f tl) as [b|] eqn:Eb; [|discriminate].
    inversion H; subst. destruct (IH b eq_refl) as (pcs & HF & ->). exists (a :: pcs). split; [constructor; auto|reflexivity].
Qed.

Section Correct.
Variable prog : list insn.
Variable inp : list N.

Notation onto := (Den_equiv_onto prog inp).

Lemma onto_concat S SS : Forall2 (fun s ss => onto [s] ss) S SS -> onto S (concat SS).
Proof.
  induction 1; simpl. apply onto_refl.
  change (x :: l) with ([x] ++ l). apply onto_app; auto.
Qed.

Definition at_end (s : st) (e lo hi : nat) (s' : st) :=
  ip s' = e /\ length (loops s') = length (loops s) /\
  forall id, id < lo \/ hi <= id -> get_loop (loops s') id = get_loop (loops s) id.

Lemma at_end_weaken s e lo hi lo' hi' s' : at_end s e lo hi s' -> lo' <= lo -> hi <= hi' -> at_end s e lo' hi' s'.
Proof. intros (A & B & C) H1 H2. repeat split; auto. intros id Hid. apply C. lia. Qed.

Lemma at_end_trans s s1 s2 e1 e2 lo hi : at_end s e1 lo hi s1 -> at_end s1 e2 lo hi s2 -> at_end s e2 lo hi s2.
Proof.
  intros (A & B & C) (A' & B' & C'). repeat split; auto; try congruence.
  intros id Hid. rewrite C', C; auto.
Qed.

(* The statement for a node at a given fuel. *)
Definition node_ok (fuel : nat) := forall n p l, results inp fuel n p = Some l -> wf n = true ->
  forall off lid code lid', emit n off lid = (code, lid') -> code_at prog off code ->
  forall s, ip s = off -> pos s = p -> lid' <= length (loops s) ->
  exists ss, map pos ss = l /\ Forall (at_end s (off + length code) lid lid') ss /\ onto [s] ss.

End Correct.

Section LoopLemma.
Variable prog : list insn.
Variable inp : list N.
Notation onto := (Den_equiv_onto prog inp).
Variables (min : nat) (max : option nat) (g : bool) (body : node) (off lid : nat) (cb : list insn) (l1 : nat).
Hypothesis Hemit : emit body (S off) (S lid) = (cb, l1).
Hypothesis Henter : nth_error prog off = Some (IEnter lid min max g (off + length cb + 2)).
Hypothesis Hbody : code_at prog (S off) cb.
Hypothesis Hagain : nth_error prog (S off + length cb) = Some (IAgain off).
Hypothesis Hwfmax : match max with Some x => min <= x | None => True end.
Hypothesis Hwfbody : wf body = true.

Definition osub (m : option nat) k := match m with Some x => Some (x - k) | None => None end.

Definition decision (k q : nat) (L : list (nat*nat)) : sm :=
  let enter_ok := olt k max in
  let skip_ok := min <=? k in
  let s1 := mk (S off) q (set_loop L lid (k, q)) in
  let sx := mk (off + length cb + 2) q (set_loop L lid (k, q)) in
  if negb enter_ok && negb skip_ok then Fail
  else if negb enter_ok then Cont sx
  else if negb skip_ok then Cont s1
  else if g then Split s1 sx else Split sx s1.

Let exit := off + length cb + 2.

Lemma lid_lt_l1 : lid < l1.
Proof. apply emit_mono in Hemit. lia. Qed.

Lemma at_end_exit s k q : lid < length (loops s) ->
  at_end s exit lid l1 (mk exit q (set_loop (loops s) lid (k, q))).
Proof.
  intros H. repeat split; simpl.
  - apply length_set; auto.
  - intros id Hid. apply get_set_other; auto. pose proof lid_lt_l1. lia.
Qed.

Lemma loop_dec : forall fuel, (forall f', f' < fuel -> node_ok prog inp f') ->
  forall k q l, results inp fuel (Loop (min - k) (osub max k) g body) q = Some l ->
  forall s, pos s = q -> step1 prog inp s = decision k q (loops s) -> l1 <= length (loops s) ->
  exists ss, map pos ss = l /\ Forall (at_end s exit lid l1) ss /\ onto [s] ss.
Proof.
  induction fuel as [|f IHf]; intros Hnode k q l Hres s Hpos Hstep Hlen; [discriminate|].
  pose proof lid_lt_l1 as Hlid.
  cbn [results] in Hres.
  destruct (omax_zero (osub max k)) eqn:Emz.
  - (* max reached: exit *)
    inversion Hres; subst l; clear Hres.
    assert (Hk : olt k max = false /\ (min <=? k) = true).
    { destruct max as [x|]; simpl in Emz; [|discriminate].
      destruct (x - k) eqn:Ex; [|discriminate]. simpl. split; [apply Nat.ltb_ge; lia|apply Nat.leb_le; lia]. }
    destruct Hk as [Hk1 Hk2]. unfold decision in Hstep. rewrite Hk1, Hk2 in Hstep. simpl in Hstep.
    exists [mk exit q (set_loop (loops s) lid (k, q))]. split; [|split].
    + simpl. reflexivity.
    + constructor; [|constructor]. apply at_end_exit. lia.
    + eapply onto_cont. exact Hstep.
  - (* can enter *)
    assert (Hk1 : olt k max = true).
    { destruct max as [x|]; simpl in *; auto. destruct (x - k) eqn:Ex; [discriminate|]. apply Nat.ltb_lt. lia. }
    destruct (results inp f body q) as [qs|] eqn:Eqs; [|discriminate].
    match type of Hres with match ?ob with _ => _ end = _ => destruct ob as [iter|] eqn:Eiter; [|discriminate] end.
    inversion Hres; subst l; clear Hres.
    (* body from s1 *)
    set (L1 := set_loop (loops s) lid (k, q)).
    set (s1 := mk (S off) q L1).
    assert (HL1len : length L1 = length (loops s)) by (apply length_set; lia).
    destruct f as [|f0]; [discriminate|].
    assert (Hn : node_ok prog inp (S f0)) by (apply Hnode; lia).
    destruct (Hn body q qs Eqs Hwfbody (S off) (S lid) cb l1 Hemit Hbody s1 eq_refl eq_refl) as (ssb & Hmapb & Hendb & Hontob).
    { simpl. lia. }
    (* each body result at IAgain *)
    destruct (obind_inv _ _ _ Eiter) as (pcs & HF2 & ->).
    assert (Hpieces : exists SS, Forall2 (fun sb ss => onto [sb] ss) ssb SS /\
                                 map pos (concat SS) = concat pcs /\
                                 Forall (at_end s exit lid l1) (concat SS)).
    { clear Hontob Eiter Eqs Hpos. revert pcs HF2 Hendb. rewrite <- Hmapb. clear Hmapb.
      induction ssb as [|sb tl IHtl]; intros pcs HF2 Hendb.
      - inversion HF2; subst. exists []. repeat split; constructor.
      - cbn [map] in HF2. inversion HF2 as [|? pc ? pcs' Hpc HF2']; subst.
        inversion Hendb as [|? ? Hsb Hendtl]; subst.
        destruct (IHtl pcs' HF2' Hendtl) as (SS & HSS & Hmap & Hat).
        destruct Hsb as (Hip & Hlen' & Hagree).
        assert (Hget : get_loop (loops sb) lid = (k, q)).
        { rewrite Hagree by (left; lia). simpl. unfold L1. apply get_set_same. lia. }
        assert (Hstep_sb : step1 prog inp sb =
                 if (min <? S k) && (q =? pos sb) then Fail else decision (S k) (pos sb) (loops sb)).
        { unfold step1. rewrite Hip. replace (S off + length cb) with (S off + length cb) by reflexivity.
          rewrite Hagain. rewrite Henter. unfold run_loop. cbn [loops pos ip]. rewrite Hget. cbn [negb andb].
          destruct ((min <? S k) && (q =? pos sb)); reflexivity. }
        assert (Hcond : ((min - k =? 0) && (pos sb =? q)) = ((min <? S k) && (q =? pos sb))).
        { f_equal. - destruct (min - k =? 0) eqn:E1, (min <? S k) eqn:E2; auto.
            + apply Nat.eqb_eq in E1. apply Nat.ltb_ge in E2. lia.
            + apply Nat.eqb_neq in E1. apply Nat.ltb_lt in E2. lia.
          - apply Nat.eqb_sym. }
        rewrite Hcond in Hpc. rewrite <- Hcond in Hstep_sb. rewrite Hcond in Hstep_sb.
        destruct ((min <? S k) && (q =? pos sb)) eqn:Echk.
        + inversion Hpc; subst pc. exists ([] :: SS). repeat split.
          * constructor; auto. apply onto_fail. exact Hstep_sb.
          * simpl. exact Hmap.
          * simpl. exact Hat.
        + replace (pred (min - k)) with (min - S k) in Hpc by lia.
          replace (opred (osub max k)) with (osub max (S k)) in Hpc by (destruct max; simpl; f_equal; lia).
          destruct (IHf (fun f' Hf' => Hnode f' (Nat.lt_trans _ _ _ Hf' (Nat.lt_succ_diag_r _))) (S k) (pos sb) pc Hpc sb eq_refl Hstep_sb) as (ss & Hm & He & Ho).
          { rewrite Hlen'. unfold s1. cbn [loops]. lia. }
          exists (ss :: SS). repeat split.
          * constructor; auto.
          * simpl. rewrite map_app. congruence.
          * simpl. apply Forall_app. split; auto.
            eapply Forall_impl; [|exact He]. intros a Ha.
            destruct Ha as (A & B & C). split; [exact A|split].
            -- rewrite B, Hlen'. unfold s1; cbn [loops]. exact HL1len.
            -- intros id Hid. rewrite C by auto. rewrite Hagree by lia. unfold s1; cbn [loops]. unfold L1.
               apply get_set_other; lia. }
    destruct Hpieces as (SS & HSS & Hmap & Hat).
    assert (Honto1 : onto [s1] (concat SS)).
    { eapply onto_trans; [exact Hontob|]. apply onto_concat. exact HSS. }
    set (sx := mk exit q L1).
    assert (Hsx : at_end s exit lid l1 sx) by (apply at_end_exit; lia).
    unfold decision in Hstep. rewrite Hk1 in Hstep. cbn [negb andb] in Hstep.
    fold L1 in Hstep. fold s1 in Hstep. fold exit in Hstep. fold sx in Hstep.
    destruct (min <=? k) eqn:Eskip; cbn [negb] in Hstep.
    + (* skip ok: min - k = 0 *)
      assert (Emk : (0 <? min - k) = false) by (apply Nat.ltb_ge; apply Nat.leb_le in Eskip; lia).
      rewrite Emk. destruct g.
      * exists (concat SS ++ [sx]). split; [|split].
        -- rewrite map_app. simpl. congruence.
        -- apply Forall_app. split; auto.
        -- eapply onto_trans; [apply onto_split; exact Hstep|].
           change [s1; sx] with ([s1] ++ [sx]). apply onto_app; auto. apply onto_refl.
      * exists (sx :: concat SS). split; [|split].
        -- simpl. congruence.
        -- constructor; auto.
        -- eapply onto_trans; [apply onto_split; exact Hstep|].
           change [sx; s1] with ([sx] ++ [s1]). change (sx :: concat SS) with ([sx] ++ concat SS).
           apply onto_app; auto. apply onto_refl.
    + assert (Emk : (0 <? min - k) = true) by (apply Nat.ltb_lt; apply Nat.leb_gt in Eskip; lia).
      rewrite Emk. exists (concat SS). split; [|split]; auto.
      eapply onto_trans; [apply onto_cont; exact Hstep|]. exact Honto1.
Qed.
End LoopLemma.

Section Main.
Variable prog : list insn.
Variable inp : list N.
Notation onto := (Den_equiv_onto prog inp).

Lemma at_end_self s e lo hi : ip s = e -> at_end s e lo hi s.
Proof. intros H. repeat split; auto. Qed.

Theorem all_ok : forall fuel, node_ok prog inp fuel.
Proof.
  induction fuel as [fuel IH] using lt_wf_ind.
  destruct fuel as [|f]; intros n p l Hres Hwf off lid code lid' Hemit Hcode s Hip Hpos Hlen; [discriminate|].
  destruct n as [|c|a b|a b|min max g body]; cbn [results] in Hres; cbn [emit] in Hemit.
  - (* Empty *) inversion Hres; inversion Hemit; subst l code lid'. exists [s]. split; [|split].
    + simpl. congruence.
    + constructor; [|constructor]. apply at_end_self. simpl. lia.
    + apply onto_refl.
  - (* Chr *) inversion Hres; inversion Hemit; subst. clear Hres Hemit.
    apply code_at_cons in Hcode. destruct Hcode as [Hc _].
    assert (Hstep : step1 prog inp s = if chr_ok inp c (pos s) then Cont (mk (S (ip s)) (S (pos s)) (loops s)) else Fail).
    { unfold step1. rewrite Hc. reflexivity. }
    destruct (chr_ok inp c (pos s)) eqn:E.
    + exists [mk (S (ip s)) (S (pos s)) (loops s)]. repeat split; auto.
      * constructor; [|constructor]. repeat split; simpl; auto. lia.
      * apply onto_cont. exact Hstep.
    + exists []. repeat split; auto. apply onto_fail. exact Hstep.
  - (* Cat *)
    destruct (emit a off lid) as [ca l1] eqn:Ea. destruct (emit b (off + length ca) l1) as [cbb l2] eqn:Eb.
    inversion Hemit; subst code lid'; clear Hemit.
    simpl in Hwf. apply andb_prop in Hwf. destruct Hwf as [Hwa Hwb].
    apply code_at_app in Hcode. destruct Hcode as [Hca Hcb].
    destruct (results inp f a p) as [la|] eqn:Era; [|discriminate].
    pose proof (emit_mono _ _ _ _ _ Ea) as M1. pose proof (emit_mono _ _ _ _ _ Eb) as M2.
    destruct (IH f (Nat.lt_succ_diag_r f) a p la Era Hwa off lid ca l1 Ea Hca s Hip Hpos) as (ssa & Hma & Hea & Hoa); [lia|].
    destruct (obind_inv _ _ _ Hres) as (pcs & HF2 & ->).
    assert (Hpieces : exists SS, Forall2 (fun sa ss => onto [sa] ss) ssa SS /\
              map pos (concat SS) = concat pcs /\
              Forall (at_end s (off + length (ca ++ cbb)) lid l2) (concat SS)).
    { clear Hoa Hres Era. revert pcs HF2 Hea. rewrite <- Hma. clear Hma.
      induction ssa as [|sa tl IHtl]; intros pcs HF2 Hea.
      - inversion HF2; subst. exists []. repeat split; constructor.
      - cbn [map] in HF2. inversion HF2 as [|? pc ? pcs' Hpc HF2']. subst pcs.
        inversion Hea as [|? ? Hsa Heatl].
        destruct (IHtl pcs' HF2' Heatl) as (SS & HSS & Hmap & Hat).
        destruct Hsa as (Hipa & Hlena & Hagra).
        destruct (IH f (Nat.lt_succ_diag_r f) b (pos sa) pc Hpc Hwb (off + length ca) l1 cbb l2 Eb Hcb sa Hipa eq_refl) as (ss & Hm & He & Ho); [lia|].
        exists (ss :: SS). repeat split.
        + constructor; auto.
        + simpl. rewrite map_app. congruence.
        + simpl. apply Forall_app. split; auto.
          eapply Forall_impl; [|exact He]. intros z (A & B & C). split; [|split].
          * rewrite A, app_length. lia.
          * congruence.
          * intros id Hid. rewrite C by lia. apply Hagra. lia. }
    destruct Hpieces as (SS & HSS & Hmap & Hat).
    exists (concat SS). repeat split; auto.
    eapply onto_trans; [exact Hoa|]. apply onto_concat. exact HSS.
  - (* Alt *)
    destruct (emit a (S off) lid) as [ca l1] eqn:Ea. destruct (emit b (off + length ca + 2) l1) as [cbb l2] eqn:Eb.
    inversion Hemit; subst code lid'; clear Hemit.
    simpl in Hwf. apply andb_prop in Hwf. destruct Hwf as [Hwa Hwb].
    apply code_at_cons in Hcode. destruct Hcode as [Halt Hrest].
    apply code_at_app in Hrest. destruct Hrest as [Hca Hrest].
    apply code_at_cons in Hrest. destruct Hrest as [Hjmp Hcb].
    destruct (results inp f a p) as [la|] eqn:Era; [|discriminate].
    destruct (results inp f b p) as [lb|] eqn:Erb; [|discriminate].
    inversion Hres; subst l; clear Hres.
    pose proof (emit_mono _ _ _ _ _ Ea) as M1. pose proof (emit_mono _ _ _ _ _ Eb) as M2.
    set (sl := mk (S (ip s)) (pos s) (loops s)). set (sr := mk (off + length ca + 2) (pos s) (loops s)).
    assert (Hstep : step1 prog inp s = Split sl sr). { unfold step1. rewrite Hip, Halt. subst sl sr. rewrite Hip. reflexivity. }
    destruct (IH f (Nat.lt_succ_diag_r f) a p la Era Hwa (S off) lid ca l1 Ea Hca sl) as (ssa & Hma & Hea & Hoa);
      [subst sl; simpl; lia | exact Hpos | simpl; lia |].
    destruct (IH f (Nat.lt_succ_diag_r f) b p lb Erb Hwb (off + length ca + 2) l1 cbb l2 Eb) with (s := sr) as (ssb & Hmb & Heb & Hob);
      [ replace (off + length ca + 2) with (S (S off + length ca)) by lia; exact Hcb
      | reflexivity | exact Hpos | simpl; lia |].
    (* the left results sit at the Jump; each steps to the end *)
    set (e := off + length (IAlt (off + length ca + 2) :: ca ++ IJump (off + length ca + 2 + length cbb) :: cbb)).
    assert (He : e = off + length ca + 2 + length cbb) by (subst e; simpl; rewrite app_length; simpl; lia).
    set (ssa' := map (fun x => mk e (pos x) (loops x)) ssa).
    assert (Hjs : Forall2 (fun x ss => onto [x] ss) ssa (map (fun x => [mk e (pos x) (loops x)]) ssa)).
    { clear Hoa Hma. induction ssa as [|x tl IHtl]; simpl; constructor.
      - inversion Hea as [|? ? (A & B & C) ?]; subst. apply onto_cont. unfold step1. rewrite A, Hjmp. rewrite He. reflexivity.
      - apply IHtl. now inversion Hea. }
    assert (Hcc : concat (map (fun x => [mk e (pos x) (loops x)]) ssa) = ssa').
    { subst ssa'. clear. induction ssa; simpl; congruence. }
    exists (ssa' ++ ssb). split; [|split].
    + rewrite map_app. subst ssa'. rewrite map_map. simpl. rewrite map_ext with (g := pos) by reflexivity. congruence.
    + apply Forall_app. split.
      * subst ssa'. apply Forall_forall. intros z Hz. apply in_map_iff in Hz. destruct Hz as (y & <- & Hy).
        rewrite Forall_forall in Hea. destruct (Hea y Hy) as (A & B & C). repeat split; simpl; auto.
        intros id Hid. apply C. lia.
      * eapply Forall_impl; [|exact Heb]. intros z (A & B & C). repeat split; auto.
        -- rewrite A. lia.
        -- intros id Hid. apply C. lia.
    + eapply onto_trans; [apply onto_split; exact Hstep|].
      change [sl; sr] with ([sl] ++ [sr]). apply onto_app; auto.
      eapply onto_trans; [exact Hoa|]. rewrite <- Hcc. apply onto_concat. exact Hjs.
  - (* Loop *)
    destruct (emit body (S off) (S lid)) as [cb l1] eqn:Eb.
    inversion Hemit; subst code lid'; clear Hemit.
    simpl in Hwf. apply andb_prop in Hwf. destruct Hwf as [Hwm Hwb].
    apply code_at_cons in Hcode. destruct Hcode as [Henter Hrest].
    apply code_at_app in Hrest. destruct Hrest as [Hcb Hag].
    apply code_at_cons in Hag. destruct Hag as [Hag _].
    assert (Hwm' : match max with Some x => min <= x | None => True end).
    { destruct max; auto. now apply Nat.leb_le. }
    assert (Hend : off + length (IEnter lid min max g (off + length cb + 2) :: cb ++ [IAgain off]) = off + length cb + 2).
    { simpl. rewrite app_length. simpl. lia. }
    rewrite Hend.
    apply (loop_dec prog inp min max g body off lid cb l1 Eb Henter Hcb Hag Hwm' Hwb (S f)
             (fun f' _ => IH f' ltac:(assumption)) 0 p l).
    + rewrite Nat.sub_0_r. replace (osub max 0) with max by (destruct max; simpl; f_equal; lia). exact Hres.
    + exact Hpos.
    + unfold step1. rewrite Hip, Henter. unfold run_loop, decision. rewrite Hip, Hpos.
      destruct (get_loop (loops s) lid). cbn [negb andb]. reflexivity.
    + exact Hlen.
Qed.

(* Top level: whole program = code ++ [IGoal]; the machine's outcome position is the first spec result. *)
Theorem top_correct n fuel l code lid' :
  wf n = true -> results inp fuel n 0 = Some l -> emit n 0 0 = (code, lid') ->
  prog = code ++ [IGoal] ->
  forall L, lid' <= length L ->
  exists o, Den prog inp [mk 0 0 L] o /\ option_map pos o = hd_error l.
Proof.
  intros Hwf Hres Hemit Hprog L HL.
  assert (Hcode : code_at prog 0 code).
  { intros i x Hi. rewrite Hprog. simpl. rewrite nth_error_app1; auto. apply nth_error_Some. congruence. }
  destruct (all_ok fuel n 0 l Hres Hwf 0 0 code lid' Hemit Hcode (mk 0 0 L) eq_refl eq_refl HL) as (ss & Hm & He & Ho).
  assert (Hgoal : forall x, In x ss -> step1 prog inp x = Complete).
  { intros x Hx. rewrite Forall_forall in He. destruct (He x Hx) as (A & _). unfold step1. rewrite A, Hprog. simpl.
    rewrite nth_error_app2 by lia. rewrite Nat.sub_diag. reflexivity. }
  destruct ss as [|x tl].
  - exists None. split; [|simpl in Hm; subst; reflexivity]. specialize (Ho [] None). simpl in Ho. apply Ho. constructor.
  - exists (Some x). split; [|simpl in Hm; subst; reflexivity].
    specialize (Ho [] (Some x)). rewrite app_nil_r in Ho. apply Ho. constructor. apply Hgoal. now left.
Qed.
End Main.
Print Assumptions top_correct.
