From Coq Require Import NArith ZArith List Bool Lia.
Import ListNotations. Open Scope N_scope.

(* as T2 would translate util.rs (u8/u32 arithmetic; widths explicit where they matter) *)
Definition mask_shift (b mask shift : N) : N := N.shiftl (N.land b (N.shiftl 1 mask - 1)) shift.
Definition utf8_w2 b0 b1 := N.lor (mask_shift b0 5 6) (mask_shift b1 6 0).
Definition utf8_w3 b0 b1 b2 := N.lor (N.lor (mask_shift b0 4 12) (mask_shift b1 6 6)) (mask_shift b2 6 0).
Definition utf8_w4 b0 b1 b2 b3 := N.lor (N.lor (N.lor (mask_shift b0 3 18) (mask_shift b1 6 12)) (mask_shift b2 6 6)) (mask_shift b3 6 0).
Definition utf8_first_byte (cp : N) : N :=
  if cp <? 0x80 then cp
  else if cp <? 0x800 then N.lor (N.land (N.shiftr cp 6) 0x1F) 0xC0
  else if cp <? 0x10000 then N.lor (N.land (N.shiftr cp 12) 0x0F) 0xE0
  else N.lor (N.land (N.shiftr cp 18) 0x07) 0xF0.
(* reference encoder (char::encode_utf8) *)
Definition cont (x : N) := N.lor (N.land x 0x3F) 0x80.
Definition encode (cp : N) : list N :=
  if cp <? 0x80 then [cp]
  else if cp <? 0x800 then [utf8_first_byte cp; cont cp]
  else if cp <? 0x10000 then [utf8_first_byte cp; cont (N.shiftr cp 6); cont cp]
  else [utf8_first_byte cp; cont (N.shiftr cp 12); cont (N.shiftr cp 6); cont cp].
Definition decode (bs : list N) : option N :=
  match bs with
  | [b0] => Some b0
  | [b0; b1] => Some (utf8_w2 b0 b1)
  | [b0; b1; b2] => Some (utf8_w3 b0 b1 b2)
  | [b0; b1; b2; b3] => Some (utf8_w4 b0 b1 b2 b3)
  | _ => None
  end.

(* Style 1: exhaustive sweep by ranges, lifted by a generic lemma *)
Fixpoint all_from (n : nat) (c : N) (P : N -> bool) : bool :=
  match n with O => true | S k => P c && all_from k (c + 1) P end.
Lemma all_from_spec n : forall c P, all_from n c P = true -> forall x, c <= x < c + N.of_nat n -> P x = true.
Proof.
  induction n; intros c P H x Hx; [lia|].
  simpl in H. apply andb_prop in H. destruct H as [H0 H1].
  destruct (N.eq_dec x c) as [->|Hne]; auto.
  apply (IHn (c + 1) P H1). lia.
Qed.
Definition rt (c : N) : bool := match decode (encode c) with Some d => N.eqb d c | None => false end.
Time Lemma rt_2 : all_from 1920 0x80 rt = true. Proof. vm_compute. reflexivity. Qed.
Time Lemma rt_3 : all_from 63488 0x800 rt = true. Proof. vm_compute. reflexivity. Qed.
Definition stepP (P : N -> bool) (p : N * bool) : N * bool := let '(c, ok) := p in (c + 1, ok && P c).
Definition all_fromN (n c : N) (P : N -> bool) : bool := snd (N.iter n (stepP P) (c, true)).
Lemma rt_4 : all_fromN 1048576 0x10000 rt = true.
Proof. vm_compute. reflexivity. Qed.
