import json
cs=json.load(open('cases.json')); rs=json.load(open('results.json'))
lines=["From Coq Require Import List NArith Arith Bool. Import ListNotations. Require Import SpecProto.",
"Definition enc (r : option (option (nat*nat*caps))) : list nat := match r with None => [99999] | Some None => [] | Some (Some (s,e,c)) => s :: e :: flat_map (fun x => match x with None => [0] | Some (a,b) => [1;a;b] end) c end.",
"Fixpoint leq (a b : list nat) : bool := match a, b with [], [] => true | x::a', y::b' => Nat.eqb x y && leq a' b' | _, _ => false end.",
"Definition chk (h : list N) (r : regex) (ng : nat) (expect : list nat) : bool := leq (enc (es_first h r ng)) expect."]
items=[]; idx=[]
for i,(c,r) in enumerate(zip(cs,rs)):
    if 'err' in r: continue
    if r['res'] is None: exp='[]'
    else:
        s,e,caps=r['res']; flat=[s,e]
        for x in caps:
            flat += [0] if x is None else [1,x[0],x[1]]
        exp='['+'; '.join(map(str,flat))+']'
    hay='['+'; '.join(str(ord(ch))+'%N' for ch in c['hay'])+']'
    items.append("chk %s %s %d %s"%(hay,c['coq'],c['ng'],exp)); idx.append(i)
lines.append("Definition all := [\n"+";\n".join(items)+"].")
lines.append("Eval vm_compute in (map (fun b : bool => if b then 1 else 0) all).")
open('Cases.v','w').write("\n".join(lines)+"\n"); json.dump(idx,open('idx.json','w'))
