import random, json, sys
seed=int(sys.argv[1]); n=int(sys.argv[2]); random.seed(seed)
ALPHA=['a','b','c']
class Ctx:
    def __init__(s): s.g=0
def gen(ctx, depth, flags):
    k = random.randrange(7 if depth==0 else 24)
    if k<=1: return ('char', random.choice(ALPHA))
    if k==2: return ('any',)
    if k==3:
        inv=random.random()<0.3
        rs=random.choice([[('a','b')],[('a','a'),('c','c')],[('b','c')],[('a','c')]])
        return ('class',inv,rs)
    if k==4: return random.choice([('bol',),('eol',),('wordb',False),('wordb',True)])
    if k==5: return ('empty',)
    if k==6:
        if ctx.total>0: return ('backref', random.randrange(ctx.total))
        return ('char','a')
    if k in (7,8):
        a=gen(ctx,depth-1,flags); b=gen(ctx,depth-1,flags); return ('seq',a,b)
    if k==9:
        a=gen(ctx,depth-1,flags); b=gen(ctx,depth-1,flags); return ('alt',a,b)
    if k in (10,11):
        gid=ctx.g; ctx.g+=1; r=gen(ctx,depth-1,flags); return ('group',gid,r)
    if k in (12,13,14):
        gs=ctx.g; r=gen(ctx,depth-1,flags); ge=ctx.g
        mn,mx=random.choice([(0,None),(1,None),(0,1),(0,2),(1,2),(2,2),(1,1),(0,0),(2,3),(2,None)])
        return ('quant',r,mn,mx,random.random()<0.6,gs,ge)
    if k in (15,16):
        ahead=random.random()<0.4; neg=random.random()<0.3
        r=gen(ctx,depth-1,flags); return ('look',ahead,neg,r)
    if k in (17,18,19):
        # loop over an alternation with a group: exercises per-iteration capture reset
        gid=ctx.g; ctx.g+=1; a=gen(ctx,max(depth-2,0),flags); b=gen(ctx,max(depth-2,0),flags)
        body=('alt',('group',gid,a),b) if random.random()<0.5 else ('alt',b,('group',gid,a))
        return ('quant',body,random.choice([0,1,2]),random.choice([None,2,3]),random.random()<0.7,gid,ctx.g)
    if k in (20,21):
        # lookbehind over a sequence with a group and a backref candidate
        gid=ctx.g; ctx.g+=1; a=gen(ctx,max(depth-2,0),flags); b=gen(ctx,max(depth-2,0),flags); c=gen(ctx,max(depth-2,0),flags)
        return ('look',False,random.random()<0.2,('seq',a,('seq',('group',gid,b),c)))
    a=gen(ctx,depth-1,flags); b=gen(ctx,depth-1,flags); return ('seq',a,b)
def renumber(t):
    # assign group ids in source (pre-order, left-to-right) order; remap backrefs; recompute quant ranges
    order=[]
    def collect(t):
        k=t[0]
        if k=='group': order.append(t[1]); collect(t[2])
        elif k in('seq','alt'): collect(t[1]); collect(t[2])
        elif k=='quant': collect(t[1])
        elif k=='look': collect(t[3])
    collect(t); mp={old:i for i,old in enumerate(order)}
    def ids(t):
        k=t[0]
        if k=='group': return [mp[t[1]]]+ids(t[2])
        if k in('seq','alt'): return ids(t[1])+ids(t[2])
        if k=='quant': return ids(t[1])
        if k=='look': return ids(t[3])
        return []
    def go(t):
        k=t[0]
        if k=='group': return ('group',mp[t[1]],go(t[2]))
        if k in('seq','alt'): return (k,go(t[1]),go(t[2]))
        if k=='quant':
            inner=ids(t[1]); gs=min(inner) if inner else 0; ge=max(inner)+1 if inner else 0
            return ('quant',go(t[1]),t[2],t[3],t[4],gs,ge)
        if k=='look': return ('look',t[1],t[2],go(t[3]))
        if k=='backref': return ('backref', mp.get(t[1], t[1]))
        return t
    return go(t)
def atomic(t): return t[0] in ('char','any','class','group')
def pr(t):
    k=t[0]
    if k=='empty': return '(?:)'
    if k=='char': return t[1]
    if k=='any': return '.'
    if k=='class': return '['+('^' if t[1] else '')+''.join(a if a==b else a+'-'+b for a,b in t[2])+']'
    if k=='seq':
        def w(x): return '(?:'+pr(x)+')' if x[0]=='alt' else pr(x)
        return w(t[1])+w(t[2])
    if k=='alt': return pr(t[1])+'|'+pr(t[2])
    if k=='group': return '('+pr(t[2])+')'
    if k=='backref': return '\\'+str(t[1]+1)
    if k=='quant':
        body=pr(t[1]) if atomic(t[1]) else '(?:'+pr(t[1])+')'
        mn,mx=t[2],t[3]
        q='{%d,%s}'%(mn,'' if mx is None else str(mx))
        return body+q+('' if t[4] else '?')
    if k=='look': return '(?'+('' if t[1] else '<')+('!' if t[2] else '=')+pr(t[3])+')'
    if k=='bol': return '^'
    if k=='eol': return '$'
    if k=='wordb': return '\\B' if t[1] else '\\b'
def coq(t,flags):
    k=t[0]
    N=lambda ch: str(ord(ch))+'%N'
    if k=='empty': return 'REmpty'
    if k=='char': return '(RChar %s)'%N(t[1])
    if k=='any': return '(RAny %s)'%('true' if 's' in flags else 'false')
    if k=='class': return '(RClass %s [%s])'%('true' if t[1] else 'false','; '.join('(%s,%s)'%(N(a),N(b)) for a,b in t[2]))
    if k=='seq': return '(RSeq %s %s)'%(coq(t[1],flags),coq(t[2],flags))
    if k=='alt': return '(RAlt %s %s)'%(coq(t[1],flags),coq(t[2],flags))
    if k=='group': return '(RGroup %d %s)'%(t[1],coq(t[2],flags))
    if k=='backref': return '(RBackRef %d)'%t[1]
    if k=='quant': return '(RQuant %s %d %s %s %d %d)'%(coq(t[1],flags),t[2],'None' if t[3] is None else '(Some %d)'%t[3],'true' if t[4] else 'false',t[5],t[6])
    if k=='look': return '(RLook %s %s %s)'%('true' if t[1] else 'false','true' if t[2] else 'false',coq(t[3],flags))
    if k=='bol': return '(RBol %s)'%('true' if 'm' in flags else 'false')
    if k=='eol': return '(REol %s)'%('true' if 'm' in flags else 'false')
    if k=='wordb': return '(RWordB %s)'%('true' if t[1] else 'false')
def ngroups(t):
    if t[0]=='group': return 1+ngroups(t[2])
    if t[0] in('seq','alt'): return ngroups(t[1])+ngroups(t[2])
    if t[0]=='quant': return ngroups(t[1])
    if t[0]=='look': return ngroups(t[3])
    return 0
HAY=['','a','b','ab','ba','aa','aab','aba','abc','aaa','abab','a\nb','abca','ca','aaaa','bab','cab','b\na']
cases=[]
while len(cases)<n:
    flags=random.choice(['','s','m','ms'])
    # two-pass: plan total groups so backrefs may refer forward
    st=random.getstate(); ctx=Ctx(); ctx.total=0; t=gen(ctx,random.randrange(2,6),flags); total=ngroups(t)
    random.setstate(st); ctx=Ctx(); ctx.total=total; t=gen(ctx,random.randrange(2,6),flags)
    if ngroups(t)!=total: continue
    t=renumber(t)
    h=random.choice(HAY)
    cases.append({'pattern':pr(t),'flags':flags,'hay':h,'coq':coq(t,flags),'ng':total})
json.dump(cases,open('cases.json','w'))
