use std::io::BufRead;
fn main(){
    let stdin=std::io::stdin();
    for line in stdin.lock().lines(){ let line=line.unwrap(); let parts:Vec<&str>=line.split('\t').collect(); if parts.len()!=3 { println!("{{\"err\":\"fmt\"}}"); continue; }
        let hay=parts[2].replace("\\n","\n");
        let res = std::panic::catch_unwind(|| {
            match regress::Regex::with_flags(parts[0], parts[1]) { Err(e)=>format!("{{\"err\":{:?}}}", e.text), Ok(re)=> match re.find(&hay) { None=>"{\"res\":null}".to_string(), Some(m)=>{
                let caps:Vec<String>=m.captures.iter().map(|c| match c {Some(r)=>format!("[{},{}]",r.start,r.end),None=>"null".into()}).collect();
                format!("{{\"res\":[{},{},[{}]]}}", m.start(), m.end(), caps.join(",")) } } } });
        println!("{}", res.unwrap_or("{\"err\":\"panic\"}".into()));
    }
}
