const fs=require('fs'); const cs=JSON.parse(fs.readFileSync('cases.json','utf8')); const out=[];
for(const c of cs){ let re; try{ re=new RegExp(c.pattern,c.flags+'d'); }catch(e){ out.push({err:String(e)}); continue; }
  const m=re.exec(c.hay); if(!m){ out.push({res:null}); continue; }
  const caps=[]; for(let k=1;k<m.length;k++) caps.push(m.indices[k]?[m.indices[k][0],m.indices[k][1]]:null);
  out.push({res:[m.indices[0][0],m.indices[0][1],caps]}); }
fs.writeFileSync('results.json',JSON.stringify(out));
