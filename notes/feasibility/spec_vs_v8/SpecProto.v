(* Draft of the ES pattern semantics as ordered lists of successes (design-phase, validated against V8).
   Code points are N, positions are nat indices into the code point list.  Both directions. *)
From Coq Require Import List Arith Bool NArith Lia.
Import ListNotations.

Inductive dir := Fwd | Bwd.

Inductive regex :=
| REmpty
| RChar (c : N)
| RAny (dotall : bool)
| RClass (inv : bool) (rs : list (N * N))
| RSeq (a b : regex)
| RAlt (a b : regex)
| RGroup (gid : nat) (r : regex)
| RBackRef (gid : nat)
| RQuant (r : regex) (min : nat) (max : option nat) (greedy : bool) (gs ge : nat)
| RLook (ahead neg : bool) (r : regex)
| RBol (multiline : bool)
| REol (multiline : bool)
| RWordB (inv : bool).

Definition caps := list (option (nat * nat)).
Definition mstate := (nat * caps)%type.

Fixpoint set_nth {A} (l : list A) (i : nat) (v : A) : list A :=
  match l, i with
  | [], _ => []
  | _ :: tl, 0 => v :: tl
  | x :: tl, S j => x :: set_nth tl j v
  end.
Fixpoint reset_range {A} (l : list A) (lo n : nat) (v : A) : list A :=
  match n with 0 => l | S k => reset_range (set_nth l lo v) (S lo) k v end.

Fixpoint obind {A B} (f : A -> option (list B)) (l : list A) : option (list B) :=
  match l with
  | [] => Some []
  | x :: tl => match f x, obind f tl with Some a, Some b => Some (a ++ b) | _, _ => None end
  end.

Section Sem.
Variable inp : list N.

Definition is_lt (c : N) : bool := (c =? 10)%N || (c =? 13)%N || (c =? 0x2028)%N || (c =? 0x2029)%N.
Definition is_word (c : N) : bool :=
  ((48 <=? c) && (c <=? 57) || (65 <=? c) && (c <=? 90) || (97 <=? c) && (c <=? 122) || (c =? 95))%N.
Definition in_ranges (rs : list (N * N)) (c : N) : bool := existsb (fun '(a, b) => (a <=? c) && (c <=? b))%N rs.

(* the character "in front" of position p in direction d, and the position after consuming it *)
Definition peek (d : dir) (p : nat) : option (N * nat) :=
  match d with
  | Fwd => match nth_error inp p with Some c => Some (c, S p) | None => None end
  | Bwd => match p with 0 => None | S q => match nth_error inp q with Some c => Some (c, q) | None => None end end
  end.
Definition one (d : dir) (x : mstate) (ok : N -> bool) : list mstate :=
  match peek d (fst x) with Some (c, p') => if ok c then [(p', snd x)] else [] | None => [] end.

Fixpoint slice_eq (a p len : nat) : bool :=
  match len with
  | 0 => true
  | S k => match nth_error inp a, nth_error inp p with
           | Some x, Some y => N.eqb x y && slice_eq (S a) (S p) k
           | _, _ => false
           end
  end.

Definition word_at (p : nat) : bool := match nth_error inp p with Some c => is_word c | None => false end.
Definition word_before (p : nat) : bool := match p with 0 => false | S q => word_at q end.

Definition omax_zero (m : option nat) := match m with Some 0 => true | _ => false end.
Definition opred (m : option nat) := match m with Some k => Some (pred k) | None => None end.

Fixpoint es_results (fuel : nat) (r : regex) (d : dir) (x : mstate) {struct fuel} : option (list mstate) :=
  match fuel with O => None | S f =>
  let '(p, cp) := x in
  match r with
  | REmpty => Some [x]
  | RChar c => Some (one d x (N.eqb c))
  | RAny dotall => Some (one d x (fun c => dotall || negb (is_lt c)))
  | RClass inv rs => Some (one d x (fun c => xorb inv (in_ranges rs c)))
  | RSeq a b =>
      let '(r1, r2) := match d with Fwd => (a, b) | Bwd => (b, a) end in
      match es_results f r1 d x with Some l => obind (es_results f r2 d) l | None => None end
  | RAlt a b => match es_results f a d x, es_results f b d x with Some u, Some v => Some (u ++ v) | _, _ => None end
  | RGroup gid body =>
      match es_results f body d x with
      | Some l => Some (map (fun y => (fst y, set_nth (snd y) gid
                                  (Some (match d with Fwd => (p, fst y) | Bwd => (fst y, p) end)))) l)
      | None => None end
  | RBackRef gid =>
      Some (match nth gid cp None with
            | None => [x]
            | Some (s, e) =>
                let len := e - s in
                match d with
                | Fwd => if (p + len <=? length inp) && slice_eq s p len then [(p + len, cp)] else []
                | Bwd => if (len <=? p) && slice_eq s (p - len) len then [(p - len, cp)] else []
                end
            end)
  | RQuant body min max g gs ge =>
      if omax_zero max then Some [x] else
      match es_results f body d (p, reset_range cp gs (ge - gs) None) with
      | None => None
      | Some qs =>
        match obind (fun q => if (min =? 0) && (fst q =? p) then Some []
                              else es_results f (RQuant body (pred min) (opred max) g gs ge) d q) qs with
        | None => None
        | Some iter => Some (if 0 <? min then iter else if g then iter ++ [x] else x :: iter)
        end
      end
  | RLook ahead neg body =>
      match es_results f body (if ahead then Fwd else Bwd) x with
      | None => None
      | Some [] => Some (if neg then [x] else [])
      | Some (y :: _) => Some (if neg then [] else [(p, snd y)])
      end
  | RBol ml => Some (if (p =? 0) || (ml && match p with 0 => false | S q => match nth_error inp q with Some c => is_lt c | None => false end end) then [x] else [])
  | REol ml => Some (if (p =? length inp) || (ml && match nth_error inp p with Some c => is_lt c | None => false end) then [x] else [])
  | RWordB inv => Some (if xorb inv (xorb (word_before p) (word_at p)) then [x] else [])
  end end.

(* leftmost search: Some (start, end, caps) | None ; outer option = fuel *)
Fixpoint search (fuel : nat) (r : regex) (ngroups : nat) (start : nat) (tries : nat) : option (option (nat * nat * caps)) :=
  match tries with
  | 0 => Some None
  | S t =>
      match es_results fuel r Fwd (start, repeat None ngroups) with
      | None => None
      | Some (y :: _) => Some (Some (start, fst y, snd y))
      | Some [] => if start <? length inp then search fuel r ngroups (S start) t else Some None
      end
  end.
End Sem.

Definition es_first (inp : list N) (r : regex) (ngroups : nat) : option (option (nat * nat * caps)) :=
  search inp 100000 r ngroups 0 (S (length inp)).
