import json,re,sys
out=open('coq.out').read(); m=re.search(r'=\s*\[(.*?)\]\s*:\s*list nat',out,re.S)
bits=[int(x) for x in re.findall(r'\d+',m.group(1))]
cs=json.load(open('cases.json')); rs=json.load(open('results.json')); idx=json.load(open('idx.json'))
bad=[idx[i] for i,b in enumerate(bits) if b==0]
print('cases',len(bits),'mismatches',len(bad),'js-rejected',len(cs)-len(idx))
for i in bad[:4]: print('  /%s/%s on %r v8=%s'%(cs[i]['pattern'],cs[i]['flags'],cs[i]['hay'],rs[i]['res']))
