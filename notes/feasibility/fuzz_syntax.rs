use regress::Regex;
struct Rng(u64);
impl Rng { fn next(&mut self)->u64{ self.0 ^= self.0<<13; self.0 ^= self.0>>7; self.0 ^= self.0<<17; self.0 } fn below(&mut self,n:u64)->u64{ self.next()%n } }
fn main(){
    let args:Vec<String>=std::env::args().collect();
    let seed:u64=args[1].parse().unwrap(); let n:u64=args[2].parse().unwrap();
    let toks=["a","b","1","0","9","(",")","(?:","(?=","(?!","(?<=","(?<!","(?<n>","(?<m>","[","]","[^","{","}","{1}","{1,}","{1,2}","{2,1}",",","*","+","?","|","^","$",".","\\","\\b","\\B","\\d","\\w","\\s","\\k<n>","\\k","\\1","\\2","\\9","\\0","\\00","\\c","\\cA","\\c1","\\x","\\x4","\\x41","\\u","\\u0041","\\u{41}","\\u{110000}","\\p{L}","\\P{Lu}","\\p{Foo}","\\p","\\-","-","&","&&","--","\\q{ab|c}","\\q","/","\\/","\\a","\\_","é","\\é","=","<",">","!",":","~","\\~","_","\\$"," "];
    let mut r=Rng(seed*0x9E3779B97F4A7C15+7);

    for _ in 0..n {
        let len=1+r.below(6); let mut p=String::new();
        for _ in 0..len { p.push_str(toks[r.below(toks.len() as u64) as usize]); }
        for f in ["","u","v","i","iu","iv"] {
            let ok = std::panic::catch_unwind(|| Regex::with_flags(&p,f).is_ok());
            println!("{}\t{}\t{}", p, f, match ok {Ok(true)=>"ok",Ok(false)=>"err",Err(_)=>"panic"});
        }
    }
}
