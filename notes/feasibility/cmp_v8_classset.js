const fs=require('fs'); const lines=fs.readFileSync(process.argv[2],'utf8').split('\n').filter(x=>x);
const hay=["a","b","c","A","B","C","1","_","ſ","K","k","s","S","é","&","-","ab","AB","aB","d","D"];
let n=0,bad=0,shown=0,kinds={};
for(const ln of lines){ const [p,f,r]=ln.split('\t'); let re=null; try{ re=new RegExp(p,f);}catch(e){} n++; const js = re? hay.map(t=>re.test(t)?'1':'0').join('') : 'ERR'; if(js!==r){ bad++; const k=f+(r==='ERR'?':regress-rejects':js==='ERR'?':regress-accepts':':match-diff'); kinds[k]=(kinds[k]||0)+1; if(shown<30){shown++; console.log(k,p,'regress',r,'v8',js);} } }
console.log('n',n,'bad',bad,kinds);
