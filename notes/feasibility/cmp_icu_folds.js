const fs=require('fs'); const R=JSON.parse(fs.readFileSync('regress_folds.json','utf8'));
const up=new Map(Object.entries(R.upper).map(([k,v])=>[+k,v])); const fo=new Map(Object.entries(R.fold).map(([k,v])=>[+k,v]));
// legacy canon reference (code-point generalisation)
function canon(c){ if(c>=0xD800&&c<=0xDFFF) return c; const s=String.fromCodePoint(c); const u=s.toUpperCase(); const cps=[...u]; if(cps.length!==1) return c; const uc=cps[0].codePointAt(0); if(c>=128&&uc<128) return c; return uc; }
let bad=[]; for(let c=0;c<=0x10FFFF;c++){ const got=up.has(c)?up.get(c):c; const ref=canon(c); if(got!==ref) bad.push([c.toString(16),got.toString(16),ref.toString(16)]); }
console.log('legacy canon diffs',bad.length, JSON.stringify(bad.slice(0,60)));
// simple case folding classes via /iu: check fold-equivalence relation against V8 for all cased cps
const cased=[]; for(let c=0;c<=0x10FFFF;c++){ if(c>=0xD800&&c<=0xDFFF)continue; const s=String.fromCodePoint(c); if(s.toLowerCase()!==s||s.toUpperCase()!==s||fo.has(c)) cased.push(c);} 
for (const v of fo.values()) if(!cased.includes(v)) cased.push(v);
const all=cased.map(c=>String.fromCodePoint(c)).join('');
const f=(c)=>fo.has(c)?fo.get(c):c;
let bad2=[]; for(const c of cased){ const re=new RegExp('\\u{'+c.toString(16)+'}','giu'); const ms=new Set((all.match(re)||[]).map(x=>x.codePointAt(0))); const mine=new Set(cased.filter(d=>f(d)===f(c))); for(const d of ms) if(!mine.has(d)) bad2.push([c.toString(16),d.toString(16),'v8-only']); for(const d of mine) if(!ms.has(d)) bad2.push([c.toString(16),d.toString(16),'regress-only']); }
console.log('iu class diffs', bad2.length, JSON.stringify(bad2.slice(0,40)), 'cased', cased.length);
