#![feature(pattern)]
use std::str::pattern::{Pattern, Searcher, ReverseSearcher, SearchStep};
fn main(){
    for (p,t) in [(r"\d*","ab12cd"),(r"\d+","ab12cd"),(r"","aé"),(r"b|","abc"),(r"a","aaa")] {
        let re=regress::Regex::new(p).unwrap();
        let mut s=(&re).into_searcher(t); let mut v=vec![]; loop { let st=s.next(); let d = st==SearchStep::Done; v.push(st); if d {break;} }
        println!("/{}/ on {:?} fwd: {:?}", p,t,v);
        let mut s=(&re).into_searcher(t); let mut v=vec![]; loop { let st=s.next_back(); let d = st==SearchStep::Done; v.push(st); if d || v.len()>20 {break;} }
        println!("/{}/ on {:?} back: {:?}", p,t,v);
        println!("   find_iter: {:?}  split: {:?}", re.find_iter(t).map(|m| m.range()).collect::<Vec<_>>(), t.split(&re).collect::<Vec<_>>());
    }
}
