# Prototype parser for Rust `{:?}` output (derived Debug + the few hand-written impls in regress).
import re, sys, json
TOK=re.compile(r'\s*(U\+[0-9A-F]+-U\+[0-9A-F]+|AsciiBitmap\[[0-9 \-]*\]|ByteBitmap\[[0-9 \-]*\]|"(?:[^"\\]|\\.)*"|-?\d+\.\.-?\d+|-?\d+|[A-Za-z_][A-Za-z_0-9]*|[{}()\[\],:])')
def tokens(s):
    pos=0; out=[]
    while pos<len(s):
        m=TOK.match(s,pos)
        if not m:
            if s[pos:].strip()=='' : break
            raise ValueError('lex error at %r'%s[pos:pos+40])
        out.append(m.group(1)); pos=m.end()
    return out
def parse(toks):
    i=0
    def val():
        nonlocal i
        t=toks[i]
        if t=='[':
            i+=1; xs=[]
            while toks[i]!=']':
                xs.append(val())
                if toks[i]==',': i+=1
            i+=1; return xs
        if t=='(':
            i+=1; xs=[]
            while toks[i]!=')':
                xs.append(val())
                if toks[i]==',': i+=1
            i+=1; return ('tuple',xs)
        if t.startswith('U+'):
            i+=1; a,b=t.split('-'); return ('iv',int(a[2:],16),int(b[2:],16))
        if t.startswith('AsciiBitmap[') or t.startswith('ByteBitmap['):
            i+=1; name,rest=t.split('[',1); bits=[]
            for part in rest[:-1].split():
                if '-' in part: a,b=part.split('-'); bits+=list(range(int(a),int(b)+1))
                else: bits.append(int(part))
            return (name,bits)
        if t.startswith('"'):
            i+=1; return ('str', bytes(t[1:-1],'utf8').decode('unicode_escape') if '\\u{' not in t else t[1:-1])
        if re.fullmatch(r'-?\d+\.\.-?\d+',t):
            i+=1; a,b=t.split('..'); return ('range',int(a),int(b))
        if re.fullmatch(r'-?\d+',t):
            i+=1; return int(t)
        # identifier: unit variant, tuple variant, or struct
        name=t; i+=1
        if i<len(toks) and toks[i]=='(':
            i+=1; xs=[]
            while toks[i]!=')':
                xs.append(val())
                if toks[i]==',': i+=1
            i+=1; return (name,xs)
        if i<len(toks) and toks[i]=='{':
            i+=1; fs={}
            while toks[i]!='}':
                k=toks[i]; assert toks[i+1]==':'; i+=2; fs[k]=val()
                if toks[i]==',': i+=1
            i+=1; return (name,fs)
        return (name,)
    v=val(); assert i==len(toks),(i,len(toks)); return v
if __name__=='__main__':
    for line in sys.stdin:
        v=parse(tokens(line.strip())); print(json.dumps(v)[:300])
