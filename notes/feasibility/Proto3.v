(* Scratch feasibility prototype 3: captures (begin/end/reset), backreferences, lookahead (nested run)
   on top of the Den/onto technique of Proto.v.  Forward direction only.  Not framework code. *)
From Coq Require Import List Arith Bool Lia NArith.
Import ListNotations.

Inductive node :=
| Empty | Chr (c : N) | Cat (a b : node) | Alt (a b : node)
| Loop (min : nat) (max : option nat) (greedy : bool) (body : node)
| Group (body : node) | BackRef (k : nat) | Look (neg : bool) (body : node).

Fixpoint ngroups (n : node) : nat :=
  match n with
  | Empty | Chr _ | BackRef _ => 0
  | Cat a b | Alt a b => ngroups a + ngroups b
  | Loop _ _ _ b | Look _ b => ngroups b
  | Group b => S (ngroups b)
  end.

Definition caps := list (option (nat * nat)).
Definition mstate := (nat * caps)%type.

Fixpoint set_nth {A} (l : list A) (i : nat) (v : A) : list A :=
  match l, i with
  | [], _ => []
  | _ :: tl, 0 => v :: tl
  | x :: tl, S j => x :: set_nth tl j v
  end.

Fixpoint reset_range {A} (l : list A) (lo n : nat) (v : A) : list A :=
  match n with 0 => l | S k => reset_range (set_nth l lo v) (S lo) k v end.

Section Spec.
Variable inp : list N.

Definition chr_ok (c : N) (p : nat) : bool :=
  match nth_error inp p with Some d => N.eqb c d | None => false end.

Fixpoint slice_eq (a len p : nat) : bool :=
  match len with
  | 0 => true
  | S k => match nth_error inp a, nth_error inp p with
           | Some x, Some y => N.eqb x y && slice_eq (S a) k (S p)
           | _, _ => false
           end
  end.

Definition backref_res (cp : caps) (k p : nat) : list mstate :=
  match nth k cp None with
  | Some (a, b) => if slice_eq a (b - a) p then [(p + (b - a), cp)] else []
  | None => [(p, cp)]
  end.

Definition omax_zero (m : option nat) := match m with Some 0 => true | _ => false end.
Definition opred (m : option nat) := match m with Some k => Some (pred k) | None => None end.

Fixpoint obind {A B} (f : A -> option (list B)) (l : list A) : option (list B) :=
  match l with
  | [] => Some []
  | x :: tl => match f x, obind f tl with Some a, Some b => Some (a ++ b) | _, _ => None end
  end.

Fixpoint results (fuel : nat) (n : node) (gid : nat) (x : mstate) {struct fuel} : option (list mstate) :=
  match fuel with O => None | S f =>
  let '(p, cp) := x in
  match n with
  | Empty => Some [x]
  | Chr c => Some (if chr_ok c p then [(S p, cp)] else [])
  | Cat a b => match results f a gid x with Some l => obind (results f b (gid + ngroups a)) l | None => None end
  | Alt a b => match results f a gid x, results f b (gid + ngroups a) x with
               | Some u, Some v => Some (u ++ v) | _, _ => None end
  | Group b => match results f b (S gid) x with
               | Some l => Some (map (fun y => (fst y, set_nth (snd y) gid (Some (p, fst y)))) l)
               | None => None end
  | BackRef k => Some (backref_res cp k p)
  | Look neg b => match results f b gid x with
                  | None => None
                  | Some [] => Some (if neg then [x] else [])
                  | Some (y :: _) => Some (if neg then [] else [(p, snd y)])
                  end
  | Loop min max g body =>
      if omax_zero max then Some [x] else
      match results f body gid (p, reset_range cp gid (ngroups body) None) with
      | None => None
      | Some qs =>
        match obind (fun q => if (min =? 0) && (fst q =? p) then Some []
                              else results f (Loop (pred min) (opred max) g body) gid q) qs with
        | None => None
        | Some iter => Some (if 0 <? min then iter else if g then iter ++ [x] else x :: iter)
        end
      end
  end end.
End Spec.

(* ---------------- machine (clone stack, PikeVM protocol) ---------------- *)
Inductive insn :=
| IChar (c : N) | IAlt (sec : nat) | IJump (t : nat)
| IEnter (id min : nat) (max : option nat) (g : bool) (exit : nat)
| IAgain (b : nat) | IGoal
| IBegin (g : nat) | IEnd (g : nat) | IReset (g : nat) | IBackRef (k : nat)
| ILook (neg : bool) (cont : nat).

Definition grp := (option nat * option nat)%type.
Record st := mk { ip : nat; pos : nat; loops : list (nat * nat); groups : list grp }.

Definition as_range (g : grp) : option (nat * nat) :=
  match g with (Some a, Some b) => Some (a, b) | _ => None end.
Definition obs (s : st) : mstate := (pos s, map as_range (groups s)).

Definition get_loop (l : list (nat*nat)) (id : nat) := nth id l (0,0).

Inductive sm := Fail | Cont (s : st) | Split (top below : st).

Definition olt (k : nat) (m : option nat) := match m with None => true | Some x => k <? x end.

Definition run_loop (s : st) (id min : nat) (max : option nat) (g : bool) (exit : nat) (initial : bool) : sm :=
  let '(it, en) := get_loop (loops s) id in
  let it' := if initial then 0 else S it in
  if negb initial && (min <? it') && (en =? pos s) then Fail else
  let enter_ok := olt it' max in
  let skip_ok := min <=? it' in
  let L := set_nth (loops s) id (it', pos s) in
  let s1 := mk (S (ip s)) (pos s) L (groups s) in
  let sx := mk exit (pos s) L (groups s) in
  if negb enter_ok && negb skip_ok then Fail
  else if negb enter_ok then Cont sx
  else if negb skip_ok then Cont s1
  else if g then Split s1 sx else Split sx s1.

Definition push (r : sm) (K : list st) : list st :=
  match r with Fail => K | Cont s => s :: K | Split t b => t :: b :: K end.

Section Machine.
Variable prog : list insn.
Variable inp : list N.

Definition nxt (s : st) p G := mk (S (ip s)) p (loops s) G.

(* steps that need no nested run; None for IGoal / ILook / out of range *)
Definition plain_step (s : st) : option sm :=
  match nth_error prog (ip s) with
  | Some (IChar c) => Some (if chr_ok inp c (pos s) then Cont (nxt s (S (pos s)) (groups s)) else Fail)
  | Some (IAlt sec) => Some (Split (nxt s (pos s) (groups s)) (mk sec (pos s) (loops s) (groups s)))
  | Some (IJump t) => Some (Cont (mk t (pos s) (loops s) (groups s)))
  | Some (IEnter id min max g exit) => Some (run_loop s id min max g exit true)
  | Some (IAgain b) =>
      match nth_error prog b with
      | Some (IEnter id min max g exit) => Some (run_loop (mk b (pos s) (loops s) (groups s)) id min max g exit false)
      | _ => None
      end
  | Some (IBegin g) => Some (Cont (nxt s (pos s) (set_nth (groups s) g (Some (pos s), snd (nth g (groups s) (None, None))))))
  | Some (IEnd g) => Some (Cont (nxt s (pos s) (set_nth (groups s) g (fst (nth g (groups s) (None, None)), Some (pos s)))))
  | Some (IReset g) => Some (Cont (nxt s (pos s) (set_nth (groups s) g (None, None))))
  | Some (IBackRef k) =>
      Some (match as_range (nth k (groups s) (None, None)) with
            | Some (a, b) => if slice_eq inp a (b - a) (pos s) then Cont (nxt s (pos s + (b - a)) (groups s)) else Fail
            | None => Cont (nxt s (pos s) (groups s))
            end)
  | _ => None
  end.

Definition look_result (s : st) (neg : bool) (cont : nat) (o : option st) : sm :=
  match o, neg with
  | Some y, false => Cont (mk cont (pos s) (loops y) (groups y))
  | Some _, true => Fail
  | None, false => Fail
  | None, true => Cont (mk cont (pos s) (loops s) (groups s))
  end.

Inductive Den : list st -> option st -> Prop :=
| D_nil : Den [] None
| D_goal s K : nth_error prog (ip s) = Some IGoal -> Den (s :: K) (Some s)
| D_step s r K o : Step s r -> Den (push r K) o -> Den (s :: K) o
with Step : st -> sm -> Prop :=
| S_plain s r : plain_step s = Some r -> Step s r
| S_look s neg cont o : nth_error prog (ip s) = Some (ILook neg cont) ->
    Den [nxt s (pos s) (groups s)] o -> Step s (look_result s neg cont o).

Scheme Den_mind := Induction for Den Sort Prop
  with Step_mind := Induction for Step Sort Prop.
Combined Scheme Den_Step_mind from Den_mind, Step_mind.

Lemma plain_not_goal s r : plain_step s = Some r -> nth_error prog (ip s) <> Some IGoal.
Proof. unfold plain_step. intros H E. rewrite E in H. discriminate. Qed.
Lemma plain_not_look s r neg cont : plain_step s = Some r -> nth_error prog (ip s) <> Some (ILook neg cont).
Proof. unfold plain_step. intros H E. rewrite E in H. discriminate. Qed.

Lemma Den_Step_det :
  (forall S o1, Den S o1 -> forall o2, Den S o2 -> o1 = o2) /\
  (forall s r1, Step s r1 -> forall r2, Step s r2 -> r1 = r2).
Proof.
  apply Den_Step_mind.
  - intros o2 H. inversion H. reflexivity.
  - intros s K e o2 H. inversion H; subst; auto.
    exfalso. match goal with h : Step s _ |- _ => inversion h; subst end.
    + eapply plain_not_goal; eauto.
    + congruence.
  - intros s r K o Hs IHs Hd IHd o2 H. inversion H; subst.
    + exfalso. inversion Hs; subst. eapply plain_not_goal; eauto. congruence.
    + match goal with h : Step s ?r' |- _ => rewrite (IHs r' h) in * end. auto.
  - intros s r e r2 H. inversion H; subst. congruence. exfalso. eapply plain_not_look; eauto.
  - intros s neg cont o e Hd IHd r2 H. inversion H; subst.
    + exfalso. eapply plain_not_look; eauto.
    + match goal with h1 : nth_error prog (ip s) = Some (ILook ?n1 ?c1), h2 : nth_error prog (ip s) = Some (ILook ?n2 ?c2) |- _ =>
        rewrite h1 in h2; inversion h2; subst end.
      match goal with h : Den [_] ?o' |- _ => rewrite (IHd o' h) end. reflexivity.
Qed.

Lemma push_app r K1 K2 : push r (K1 ++ K2) = push r K1 ++ K2.
Proof. destruct r; reflexivity. Qed.

Lemma Den_app_none S1 : Den S1 None -> forall S2 o, Den S2 o -> Den (S1 ++ S2) o.
Proof.
  intros H. remember None as r eqn:E. induction H; intros S2 o2 H2; simpl; try discriminate.
  - exact H2.
  - eapply D_step; eauto. rewrite push_app. eauto.
Qed.

Lemma Den_app_some S1 r : Den S1 (Some r) -> forall S2, Den (S1 ++ S2) (Some r).
Proof.
  intros H. remember (Some r) as o eqn:E. induction H; intros S2; simpl; try discriminate.
  - inversion E; subst. now constructor.
  - eapply D_step; eauto. rewrite push_app. eauto.
Qed.

Lemma Den_app_split S1 : forall S2 o, Den (S1 ++ S2) o ->
  (exists r, Den S1 (Some r) /\ o = Some r) \/ (Den S1 None /\ Den S2 o).
Proof.
  intros S2 o H. remember (S1 ++ S2) as S eqn:E. revert S1 S2 E.
  induction H; intros S1 S2 E.
  - destruct S1; [|discriminate]. right. split; [constructor|]. simpl in E. subst. constructor.
  - destruct S1 as [|x S1].
    + right. split; [constructor|]. simpl in E. subst. now constructor.
    + inversion E; subst. left. exists x. split; [now constructor|reflexivity].
  - destruct S1 as [|x S1].
    + right. split; [constructor|]. simpl in E. subst. eapply D_step; eauto.
    + inversion E; subst.
      destruct (IHDen (push r S1) S2 (push_app r S1 S2)) as [(q & Hq & ->)|(Hn & H2)].
      * left. exists q. split; auto. eapply D_step; eauto.
      * right. split; auto. eapply D_step; eauto.
Qed.

Definition onto (S S' : list st) := forall K o, Den (S' ++ K) o -> Den (S ++ K) o.

Lemma onto_refl S : onto S S. Proof. intros K o H; exact H. Qed.
Lemma onto_trans A B C : onto A B -> onto B C -> onto A C.
Proof. intros H1 H2 K o H. apply H1, H2, H. Qed.
Lemma onto_app S S' T T' : onto S S' -> onto T T' -> onto (S ++ T) (S' ++ T').
Proof.
  intros HS HT K o H. rewrite <- app_assoc in *.
  apply HS. destruct (Den_app_split S' _ _ H) as [(r & Hr & ->)|(Hn & H2)].
  - now apply Den_app_some.
  - apply Den_app_none; auto.
Qed.
Lemma onto_concat S SS : Forall2 (fun s ss => onto [s] ss) S SS -> onto S (concat SS).
Proof.
  induction 1; simpl. apply onto_refl.
  change (x :: l) with ([x] ++ l). apply onto_app; auto.
Qed.
Lemma onto_step s r : Step s r -> onto [s] (push r []).
Proof. intros E K o H. simpl. eapply D_step; eauto. destruct r; simpl in *; exact H. Qed.
Lemma onto_plain s r : plain_step s = Some r -> onto [s] (push r []).
Proof. intros E. apply onto_step. now constructor. Qed.

End Machine.

(* ---------------- compiler ---------------- *)
Fixpoint emit (n : node) (off lid gid : nat) : list insn * nat :=
  match n with
  | Empty => ([], lid)
  | Chr c => ([IChar c], lid)
  | Cat a b => let '(ca, l1) := emit a off lid gid in
               let '(cb, l2) := emit b (off + length ca) l1 (gid + ngroups a) in (ca ++ cb, l2)
  | Alt a b => let '(ca, l1) := emit a (S off) lid gid in
               let '(cb, l2) := emit b (off + length ca + 2) l1 (gid + ngroups a) in
               (IAlt (off + length ca + 2) :: ca ++ IJump (off + length ca + 2 + length cb) :: cb, l2)
  | Loop min max g body =>
               let '(cb, l1) := emit body (S off + ngroups body) (S lid) gid in
               (IEnter lid min max g (off + ngroups body + length cb + 2)
                  :: map IReset (seq gid (ngroups body)) ++ cb ++ [IAgain off], l1)
  | Group b => let '(cb, l1) := emit b (S off) lid (S gid) in (IBegin gid :: cb ++ [IEnd gid], l1)
  | BackRef k => ([IBackRef k], lid)
  | Look neg b => let '(cb, l1) := emit b (S off) lid gid in
                  (ILook neg (off + length cb + 2) :: cb ++ [IGoal], l1)
  end.

Fixpoint wf (n : node) : bool :=
  match n with
  | Empty | Chr _ | BackRef _ => true
  | Cat a b | Alt a b => wf a && wf b
  | Loop min max _ body => (match max with Some x => min <=? x | None => true end) && wf body
  | Group b | Look _ b => wf b
  end.

Definition code_at (prog : list insn) (off : nat) (code : list insn) :=
  forall i x, nth_error code i = Some x -> nth_error prog (off + i) = Some x.

Lemma code_at_app prog off a b : code_at prog off (a ++ b) -> code_at prog off a /\ code_at prog (off + length a) b.
Proof.
  intros H; split; intros i x Hi.
  - apply H. rewrite nth_error_app1; auto. apply nth_error_Some. congruence.
  - rewrite <- Nat.add_assoc. apply H. rewrite nth_error_app2 by lia. replace (length a + i - length a) with i by lia. auto.
Qed.
Lemma code_at_cons prog off x c : code_at prog off (x :: c) -> nth_error prog off = Some x /\ code_at prog (S off) c.
Proof.
  intros H; split.
  - specialize (H 0 x eq_refl). now rewrite Nat.add_0_r in H.
  - intros i y Hi. specialize (H (S i) y Hi). now rewrite Nat.add_succ_r in H.
Qed.

Lemma emit_mono n : forall off lid gid code lid', emit n off lid gid = (code, lid') -> lid <= lid'.
Proof.
  induction n; cbn [emit]; intros off lid gid code lid' E.
  - inversion E; lia.
  - inversion E; lia.
  - destruct (emit n1 off lid gid) as [ca l1] eqn:E1. destruct (emit n2 (off + length ca) l1 (gid + ngroups n1)) as [cb l2] eqn:E2.
    inversion E; subst. apply IHn1 in E1. apply IHn2 in E2. lia.
  - destruct (emit n1 (S off) lid gid) as [ca l1] eqn:E1. destruct (emit n2 (off + length ca + 2) l1 (gid + ngroups n1)) as [cb l2] eqn:E2.
    inversion E; subst. apply IHn1 in E1. apply IHn2 in E2. lia.
  - destruct (emit n (S off + ngroups n) (S lid) gid) as [cb l1] eqn:E1. inversion E; subst. apply IHn in E1. lia.
  - destruct (emit n (S off) lid (S gid)) as [cb l1] eqn:E1. inversion E; subst. apply IHn in E1. lia.
  - inversion E; lia.
  - destruct (emit n (S off) lid gid) as [cb l1] eqn:E1. inversion E; subst. apply IHn in E1. lia.
Qed.

(* list helpers *)
Lemma set_nth_length {A} (l : list A) : forall i v, length (set_nth l i v) = length l.
Proof. induction l; destruct i; simpl; auto. Qed.
Lemma nth_set_same {A} (l : list A) d : forall i v, i < length l -> nth i (set_nth l i v) d = v.
Proof. induction l; destruct i; simpl; intros; try lia; auto. apply IHl. lia. Qed.
Lemma nth_set_other {A} (l : list A) d : forall i j v, i <> j -> nth j (set_nth l i v) d = nth j l d.
Proof. induction l; destruct i, j; simpl; intros; try lia; auto. Qed.
Lemma map_set_nth {A B} (f : A -> B) (l : list A) : forall i v, map f (set_nth l i v) = set_nth (map f l) i (f v).
Proof. induction l; destruct i; simpl; intros; auto. f_equal. apply IHl. Qed.
Lemma set_nth_same_val {A} (l : list A) d : forall i, i < length l -> set_nth l i (nth i l d) = l.
Proof. induction l; destruct i; simpl; intros; try lia; auto. f_equal. apply IHl. lia. Qed.

Lemma reset_range_length {A} n : forall (l : list A) lo v, length (reset_range l lo n v) = length l.
Proof. induction n; simpl; intros; auto. rewrite IHn. apply set_nth_length. Qed.
Lemma map_reset_range {A B} (f : A -> B) n : forall (l : list A) lo v,
  map f (reset_range l lo n v) = reset_range (map f l) lo n (f v).
Proof. induction n; simpl; intros; auto. rewrite IHn. f_equal. apply map_set_nth. Qed.
Lemma nth_reset_in {A} n d : forall (l : list A) lo v j, lo <= j < lo + n -> lo + n <= length l ->
  nth j (reset_range l lo n v) d = v.
Proof.
  induction n; simpl; intros l lo v j Hj Hl; [lia|].
  destruct (Nat.eq_dec j lo) as [->|Hne].
  - clear Hj. assert (Hout : forall m (l' : list A) lo', lo < lo' -> nth lo (reset_range l' lo' m v) d = nth lo l' d).
    { induction m; simpl; intros; auto. rewrite IHm by lia. apply nth_set_other. lia. }
    rewrite Hout by lia. apply nth_set_same. lia.
  - apply IHn. lia. rewrite set_nth_length. lia.
Qed.
Lemma nth_reset_out {A} n d : forall (l : list A) lo v j, j < lo \/ lo + n <= j ->
  nth j (reset_range l lo n v) d = nth j l d.
Proof.
  induction n; simpl; intros l lo v j Hj; auto.
  rewrite IHn by lia. apply nth_set_other. lia.
Qed.

Definition clear_from (gid : nat) (G : list grp) := forall id, gid <= id -> nth id G (None, None) = (None, None).

Lemma as_range_nth G k : nth k (map as_range G) None = as_range (nth k G (None, None)).
Proof. change None with (as_range (None, None)) at 1. apply map_nth. Qed.

Lemma obind_inv {A B} (f : A -> option (list B)) l r : obind f l = Some r ->
  exists pieces, Forall2 (fun x pc => f x = Some pc) l pieces /\ r = concat pieces.
Proof.
  revert r; induction l as [|x tl IH]; simpl; intros r H.
  - inversion H. exists []. split; constructor.
  - destruct (f x) as [a|] eqn:Ea; [|discriminate]. destruct (obind f tl) as [b|] eqn:Eb; [|discriminate].
    inversion H; subst. destruct (IH b eq_refl) as (pcs & HF & ->). exists (a :: pcs). split; [constructor; auto|reflexivity].
Qed.

Section Correct.
Variable prog : list insn.
Variable inp : list N.
Notation onto := (onto prog inp).

Definition at_end (s : st) (e lo hi glo ghi : nat) (s' : st) :=
  ip s' = e /\ length (loops s') = length (loops s) /\ length (groups s') = length (groups s) /\
  (forall id, id < lo \/ hi <= id -> get_loop (loops s') id = get_loop (loops s) id) /\
  (forall id, id < glo \/ ghi <= id -> nth id (groups s') (None, None) = nth id (groups s) (None, None)).

Definition node_ok (fuel : nat) := forall n gid x l, results inp fuel n gid x = Some l -> wf n = true ->
  forall off lid code lid', emit n off lid gid = (code, lid') -> code_at prog off code ->
  forall s, ip s = off -> obs s = x -> lid' <= length (loops s) -> gid + ngroups n <= length (groups s) ->
    clear_from gid (groups s) ->
  exists ss, map obs ss = l /\ Forall (at_end s (off + length code) lid lid' gid (gid + ngroups n)) ss /\ onto [s] ss.

Lemma resets_run : forall k base ip0, code_at prog ip0 (map IReset (seq base k)) ->
  forall s, ip s = ip0 -> onto [s] [mk (ip0 + k) (pos s) (loops s) (reset_range (groups s) base k (None, None))].
Proof.
  induction k; intros base ip0 Hc s Hip.
  - rewrite Nat.add_0_r. simpl. destruct s; simpl in *; subst. apply onto_refl.
  - simpl in Hc. apply code_at_cons in Hc. destruct Hc as [H0 Hrest].
    eapply onto_trans.
    + apply (onto_plain prog inp s (Cont (nxt s (pos s) (set_nth (groups s) base (None, None))))).
      unfold plain_step. rewrite Hip, H0. reflexivity.
    + simpl. specialize (IHk (S base) (S ip0) Hrest (nxt s (pos s) (set_nth (groups s) base (None, None)))).
      simpl in IHk. rewrite Hip in IHk. specialize (IHk eq_refl).
      replace (ip0 + S k) with (S (ip0 + k)) by lia. exact IHk.
Qed.

Section LoopLemma.
Variables (min : nat) (max : option nat) (g : bool) (body : node) (off lid gid : nat) (cb : list insn) (l1 : nat).
Let nb := ngroups body.
Let exit := off + nb + length cb + 2.
Hypothesis Hemit : emit body (S off + nb) (S lid) gid = (cb, l1).
Hypothesis Henter : nth_error prog off = Some (IEnter lid min max g exit).
Hypothesis Hresets : code_at prog (S off) (map IReset (seq gid nb)).
Hypothesis Hbody : code_at prog (S off + nb) cb.
Hypothesis Hagain : nth_error prog (S off + nb + length cb) = Some (IAgain off).
Hypothesis Hwfmax : match max with Some x => min <= x | None => True end.
Hypothesis Hwfbody : wf body = true.

Definition osub (m : option nat) k := match m with Some x => Some (x - k) | None => None end.

Definition decision (k q : nat) (L : list (nat*nat)) (G : list grp) : sm :=
  let enter_ok := olt k max in
  let skip_ok := min <=? k in
  let L' := set_nth L lid (k, q) in
  let s1 := mk (S off) q L' G in
  let sx := mk exit q L' G in
  if negb enter_ok && negb skip_ok then Fail
  else if negb enter_ok then Cont sx
  else if negb skip_ok then Cont s1
  else if g then Split s1 sx else Split sx s1.

Lemma lid_lt_l1 : lid < l1.
Proof. apply emit_mono in Hemit. lia. Qed.

Lemma at_end_exit s k q : lid < length (loops s) ->
  at_end s exit lid l1 gid (gid + nb) (mk exit q (set_nth (loops s) lid (k, q)) (groups s)).
Proof.
  intros H. pose proof lid_lt_l1. repeat split; simpl; auto.
  - apply set_nth_length.
  - intros id Hid. unfold get_loop. apply nth_set_other. lia.
Qed.

Lemma loop_dec : forall fuel, (forall f', f' < fuel -> node_ok f') ->
  forall k x l, results inp fuel (Loop (min - k) (osub max k) g body) gid x = Some l ->
  forall s, obs s = x -> plain_step prog inp s = Some (decision k (pos s) (loops s) (groups s)) ->
    l1 <= length (loops s) -> gid + nb <= length (groups s) -> clear_from (gid + nb) (groups s) ->
  exists ss, map obs ss = l /\ Forall (at_end s exit lid l1 gid (gid + nb)) ss /\ onto [s] ss.
Proof.
  induction fuel as [|f IHf]; intros Hnode k x l Hres s Hobs Hstep Hlen Hglen Hclr; [discriminate|].
  pose proof lid_lt_l1 as Hlid.
  cbn [results] in Hres. destruct x as [p cp].
  assert (Hp : pos s = p) by (unfold obs in Hobs; inversion Hobs; reflexivity).
  assert (Hcp : map as_range (groups s) = cp) by (unfold obs in Hobs; inversion Hobs; reflexivity).
  destruct (omax_zero (osub max k)) eqn:Emz.
  - inversion Hres; subst l; clear Hres.
    assert (Hk : olt k max = false /\ (min <=? k) = true).
    { destruct max as [y|]; simpl in Emz; [|discriminate].
      destruct (y - k) eqn:Ex; [|discriminate]. simpl. split; [apply Nat.ltb_ge; lia|apply Nat.leb_le; lia]. }
    destruct Hk as [Hk1 Hk2]. unfold decision in Hstep. rewrite Hk1, Hk2 in Hstep. simpl in Hstep.
    exists [mk exit (pos s) (set_nth (loops s) lid (k, pos s)) (groups s)]. split; [|split].
    + simpl. unfold obs. simpl. rewrite Hp, Hcp. reflexivity.
    + constructor; [|constructor]. apply at_end_exit. lia.
    + apply (onto_plain _ _ _ _ Hstep).
  - assert (Hk1 : olt k max = true).
    { destruct max as [y|]; simpl in *; auto. destruct (y - k) eqn:Ex; [discriminate|]. apply Nat.ltb_lt. lia. }
    fold nb in Hres.
    destruct (results inp f body gid (p, reset_range cp gid nb None)) as [qs|] eqn:Eqs; [|discriminate].
    match type of Hres with match ?ob with _ => _ end = _ => destruct ob as [iter|] eqn:Eiter; [|discriminate] end.
    inversion Hres; subst l; clear Hres.
    set (L1 := set_nth (loops s) lid (k, pos s)).
    set (s1 := mk (S off) (pos s) L1 (groups s)).
    set (G1 := reset_range (groups s) gid nb (None, None)).
    set (s1r := mk (S off + nb) (pos s) L1 G1).
    assert (HL1len : length L1 = length (loops s)) by apply set_nth_length.
    assert (HG1len : length G1 = length (groups s)) by apply reset_range_length.
    assert (Hreset : onto [s1] [s1r]).
    { pose proof (resets_run nb gid (S off) Hresets s1 eq_refl) as Hr. exact Hr. }
    assert (Hclr1 : clear_from gid G1).
    { intros id Hid. unfold G1. destruct (Nat.lt_ge_cases id (gid + nb)).
      - apply nth_reset_in; lia.
      - rewrite nth_reset_out by lia. apply Hclr. lia. }
    assert (Hobs1 : obs s1r = (p, reset_range cp gid nb None)).
    { unfold obs, s1r. simpl. rewrite Hp. f_equal. unfold G1. rewrite map_reset_range. rewrite Hcp. reflexivity. }
    destruct f as [|f0]; [discriminate|].
    assert (Hn : node_ok (S f0)) by (apply Hnode; lia).
    destruct (Hn body gid _ qs Eqs Hwfbody (S off + nb) (S lid) cb l1 Hemit Hbody s1r eq_refl Hobs1) as (ssb & Hmapb & Hendb & Hontob).
    { simpl. lia. } { simpl. fold nb. lia. } { exact Hclr1. }
    destruct (obind_inv _ _ _ Eiter) as (pcs & HF2 & ->).
    assert (Hpieces : exists SS, Forall2 (fun sb ss => onto [sb] ss) ssb SS /\
                                 map obs (concat SS) = concat pcs /\
                                 Forall (at_end s exit lid l1 gid (gid + nb)) (concat SS)).
    { clear Hontob Eiter Eqs Hobs. revert pcs HF2 Hendb. rewrite <- Hmapb. clear Hmapb.
      induction ssb as [|sb tl IHtl]; intros pcs HF2 Hendb.
      - inversion HF2; subst. exists []. repeat split; constructor.
      - cbn [map] in HF2. inversion HF2 as [|? pc ? pcs' Hpc HF2']. subst pcs.
        inversion Hendb as [|? ? Hsb Hendtl].
        destruct (IHtl pcs' HF2' Hendtl) as (SS & HSS & Hmap & Hat).
        destruct Hsb as (Hip & HlenL & HlenG & HagreeL & HagreeG).
        assert (Hget : get_loop (loops sb) lid = (k, pos s)).
        { rewrite HagreeL by (left; lia). simpl. unfold L1, get_loop. apply nth_set_same. lia. }
        assert (Hstep_sb : plain_step prog inp sb =
                 Some (if (min <? S k) && (pos s =? pos sb) then Fail else decision (S k) (pos sb) (loops sb) (groups sb))).
        { unfold plain_step. rewrite Hip. fold nb. rewrite Hagain. rewrite Henter. unfold run_loop. cbn [loops pos ip groups].
          rewrite Hget. cbn [negb andb].
          destruct ((min <? S k) && (pos s =? pos sb)); reflexivity. }
        assert (Hcond : ((min - k =? 0) && (fst (obs sb) =? p)) = ((min <? S k) && (pos s =? pos sb))).
        { unfold obs. cbn [fst]. rewrite Hp. f_equal.
          - destruct (min - k =? 0) eqn:E1, (min <? S k) eqn:E2; auto.
            + apply Nat.eqb_eq in E1. apply Nat.ltb_ge in E2. lia.
            + apply Nat.eqb_neq in E1. apply Nat.ltb_lt in E2. lia.
          - apply Nat.eqb_sym. }
        rewrite Hcond in Hpc.
        destruct ((min <? S k) && (pos s =? pos sb)) eqn:Echk.
        + inversion Hpc; subst pc. exists ([] :: SS). repeat split.
          * constructor; auto. apply (onto_plain _ _ _ _ Hstep_sb).
          * simpl. exact Hmap.
          * simpl. exact Hat.
        + replace (pred (min - k)) with (min - S k) in Hpc by lia.
          replace (opred (osub max k)) with (osub max (S k)) in Hpc by (destruct max; simpl; f_equal; lia).
          assert (HclrSb : clear_from (gid + nb) (groups sb)).
          { intros id Hid. rewrite HagreeG by (right; lia). simpl. unfold G1. rewrite nth_reset_out by lia. apply Hclr. lia. }
          destruct (IHf (fun f' Hf' => Hnode f' (Nat.lt_trans _ _ _ Hf' (Nat.lt_succ_diag_r _))) (S k) (obs sb) pc Hpc sb eq_refl Hstep_sb) as (ss & Hm & He & Ho).
          { rewrite HlenL. simpl. lia. } { rewrite HlenG. simpl. lia. } { exact HclrSb. }
          exists (ss :: SS). repeat split.
          * constructor; auto.
          * simpl. rewrite map_app. congruence.
          * simpl. apply Forall_app. split; auto.
            eapply Forall_impl; [|exact He]. intros a (A & B & C & D & E). split; [exact A|split; [|split; [|split]]].
            -- rewrite B, HlenL. simpl. exact HL1len.
            -- rewrite C, HlenG. simpl. exact HG1len.
            -- intros id Hid. rewrite D by auto. rewrite HagreeL by lia. simpl. unfold L1, get_loop. apply nth_set_other. lia.
            -- intros id Hid. rewrite E by auto. rewrite HagreeG by lia. simpl. unfold G1. apply nth_reset_out. lia. }
    destruct Hpieces as (SS & HSS & Hmap & Hat).
    assert (Honto1 : onto [s1] (concat SS)).
    { eapply onto_trans; [exact Hreset|]. eapply onto_trans; [exact Hontob|]. apply onto_concat. exact HSS. }
    set (sx := mk exit (pos s) L1 (groups s)).
    assert (Hsx : at_end s exit lid l1 gid (gid + nb) sx) by (apply at_end_exit; lia).
    assert (Hobsx : obs sx = (p, cp)) by (unfold obs, sx; simpl; rewrite Hp, Hcp; reflexivity).
    unfold decision in Hstep. rewrite Hk1 in Hstep. cbn [negb andb] in Hstep.
    fold L1 in Hstep. fold s1 in Hstep. fold sx in Hstep.
    destruct (min <=? k) eqn:Eskip; cbn [negb] in Hstep.
    + assert (Emk : (0 <? min - k) = false) by (apply Nat.ltb_ge; apply Nat.leb_le in Eskip; lia).
      rewrite Emk. destruct g.
      * exists (concat SS ++ [sx]). split; [|split].
        -- rewrite map_app. simpl. congruence.
        -- apply Forall_app. split; auto.
        -- eapply onto_trans; [apply (onto_plain _ _ _ _ Hstep)|]. simpl.
           change [s1; sx] with ([s1] ++ [sx]). apply onto_app; auto. apply onto_refl.
      * exists (sx :: concat SS). split; [|split].
        -- simpl. congruence.
        -- constructor; auto.
        -- eapply onto_trans; [apply (onto_plain _ _ _ _ Hstep)|]. simpl.
           change [sx; s1] with ([sx] ++ [s1]). change (sx :: concat SS) with ([sx] ++ concat SS).
           apply onto_app; auto. apply onto_refl.
    + assert (Emk : (0 <? min - k) = true) by (apply Nat.ltb_lt; apply Nat.leb_gt in Eskip; lia).
      rewrite Emk. exists (concat SS). split; [|split]; auto.
      eapply onto_trans; [apply (onto_plain _ _ _ _ Hstep)|]. exact Honto1.
Qed.
End LoopLemma.
End Correct.

Section Main.
Variable prog : list insn.
Variable inp : list N.
Notation onto := (onto prog inp).
Notation at_end := at_end.

Lemma at_end_self s e lo hi glo ghi : ip s = e -> at_end s e lo hi glo ghi s.
Proof. intros H. repeat split; auto. Qed.

Theorem all_ok : forall fuel, node_ok prog inp fuel.
Proof.
  induction fuel as [fuel IH] using lt_wf_ind.
  destruct fuel as [|f]; intros n gid x l Hres Hwf off lid code lid' Hemit Hcode s Hip Hobs Hlen Hglen Hclr; [discriminate|].
  destruct x as [p cp].
  assert (Hp : pos s = p) by (unfold obs in Hobs; inversion Hobs; reflexivity).
  assert (Hcp : map as_range (groups s) = cp) by (unfold obs in Hobs; inversion Hobs; reflexivity).
  destruct n as [|c|a b|a b|min max g body|body|k|neg body]; cbn [results] in Hres; cbn [emit] in Hemit; cbn [ngroups] in *.
  - (* Empty *) inversion Hres; inversion Hemit; subst l code lid'. exists [s]. split; [|split].
    + simpl. congruence.
    + constructor; [|constructor]. apply at_end_self. simpl. lia.
    + apply onto_refl.
  - (* Chr *) inversion Hres; inversion Hemit; subst l code lid'. clear Hres Hemit.
    apply code_at_cons in Hcode. destruct Hcode as [Hc _].
    assert (Hstep : plain_step prog inp s = Some (if chr_ok inp c (pos s) then Cont (nxt s (S (pos s)) (groups s)) else Fail)).
    { unfold plain_step. rewrite Hip, Hc. reflexivity. }
    rewrite <- Hp. destruct (chr_ok inp c (pos s)) eqn:E.
    + exists [nxt s (S (pos s)) (groups s)]. split; [|split].
      * unfold obs, nxt; simpl. rewrite Hcp. reflexivity.
      * constructor; [|constructor]. repeat split; simpl; auto. lia.
      * apply (onto_plain _ _ _ _ Hstep).
    + exists []. repeat split; auto. apply (onto_plain _ _ _ _ Hstep).
  - (* Cat *)
    destruct (emit a off lid gid) as [ca l1] eqn:Ea. destruct (emit b (off + length ca) l1 (gid + ngroups a)) as [cbb l2] eqn:Eb.
    inversion Hemit; subst code lid'; clear Hemit.
    simpl in Hwf. apply andb_prop in Hwf. destruct Hwf as [Hwa Hwb].
    apply code_at_app in Hcode. destruct Hcode as [Hca Hcb].
    destruct (results inp f a gid (p, cp)) as [la|] eqn:Era; [|discriminate].
    pose proof (emit_mono _ _ _ _ _ _ Ea) as M1. pose proof (emit_mono _ _ _ _ _ _ Eb) as M2.
    destruct (IH f (Nat.lt_succ_diag_r f) a gid _ la Era Hwa off lid ca l1 Ea Hca s Hip Hobs) as (ssa & Hma & Hea & Hoa); [lia|lia|exact Hclr|].
    destruct (obind_inv _ _ _ Hres) as (pcs & HF2 & ->).
    assert (Hpieces : exists SS, Forall2 (fun sa ss => onto [sa] ss) ssa SS /\
              map obs (concat SS) = concat pcs /\
              Forall (at_end s (off + length (ca ++ cbb)) lid l2 gid (gid + (ngroups a + ngroups b))) (concat SS)).
    { clear Hoa Hres Era Hobs. revert pcs HF2 Hea. rewrite <- Hma. clear Hma.
      induction ssa as [|sa tl IHtl]; intros pcs HF2 Hea.
      - inversion HF2; subst. exists []. repeat split; constructor.
      - cbn [map] in HF2. inversion HF2 as [|? pc ? pcs' Hpc HF2']. subst pcs.
        inversion Hea as [|? ? Hsa Heatl].
        destruct (IHtl pcs' HF2' Heatl) as (SS & HSS & Hmap & Hat).
        destruct Hsa as (Hipa & HlenLa & HlenGa & HagrL & HagrG).
        destruct (IH f (Nat.lt_succ_diag_r f) b (gid + ngroups a) (obs sa) pc Hpc Hwb (off + length ca) l1 cbb l2 Eb Hcb sa Hipa eq_refl) as (ss & Hm & He & Ho).
        { lia. } { lia. }
        { intros id Hid. rewrite HagrG by lia. apply Hclr. lia. }
        exists (ss :: SS). repeat split.
        + constructor; auto.
        + simpl. rewrite map_app. congruence.
        + simpl. apply Forall_app. split; auto.
          eapply Forall_impl; [|exact He]. intros z (A & B & C & D & E). split; [|split; [|split; [|split]]].
          * rewrite A, app_length. lia.
          * congruence.
          * congruence.
          * intros id Hid. rewrite D by lia. apply HagrL. lia.
          * intros id Hid. rewrite E by lia. apply HagrG. lia. }
    destruct Hpieces as (SS & HSS & Hmap & Hat).
    exists (concat SS). repeat split; auto.
    eapply onto_trans; [exact Hoa|]. apply onto_concat. exact HSS.
  - (* Alt *)
    destruct (emit a (S off) lid gid) as [ca l1] eqn:Ea. destruct (emit b (off + length ca + 2) l1 (gid + ngroups a)) as [cbb l2] eqn:Eb.
    inversion Hemit; subst code lid'; clear Hemit.
    simpl in Hwf. apply andb_prop in Hwf. destruct Hwf as [Hwa Hwb].
    apply code_at_cons in Hcode. destruct Hcode as [Halt Hrest].
    apply code_at_app in Hrest. destruct Hrest as [Hca Hrest].
    apply code_at_cons in Hrest. destruct Hrest as [Hjmp Hcb].
    destruct (results inp f a gid (p, cp)) as [la|] eqn:Era; [|discriminate].
    destruct (results inp f b (gid + ngroups a) (p, cp)) as [lb|] eqn:Erb; [|discriminate].
    inversion Hres; subst l; clear Hres.
    pose proof (emit_mono _ _ _ _ _ _ Ea) as M1. pose proof (emit_mono _ _ _ _ _ _ Eb) as M2.
    set (sl := nxt s (pos s) (groups s)). set (sr := mk (off + length ca + 2) (pos s) (loops s) (groups s)).
    assert (Hstep : plain_step prog inp s = Some (Split sl sr)). { unfold plain_step. rewrite Hip, Halt. reflexivity. }
    assert (Hobsl : obs sl = (p, cp)) by (unfold obs, sl, nxt; simpl; rewrite Hp, Hcp; reflexivity).
    assert (Hobsr : obs sr = (p, cp)) by (unfold obs, sr; simpl; rewrite Hp, Hcp; reflexivity).
    destruct (IH f (Nat.lt_succ_diag_r f) a gid _ la Era Hwa (S off) lid ca l1 Ea Hca sl) as (ssa & Hma & Hea & Hoa);
      [subst sl; simpl; lia | exact Hobsl | simpl; lia | simpl; lia | exact Hclr |].
    destruct (IH f (Nat.lt_succ_diag_r f) b (gid + ngroups a) _ lb Erb Hwb (off + length ca + 2) l1 cbb l2 Eb) with (s := sr) as (ssb & Hmb & Heb & Hob);
      [ replace (off + length ca + 2) with (S (S off + length ca)) by lia; exact Hcb
      | reflexivity | exact Hobsr | simpl; lia | simpl; lia | intros id Hid; apply Hclr; lia |].
    set (e := off + length (IAlt (off + length ca + 2) :: ca ++ IJump (off + length ca + 2 + length cbb) :: cbb)).
    assert (He : e = off + length ca + 2 + length cbb) by (subst e; simpl; rewrite app_length; simpl; lia).
    set (ssa' := map (fun z => mk e (pos z) (loops z) (groups z)) ssa).
    assert (Hjs : Forall2 (fun z ss => onto [z] ss) ssa (map (fun z => [mk e (pos z) (loops z) (groups z)]) ssa)).
    { clear Hoa Hma. induction ssa as [|z tl IHtl]; simpl; constructor.
      - inversion Hea as [|? ? (A & _) ?]; subst.
        apply (onto_plain prog inp z (Cont (mk e (pos z) (loops z) (groups z)))).
        unfold plain_step. rewrite A, Hjmp. rewrite He. reflexivity.
      - apply IHtl. now inversion Hea. }
    assert (Hcc : concat (map (fun z => [mk e (pos z) (loops z) (groups z)]) ssa) = ssa').
    { subst ssa'. clear. induction ssa; simpl; congruence. }
    exists (ssa' ++ ssb). split; [|split].
    + rewrite map_app. subst ssa'. rewrite map_map. rewrite map_ext with (g := obs) by reflexivity. congruence.
    + apply Forall_app. split.
      * subst ssa'. apply Forall_forall. intros z Hz. apply in_map_iff in Hz. destruct Hz as (y & <- & Hy).
        rewrite Forall_forall in Hea. destruct (Hea y Hy) as (A & B & C & D & E). repeat split; simpl; auto.
        -- intros id Hid. apply D. lia.
        -- intros id Hid. apply E. lia.
      * eapply Forall_impl; [|exact Heb]. intros z (A & B & C & D & E). repeat split; auto.
        -- rewrite A. lia.
        -- intros id Hid. apply D. lia.
        -- intros id Hid. apply E. lia.
    + eapply onto_trans; [apply (onto_plain _ _ _ _ Hstep)|]. simpl.
      change [sl; sr] with ([sl] ++ [sr]). apply onto_app; auto.
      eapply onto_trans; [exact Hoa|]. rewrite <- Hcc. apply onto_concat. exact Hjs.
  - (* Loop *)
    destruct (emit body (S off + ngroups body) (S lid) gid) as [cb l1] eqn:Eb.
    inversion Hemit; subst code lid'; clear Hemit.
    simpl in Hwf. apply andb_prop in Hwf. destruct Hwf as [Hwm Hwb].
    apply code_at_cons in Hcode. destruct Hcode as [Henter Hrest].
    apply code_at_app in Hrest. destruct Hrest as [Hresets Hrest].
    apply code_at_app in Hrest. destruct Hrest as [Hcb Hag].
    apply code_at_cons in Hag. destruct Hag as [Hag _].
    rewrite map_length, seq_length in Hcb, Hag.
    assert (Hwm' : match max with Some y => min <= y | None => True end).
    { destruct max; auto. now apply Nat.leb_le. }
    assert (Hend : off + length (IEnter lid min max g (off + ngroups body + length cb + 2)
                      :: map IReset (seq gid (ngroups body)) ++ cb ++ [IAgain off]) = off + ngroups body + length cb + 2).
    { simpl. rewrite !app_length, map_length, seq_length. simpl. lia. }
    rewrite Hend.
    apply (loop_dec prog inp min max g body off lid gid cb l1 Eb Henter Hresets Hcb Hag Hwm' Hwb (S f)
             (fun f' _ => IH f' ltac:(assumption)) 0 (p, cp) l).
    + rewrite Nat.sub_0_r. replace (osub max 0) with max by (destruct max; simpl; f_equal; lia). exact Hres.
    + exact Hobs.
    + unfold plain_step. rewrite Hip, Henter. unfold run_loop, decision. rewrite Hip.
      destruct (get_loop (loops s) lid). cbn [negb andb]. reflexivity.
    + exact Hlen.
    + exact Hglen.
    + intros id Hid. apply Hclr. lia.
  - (* Group *)
    destruct (emit body (S off) lid (S gid)) as [cb l1] eqn:Eb.
    inversion Hemit; subst code lid'; clear Hemit.
    simpl in Hwf.
    apply code_at_cons in Hcode. destruct Hcode as [Hbegin Hrest].
    apply code_at_app in Hrest. destruct Hrest as [Hcb Hend].
    apply code_at_cons in Hend. destruct Hend as [Hend _].
    destruct (results inp f body (S gid) (p, cp)) as [lb|] eqn:Erb; [|discriminate].
    inversion Hres; subst l; clear Hres.
    assert (Hold : nth gid (groups s) (None, None) = (None, None)) by (apply Hclr; lia).
    set (G1 := set_nth (groups s) gid (Some (pos s), None)).
    set (s1 := nxt s (pos s) G1).
    assert (Hstep : plain_step prog inp s = Some (Cont s1)).
    { unfold plain_step. rewrite Hip, Hbegin. rewrite Hold. reflexivity. }
    assert (Hobs1 : obs s1 = (p, cp)).
    { unfold obs, s1, G1. simpl. rewrite Hp. f_equal. rewrite map_set_nth. simpl.
      rewrite <- Hcp. replace (@None (nat*nat)) with (nth gid (map as_range (groups s)) None) at 1.
      - apply set_nth_same_val. rewrite map_length. lia.
      - rewrite as_range_nth, Hold. reflexivity. }
    destruct (IH f (Nat.lt_succ_diag_r f) body (S gid) _ lb Erb Hwf (S off) lid cb l1 Eb Hcb s1) as (ssb & Hmb & Heb & Hob).
    { subst s1; simpl; lia. } { exact Hobs1. } { simpl. lia. }
    { simpl. unfold G1. rewrite set_nth_length. lia. }
    { intros id Hid. simpl. unfold G1. rewrite nth_set_other by lia. apply Hclr. lia. }
    set (e := off + length (IBegin gid :: cb ++ [IEnd gid])).
    assert (He : e = S (S off + length cb)) by (subst e; simpl; rewrite app_length; simpl; lia).
    set (fin := fun z : st => mk e (pos z) (loops z) (set_nth (groups z) gid (Some (pos s), Some (pos z)))).
    assert (Hjs : Forall2 (fun z ss => onto [z] ss) ssb (map (fun z => [fin z]) ssb)).
    { clear Hob Hmb. induction ssb as [|z tl IHtl]; simpl; constructor.
      - inversion Heb as [|? ? (A & B & C & D & E) ?]; subst.
        apply (onto_plain prog inp z (Cont (fin z))).
        unfold plain_step. rewrite A, Hend. unfold fin, nxt. rewrite A, He.
        rewrite E by (left; lia). simpl. unfold G1. rewrite nth_set_same by lia. reflexivity.
      - apply IHtl. now inversion Heb. }
    assert (Hcc : concat (map (fun z => [fin z]) ssb) = map fin ssb).
    { clear. induction ssb; simpl; congruence. }
    exists (map fin ssb). split; [|split].
    + rewrite map_map. rewrite <- Hmb. rewrite map_map. apply map_ext_in. intros z Hz.
      unfold obs, fin. simpl. rewrite Hp. f_equal. rewrite map_set_nth. reflexivity.
    + apply Forall_forall. intros z Hz. apply in_map_iff in Hz. destruct Hz as (y & <- & Hy).
      rewrite Forall_forall in Heb. destruct (Heb y Hy) as (A & B & C & D & E).
      unfold fin. split; [reflexivity|split; [|split; [|split]]]; simpl.
      * exact B.
      * rewrite set_nth_length. rewrite C. simpl. unfold G1. apply set_nth_length.
      * intros id Hid. apply D. exact Hid.
      * intros id Hid. rewrite nth_set_other by lia. rewrite E by lia. simpl. unfold G1. apply nth_set_other. lia.
    + eapply onto_trans; [apply (onto_plain _ _ _ _ Hstep)|]. simpl.
      eapply onto_trans; [exact Hob|]. rewrite <- Hcc. apply onto_concat. exact Hjs.
  - (* BackRef *)
    inversion Hres; inversion Hemit; subst l code lid'. clear Hres Hemit.
    apply code_at_cons in Hcode. destruct Hcode as [Hc _].
    assert (Hstep : plain_step prog inp s = Some
      (match as_range (nth k (groups s) (None, None)) with
       | Some (a, b) => if slice_eq inp a (b - a) (pos s) then Cont (nxt s (pos s + (b - a)) (groups s)) else Fail
       | None => Cont (nxt s (pos s) (groups s)) end)).
    { unfold plain_step. rewrite Hip, Hc. reflexivity. }
    unfold backref_res. rewrite <- Hcp. rewrite as_range_nth. rewrite <- Hp.
    destruct (as_range (nth k (groups s) (None, None))) as [[a b]|].
    + destruct (slice_eq inp a (b - a) (pos s)).
      * exists [nxt s (pos s + (b - a)) (groups s)]. split; [|split].
        -- reflexivity.
        -- constructor; [|constructor]. repeat split; simpl; auto. lia.
        -- apply (onto_plain _ _ _ _ Hstep).
      * exists []. repeat split; auto. apply (onto_plain _ _ _ _ Hstep).
    + exists [nxt s (pos s) (groups s)]. split; [|split].
      * reflexivity.
      * constructor; [|constructor]. repeat split; simpl; auto. lia.
      * apply (onto_plain _ _ _ _ Hstep).
  - (* Look *)
    destruct (emit body (S off) lid gid) as [cb l1] eqn:Eb.
    inversion Hemit; subst code lid'; clear Hemit.
    simpl in Hwf.
    apply code_at_cons in Hcode. destruct Hcode as [Hlook Hrest].
    apply code_at_app in Hrest. destruct Hrest as [Hcb Hgoal].
    apply code_at_cons in Hgoal. destruct Hgoal as [Hgoal _].
    destruct (results inp f body gid (p, cp)) as [lb|] eqn:Erb; [|discriminate].
    set (s1 := nxt s (pos s) (groups s)).
    assert (Hobs1 : obs s1 = (p, cp)) by (unfold obs, s1, nxt; simpl; rewrite Hp, Hcp; reflexivity).
    destruct (IH f (Nat.lt_succ_diag_r f) body gid _ lb Erb Hwf (S off) lid cb l1 Eb Hcb s1) as (ssb & Hmb & Heb & Hob).
    { subst s1; simpl; lia. } { exact Hobs1. } { simpl. lia. } { simpl. lia. } { exact Hclr. }
    set (e := off + length (ILook neg (off + length cb + 2) :: cb ++ [IGoal])).
    assert (He : e = off + length cb + 2) by (subst e; simpl; rewrite app_length; simpl; lia).
    (* the nested run's outcome is the head of ssb *)
    assert (Hinner : Den prog inp [s1] (hd_error ssb)).
    { specialize (Hob [] (hd_error ssb)). simpl in Hob. apply Hob. rewrite app_nil_r.
      destruct ssb as [|y tl]; simpl; [constructor|].
      apply D_goal. inversion Heb as [|? ? (A & _) ?]; subst. rewrite A. exact Hgoal. }
    assert (Hstep : Step prog inp s (look_result s neg (off + length cb + 2) (hd_error ssb))).
    { apply S_look; auto. rewrite Hip. exact Hlook. }
    rewrite He.
    destruct ssb as [|y tl]; destruct lb as [|yl tll]; try discriminate; simpl in Hstep.
    + (* body failed *)
      inversion Hres; subst l; clear Hres. destruct neg.
      * exists [mk (off + length cb + 2) (pos s) (loops s) (groups s)]. split; [|split].
        -- unfold obs; simpl. rewrite Hp, Hcp. reflexivity.
        -- constructor; [|constructor]. repeat split; simpl; auto.
        -- apply (onto_step _ _ _ _ Hstep).
      * exists []. repeat split; auto. apply (onto_step _ _ _ _ Hstep).
    + (* body succeeded with head y *)
      inversion Hres; subst l; clear Hres. destruct neg.
      * exists []. repeat split; auto. apply (onto_step _ _ _ _ Hstep).
      * exists [mk (off + length cb + 2) (pos s) (loops y) (groups y)]. split; [|split].
        -- simpl. unfold obs at 1. simpl. rewrite Hp. simpl in Hmb. inversion Hmb as [[Hy1 Hy2]]. unfold obs. simpl. reflexivity.
        -- constructor; [|constructor]. inversion Heb as [|? ? (A & B & C & D & E) ?]; subst.
           repeat split; simpl; auto.
        -- apply (onto_step _ _ _ _ Hstep).
Qed.
End Main.
Print Assumptions all_ok.
