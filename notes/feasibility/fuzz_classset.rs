use regress::Regex;
struct Rng(u64);
impl Rng { fn next(&mut self)->u64{ self.0 ^= self.0<<13; self.0 ^= self.0>>7; self.0 ^= self.0<<17; self.0 } fn below(&mut self,n:u64)->u64{ self.next()%n } }
fn operand(r:&mut Rng, d:u32, neg_ctx: bool)->String{
    let k = if d==0 { r.below(9) } else { r.below(12) };
    match k { 0=>"a".into(),1=>"b".into(),2=>"A".into(),3=>"\\d".into(),4=>"\\w".into(),5=>"a-c".into(),6=>"ſ".into(),7=>"K".into(),
      8=> if neg_ctx {"k".into()} else {"\\q{ab|c|A}".into()},
      9=>"\\p{Lu}".into(), 10=>"\\P{Lu}".into(),
      _=>{ let neg=r.below(3)==0; format!("[{}{}]", if neg {"^"} else {""}, expr(r,d-1,neg_ctx||neg)) } }
}
fn expr(r:&mut Rng, d:u32, neg_ctx:bool)->String{
    match r.below(4) {
      0|1 => { let n=1+r.below(3); (0..n).map(|_| operand(r,d,neg_ctx)).collect::<Vec<_>>().join("") }
      2 => { let n=2+r.below(2); (0..n).map(|_| { let o=operand(r,d,neg_ctx); if o=="a-c" {"[a-c]".to_string()} else {o} }).collect::<Vec<_>>().join("&&") }
      _ => { let n=2+r.below(2); (0..n).map(|_| { let o=operand(r,d,neg_ctx); if o=="a-c" {"[a-c]".to_string()} else {o} }).collect::<Vec<_>>().join("--") }
    }
}
fn main(){
    let args:Vec<String>=std::env::args().collect();
    let seed:u64=args[1].parse().unwrap(); let n:u64=args[2].parse().unwrap();
    let mut r=Rng(seed*0x9E3779B97F4A7C15+3);
    let hay=["a","b","c","A","B","C","1","_","ſ","K","k","s","S","é","&","-","ab","AB","aB","d","D"];
    for _ in 0..n {
        let neg=r.below(4)==0; let e=expr(&mut r,2,neg);
        let p=format!("^[{}{}]$", if neg {"^"} else {""}, e);
        for f in ["v","iv"] {
            match Regex::with_flags(&p,f) { Err(_)=>println!("{}\t{}\tERR",p,f), Ok(re)=>{ let bits:String=hay.iter().map(|t| if re.find(t).is_some() {'1'} else {'0'}).collect(); println!("{}\t{}\t{}",p,f,bits);} }
        }
    }
}
