//! `cps` subcommand: random operation sequences on CodePointSet (through the verif hook exports),
//! printing the state after every operation for the model driver.
use crate::gen::Rng;
use regress::verif::*;
use std::fmt::Write as _;
use std::io::Write as _;

const EDGES: &[u32] = &[0, 0x7F, 0x80, 0x7FF, 0x800, 0xD7FF, 0xD800, 0xDFFF, 0xE000, 0xFFFF, 0x10000, 0x10FFFF, 0x41, 0x5A, 0x61, 0x7A, 0x17F, 0x212A, 0x3B1, 0x1E9E];

fn pt(r: &mut Rng) -> u32 {
    match r.below(4) {
        0 => {
            let e = *r.pick(EDGES);
            match r.below(3) {
                0 => e,
                1 => e.saturating_sub(1),
                _ => (e + 1).min(0x10FFFF),
            }
        }
        1 => r.below(300) as u32,
        2 => r.below(0x110000) as u32,
        _ => 0x40 + r.below(0x80) as u32,
    }
}
fn ivl(r: &mut Rng) -> (u32, u32) {
    let a = pt(r);
    let b = if r.chance(1, 3) { a } else if r.chance(1, 2) { (a + r.below(40) as u32).min(0x10FFFF) } else { pt(r) };
    (a.min(b), a.max(b))
}
fn small_set(r: &mut Rng) -> CodePointSet {
    let mut s = CodePointSet::new();
    for _ in 0..r.below(5) {
        let (a, b) = ivl(r);
        s.add(interval(a, b));
    }
    s
}
fn show(s: &CodePointSet) -> String {
    let mut o = format!("{}", s.intervals().len());
    for iv in s.intervals() {
        let (a, b) = interval_bounds(*iv);
        write!(o, " {} {}", a, b).unwrap();
    }
    o
}

pub fn cmd_cps(args: &[String]) {
    let seed: u64 = args[0].parse().unwrap();
    let n: u64 = args[1].parse().unwrap();
    let mut r = Rng::new(seed);
    let stdout = std::io::stdout();
    let mut w = std::io::BufWriter::new(stdout.lock());
    for id in 0..n {
        let mut s = CodePointSet::new();
        writeln!(w, "S {}", id).unwrap();
        let nops = 1 + r.below(12);
        for _ in 0..nops {
            match r.below(9) {
                0 | 1 | 2 => {
                    let (a, b) = ivl(&mut r);
                    s.add(interval(a, b));
                    writeln!(w, "O add {} {} = {}", a, b, show(&s)).unwrap();
                }
                3 => {
                    let c = pt(&mut r);
                    s.add_one(c);
                    writeln!(w, "O add_one {} = {}", c, show(&s)).unwrap();
                }
                4 => {
                    let o = small_set(&mut r);
                    let os = show(&o);
                    s.add_set(o);
                    writeln!(w, "O add_set {} = {}", os, show(&s)).unwrap();
                }
                5 => {
                    let cnt = s.inverted_interval_count();
                    s = s.inverted();
                    writeln!(w, "O inverted {} = {}", cnt, show(&s)).unwrap();
                }
                6 => {
                    let o = small_set(&mut r);
                    cps_remove(&mut s, o.intervals());
                    writeln!(w, "O remove {} = {}", show(&o), show(&s)).unwrap();
                }
                7 => {
                    let o = small_set(&mut r);
                    cps_intersect(&mut s, o.intervals());
                    writeln!(w, "O intersect {} = {}", show(&o), show(&s)).unwrap();
                }
                _ => {
                    // case closure of the current set (legacy and unicode) — does not change s
                    if s.intervals().len() <= 6 {
                        let u = add_icase_code_points(s.clone());
                        writeln!(w, "O icase_u - = {}", show(&u)).unwrap();
                    }
                }
            }
            // membership probes around the edges
            let mut pl = String::from("Q");
            for _ in 0..4 {
                let c = pt(&mut r);
                write!(pl, " {} {}", c, cps_contains(&s, c) as u8).unwrap();
            }
            writeln!(w, "{}", pl).unwrap();
        }
    }
}

/// `fold <lo> <hi>`: fold_code_point / unfold tables over a code point range (both modes).
pub fn cmd_fold(args: &[String]) {
    let lo: u32 = args[0].parse().unwrap();
    let hi: u32 = args[1].parse().unwrap();
    let stdout = std::io::stdout();
    let mut w = std::io::BufWriter::new(stdout.lock());
    for c in lo..=hi {
        let fu = fold_code_point(c, true);
        let fl = fold_code_point(c, false);
        let uu = unfold_char(c);
        let ul = unfold_uppercase_char(c);
        if fu == c && fl == c && uu.len() == 1 && ul.len() == 1 && !nonascii_folds_to_ascii_word_char(c) {
            continue; // identity everywhere: reported in bulk by the range line
        }
        let mut l = format!("F {} {} {} {}", c, fu, fl, nonascii_folds_to_ascii_word_char(c) as u8);
        write!(l, " {}", uu.len()).unwrap();
        for x in &uu {
            write!(l, " {}", x).unwrap();
        }
        write!(l, " {}", ul.len()).unwrap();
        for x in &ul {
            write!(l, " {}", x).unwrap();
        }
        writeln!(w, "{}", l).unwrap();
    }
    writeln!(w, "FR {} {}", lo, hi).unwrap();
}

/// `props <file>`: lines "name-or-dash TAB value TAB unicode_sets(0/1)"; prints the lookup result.
pub fn cmd_props(args: &[String]) {
    let text = std::fs::read_to_string(&args[0]).unwrap();
    let stdout = std::io::stdout();
    let mut w = std::io::BufWriter::new(stdout.lock());
    for line in text.lines() {
        let f: Vec<&str> = line.split('\t').collect();
        if f.len() < 3 {
            continue;
        }
        let name = if f[0] == "-" { None } else { Some(f[0]) };
        let us = f[2] == "1";
        let r = property_lookup(name, f[1], us);
        let mut l = format!("L {} {} {}", crate::dump::hex(f[0].as_bytes()), crate::dump::hex(f[1].as_bytes()), f[2]);
        match r {
            None => l.push_str(" N"),
            Some((ivs, strs)) => {
                if strs.is_empty() {
                    write!(l, " C {}", ivs.len()).unwrap();
                    for (a, b) in ivs {
                        write!(l, " {} {}", a, b).unwrap();
                    }
                } else {
                    write!(l, " S {}", strs.len()).unwrap();
                    for s in strs {
                        write!(l, " {}", s.len()).unwrap();
                        for c in s {
                            write!(l, " {}", c).unwrap();
                        }
                    }
                }
            }
        }
        writeln!(w, "{}", l).unwrap();
    }
}

/// `foldeq lo hi`: engine-level equivalence under the i flag through the public API.  For every code point c
/// of the range with a non-trivial fold class (either mode) and every partner d (class members of both modes,
/// c^0x20, neighbours, the two non-ASCII code points that fold to ASCII), in both modes:
///   br  = /^(c)\1$/  on "cd"   (text side folded at match time)
///   lit = /^c$/       on "d"    (pattern side expanded at compile time)
///   cls = /^[c]$/     on "d",  ncls = /^[^c]$/ on "d"
/// prints "E u c d br lit cls ncls".
pub fn cmd_foldeq(args: &[String]) {
    let lo: u32 = args[0].parse().unwrap();
    let hi: u32 = args[1].parse().unwrap();
    let stdout = std::io::stdout();
    let mut w = std::io::BufWriter::new(stdout.lock());
    let is_sv = |c: u32| c < 0x110000 && !(0xD800..0xE000).contains(&c);
    let syntax = |c: u32| c < 0x80 && !(c as u8 as char).is_ascii_alphanumeric();
    let run = |pat: Vec<u32>, fl: &str, hay: &str| -> u8 {
        match regress::Regex::from_unicode(pat.into_iter(), regress::Flags::from(fl)) {
            Ok(re) => re.find(hay).is_some() as u8,
            Err(_) => 2,
        }
    };
    for c in lo..=hi {
        if !is_sv(c) || syntax(c) { continue; }
        let cu = expand_code_point(c, true, true);
        let cl = expand_code_point(c, true, false);
        if cu.len() == 1 && cl.len() == 1 && fold_code_point(c, true) == c && fold_code_point(c, false) == c { continue; }
        let mut ds: Vec<u32> = Vec::new();
        ds.extend(cu.iter().copied());
        ds.extend(cl.iter().copied());
        ds.extend([c ^ 0x20, c.wrapping_add(1), c.wrapping_sub(1), 0x17F, 0x212A, 0x130, 0x131, 0x73, 0x6B, 0x53, 0x4B, fold_code_point(c, true), fold_code_point(c, false)]);
        ds.sort(); ds.dedup();
        for &d in &ds {
            if !is_sv(d) || syntax(d) { continue; }
            let (cs, dsr) = (char::from_u32(c).unwrap(), char::from_u32(d).unwrap());
            let two: String = [cs, dsr].iter().collect();
            let one: String = [dsr].iter().collect();
            for (u, fl) in [(0u8, "i"), (1u8, "iu")] {
                let br = run(vec!['^' as u32, '(' as u32, c, ')' as u32, '\\' as u32, '1' as u32, '$' as u32], fl, &two);
                let lit = run(vec!['^' as u32, c, '$' as u32], fl, &one);
                let cls = run(vec!['^' as u32, '[' as u32, c, ']' as u32, '$' as u32], fl, &one);
                let ncls = run(vec!['^' as u32, '[' as u32, '^' as u32, c, ']' as u32, '$' as u32], fl, &one);
                writeln!(w, "E {} {} {} {} {} {} {}", u, c, d, br, lit, cls, ncls).unwrap();
            }
        }
        // interval classes around c (C10: the class side is closed interval by interval, FoldRange by FoldRange,
        // with strides): every alignment of a short interval containing c, probed with the partners of every member
        // and of the two code points just outside
        for off in 0..4u32 {
            for len in [2u32, 4, 5] {
                if off >= len || c < off { continue; }
                let a = c - off;
                let b = a + len - 1;
                if b > 0x10FFFF || (a..=b).any(|x| !is_sv(x) || syntax(x)) { continue; }
                let mut probes: Vec<u32> = Vec::new();
                for e in a.saturating_sub(1)..=(b + 1).min(0x10FFFF) {
                    probes.push(e);
                    probes.extend(expand_code_point(e, true, true));
                    probes.extend(expand_code_point(e, true, false));
                }
                probes.sort(); probes.dedup();
                for (u, fl) in [(0u8, "i"), (1u8, "iu")] {
                    let pos = regress::Regex::from_unicode(vec!['^' as u32, '[' as u32, a, '-' as u32, b, ']' as u32, '$' as u32].into_iter(), regress::Flags::from(fl));
                    let neg = regress::Regex::from_unicode(vec!['^' as u32, '[' as u32, '^' as u32, a, '-' as u32, b, ']' as u32, '$' as u32].into_iter(), regress::Flags::from(fl));
                    for &d in &probes {
                        if !is_sv(d) { continue; }
                        let one: String = [char::from_u32(d).unwrap()].iter().collect();
                        let r = match &pos { Ok(re) => re.find(&one).is_some() as u8, Err(_) => 2 };
                        let nr = match &neg { Ok(re) => re.find(&one).is_some() as u8, Err(_) => 2 };
                        writeln!(w, "V {} {} {} {} {} {}", u, a, b, d, r, nr).unwrap();
                    }
                }
            }
        }
    }
}
