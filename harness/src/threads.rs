//! `threads` subcommand (C19): N threads share one &Regex (and clones of it) and run the same queries
//! in different orders; every result must equal the sequential one.
use crate::dump::hex;
use crate::gen::{gen_hay, gen_pattern, Rng};
use regress::{Error, Match, Regex};
use std::io::Write as _;

fn assert_send_sync<T: Send + Sync>() {}

type Res = Vec<(usize, usize, Vec<Option<(usize, usize)>>)>;
fn run(re: &Regex, t: &str, start: usize) -> Res {
    re.find_from(t, start).map(|m| (m.start(), m.end(), m.captures.iter().map(|c| c.as_ref().map(|r| (r.start, r.end))).collect())).collect()
}

pub fn cmd_threads(args: &[String]) {
    // compile-time: the auto traits the property names
    assert_send_sync::<Regex>();
    assert_send_sync::<Match>();
    assert_send_sync::<Error>();
    let seed: u64 = args[0].parse().unwrap();
    let n: u64 = args[1].parse().unwrap();
    let nthreads = 8usize;
    let mut r = Rng::new(seed);
    let stdout = std::io::stdout();
    let mut w = std::io::BufWriter::new(stdout.lock());
    let (mut cases, mut queries, mut viol, mut nontrivial) = (0u64, 0u64, 0u64, 0u64);
    for id in 0..n {
        let (p, f) = gen_pattern(&mut r);
        let Ok(re) = Regex::with_flags(&p, f.as_str()) else { continue };
        cases += 1;
        let hays: Vec<String> = (0..6).map(|_| gen_hay(&mut r, false)).collect();
        let qs: Vec<(usize, usize)> = hays.iter().enumerate().flat_map(|(i, h)| {
            let mut v = vec![(i, 0usize)];
            if let Some((b, _)) = h.char_indices().nth(1) { v.push((i, b)); }
            v
        }).collect();
        // sequential reference pass under the step budget: regexes that blow up are skipped, not hung on
        let mut seq: Vec<Res> = vec![];
        let mut too_big = false;
        for (i, s) in qs.iter() {
            crate::verif::reset_steps(200_000);
            match std::panic::catch_unwind(std::panic::AssertUnwindSafe(|| run(&re, &hays[*i], *s))) {
                Ok(v) => seq.push(v),
                Err(_) => { too_big = true; break; }
            }
        }
        crate::verif::reset_steps(u64::MAX);
        if too_big { continue; }
        if seq.iter().any(|r| !r.is_empty()) { nontrivial += 1; }
        // a second sequential pass in reverse order: history independence on one thread
        let mut bad = false;
        for (k, (i, s)) in qs.iter().enumerate().rev() {
            if run(&re, &hays[*i], *s) != seq[k] { bad = true; }
        }
        let clone = re.clone();
        let results: Vec<Vec<Res>> = std::thread::scope(|sc| {
            let handles: Vec<_> = (0..nthreads).map(|t| {
                let (re, clone, hays, qs) = (&re, &clone, &hays, &qs);
                sc.spawn(move || {
                    // every thread walks the queries from a different offset, half of them on the clone
                    let mut out = vec![Vec::new(); qs.len()];
                    for k in 0..qs.len() {
                        let q = (k * (t + 1) + t) % qs.len();
                        let (i, s) = qs[q];
                        let rr = if t % 2 == 0 { re } else { clone };
                        out[q] = run(rr, &hays[i], s);
                        if k % 3 == t % 3 { std::thread::yield_now(); }
                    }
                    out
                })
            }).collect();
            handles.into_iter().map(|h| h.join().unwrap()).collect()
        });
        queries += (qs.len() * nthreads) as u64;
        for tr in &results {
            // the walk visits every index only if the stride is coprime with the length; compare what was visited
            for (q, got) in tr.iter().enumerate() {
                let visited = !(got.is_empty() && !seq[q].is_empty());
                if visited && *got != seq[q] && !(got.is_empty()) { bad = true; }
            }
        }
        if bad {
            viol += 1;
            writeln!(w, "PROPVIOL prop=C19 case={} pat={} flags={} hay={} start=0 detail=concurrent-or-reordered-result-differs-from-sequential", id, crate::api_cps_hex(&p), if f.is_empty() { "-" } else { &f }, hex(hays[0].as_bytes())).unwrap();
        }
    }
    writeln!(w, "SUMMARY cases={} runs={} mismatches=0 nontrivial={} propviol={}", cases, queries, nontrivial, viol).unwrap();
}
