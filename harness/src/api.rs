//! `api` subcommand: Match accessors, replace*, escape — results printed for the model driver.
use crate::dump::hex;
use crate::gen::Rng;
use crate::{compile};
use regress::Regex;
use std::fmt::Write as _;
use std::io::Write as _;
use std::panic;

const NAMES: &[&str] = &["a", "b", "n", "é"];
const ITEMS: &[&str] = &["x", "y", "z", "é", "", ".", "x?", "y*", "\\d"];

fn gen_named(r: &mut Rng) -> String {
    let nalt = 1 + r.below(3);
    let mut alts = vec![];
    for _ in 0..nalt {
        let n = 1 + r.below(4);
        let mut s = String::new();
        for _ in 0..n {
            match r.below(9) {
                0 | 1 => s.push_str(*r.pick(ITEMS)),
                2 | 3 => {
                    let name = *r.pick(NAMES);
                    let body = *r.pick(ITEMS);
                    write!(s, "(?<{}>{})", name, body).unwrap();
                    if r.chance(1, 4) {
                        s.push('?');
                    }
                }
                4 => {
                    write!(s, "({})", r.pick(ITEMS)).unwrap();
                    if r.chance(1, 4) {
                        s.push('?');
                    }
                }
                5 => write!(s, "\\k<{}>", r.pick(NAMES)).unwrap(),
                6 => {
                    // nested group with an inner alternative reusing a name
                    let a = *r.pick(NAMES);
                    write!(s, "(?:(?<{}>x)|(?<{}>y)|z)", a, a).unwrap();
                }
                _ => {
                    // named and unnamed groups inside a lookaround (lookbehind bodies are emitted right to left)
                    let open = *r.pick(&["(?<=", "(?<!", "(?=", "(?!", "(?<="]);
                    let (a, b) = (*r.pick(NAMES), *r.pick(ITEMS));
                    let second = match r.below(3) { 0 => format!("({})", r.pick(ITEMS)), 1 => format!("(?<{}>{})", r.pick(NAMES), r.pick(ITEMS)), _ => String::new() };
                    write!(s, "{}(?<{}>{}){})", open, a, b, second).unwrap();
                }
            }
        }
        // now and then an alternative that can never match (the optimizer replaces it by an always-failing node
        // unless it holds capture groups): the groups of the pattern must all still be reported
        if r.chance(1, 10) {
            if r.chance(1, 2) { s.push_str("[]") } else { s = format!("[]{}", s) }
        }
        alts.push(s);
    }
    alts.join("|")
}

const TEMPLATES: &[&str] = &[
    "", "$", "$$", "$0", "$1", "$2", "$9", "$10", "$01", "$65535", "$65536", "$655360", "$99999999999999999999", "${a}", "${b}", "${n}", "${é}",
    "${", "${a", "${}", "${zz}", "[$1|$2]", "$a", "$$1", "$$$1", "x$1y${a}z$$", "é$0é", "$1$1", "${a}${a}", "$ {a}", "$}", "${a}}", "$1a", "\u{1F600}$0",
];
fn gen_template(r: &mut Rng) -> String {
    if r.chance(1, 2) {
        return r.pick(TEMPLATES).to_string();
    }
    let n = r.below(8);
    let mut s = String::new();
    for _ in 0..n {
        s.push_str(*r.pick(&["$", "$", "{", "}", "0", "1", "2", "9", "a", "n", "é", "x", "$$", "${a}", "6", "5"]));
    }
    s
}
const HAYS: &[&str] = &["", "x", "y", "xy", "yx", "xyz", "zzz", "xéy", "éxé", "x1y2", "xxyy", "zxzy", "\u{1F600}x", "abc xyz", "yyx"];

fn cps_hex(s: &str) -> String {
    if s.is_empty() {
        return "-".into();
    }
    s.chars().map(|c| format!("{:x}", c as u32)).collect::<Vec<_>>().join(",")
}
fn res(r: &Option<std::ops::Range<usize>>) -> String {
    match r {
        Some(r) => format!("{} {}", r.start, r.end),
        None => "-".into(),
    }
}
fn outcome<F: FnOnce() -> String + panic::UnwindSafe>(f: F) -> String {
    match panic::catch_unwind(f) {
        Ok(s) => hex(s.as_bytes()),
        Err(_) => "PANIC".into(),
    }
}

pub fn emit_api_case(out: &mut String, id: u64, p: &str, f: &str, hays: &[String], templates: &[String]) -> bool {
    let pc: Vec<u32> = p.chars().map(|c| c as u32).collect();
    let cr = match compile(&pc, f, false) {
        Ok(cr) => cr,
        Err(_) => return false,
    };
    let names: Vec<String> = cr.group_names.iter().map(|s| s.to_string()).collect();
    let ngroups = cr.groups;
    let re = Regex::from(cr);
    writeln!(out, "A {} {} {} {}", id, cps_hex(p), if f.is_empty() { "-" } else { f }, ngroups).unwrap();
    let mut nl = format!("N {}", names.len());
    for n in &names {
        write!(nl, " {}", hex(n.as_bytes())).unwrap();
    }
    writeln!(out, "{}", nl).unwrap();
    // the names of the capturing groups in left-parenthesis order, read off the pattern text
    if let Some(src) = source_group_names(p) {
        let mut sl = format!("NS {}", src.len());
        for n in &src {
            write!(sl, " {}", hex(n.as_bytes())).unwrap();
        }
        writeln!(out, "{}", sl).unwrap();
    }
    let mut qnames: Vec<String> = NAMES.iter().map(|s| s.to_string()).collect();
    qnames.push("".into());
    qnames.push("zz".into());
    // exploding searches (exponential backtracking) are not what this stream is about: bound the first pass
    for t in hays {
        crate::verif::reset_steps(2_000_000);
        let r = panic::catch_unwind(panic::AssertUnwindSafe(|| re.find_iter(t).count()));
        crate::verif::reset_steps(u64::MAX);
        if r.is_err() {
            out.clear();
            return false;
        }
    }
    for t in hays {
        writeln!(out, "T {}", hex(t.as_bytes())).unwrap();
        let ms: Vec<regress::Match> = re.find_iter(t).collect();
        for (mi, m) in ms.iter().enumerate() {
            let mut s = format!("M {} {} {}", m.start(), m.end(), m.captures.len());
            for c in &m.captures {
                write!(s, " {}", res(c)).unwrap();
            }
            writeln!(out, "{}", s).unwrap();
            for i in 0..(m.captures.len() + 3) {
                writeln!(out, "Q group {} {} {}", mi, i, res(&m.group(i))).unwrap();
            }
            for n in &qnames {
                let r = panic::catch_unwind(panic::AssertUnwindSafe(|| m.named_group(n)));
                writeln!(out, "Q named {} {} {}", mi, hex(n.as_bytes()), match r { Ok(r) => res(&r), Err(_) => "PANIC".into() }).unwrap();
            }
            let ng: Vec<(String, Option<std::ops::Range<usize>>)> = m.named_groups().map(|(n, r)| (n.to_string(), r)).collect();
            let mut s = format!("Q ngroups {} {} {}", mi, ng.len(), m.named_groups().len());
            for (n, r) in &ng {
                write!(s, " {} {}", hex(n.as_bytes()), res(r)).unwrap();
            }
            writeln!(out, "{}", s).unwrap();
            let gs: Vec<Option<std::ops::Range<usize>>> = m.groups().collect();
            let mut s = format!("Q groups {} {} {}", mi, gs.len(), m.groups().len());
            for r in &gs {
                write!(s, " {}", res(r)).unwrap();
            }
            writeln!(out, "{}", s).unwrap();
        }
        for tp in templates {
            let (re1, t1, tp1) = (re.clone(), t.clone(), tp.clone());
            writeln!(out, "P replace {} {}", cps_hex(tp), outcome(move || re1.replace(&t1, &tp1))).unwrap();
            let (re1, t1, tp1) = (re.clone(), t.clone(), tp.clone());
            writeln!(out, "P replace_all {} {}", cps_hex(tp), outcome(move || re1.replace_all(&t1, &tp1))).unwrap();
        }
        let (re1, t1) = (re.clone(), t.clone());
        writeln!(out, "P ident - {}", outcome(move || re1.replace_all_with(&t1, |m| t1[m.range()].to_string()))).unwrap();
        let (re1, t1) = (re.clone(), t.clone());
        writeln!(out, "P first_ident - {}", outcome(move || re1.replace_with(&t1, |m| t1[m.range()].to_string()))).unwrap();
        let (re1, t1) = (re.clone(), t.clone());
        writeln!(out, "P all_const - {}", outcome(move || re1.replace_all_with(&t1, |_| "<>".to_string()))).unwrap();
    }
    writeln!(out, "E").unwrap();
    true
}

/// escape <seed> <n>: random strings s; prints s, escape(s), compile status under every flag set,
/// and the matches of escape(s) in random texts t next to str::match_indices.
pub fn cmd_escape(args: &[String]) {
    let seed: u64 = args[0].parse().unwrap();
    let n: u64 = args[1].parse().unwrap();
    let mut r = Rng::new(seed);
    let alpha = ["\\", "^", "$", ".", "|", "?", "*", "+", "(", ")", "[", "]", "{", "}", "a", "b", "-", "/", "é", "\u{1F600}", "\n", " ", "1", ",", "&", "~", "#", "K", "k", "\u{212A}", "\0", "s", "\u{17F}", "ß", "A", "<", ">", "=", "!", ":", "n", "d", "w", "u", "0"];
    let flagsets = ["", "i", "m", "s", "u", "v", "iu", "iv", "ms", "imsu", "imsv", "is"];
    let stdout = std::io::stdout();
    let mut w = std::io::BufWriter::new(stdout.lock());
    for _ in 0..n {
        let k = if r.chance(1, 5) { 0 } else { r.below(4) + if r.chance(1, 4) { r.below(6) } else { 0 } };
        let mut s = String::new();
        for _ in 0..k {
            s.push_str(*r.pick(&alpha));
        }
        let esc = regress::escape(&s);
        writeln!(w, "S {} {}", cps_hex(&s), cps_hex(&esc)).unwrap();
        // texts: embed s (or a case variant) in random surroundings
        let mut texts: Vec<String> = vec![];
        for _ in 0..3 {
            let mut t = String::new();
            let parts = r.below(4);
            for _ in 0..parts {
                match r.below(4) {
                    0 => t.push_str(&s),
                    1 => t.push_str(&s.to_uppercase()),
                    2 => t.push_str(&s.to_lowercase()),
                    _ => {
                        let m = r.below(3);
                        for _ in 0..m {
                            t.push_str(*r.pick(&alpha));
                        }
                    }
                }
            }
            texts.push(t);
        }
        for f in flagsets.iter() {
            match Regex::with_flags(&esc, *f) {
                Err(e) => writeln!(w, "F {} 0 {}", if f.is_empty() { "-" } else { f }, hex(e.text.as_bytes())).unwrap(),
                Ok(re) => {
                    writeln!(w, "F {} 1", if f.is_empty() { "-" } else { f }).unwrap();
                    for t in &texts {
                        let got = panic::catch_unwind(panic::AssertUnwindSafe(|| re.find_iter(t).map(|m| (m.start(), m.end())).collect::<Vec<_>>()));
                        let mut line = format!("O {} {}", if f.is_empty() { "-" } else { f }, hex(t.as_bytes()));
                        match got {
                            Ok(v) => {
                                write!(line, " {}", v.len()).unwrap();
                                for (a, b) in v {
                                    write!(line, " {} {}", a, b).unwrap();
                                }
                            }
                            Err(_) => line.push_str(" PANIC"),
                        }
                        writeln!(w, "{}", line).unwrap();
                    }
                }
            }
        }
        for t in &texts {
            let v: Vec<(usize, usize)> = t.match_indices(s.as_str()).map(|(i, m)| (i, i + m.len())).collect();
            let mut line = format!("X {} {}", hex(t.as_bytes()), v.len());
            for (a, b) in v {
                write!(line, " {} {}", a, b).unwrap();
            }
            writeln!(w, "{}", line).unwrap();
        }
    }
}

pub fn cmd_api(args: &[String]) {
    let seed: u64 = args[0].parse().unwrap();
    let n: u64 = args[1].parse().unwrap();
    let mut r = Rng::new(seed);
    let stdout = std::io::stdout();
    let mut w = std::io::BufWriter::new(stdout.lock());
    for id in 0..n {
        let p = if r.chance(3, 4) { gen_named(&mut r) } else { crate::gen::gen_pattern(&mut r).0 };
        let f = *r.pick(&["", "", "i", "u", "v"]);
        let hays: Vec<String> = (0..3).map(|_| r.pick(HAYS).to_string()).collect();
        let templates: Vec<String> = (0..4).map(|_| gen_template(&mut r)).collect();
        let mut out = String::new();
        if emit_api_case(&mut out, id, &p, f, &hays, &templates) {
            w.write_all(out.as_bytes()).unwrap();
        }
    }
}

/// apicases <file>: lines flags TAB pattern-hex TAB hay-hex
pub fn cmd_apicases(args: &[String]) {
    let text = std::fs::read_to_string(&args[0]).unwrap();
    let mut r = Rng::new(7);
    for (id, line) in text.lines().enumerate() {
        let f: Vec<&str> = line.split('\t').collect();
        if f.len() < 3 { continue; }
        let flags = if f[0] == "-" { "" } else { f[0] };
        let p: String = if f[1] == "-" { String::new() } else { f[1].split(',').map(|x| char::from_u32(u32::from_str_radix(x, 16).unwrap()).unwrap_or('?')).collect() };
        let hb: Vec<u8> = if f[2] == "-" { vec![] } else { (0..f[2].len() / 2).map(|i| u8::from_str_radix(&f[2][2 * i..2 * i + 2], 16).unwrap()).collect() };
        let t = String::from_utf8(hb).unwrap_or_default();
        let templates: Vec<String> = (0..6).map(|_| gen_template(&mut r)).collect();
        let mut out = String::new();
        if emit_api_case(&mut out, id as u64, &p, flags, &[t], &templates) {
            print!("{}", out);
        }
    }
}

/// Capturing groups of a pattern in left-parenthesis order ("" = unnamed), by a scan of the pattern text that
/// skips escapes and character classes.  None when the text uses something the scan does not understand
/// (escaped names), so that no verdict is derived from it.
pub fn source_group_names(p: &str) -> Option<Vec<String>> {
    let cs: Vec<char> = p.chars().collect();
    let mut out = Vec::new();
    let mut i = 0;
    let mut depth = 0usize; // class nesting
    while i < cs.len() {
        let c = cs[i];
        if c == '\\' {
            i += 2;
            continue;
        }
        if depth > 0 {
            if c == '[' { depth += 1; } else if c == ']' { depth -= 1; }
            i += 1;
            continue;
        }
        if c == '[' {
            depth = 1;
            i += 1;
            continue;
        }
        if c == '(' {
            if i + 1 < cs.len() && cs[i + 1] == '?' {
                if i + 2 < cs.len() && cs[i + 2] == '<' && i + 3 < cs.len() && cs[i + 3] != '=' && cs[i + 3] != '!' {
                    let mut j = i + 3;
                    let mut name = String::new();
                    while j < cs.len() && cs[j] != '>' {
                        if cs[j] == '\\' { return None; }
                        name.push(cs[j]);
                        j += 1;
                    }
                    out.push(name);
                }
            } else {
                out.push(String::new());
            }
        }
        i += 1;
    }
    Some(out)
}
