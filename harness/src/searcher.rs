//! `searcher` subcommand (nightly, --features pattern): the std::str::pattern Searcher /
//! ReverseSearcher steps of a regex over a haystack.
#![cfg(feature = "pattern")]
use crate::dump::hex;
use crate::gen::Rng;
use regress::Regex;
use std::io::Write as _;
use std::str::pattern::{Pattern, ReverseSearcher, SearchStep, Searcher};

fn step_str(s: SearchStep) -> String {
    match s {
        SearchStep::Match(a, b) => format!("M {} {}", a, b),
        SearchStep::Reject(a, b) => format!("R {} {}", a, b),
        SearchStep::Done => "D".into(),
    }
}

const PATS: &[&str] = &[
    "", "a", "\\d*", "\\d+", "a|", "(?:)", "b*", "x*?", "ab", "[ab]+", "^", "$", "\\b", "a?", ".", ".*", "é", "é*", "(?=a)", "(?<=a)", "a{2}", "\\B", "[^a]*", "(a)|b", "\u{1F600}?",
];
const HAYS: &[&str] = &["", "a", "ab12cd", "aaa", "éa", "aéa", "a\u{1F600}b", "bab", "12", "x", "abab", "  a ", "ééé", "a1b22c333",
    "\u{FF01}ab", "a\u{7FF}\u{800}", "\u{FFFF}\u{10000}x", "\u{80}\x7f", "x\u{10FFFF}"];

pub fn cmd_searcher(args: &[String]) {
    let seed: u64 = args[0].parse().unwrap();
    let n: u64 = args[1].parse().unwrap();
    let mut r = Rng::new(seed);
    let stdout = std::io::stdout();
    let mut w = std::io::BufWriter::new(stdout.lock());
    let mut cases: Vec<(String, String)> = vec![];
    if seed % 1000 == 0 {
        for p in PATS {
            for h in HAYS {
                cases.push((p.to_string(), h.to_string()));
            }
        }
    }
    for _ in 0..n {
        let p = if r.chance(1, 2) { r.pick(PATS).to_string() } else { crate::gen::gen_pattern(&mut r).0 };
        let h = if r.chance(1, 2) { r.pick(HAYS).to_string() } else { crate::gen::gen_hay(&mut r, false) };
        cases.push((p, h));
    }
    let mut skipped = 0u64;
    for (id, (p, h)) in cases.iter().enumerate() {
        let Ok(re) = Regex::new(p) else { continue };
        // a pattern that explodes on this haystack is skipped (the searcher repeats searches from many positions;
        // C05 is checked elsewhere): one pass of find_iter under a step budget decides
        regress::verif::reset_steps(200_000);
        let pre = std::panic::catch_unwind(std::panic::AssertUnwindSafe(|| re.find_iter(h).count()));
        regress::verif::reset_steps(u64::MAX);
        if pre.is_err() {
            skipped += 1;
            continue;
        }
        let bound = 4 * h.len() + 8;
        writeln!(w, "S {} {} {}", id, crate::api_cps_hex(p), hex(h.as_bytes())).unwrap();
        let ms: Vec<String> = re.find_iter(h).map(|m| format!("{} {}", m.start(), m.end())).collect();
        writeln!(w, "I {} {}", ms.len(), ms.join(" ")).unwrap();
        // find_from(..).next() from every char boundary (what the forward searcher consults)
        let mut gl = String::from("G");
        let mut bs: Vec<usize> = h.char_indices().map(|(i, _)| i).collect();
        bs.push(h.len());
        for p in bs {
            match re.find_from(h, p).next() {
                Some(m) => gl.push_str(&format!(" {} {} {}", p, m.start(), m.end())),
                None => gl.push_str(&format!(" {} - -", p)),
            }
        }
        writeln!(w, "{}", gl).unwrap();
        let mut s = (&re).into_searcher(h);
        let mut line = String::from("F");
        for _ in 0..bound {
            let st = s.next();
            line.push(' ');
            line.push_str(&step_str(st));
            if st == SearchStep::Done {
                break;
            }
        }
        writeln!(w, "{}", line).unwrap();
        let mut s = (&re).into_searcher(h);
        let mut line = String::from("B");
        for _ in 0..bound {
            let st = s.next_back();
            line.push(' ');
            line.push_str(&step_str(st));
            if st == SearchStep::Done {
                break;
            }
        }
        writeln!(w, "{}", line).unwrap();
        // interleaving: the two directions keep independent cursors; record a mixed history
        let mut s = (&re).into_searcher(h);
        let mut line = String::from("X");
        let (mut fd, mut bd) = (false, false);
        for k in 0..(2 * bound) {
            let fwd = if fd { false } else if bd { true } else { r.chance(1, 2) || k == 0 };
            let st = if fwd { s.next() } else { s.next_back() };
            line.push_str(if fwd { " f " } else { " b " });
            line.push_str(&step_str(st));
            if st == SearchStep::Done {
                if fwd { fd = true } else { bd = true }
            }
            if fd && bd {
                break;
            }
        }
        writeln!(w, "{}", line).unwrap();
    }
    writeln!(w, "K {}", skipped).unwrap();
}
