//! `utf16` subcommand (C14, built with --features utf16): UTF-16 / UCS-2 entry points vs UTF-8.
#![cfg(feature = "utf16")]
use crate::dump::hex;
use crate::gen::{gen_hay, gen_pattern, Rng};
use regress::Regex;
use std::io::Write as _;
use std::panic;

type Res = Vec<(usize, usize, Vec<Option<(usize, usize)>>)>;

pub fn cmd_utf16(args: &[String]) {
    let seed: u64 = args[0].parse().unwrap();
    let n: u64 = args[1].parse().unwrap();
    let mut r = Rng::new(seed);
    let stdout = std::io::stdout();
    let mut w = std::io::BufWriter::new(stdout.lock());
    let (mut cases, mut runs, mut viol, mut nontrivial, mut skipped) = (0u64, 0u64, 0u64, 0u64, 0u64);
    // a fixed family first: case-insensitive backreferences, literals and classes over texts made of fold partners
    // (the text side is folded at match time by the input type, so every input type must fold the same way)
    const FAM_PATS: &[&str] = &["(.)\\1", "(?<=\\1(.))", "(\\w)\\1", "(.)(.)\\2\\1", "(k)\\1", "(s)\\1+", "(?<a>.)\\k<a>", "\\bk\\b", "[a-z]{2}", "[^a-z]{2}", "\\w\\W", "(\u{3c3})\\1", "(\u{df})\\1", "(?:(.)\\1)+$"];
    const FAM_FLAGS: &[&str] = &["i", "iu", "iv", "", "u"];
    const FAM_HAYS: &[&str] = &["\u{212A}k", "k\u{212A}", "Kk\u{212A}", "s\u{17F}", "\u{17F}s", "S\u{17F}s", "\u{DF}\u{1E9E}", "\u{1E9E}\u{DF}", "\u{3c3}\u{3c2}", "\u{3a3}\u{3c2}\u{3c3}\u{3a3}",
        "\u{1c5}\u{1c6}\u{1c4}", "\u{130}i", "\u{131}I", "aA\u{212A}Kk", "\u{f9}\u{d9}", "\u{436}\u{416}", "\u{e5}\u{212b}", "\u{212b}\u{c5}", "\u{3b9}\u{1fbe}\u{345}", "\u{1e61}\u{1e9b}", " \u{212A} ", "\u{3a9}\u{2126}"];
    let fam: Vec<(String, String)> = FAM_PATS.iter().flat_map(|p| FAM_FLAGS.iter().map(move |f| (p.to_string(), f.to_string()))).collect();
    for id in 0..(n + fam.len() as u64) {
        let is_fam = (id as usize) < fam.len();
        let (p, f) = if is_fam { fam[id as usize].clone() } else { gen_pattern(&mut r) };
        let Ok(re) = Regex::with_flags(&p, f.as_str()) else { continue };
        cases += 1;
        for hk in 0..(if is_fam { FAM_HAYS.len() } else { 4 }) {
            let t = if is_fam { FAM_HAYS[hk].to_string() } else { gen_hay(&mut r, false) };
            // offset maps between the encodings (char boundaries only)
            let mut u8_of_u16 = vec![];
            let mut u16_of_u8 = std::collections::HashMap::new();
            let mut k16 = 0usize;
            for (b, ch) in t.char_indices() {
                u16_of_u8.insert(b, k16);
                for _ in 0..ch.len_utf16() { u8_of_u16.push(b); }
                k16 += ch.len_utf16();
            }
            u16_of_u8.insert(t.len(), k16);
            u8_of_u16.push(t.len());
            let t16: Vec<u16> = t.encode_utf16().collect();
            let starts: Vec<usize> = if r.chance(1, 3) { t.char_indices().map(|(i, _)| i).chain(std::iter::once(t.len())).collect() } else { vec![0] };
            for s8 in starts {
                crate::verif::reset_steps(200_000);
                let a = panic::catch_unwind(panic::AssertUnwindSafe(|| -> Res {
                    re.find_from(&t, s8).map(|m| (m.start(), m.end(), m.captures.iter().map(|c| c.as_ref().map(|r| (r.start, r.end))).collect())).collect()
                }));
                crate::verif::reset_steps(200_000);
                let s16 = u16_of_u8[&s8];
                let b = panic::catch_unwind(panic::AssertUnwindSafe(|| -> Res {
                    re.find_from_utf16(&t16, s16).map(|m| (m.start(), m.end(), m.captures.iter().map(|c| c.as_ref().map(|r| (r.start, r.end))).collect())).collect()
                }));
                crate::verif::reset_steps(u64::MAX);
                runs += 1;
                let (Ok(a), Ok(b)) = (a, b) else { skipped += 1; continue };
                if !a.is_empty() { nontrivial += 1; }
                // translate the utf16 offsets to utf8 ones; an offset inside a surrogate pair maps to None
                let conv = |x: usize| -> Option<usize> { if x < u8_of_u16.len() && (x == 0 || x == t16.len() || u8_of_u16[x] != u8_of_u16[x - 1] || t16.get(x).map(|u| !(0xDC00..0xE000).contains(u)).unwrap_or(true)) { Some(u8_of_u16[x]) } else { None } };
                let b8: Vec<(Option<usize>, Option<usize>, Vec<Option<(Option<usize>, Option<usize>)>>)> =
                    b.iter().map(|(s, e, c)| (conv(*s), conv(*e), c.iter().map(|x| x.map(|(p, q)| (conv(p), conv(q)))).collect())).collect();
                let a8: Vec<(Option<usize>, Option<usize>, Vec<Option<(Option<usize>, Option<usize>)>>)> =
                    a.iter().map(|(s, e, c)| (Some(*s), Some(*e), c.iter().map(|x| x.map(|(p, q)| (Some(p), Some(q)))).collect())).collect();
                if a8 != b8 {
                    viol += 1;
                    writeln!(w, "PROPVIOL prop=C14 case={} pat={} flags={} hay={} start={} detail=utf16<>utf8:{:?}/{:?}", id, crate::api_cps_hex(&p), if f.is_empty() { "-" } else { &f }, hex(t.as_bytes()), s8,
                             b8.first().map(|x| (x.0, x.1)), a8.first().map(|x| (x.0, x.1))).unwrap();
                }
                // UCS-2 agrees on text without supplementary characters
                if t.chars().all(|c| (c as u32) < 0x10000) {
                    crate::verif::reset_steps(200_000);
                    let c = panic::catch_unwind(panic::AssertUnwindSafe(|| -> Res {
                        re.find_from_ucs2(&t16, s16).map(|m| (m.start(), m.end(), m.captures.iter().map(|c| c.as_ref().map(|r| (r.start, r.end))).collect())).collect()
                    }));
                    crate::verif::reset_steps(u64::MAX);
                    if let Ok(c) = c {
                        if c != b {
                            viol += 1;
                            writeln!(w, "PROPVIOL prop=C14 case={} pat={} flags={} hay={} start={} detail=ucs2<>utf16-on-BMP-text", id, crate::api_cps_hex(&p), if f.is_empty() { "-" } else { &f }, hex(t.as_bytes()), s8).unwrap();
                        }
                    }
                }
            }
            // arbitrary u16 input incl. lone surrogates: no panic, ranges inside the slice
            let len = r.below(8) as usize;
            let junk: Vec<u16> = (0..len).map(|_| *r.pick(&[0x61u16, 0x62, 0xD800, 0xDC00, 0xDBFF, 0xDFFF, 0xE9, 0x212A, 0x0A, 0xD83D, 0xDE00, 0xFFFF, 0x0])).collect();
            // the cursor itself (hook export), every offset, both directions, both input types: for the model driver
            for units in [&junk, &t16] {
                if units.len() > 24 { continue; }
                let ux: String = if units.is_empty() { "-".into() } else { units.iter().map(|u| format!("{:x}", u)).collect::<Vec<_>>().join(",") };
                for off in 0..=units.len() {
                    for (fw, uc) in [(true, false), (false, false), (true, true), (false, true)] {
                        let res = regress::verif::utf16_step(units, off, fw, uc);
                        match res {
                            Some((c, q)) => writeln!(w, "D {} {} {} {} {} {}", uc as u8, fw as u8, ux, off, c, q).unwrap(),
                            None => writeln!(w, "D {} {} {} {} N", uc as u8, fw as u8, ux, off).unwrap(),
                        }
                    }
                }
            }
            for which in 0..2 {
                crate::verif::reset_steps(200_000);
                let res = panic::catch_unwind(panic::AssertUnwindSafe(|| -> Vec<(usize, usize, Vec<Option<(usize, usize)>>)> {
                    if which == 0 { re.find_from_utf16(&junk, 0).map(|m| (m.start(), m.end(), m.captures.iter().map(|c| c.as_ref().map(|r| (r.start, r.end))).collect())).collect() }
                    else { re.find_from_ucs2(&junk, 0).map(|m| (m.start(), m.end(), m.captures.iter().map(|c| c.as_ref().map(|r| (r.start, r.end))).collect())).collect() }
                }));
                let steps = crate::verif::steps();
                crate::verif::reset_steps(u64::MAX);
                runs += 1;
                let j: String = junk.iter().map(|u| format!("{:04x}", u)).collect();
                match res {
                    Err(_) => { if steps <= 200_000 { viol += 1; writeln!(w, "PROPVIOL prop=C14 case={} pat={} flags={} hay={} start=0 detail=panic-on-u16-input:{}:{}", id, crate::api_cps_hex(&p), if f.is_empty() { "-" } else { &f }, "-", if which == 0 { "utf16" } else { "ucs2" }, j).unwrap(); } else { skipped += 1; } }
                    Ok(v) => {
                        let mut prev = 0usize;
                        for (s, e, caps) in &v {
                            let ok = *s >= prev && s <= e && *e <= junk.len() && caps.iter().all(|c| c.map(|(a, b)| a <= b && b <= junk.len()).unwrap_or(true));
                            if !ok { viol += 1; writeln!(w, "PROPVIOL prop=C14 case={} pat={} flags={} hay=- start=0 detail=range-outside-slice:{}:{}", id, crate::api_cps_hex(&p), if f.is_empty() { "-" } else { &f }, if which == 0 { "utf16" } else { "ucs2" }, j).unwrap(); break; }
                            prev = *e;
                        }
                    }
                }
            }
        }
    }
    writeln!(w, "SUMMARY cases={} runs={} mismatches=0 nontrivial={} propviol={} inconclusive={}", cases, runs, nontrivial, viol, skipped).unwrap();
}
