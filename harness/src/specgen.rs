//! `spec` subcommand: generates ES ASTs, prints each both as a pattern and as a flag-resolved syntax
//! tree for the reference semantics (Spec.v), runs regress on it and prints the first match from
//! every start offset.
use crate::dump::hex;
use crate::gen::Rng;
use std::fmt::Write as _;
use std::io::Write as _;
use std::panic;

#[derive(Clone, Copy, Default, PartialEq)]
pub struct Fl {
    pub i: bool,
    pub m: bool,
    pub s: bool,
}

#[derive(Clone)]
pub enum Item {
    Ch(u32),
    Range(u32, u32),
    Esc(char), // d D w W s S
    Str(Vec<u32>), // \q{..} (v mode)
}

/// A v-mode class expression as written (operands, nested classes, the three operators).
#[derive(Clone)]
pub enum VE {
    Ch(u32),
    Range(u32, u32),
    Esc(char),                 // d D w W s S
    Prop(bool, &'static str),  // \p{name} (false) / \P{name} (true)
    Strs(Vec<Vec<u32>>),       // \q{..|..}
    Union(Vec<VE>),
    Inter(Vec<VE>),
    Sub(Vec<VE>),
    Neg(Vec<VE>),              // [^ ... ] (no strings below)
}

#[derive(Clone)]
pub enum Ast {
    VClass(VE),
    Empty,
    Char(u32),
    Any,
    Class { inv: bool, items: Vec<Item> },
    Seq(Vec<Ast>),
    Alt(Vec<Ast>),
    Group { name: Option<String>, body: Box<Ast> },
    NonCap(Box<Ast>),
    BackRef(usize),          // 1-based, may be forward
    NamedRef(String),
    Quant { body: Box<Ast>, min: u32, max: Option<u32>, greedy: bool },
    Look { ahead: bool, neg: bool, body: Box<Ast> },
    Bol,
    Eol,
    WordB(bool),
    Modifier { on: Fl, off: Fl, body: Box<Ast> },
}

const CHARS: &[u32] = &[0x61, 0x62, 0x63, 0x61, 0x62, 0xE9, 0x4B, 0x73, 0x17F, 0x212A, 0xDF, 0x1F600, 0x0A, 0x78, 0x5F, 0x31, 0x41, 0x53,
    0x7F, 0x80, 0x7FF, 0x800, 0xFFFF, 0x10000, 0xFF01];
const NAMES: &[&str] = &["a", "b", "n"];

pub struct G<'a> {
    pub r: &'a mut Rng,
    pub unicode: bool,
    pub vmode: bool,
    pub ngroups_seen: usize,
    pub names_seen: Vec<String>,
}

impl<'a> G<'a> {
    fn item(&mut self, allow_str: bool) -> Item {
        match self.r.below(if allow_str { 8 } else { 7 }) {
            0 | 1 | 2 => Item::Ch(*self.r.pick(CHARS)),
            3 | 4 => {
                let (a, b) = *self.r.pick(&[(0x61u32, 0x63u32), (0x41, 0x5A), (0x61, 0x7A), (0x30, 0x39), (0xE0, 0xFF), (0x4A, 0x4C), (0x17E, 0x180), (0x1F600, 0x1F64F)]);
                Item::Range(a, b)
            }
            5 | 6 => Item::Esc(*self.r.pick(&['d', 'D', 'w', 'W', 's', 'S'])),
            _ => {
                let n = self.r.below(4);
                Item::Str((0..n).map(|_| *self.r.pick(&[0x61u32, 0x62, 0x78, 0xE9])).collect())
            }
        }
    }
    /// a v-mode class expression; `allow_str` is false below a negation (MayContainStrings is syntactic)
    pub fn ve(&mut self, depth: u32, allow_str: bool) -> VE {
        const VCH: &[u32] = &[0x61, 0x62, 0x63, 0x41, 0x42, 0x6B, 0x4B, 0x212A, 0x73, 0x53, 0x17F, 0xE9, 0xC9, 0xDF, 0x31, 0x5F, 0x2D, 0x26, 0x1F600, 0x3C3, 0x3C2, 0x3A3, 0x66, 0x46, 0x67];
        let k = if depth == 0 { self.r.below(6) } else { self.r.below(12) };
        match k {
            0 | 1 => VE::Ch(*self.r.pick(VCH)),
            2 => {
                let (a, b) = *self.r.pick(&[(0x61u32, 0x63u32), (0x41, 0x43), (0x61, 0x7A), (0x41, 0x5A), (0x30, 0x39), (0x4A, 0x4C), (0x6A, 0x6C), (0x17E, 0x180), (0xE0, 0xFF), (0x3B1, 0x3C9), (0x2129, 0x212B)]);
                VE::Range(a, b)
            }
            3 => VE::Esc(*self.r.pick(&['d', 'D', 'w', 'W', 's', 'S'])),
            4 => VE::Prop(self.r.chance(1, 2), *self.r.pick(&["Lu", "Ll", "ASCII_Hex_Digit", "ASCII", "Lt"])),
            5 => {
                if allow_str {
                    let n = 1 + self.r.below(3);
                    VE::Strs((0..n).map(|_| { let l = self.r.below(4); (0..l).map(|_| *self.r.pick(&[0x61u32, 0x62, 0x41, 0x42, 0x78, 0xE9, 0x6B, 0x4B])).collect() }).collect())
                } else {
                    VE::Ch(*self.r.pick(VCH))
                }
            }
            6 | 7 => { let n = 1 + self.r.below(4); VE::Union((0..n).map(|_| self.ve(depth - 1, allow_str)).collect()) }
            8 | 9 => { let n = 2 + self.r.below(2); VE::Inter((0..n).map(|_| self.ve(depth - 1, allow_str)).collect()) }
            10 => { let n = 2 + self.r.below(2); VE::Sub((0..n).map(|_| self.ve(depth - 1, allow_str)).collect()) }
            _ => { let n = 1 + self.r.below(3); VE::Neg((0..n).map(|_| self.ve(depth - 1, false)).collect()) }
        }
    }
    fn atom(&mut self, depth: u32, in_lb: bool) -> Ast {
        let k = if depth == 0 { [0, 1, 2, 3, 4, 5, 6, 7, 8, 19, 20][self.r.below(11) as usize] } else { self.r.below(24) };
        match k {
            0 | 1 | 2 | 3 => Ast::Char(*self.r.pick(CHARS)),
            4 => Ast::Any,
            5 | 6 if self.vmode && self.r.chance(1, 3) => {
                let d = 1 + self.r.below(2) as u32;
                Ast::VClass(self.ve(d, true))
            }
            5 | 6 => {
                let n = self.r.below(4) as usize;
                let allow_str = self.vmode;
                let mut items: Vec<Item> = (0..n).map(|_| self.item(allow_str)).collect();
                let has_str = items.iter().any(|i| matches!(i, Item::Str(_)));
                let inv = !has_str && self.r.chance(1, 4);
                if inv && self.vmode {
                    items.retain(|i| !matches!(i, Item::Str(_)));
                }
                Ast::Class { inv, items }
            }
            7 => self.r.pick(&[Ast::Bol, Ast::Eol, Ast::WordB(false), Ast::WordB(true)]).clone(),
            8 => {
                if self.ngroups_seen > 0 || self.r.chance(1, 8) {
                    let extra = if self.r.chance(1, 6) { 1 } else { 0 };
                    Ast::BackRef(1 + self.r.below((self.ngroups_seen + extra).max(1) as u64) as usize)
                } else {
                    Ast::Char(0x61)
                }
            }
            9 | 10 | 11 => {
                self.ngroups_seen += 1;
                let name = if self.r.chance(1, 3) {
                    let n = self.r.pick(NAMES).to_string();
                    if self.names_seen.contains(&n) {
                        None // the same name again in this alternative (or nested) is an early error
                    } else {
                        self.names_seen.push(n.clone());
                        Some(n)
                    }
                } else {
                    None
                };
                Ast::Group { name, body: Box::new(self.alt(depth - 1, in_lb)) }
            }
            12 | 13 => Ast::NonCap(Box::new(self.alt(depth - 1, in_lb))),
            14 => Ast::Look { ahead: true, neg: false, body: Box::new(self.alt(depth - 1, in_lb)) },
            15 => Ast::Look { ahead: true, neg: true, body: Box::new(self.alt(depth - 1, in_lb)) },
            16 => Ast::Look { ahead: false, neg: false, body: Box::new(self.alt(depth - 1, true)) },
            17 => Ast::Look { ahead: false, neg: true, body: Box::new(self.alt(depth - 1, true)) },
            18 => {
                let mut on = Fl::default();
                let mut off = Fl::default();
                match self.r.below(6) {
                    0 => on.i = true,
                    1 => off.i = true,
                    2 => on.m = true,
                    3 => on.s = true,
                    4 => { on.i = true; off.s = true }
                    _ => { on.m = true; on.s = true }
                }
                Ast::Modifier { on, off, body: Box::new(self.alt(depth - 1, in_lb)) }
            }
            19 => {
                // a named reference, possibly to a group that opens later (or in a lookbehind: earlier in
                // matching order); patterns whose name is never defined are dropped by the caller
                if !self.names_seen.is_empty() && self.r.chance(1, 2) {
                    Ast::NamedRef(self.r.pick(&self.names_seen).clone())
                } else {
                    Ast::NamedRef(self.r.pick(NAMES).to_string())
                }
            }
            20 | 21 => {
                // duplicate-name gadget: the same name in two alternatives, often with a \k reference nearby
                let n = self.r.pick(NAMES).to_string();
                if self.names_seen.contains(&n) {
                    return Ast::NamedRef(n);
                }
                self.ngroups_seen += 2;
                let b1 = Ast::Char(*self.r.pick(&[0x61u32, 0x62, 0x78]));
                let b2 = if self.r.chance(1, 3) { Ast::Empty } else { Ast::Char(*self.r.pick(&[0x61u32, 0x62, 0x63])) };
                let alt = Ast::NonCap(Box::new(Ast::Alt(vec![
                    Ast::Group { name: Some(n.clone()), body: Box::new(b1) },
                    Ast::Group { name: Some(n.clone()), body: Box::new(b2) },
                ])));
                self.names_seen.push(n.clone());
                match self.r.below(4) {
                    0 => Ast::Seq(vec![Ast::NamedRef(n), alt]),
                    1 => Ast::Seq(vec![alt, Ast::NamedRef(n)]),
                    2 => Ast::Seq(vec![alt, Ast::Any, Ast::NamedRef(n)]),
                    _ => alt,
                }
            }
            _ => Ast::Empty,
        }
    }
    fn quantified(&mut self, a: Ast) -> Ast {
        let quantifiable = match &a {
            Ast::Bol | Ast::Eol | Ast::WordB(_) | Ast::Empty => false,
            Ast::Look { ahead, .. } => *ahead && !self.unicode && !self.vmode,
            _ => true,
        };
        if !quantifiable || self.r.chance(1, 2) {
            return a;
        }
        let (min, max) = match self.r.below(9) {
            // counts above the optimizer's unroll threshold (the loop itself runs the mandatory iterations)
            8 => { let n = 6 + self.r.below(3) as u32; (n, if self.r.chance(1, 4) { None } else { Some(n + self.r.below(3) as u32) }) }
            0 => (0, None),
            1 => (1, None),
            2 => (0, Some(1)),
            3 => { let n = self.r.below(4) as u32; (n, Some(n)) }
            4 => { let a = self.r.below(3) as u32; (a, Some(a + self.r.below(3) as u32)) }
            5 => (self.r.below(3) as u32, None),
            6 => (0, Some(0)),
            _ => (2, Some(3)),
        };
        Ast::Quant { body: Box::new(a), min, max, greedy: !self.r.chance(1, 3) }
    }
    fn term(&mut self, depth: u32, in_lb: bool) -> Ast {
        let n = if depth >= 2 { self.r.below(3) } else { self.r.below(4) };
        let mut v = vec![];
        for _ in 0..n {
            let a = self.atom(depth, in_lb);
            v.push(self.quantified(a));
        }
        Ast::Seq(v)
    }
    pub fn alt(&mut self, depth: u32, in_lb: bool) -> Ast {
        let n = if self.r.chance(1, 2) { 1 } else { 1 + self.r.below(3) };
        // a duplicate group name is only legal in different alternatives: remember names per alternative
        let saved = self.names_seen.clone();
        let mut v = vec![];
        let mut all_names = saved.clone();
        for _ in 0..n {
            self.names_seen = saved.clone();
            v.push(self.term(depth, in_lb));
            for nm in &self.names_seen {
                if !all_names.contains(nm) {
                    all_names.push(nm.clone());
                }
            }
        }
        self.names_seen = all_names;
        if v.len() == 1 { v.pop().unwrap() } else { Ast::Alt(v) }
    }
}

// ---------------------------------------------------------------- printing as a pattern
fn esc_char(c: u32, out: &mut String, in_class: bool, vmode: bool) {
    let ch = char::from_u32(c).unwrap();
    let special = "\\^$.|?*+()[]{}/";
    if c == 0x0A {
        out.push_str("\\n");
    } else if special.contains(ch) || (in_class && (ch == '-' || (vmode && "&!#%,:;<=>@`~".contains(ch)))) {
        out.push('\\');
        out.push(ch);
    } else {
        out.push(ch);
    }
}
fn print_ve_item(e: &VE, out: &mut String, operand: bool) {
    match e {
        VE::Ch(c) => esc_char(*c, out, true, true),
        VE::Range(a, b) => {
            if operand { out.push('['); }
            esc_char(*a, out, true, true);
            out.push('-');
            esc_char(*b, out, true, true);
            if operand { out.push(']'); }
        }
        VE::Esc(c) => { out.push('\\'); out.push(*c); }
        VE::Prop(neg, name) => { out.push_str(if *neg { "\\P{" } else { "\\p{" }); out.push_str(name); out.push('}'); }
        VE::Strs(ss) => {
            out.push_str("\\q{");
            for (i, st) in ss.iter().enumerate() {
                if i > 0 { out.push('|'); }
                for c in st { esc_char(*c, out, true, true); }
            }
            out.push('}');
        }
        _ => print_ve_class(e, out),
    }
}
pub fn print_ve_class(e: &VE, out: &mut String) {
    match e {
        VE::Union(l) => { out.push('['); for x in l { print_ve_item(x, out, false); } out.push(']'); }
        VE::Neg(l) => { out.push_str("[^"); for x in l { print_ve_item(x, out, false); } out.push(']'); }
        VE::Inter(l) => { out.push('['); for (i, x) in l.iter().enumerate() { if i > 0 { out.push_str("&&"); } print_ve_item(x, out, true); } out.push(']'); }
        VE::Sub(l) => { out.push('['); for (i, x) in l.iter().enumerate() { if i > 0 { out.push_str("--"); } print_ve_item(x, out, true); } out.push(']'); }
        leaf => { out.push('['); print_ve_item(leaf, out, false); out.push(']'); }
    }
}
fn ve_tokens(e: &VE, out: &mut String) {
    let ranges = |out: &mut String, neg: bool, rs: &[(u32, u32)]| {
        write!(out, "e {} {}", neg as u8, rs.len()).unwrap();
        for (a, b) in rs { write!(out, " {} {}", a, b).unwrap(); }
    };
    let many = |out: &mut String, tag: &str, l: &[VE]| {
        write!(out, "{} {}", tag, l.len()).unwrap();
        for x in l { out.push(' '); ve_tokens(x, out); }
    };
    match e {
        VE::Ch(c) => write!(out, "c {}", c).unwrap(),
        VE::Range(a, b) => write!(out, "r {} {}", a, b).unwrap(),
        VE::Esc(c) => ranges(out, c.is_ascii_uppercase(), &class_escape(c.to_ascii_lowercase(), false)),
        VE::Prop(neg, name) => {
            // the positive set from the table C11 proves equal to Unicode 17
            let rs = regress::verif::property_lookup(None, name, true).map(|x| x.0).unwrap_or_default();
            ranges(out, *neg, &rs)
        }
        VE::Strs(ss) => {
            write!(out, "s {}", ss.len()).unwrap();
            for st in ss { write!(out, " {}", st.len()).unwrap(); for c in st { write!(out, " {}", c).unwrap(); } }
        }
        VE::Union(l) => many(out, "U", l),
        VE::Inter(l) => many(out, "I", l),
        VE::Sub(l) => many(out, "S", l),
        VE::Neg(l) => { out.push_str("N "); many(out, "U", l) }
    }
}
/// characters and strings worth probing for a class expression
pub fn ve_probes(e: &VE, ps: &mut Vec<String>) {
    let mut push_cp = |c: u32, ps: &mut Vec<String>| { if let Some(ch) = char::from_u32(c) { ps.push(ch.to_string()); } };
    match e {
        VE::Ch(c) => {
            for d in [*c, c.wrapping_sub(1), c + 1] { push_cp(d, ps); }
            if let Some(ch) = char::from_u32(*c) { ps.push(ch.to_uppercase().collect()); ps.push(ch.to_lowercase().collect()); }
        }
        VE::Range(a, b) => { for d in [*a, *b, a.wrapping_sub(1), b + 1, (a + b) / 2] { push_cp(d, ps); } }
        VE::Strs(ss) => {
            for st in ss {
                let t: String = st.iter().filter_map(|c| char::from_u32(*c)).collect();
                ps.push(t.to_uppercase()); ps.push(t.to_lowercase());
                if !t.is_empty() { let mut u = t.clone(); u.pop(); ps.push(u); let mut v2 = t.clone(); v2.push('a'); ps.push(v2); }
                ps.push(t);
            }
        }
        VE::Esc(_) | VE::Prop(_, _) => {}
        VE::Union(l) | VE::Inter(l) | VE::Sub(l) | VE::Neg(l) => { for x in l { ve_probes(x, ps); } }
    }
}
pub fn print(a: &Ast, out: &mut String, vmode: bool) {
    match a {
        Ast::VClass(e) => print_ve_class(e, out),
        Ast::Empty => {}
        Ast::Char(c) => esc_char(*c, out, false, vmode),
        Ast::Any => out.push('.'),
        Ast::Class { inv, items } => {
            out.push('[');
            if *inv {
                out.push('^');
            }
            for it in items {
                match it {
                    Item::Ch(c) => esc_char(*c, out, true, vmode),
                    Item::Range(a, b) => {
                        esc_char(*a, out, true, vmode);
                        out.push('-');
                        esc_char(*b, out, true, vmode);
                    }
                    Item::Esc(e) => {
                        out.push('\\');
                        out.push(*e);
                    }
                    Item::Str(s) => {
                        out.push_str("\\q{");
                        for c in s {
                            esc_char(*c, out, true, vmode);
                        }
                        out.push('}');
                    }
                }
            }
            out.push(']');
        }
        Ast::Seq(v) => {
            for x in v {
                // an Alt inside a Seq needs grouping; the generator only nests Alt below groups
                print(x, out, vmode);
            }
        }
        Ast::Alt(v) => {
            for (i, x) in v.iter().enumerate() {
                if i > 0 {
                    out.push('|');
                }
                print(x, out, vmode);
            }
        }
        Ast::Group { name, body } => {
            out.push('(');
            if let Some(n) = name {
                write!(out, "?<{}>", n).unwrap();
            }
            print(body, out, vmode);
            out.push(')');
        }
        Ast::NonCap(b) => {
            out.push_str("(?:");
            print(b, out, vmode);
            out.push(')');
        }
        Ast::BackRef(n) => write!(out, "(?:\\{})", n).unwrap(),
        Ast::NamedRef(n) => write!(out, "\\k<{}>", n).unwrap(),
        Ast::Quant { body, min, max, greedy } => {
            let needs_group = matches!(**body, Ast::Seq(_) | Ast::Alt(_) | Ast::Quant { .. } | Ast::BackRef(_));
            if needs_group {
                out.push_str("(?:");
                print(body, out, vmode);
                out.push(')');
            } else {
                print(body, out, vmode);
            }
            match (min, max) {
                (0, None) => out.push('*'),
                (1, None) => out.push('+'),
                (0, Some(1)) => out.push('?'),
                (a, None) => write!(out, "{{{},}}", a).unwrap(),
                (a, Some(b)) if a == b => write!(out, "{{{}}}", a).unwrap(),
                (a, Some(b)) => write!(out, "{{{},{}}}", a, b).unwrap(),
            }
            if !greedy {
                out.push('?');
            }
        }
        Ast::Look { ahead, neg, body } => {
            out.push_str(match (ahead, neg) { (true, false) => "(?=", (true, true) => "(?!", (false, false) => "(?<=", (false, true) => "(?<!" });
            print(body, out, vmode);
            out.push(')');
        }
        Ast::Bol => out.push('^'),
        Ast::Eol => out.push('$'),
        Ast::WordB(inv) => out.push_str(if *inv { "\\B" } else { "\\b" }),
        Ast::Modifier { on, off, body } => {
            out.push_str("(?");
            let fs = |f: &Fl| { let mut s = String::new(); if f.i { s.push('i') } if f.m { s.push('m') } if f.s { s.push('s') } s };
            out.push_str(&fs(on));
            let o = fs(off);
            if !o.is_empty() {
                out.push('-');
                out.push_str(&o);
            }
            out.push(':');
            print(body, out, vmode);
            out.push(')');
        }
    }
}

// ---------------------------------------------------------------- the flag-resolved tree for Spec.v
fn count_groups(a: &Ast) -> usize {
    match a {
        Ast::Seq(v) | Ast::Alt(v) => v.iter().map(count_groups).sum(),
        Ast::Group { body, .. } => 1 + count_groups(body),
        Ast::NonCap(b) | Ast::Quant { body: b, .. } | Ast::Look { body: b, .. } | Ast::Modifier { body: b, .. } => count_groups(b),
        _ => 0,
    }
}
fn collect_names(a: &Ast, next: &mut usize, out: &mut Vec<(String, usize)>) {
    match a {
        Ast::Seq(v) | Ast::Alt(v) => v.iter().for_each(|x| collect_names(x, next, out)),
        Ast::Group { name, body } => {
            let id = *next;
            *next += 1;
            if let Some(n) = name {
                out.push((n.clone(), id));
            }
            collect_names(body, next, out);
        }
        Ast::NonCap(b) | Ast::Quant { body: b, .. } | Ast::Look { body: b, .. } | Ast::Modifier { body: b, .. } => collect_names(b, next, out),
        _ => {}
    }
}
fn add_range(rs: &mut Vec<(u32, u32)>, a: u32, b: u32) {
    rs.push((a, b));
}
fn complement(rs: &[(u32, u32)]) -> Vec<(u32, u32)> {
    let mut v = rs.to_vec();
    v.sort();
    let mut out = vec![];
    let mut start = 0u32;
    for (a, b) in v {
        if a > start {
            out.push((start, a - 1));
        }
        if b + 1 > start {
            start = b + 1;
        }
    }
    if start <= 0x10FFFF {
        out.push((start, 0x10FFFF));
    }
    out
}
fn class_escape(e: char, unicode_icase: bool) -> Vec<(u32, u32)> {
    let digits = vec![(0x30, 0x39)];
    let mut word = vec![(0x30, 0x39), (0x41, 0x5A), (0x5F, 0x5F), (0x61, 0x7A)];
    if unicode_icase {
        word.push((0x17F, 0x17F));
        word.push((0x212A, 0x212A));
    }
    let space = vec![(9, 13), (32, 32), (160, 160), (0x1680, 0x1680), (0x2000, 0x200A), (0x2028, 0x2029), (0x202F, 0x202F), (0x205F, 0x205F), (0x3000, 0x3000), (0xFEFF, 0xFEFF)];
    match e {
        'd' => digits,
        'D' => complement(&digits),
        'w' => word,
        'W' => complement(&word),
        's' => space,
        _ => complement(&space),
    }
}

pub struct Ctx {
    pub unicode: bool, // u or v
    pub names: Vec<(String, usize)>,
    pub next_group: usize,
    pub total_groups: usize,
}

/// Token form of the Spec.v regex.  Returns false if the tree uses something the reference does not cover.
pub fn spec_tokens(a: &Ast, fl: Fl, cx: &mut Ctx, out: &mut String) -> bool {
    let b = |x: bool| x as u8;
    match a {
        Ast::VClass(e) => { write!(out, "VCls {} ", b(fl.i)).unwrap(); ve_tokens(e, out); }
        Ast::Empty => out.push_str("E"),
        Ast::Char(c) => write!(out, "C {} {}", c, b(fl.i)).unwrap(),
        Ast::Any => write!(out, "Any {}", b(fl.s)).unwrap(),
        Ast::Class { inv, items } => {
            let mut rs: Vec<(u32, u32)> = vec![];
            let mut strs: Vec<&Vec<u32>> = vec![];
            for it in items {
                match it {
                    Item::Ch(c) => add_range(&mut rs, *c, *c),
                    Item::Range(a, b) => add_range(&mut rs, *a, *b),
                    Item::Esc(e) => rs.extend(class_escape(*e, cx.unicode && fl.i)),
                    Item::Str(s) => strs.push(s),
                }
            }
            if strs.is_empty() {
                write!(out, "Cls {} {} {}", b(*inv), b(fl.i), rs.len()).unwrap();
            } else {
                write!(out, "SCls {} {}", b(fl.i), strs.len()).unwrap();
                for s in strs {
                    write!(out, " {}", s.len()).unwrap();
                    for c in s {
                        write!(out, " {}", c).unwrap();
                    }
                }
                write!(out, " {}", rs.len()).unwrap();
            }
            for (x, y) in rs {
                write!(out, " {} {}", x, y).unwrap();
            }
        }
        Ast::Seq(v) => {
            // right-nested RSeq
            if v.is_empty() {
                out.push_str("E");
            } else {
                for (i, x) in v.iter().enumerate() {
                    if i + 1 < v.len() {
                        out.push_str("Seq ");
                    }
                    if !spec_tokens(x, fl, cx, out) {
                        return false;
                    }
                    if i + 1 < v.len() {
                        out.push(' ');
                    }
                }
            }
        }
        Ast::Alt(v) => {
            for (i, x) in v.iter().enumerate() {
                if i + 1 < v.len() {
                    out.push_str("Alt ");
                }
                if !spec_tokens(x, fl, cx, out) {
                    return false;
                }
                if i + 1 < v.len() {
                    out.push(' ');
                }
            }
        }
        Ast::Group { body, .. } => {
            let id = cx.next_group;
            cx.next_group += 1;
            write!(out, "Grp {} ", id).unwrap();
            if !spec_tokens(body, fl, cx, out) {
                return false;
            }
        }
        Ast::NonCap(bd) => return spec_tokens(bd, fl, cx, out),
        Ast::BackRef(n) => {
            if *n > cx.total_groups {
                return false; // \N beyond the group count is an octal/identity escape or an error
            }
            write!(out, "BR {} 1 {}", b(fl.i), n - 1).unwrap();
        }
        Ast::NamedRef(nm) => {
            let ids: Vec<usize> = cx.names.iter().filter(|(n, _)| n == nm).map(|(_, i)| *i).collect();
            if ids.is_empty() {
                return false;
            }
            write!(out, "BR {} {}", b(fl.i), ids.len()).unwrap();
            for i in ids {
                write!(out, " {}", i).unwrap();
            }
        }
        Ast::Quant { body, min, max, greedy } => {
            let gs = cx.next_group;
            let ge = gs + count_groups(body);
            write!(out, "Q {} {} {} {} {} ", min, match max { Some(m) => m.to_string(), None => "-".into() }, b(*greedy), gs, ge).unwrap();
            if !spec_tokens(body, fl, cx, out) {
                return false;
            }
        }
        Ast::Look { ahead, neg, body } => {
            write!(out, "Look {} {} ", b(*ahead), b(*neg)).unwrap();
            if !spec_tokens(body, fl, cx, out) {
                return false;
            }
        }
        Ast::Bol => write!(out, "Bol {}", b(fl.m)).unwrap(),
        Ast::Eol => write!(out, "Eol {}", b(fl.m)).unwrap(),
        Ast::WordB(inv) => write!(out, "WB {} {}", b(*inv), b(cx.unicode && fl.i)).unwrap(),
        Ast::Modifier { on, off, body } => {
            let mut f2 = fl;
            if on.i { f2.i = true }
            if on.m { f2.m = true }
            if on.s { f2.s = true }
            if off.i { f2.i = false }
            if off.m { f2.m = false }
            if off.s { f2.s = false }
            return spec_tokens(body, f2, cx, out);
        }
    }
    true
}

const HAY_ALPHA: &[&str] = &["a", "b", "c", "a", "b", "é", "K", "k", "s", "S", "\u{17F}", "\u{212A}", "ß", "\u{1F600}", "\n", "x", "_", "1", "A", "\u{2028}", "É", "ẞ",
    "\x7f", "\u{80}", "\u{7FF}", "\u{800}", "\u{FFFF}", "\u{10000}", "\u{FF01}", "\0", "\0"];

/// Deterministic family: every body in every context under several flag sets (run by shard 0).
fn spec_family() -> Vec<(Ast, &'static str)> {
    let ch = |c: char| Ast::Char(c as u32);
    let strcls = |strs: &[&str], chars: &[char]| Ast::Class {
        inv: false,
        items: strs.iter().map(|s| Item::Str(s.chars().map(|c| c as u32).collect())).chain(chars.iter().map(|c| Item::Ch(*c as u32))).collect(),
    };
    let grp = |a: Ast| Ast::Group { name: None, body: Box::new(a) };
    let ngrp = |n: &str, a: Ast| Ast::Group { name: Some(n.to_string()), body: Box::new(a) };
    let q = |a: Ast, min: u32, max: Option<u32>, greedy: bool| Ast::Quant { body: Box::new(a), min, max, greedy };
    let bodies: Vec<(Ast, bool)> = vec![
        // (body, needs v mode)
        (strcls(&["ab"], &[]), true),
        (strcls(&["ab", "abc", "a"], &['x']), true),
        (strcls(&["", "ab"], &['b']), true),
        (strcls(&["ba", "ab"], &[]), true),
        (Ast::Seq(vec![ch('a'), ch('b')]), false),
        (Ast::Seq(vec![grp(ch('a')), Ast::BackRef(1)]), false),
        (Ast::Seq(vec![Ast::BackRef(1), grp(ch('a'))]), false),
        (Ast::Seq(vec![Ast::NamedRef("n".into()), Ast::NonCap(Box::new(Ast::Alt(vec![ngrp("n", ch('a')), ngrp("n", ch('b'))])))]), false),
        (Ast::Seq(vec![Ast::NonCap(Box::new(Ast::Alt(vec![ngrp("n", ch('a')), ngrp("n", ch('b'))]))), Ast::NamedRef("n".into())]), false),
        (q(grp(q(ch('a'), 0, Some(1), true)), 2, Some(2), true), false),
        (q(Ast::NonCap(Box::new(Ast::Alt(vec![grp(ch('a')), grp(ch('b'))]))), 1, None, true), false),
        (Ast::Seq(vec![q(ch('a'), 1, Some(2), false), ch('b')]), false),
        (Ast::Seq(vec![ch('K'), Ast::Class { inv: true, items: vec![Item::Ch('s' as u32)] }]), false),
        (Ast::Seq(vec![Ast::WordB(false), Ast::Class { inv: false, items: vec![Item::Esc('w')] }]), false),
        (Ast::Modifier { on: Fl { i: true, m: false, s: false }, off: Fl::default(), body: Box::new(Ast::Seq(vec![ch('a'), ch('B')])) }, false),
        (Ast::Seq(vec![Ast::Bol, Ast::Any, Ast::Eol]), false),
        (q(ch('a'), 6, Some(7), true), false),
        (Ast::Seq(vec![q(ch('a'), 6, Some(7), false), Ast::Eol]), false),
        (Ast::Seq(vec![q(Ast::Class { inv: false, items: vec![Item::Esc('w')] }, 6, Some(8), true), ch('x')]), false),
        (q(grp(ch('a')), 6, Some(7), true), false),
    ];
    type Ctx = fn(Ast) -> Ast;
    let contexts: Vec<Ctx> = vec![
        |a| a,
        |a| Ast::Seq(vec![Ast::Look { ahead: false, neg: false, body: Box::new(a) }, Ast::Char('x' as u32)]),
        |a| Ast::Seq(vec![Ast::Look { ahead: false, neg: true, body: Box::new(a) }, Ast::Char('x' as u32)]),
        |a| Ast::Seq(vec![Ast::Look { ahead: true, neg: false, body: Box::new(a) }, Ast::Any]),
        |a| Ast::Seq(vec![Ast::Look { ahead: false, neg: false, body: Box::new(Ast::Look { ahead: true, neg: false, body: Box::new(a) }) }, Ast::Any]),
        |a| Ast::Seq(vec![Ast::Look { ahead: true, neg: false, body: Box::new(Ast::Seq(vec![Ast::Any, Ast::Any, Ast::Look { ahead: false, neg: false, body: Box::new(a) }])) }, Ast::Any]),
        |a| Ast::Quant { body: Box::new(Ast::NonCap(Box::new(a))), min: 0, max: None, greedy: false },
        |a| Ast::Seq(vec![Ast::Group { name: None, body: Box::new(a) }, Ast::Any]),
        |a| Ast::Seq(vec![Ast::Look { ahead: false, neg: false, body: Box::new(Ast::Seq(vec![Ast::Char('x' as u32), a])) }, Ast::Char('x' as u32)]),
    ];
    let mut out = vec![];
    for (b, needs_v) in bodies.iter() {
        for c in contexts.iter() {
            for f in ["", "i", "u", "iu", "v", "iv", "m", "is"] {
                if *needs_v && !f.contains('v') {
                    continue;
                }
                out.push((c(b.clone()), f));
            }
        }
    }
    out
}
const FAMILY_HAYS: &[&str] = &["", "abx", "bax", "ABx", "abcx", "xab", "aab", "aa", "ba", "Ks", "kS", "\u{212A}s", "a\nb", "xabx", "b", "ab", "aB", "xx", "aaaaaaaaaa", "baaaaaaax"];

pub fn cmd_spec(args: &[String]) {
    let seed: u64 = args[0].parse().unwrap();
    let n: u64 = args[1].parse().unwrap();
    let nh: u64 = args[2].parse().unwrap();
    // "class" mode (C12): every case is ^E$ for a generated class E, run on single characters and short strings
    // derived from E (members, neighbours of range ends, the strings of \q{..}) plus fixed probes
    let class_mode = args.get(3).map(|s| s == "class").unwrap_or(false);
    let mut r = Rng::new(seed);
    let stdout = std::io::stdout();
    let mut w = std::io::BufWriter::new(stdout.lock());
    let flagsets = ["", "", "i", "m", "s", "u", "iu", "ms", "v", "iv", "is", "imsu", "u", "iu"];
    let family: Vec<(Ast, &'static str)> = if seed % 1000 == 0 && !class_mode { spec_family() } else { vec![] };
    let nfam = family.len() as u64;
    for id in 0..(n + nfam) {
        let is_family = id < nfam;
        let (ast, f): (Ast, &str) = if is_family {
            (family[id as usize].0.clone(), family[id as usize].1)
        } else {
            let f = if class_mode && r.chance(2, 5) { *r.pick(&["v", "iv", "iv"]) } else { *r.pick(&flagsets) };
            let depth = if r.chance(1, 5) { 3 } else { 1 + r.below(2) as u32 };
            let mut g = G { r: &mut r, unicode: f.contains('u'), vmode: f.contains('v'), ngroups_seen: 0, names_seen: vec![] };
            if class_mode && g.r.chance(1, 12) {
                // an alternation of two to five terms of zero to three single-character atoms: the balanced Alt tree over
                // terms built by make_cat is compared with the models (J line)
                const ALT_ATOMS: &[u32] = &[0x61, 0x41, 0x6B, 0x4B, 0x212A, 0x73, 0x17F, 0xE9, 0x31];
                let na = 2 + g.r.below(4);
                let mut alts = vec![];
                for _ in 0..na {
                    let k = g.r.below(4);
                    let mut v = vec![];
                    for _ in 0..k {
                        v.push(match g.r.below(8) {
                            0 => Ast::Any,
                            1 if g.vmode => { let e = g.ve(1, false); Ast::VClass(e) }
                            2 => g.r.pick(&[Ast::Bol, Ast::Eol, Ast::WordB(false), Ast::WordB(true)]).clone(),
                            _ => Ast::Char(*g.r.pick(ALT_ATOMS)),
                        });
                    }
                    // sometimes a factor is a non-capturing group of two or three terms of atoms (never alone in its
                    // term and always with at least two alternatives, so that the reference tree shows where it stands)
                    if v.len() >= 1 && g.r.chance(1, 3) {
                        let ng = 2 + g.r.below(2);
                        let mut inner = vec![];
                        for _ in 0..ng {
                            let k2 = g.r.below(3);
                            let mut w2: Vec<Ast> = (0..k2).map(|_| if g.r.chance(1, 6) { Ast::Any } else { Ast::Char(*g.r.pick(ALT_ATOMS)) }).collect();
                            inner.push(if w2.len() == 1 { w2.pop().unwrap() } else { Ast::Seq(w2) });
                        }
                        let pos = g.r.below(v.len() as u64 + 1) as usize;
                        v.insert(pos, Ast::NonCap(Box::new(Ast::Alt(inner))));
                    }
                    // sometimes a factor is a lookahead, positive or negative, over one to three terms of atoms
                    if g.r.chance(1, 3) {
                        let ng = 1 + g.r.below(3);
                        let mut inner = vec![];
                        for _ in 0..ng {
                            let k2 = if ng == 1 { 1 + g.r.below(3) } else { g.r.below(3) };
                            let mut w2: Vec<Ast> = (0..k2).map(|_| match g.r.below(7) {
                                0 => Ast::Any,
                                1 => g.r.pick(&[Ast::Bol, Ast::Eol, Ast::WordB(false), Ast::WordB(true)]).clone(),
                                _ => Ast::Char(*g.r.pick(ALT_ATOMS)),
                            }).collect();
                            inner.push(if w2.len() == 1 { w2.pop().unwrap() } else { Ast::Seq(w2) });
                        }
                        let body = if inner.len() == 1 { inner.pop().unwrap() } else { Ast::Alt(inner) };
                        let pos = g.r.below(v.len() as u64 + 1) as usize;
                        let neg = g.r.chance(1, 2);
                        v.insert(pos, Ast::Look { ahead: true, neg, body: Box::new(body) });
                    }
                    // sometimes a factor (a character, the dot, a class, a non-capturing group) carries ? ?? * or *?
                    if g.r.chance(1, 3) {
                        let idx: Vec<usize> = v.iter().enumerate().filter(|(_, a)| matches!(a, Ast::Char(_) | Ast::Any | Ast::VClass(_) | Ast::NonCap(_))).map(|(i, _)| i).collect();
                        if !idx.is_empty() {
                            let i = *g.r.pick(&idx);
                            let body = v[i].clone();
                            let (min, max) = *g.r.pick(&[(0, None), (0, Some(1)), (1, None), (0, None), (1, None), (2, None), (0, Some(2)), (1, Some(1)), (1, Some(2)), (2, Some(3)), (0, Some(0)), (3, Some(3))]);
                            let greedy = g.r.chance(2, 3);
                            v[i] = Ast::Quant { body: Box::new(body), min, max, greedy };
                        }
                    }
                    alts.push(if v.len() == 1 { v.pop().unwrap() } else { Ast::Seq(v) });
                }
                (Ast::Alt(alts), f)
            } else if class_mode && g.r.chance(1, 9) {
                // a concatenation of two to four single-character atoms (literal characters, the dot, under v also class
                // expressions): the flat Cat the parser builds is compared atom by atom with the models (J line)
                const SEQ_ATOMS: &[u32] = &[0x61, 0x41, 0x6B, 0x4B, 0x212A, 0x73, 0x17F, 0xDF, 0xE9, 0x3C3, 0x3C2, 0x31, 0x1F600];
                let k = 2 + g.r.below(3);
                let mut v = vec![Ast::Bol];
                for _ in 0..k {
                    let a = match g.r.below(8) {
                        0 => Ast::Any,
                        1 | 2 if g.vmode => { let d = 1 + g.r.below(2) as u32; let e = g.ve(d, false); Ast::VClass(e) }
                        3 => g.r.pick(&[Ast::Bol, Ast::Eol, Ast::WordB(false), Ast::WordB(true)]).clone(),
                        _ => Ast::Char(*g.r.pick(SEQ_ATOMS)),
                    };
                    v.push(a);
                }
                v.push(Ast::Eol);
                (Ast::Seq(v), f)
            } else if class_mode && g.r.chance(1, 8) {
                // a single literal character or the dot: the node the parser builds for it is compared with the
                // models of Parser::char_node / the dot (J line)
                const ATOMS: &[u32] = &[0x61, 0x41, 0x6B, 0x4B, 0x212A, 0x73, 0x53, 0x17F, 0xDF, 0x1E9E, 0xE9, 0xC9, 0x3C3, 0x3C2, 0x3A3, 0x1C4, 0x1C5, 0x1C6, 0x130, 0x131, 0x49, 0x69,
                                       0x31, 0x5F, 0x1F600, 0x10400, 0x10428, 0x3B9, 0x1FBE, 0x345, 0x2126, 0x3C9, 0x1E61, 0x1E9B, 0xFF21, 0x7F, 0x80, 0xFFFF];
                let a = if g.r.chance(1, 6) { Ast::Any } else { Ast::Char(*g.r.pick(ATOMS)) };
                (Ast::Seq(vec![Ast::Bol, a, Ast::Eol]), f)
            } else if class_mode && g.vmode && g.r.chance(2, 3) {
                let d = 1 + g.r.below(3) as u32;
                let e = g.ve(d, true);
                (Ast::Seq(vec![Ast::Bol, Ast::VClass(e), Ast::Eol]), f)
            } else if class_mode {
                let n = 1 + g.r.below(4) as usize;
                let allow_str = g.vmode;
                let mut items: Vec<Item> = (0..n).map(|_| g.item(allow_str)).collect();
                let has_str = items.iter().any(|i| matches!(i, Item::Str(_)));
                let inv = !has_str && g.r.chance(1, 3);
                if inv && g.vmode {
                    items.retain(|i| !matches!(i, Item::Str(_)));
                }
                (Ast::Seq(vec![Ast::Bol, Ast::Class { inv, items }, Ast::Eol]), f)
            } else {
                (g.alt(depth, false), f)
            }
        };
        let class_probes: Vec<String> = if class_mode && !is_family {
            let mut ps: Vec<String> = ["\0", "a", "A", "b", "k", "K", "\u{212A}", "s", "S", "\u{17F}", "é", "É", "ß", "\u{7f}", "\u{80}", "_", "0", " ", "\n", "", "ab", "\u{10FFFF}", "\u{FFFF}",
                                       "B", "c", "C", "f", "F", "g", "G", "j", "1", "\u{3c3}", "\u{3c2}", "\u{3a3}", "\u{1c5}", "AB", "aB", "-", "&"]
                .iter().map(|t| t.to_string()).collect();
            if let Ast::Alt(_) = &ast {
                let al = ["a", "A", "k", "K", "\u{212A}", "s", "\u{17F}", "\u{e9}", "1", "\n", " "];
                for x in al { for y in al { ps.push(format!("{}{}", x, y)); for z in ["a", "K"] { ps.push(format!("{}{}{}", x, y, z)); } } }
            }
            if let Ast::Seq(v) = &ast {
                if let Ast::VClass(e) = &v[1] { ve_probes(e, &mut ps); }
                if v.len() > 3 {
                    let al = ["a", "A", "k", "K", "\u{212A}", "s", "\u{17F}", "\u{e9}", "\u{3c3}", "1", "\n", "\u{1F600}"];
                    for x in al { for y in al { ps.push(format!("{}{}", x, y)); for z in ["a", "K", "\u{17F}"] { ps.push(format!("{}{}{}", x, y, z)); } } }
                    for x in al { for y in ["ak", "Ks", "\u{212A}\u{17F}"] { ps.push(format!("{}{}{}", y, x, x)); } }
                }
            }
            let mut push_cp = |c: u32, ps: &mut Vec<String>| { if let Some(ch) = char::from_u32(c) { ps.push(ch.to_string()); } };
            if let Ast::Seq(v) = &ast {
                if let Ast::Class { items, .. } = &v[1] {
                    for it in items {
                        match it {
                            Item::Ch(c) => {
                                for d in [*c, c.wrapping_sub(1), c + 1] { push_cp(d, &mut ps); }
                                if let Some(ch) = char::from_u32(*c) {
                                    ps.push(ch.to_uppercase().collect()); ps.push(ch.to_lowercase().collect());
                                }
                            }
                            Item::Range(a, b) => { for d in [*a, *b, a.wrapping_sub(1), b + 1, (a + b) / 2] { push_cp(d, &mut ps); } }
                            Item::Str(st) => {
                                let t: String = st.iter().filter_map(|c| char::from_u32(*c)).collect();
                                ps.push(t.clone());
                                if !t.is_empty() { let mut u = t.clone(); u.pop(); ps.push(u); let mut v2 = t.clone(); v2.push('a'); ps.push(v2); }
                            }
                            Item::Esc(_) => {}
                        }
                    }
                }
            }
            ps.sort(); ps.dedup();
            ps
        } else { vec![] };
        let unicode = f.contains('u');
        let vmode = f.contains('v');
        let mut pat = String::new();
        print(&ast, &mut pat, vmode);
        let total = count_groups(&ast);
        let mut names = vec![];
        let mut nx = 0;
        collect_names(&ast, &mut nx, &mut names);
        let mut cx = Ctx { unicode: unicode || vmode, names, next_group: 0, total_groups: total };
        let mut toks = String::new();
        let fl = Fl { i: f.contains('i'), m: f.contains('m'), s: f.contains('s') };
        let covered = spec_tokens(&ast, fl, &mut cx, &mut toks);
        let re = match panic::catch_unwind(|| regress::Regex::with_flags(&pat, f)) {
            Ok(Ok(re)) => re,
            Ok(Err(e)) => {
                if covered {
                    writeln!(w, "REJ {} {} {} {}", id, crate::api_cps_hex(&pat), if f.is_empty() { "-" } else { f }, hex(e.text.as_bytes())).unwrap();
                }
                continue;
            }
            Err(_) => {
                writeln!(w, "REJ {} {} {} PANIC", id, crate::api_cps_hex(&pat), if f.is_empty() { "-" } else { f }).unwrap();
                continue;
            }
        };
        if !covered {
            continue;
        }
        writeln!(w, "P {} {} {} {} {}", id, crate::api_cps_hex(&pat), if f.is_empty() { "-" } else { f }, total, (unicode || vmode) as u8).unwrap();
        writeln!(w, "A {}", toks).unwrap();
        // class mode, v-mode class expression: the IR the parser builds, for the model of the class set evaluation
        if class_mode {
            if let Ast::Alt(_) = &ast {
                if let Ok(ire) = regress::backends::try_parse(pat.chars().map(|c| c as u32), regress::Flags::from(f)) {
                    let mut t = String::new();
                    crate::dump::node_tokens(&ire.node, &mut t);
                    writeln!(w, "J {}", t).unwrap();
                }
            }
            if let Ast::Seq(v) = &ast {
                let atoms_only = v.len() >= 3 && v[1..v.len() - 1].iter().all(|a| matches!(a, Ast::VClass(_) | Ast::Char(_) | Ast::Any | Ast::Bol | Ast::Eol | Ast::WordB(_)));
                if atoms_only {
                    if let Ok(ire) = regress::backends::try_parse(pat.chars().map(|c| c as u32), regress::Flags::from(f)) {
                        let mut t = String::new();
                        crate::dump::node_tokens(&ire.node, &mut t);
                        writeln!(w, "J {}", t).unwrap();
                    }
                    // the early error "a negated class may not contain strings": is [^E] accepted?
                    if let (3, Some(Ast::VClass(e))) = (v.len(), v.get(1)) {
                        let mut np = String::from("^[^");
                        print_ve_class(e, &mut np);
                        np.push_str("]$");
                        let acc = matches!(panic::catch_unwind(|| regress::Regex::with_flags(&np, f).is_ok()), Ok(true));
                        writeln!(w, "K {} {}", acc as u8, crate::api_cps_hex(&np)).unwrap();
                    }
                }
            }
        }
        let nhays = if is_family { FAMILY_HAYS.len() as u64 } else if class_mode { class_probes.len() as u64 } else { nh };
        for hi in 0..nhays {
            if is_family {
                let t = FAMILY_HAYS[hi as usize].to_string();
                let mut starts: Vec<usize> = t.char_indices().map(|(i, _)| i).collect();
                starts.push(t.len());
                for s in starts {
                    crate::verif::reset_steps(200000);
                    let res = panic::catch_unwind(panic::AssertUnwindSafe(|| re.find_from(&t, s).next()));
                    let steps = crate::verif::steps();
                    crate::verif::reset_steps(u64::MAX);
                    let mut line = format!("F {} {}", hex(t.as_bytes()), s);
                    match res {
                        Ok(Some(m)) => {
                            write!(line, " M {} {} {}", m.start(), m.end(), m.captures.len()).unwrap();
                            for c in &m.captures {
                                match c { Some(r) => write!(line, " {} {}", r.start, r.end).unwrap(), None => line.push_str(" -") }
                            }
                        }
                        Ok(None) => line.push_str(" N"),
                        Err(_) => line.push_str(if steps > 200000 { " BUDGET" } else { " PANIC" }),
                    }
                    writeln!(w, "{}", line).unwrap();
                }
                continue;
            }
            let lim = if r.chance(1, 4) { 12 } else { 6 };
            let len = r.below(lim);
            let mut t = String::new();
            for _ in 0..len {
                t.push_str(*r.pick(HAY_ALPHA));
            }
            if !class_mode && r.chance(1, 6) {
                // a run of one character (counted loops), optionally framed
                let c = *r.pick(&["a", "b", "é", "K", "1"]);
                t = String::from(*r.pick(&["", "x", "b"]));
                for _ in 0..(5 + r.below(8)) { t.push_str(c); }
                t.push_str(*r.pick(&["", "x", "b", "a"]));
            }
            if class_mode {
                if (hi as usize) >= class_probes.len() { break; }
                t = class_probes[hi as usize].clone();
            }
            let starts: Vec<usize> = if !class_mode && r.chance(1, 3) { let mut v: Vec<usize> = t.char_indices().map(|(i, _)| i).collect(); v.push(t.len()); v } else { vec![0] };
            for s in starts {
                crate::verif::reset_steps(200000);
                let res = panic::catch_unwind(panic::AssertUnwindSafe(|| re.find_from(&t, s).next()));
                let steps = crate::verif::steps();
                crate::verif::reset_steps(u64::MAX);
                let mut line = format!("F {} {}", hex(t.as_bytes()), s);
                match res {
                    Ok(Some(m)) => {
                        write!(line, " M {} {} {}", m.start(), m.end(), m.captures.len()).unwrap();
                        for c in &m.captures {
                            match c { Some(r) => write!(line, " {} {}", r.start, r.end).unwrap(), None => line.push_str(" -") }
                        }
                    }
                    Ok(None) => line.push_str(" N"),
                    Err(_) => line.push_str(if steps > 200000 { " BUDGET" } else { " PANIC" }),
                }
                writeln!(w, "{}", line).unwrap();
            }
        }
    }
}
