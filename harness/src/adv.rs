//! `adv <k>` / `advlist` / `advfuzz <seed> <n>` (C07/C08): adversarial and token-level inputs for
//! Regex::from_unicode.  Every big adversary runs in its own process so that a stack overflow or abort
//! is attributed to exactly one input.
use crate::gen::Rng;
use regress::{Flags, Regex};
use std::io::Write as _;
use std::panic;

fn rep(s: &str, n: usize) -> String {
    s.repeat(n)
}
fn cps(s: &str) -> Vec<u32> {
    s.chars().map(|c| c as u32).collect()
}

pub fn adversaries() -> Vec<(String, Vec<u32>, &'static str)> {
    let mut v: Vec<(String, Vec<u32>, &'static str)> = vec![];
    for n in [10usize, 1000, 20000, 100000, 300000] {
        v.push((format!("alternation-{}", n), cps(&rep("a|", n)), ""));
        v.push((format!("alternation-groups-{}", n), cps(&format!("(?:{})x", rep("ab|", n))), "i"));
    }
    for d in [10usize, 255, 256, 257, 300, 5000, 100000] {
        v.push((format!("nested-groups-{}", d), cps(&format!("{}a{}", rep("(", d), rep(")", d))), ""));
        v.push((format!("nested-noncap-{}", d), cps(&format!("{}a{}", rep("(?:", d), rep(")", d))), "u"));
        v.push((format!("nested-lookahead-{}", d), cps(&format!("{}a{}", rep("(?=", d), rep(")", d))), ""));
        v.push((format!("nested-lookbehind-{}", d), cps(&format!("{}a{}", rep("(?<=", d), rep(")", d))), ""));
        v.push((format!("nested-class-{}", d), cps(&format!("{}a{}", rep("[", d), rep("]", d))), "v"));
        v.push((format!("unbalanced-open-{}", d), cps(&rep("(", d)), ""));
        v.push((format!("nested-quant-{}", d), cps(&format!("{}a{}", rep("(?:", d), rep(")*", d))), ""));
    }
    // nests of small counts (each level is below the unroll threshold; the product is not)
    for c in [2usize, 3, 5, 6] {
        for d in [8usize, 16, 24, 40] {
            let mk = |open: &str, q: &str| { let mut p = format!("a{}", q); for _ in 0..d { p = format!("{}{}){}", open, p, q); } p };
            v.push((format!("small-count-nest-{}x{}", c, d), cps(&mk("(?:", &format!("{{{}}}", c))), ""));
            v.push((format!("small-count-nest-cap-{}x{}", c, d), cps(&mk("(", &format!("{{{}}}", c))), "i"));
            v.push((format!("small-range-nest-{}x{}", c, d), cps(&mk("(?:", &format!("{{1,{}}}", c))), "u"));
            v.push((format!("small-count-nest-lazy-{}x{}", c, d), cps(&mk("(?:", &format!("{{{}}}?", c))), ""));
        }
    }
    for n in [100usize, 65535, 65536, 70000] {
        v.push((format!("many-groups-{}", n), cps(&rep("()", n)), ""));
        v.push((format!("many-loops-{}", n), cps(&rep("a*", n)), ""));
        v.push((format!("many-named-groups-{}", n), (0..n).flat_map(|i| cps(&format!("(?<g{}>a)", i))).collect(), ""));
    }
    for (name, p) in [
        ("huge-count", "a{99999999999999999999}"), ("huge-range", "a{1,99999999999999999999}"), ("huge-min", "a{99999999999999999999,}"),
        ("reversed-huge", "a{99999999999999999999,1}"), ("nested-counts", "(?:(?:a{1000}){1000}){1000}"), ("count-18446744073709551615", "a{18446744073709551615}"),
        ("count-18446744073709551616", "a{18446744073709551616}"), ("backref-huge", "\\99999999999999999999"), ("backref-huge-u", "(a)\\4294967296"),
        ("unterminated-k", "(?<a>x)\\k<"), ("unterminated-name", "(?<abc"), ("unterminated-q", "[\\q{abc"), ("unterminated-prop", "\\p{Script="),
        ("unterminated-class", "[a-"), ("trailing-backslash", "abc\\"), ("control-c", "\\c"), ("hex-short", "\\x1"), ("unicode-short", "\\u12"),
        ("brace-unicode-huge", "\\u{110000}"), ("brace-unicode-overflow", "\\u{FFFFFFFFFFFFFFFFFFFF}"), ("modifier-junk", "(?ii:a)"), ("modifier-empty", "(?-:a)"),
        ("class-range-class", "[\\w-a]"), ("class-reversed", "[z-a]"), ("quantified-lookbehind", "(?<=a)*"), ("nothing-to-repeat", "*a"), ("double-quant", "a**"),
        ("lazy-lazy", "a???"), ("octal", "\\377\\400"), ("null-followed", "\\00"), ("dup-name-same-alt", "(?<a>x)(?<a>y)"),
    ] {
        for f in ["", "u", "v", "i"] {
            v.push((format!("{}/{}", name, f), cps(p), f));
        }
    }
    let long_q: String = format!("[\\q{{{}}}]", (0..20000).map(|i| format!("a{}", i)).collect::<Vec<_>>().join("|"));
    v.push(("long-q".into(), cps(&long_q), "v"));
    v.push(("long-q-icase".into(), cps(&long_q), "iv"));
    v.push(("long-literal".into(), cps(&rep("abcdefghij", 50000)), "i"));
    v.push(("long-class".into(), cps(&format!("[{}]", rep("a-cx", 50000))), "i"));
    // raw code points that are not scalar values
    v.push(("lone-surrogates".into(), vec![0xD800, 0xDC00, 0x61, 0xDFFF, 0x2A], ""));
    v.push(("lone-surrogates-u".into(), vec![0x5B, 0xD800, 0x2D, 0xDFFF, 0x5D, 0x2B], "u"));
    v.push(("surrogate-in-name".into(), vec![0x28, 0x3F, 0x3C, 0xD835, 0xDC9C, 0x3E, 0x61, 0x29], "u"));
    v.push(("max-code-point".into(), vec![0x10FFFF, 0x2A, 0x5B, 0x10FFFF, 0x5D], "iu"));
    v
}

fn try_one(p: &[u32], f: &str) -> &'static str {
    let fl = Flags::from(f);
    let pv = p.to_vec();
    match panic::catch_unwind(move || Regex::from_unicode(pv.into_iter(), fl)) {
        Ok(Ok(_)) => "ok",
        Ok(Err(_)) => "err",
        Err(_) => "PANIC",
    }
}

pub fn cmd_advlist() {
    for (i, (name, p, f)) in adversaries().iter().enumerate() {
        println!("{} {} {} {}", i, name, p.len(), if f.is_empty() { "-" } else { f });
    }
}

pub fn cmd_adv(args: &[String]) {
    let k: usize = args[0].parse().unwrap();
    let advs = adversaries();
    let (name, p, f) = &advs[k];
    // announce first: if the process dies, the announcement names the input
    println!("BEGIN {} {}", k, name);
    std::io::stdout().flush().unwrap();
    let t0 = std::time::Instant::now();
    let r = try_one(p, f);
    println!("END {} {} {} {}ms", k, name, r, t0.elapsed().as_millis());
}

const TOKENS: &[&str] = &[
    "a", "b", "1", "é", "\u{1F600}", ".", "*", "+", "?", "{", "}", "{2}", "{2,}", "{2,3}", "{3,2}", "(", ")", "(?:", "(?=", "(?!", "(?<=", "(?<!", "(?<a>", "(?<b>", "\\k<a>", "\\k<b>", "\\1", "\\2",
    "[", "]", "[^", "-", "|", "^", "$", "\\b", "\\B", "\\d", "\\w", "\\s", "\\D", "\\p{L}", "\\P{Lu}", "\\p{Script=Greek}", "\\p{Foo}", "\\u0041", "\\u{41}", "\\u{110000}", "\\x41", "\\x4",
    "\\cA", "\\c", "\\0", "\\01", "\\8", "\\a", "\\-", "\\/", "\\q{ab|c}", "&&", "--", "&", "[a-z]", "[z-a]", "(?i:", "(?-i:", "(?i-i:", "\\", ",", "~~", "!!", "\\$", "\\u", "{,3}", "(?", "(?<",
];

/// token-level fuzz: prints one line per input: hex code points, flags, ok/err/PANIC
pub fn cmd_advfuzz(args: &[String]) {
    let seed: u64 = args[0].parse().unwrap();
    let n: u64 = args[1].parse().unwrap();
    let mut r = Rng::new(seed);
    let stdout = std::io::stdout();
    let mut w = std::io::BufWriter::new(stdout.lock());
    // code points whose case-fold class (either mode) has three or more members, read from the crate's own tables
    let mut fold_stress: Vec<u32> = Vec::new();
    for c in 0..0x1_0000u32 {
        if (0xD800..0xE000).contains(&c) { continue; }
        if crate::verif::expand_code_point(c, true, true).len() >= 3 || crate::verif::expand_code_point(c, true, false).len() >= 3 {
            fold_stress.push(c);
        }
    }
    if fold_stress.is_empty() { fold_stress.push(0x3b8); }
    for id in 0..n {
        let k = 1 + r.below(8);
        let mut s = String::new();
        for _ in 0..k {
            s.push_str(*r.pick(TOKENS));
        }
        if r.chance(1, 3) {
            // character-level noise inside an escape / quantifier / group-name context
            const PRE: &[&str] = &["\\u", "\\u{", "\\x", "\\c", "\\k<", "\\p{", "\\P{", "{", "a{", "(?<", "\\q{", "[\\", "\\", "[\\u{", "[\\c", "[\\x", "(?", "\\u{1", "\\ud83d\\u", "a{1", "a{1,"];
            const ALPHA: &[&str] = &["+", "-", "0", "1", "9", "a", "A", "f", "F", "g", "G", "z", "_", " ", "}", "{", ",", "=", "<", ">", "$", "é", "d", "D", "e", "3", "\\"];
            s.clear();
            if r.chance(1, 3) { s.push_str(*r.pick(TOKENS)); }
            s.push_str(*r.pick(PRE));
            let m = r.below(7);
            for _ in 0..m { s.push_str(*r.pick(ALPHA)); }
            if r.chance(1, 2) { s.push_str(*r.pick(&["}", ">", "]", ")", "}]", ">)a"])); }
            if r.chance(1, 3) { s.push_str(*r.pick(TOKENS)); }
        }
        let mut p = cps(&s);
        if r.chance(1, 6) {
            // fold stress: code points with the largest case-fold classes inside literals, classes,
            // class strings and lookbehinds
            const OPEN: &[(&str, &str)] = &[("", ""), ("[", "]"), ("[^", "]"), ("[\\q{", "}]"), ("(?<=", ")"), ("(?<=[\\q{", "}])"), ("[\\q{a|", "}]"), ("(?<x>", ")\\k<x>"), ("[a&&", "]"), ("[\\w--", "]")];
            let (o, c) = *r.pick(OPEN);
            p = cps(o);
            let m = 1 + r.below(3);
            for _ in 0..m { p.push(*r.pick(&fold_stress)); }
            if r.chance(1, 4) { p.extend(cps("-")); p.push(*r.pick(&fold_stress)); }
            p.extend(cps(c));
            if r.chance(1, 4) { p.extend(cps(*r.pick(&["*", "+", "{2}", "?", "|a"]))); }
        }
        if r.chance(1, 8) {
            // group pre-scan stress: the parser counts groups and collects their names in a first pass that must skip
            // classes exactly as the main pass reads them; classes holding brackets and parentheses next to numbered
            // and named groups, backreferences (also forward and dangling ones) and duplicate names
            const META: &[&str] = &["[[]", "[^[]", "[(]", "[)]", "[(?<a>]", "[\\]]", "[[]]", "[\\[]", "[(?<a>x)]", "[{]", "[\\k<a>]", "[[a]b]", "[^[(]]", "[()]", "[\\]()]", "[[](]"];
            const FOLLOW: &[&str] = &["(a)\\1", "(?<a>x)\\k<a>", "(?<a>x)(?<a>y)", "(?<a>x)|(?<a>y)", "\\k<a>(?<a>x)", "(x)\\2", "\\1(x)", "(?<a>.)\\k<b>", "(?<a>x)", "(x)(y)\\2", "(?:(?<a>x)|(?<a>y))\\k<a>"];
            let mut t = String::new();
            if r.chance(1, 3) { t.push_str(*r.pick(FOLLOW)); }
            t.push_str(*r.pick(META));
            if r.chance(1, 3) { t.push_str(*r.pick(&["+", "*", "?", "{2}"])); }
            t.push_str(*r.pick(FOLLOW));
            if r.chance(1, 4) { t.push_str(*r.pick(META)); }
            p = cps(&t);
        }
        if r.chance(1, 10) {
            // inject a raw surrogate code point
            let at = r.below(p.len() as u64 + 1) as usize;
            p.insert(at, *r.pick(&[0xD800u32, 0xDBFF, 0xDC00, 0xDFFF]));
        }
        let f = *r.pick(&["", "u", "v", "i", "iu", "iv", "m", "s"]);
        let res = try_one(&p, f);
        writeln!(w, "Z {} {} {} {}", id, if p.is_empty() { "-".to_string() } else { p.iter().map(|c| format!("{:x}", c)).collect::<Vec<_>>().join(",") }, if f.is_empty() { "-" } else { f }, res).unwrap();
    }
}

/// syntax probe: stdin lines "<flags or -> <pattern>" -> the Z lines ref/v8_syntax.js reads
pub fn cmd_syn() {
    use std::io::BufRead;
    let stdin = std::io::stdin();
    for (id, line) in stdin.lock().lines().enumerate() {
        let line = line.unwrap();
        let (f, pat) = match line.split_once(' ') { Some(x) => x, None => (line.as_str(), "") };
        let f = if f == "-" { "" } else { f };
        let p = cps(pat);
        let res = try_one(&p, f);
        println!("Z {} {} {} {}", id, if p.is_empty() { "-".to_string() } else { p.iter().map(|c| format!("{:x}", c)).collect::<Vec<_>>().join(",") }, if f.is_empty() { "-" } else { f }, res);
    }
}
