//! Deterministic structured generators (one xorshift64* stream per run).
pub struct Rng(pub u64);
impl Rng {
    pub fn new(seed: u64) -> Self {
        Rng(seed.wrapping_mul(0x9E3779B97F4A7C15).wrapping_add(0x2545F4914F6CDD1D) | 1)
    }
    pub fn next(&mut self) -> u64 {
        let mut x = self.0;
        x ^= x >> 12;
        x ^= x << 25;
        x ^= x >> 27;
        self.0 = x;
        x.wrapping_mul(0x2545F4914F6CDD1D)
    }
    pub fn below(&mut self, n: u64) -> u64 {
        (self.next() >> 11) % n
    }
    pub fn pick<'a, T>(&mut self, v: &'a [T]) -> &'a T {
        &v[self.below(v.len() as u64) as usize]
    }
    pub fn chance(&mut self, num: u64, den: u64) -> bool {
        self.below(den) < num
    }
}

pub struct PatGen<'a> {
    pub r: &'a mut Rng,
    pub ngroups: u32,
    pub names: Vec<String>,
    pub unicode: bool,
    pub vmode: bool,
}

const LITS: &[&str] = &["a", "b", "c", "a", "b", "é", "K", "s", "\u{17F}", "\u{212A}", "ß", "\u{1F600}", "\\n", "x", "_", "1", "-", " ", "\\ud800", "\\udc00", "\\ud83d\\ude00", "\\u{1F600}", "\\xe9", "\\0",
    // boundaries of the UTF-8 / UTF-16 encodings
    "\x7f", "\u{80}", "\u{7FF}", "\u{800}", "\u{FFFF}", "\u{10000}", "\u{FF01}", "\u{10FFFF}"];
const CLASSES: &[&str] = &[
    "[ab]", "[^a]", "\\w", "\\d", "[a-c]", "\\W", "\\s", "\\S", "\\D", "[^\\w]", "[a-zé]", "[\\d_]", "[^]", "[]", "[b-]",
    "[\\u{1F600}a]", "[k\\u017F]", "[^\\n]", "[A-Z]", "[é-ü]",
    "[\\x80a]", "[\\x7f\\x80]", "[\\u07ff\\u0800]", "[\\uffff\\x7f]", "[^\\x80]", "[\\x7f-\\x80]",
    // classes whose UTF-8 lead bytes are many and all non-ASCII (start predicate: a byte bitmap without ASCII bits)
    "[^\\0-\\x7f]", "[\\u0370-\\u03ff\\u0400-\\u04ff\\uac00-\\ud7a3]", "[\\u0080-\\uffff]", "[α-ωа-я가-힣]",
];
const UCLASSES: &[&str] = &["\\p{Lu}", "\\p{L}", "\\P{Ll}", "\\p{Script=Greek}", "\\p{ASCII}", "[\\p{Lu}a]", "[^\\p{L}]", "\\p{Nd}", "\\P{ASCII}", "\\p{Script=Hangul}"];
const VCLASSES: &[&str] = &[
    "[[ab]--a]", "[\\w&&[^a]]", "[a\\q{ab|b|abc}]", "[\\q{ab|a}c]", "[[a-c]&&[b-d]]", "[^[ab]c]", "[\\p{L}--[a-z]]", "[\\q{}a]",
    "[\\w--\\d]", "[[^a]&&\\w]",
];

impl<'a> PatGen<'a> {
    fn quant(&mut self) -> String {
        let q = match self.r.below(14) {
            0 => "*".to_string(),
            1 => "+".into(),
            2 => "?".into(),
            3 => format!("{{{}}}", self.r.below(4)),
            4 => {
                let a = self.r.below(3);
                format!("{{{},{}}}", a, a + self.r.below(3))
            }
            5 => format!("{{{},}}", self.r.below(3)),
            6 => "{0}".into(),
            7 => {
                // larger counts: beyond the unroll threshold (5), and big maxima
                match self.r.below(8) {
                    0 => "{6}".to_string(),
                    1 => "{6,7}".into(),
                    2 => "{7,}".into(),
                    3 => "{0,1000}".into(),
                    4 => "{2,300}".into(),
                    5 => "{6,9}".into(),
                    6 => "{5,6}".into(),
                    _ => "{0,100000}".into(),
                }
            }
            _ => return "".into(),
        };
        if self.r.chance(1, 3) {
            format!("{}?", q)
        } else {
            q
        }
    }
    fn atom(&mut self, depth: u32, lb: bool) -> (String, bool) {
        // returns (text, quantifiable)
        let k = if depth == 0 { [0, 1, 2, 3, 4, 5, 6, 7, 18][self.r.below(9) as usize] } else { self.r.below(19) };
        match k {
            0 | 1 | 2 => (self.r.pick(LITS).to_string(), true),
            3 => (".".to_string(), true),
            4 => {
                if self.vmode && self.r.chance(1, 2) {
                    (self.r.pick(VCLASSES).to_string(), true)
                } else if (self.unicode || self.vmode) && self.r.chance(1, 3) {
                    (self.r.pick(UCLASSES).to_string(), true)
                } else {
                    (self.r.pick(CLASSES).to_string(), true)
                }
            }
            5 => (self.r.pick(&["^", "$", "\\b", "\\B"]).to_string(), false),
            6 => {
                if self.ngroups > 0 {
                    // also forward / self references now and then
                    let extra = if self.r.chance(1, 6) { 1 } else { 0 };
                    let n = 1 + self.r.below(self.ngroups as u64 + extra);
                    (format!("\\{}", n), true)
                } else {
                    ("a".into(), true)
                }
            }
            7 => {
                if !self.names.is_empty() && self.r.chance(1, 2) {
                    let n = self.r.pick(&self.names).clone();
                    (format!("\\k<{}>", n), true)
                } else {
                    ("b".into(), true)
                }
            }
            8 | 9 | 10 => {
                self.ngroups += 1;
                let named = self.r.chance(1, 5);
                let nm = if named {
                    let n = format!("n{}", self.names.len());
                    self.names.push(n.clone());
                    format!("?<{}>", n)
                } else {
                    "".into()
                };
                let inner = self.alt(depth - 1, lb);
                (format!("({}{})", nm, inner), true)
            }
            11 | 12 => {
                let inner = self.alt(depth - 1, lb);
                (format!("(?:{})", inner), true)
            }
            13 => {
                let inner = self.alt(depth - 1, lb);
                (format!("(?={})", inner), !(self.unicode || self.vmode))
            }
            14 => {
                let inner = self.alt(depth - 1, lb);
                (format!("(?!{})", inner), !(self.unicode || self.vmode))
            }
            15 => {
                let inner = self.alt(depth - 1, true);
                (format!("(?<={})", inner), false)
            }
            16 => {
                let inner = self.alt(depth - 1, true);
                (format!("(?<!{})", inner), false)
            }
            17 => {
                let inner = self.alt(depth - 1, lb);
                let m = *self.r.pick(&["i", "-i", "m", "s", "i-s", "ms"]);
                (format!("(?{}:{})", m, inner), true)
            }
            18 if self.r.chance(1, 3) => {
                // a longer literal run (byte-sequence lowering, memmem prefilter)
                if self.r.chance(1, 2) {
                    return ("abcabcabcxabcabcabcx".to_string(), false);
                }
                let n = 2 + self.r.below(20);
                let mut s = String::new();
                for _ in 0..n {
                    s.push_str(*self.r.pick(&["a", "b", "c", "é", "x"]));
                }
                (s, false)
            }
            _ => ("".to_string(), false),
        }
    }
    fn term(&mut self, depth: u32, lb: bool) -> String {
        let n = if depth >= 2 { self.r.below(3) } else { self.r.below(4) };
        let mut s = String::new();
        for _ in 0..n {
            let (a, q) = self.atom(depth, lb);
            s.push_str(&a);
            if q && !a.is_empty() {
                s.push_str(&self.quant());
            }
        }
        // now and then a sequence that can never match (an empty class next to whatever was generated: groups,
        // lookarounds with groups, backreferences), for the early-fail propagation of the optimizer
        if n > 0 && self.r.chance(1, 14) {
            let e = *self.r.pick(&["[]", "[]", "[^\\s\\S]"]);
            if self.r.chance(1, 2) { s.push_str(e) } else { s = format!("{}{}", e, s) }
        }
        s
    }
    pub fn alt(&mut self, depth: u32, lb: bool) -> String {
        let n = if self.r.chance(1, 2) { 1 } else { 1 + self.r.below(3) };
        let mut v = vec![];
        for _ in 0..n {
            v.push(self.term(depth, lb));
        }
        // now and then literal alternatives one of which is a prefix of another, in either order (the start predicate
        // of an alternation of literals is their shared prefix)
        if !lb && self.r.chance(1, 10) {
            const WORDS: &[&str] = &["ab", "abc", "abca", "a", "aa", "aab", "ba", "bab", "K", "Ks", "é", "éa", "x1", "x1_"];
            let k = 2 + self.r.below(2);
            let base = self.r.below(WORDS.len() as u64 - 1) as usize;
            let mut ws: Vec<String> = (0..k).map(|j| WORDS[(base + j as usize) % WORDS.len()].to_string()).collect();
            if self.r.chance(1, 2) { ws.reverse(); }
            let a = ws.join("|");
            if self.r.chance(1, 2) { v.push(a); } else { v = vec![format!("(?:{}){}", a, *self.r.pick(&["", "\\b", "c?", "$"]))]; }
        }
        v.join("|")
    }
}

pub const FLAGSETS: &[&str] = &["", "", "i", "m", "s", "u", "iu", "ms", "v", "iv", "is", "imsu"];

pub fn gen_pattern(r: &mut Rng) -> (String, String) {
    let f = *r.pick(FLAGSETS);
    let depth = if r.chance(1, 6) { 3 } else { 1 + r.below(2) as u32 };
    let mut g = PatGen { r, ngroups: 0, names: vec![], unicode: f.contains('u'), vmode: f.contains('v') };
    let p = g.alt(depth, false);
    (p, f.to_string())
}

pub const FIXED_HAYS: &[&str] = &[
    "", "a", "b", "ab", "aa", "aab", "aba", "abc", "aaa", "abab", "a\nb", "éa", "aé", "ééa", "abca", "ba", "ca", "aaaa", "bab", "K", "k",
    "\u{212A}", "s\u{17F}S", "ß", "a\u{1F600}b", "x1_ -", "AbC", "\r\n", "aaab", "xaaac", "\0", "a\0b", "\0a",
];
const HAY_ALPHA: &[&str] = &["a", "b", "c", "a", "b", "é", "K", "k", "s", "S", "\u{17F}", "\u{212A}", "ß", "\u{1F600}", "\n", "x", "_", "1", "-", " ", "A", "B", "\u{2028}", "ü",
    "\x7f", "\u{80}", "\u{7FF}", "\u{800}", "\u{FFFF}", "\u{10000}", "\u{FF01}", "\u{10FFFF}", "\0", "\0",
    // members of wide non-ASCII classes (Greek, Cyrillic, Hangul, Han), to sit next to ASCII in one machine word
    "α", "ω", "ж", "가", "힣", "中"];
const ASCII_ALPHA: &[&str] = &["a", "b", "c", "a", "b", "K", "k", "s", "S", "\n", "x", "_", "1", "-", " ", "A", "B", "\r", "\x7f", "\0", "@", "`", "[", "{", "^", "~", "]", "}", "Z", "z"];

pub fn gen_hay(r: &mut Rng, ascii: bool) -> String {
    if r.chance(1, 5) {
        // runs of one character (counted loops), optionally framed
        let c = *r.pick(&["a", "b", "x", "1", "_"]);
        let k = 5 + r.below(9);
        let mut s = String::new();
        if r.chance(1, 2) {
            s.push_str(*r.pick(&["x", "b", " ", "a"]));
        }
        for _ in 0..k {
            s.push_str(c);
        }
        if r.chance(2, 3) {
            s.push_str(*r.pick(&["b", "c", "x", " ", "z"]));
        }
        return s;
    }
    if r.chance(1, 8) {
        // a long literal (longer than one 16-byte chunk), as the long-literal atoms use
        let mut s = String::from(*r.pick(&["", "x ", "ab"]));
        s.push_str("abcabcabcxabcabcabcx");
        s.push_str(*r.pick(&["", "x", "abc"]));
        return s;
    }
    let lim = if r.chance(1, 4) { 25 } else { 7 };
    let n = r.below(lim);
    let mut s = String::new();
    for _ in 0..n {
        s.push_str(*r.pick(if ascii { ASCII_ALPHA } else { HAY_ALPHA }));
    }
    s
}

/// Deterministic family of small shapes: every body in every context, a few flag sets.
/// Returns (pattern, flags, haystacks).
pub fn shape_family() -> Vec<(String, String, Vec<String>)> {
    let contexts = [
        "{}", "x{}", "(?<={})", "(?<!{})x", "(?={})", "(?!{})", "(?<=(?={}))", "(?=(?<={}))", "(?<=a(?={})b?)", "(?<=(?<={}))c?",
        "(?<=(?!{})..)", "(?:{})+", "({})\\1", "(?:{}|b)*?c", "(?<=({}))\\1?", "(?:(?:{})?){2}b",
    ];
    let bodies = [
        "a", "abcabcabcxabcabcabcx", "abcdefghijklmnop", "abcdefghijklmnopq", "ééééééééé", "[ab]", "a|b", "(a)(b)", "a*", "a{6,7}?", "a{2,3}",
        "[^a]", ".", "\\w+?", "(?:a|ab)(?:c|bcd)", "\\ud800", "K", "\\bx", "^a", "a$", "(?:)", "[a-c]{0,100000}", "(a?){3}",
    ];
    let flags = ["", "i", "u", "m"];
    let hays = [
        "", "a", "ab", "abc", "aab", "abcabcabcxabcabcabcx", "xabcabcabcxabcabcabcxb", "abcdefghijklmnop", "abcdefghijklmnopq", "xabcdefghijklmnopqx",
        "ééééééééé", "aééééééééé", "aaaaaaaaaab", "xaaaaaaaac", "abcd", "acd", "K\u{212A}k", "a\nb", "x ax", "bbc", "aaaa",
    ];
    let mut out = vec![];
    // ASCII case-folding pairs: every byte next to itself, its bit-5 partner and its neighbours,
    // for case-insensitive backreferences and literals in both modes
    let mut pair_hays: Vec<String> = vec![];
    for c in 0u8..128 {
        for d in [c, c ^ 0x20, c.wrapping_add(1) & 0x7f, c.wrapping_sub(1) & 0x7f] {
            let mut t = String::new();
            t.push(c as char);
            t.push(d as char);
            pair_hays.push(t);
        }
    }
    for p in ["(.)\\1", "(?<=\\1(.))$", "([a-z@\\[^])\\1", "(?s:(.)\\1)"] {
        for f in ["i", "iu", "", "is"] {
            out.push((p.replace("\\\\", "\\"), f.to_string(), pair_hays.clone()));
        }
    }
    // a first character from a wide non-ASCII class (byte-bitmap start predicate), behind 0..9 ASCII bytes so that
    // its lead byte falls at every offset of a machine word
    let mut wide_hays: Vec<String> = vec![];
    for w in ["α", "ж", "가", "é", "\u{1F600}"] {
        for k in 0..10 {
            let mut t = "abcdefghij"[..k].to_string();
            t.push_str(w);
            wide_hays.push(t.clone());
            t.push_str("xy");
            wide_hays.push(t);
        }
    }
    for p in ["[^\\0-\\x7f]", "[α-ωа-я가-힣]+", "[\\u0080-\\uffff]x?", "(?:[α-ω]|[가-힣]|ж)y?", "\\P{ASCII}", "\\p{Script=Greek}|\\p{Script=Hangul}|ж"] {
        for f in ["", "i", "u", "iu"] {
            if p.contains("\\p") || p.contains("\\P") { if !f.contains('u') { continue; } }
            out.push((p.replace("\\\\", "\\"), f.to_string(), wide_hays.clone()));
        }
    }
    // sequences that can never match, next to capture groups inside and outside lookarounds
    for p in ["(?!(a))[]|(b)", "(?<!(a))[]|(b)", "(?:(?!(a))[])?(b)", "(?=(a))[]|(b)", "(?:[](a))?(b)", "(?!(a)[])(b)",
              "(?:(?!(a))[])*(b)\\2", "(?!(?<n>a))[]|(?<m>b)", "(?:(?<!(a))[^\\s\\S]|b)(b)?", "(?!((a)))[]|(b)\\3", "(?<=(a)|(?!(b))[])(c)?",
              "(?:(a)|[](?!(b)))+(c)?\\2?", "((?!(a))[]){0}(b)", "(?!(?:(a)[])|(b))(.)"] {
        for f in ["", "i", "u"] {
            out.push((p.replace("\\\\", "\\"), f.to_string(), ["", "a", "b", "ab", "ba", "c", "ac", "bc", "bb"].iter().map(|h| h.to_string()).collect()));
        }
    }
    // nests of small exact counts: the unrolled body outgrows the unroll budget part of the way up, after which the
    // literal pass fuses it into one node (the pass order and the number of rounds of `optimize` are visible in the IR)
    for (cnt, depth) in [(5usize, 4usize), (5, 5), (4, 5), (3, 6), (2, 9)] {
        for (open, close) in [("(?:", ")"), ("(?:x?", ")"), ("(", ")")] {
            let mut p = format!("a{{{}}}", cnt);
            for _ in 0..depth { p = format!("{}{}{}{{{}}}", open, p, close, cnt); }
            let hs: Vec<String> = [3usize, 64].iter().map(|n| "a".repeat(*n)).collect();
            for f in ["", "i"] { out.push((p.clone(), f.to_string(), hs.clone())); }
        }
    }
    // literal alternatives one of which is a prefix of another, in both orders: the start predicate is the shared prefix,
    // the haystacks contain only the shorter alternative
    for p in ["foobar|foo", "foo|foobar", "abc|ab", "ab|abc", "(?:abc|ab)x?", "abcd|abc|ab", "ab|abc|abcd", "a|ab|abc", "abc|ab|a", "(?:interface|in)\\b",
              "éa|é", "é|éa", "(?:ab|a)(?:c|bcd)?", "(?:abc|ab)$", "(abc|ab)\\1", "abab|ab|abc", "(?:ab|abab)+c", "Ks|K", "K|Ks"] {
        for f in ["", "i", "u"] {
            out.push((p.replace("\\\\", "\\"), f.to_string(),
                      ["a foo b", "xxab", "log in now", "foo", "foob", "foobar", "xfoobarx", "ab", "abc", "abcd", "a", "x\u{e9}", "\u{e9}a", "xa", "xabx", "abab", "ababc", "abcabc", "k", "xK", "ks", "\u{212A}s", ""]
                          .iter().map(|h| h.to_string()).collect()));
        }
    }
    for c in contexts.iter() {
        for b in bodies.iter() {
            for f in flags.iter() {
                let p = c.replace("{}", b).replace("\\\\", "\\");
                out.push((p, f.to_string(), hays.iter().map(|h| h.to_string()).collect()));
            }
        }
    }
    out
}
