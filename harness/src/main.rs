#![cfg_attr(feature = "pattern", feature(pattern))]
//! Correspondence harness for the regress verification framework.
//! Built with RUSTFLAGS="--cfg regress_verif" against /repo's working tree.
mod adv;
mod api;
mod cpsops;
mod dump;
mod gen;
mod specgen;
mod threads;
#[cfg(feature = "utf16")]
mod utf16;
#[cfg(feature = "pattern")]
mod searcher;

use dump::*;
use gen::*;
use regress::backends;
use regress::verif;
use regress::{Flags, Regex};
use std::fmt::Write as _;
use std::io::Write as _;
use std::panic;

fn flags_of(f: &str, no_opt: bool) -> Flags {
    let mut fl = Flags::from(f);
    fl.no_opt = no_opt;
    fl
}

/// Compile through the public stage functions.
pub fn compile(p: &[u32], f: &str, no_opt: bool) -> Result<verif::CompiledRegex, String> {
    compile_stages(p, f, no_opt).map(|x| x.0)
}

/// Compile and also return the token dumps of the IR before and after optimization.
pub fn compile_stages(p: &[u32], f: &str, no_opt: bool) -> Result<(verif::CompiledRegex, String, Option<String>), String> {
    let fl = flags_of(f, no_opt);
    let mut ire = backends::try_parse(p.iter().copied(), fl).map_err(|e| e.text)?;
    let mut ir0 = String::new();
    node_tokens(&ire.node, &mut ir0);
    let mut ir1 = None;
    if !no_opt {
        backends::optimize(&mut ire);
        let mut s = String::new();
        node_tokens(&ire.node, &mut s);
        ir1 = Some(s);
    }
    Ok((backends::emit(&ire), ir0, ir1))
}

#[derive(Clone, Copy, PartialEq)]
pub enum Engine {
    Bt8,
    Pk8,
    BtA,
    PkA,
}
impl Engine {
    pub fn name(self) -> &'static str {
        match self {
            Engine::Bt8 => "bt8",
            Engine::Pk8 => "pk8",
            Engine::BtA => "bta",
            Engine::PkA => "pka",
        }
    }
}

/// Sentinel offset of the pseudo-match recorded when an exhausted iterator yields again (C09: fused).
pub const UNFUSED: usize = 99_999;

struct RestoreSteps(u64, u64);
impl Drop for RestoreSteps {
    fn drop(&mut self) {
        verif::STEPS.store(self.0, std::sync::atomic::Ordering::Relaxed);
        verif::BUDGET.store(self.1, std::sync::atomic::Ordering::Relaxed);
    }
}

fn collect<I: Iterator<Item = regress::Match>>(mut it: I) -> MatchList {
    let mut v: MatchList = Vec::new();
    while let Some(m) = it.next() {
        v.push((
            m.range.start,
            m.range.end,
            m.captures.iter().map(|c| c.as_ref().map(|r| (r.start, r.end))).collect(),
        ));
    }
    // once the iterator has returned None it must keep returning None: poll it again
    // (the polls repeat the failed search; their steps are not part of the compared step count)
    let _restore = RestoreSteps(verif::steps(), verif::BUDGET.load(std::sync::atomic::Ordering::Relaxed));
    verif::BUDGET.store(u64::MAX, std::sync::atomic::Ordering::Relaxed);
    for _ in 0..2 {
        if it.next().is_some() {
            v.push((UNFUSED, UNFUSED, Vec::new()));
            break;
        }
    }
    v
}

/// Run one engine over the whole match sequence; returns (status, steps, matches).
pub fn run_engine(re: &Regex, e: Engine, t: &str, start: usize, budget: u64) -> (&'static str, u64, MatchList) {
    verif::reset_steps(budget);
    let r = panic::catch_unwind(panic::AssertUnwindSafe(|| match e {
        Engine::Bt8 => collect(backends::find::<backends::BacktrackExecutor>(re, t, start)),
        Engine::Pk8 => collect(backends::find::<backends::PikeVMExecutor>(re, t, start)),
        Engine::BtA => collect(backends::find_ascii::<backends::BacktrackExecutor>(re, t, start)),
        Engine::PkA => collect(backends::find_ascii::<backends::PikeVMExecutor>(re, t, start)),
    }));
    let steps = verif::steps();
    verif::reset_steps(u64::MAX);
    match r {
        Ok(ms) => ("ok", steps, ms),
        Err(_) => {
            if steps > budget {
                ("budget", steps, vec![])
            } else {
                ("panic", steps, vec![])
            }
        }
    }
}

/// The public entry point Regex::find_from over the whole match sequence (C09 is stated about it).
pub fn run_api(re: &Regex, t: &str, start: usize, budget: u64) -> (&'static str, u64, MatchList) {
    verif::reset_steps(budget);
    let r = panic::catch_unwind(panic::AssertUnwindSafe(|| collect(re.find_from(t, start))));
    let steps = verif::steps();
    verif::reset_steps(u64::MAX);
    match r {
        Ok(ms) => ("ok", steps, ms),
        Err(_) => if steps > budget { ("budget", steps, vec![]) } else { ("panic", steps, vec![]) },
    }
}

fn boundaries(t: &str) -> Vec<usize> {
    let mut v: Vec<usize> = t.char_indices().map(|(i, _)| i).collect();
    v.push(t.len());
    v
}

fn cps(s: &str) -> Vec<u32> {
    s.chars().map(|c| c as u32).collect()
}

fn pat_hex(p: &[u32]) -> String {
    if p.is_empty() {
        return "-".into();
    }
    p.iter().map(|c| format!("{:x}", c)).collect::<Vec<_>>().join(",")
}

fn announce() -> bool {
    static A: std::sync::OnceLock<bool> = std::sync::OnceLock::new();
    *A.get_or_init(|| std::env::var("RV_ANNOUNCE").is_ok())
}

/// Emit one case: program (opt or no_opt), then H/R records for the haystacks.
fn emit_case(out: &mut String, id: &str, p: &[u32], f: &str, no_opt: bool, hays: &[(String, bool)], budget: u64, all_starts: bool) -> bool {
    let (cr, ir0, ir1) = match panic::catch_unwind(|| compile_stages(p, f, no_opt)) {
        Ok(Ok(x)) => x,
        Ok(Err(_)) => return false,
        Err(_) => {
            writeln!(out, "C {} {} {} {}\nX compile-panic\nE", id, pat_hex(p), if f.is_empty() { "-" } else { f }, no_opt as u8).unwrap();
            return true;
        }
    };
    writeln!(out, "C {} {} {} {}", id, pat_hex(p), if f.is_empty() { "-" } else { f }, no_opt as u8).unwrap();
    writeln!(out, "N0 {}", ir0).unwrap();
    if let Some(s) = ir1 {
        writeln!(out, "N1 {}", s).unwrap();
    }
    {
        let mut nl = format!("NM {} {}", cr.flags.multiline as u8, cr.group_names.len());
        for n in cr.group_names.iter() {
            nl.push(' ');
            nl.push_str(&hex(n.as_bytes()));
        }
        writeln!(out, "{}", nl).unwrap();
    }
    program_block(&cr, out);
    let re_x = arbitrary_twin(&cr);
    let re = Regex::from(cr);
    for (t, ascii_only) in hays {
        let starts = if all_starts { boundaries(t) } else { vec![0] };
        for s in starts {
            writeln!(out, "H {} {}", hex(t.as_bytes()), s).unwrap();
            let engines: &[Engine] = if *ascii_only { &[Engine::Bt8, Engine::Pk8, Engine::BtA, Engine::PkA] } else { &[Engine::Bt8, Engine::Pk8] };
            for &e in engines {
                if announce() {
                    // unbuffered: if the process dies in this run, the last line names the input
                    eprintln!("A {} {} {} {} {} {}", pat_hex(p), if f.is_empty() { "-" } else { f }, no_opt as u8, hex(t.as_bytes()), s, e.name());
                }
                let (st, steps, ms) = run_engine(&re, e, t, s, budget);
                writeln!(out, "R {} {} {} {}", e.name(), st, steps, matches_tokens(&ms)).unwrap();
            }
            if let Some(rx) = &re_x {
                for (e, nm) in [(Engine::Bt8, "btx"), (Engine::Pk8, "pkx")] {
                    let (st, steps, ms) = run_engine(rx, e, t, s, budget);
                    writeln!(out, "R {} {} {} {}", nm, st, steps, matches_tokens(&ms)).unwrap();
                }
            }
            // the public find_from from the same start, and (from the last start) from beyond the end
            let (st, _, ms) = run_api(&re, t, s, budget);
            writeln!(out, "RA {} {} {}", s, st, matches_tokens(&ms)).unwrap();
            if s == t.len() {
                for beyond in [t.len() + 1, t.len() + 5] {
                    let (st, _, ms) = run_api(&re, t, beyond, budget);
                    writeln!(out, "RA {} {} {}", beyond, st, matches_tokens(&ms)).unwrap();
                }
            }
        }
    }
    writeln!(out, "E").unwrap();
    true
}

/// The same program with the start predicate replaced by Arbitrary (None if it already is).
fn arbitrary_twin(cr: &verif::CompiledRegex) -> Option<Regex> {
    if matches!(cr.start_pred, verif::StartPredicate::Arbitrary) {
        return None;
    }
    let mut c2 = cr.clone();
    c2.start_pred = verif::StartPredicate::Arbitrary;
    Some(Regex::from(c2))
}

fn cmd_exec(args: &[String]) {
    // exec <seed> <npatterns> <nhays> <budget> [corpus-file]
    let seed: u64 = args[0].parse().unwrap();
    let n: u64 = args[1].parse().unwrap();
    let nh: u64 = args[2].parse().unwrap();
    let budget: u64 = args[3].parse().unwrap();
    let mut r = Rng::new(seed);
    let stdout = std::io::stdout();
    let mut w = std::io::BufWriter::new(stdout.lock());
    let mut id = 0u64;
    // the deterministic small-shape family runs in shard 0 (seed divisible by 1000)
    if seed % 1000 == 0 {
        let mut sid = 0u64;
        for (p, f, hays) in shape_family() {
            let pc = cps(&p);
            let hs: Vec<(String, bool)> = hays.iter().map(|t| (t.clone(), t.is_ascii())).collect();
            for no_opt in [false, true] {
                let mut out = String::new();
                if emit_case(&mut out, &format!("s{}{}", sid, if no_opt { "n" } else { "o" }), &pc, &f, no_opt, &hs, budget, false) {
                    w.write_all(out.as_bytes()).unwrap();
                }
            }
            sid += 1;
        }
    }
    let mut do_case = |p: &[u32], f: &str, r: &mut Rng, w: &mut dyn std::io::Write| {
        let mut hays: Vec<(String, bool)> = vec![];
        for _ in 0..nh {
            let k = r.below(4);
            let t = if k == 0 { r.pick(FIXED_HAYS).to_string() } else { gen_hay(r, k == 1) };
            let asc = t.is_ascii();
            hays.push((t, asc));
        }
        for no_opt in [false, true] {
            let mut out = String::new();
            let all_starts = r.chance(1, 3);
            if emit_case(&mut out, &format!("{}{}", id, if no_opt { "n" } else { "o" }), p, f, no_opt, &hays, budget, all_starts) {
                w.write_all(out.as_bytes()).unwrap();
            }
        }
        id += 1;
    };
    if let Some(cf) = args.get(4) {
        if let Ok(text) = std::fs::read_to_string(cf) {
            for line in text.lines() {
                let line = line.trim_end_matches('\n');
                if line.is_empty() || line.starts_with('#') {
                    continue;
                }
                let mut it = line.splitn(2, '\t');
                let f = it.next().unwrap();
                let p = it.next().unwrap_or("");
                do_case(&cps(p), if f == "-" { "" } else { f }, &mut r, &mut w);
            }
        }
    }
    for _ in 0..n {
        let (p, f) = gen_pattern(&mut r);
        do_case(&cps(&p), &f, &mut r, &mut w);
    }
}

pub fn api_cps_hex(s: &str) -> String {
    if s.is_empty() {
        return "-".into();
    }
    s.chars().map(|c| format!("{:x}", c as u32)).collect::<Vec<_>>().join(",")
}

fn unhex_cps(s: &str) -> Vec<u32> {
    if s == "-" || s.is_empty() {
        return vec![];
    }
    s.split(',').map(|x| u32::from_str_radix(x, 16).unwrap()).collect()
}
fn unhex_bytes(s: &str) -> Vec<u8> {
    if s == "-" {
        return vec![];
    }
    (0..s.len() / 2).map(|i| u8::from_str_radix(&s[2 * i..2 * i + 2], 16).unwrap()).collect()
}

/// cases <budget> <file>: explicit cases, one per line: flags TAB pattern-hex-cps TAB hay-hex TAB start|all
fn cmd_cases(args: &[String]) {
    let budget: u64 = args[0].parse().unwrap();
    let text = std::fs::read_to_string(&args[1]).unwrap();
    let stdout = std::io::stdout();
    let mut w = std::io::BufWriter::new(stdout.lock());
    let mut id = 0u64;
    for line in text.lines() {
        if line.is_empty() || line.starts_with('#') {
            continue;
        }
        let f: Vec<&str> = line.split('\t').collect();
        let flags = if f[0] == "-" { "" } else { f[0] };
        let p = unhex_cps(f[1]);
        let hb = unhex_bytes(f[2]);
        let t = match String::from_utf8(hb) {
            Ok(t) => t,
            Err(_) => continue,
        };
        let asc = t.is_ascii();
        for no_opt in [false, true] {
            let mut out = String::new();
            let ok = if f[3] == "all" {
                emit_case(&mut out, &format!("{}{}", id, if no_opt { "n" } else { "o" }), &p, flags, no_opt, &[(t.clone(), asc)], budget, true)
            } else {
                let start: usize = f[3].parse().unwrap();
                emit_case_at(&mut out, &format!("{}{}", id, if no_opt { "n" } else { "o" }), &p, flags, no_opt, &t, asc, start, budget)
            };
            if ok {
                w.write_all(out.as_bytes()).unwrap();
            }
        }
        id += 1;
    }
}

fn emit_case_at(out: &mut String, id: &str, p: &[u32], f: &str, no_opt: bool, t: &str, ascii_only: bool, start: usize, budget: u64) -> bool {
    let (cr, ir0, ir1) = match panic::catch_unwind(|| compile_stages(p, f, no_opt)) {
        Ok(Ok(x)) => x,
        Ok(Err(_)) => return false,
        Err(_) => {
            writeln!(out, "C {} {} {} {}\nX compile-panic\nE", id, pat_hex(p), if f.is_empty() { "-" } else { f }, no_opt as u8).unwrap();
            return true;
        }
    };
    writeln!(out, "C {} {} {} {}", id, pat_hex(p), if f.is_empty() { "-" } else { f }, no_opt as u8).unwrap();
    writeln!(out, "N0 {}", ir0).unwrap();
    if let Some(s) = ir1 {
        writeln!(out, "N1 {}", s).unwrap();
    }
    {
        let mut nl = format!("NM {} {}", cr.flags.multiline as u8, cr.group_names.len());
        for n in cr.group_names.iter() {
            nl.push(' ');
            nl.push_str(&hex(n.as_bytes()));
        }
        writeln!(out, "{}", nl).unwrap();
    }
    program_block(&cr, out);
    let re_x = arbitrary_twin(&cr);
    let re = Regex::from(cr);
    if start > t.len() {
        // a start beyond the end: only the public entry point accepts it
        writeln!(out, "H {} {}", hex(t.as_bytes()), t.len()).unwrap();
        let (st, _, ms) = run_api(&re, t, start, budget);
        writeln!(out, "RA {} {} {}", start, st, matches_tokens(&ms)).unwrap();
        writeln!(out, "E").unwrap();
        return true;
    }
    writeln!(out, "H {} {}", hex(t.as_bytes()), start).unwrap();
    let engines: &[Engine] = if ascii_only { &[Engine::Bt8, Engine::Pk8, Engine::BtA, Engine::PkA] } else { &[Engine::Bt8, Engine::Pk8] };
    for &e in engines {
        let (st, steps, ms) = run_engine(&re, e, t, start, budget);
        writeln!(out, "R {} {} {} {}", e.name(), st, steps, matches_tokens(&ms)).unwrap();
    }
    if let Some(rx) = &re_x {
        for (e, nm) in [(Engine::Bt8, "btx"), (Engine::Pk8, "pkx")] {
            let (st, steps, ms) = run_engine(rx, e, t, start, budget);
            writeln!(out, "R {} {} {} {}", nm, st, steps, matches_tokens(&ms)).unwrap();
        }
    }
    let (st, _, ms) = run_api(&re, t, start, budget);
    writeln!(out, "RA {} {} {}", start, st, matches_tokens(&ms)).unwrap();
    writeln!(out, "E").unwrap();
    true
}

fn main() {
    panic::set_hook(Box::new(|_| {}));
    let args: Vec<String> = std::env::args().collect();
    match args.get(1).map(|s| s.as_str()) {
        Some("exec") => cmd_exec(&args[2..]),
        Some("cases") => cmd_cases(&args[2..]),
        Some("api") => api::cmd_api(&args[2..]),
        Some("escape") => api::cmd_escape(&args[2..]),
        Some("apicases") => api::cmd_apicases(&args[2..]),
        Some("spec") => specgen::cmd_spec(&args[2..]),
        Some("cps") => cpsops::cmd_cps(&args[2..]),
        Some("fold") => cpsops::cmd_fold(&args[2..]),
        Some("foldeq") => cpsops::cmd_foldeq(&args[2..]),
        Some("props") => cpsops::cmd_props(&args[2..]),
        Some("threads") => threads::cmd_threads(&args[2..]),
        Some("adv") => adv::cmd_adv(&args[2..]),
        Some("advlist") => adv::cmd_advlist(),
        Some("advfuzz") => adv::cmd_advfuzz(&args[2..]),
        Some("syn") => adv::cmd_syn(),
        #[cfg(feature = "utf16")]
        Some("utf16") => utf16::cmd_utf16(&args[2..]),
        #[cfg(feature = "pattern")]
        Some("searcher") => searcher::cmd_searcher(&args[2..]),
        _ => {
            eprintln!("usage: rvharness exec <seed> <npatterns> <nhays> <budget> [corpus]");
            std::process::exit(2);
        }
    }
}
