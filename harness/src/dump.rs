//! Serialisation of CompiledRegex / matches into the line format read by the OCaml driver.
use regress::verif::*;
use std::fmt::Write;

fn b(x: bool) -> u8 {
    x as u8
}

pub fn insn_line(i: &Insn) -> String {
    fn seq(name: &str, v: &[u8]) -> String {
        let mut s = format!("{} {}", name, v.len());
        for x in v {
            write!(s, " {}", x).unwrap();
        }
        s
    }
    match i {
        Insn::Goal => "Goal".into(),
        Insn::Char(c) => format!("Char {}", c),
        Insn::StartOfLine { multiline } => format!("SOL {}", b(*multiline)),
        Insn::EndOfLine { multiline } => format!("EOL {}", b(*multiline)),
        Insn::MatchAny => "Any".into(),
        Insn::MatchAnyExceptLineTerminator => "AnyNL".into(),
        Insn::EnterLoop(f) => format!("EnterLoop {} {} {} {} {}", f.loop_id, f.min_iters, f.max_iters, b(f.greedy), f.exit),
        Insn::LoopAgain { begin } => format!("LoopAgain {}", begin),
        Insn::Loop1CharBody { min_iters, max_iters, greedy } => format!("L1 {} {} {}", min_iters, max_iters, b(*greedy)),
        Insn::Jump { target } => format!("Jump {}", target),
        Insn::Alt { secondary } => format!("Alt {}", secondary),
        Insn::BeginCaptureGroup(g) => format!("BCG {}", g),
        Insn::EndCaptureGroup(g) => format!("ECG {}", g),
        Insn::ResetCaptureGroup(g) => format!("RCG {}", g),
        Insn::BackRef { group, icase } => format!("BackRef {} {}", group, b(*icase)),
        Insn::Bracket(idx) => format!("Bracket {}", idx),
        Insn::AsciiBracket(bm) => seq("ABracket", &bm.0),
        Insn::Lookahead { negate, start_group, end_group, continuation } => {
            format!("LA {} {} {} {}", b(*negate), start_group, end_group, continuation)
        }
        Insn::Lookbehind { negate, start_group, end_group, continuation } => {
            format!("LB {} {} {} {}", b(*negate), start_group, end_group, continuation)
        }
        Insn::WordBoundary { invert } => format!("WB {}", b(*invert)),
        Insn::WordBoundaryUnicodeICase { invert } => format!("WBU {}", b(*invert)),
        Insn::CharSet(cs) => format!("CharSet {} {} {} {}", cs[0], cs[1], cs[2], cs[3]),
        Insn::ByteSet2(s) => seq("ByteSet", &s.0),
        Insn::ByteSet3(s) => seq("ByteSet", &s.0),
        Insn::ByteSet4(s) => seq("ByteSet", &s.0),
        Insn::ByteSeq1(v) => seq("ByteSeq", v),
        Insn::ByteSeq2(v) => seq("ByteSeq", v),
        Insn::ByteSeq3(v) => seq("ByteSeq", v),
        Insn::ByteSeq4(v) => seq("ByteSeq", v),
        Insn::ByteSeq5(v) => seq("ByteSeq", v),
        Insn::ByteSeq6(v) => seq("ByteSeq", v),
        Insn::ByteSeq7(v) => seq("ByteSeq", v),
        Insn::ByteSeq8(v) => seq("ByteSeq", v),
        Insn::ByteSeq9(v) => seq("ByteSeq", v),
        Insn::ByteSeq10(v) => seq("ByteSeq", v),
        Insn::ByteSeq11(v) => seq("ByteSeq", v),
        Insn::ByteSeq12(v) => seq("ByteSeq", v),
        Insn::ByteSeq13(v) => seq("ByteSeq", v),
        Insn::ByteSeq14(v) => seq("ByteSeq", v),
        Insn::ByteSeq15(v) => seq("ByteSeq", v),
        Insn::ByteSeq16(v) => seq("ByteSeq", v),
        Insn::JustFail => "Fail".into(),
    }
}

pub fn start_pred_tokens(sp: &StartPredicate) -> String {
    fn seq(name: &str, v: &[u8]) -> String {
        let mut s = format!("{} {}", name, v.len());
        for x in v {
            write!(s, " {}", x).unwrap();
        }
        s
    }
    match sp {
        StartPredicate::Arbitrary => "Arb".into(),
        StartPredicate::ByteSet1(v) => seq("Set", v),
        StartPredicate::ByteSet2(v) => seq("Set", v),
        StartPredicate::ByteSet3(v) => seq("Set", v),
        StartPredicate::ByteSeq(f) => seq("Seq", f.needle()),
        StartPredicate::ByteBracket(bm) => {
            let v: Vec<u8> = (0..=255u8).filter(|x| bm.contains(*x)).collect();
            seq("Brk", &v)
        }
        StartPredicate::StartAnchored => "Anch".into(),
    }
}

/// Program block: G line, I lines, B lines.
pub fn program_block(cr: &CompiledRegex, out: &mut String) {
    writeln!(out, "G {} {} {} {}", cr.loops, cr.groups, b(cr.flags.unicode), start_pred_tokens(&cr.start_pred)).unwrap();
    for i in &cr.insns {
        writeln!(out, "I {}", insn_line(i)).unwrap();
    }
    for br in &cr.brackets {
        let mut s = format!("B {}", b(br.invert));
        for iv in br.cps.intervals() {
            let (lo, hi) = interval_bounds(*iv);
            write!(s, " {} {}", lo, hi).unwrap();
        }
        writeln!(out, "{}", s).unwrap();
    }
}

pub fn hex(bytes: &[u8]) -> String {
    if bytes.is_empty() {
        return "-".into();
    }
    let mut s = String::new();
    for x in bytes {
        write!(s, "{:02x}", x).unwrap();
    }
    s
}

pub type MatchList = Vec<(usize, usize, Vec<Option<(usize, usize)>>)>;

pub fn matches_tokens(ms: &MatchList) -> String {
    let mut s = format!("{}", ms.len());
    for (a, e, caps) in ms {
        write!(s, " {} {} {}", a, e, caps.len()).unwrap();
        for c in caps {
            match c {
                Some((x, y)) => write!(s, " {} {}", x, y).unwrap(),
                None => s.push_str(" -"),
            }
        }
    }
    s
}

/// IR node in prefix token form.
pub fn node_tokens(n: &Node, out: &mut String) {
    fn seq8(name: &str, v: &[u8], out: &mut String) {
        write!(out, "{} {}", name, v.len()).unwrap();
        for x in v {
            write!(out, " {}", x).unwrap();
        }
    }
    fn seq32(name: &str, v: &[u32], out: &mut String) {
        write!(out, "{} {}", name, v.len()).unwrap();
        for x in v {
            write!(out, " {}", x).unwrap();
        }
    }
    match n {
        Node::Empty => out.push_str("Empty"),
        Node::Goal => out.push_str("Goal"),
        Node::Char { c } => write!(out, "Char {}", c).unwrap(),
        Node::ByteSequence(v) => seq8("BSeq", v, out),
        Node::ByteSet(v) => seq8("BSet", v, out),
        Node::CharSet(v) => seq32("CSet", v, out),
        Node::Cat(v) => {
            write!(out, "Cat {}", v.len()).unwrap();
            for x in v {
                out.push(' ');
                node_tokens(x, out);
            }
        }
        Node::Alt(l, r) => {
            out.push_str("Alt ");
            node_tokens(l, out);
            out.push(' ');
            node_tokens(r, out);
        }
        Node::MatchAny => out.push_str("Any"),
        Node::MatchAnyExceptLineTerminator => out.push_str("AnyNL"),
        Node::Anchor { anchor_type, multiline } => write!(out, "Anchor {} {}", matches!(anchor_type, AnchorType::StartOfLine) as u8, b(*multiline)).unwrap(),
        Node::WordBoundary { invert, unicode_icase } => write!(out, "WB {} {}", b(*invert), b(*unicode_icase)).unwrap(),
        Node::CaptureGroup { id, contents, name } => {
            write!(out, "CG {} {} ", id, match name { Some(s) => hex(s.as_bytes()), None => "-".into() }).unwrap();
            node_tokens(contents, out);
        }
        Node::BackRef { group, icase } => write!(out, "BR {} {}", group, b(*icase)).unwrap(),
        Node::Bracket(bc) => {
            write!(out, "Brk {} {}", b(bc.invert), bc.cps.intervals().len()).unwrap();
            for iv in bc.cps.intervals() {
                let (lo, hi) = interval_bounds(*iv);
                write!(out, " {} {}", lo, hi).unwrap();
            }
        }
        Node::StringSet { alternatives, icase } => {
            write!(out, "SS {} {}", b(*icase), alternatives.len()).unwrap();
            for a in alternatives {
                write!(out, " {}", a.len()).unwrap();
                for c in a.iter() {
                    write!(out, " {}", c).unwrap();
                }
            }
        }
        Node::LookaroundAssertion { negate, backwards, start_group, end_group, contents } => {
            write!(out, "LA {} {} {} {} ", b(*negate), b(*backwards), start_group, end_group).unwrap();
            node_tokens(contents, out);
        }
        Node::Loop { loopee, quant, enclosed_groups } => {
            write!(out, "Loop {} {} {} {} {} ", quant.min, match quant.max { Some(m) => m.to_string(), None => "-".into() }, b(quant.greedy), enclosed_groups.start, enclosed_groups.end).unwrap();
            node_tokens(loopee, out);
        }
        Node::Loop1CharBody { loopee, quant } => {
            write!(out, "L1 {} {} {} ", quant.min, match quant.max { Some(m) => m.to_string(), None => "-".into() }, b(quant.greedy)).unwrap();
            node_tokens(loopee, out);
        }
    }
}
