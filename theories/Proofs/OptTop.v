(* OptTop.v — from the refinement of nodes to the search: if n' refines n then the leftmost search over n' returns
   what the search over n returns (wherever the latter is defined); stripping the trailing Goal of a whole-pattern
   node (ir_top) does not change its meaning; and optimize() composes the passes. *)
From RV Require Import Base.
From RV.Model Require Import Utf8 Indexer CodePointSet Insn IR Optimizer Unfold Emit.
From RV.Spec Require Import IRSem IRShape.
From RV.Proofs Require Import NodeInd MatchRange OptDD OptMono OptWalk OptRel OptDecat OptFails OptEmpties OptUnroll OptPromote OptBrackets OptBytes.

Section Top.
  Variable ix : indexer.
  Variables unicode utf16 : bool.
  Variable h : hay.
  Variable okp : nat -> Prop.
  Notation IR := (ir_results ix unicode utf16 h).
  Notation rres := (rres ix unicode utf16 h okp).
  Notation ref := (ref ix unicode utf16 h okp).
  Notation al := (al ix unicode utf16 h okp).
  Notation PRel := (PRel ix unicode utf16 h okp).

  Lemma gok_init k : gok okp (repeat gd_empty k).
  Proof. induction k; constructor; [apply gdok_empty|assumption]. Qed.

  Lemma rres_trans fwd a b c : rres fwd a b -> rres fwd b c -> rres fwd a c.
  Proof.
    intros [K1 H1] [K2 H2]. exists (K1 + K2)%nat. intro f. rewrite Nat.add_assoc. eapply frelP_trans; [apply H1|apply H2].
  Qed.

  Theorem search_ref n n' :
    (forall p p', okp p -> ix_next_right_pos ix h p = Ok (Some p') -> okp p') ->
    rres true n n' ->
    exists K, forall fuel ngroups tries p r, okp p ->
      ir_search ix unicode utf16 h fuel n ngroups tries p = Some r ->
      ir_search ix unicode utf16 h (fuel + K) n' ngroups tries p = Some r.
  Proof.
    intros Hk5 [K H]. exists K. intros fuel ngroups. induction tries as [|t IH]; intros p r Hp E; [discriminate|].
    cbn [ir_search] in *.
    destruct (IR fuel n true (p, repeat gd_empty ngroups)) as [l|] eqn:El; [|discriminate].
    destruct (H fuel (p, repeat gd_empty ngroups) l (conj Hp (gok_init ngroups)) El) as [l' [El' D]]. rewrite El'. pose proof (dd_head _ _ D) as Hh.
    destruct l as [|y l]; destruct l' as [|y' l']; try contradiction.
    - destruct (ix_next_right_pos ix h p) as [e|[p'|]] eqn:En; try exact E. apply IH; [eapply Hk5; eauto|exact E].
    - subst y'. exact E.
  Qed.

  (* the match a search reports starts and ends at well-formed positions, and so does every capture *)
  Theorem search_boundaries n :
    (forall p p', okp p -> ix_next_right_pos ix h p = Ok (Some p') -> okp p') -> al n ->
    forall fuel ngroups tries p p0 e gs, okp p ->
      ir_search ix unicode utf16 h fuel n ngroups tries p = Some (Some (p0, e, gs)) -> okp p0 /\ okp e /\ gok okp gs.
  Proof.
    intros Hk5 Ha fuel ngroups. induction tries as [|t IH]; intros p p0 e gs Hp E; [discriminate|]. cbn [ir_search] in E.
    destruct (IR fuel n true (p, repeat gd_empty ngroups)) as [l|] eqn:El; [|discriminate].
    destruct l as [|y l].
    - destruct (ix_next_right_pos ix h p) as [e0|[p'|]] eqn:En; try discriminate. eapply IH; [eapply Hk5; eauto|exact E].
    - inversion E; subst. split; [exact Hp|].
      pose proof (closed_al ix unicode utf16 h okp fuel n true Ha (p0, repeat gd_empty ngroups) (y :: l) (conj Hp (gok_init ngroups)) El) as Hc.
      inversion Hc as [|y0 l0 Hy _]; subst. split; [exact (proj1 Hy)|exact (proj2 Hy)].
  Qed.

  Lemma obindm_goal f fwd : forall ys, obindm (IR (S f) NGoal fwd) ys = Some ys.
  Proof.
    induction ys as [|[q G] ys IHy]; [reflexivity|]. cbn [obindm]. rewrite IHy. reflexivity.
  Qed.
  Lemma obindm_goal_inv f fwd : forall ys r, obindm (IR f NGoal fwd) ys = Some r -> r = ys.
  Proof.
    intros ys r E. destruct f as [|f]; [destruct ys; cbn in E; [inversion E; reflexivity|discriminate]|].
    rewrite obindm_goal in E. inversion E; reflexivity.
  Qed.

  Lemma cat_goal_down fwd l0 : rres fwd (NCat (l0 ++ [NGoal])) (NCat l0).
  Proof.
    apply (rres_fle ix unicode utf16 h okp fwd _ _ 0%nat). intros [|f] x r E; [discriminate|].
    rewrite Nat.add_0_r. rewrite ir_cat_eq in *. rewrite cat_app_l in E.
    destruct (cat_results (fun c => IR f c fwd) l0 [x]) as [ys|]; [|discriminate].
    cbn [cat_results] in E. destruct (obindm (IR f NGoal fwd) ys) as [zs|] eqn:Ez; [|discriminate].
    inversion E; subst. rewrite (obindm_goal_inv f fwd ys r Ez). reflexivity.
  Qed.

  Lemma cat_goal_up fwd l0 : rres fwd (NCat l0) (NCat (l0 ++ [NGoal])).
  Proof.
    apply (rres_fle ix unicode utf16 h okp fwd _ _ 1%nat). intros [|f] x r E; [discriminate|].
    replace (S f + 1)%nat with (S (S f)) by lia. rewrite ir_cat_eq in *. rewrite cat_app_l.
    assert (E' : cat_results (fun c => IR (S f) c fwd) l0 [x] = Some r).
    { eapply cat_fle2; [|exact E]. apply Forall2_same. intro a. apply ir_fuel_mono. lia. }
    rewrite E'. cbn [cat_results]. rewrite obindm_goal. reflexivity.
  Qed.

  Lemma rres_refl fwd n : rres fwd n n.
  Proof. apply (ref_refl ix unicode utf16 h okp fwd n). Qed.

  Lemma rev_goal l r : rev l = NGoal :: r -> l = rev r ++ [NGoal].
  Proof. intro H. rewrite <- (rev_involutive l), H. reflexivity. Qed.

  (* ir_top n means what n means *)
  Lemma top_down n : rres true n (ir_top n).
  Proof.
    destruct n; try apply rres_refl.
    - (* Goal -> Cat [] *)
      apply (rres_fle ix unicode utf16 h okp true _ _ 0%nat). intros [|f] [p G] r E; [discriminate|].
      rewrite Nat.add_0_r. exact E.
    - (* CharSet [] -> Cat [CharSet []] *)
      destruct cs; [|apply rres_refl].
      apply (rres_fle ix unicode utf16 h okp true _ _ 1%nat). intros [|f] [p G] r E; [discriminate|].
      replace (S f + 1)%nat with (S (S f)) by lia. cbn in E. inversion E; subst. reflexivity.
    - (* Cat *)
      cbn [ir_top]. destruct (rev l) as [|c r] eqn:Er; [apply rres_refl|].
      destruct c; try apply rres_refl. rewrite (rev_goal l r Er). apply cat_goal_down.
  Qed.

  Lemma top_up n : rres true (ir_top n) n.
  Proof.
    destruct n; try apply rres_refl.
    - apply (rres_fle ix unicode utf16 h okp true _ _ 0%nat). intros [|f] [p G] r E; [discriminate|].
      rewrite Nat.add_0_r. exact E.
    - destruct cs; [|apply rres_refl].
      apply (rres_fle ix unicode utf16 h okp true _ _ 0%nat). intros [|f] [p G] r E; [discriminate|].
      rewrite Nat.add_0_r. destruct f as [|f]; [discriminate|]. cbn in E. inversion E; subst. reflexivity.
    - cbn [ir_top]. destruct (rev l) as [|c r] eqn:Er; [apply rres_refl|].
      destruct c; try apply rres_refl. rewrite (rev_goal l r Er). apply cat_goal_up.
  Qed.

  (* the text hypotheses of the passes, at the well-formed positions [okp] (character boundaries), which lie inside
     the text: reading an element
     or stepping to the next attempt leads to a well-formed position, and so does replaying a capture; elements are code points; bytes and elements
     agree below 128; one step of a one-character node can be undone *)
  Definition text_ok : Prop :=
    (forall q, okp q -> (q <= length h)%nat) /\
    (forall fwd p c p', okp p -> cnext ix fwd h p = Ok (Some (c, p')) -> okp p') /\
    (forall p p', okp p -> ix_next_right_pos ix h p = Ok (Some p') -> okp p') /\
    (forall fwd p rs re e, okp p -> okp rs -> okp re -> subrange_eq fwd h p rs re = Ok (Some e) -> okp e) /\
    (forall fwd p c p', okp p -> cnext ix fwd h p = Ok (Some (c, p')) -> c <= CODE_POINT_MAX) /\
    (forall fwd q, okp q ->
       match next_byte fwd h q with
       | Ok (Some (b, q1)) => if b <? 128 then cnext ix fwd h q = Ok (Some (b, q1))
                              else exists c q2, cnext ix fwd h q = Ok (Some (c, q2)) /\ 128 <= c
       | Ok None => cnext ix fwd h q = Ok None
       | Err _ => True
       end) /\
    (forall fwd q, okp q ->
       match cnext ix fwd h q with
       | Ok (Some (c, q2)) => if c <? 128 then next_byte fwd h q = Ok (Some (c, q2))
                              else exists b q1, next_byte fwd h q = Ok (Some (b, q1)) /\ 128 <= b
       | Ok None => next_byte fwd h q = Ok None
       | Err _ => True
       end) /\
    (forall body fwd s q q', matches_exactly_one_char body = true -> okp q ->
       single_step ix unicode h (negb fwd) body fwd = Some s -> s q = Some (Some q') -> step_inv ix h fwd q q' = true).

  (* the search over the stripped optimized node returns what the search over the stripped original returns *)
  Theorem top_search_ref n n' : text_ok -> ref true n n' ->
    exists K, forall fuel ngroups tries p r, okp p ->
      ir_search ix unicode utf16 h fuel (ir_top n) ngroups tries p = Some r ->
      ir_search ix unicode utf16 h (fuel + K) (ir_top n') ngroups tries p = Some r.
  Proof.
    intros (_ & _ & Hk5 & _) [Hr _]. apply search_ref; [exact Hk5|].
    eapply rres_trans; [apply top_up|]. eapply rres_trans; [exact Hr|apply top_down].
  Qed.

  (* ... and for the literal-bytes pass: a scalar value read as an element is its UTF-8 encoding read as bytes, whose
     end is a well-formed position (decoding and encoding are inverse on well-formed UTF-8) *)
  Definition text_enc : Prop :=
    (forall fwd q c, okp q -> is_scalar c = true ->
       match next_if ix fwd h q (N.eqb c) with Ok r => match_bytes fwd h q (utf8_encode c) = Ok r | Err _ => True end) /\
    (forall fwd q c e, okp q -> is_scalar c = true -> match_bytes fwd h q (utf8_encode c) = Ok (Some e) -> okp e).

  (* about the indexer alone: on every text it moves inside the text and in its direction; about the text: it is
     shorter than usize::MAX (so that no loop counter reaches the value that stands for "unbounded") *)
  Definition ix_ok : Prop :=
    (forall (h' : hay) fwd p c p', (p <= length h')%nat -> cnext ix fwd h' p = Ok (Some (c, p')) -> (p' <= length h')%nat) /\
    (forall (h' : hay) fwd p c p', cnext ix fwd h' p = Ok (Some (c, p')) -> if fwd then (p <= p')%nat else (p' <= p)%nat).
  Definition short : Prop := N.of_nat (length h) + 8 < USIZE_MAX.

  (* optimize() is the composition of its passes *)
  Theorem optimize_with_sound : ix_ok -> short -> text_ok -> text_enc ->
    forall fuel u16 n n', optimize_with fuel u16 n = Ok n' -> PRel false n n'.
  Proof.
    intros (Hcur & Hdir) Hlen (Hk0 & Hk1 & Hk5 & Hk4 & Hcp & Hb1 & Hb2 & Hstep) (He1 & He2) fuel u16 n n' E. unfold optimize_with in E.
    destruct (run_to_fixpoint simplify_brackets fuel n) as [e|n0] eqn:E0; [discriminate|]. cbn [bindR] in E.
    destruct (run_to_fixpoint decat fuel n0) as [e|n1] eqn:E1; [discriminate|]. cbn [bindR] in E.
    destruct (run_to_fixpoint unroll_loops fuel n1) as [e|n2] eqn:E2; [discriminate|]. cbn [bindR] in E.
    destruct (run_to_fixpoint promote_1char_loops fuel n2) as [e|n3] eqn:E3; [discriminate|]. cbn [bindR] in E.
    destruct (if u16 then Ok n3 else run_to_fixpoint form_literal_bytes fuel n3) as [e|n4] eqn:E4; [discriminate|].
    cbn [bindR] in E.
    destruct (run_to_fixpoint remove_empties fuel n4) as [e|n5] eqn:E5; [discriminate|]. cbn [bindR] in E.
    eapply PRel_trans; [eapply brackets_pass_sound; [exact Hk1|exact Hcp|exact Hb1|exact Hb2|exact E0]|].
    eapply PRel_trans; [eapply decat_pass_sound; exact E1|].
    eapply PRel_trans; [eapply unroll_pass_sound; [exact Hcur|exact Hdir|exact Hk0|exact Hlen|exact E2]|].
    eapply PRel_trans; [eapply promote_pass_sound; [exact Hstep|exact E3]|].
    eapply PRel_trans; [|eapply PRel_trans; [eapply empties_pass_sound; exact E5|eapply fails_pass_sound; [exact Hcp|exact E]]].
    destruct u16; [inversion E4; subst; apply PRel_refl|].
    eapply literal_pass_sound; [exact Hk0|exact Hk1|exact Hb1|exact Hb2|exact He1|exact He2|exact E4].
  Qed.

  Theorem optimize_sound : ix_ok -> short -> text_ok -> text_enc ->
    forall u16 n n', optimize u16 n = Ok n' -> PRel false n n'.
  Proof. intros H1 H2 H3 H4 u16 n n' E. exact (optimize_with_sound H1 H2 H3 H4 PASS_FUEL u16 n n' E). Qed.

  (* the utf16 build compiles form_literal_bytes out: there the whole of optimize() is covered *)
  Theorem optimize_with_sound_utf16_build : ix_ok -> short -> text_ok -> forall fuel n n', optimize_with fuel true n = Ok n' -> PRel false n n'.
  Proof.
    intros (Hcur & Hdir) Hlen (Hk0 & Hk1 & Hk5 & Hk4 & Hcp & Hb1 & Hb2 & Hstep) fuel n n' E. unfold optimize_with in E.
    destruct (run_to_fixpoint simplify_brackets fuel n) as [e|n0] eqn:E0; [discriminate|]. cbn [bindR] in E.
    destruct (run_to_fixpoint decat fuel n0) as [e|n1] eqn:E1; [discriminate|]. cbn [bindR] in E.
    destruct (run_to_fixpoint unroll_loops fuel n1) as [e|n2] eqn:E2; [discriminate|]. cbn [bindR] in E.
    destruct (run_to_fixpoint promote_1char_loops fuel n2) as [e|n3] eqn:E3; [discriminate|]. cbn [bindR] in E.
    destruct (run_to_fixpoint remove_empties fuel n3) as [e|n5] eqn:E5; [discriminate|]. cbn [bindR] in E.
    eapply PRel_trans; [eapply brackets_pass_sound; [exact Hk1|exact Hcp|exact Hb1|exact Hb2|exact E0]|].
    eapply PRel_trans; [eapply decat_pass_sound; exact E1|].
    eapply PRel_trans; [eapply unroll_pass_sound; [exact Hcur|exact Hdir|exact Hk0|exact Hlen|exact E2]|].
    eapply PRel_trans; [eapply promote_pass_sound; [exact Hstep|exact E3]|].
    eapply PRel_trans; [eapply empties_pass_sound; exact E5|eapply fails_pass_sound; [exact Hcp|exact E]].
  Qed.
  Theorem optimize_sound_utf16_build : ix_ok -> short -> text_ok -> forall n n', optimize true n = Ok n' -> PRel false n n'.
  Proof. intros H1 H2 H3 n n' E. exact (optimize_with_sound_utf16_build H1 H2 H3 PASS_FUEL n n' E). Qed.
End Top.

(* ---- what optimize() keeps, whatever the text: with no position counted as well-formed every text hypothesis and
   every closure condition is vacuous, and the refinement theorem still carries the invariants ---- *)
Lemma al_nowhere ix unicode utf16 h : forall n, al ix unicode utf16 h (fun _ => False) n.
Proof.
  induction n as [n Hleaf|l H|a b IHa IHb|id c nm IHc|neg bw sg eg c IHc|b mn mx g egs ege IHb|b mn mx g IHb] using node_ind2.
  - destruct n; try contradiction; (split; [intros f fwd x r [Hx _]; destruct Hx|intros fwd s _ q q' Hq; destruct Hq]).
  - apply al_cat. exact H.
  - split; assumption.
  - exact IHc.
  - exact IHc.
  - exact IHb.
  - exact IHb.
Qed.

Theorem optimize_with_invariants : forall fuel u16 n n', optimize_with fuel u16 n = Ok n' -> qok n = true -> qok n' = true /\ ng n' = ng n.
Proof.
  intros fuel u16 n n' E Hq.
  assert (Hi : ix_ok ascii_indexer) by (split; [exact ascii_cursor|exact ascii_dir]).
  assert (Hs : short []) by reflexivity.
  assert (Ht : text_ok ascii_indexer false [] (fun _ => False)).
  { split; [intros q []|]. split; [intros fwd p c p' []|]. split; [intros p p' []|]. split; [intros fwd p rs re e []|]. split; [intros fwd p c p' []|].
    split; [intros fwd q []|]. split; [intros fwd q []|]. intros body fwd s q q' _ []. }
  assert (He : text_enc ascii_indexer [] (fun _ => False)).
  { split; [intros fwd q c []|intros fwd q c e []]. }
  destruct (optimize_with_sound ascii_indexer false false [] (fun _ => False) Hi Hs Ht He fuel u16 n n' E Hq (al_nowhere _ _ _ _ n)) as (_ & Q & _ & N).
  split; assumption.
Qed.
Theorem optimize_invariants : forall u16 n n', optimize u16 n = Ok n' -> qok n = true -> qok n' = true /\ ng n' = ng n.
Proof. intros u16 n n' E. exact (optimize_with_invariants PASS_FUEL u16 n n' E). Qed.

(* every node kind the parser produces stays among the well-formed positions, \q{...} string sets included (each
   alternative is lowered to pieces that are UTF-8 encodings, ASCII byte sets, small character sets or single
   non-scalar elements) *)
Theorem al_parsed : forall ix unicode utf16 h (okp : nat -> Prop),
  text_ok ix unicode h okp -> text_enc ix h okp -> forall n, parsed n = true -> al ix unicode utf16 h okp n.
Proof.
  intros ix unicode utf16 h okp (Hk0 & Hk1 & Hk5 & Hk4 & Hcp & Hb1 & Hb2 & Hstep) (He1 & He2).
  induction n as [n Hleaf|l H|a b IHa IHb|id c nm IHc|neg bw sg eg c IHc|b mn mx g egs ege IHb|b mn mx g IHb] using node_ind2;
    intro Hs.
  - destruct n; try contradiction; try discriminate Hs;
      try (apply (al_simple ix unicode utf16 h okp Hk1 Hk4 Hb1); reflexivity).
    exact (al_stringset ix unicode utf16 h okp Hk0 Hk1 Hb1 He2 alts icase).
  - apply al_cat. cbn [parsed] in Hs. rewrite forallb_forall in Hs. rewrite Forall_forall in *.
    intros x Hx. apply H; [exact Hx|apply Hs; exact Hx].
  - cbn [parsed] in Hs. apply andb_true_iff in Hs as [H1 H2]. split; auto.
  - apply IHc. exact Hs.
  - apply IHc. exact Hs.
  - apply IHb. exact Hs.
  - apply IHb. exact Hs.
Qed.
