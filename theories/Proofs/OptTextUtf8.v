(* OptTextUtf8.v — the text hypotheses of the optimizer theorems (OptTop.text_ok, text_enc) for the UTF-8 indexer on
   well-formed UTF-8 text (a sequence of well-formed characters), the well-formed positions being the character
   boundaries. *)
From RV Require Import Base.
From RV.Model Require Import Utf8 Indexer CodePointSet Insn IR Optimizer Unfold Emit.
From RV.Spec Require Import IRSem IRShape.
From RV.Proofs Require Import NodeInd Utf8Facts Utf8Valid OptDD OptMono OptWalk OptRel OptBrackets OptBytes OptTop.

Section Utf8Text.
  Variable fold : N -> bool -> N.
  Variable cs : list (list N).
  Hypothesis Hw : wf_text cs.
  Variable unicode : bool.
  Notation u8 := (utf8_indexer fold).
  Notation h := (concat cs).
  Notation okp := (bnd cs).

  Lemma cnext_fwd q : cnext u8 true h q = u8_next_right h q. Proof. reflexivity. Qed.
  Lemma cnext_bwd q : cnext u8 false h q = u8_next_left h q. Proof. reflexivity. Qed.

  Lemma single_of_low c b0 t : wf_char c = true -> c = b0 :: t -> b0 < 128 -> c = [b0] /\ dec c = b0.
  Proof.
    intros Hc -> Hlt. destruct (wf_facts (b0 :: t) Hc) as (_ & _ & b & t' & E & _ & _ & _ & _ & Hone & _).
    inversion E; subst. rewrite (Hone Hlt). split; reflexivity.
  Qed.

  Lemma high_dec c b0 t : wf_char c = true -> c = b0 :: t -> 128 <= b0 -> 128 <= dec c.
  Proof.
    intros Hc -> Hge. destruct (wf_facts (b0 :: t) Hc) as (_ & _ & b & t' & E & _ & _ & _ & [Hl|Hd] & _).
    - inversion E; subst. lia.
    - exact Hd.
  Qed.

  (* the last byte of a character is below 128 exactly when the character is that single byte *)
  Lemma last_low c z : wf_char c = true -> nth_error c (length c - 1) = Some z -> z < 128 -> c = [z] /\ dec c = z.
  Proof.
    intros Hc Ez Hlt.
    destruct (wf_shape c Hc) as [(b0 & -> & H0)|[(b0 & b1 & -> & H0 & H1 & _)|
      [(b0 & b1 & b2 & -> & H0 & H1 & H2 & _)|(b0 & b1 & b2 & b3 & -> & H0 & H1 & H2 & H3 & _)]]];
      cbn in Ez; inversion Ez; subst; try lia. split; reflexivity.
  Qed.

  Lemma last_high c z : wf_char c = true -> nth_error c (length c - 1) = Some z -> 128 <= z -> 128 <= dec c.
  Proof.
    intros Hc Ez Hge. destruct c as [|b0 t]; [discriminate Hc|].
    destruct (N.lt_ge_cases b0 128) as [Hlt|Hb0]; [|eapply high_dec; eauto].
    destruct (single_of_low (b0 :: t) b0 t Hc eq_refl Hlt) as [E _]. inversion E; subst. cbn in Ez. inversion Ez; subst. lia.
  Qed.

  Lemma step_inv_fwd q c : okp q -> wf_char c = true -> okp (q + length c) ->
    u8_next_right_pos h q = Ok (Some (q + length c)%nat) -> u8_next_left_pos h (q + length c) = Ok (Some q) ->
    step_inv u8 h true q (q + length c) = true.
  Proof.
    intros Hq Hc Hq' Hr Hl. unfold step_inv. cbn [ix_next_left_pos ix_next_right_pos utf8_indexer]. rewrite Hl, Hr.
    pose proof (wf_len c Hc). pose proof (bnd_len cs _ Hq'). rewrite !Nat.eqb_refl. cbn [andb].
    replace (q <=? length h)%nat with true by (symmetry; apply Nat.leb_le; lia).
    replace (q + length c <=? length h)%nat with true by (symmetry; apply Nat.leb_le; lia).
    replace (q <? q + length c)%nat with true by (symmetry; apply Nat.ltb_lt; lia). reflexivity.
  Qed.

  Lemma step_inv_bwd q q0 c : okp q -> wf_char c = true -> q = (q0 + length c)%nat ->
    u8_next_right_pos h q0 = Ok (Some q) -> u8_next_left_pos h q = Ok (Some q0) ->
    step_inv u8 h false q q0 = true.
  Proof.
    intros Hq Hc -> Hr Hl. unfold step_inv. cbn [ix_next_left_pos ix_next_right_pos utf8_indexer]. rewrite Hl, Hr.
    pose proof (wf_len c Hc). pose proof (bnd_len cs _ Hq). rewrite !Nat.eqb_refl. cbn [andb].
    replace (q0 + length c <=? length h)%nat with true by (symmetry; apply Nat.leb_le; lia).
    replace (q0 <=? length h)%nat with true by (symmetry; apply Nat.leb_le; lia).
    replace (q0 <? q0 + length c)%nat with true by (symmetry; apply Nat.ltb_lt; lia). reflexivity.
  Qed.

  Lemma next_if_step fwd q t q' : okp q -> next_if u8 fwd h q t = Ok (Some q') -> step_inv u8 h fwd q q' = true /\ okp q'.
  Proof.
    intros Hq E. unfold next_if in E. destruct fwd.
    - rewrite cnext_fwd in E. destruct (view_fwd cs q Hw Hq) as [_ Hn _ _|c b0 t0 Ec Hc Hq' Hn _ Hrp _ Hlp _]; rewrite Hn in E; cbn [bindR] in E; [discriminate|].
      destruct (t (dec c)); inversion E; subst. split; [apply step_inv_fwd; assumption|exact Hq'].
    - rewrite cnext_bwd in E. destruct (view_bwd cs q Hw Hq) as [_ Hn _ _|c z q0 Hc Eq Hq0 _ Hn _ Hlp _ Hrp _]; rewrite Hn in E; cbn [bindR] in E; [discriminate|].
      destruct (t (dec c)); inversion E; subst. split; [eapply step_inv_bwd; eauto|exact Hq0].
  Qed.

  Lemma byte_if_step fwd q t q' : (forall v, 128 <= v -> t v = false) -> okp q ->
    byte_if fwd h q t = Ok (Some q') -> step_inv u8 h fwd q q' = true /\ okp q'.
  Proof.
    intros Hhi Hq E. unfold byte_if in E. destruct fwd.
    - destruct (view_fwd cs q Hw Hq) as [_ _ Hb _|c b0 t0 Ec Hc Hq' _ Hb Hrp _ Hlp _]; rewrite Hb in E; cbn [bindR] in E; [discriminate|].
      destruct (t b0) eqn:Et; inversion E; subst.
      assert (Hlt : b0 < 128) by (destruct (N.lt_ge_cases b0 128) as [Hl|Hg]; [exact Hl|rewrite (Hhi b0 Hg) in Et; discriminate]).
      destruct (single_of_low (b0 :: t0) b0 t0 Hc eq_refl Hlt) as [E1 _]. inversion E1; subst t0.
      cbn [length] in *. replace (S q) with (q + 1)%nat by lia. split; [apply (step_inv_fwd q [b0]); assumption|exact Hq'].
    - destruct (view_bwd cs q Hw Hq) as [_ _ Hb _|c z q0 Hc Eq Hq0 Ez _ Hb Hlp _ Hrp _]; rewrite Hb in E; cbn [bindR] in E; [discriminate|].
      destruct (t z) eqn:Et; inversion E; subst.
      assert (Hlt : z < 128) by (destruct (N.lt_ge_cases z 128) as [Hl|Hg]; [exact Hl|rewrite (Hhi z Hg) in Et; discriminate]).
      destruct (last_low c z Hc Ez Hlt) as [E1 _]. subst c. cbn [length] in *.
      replace (q0 + 1 - 1)%nat with q0 by lia. split; [eapply (step_inv_bwd (q0 + 1) q0 [z]); eauto|exact Hq0].
  Qed.

  (* ---- comparing byte strings; uniqueness of the character that starts (ends) at a place ---- *)
  Lemma bytes_eqb_refl x : bytes_eqb x x = true.
  Proof. unfold bytes_eqb. induction x as [|a x IH]; [reflexivity|]. cbn [list_eqb]. rewrite N.eqb_refl, IH. reflexivity. Qed.
  Lemma bytes_eqb_eq x : forall y, bytes_eqb x y = true -> x = y.
  Proof.
    unfold bytes_eqb. induction x as [|a x IH]; intros [|b y] H; cbn [list_eqb] in H; try discriminate; [reflexivity|].
    apply andb_true_iff in H as [H1 H2]. apply N.eqb_eq in H1. subst. f_equal. apply IH. exact H2.
  Qed.

  Lemma wf_head c : wf_char c = true -> exists b0 t, c = b0 :: t /\ utf8_seq_len b0 = length c /\ is_utf8_continuation b0 = false.
  Proof. intro Hc. destruct (wf_facts c Hc) as (_ & _ & b0 & t & E & Hl & Hb & _). exists b0, t. auto. Qed.

  Lemma wf_tail_cont c k : wf_char c = true -> (1 <= k)%nat -> (k < length c)%nat ->
    exists b, nth_error c k = Some b /\ is_utf8_continuation b = true.
  Proof.
    intros Hc Hk1 Hk2. destruct (wf_facts c Hc) as (_ & _ & b0 & t & -> & _ & _ & Ht & _).
    destruct k as [|k]; [lia|]. cbn [length] in Hk2. cbn [nth_error].
    destruct (nth_error t k) as [b|] eqn:Eb; [|apply nth_error_None in Eb; lia].
    exists b. split; [reflexivity|]. rewrite Forall_forall in Ht. apply Ht. eapply nth_error_In; eauto.
  Qed.

  (* two well-formed characters that start at the same place are the same *)
  Lemma prefix_unique (l : list N) c1 c2 : wf_char c1 = true -> wf_char c2 = true ->
    firstn (length c1) l = c1 -> firstn (length c2) l = c2 -> c1 = c2.
  Proof.
    intros H1 H2 E1 E2. destruct (wf_head c1 H1) as (a & t1 & -> & L1 & _). destruct (wf_head c2 H2) as (b & t2 & -> & L2 & _).
    destruct l as [|x l]; [cbn in E1; discriminate|]. cbn [length firstn] in E1, E2.
    injection E1 as Ea Et1. injection E2 as Eb Et2. subst a b. cbn [length] in L1, L2.
    assert (Hl : length t1 = length t2) by lia. rewrite <- Et1, <- Et2, Hl. reflexivity.
  Qed.

  Lemma slice_firstn (l : list N) q n : slice l q (q + n) = firstn n (skipn q l).
  Proof. unfold slice. replace (q + n - q)%nat with n by lia. reflexivity. Qed.

  Lemma skipn_head {A} (X : list A) : forall k b r, skipn k X = b :: r -> nth_error X k = Some b.
  Proof.
    induction X as [|x X IH]; intros [|k] b r E; cbn in *; try discriminate.
    - inversion E; reflexivity.
    - eapply IH; eauto.
  Qed.

  Lemma slice_skip (l : list N) a b q : (a <= b)%nat -> (b <= q)%nat -> slice l b q = skipn (b - a) (slice l a q).
  Proof.
    intros H1 H2. unfold slice. rewrite skipn_firstn_comm. rewrite OptBytes.skipn_plus.
    replace (b - a + a)%nat with b by lia. replace (q - a - (b - a))%nat with (q - b)%nat by lia. reflexivity.
  Qed.

  (* two well-formed characters that end at the same place are the same *)
  Lemma suffix_unique_in (h0 : list N) a b q c1 c2 : wf_char c1 = true -> wf_char c2 = true -> (q <= length h0)%nat ->
    (a <= q)%nat -> (b <= q)%nat -> slice h0 a q = c1 -> slice h0 b q = c2 -> c1 = c2.
  Proof.
    intros H1 H2 Hq Ha Hb E1 E2.
    assert (L1 : length c1 = (q - a)%nat) by (rewrite <- E1; apply slice_len; assumption).
    assert (L2 : length c2 = (q - b)%nat) by (rewrite <- E2; apply slice_len; assumption).
    pose proof (wf_len c1 H1). pose proof (wf_len c2 H2).
    destruct (Nat.lt_trichotomy a b) as [Hlt|[->|Hlt]].
    - (* c2 is a proper suffix of c1: its first byte is a continuation byte of c1 *)
      exfalso. rewrite (slice_skip h0 a b q) in E2 by lia. rewrite E1 in E2.
      destruct (wf_head c2 H2) as (x & t & Ec2 & _ & Hx). rewrite Ec2 in E2.
      pose proof (skipn_head c1 (b - a) x t E2) as Hn.
      destruct (wf_tail_cont c1 (b - a) H1 ltac:(lia) ltac:(lia)) as (y & Hy & Hc). rewrite Hn in Hy. inversion Hy; subst. congruence.
    - congruence.
    - exfalso. rewrite (slice_skip h0 b a q) in E1 by lia. rewrite E2 in E1.
      destruct (wf_head c1 H1) as (x & t & Ec1 & _ & Hx). rewrite Ec1 in E1.
      pose proof (skipn_head c2 (a - b) x t E1) as Hn.
      destruct (wf_tail_cont c2 (a - b) H2 ltac:(lia) ltac:(lia)) as (y & Hy & Hc). rewrite Hn in Hy. inversion Hy; subst. congruence.
  Qed.

  Lemma suffix_unique a b q c1 c2 : wf_char c1 = true -> wf_char c2 = true -> (q <= length h)%nat ->
    (a <= q)%nat -> (b <= q)%nat -> slice h a q = c1 -> slice h b q = c2 -> c1 = c2.
  Proof. apply suffix_unique_in. Qed.

  (* ---- replaying a capture: a stretch of text between two character boundaries, found again at a boundary, ends at
     a boundary (UTF-8 is self-synchronizing) ---- *)
  Lemma wf_app (a b : list (list N)) : wf_text (a ++ b) -> wf_text a /\ wf_text b.
  Proof. unfold wf_text. intro H. apply Forall_app in H. exact H. Qed.

  Lemma wf_nonempty c : wf_char c = true -> (1 <= length c)%nat.
  Proof. intro H. pose proof (wf_len c H). lia. Qed.

  Lemma split_prefix : forall A B A' B' : list (list N), wf_text (A ++ B) -> A ++ B = A' ++ B' ->
    (length (concat A) <= length (concat A'))%nat -> exists M, A' = A ++ M.
  Proof.
    induction A as [|a A IH]; intros B A' B' Hwf E Hl; [exists A'; reflexivity|].
    destruct A' as [|a' A'].
    - exfalso. cbn [concat length app] in Hl. rewrite app_length in Hl.
      inversion Hwf as [|x l Ha _]; subst. pose proof (wf_nonempty a Ha). lia.
    - cbn [app] in E. injection E as Ea Et. subst a'. inversion Hwf as [|x l Ha Hrest]; subst.
      cbn [concat] in Hl. rewrite !app_length in Hl.
      destruct (IH B A' B' Hrest Et ltac:(lia)) as [M HM]. exists M. cbn [app]. rewrite HM. reflexivity.
  Qed.

  Lemma firstn_exact {A} (a b : list A) : firstn (length a) (a ++ b) = a.
  Proof. rewrite firstn_app, firstn_all, Nat.sub_diag. cbn [firstn]. apply app_nil_r. Qed.

  Lemma chars_prefix : forall mid post : list (list N), wf_text mid -> wf_text post ->
    forall r, concat post = concat mid ++ r -> exists post2, post = mid ++ post2.
  Proof.
    induction mid as [|c mid IH]; intros post Hm Hp r E; [exists post; reflexivity|].
    inversion Hm as [|x l Hc Hm']; subst. destruct post as [|c' post].
    - exfalso. cbn [concat] in E. pose proof (wf_nonempty c Hc) as Hn.
      apply (f_equal (@length N)) in E. rewrite !app_length in E. cbn [length] in E. lia.
    - inversion Hp as [|x l Hc' Hp']; subst. cbn [concat] in E. rewrite <- app_assoc in E.
      assert (Heq : c' = c).
      { apply (prefix_unique (c' ++ concat post) c' c Hc' Hc); [apply firstn_exact|rewrite E; apply firstn_exact]. }
      subst c'. apply app_inv_head in E. destruct (IH post Hm' Hp' r E) as [post2 H2]. exists post2. cbn [app]. rewrite H2. reflexivity.
  Qed.

  Lemma slice_tail (P c : list N) : slice (P ++ c) (length P) (length (P ++ c)) = c.
  Proof. rewrite app_length. rewrite <- (app_nil_r c) at 1. apply slice_mid. Qed.

  Lemma chars_suffix : forall mid pre : list (list N), wf_text mid -> wf_text pre ->
    forall r, concat pre = r ++ concat mid -> exists pre2, pre = pre2 ++ mid.
  Proof.
    induction mid as [|c mid IH] using rev_ind; intros pre Hm Hp r E; [exists pre; rewrite app_nil_r; reflexivity|].
    destruct (wf_app mid [c] Hm) as [Hm' Hc1]. inversion Hc1 as [|x l Hc _]; subst.
    rewrite concat_app in E. cbn [concat] in E. rewrite app_nil_r in E.
    destruct (rev pre) as [|c' rp] eqn:Er.
    - exfalso. assert (pre = []) by (rewrite <- (rev_involutive pre), Er; reflexivity). subst pre. cbn [concat] in E.
      pose proof (wf_nonempty c Hc). apply (f_equal (@length N)) in E. rewrite !app_length in E. cbn [length] in E. lia.
    - assert (Hpre : pre = rev rp ++ [c']) by (rewrite <- (rev_involutive pre), Er; reflexivity). subst pre.
      destruct (wf_app (rev rp) [c'] Hp) as [Hp' Hc2]. inversion Hc2 as [|x l Hc' _]; subst.
      rewrite concat_app in E. cbn [concat] in E. rewrite app_nil_r in E. rewrite app_assoc in E.
      assert (Heq : c' = c).
      { apply (suffix_unique_in (concat (rev rp) ++ c') (length (concat (rev rp))) (length (r ++ concat mid)) (length (concat (rev rp) ++ c')) c' c Hc' Hc);
          [lia|rewrite !app_length; lia|rewrite E, !app_length; lia|apply slice_tail|].
        rewrite E. apply slice_tail. }
      subst c'. apply app_inv_tail in E. destruct (IH (rev rp) Hm' Hp' r E) as [pre2 H2].
      exists pre2. rewrite H2, <- app_assoc. reflexivity.
  Qed.

  Lemma bnd_split q : okp q -> exists C D, cs = C ++ D /\ q = length (concat C) /\ wf_text C /\ wf_text D /\
    concat C = firstn q h /\ concat D = skipn q h.
  Proof.
    intros (C & D & E & Eq). exists C, D. rewrite E in Hw. destruct (wf_app C D Hw) as [HC HD].
    repeat split; try assumption.
    - rewrite E, concat_app, Eq. symmetry. apply firstn_exact.
    - rewrite E, concat_app, Eq. rewrite skipn_app, skipn_all, Nat.sub_diag. reflexivity.
  Qed.

  Lemma subrange_utf8 fwd p rs re e : okp p -> okp rs -> okp re -> subrange_eq fwd h p rs re = Ok (Some e) -> okp e.
  Proof.
    intros Hp Hrs Hre E. unfold subrange_eq in E.
    destruct (Nat.ltb_spec re rs) as [Hlt|Hle]; [discriminate|].
    destruct (Nat.ltb_spec (length h) re) as [Hlt2|Hle2]; [discriminate|].
    (* the captured stretch is a sequence of whole characters M *)
    destruct Hrs as (A & B & EA & Ers). destruct Hre as (A' & B' & EA' & Ere).
    assert (HwAB : wf_text (A ++ B)) by (rewrite <- EA; exact Hw).
    destruct (split_prefix A B A' B' HwAB (eq_trans (eq_sym EA) EA') ltac:(lia)) as [M HM]. subst A'.
    assert (HwM : wf_text M).
    { rewrite EA' in Hw. destruct (wf_app _ _ Hw) as [H1 _]. destruct (wf_app _ _ H1) as [_ H2]. exact H2. }
    assert (Hsl : slice h rs re = concat M).
    { rewrite EA', <- app_assoc, !concat_app. rewrite Ers, Ere, concat_app, app_length. apply slice_mid. }
    assert (HL : (re - rs)%nat = length (concat M)) by (rewrite Ere, Ers, concat_app, app_length; lia).
    destruct (bnd_split p Hp) as (C & D & EC & Ep & HwC & HwD & HfC & HsD).
    destruct fwd.
    - unfold try_move_right in E. destruct (p <=? length h)%nat; cbn [bindR] in E; [|discriminate].
      destruct (length h - p <? re - rs)%nat; [discriminate|]. cbn [bindR] in E.
      cbn [bindR] in E. destruct (bytes_eqb (slice h p (p + (re - rs))) (slice h rs re)) eqn:Eb; [|cbn in E; discriminate E]. injection E as He. subst e.
      apply bytes_eqb_eq in Eb. rewrite Hsl, slice_firstn, <- HsD, HL in Eb.
      destruct (chars_prefix M D HwM HwD (skipn (length (concat M)) (concat D))) as [D2 HD2].
      { rewrite <- Eb at 1. symmetry. apply firstn_skipn. }
      exists (C ++ M), D2. split; [rewrite EC, HD2, app_assoc; reflexivity|].
      rewrite concat_app, app_length, Ep, HL. reflexivity.
    - unfold try_move_left in E. destruct (Nat.ltb_spec p (re - rs)) as [Hlt3|Hge3]; cbn [bindR] in E; [discriminate|]. cbn [bindR] in E.
      destruct (bytes_eqb (slice h (p - (re - rs)) p) (slice h rs re)) eqn:Eb; [|cbn in E; discriminate E]. injection E as He. subst e.
      apply bytes_eqb_eq in Eb. rewrite Hsl in Eb.
      assert (Hcc : concat C = firstn (p - (re - rs)) (concat C) ++ concat M).
      { rewrite <- Eb. unfold slice. rewrite HfC. rewrite <- (firstn_skipn (p - (re - rs)) (firstn p h)) at 1.
        f_equal. rewrite skipn_firstn_comm. replace (p - (p - (re - rs)))%nat with (p - (p - (re - rs)))%nat by reflexivity. reflexivity. }
      destruct (chars_suffix M C HwM HwC _ Hcc) as [C2 HC2].
      exists C2, (M ++ D). split; [rewrite EC, HC2, <- app_assoc; reflexivity|].
      rewrite Ep, HC2, concat_app, app_length, HL. lia.
  Qed.

  Theorem text_ok_utf8 : text_ok u8 unicode h okp.
  Proof.
    split; [intros q Hq; apply (bnd_len cs q Hq)|]. split; [|split; [|split; [exact subrange_utf8|split; [|split; [|split]]]]].
    - (* K1 *) intros fwd p c p' Hp E. destruct fwd.
      + rewrite cnext_fwd in E. destruct (view_fwd cs p Hw Hp) as [_ Hn _ _|c0 b0 t Ec Hc Hq' Hn _ _ _ _ _]; rewrite Hn in E; inversion E; subst. exact Hq'.
      + rewrite cnext_bwd in E. destruct (view_bwd cs p Hw Hp) as [_ Hn _ _|c0 z q0 Hc Eq Hq0 _ Hn _ _ _ _ _]; rewrite Hn in E; inversion E; subst. exact Hq0.
    - (* K5 *) intros p p' Hp E. cbn [ix_next_right_pos utf8_indexer] in E.
      destruct (view_fwd cs p Hw Hp) as [_ _ _ Hn|c0 b0 t Ec Hc Hq' _ _ Hn _ _ _]; rewrite Hn in E; inversion E; subst. exact Hq'.
    - (* code points *) intros fwd p c p' Hp E.
      assert (Hs : is_scalar c = true).
      { destruct fwd.
        - rewrite cnext_fwd in E. destruct (view_fwd cs p Hw Hp) as [_ Hn _ _|c0 b0 t Ec Hc Hq' Hn _ _ _ _ _]; rewrite Hn in E; inversion E; subst.
          apply (wf_facts _ Hc).
        - rewrite cnext_bwd in E. destruct (view_bwd cs p Hw Hp) as [_ Hn _ _|c0 z q0 Hc Eq Hq0 _ Hn _ _ _ _ _]; rewrite Hn in E; inversion E; subst.
          apply (wf_facts _ Hc). }
      unfold is_scalar in Hs. apply andb_true_iff in Hs as [H1 _]. apply N.leb_le in H1. unfold CODE_POINT_MAX. exact H1.
    - (* byte -> element *) intros fwd q Hq. destruct fwd.
      + rewrite cnext_fwd. destruct (view_fwd cs q Hw Hq) as [_ Hn Hb _|c b0 t Ec Hc Hq' Hn Hb _ _ _ _]; rewrite Hb, Hn; [reflexivity|].
        destruct (N.ltb_spec b0 128) as [Hlt|Hge].
        * destruct (single_of_low c b0 t Hc Ec Hlt) as [E1 E2]. rewrite E1 in *. rewrite E2. cbn [length]. do 3 f_equal. lia.
        * eexists. eexists. split; [reflexivity|]. eapply high_dec; eauto.
      + rewrite cnext_bwd. destruct (view_bwd cs q Hw Hq) as [_ Hn Hb _|c z q0 Hc Eq Hq0 Ez Hn Hb _ _ _ _]; rewrite Hb, Hn; [reflexivity|].
        destruct (N.ltb_spec z 128) as [Hlt|Hge].
        * destruct (last_low c z Hc Ez Hlt) as [E1 E2]. subst c. rewrite E2. cbn [length] in Eq. subst q. do 3 f_equal. lia.
        * eexists. eexists. split; [reflexivity|]. eapply last_high; eauto.
    - (* element -> byte *) intros fwd q Hq. destruct fwd.
      + rewrite cnext_fwd. destruct (view_fwd cs q Hw Hq) as [_ Hn Hb _|c b0 t Ec Hc Hq' Hn Hb _ _ _ _]; rewrite Hb, Hn; [reflexivity|].
        destruct (N.ltb_spec (dec c) 128) as [Hlt|Hge].
        * destruct (N.lt_ge_cases b0 128) as [Hb0|Hb0]; [|pose proof (high_dec c b0 t Hc Ec Hb0); lia].
          destruct (single_of_low c b0 t Hc Ec Hb0) as [E1 E2]. rewrite E1 in *. rewrite E2. cbn [length]. do 3 f_equal. lia.
        * destruct (N.lt_ge_cases b0 128) as [Hb0|Hb0].
          -- destruct (single_of_low c b0 t Hc Ec Hb0) as [_ E2]. lia.
          -- eexists. eexists. split; [reflexivity|exact Hb0].
      + rewrite cnext_bwd. destruct (view_bwd cs q Hw Hq) as [_ Hn Hb _|c z q0 Hc Eq Hq0 Ez Hn Hb _ _ _ _]; rewrite Hb, Hn; [reflexivity|].
        destruct (N.ltb_spec (dec c) 128) as [Hlt|Hge].
        * destruct (N.lt_ge_cases z 128) as [Hz|Hz]; [|pose proof (last_high c z Hc Ez Hz); lia].
          destruct (last_low c z Hc Ez Hz) as [E1 E2]. subst c. rewrite E2. cbn [length] in Eq. subst q. do 3 f_equal. lia.
        * destruct (N.lt_ge_cases z 128) as [Hz|Hz].
          -- destruct (last_low c z Hc Ez Hz) as [_ E2]. lia.
          -- eexists. eexists. split; [reflexivity|exact Hz].
    - (* one-character steps can be undone *)
      intros body fwd s q q' H1 Hq Es Esq.
      destruct body; try discriminate H1; unfold single_step, leaf_code in Es.
      + inversion Es; subst s. cbn [run_insns] in Esq. unfold char_pike in Esq.
        destruct (next_if u8 fwd h q (N.eqb c)) as [e|[p1|]] eqn:En; try discriminate.
        cbn [run_insns] in Esq. inversion Esq; subst. eapply next_if_step; eauto.
      + unfold emit_char_set in Es. destruct cs0 as [|c0 cs0]; [discriminate H1|].
        destruct (4 <? length (c0 :: cs0))%nat; [discriminate|]. inversion Es; subst s.
        cbn [run_insns match1] in Esq.
        match type of Esq with context [next_if ?a ?b ?c ?d ?t] => destruct (next_if a b c d t) as [e|[p1|]] eqn:En end; try discriminate.
        cbn [run_insns] in Esq. inversion Esq; subst. eapply next_if_step; eauto.
      + inversion Es; subst s. cbn [run_insns match1] in Esq.
        match type of Esq with context [next_if ?a ?b ?c ?d ?t] => destruct (next_if a b c d t) as [e|[p1|]] eqn:En end; try discriminate.
        cbn [run_insns] in Esq. inversion Esq; subst. eapply next_if_step; eauto.
      + inversion Es; subst s. cbn [run_insns match1] in Esq.
        match type of Esq with context [next_if ?a ?b ?c ?d ?t] => destruct (next_if a b c d t) as [e|[p1|]] eqn:En end; try discriminate.
        cbn [run_insns] in Esq. inversion Esq; subst. eapply next_if_step; eauto.
      + destruct (bracket_as_ascii b) as [bm|].
        * inversion Es; subst s. cbn [run_insns match1] in Esq.
          destruct (byte_if fwd h q (ascii_bitmap_contains bm)) as [e|[p1|]] eqn:En; try discriminate.
          cbn [run_insns] in Esq. inversion Esq; subst. eapply (byte_if_step fwd q _ q'); [|exact Hq|exact En].
          intros v Hv. unfold ascii_bitmap_contains. replace (128 <=? v) with true by (symmetry; apply N.leb_le; exact Hv). reflexivity.
        * inversion Es; subst s.
          destruct (next_if u8 fwd h q (bracket_matches b)) as [e|[p1|]] eqn:En; try discriminate.
          inversion Esq; subst. eapply next_if_step; eauto.
  Qed.

  (* ---- a literal is its UTF-8 bytes ---- *)
  Lemma mb_fwd_at q c0 : okp q -> is_scalar c0 = true ->
    match_bytes true h q (utf8_encode c0) =
    match u8_next_right h q with
    | Ok (Some (c', q')) => Ok (if c0 =? c' then Some q' else None) | Ok None => Ok None | Err e => Err e end.
  Proof.
    intros Hq Hs. destruct (enc_wf c0 Hs) as [HwE HdE]. pose proof (wf_len _ HwE) as HlE.
    rewrite (mb_fwd_unfold h q _ (bnd_len cs q Hq)).
    destruct (view_fwd cs q Hw Hq) as [Hend Hn _ _|c b0 t Ec Hc Hq' Hn _ _ _ _ Hsl]; rewrite Hn.
    - replace (length h - q <? length (utf8_encode c0))%nat with true by (symmetry; apply Nat.ltb_lt; lia). reflexivity.
    - pose proof (bnd_len cs _ Hq') as Hle. destruct (N.eqb_spec c0 (dec c)) as [->|Hne].
      + destruct (wf_facts c Hc) as (_ & Henc & _). rewrite Henc.
        replace (length h - q <? length c)%nat with false by (symmetry; apply Nat.ltb_ge; lia).
        rewrite Hsl, bytes_eqb_refl. reflexivity.
      + destruct (Nat.ltb_spec (length h - q) (length (utf8_encode c0))) as [Hr|Hr]; [reflexivity|].
        destruct (bytes_eqb (utf8_encode c0) (slice h q (q + length (utf8_encode c0)))) eqn:Eb; [|reflexivity].
        exfalso. apply bytes_eqb_eq in Eb. rewrite slice_firstn in Eb, Hsl.
        pose proof (prefix_unique (skipn q h) (utf8_encode c0) c HwE Hc (eq_sym Eb) Hsl) as Heq.
        apply Hne. rewrite <- HdE, Heq. reflexivity.
  Qed.

  Lemma mb_bwd_at q c0 : okp q -> is_scalar c0 = true ->
    match_bytes false h q (utf8_encode c0) =
    match u8_next_left h q with
    | Ok (Some (c', q')) => Ok (if c0 =? c' then Some q' else None) | Ok None => Ok None | Err e => Err e end.
  Proof.
    intros Hq Hs. destruct (enc_wf c0 Hs) as [HwE HdE]. pose proof (wf_len _ HwE) as HlE.
    rewrite (mb_bwd_unfold h q _). pose proof (bnd_len cs q Hq) as Hql.
    destruct (view_bwd cs q Hw Hq) as [Hst Hn _ _|c z q0 Hc Eq Hq0 _ Hn _ _ _ _ Hsl]; rewrite Hn.
    - subst q. replace (0 <? length (utf8_encode c0))%nat with true by (symmetry; apply Nat.ltb_lt; lia). reflexivity.
    - destruct (N.eqb_spec c0 (dec c)) as [->|Hne].
      + destruct (wf_facts c Hc) as (_ & Henc & _). rewrite Henc.
        replace (q <? length c)%nat with false by (symmetry; apply Nat.ltb_ge; lia).
        replace (q - length c)%nat with q0 by lia. rewrite Hsl, bytes_eqb_refl. reflexivity.
      + destruct (Nat.ltb_spec q (length (utf8_encode c0))) as [Hr|Hr]; [reflexivity|].
        destruct (bytes_eqb (utf8_encode c0) (slice h (q - length (utf8_encode c0)) q)) eqn:Eb; [|reflexivity].
        exfalso. apply bytes_eqb_eq in Eb.
        pose proof (suffix_unique (q - length (utf8_encode c0)) q0 q (utf8_encode c0) c HwE Hc Hql ltac:(lia) ltac:(lia) (eq_sym Eb) Hsl) as Heq.
        apply Hne. rewrite <- HdE, Heq. reflexivity.
  Qed.

  Theorem text_enc_utf8 : text_enc u8 h okp.
  Proof.
    split.
    - intros fwd q c Hq Hs. unfold next_if. destruct fwd.
      + rewrite cnext_fwd, (mb_fwd_at q c Hq Hs). destruct (u8_next_right h q) as [e|[[c' q']|]]; cbn [bindR]; [exact I|reflexivity|reflexivity].
      + rewrite cnext_bwd, (mb_bwd_at q c Hq Hs). destruct (u8_next_left h q) as [e|[[c' q']|]]; cbn [bindR]; [exact I|reflexivity|reflexivity].
    - intros fwd q c e Hq Hs E. destruct text_ok_utf8 as (_ & Hk1 & _). destruct fwd.
      + rewrite (mb_fwd_at q c Hq Hs) in E. destruct (u8_next_right h q) as [e0|[[c' q']|]] eqn:En; try discriminate.
        destruct (c =? c'); inversion E; subst. eapply (Hk1 true q c' e Hq). rewrite cnext_fwd. exact En.
      + rewrite (mb_bwd_at q c Hq Hs) in E. destruct (u8_next_left h q) as [e0|[[c' q']|]] eqn:En; try discriminate.
        destruct (c =? c'); inversion E; subst. eapply (Hk1 false q c' e Hq). rewrite cnext_bwd. exact En.
  Qed.
End Utf8Text.
