(* PropTablesProofs.v — the Unicode property tables regenerated from src/unicodetables.rs against the
   reference sets (V8/ICU, Unicode 17): list equality per (name, value, alias), by vm_compute. *)
From Coq Require Import String.
From RV Require Import Base.
From RV.Model Require Import CodePointSet.
From RV.Gen Require Import PropTables.
From RV.Ref Require Import RefProps.

Definition table_eqb (a b : list (N * N)) : bool :=
  list_eqb (fun x y => (fst x =? fst y) && (snd x =? snd y)) a b.

Fixpoint assoc {A} (k : string) (l : list (string * A)) : option A :=
  match l with [] => None | (k', v) :: t => if String.eqb k k' then Some v else assoc k t end.

Definition tables_match (gen ref : list (string * list (N * N))) : bool :=
  Nat.eqb (length gen) (length ref) &&
  forallb (fun kt => match assoc (fst kt) ref with Some r => table_eqb (snd kt) r | None => false end) gen.

Lemma table_eqb_eq a b : table_eqb a b = true -> a = b.
Proof.
  revert b; induction a as [|[x1 x2] a IH]; intros [|[y1 y2] b] H; simpl in H; try discriminate; auto.
  apply andb_true_iff in H as [H1 H2]. apply andb_true_iff in H1 as [E1 E2]. simpl in E1, E2.
  apply N.eqb_eq in E1, E2. subst. f_equal. apply IH; assumption.
Qed.

Lemma tables_match_lookup gen ref : tables_match gen ref = true ->
  forall k t, In (k, t) gen -> assoc k ref = Some t.
Proof.
  intros H k t Hin. unfold tables_match in H. apply andb_true_iff in H as [_ H].
  rewrite forallb_forall in H. specialize (H _ Hin). simpl in H.
  destruct (assoc k ref) as [r|]; [|discriminate]. apply table_eqb_eq in H. subst. reflexivity.
Qed.

Lemma binary_match : tables_match binary_names ref_binary = true.
Proof. vm_compute. reflexivity. Qed.
Lemma gc_match : tables_match gc_names ref_gc = true.
Proof. vm_compute. reflexivity. Qed.
Lemma gc_named_match : tables_match gc_names ref_gc_named = true.
Proof. vm_compute. reflexivity. Qed.
Lemma sc_match : tables_match sc_names ref_sc = true.
Proof. vm_compute. reflexivity. Qed.
Lemma scx_match : tables_match scx_names ref_scx = true.
Proof. vm_compute. reflexivity. Qed.

Lemma all_tables_wf :
  forallb (fun kt => cps_wf (snd kt)) (binary_names ++ gc_names ++ sc_names ++ scx_names) = true.
Proof. vm_compute. reflexivity. Qed.

(* properties of strings: the same set of strings (order-insensitive) *)
Definition strs_subset (a b : list (list N)) : bool := forallb (fun s => existsb (list_eqb N.eqb s) b) a.
Definition strings_match (gen ref : list (string * list (list N))) : bool :=
  Nat.eqb (length gen) (length ref) &&
  forallb (fun kt => match assoc (fst kt) ref with
                     | Some r => strs_subset (snd kt) r && strs_subset r (snd kt)
                     | None => false end) gen.
