(* PikeTop.v — the PikeVM model against the IR semantics at the level of whole programs:
   one attempt (pk_run) returns the first success of ir_results, the search loop (pk_search) returns the
   leftmost such match, and both finish within a step count that exists whenever the IR semantics is
   defined (its own fuel suffices) — no budget outcome, no error outcome. *)
From RV Require Import Base.
From RV.Model Require Import Utf8 Indexer CodePointSet Insn IR Optimizer Unfold Emit Pike BT Exec.
From RV.Spec Require Import IRSem.
From RV.Proofs Require Import NodeInd PikeDen PikeCorrect.

Section Top.
  Variable ix : indexer.
  Variable prog : program.
  Variable h : hay.
  Variable utf16 : bool.

  (* the program is the code of [n0] followed by Goal, with the bracket table of its emission *)
  Variables (n0 : node) (code : list insn) (es' : estate) (rest : list insn).
  Hypothesis Hwf : ir_wf n0 = true.
  Hypothesis Hemit : emit_node utf16 (p_unicode prog) n0 0 false (mkES [] 0 0 []) = Ok (code, es').
  Hypothesis Hinsns : p_insns prog = code ++ rest.
  (* Goal follows the code, unless the node never succeeds *)
  Hypothesis Hgoal : nth_error rest 0 = Some Goal \/
                     (forall fuel x y l, ir_results ix (p_unicode prog) utf16 h fuel n0 true x <> Some (y :: l)).
  Hypothesis Hbrackets : p_brackets prog = es_brackets es'.

  Lemma top_code_at : code_at prog 0 code.
  Proof.
    intros i x Hi. simpl. rewrite Hinsns. rewrite nth_error_app1; auto. apply nth_error_Some. congruence.
  Qed.
  Lemma top_brackets : brackets_ok prog es'.
  Proof. intros i b Hb. rewrite Hbrackets. exact Hb. Qed.

  (* one attempt: a derivation whose outcome is the first success of the IR semantics *)
  Theorem pike_attempt fuel x l s0 :
    ir_results ix (p_unicode prog) utf16 h fuel n0 true x = Some l ->
    ps_ip s0 = 0%nat -> obs s0 = x -> ps_l1 s0 = 0 -> (es_next_loop es' <= length (ps_loops s0))%nat ->
    exists o, Den ix prog h true [s0] o /\ option_map obs o = hd_error l.
  Proof.
    intros Hr Hip Hobs Hl1 Hlen.
    destruct (all_ok ix prog h utf16 fuel n0 true 0%nat (mkES [] 0 0 []) code es' x l Hwf Hr Hemit top_code_at top_brackets
                     s0 Hip Hobs Hl1 Hlen) as (ss & S1 & S2 & S3).
    destruct ss as [|y ss].
    - exists None. split.
      + specialize (S3 [] None). simpl in S3. apply S3. constructor.
      + subst l. reflexivity.
    - exists (Some y). split.
      + specialize (S3 [] (Some y)). rewrite app_nil_r in S3. simpl in S3. apply S3.
        pose proof (Forall_inv S2) as (Q1 & _). simpl in Q1.
        assert (Hg : nth_error (p_insns prog) (ps_ip y) = Some Goal).
        { destruct Hgoal as [Hg|Hnever].
          - rewrite Q1, Hinsns. rewrite nth_error_app2 by lia. rewrite Nat.sub_diag. exact Hg.
          - exfalso. destruct l as [|y0 l0]; [discriminate S1|]. exact (Hnever _ _ _ _ Hr). }
        apply (D_complete ix prog h true y ss None).
        * constructor. unfold look_dir. rewrite Hg. reflexivity.
        * unfold pk_step. rewrite Hg. reflexivity.
      + subst l. reflexivity.
  Qed.

  (* ... hence the executable pk_run ends with that outcome after a fixed number of ticks *)
  Corollary pike_run fuel x l s0 :
    ir_results ix (p_unicode prog) utf16 h fuel n0 true x = Some l ->
    ps_ip s0 = 0%nat -> obs s0 = x -> ps_l1 s0 = 0 -> (es_next_loop es' <= length (ps_loops s0))%nat ->
    exists o f0 k, option_map obs o = hd_error l /\
      forall pfuel n budget, (f0 <= pfuel)%nat -> n + k <= budget ->
        pk_run ix prog h budget pfuel true [s0] n = (out_of o, n + k).
  Proof.
    intros Hr Hip Hobs Hl1 Hlen.
    destruct (pike_attempt fuel x l s0 Hr Hip Hobs Hl1 Hlen) as (o & Hd & Ho).
    destruct (den_pk_run ix prog h true [s0] o Hd) as (f0 & k & Hrun).
    exists o, f0, k. split; auto.
  Qed.

  (* the search loop of PikeVMExecutor::next_match against ir_search *)
  Definition result_of (r : option (nat * nat * list groupdata)) : xres unit :=
    match r with
    | None => XNone tt
    | Some (p0, e, gs) =>
        match next_start_after ix h p0 e with
        | Err er => XError er
        | Ok ns => XMatch (mkMatch p0 e (caps_of gs)) ns tt
        end
    end.

  Theorem pike_search fuel ngroups : forall tries p r s0,
    ir_search ix (p_unicode prog) utf16 h fuel n0 ngroups tries p = Some r ->
    ps_ip s0 = 0%nat -> ps_pos s0 = p -> ps_groups s0 = repeat gd_empty ngroups -> ps_l1 s0 = 0 ->
    (es_next_loop es' <= length (ps_loops s0))%nat ->
    exists f0 k, forall pfuel n budget, (f0 <= pfuel)%nat -> n + k <= budget ->
      pk_search ix prog h budget pfuel tries s0 n = (result_of r, n + k).
  Proof.
    induction tries as [|t IH]; intros p r s0 Hs Hip Hpos Hg Hl1 Hlen; [discriminate|].
    cbn [ir_search] in Hs.
    destruct (ir_results ix (p_unicode prog) utf16 h fuel n0 true (p, repeat gd_empty ngroups)) as [l|] eqn:Er; [|discriminate].
    assert (Hobs : obs s0 = (p, repeat gd_empty ngroups)) by (unfold obs; congruence).
    destruct (pike_run fuel _ l s0 Er Hip Hobs Hl1 Hlen) as (o & f1 & k1 & Ho & Hrun).
    destruct l as [|y l'].
    - (* no match here: move right *)
      destruct o as [sy|]; [discriminate|].
      destruct (ix_next_right_pos ix h p) as [e|[p'|]] eqn:En; [discriminate| |].
      + destruct (IH p' r (ps_set_pos s0 p') Hs) as (f2 & k2 & Hrest); auto.
        exists (Nat.max f1 f2), (k1 + k2). intros pfuel n budget Hf Hb.
        cbn [pk_search]. rewrite (Hrun pfuel n budget) by lia. cbn [out_of]. rewrite Hpos, En.
        rewrite (Hrest pfuel (n + k1) budget) by lia. f_equal. lia.
      + inversion Hs; subst r. exists f1, k1. intros pfuel n budget Hf Hb.
        cbn [pk_search]. rewrite (Hrun pfuel n budget) by lia. cbn [out_of]. rewrite Hpos, En. reflexivity.
    - destruct o as [sy|]; [|discriminate]. simpl in Ho. inversion Ho as [Hy]. inversion Hs; subst r.
      exists f1, k1. intros pfuel n budget Hf Hb.
      cbn [pk_search]. rewrite (Hrun pfuel n budget) by lia. cbn [out_of]. unfold pk_success, result_of.
      rewrite Hpos. unfold obs in Hy. rewrite <- Hy. simpl.
      destruct (next_start_after ix h p (ps_pos sy)); reflexivity.
  Qed.
End Top.

(* ---- instantiation for the programs emit produces: the top-level node is Cat [...; Goal] ---- *)
Lemma emit_cat_snoc utf16 unicode lb : forall l off es,
  emit_node utf16 unicode (NCat (l ++ [NGoal])) off lb es =
  match emit_node utf16 unicode (NCat l) off lb es with
  | Ok (c, e') => Ok (c ++ [Goal], e')
  | Err e => Err e
  end.
Proof.
  induction l as [|x l IH]; intros off es.
  - reflexivity.
  - change (emit_node utf16 unicode (NCat ((x :: l) ++ [NGoal])) off lb es)
      with (do rx <- emit_node utf16 unicode x off lb es;
            do rt <- emit_node utf16 unicode (NCat (l ++ [NGoal])) (off + length (fst rx))%nat lb (snd rx);
            Ok (fst rx ++ fst rt, snd rt)).
    change (emit_node utf16 unicode (NCat (x :: l)) off lb es)
      with (do rx <- emit_node utf16 unicode x off lb es;
            do rt <- emit_node utf16 unicode (NCat l) (off + length (fst rx))%nat lb (snd rx);
            Ok (fst rx ++ fst rt, snd rt)).
    destruct (emit_node utf16 unicode x off lb es) as [e|[cx ex]]; cbn [bindR fst snd]; [reflexivity|].
    rewrite IH. destruct (emit_node utf16 unicode (NCat l) (off + length cx) lb ex) as [e|[ct et]]; cbn [bindR fst snd]; [reflexivity|].
    rewrite app_assoc. reflexivity.
Qed.

Theorem pike_emit_correct ix h utf16 unicode ml n body prog names fuel tries p r :
  top_shape n body ->
  emit utf16 unicode ml n = Ok (prog, names) ->
  ir_wf (NCat body) = true ->
  ir_search ix unicode utf16 h fuel (NCat body) (p_groups prog) tries p = Some r ->
  exists f0 k, forall pfuel n budget, (f0 <= pfuel)%nat -> n + k <= budget ->
    pk_search ix prog h budget pfuel tries (pk_init_state prog p) n = (result_of ix h r, n + k).
Proof.
  intros Hshape He Hwf Hs. unfold emit in He.
  destruct (predicate_for_re n ml) as [e|sp]; cbn [bindR] in He; [discriminate|].
  destruct Hshape as [Hn | [[Hn Hb] | [Hn Hb]]].
  - (* Cat [body; Goal] *)
    subst n. rewrite emit_cat_snoc in He.
    destruct (emit_node utf16 unicode (NCat body) 0 false (mkES [] 0 0 [])) as [e|[c es']] eqn:Eb; cbn [bindR] in He; [discriminate|].
    cbn [fst snd] in He. inversion He; subst prog names. clear He.
    eapply (pike_search ix _ h utf16 (NCat body) c es' [Goal] Hwf); simpl; eauto.
    rewrite repeat_length. lia.
  - (* Goal alone *)
    subst n body. simpl in He. inversion He; subst prog names. clear He.
    eapply (pike_search ix _ h utf16 (NCat []) [] _ [Goal] Hwf); simpl; eauto.
  - (* a pattern that cannot match: the program is the single instruction JustFail *)
    subst n body. simpl in He. inversion He; subst prog names. clear He.
    eapply (pike_search ix _ h utf16 (NCat [NCharSet []]) [JustFail] _ [] Hwf); simpl; eauto.
    right. intros f x y l Hr. destruct f as [|f]; [discriminate|]. destruct x as [p0 gs0]. cbn [ir_results cat_results obindm] in Hr.
    destruct f as [|f]; [discriminate|]. cbn [ir_results leaf_code emit_char_set run_insns results_of] in Hr. discriminate.
Qed.
