(* PropStringsProofs.v — properties of strings (v flag): regress's sets equal the reference sets. *)
From RV Require Import Base.
From RV.Gen Require Import PropTables.
From RV.Ref Require Import RefProps.
From RV.Proofs Require Import PropTablesProofs.
Lemma strings_match_ref : strings_match string_names ref_strings = true.
Proof. vm_compute. reflexivity. Qed.
