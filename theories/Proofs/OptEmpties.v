(* OptEmpties.v — the remove_empties pass keeps the meaning of every node (up to repeated results: an alternation of
   two empty nodes succeeds twice with the same state, the empty node once). *)
From RV Require Import Base.
From RV.Model Require Import Utf8 Indexer CodePointSet Insn IR Optimizer Unfold Emit.
From RV.Spec Require Import IRSem IRShape.
From RV.Proofs Require Import NodeInd OptDD OptMono OptWalk OptRel OptDecat.

Definition ne (x : node) : bool := negb (is_empty_node x).

Lemma qok_filter : forall l, forallb qok l = true -> forallb qok (filter ne l) = true.
Proof.
  induction l as [|c l IH]; intro H; [reflexivity|]. cbn [forallb] in H. apply andb_true_iff in H as [Hc Hl].
  cbn [filter]. destruct (ne c); [cbn [forallb]; rewrite Hc; apply IH; exact Hl|apply IH; exact Hl].
Qed.

Lemma ng_filter : forall l, list_sum (map ng (filter ne l)) = list_sum (map ng l).
Proof.
  induction l as [|c l IH]; [reflexivity|]. cbn [filter map]. rewrite list_sum_cons.
  destruct c; cbn [ne is_empty_node negb]; try (cbn [map]; rewrite list_sum_cons, IH; reflexivity).
  rewrite IH. reflexivity.
Qed.

Section Empties.
  Variable ix : indexer.
  Variables unicode utf16 : bool.
  Variable h : hay.
  Variable okp : nat -> Prop.
  Notation IR := (ir_results ix unicode utf16 h).
  Notation ref := (ref ix unicode utf16 h okp).
  Notation al := (al ix unicode utf16 h okp).
  Notation PRel := (PRel ix unicode utf16 h okp).

  Lemma obindm_empty f fwd : forall xs ys, obindm (IR f NEmpty fwd) xs = Some ys -> ys = xs.
  Proof.
    induction xs as [|x xs IH]; intros ys E; cbn [obindm] in E; [inversion E; reflexivity|].
    destruct f as [|f]; [discriminate|]. rewrite ir_empty_eq in E.
    destruct (obindm (IR (S f) NEmpty fwd) xs) as [b|] eqn:Eb; [|discriminate].
    inversion E; subst. rewrite (IH b eq_refl). reflexivity.
  Qed.

  Lemma filter_fle f fwd : forall l,
    fle (cat_results (fun c => IR f c fwd) l) (cat_results (fun c => IR f c fwd) (filter ne l)).
  Proof.
    induction l as [|c l IHl]; intros xs r E; [exact E|]. cbn [cat_results] in E.
    destruct (obindm (IR f c fwd) xs) as [ys|] eqn:Eb; [|discriminate]. cbn [filter].
    destruct (ne c) eqn:Hc.
    - cbn [cat_results]. rewrite Eb. apply IHl. exact E.
    - destruct c; try discriminate Hc. rewrite (obindm_empty f fwd xs ys Eb) in E. apply IHl. exact E.
  Qed.

  Lemma ref_filter fwd l : ref fwd (NCat l) (NCat (filter ne l)).
  Proof.
    split; [|apply rstep_nol1; reflexivity].
    apply (rres_fle ix unicode utf16 h okp fwd _ _ 0%nat). intros [|f] x r E; [discriminate|].
    rewrite Nat.add_0_r. rewrite ir_cat_eq in *. apply filter_fle. exact E.
  Qed.

  Lemma ref_byteseq_nil fwd : ref fwd (NByteSequence []) NEmpty.
  Proof.
    split; [|apply rstep_nol1; reflexivity].
    apply (rres_fle ix unicode utf16 h okp fwd _ _ 0%nat). intros [|f] [p G] r E; [discriminate|].
    rewrite Nat.add_0_r. rewrite ir_empty_eq. destruct fwd; exact E.
  Qed.

  Lemma ref_alt_empty fwd : ref fwd (NAlt NEmpty NEmpty) NEmpty.
  Proof.
    split; [|apply rstep_nol1; reflexivity].
    exists 0%nat. intros [|f] x r _ E; [discriminate|]. rewrite Nat.add_0_r. rewrite ir_alt_eq in E.
    destruct f as [|f]; [discriminate|]. rewrite ir_empty_eq in E. inversion E; subst.
    exists [x]. split; [apply ir_empty_eq|apply (dd_twice [x])].
  Qed.

  Lemma ref_look_empty fwd bw sg eg : ref fwd (NLookaround false bw sg eg NEmpty) NEmpty.
  Proof.
    split; [|apply rstep_nol1; reflexivity].
    apply (rres_fle ix unicode utf16 h okp fwd _ _ 0%nat). intros [|f] [p G] r E; [discriminate|].
    rewrite Nat.add_0_r. rewrite ir_empty_eq. cbn [ir_results] in E.
    destruct f as [|f]; [discriminate|]. rewrite ir_empty_eq in E. exact E.
  Qed.

  (* a loop over a body that succeeds once without moving or touching the groups *)
  Lemma empty_loop (bodyf : mst -> option (list mst)) mn mx gr egs ege :
    (forall x, bodyf x = Some [x]) -> mn <= max_val mx -> (ege - egs = 0)%nat ->
    forall lf k entry y r, (k = 0 \/ entry = fst y) ->
    loop_results bodyf mn mx gr egs ege lf k entry y = Some r -> r = if k <=? mn then [y] else [].
  Proof.
    intros Hbody Hmm Hz. induction lf as [|lf IH]; intros k entry [q G] r Hk E; [discriminate|].
    cbn [loop_results] in E. rewrite Hz in E. cbn [reset_groups fst snd] in E. rewrite Hbody in E.
    rewrite obindm_single in E. cbn [fst] in Hk.
    destruct (N.leb_spec k mn) as [Hle|Hgt].
    - replace ((0 <? k) && (mn <? k) && (entry =? q)%nat) with false in E
        by (symmetry; replace (mn <? k) with false by (symmetry; apply N.ltb_ge; lia); rewrite andb_false_r; reflexivity).
      destruct (N.ltb_spec k (max_val mx)) as [He|He]; cbn [negb andb] in E.
      + destruct (N.leb_spec mn k) as [Hs|Hs]; cbn [negb] in E.
        * destruct (loop_results bodyf mn mx gr egs ege lf (k + 1) q (q, G)) as [it|] eqn:El; [|discriminate].
          pose proof (IH (k + 1) q (q, G) it (or_intror eq_refl) El) as Hit.
          replace (k + 1 <=? mn) with false in Hit by (symmetry; apply N.leb_gt; lia). subst it.
          inversion E; subst. destruct gr; reflexivity.
        * pose proof (IH (k + 1) q (q, G) r (or_intror eq_refl) E) as Hit.
          replace (k + 1 <=? mn) with true in Hit by (symmetry; apply N.leb_le; lia). exact Hit.
      + replace (mn <=? k) with true in E by (symmetry; apply N.leb_le; lia). cbn [negb] in E.
        inversion E; reflexivity.
    - assert (Hent : entry = q) by (destruct Hk as [Hk|Hk]; [lia|exact Hk]). subst entry.
      replace (0 <? k) with true in E by (symmetry; apply N.ltb_lt; lia).
      replace (mn <? k) with true in E by (symmetry; apply N.ltb_lt; lia).
      rewrite Nat.eqb_refl in E. cbn [andb] in E. inversion E; reflexivity.
  Qed.

  Lemma ref_loop_empty fwd mn mx gr egs ege : mn <= max_val mx -> (ege - egs = 0)%nat ->
    ref fwd (NLoop NEmpty mn mx gr egs ege) NEmpty.
  Proof.
    intros Hmm Hz. split; [|apply rstep_nol1; reflexivity].
    apply (rres_fle ix unicode utf16 h okp fwd _ _ 0%nat). intros [|f] x r E; [discriminate|].
    rewrite Nat.add_0_r. rewrite ir_empty_eq. rewrite ir_loop_eq in E.
    destruct f as [|f]; [discriminate|].
    rewrite (empty_loop (IR (S f) NEmpty fwd) mn mx gr egs ege (fun x0 => ir_empty_eq ix unicode utf16 h f fwd x0) Hmm Hz
               (S f) 0 (fst x) x r (or_introl eq_refl) E).
    destruct mn; reflexivity.
  Qed.

  Lemma ref_loop_max0 fwd body gr egs ege : ref fwd (NLoop body 0 (Some 0) gr egs ege) NEmpty.
  Proof.
    split; [|apply rstep_nol1; reflexivity].
    apply (rres_fle ix unicode utf16 h okp fwd _ _ 0%nat). intros [|f] x r E; [discriminate|].
    rewrite Nat.add_0_r. rewrite ir_empty_eq. rewrite ir_loop_eq in E.
    destruct f as [|f]; [discriminate|]. cbn in E. exact E.
  Qed.

  Lemma al_filter : forall l, Forall al l -> Forall al (filter ne l).
  Proof. induction 1 as [|c l Hc Hl IH]; [constructor|]. cbn [filter]. destruct (ne c); [constructor; assumption|exact IH]. Qed.

  Lemma empties_sound lb n a : remove_empties lb n = Ok a -> PRel lb n (act_node a n).
  Proof.
    intros E. destruct n; try (inversion E; subst; apply PRel_refl).
    - (* ByteSequence *)
      destruct bs; inversion E; subst; [|apply PRel_refl].
      intros Hq Ha. split; [apply ref_byteseq_nil|split; [reflexivity|split; [apply al_empty|reflexivity]]].
    - (* Cat *)
      cbn [remove_empties] in E. fold ne in E.
      destruct (length (filter ne l) =? length l)%nat; [inversion E; subst; apply PRel_refl|].
      assert (Hf : PRel lb (NCat l) (NCat (filter ne l))).
      { intros Hq Ha. split; [apply ref_filter|]. split; [apply qok_filter; exact Hq|].
        split; [apply al_cat; apply al_filter; apply al_cat; exact Ha|apply ng_filter]. }
      destruct (filter ne l) as [|x [|y t]] eqn:Ek; inversion E; subst; cbn [act_node].
      + eapply PRel_trans; [exact Hf|]. intros Hq Ha. split; [apply ref_cat_nil|split; [reflexivity|split; [apply al_empty|reflexivity]]].
      + eapply PRel_trans; [exact Hf|]. intros Hq Ha. split; [apply ref_cat_single|].
        cbn [qok forallb] in Hq. rewrite andb_true_r in Hq. split; [exact Hq|].
        split; [apply al_cat in Ha; inversion Ha; assumption|].
        cbn [ng map]. rewrite list_sum_cons. cbn [list_sum fold_right]. lia.
      + exact Hf.
    - (* Alt *)
      cbn [remove_empties] in E.
      destruct n1; try (inversion E; subst; apply PRel_refl).
      destruct n2; try (inversion E; subst; apply PRel_refl).
      inversion E; subst. intros Hq Ha. split; [apply ref_alt_empty|split; [reflexivity|split; [apply al_empty|reflexivity]]].
    - (* Lookaround *)
      cbn [remove_empties] in E. destruct negate; cbn [negb andb] in E; [inversion E; subst; apply PRel_refl|].
      destruct n; try (inversion E; subst; apply PRel_refl).
      inversion E; subst. intros Hq Ha. split; [apply ref_look_empty|split; [reflexivity|split; [apply al_empty|reflexivity]]].
    - (* Loop *)
      cbn [remove_empties] in E.
      destruct (is_empty_node n || (match max with Some 0 => true | _ => false end) && (egs =? ege)%nat) eqn:Hc;
        inversion E; subst; [|apply PRel_refl].
      intros Hq Ha. cbn [act_node]. cbn [qok] in Hq.
      apply andb_true_iff in Hq as [Hq1 Hq3]. apply andb_true_iff in Hq1 as [Hq1 Hq2].
      apply N.leb_le in Hq2. apply Nat.eqb_eq in Hq3.
      destruct n; cbn [is_empty_node orb] in Hc;
        try (split; [apply ref_loop_empty; [exact Hq2|exact Hq3]|split; [reflexivity|split; [apply al_empty|reflexivity]]]);
        (destruct max as [[|mxp]|]; try discriminate Hc; cbn [andb] in Hc; apply Nat.eqb_eq in Hc; subst ege;
         cbn [max_val] in Hq2; assert (min = 0) by lia; subst min;
         split; [apply ref_loop_max0|split; [reflexivity|split; [apply al_empty|rewrite Nat.sub_diag in Hq3; exact Hq3]]]).
  Qed.

  Theorem empties_pass_sound fuel n n' : run_to_fixpoint remove_empties fuel n = Ok n' -> PRel false n n'.
  Proof. apply pass_sound. exact empties_sound. Qed.
End Empties.
