(* BTDen.v — relational (fuel-free) presentation of the backtracking model and its link to the executable
   bt_run: a derivation gives termination with that outcome for all sufficient fuel/budget. *)
From RV Require Import Base.
From RV.Model Require Import Utf8 Indexer Insn BT.

Section BDen.
  Variable ix : indexer.
  Variable prog : program.
  Variable h : hay.

  Definition blook_dir (c : bconf) : option bool :=
    match bc_mode c with
    | MRun ip _ =>
        match nth_error (p_insns prog) ip with
        | Some (Lookahead _ _ _ _) => Some true
        | Some (Lookbehind _ _ _ _) => Some false
        | _ => None
        end
    | MBack => None
    end.

  (* one iteration of try_at_pos's loop, given the outcome of the nested attempt of a lookaround *)
  Definition bt_next (nres : boutcome) (fwd : bool) (c : bconf) : bstep :=
    match bc_mode c with
    | MBack => bt_back ix prog h (bc_loops c) (bc_groups c) (bc_bts c) fwd
    | MRun ip pos => bt_exec ix prog h nres (bc_loops c) (bc_groups c) (bc_bts c) fwd ip pos
    end.

  Definition nested_conf (c : bconf) : bconf :=
    match bc_mode c with
    | MRun ip pos => mkBC (MRun (S ip) pos) (bc_loops c) (bc_groups c) [BExhausted]
    | MBack => c
    end.

  Inductive BDen : bool -> bconf -> boutcome -> Prop :=
  | BD_done fwd c nres o : BNested c nres -> bt_next nres fwd c = BSDone o -> BDen fwd c o
  | BD_step fwd c nres c' o : BNested c nres -> bt_next nres fwd c = BSNext c' -> BDen fwd c' o -> BDen fwd c o
  with BNested : bconf -> boutcome -> Prop :=
  | BN_plain c : blook_dir c = None -> BNested c BBudget
  | BN_look c d nres : blook_dir c = Some d -> BDen d (nested_conf c) nres -> BNested c nres.

  Scheme BDen_mind := Induction for BDen Sort Prop
    with BNested_mind := Induction for BNested Sort Prop.
  Combined Scheme BDen_BNested_mind from BDen_mind, BNested_mind.

  (* c leads to c': every outcome of c' is an outcome of c *)
  Definition leads (fwd : bool) (c c' : bconf) : Prop := forall o, BDen fwd c' o -> BDen fwd c o.

  Lemma leads_refl fwd c : leads fwd c c. Proof. intros o H; exact H. Qed.
  Lemma leads_trans fwd a b c : leads fwd a b -> leads fwd b c -> leads fwd a c.
  Proof. intros H1 H2 o H. apply H1, H2, H. Qed.

  Lemma leads_step fwd c c' : blook_dir c = None -> bt_next BBudget fwd c = BSNext c' -> leads fwd c c'.
  Proof. intros Hl E o H. eapply BD_step; eauto. constructor; assumption. Qed.

  Lemma leads_look fwd c d nres c' : blook_dir c = Some d -> BDen d (nested_conf c) nres ->
    bt_next nres fwd c = BSNext c' -> leads fwd c c'.
  Proof. intros Hl Hn E o H. eapply BD_step; eauto. econstructor 2; eauto. Qed.
End BDen.

(* ---- link to the executable bt_run ---- *)
Section Run.
  Variable ix : indexer.
  Variable prog : program.
  Variable h : hay.

  Definition bruns_to (fwd : bool) (c : bconf) (o : boutcome) (f0 : nat) (k : N) : Prop :=
    forall fuel n budget, (f0 <= fuel)%nat -> n + k <= budget ->
      bt_run ix prog h budget fuel fwd c n = (o, n + k).

  Definition bnested_runs_to (c : bconf) (nres : boutcome) (f0 : nat) (k : N) : Prop :=
    match blook_dir prog c with
    | Some d => bruns_to d (nested_conf c) nres f0 k
    | None => nres = BBudget /\ k = 0
    end.

  Lemma bt_run_unfold budget f fwd c n :
    bt_run ix prog h budget (S f) fwd c n =
    let n1 := n + 1 in
    if budget <? n1 then (BBudget, n1) else
    let '(nres, n2) := match blook_dir prog c with
                       | Some d => bt_run ix prog h budget f d (nested_conf c) n1
                       | None => (BBudget, n1)
                       end in
    match bt_next ix prog h nres fwd c with
    | BSDone o => (o, n2)
    | BSNext c' => bt_run ix prog h budget f fwd c' n2
    end.
  Proof.
    cbn [bt_run]. destruct (budget <? n + 1); [reflexivity|].
    unfold blook_dir, bt_next, nested_conf. destruct (bc_mode c) as [ip pos|]; [|reflexivity].
    destruct (nth_error (p_insns prog) ip) as [i|]; [destruct i|]; reflexivity.
  Qed.

  Lemma bden_terminates :
    (forall fwd c o, BDen ix prog h fwd c o -> exists f0 k, bruns_to fwd c o f0 k) /\
    (forall c nres, BNested ix prog h c nres -> exists f0 k, bnested_runs_to c nres f0 k).
  Proof.
    apply BDen_BNested_mind.
    - intros fwd c nres o Hn (f1 & k1 & IHn) E.
      exists (S f1), (1 + k1). intros fuel n budget Hf Hb. destruct fuel as [|f]; [lia|].
      rewrite bt_run_unfold. cbv zeta. assert (budget <? n + 1 = false) as -> by (apply N.ltb_ge; lia).
      unfold bnested_runs_to in IHn. destruct (blook_dir prog c) as [d|].
      + rewrite (IHn f (n + 1) budget) by lia. rewrite E. f_equal; lia.
      + destruct IHn as [-> ->]. rewrite E. f_equal; lia.
    - intros fwd c nres c' o Hn (f1 & k1 & IHn) E Hd (f2 & k2 & IHd).
      exists (S (Nat.max f1 f2)), (1 + k1 + k2). intros fuel n budget Hf Hb. destruct fuel as [|f]; [lia|].
      rewrite bt_run_unfold. cbv zeta. assert (budget <? n + 1 = false) as -> by (apply N.ltb_ge; lia).
      unfold bnested_runs_to in IHn. destruct (blook_dir prog c) as [d|].
      + rewrite (IHn f (n + 1) budget) by lia. rewrite E. rewrite (IHd f (n + 1 + k1) budget) by lia. f_equal; lia.
      + destruct IHn as [-> ->]. rewrite E. rewrite (IHd f (n + 1) budget) by lia. f_equal; lia.
    - intros c E. exists 0%nat, 0. unfold bnested_runs_to. rewrite E. split; reflexivity.
    - intros c d nres E Hd (f1 & k1 & IHd). exists f1, k1. unfold bnested_runs_to. rewrite E. exact IHd.
  Qed.

  Corollary bden_bt_run fwd c o : BDen ix prog h fwd c o ->
    exists f0 k, forall fuel n budget, (f0 <= fuel)%nat -> n + k <= budget ->
      bt_run ix prog h budget fuel fwd c n = (o, n + k).
  Proof. intro H. destruct (proj1 bden_terminates fwd c o H) as (f0 & k & Hr). exists f0, k. exact Hr. Qed.
End Run.
