(* BTShape.v — emit allocates exactly nloops slots; lslot is false outside a node's slot range. *)
From RV Require Import Base.
From RV.Model Require Import Utf8 Indexer CodePointSet Insn IR Optimizer Unfold Emit.
From RV.Spec Require Import IRShape.
From RV.Proofs Require Import NodeInd.

Lemma emit_nloops utf16 unicode n : forall off lb es code es',
  emit_node utf16 unicode n off lb es = Ok (code, es') -> es_next_loop es' = (es_next_loop es + nloops n)%nat.
Proof.
  induction n using node_ind2; intros off lb es code es' E.
  - destruct n; try contradiction; simpl in E;
      repeat match type of E with
             | (do _ <- ?r; _) = Ok _ => destruct r eqn:?; simpl in E; try discriminate
             | match ?r with _ => _ end = Ok _ => destruct r eqn:?; simpl in E; try discriminate
             | (if ?c then _ else _) = Ok _ => destruct c eqn:?; simpl in E; try discriminate
             end; inversion E; subst; simpl; lia.
  - revert off es code es' E. induction H as [|x l Hx Hl IH]; intros off es code es' E; simpl in E.
    + inversion E; subst. simpl. lia.
    + destruct (emit_node utf16 unicode x off lb es) as [e|[cx ex]] eqn:Ex; simpl in E; [discriminate|].
      match type of E with (do rt <- ?r; _) = _ => destruct r as [e|[ct et]] eqn:Et; simpl in E; [discriminate|] end.
      inversion E; subst. rewrite (IH _ _ _ _ Et), (Hx _ _ _ _ _ Ex). simpl. lia.
  - simpl in E.
    destruct (emit_node utf16 unicode n1 (S off) lb es) as [e|[ca ea]] eqn:Ea; simpl in E; [discriminate|].
    destruct (emit_node utf16 unicode n2 (off + 2 + length ca) lb ea) as [e|[cb eb]] eqn:Eb; simpl in E; [discriminate|].
    inversion E; subst. rewrite (IHn2 _ _ _ _ _ Eb), (IHn1 _ _ _ _ _ Ea). simpl. lia.
  - simpl in E.
    match type of E with (do rc <- ?r; _) = _ => destruct r as [e|[cc ec]] eqn:Ec; simpl in E; [discriminate|] end.
    inversion E; subst. rewrite (IHn _ _ _ _ _ Ec). simpl. lia.
  - simpl in E.
    match type of E with (do rc <- ?r; _) = _ => destruct r as [e|[cc ec]] eqn:Ec; simpl in E; [discriminate|] end.
    inversion E; subst. rewrite (IHn _ _ _ _ _ Ec). simpl. lia.
  - simpl in E.
    match type of E with (do rc <- ?r; _) = _ => destruct r as [e|[cc ec]] eqn:Ec; simpl in E; [discriminate|] end.
    inversion E; subst. rewrite (IHn _ _ _ _ _ Ec). simpl. lia.
  - simpl in E.
    match type of E with (do rc <- ?r; _) = _ => destruct r as [e|[cc ec]] eqn:Ec; simpl in E; [discriminate|] end.
    inversion E; subst. rewrite (IHn _ _ _ _ _ Ec). simpl. lia.
Qed.

Lemma lslot_range i n : forall lo, lslot i n lo = true -> (lo <= i < lo + nloops n)%nat.
Proof.
  induction n using node_ind2; intros lo Hs.
  - destruct n; try contradiction; simpl in Hs; discriminate.
  - revert lo Hs. induction H as [|x l Hx Hl IH]; intros lo Hs; simpl in Hs; [discriminate|].
    apply orb_true_iff in Hs as [Hs|Hs].
    + apply Hx in Hs. simpl. lia.
    + apply IH in Hs. simpl in *. lia.
  - simpl in Hs. apply orb_true_iff in Hs as [Hs|Hs]; [apply IHn1 in Hs|apply IHn2 in Hs]; simpl; lia.
  - simpl in Hs. apply IHn in Hs. simpl. lia.
  - simpl in Hs. apply andb_true_iff in Hs as [H1 H2]. apply Nat.leb_le in H1. apply Nat.ltb_lt in H2. simpl. lia.
  - simpl in Hs. apply IHn in Hs. simpl. lia.
  - simpl in Hs. discriminate.
Qed.

Lemma lslot_out i n lo : (i < lo \/ lo + nloops n <= i)%nat -> lslot i n lo = false.
Proof.
  intro H. destruct (lslot i n lo) eqn:E; [|reflexivity]. apply lslot_range in E. lia.
Qed.
