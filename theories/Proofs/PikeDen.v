(* PikeDen.v — relational (fuel-free) presentation of the PikeVM model, its algebra, and its link to
   the executable pk_run: a derivation gives termination with that outcome for all sufficient fuel/budget. *)
From RV Require Import Base.
From RV.Model Require Import Utf8 Indexer Insn Pike.

Section Den.
  Variable ix : indexer.
  Variable prog : program.
  Variable h : hay.

  Definition look_dir (s : pstate) : option bool :=
    match nth_error (p_insns prog) (ps_ip s) with
    | Some (Lookahead _ _ _ _) => Some true
    | Some (Lookbehind _ _ _ _) => Some false
    | _ => None
    end.

  Definition out_of (o : option pstate) : poutcome := match o with Some s => PMatched s | None => PNoMatch end.

  Definition push (m : smatch) (K : list pstate) : list pstate :=
    match m with
    | PFail => K
    | PContinue s' => s' :: K
    | PSplit cur new => new :: cur :: K
    | PComplete => K
    end.

  (* Den fwd stack o: the depth-first run of the stack ends with o (Some s = matched in state s). *)
  Inductive Den : bool -> list pstate -> option pstate -> Prop :=
  | D_nil fwd : Den fwd [] None
  | D_complete fwd s K nres :
      Nested s nres ->
      pk_step ix prog h (fun _ _ => out_of nres) fwd s = inr PComplete -> Den fwd (s :: K) (Some s)
  | D_step fwd s K o nres m :
      Nested s nres ->
      pk_step ix prog h (fun _ _ => out_of nres) fwd s = inr m -> m <> PComplete ->
      Den fwd (push m K) o -> Den fwd (s :: K) o
  (* the nested attempt a lookaround instruction runs before the step (None for other instructions) *)
  with Nested : pstate -> option pstate -> Prop :=
  | N_plain s : look_dir s = None -> Nested s None
  | N_look s d nres : look_dir s = Some d -> Den d [ps_set_ip s (S (ps_ip s))] nres -> Nested s nres.

  Scheme Den_mind := Induction for Den Sort Prop
    with Nested_mind := Induction for Nested Sort Prop.
  Combined Scheme Den_Nested_mind from Den_mind, Nested_mind.

  Lemma Den_Nested_det :
    (forall fwd S o1, Den fwd S o1 -> forall o2, Den fwd S o2 -> o1 = o2) /\
    (forall s r1, Nested s r1 -> forall r2, Nested s r2 -> r1 = r2).
  Proof.
    apply Den_Nested_mind.
    - intros fwd o2 H. inversion H. reflexivity.
    - intros fwd s K nres Hn IHn E o2 H. inversion H; subst; auto.
      match goal with h : Nested s ?n2 |- _ => rewrite <- (IHn n2 h) in * end. congruence.
    - intros fwd s K o nres m Hn IHn E Hm Hd IHd o2 H. inversion H; subst.
      + match goal with h : Nested s ?n2 |- _ => rewrite <- (IHn n2 h) in * end. congruence.
      + match goal with h : Nested s ?n2 |- _ => rewrite <- (IHn n2 h) in * end.
        match goal with h1 : pk_step _ _ _ _ _ s = inr ?m1, h2 : pk_step _ _ _ _ _ s = inr ?m2 |- _ =>
          rewrite h1 in h2; inversion h2; subst end.
        apply IHd. assumption.
    - intros s E r2 H. inversion H; subst; auto. congruence.
    - intros s d nres E Hd IHd r2 H. inversion H; subst; [congruence|].
      match goal with h1 : look_dir s = Some ?d1, h2 : look_dir s = Some ?d2 |- _ => rewrite h1 in h2; inversion h2; subst end.
      apply IHd. assumption.
  Qed.

  Lemma push_app m K1 K2 : push m (K1 ++ K2) = push m K1 ++ K2.
  Proof. destruct m; reflexivity. Qed.

  Lemma Den_app_none fwd S1 : Den fwd S1 None -> forall S2 o, Den fwd S2 o -> Den fwd (S1 ++ S2) o.
  Proof.
    intros H. remember None as r eqn:E. induction H; intros S2 o2 HS2; simpl; try discriminate.
    - exact HS2.
    - eapply D_step; eauto. rewrite push_app. eauto.
  Qed.

  Lemma Den_app_some fwd S1 r : Den fwd S1 (Some r) -> forall S2, Den fwd (S1 ++ S2) (Some r).
  Proof.
    intros H. remember (Some r) as o eqn:E. induction H; intros S2; simpl; try discriminate.
    - inversion E; subst. eapply D_complete; eauto.
    - eapply D_step; eauto. rewrite push_app. eauto.
  Qed.

  Lemma Den_app_split fwd S1 : forall S2 o, Den fwd (S1 ++ S2) o ->
    (exists r, Den fwd S1 (Some r) /\ o = Some r) \/ (Den fwd S1 None /\ Den fwd S2 o).
  Proof.
    intros S2 o H. remember (S1 ++ S2) as S eqn:E. revert S1 S2 E.
    induction H; intros S1 S2 E.
    - destruct S1; [|discriminate]. right. split; [constructor|]. simpl in E. subst. constructor.
    - destruct S1 as [|x S1].
      + right. split; [constructor|]. simpl in E. subst. eapply D_complete; eauto.
      + inversion E; subst. left. exists x. split; [eapply D_complete; eauto|reflexivity].
    - destruct S1 as [|x S1].
      + right. split; [constructor|]. simpl in E. subst. eapply D_step; eauto.
      + inversion E; subst.
        destruct (IHDen (push m S1) S2 (push_app m S1 S2)) as [(q & Hq & ->)|(Hnn & HS2)].
        * left. exists q. split; auto. eapply D_step; eauto.
        * right. split; auto. eapply D_step; eauto.
  Qed.

  Definition onto (fwd : bool) (S S' : list pstate) := forall K o, Den fwd (S' ++ K) o -> Den fwd (S ++ K) o.

  Lemma onto_refl fwd S : onto fwd S S. Proof. intros K o H; exact H. Qed.
  Lemma onto_trans fwd A B C : onto fwd A B -> onto fwd B C -> onto fwd A C.
  Proof. intros H1 H2 K o H. apply H1, H2, H. Qed.
  Lemma onto_app fwd S S' T T' : onto fwd S S' -> onto fwd T T' -> onto fwd (S ++ T) (S' ++ T').
  Proof.
    intros HS HT K o H. rewrite <- app_assoc in *.
    apply HS. destruct (Den_app_split fwd S' _ _ H) as [(r & Hr & ->)|(Hn & HS2)].
    - now apply Den_app_some.
    - apply Den_app_none; auto.
  Qed.
  Lemma onto_concat fwd S SS : Forall2 (fun s ss => onto fwd [s] ss) S SS -> onto fwd S (concat SS).
  Proof.
    induction 1; simpl. apply onto_refl.
    change (x :: l) with ([x] ++ l). apply onto_app; auto.
  Qed.

  (* one plain (non-lookaround, non-Goal) step *)
  Lemma onto_step fwd s m : look_dir s = None ->
    pk_step ix prog h (fun _ _ => PNoMatch) fwd s = inr m -> m <> PComplete -> onto fwd [s] (push m []).
  Proof.
    intros El E Hm K o H. simpl. eapply (D_step fwd s K o None m).
    - constructor; assumption.
    - exact E.
    - exact Hm.
    - destruct m; simpl in *; exact H.
  Qed.

  (* a lookaround step, given the outcome of its nested attempt *)
  Lemma onto_look fwd s d nres m : look_dir s = Some d -> Den d [ps_set_ip s (S (ps_ip s))] nres ->
    pk_step ix prog h (fun _ _ => out_of nres) fwd s = inr m -> m <> PComplete -> onto fwd [s] (push m []).
  Proof.
    intros El Hn E Hm K o H. simpl. eapply (D_step fwd s K o nres m).
    - econstructor 2; eauto.
    - exact E.
    - exact Hm.
    - destruct m; simpl in *; exact H.
  Qed.
End Den.

(* ---- link to the executable pk_run: a derivation means termination with that outcome ---- *)
Section Run.
  Variable ix : indexer.
  Variable prog : program.
  Variable h : hay.

  Definition runs_to (fwd : bool) (S : list pstate) (o : option pstate) (f0 : nat) (k : N) : Prop :=
    forall fuel n budget, (f0 <= fuel)%nat -> n + k <= budget ->
      pk_run ix prog h budget fuel fwd S n = (out_of o, n + k).

  Definition nested_runs_to (s : pstate) (nres : option pstate) (f0 : nat) (k : N) : Prop :=
    match look_dir prog s with
    | Some d => runs_to d [ps_set_ip s (S (ps_ip s))] nres f0 k
    | None => nres = None /\ k = 0
    end.

  Lemma den_terminates :
    (forall fwd S o, Den ix prog h fwd S o -> exists f0 k, runs_to fwd S o f0 k) /\
    (forall s nres, Nested ix prog h s nres -> exists f0 k, nested_runs_to s nres f0 k).
  Proof.
    apply Den_Nested_mind.
    - intros fwd. exists 1%nat, 0. intros fuel n budget Hf Hb. destruct fuel; [lia|]. simpl. f_equal. lia.
    - intros fwd s K nres Hn (f1 & k1 & IHn) E.
      exists (S f1), (1 + k1). intros fuel n budget Hf Hb. destruct fuel as [|f]; [lia|].
      cbn [pk_run]. assert (budget <? n + 1 = false) as -> by (apply N.ltb_ge; lia).
      unfold nested_runs_to, look_dir in IHn.
      destruct (nth_error (p_insns prog) (ps_ip s)) as [i|] eqn:Ei.
      + destruct i; try (destruct IHn as [-> ->]; cbn [out_of] in E; rewrite E; f_equal; lia).
        all: rewrite (IHn f (n + 1) budget) by lia; rewrite E; f_equal; lia.
      + destruct IHn as [-> ->]. cbn [out_of] in E. rewrite E. f_equal; lia.
    - intros fwd s K o nres m Hn (f1 & k1 & IHn) E Hm Hd (f2 & k2 & IHd).
      exists (S (Nat.max f1 f2)), (1 + k1 + k2). intros fuel n budget Hf Hb. destruct fuel as [|f]; [lia|].
      cbn [pk_run]. assert (budget <? n + 1 = false) as -> by (apply N.ltb_ge; lia).
      unfold nested_runs_to, look_dir in IHn.
      assert (Hrest : pk_run ix prog h budget f fwd (push m K) (n + 1 + k1) = (out_of o, n + (1 + k1 + k2))).
      { rewrite (IHd f (n + 1 + k1) budget) by lia. f_equal. lia. }
      destruct (nth_error (p_insns prog) (ps_ip s)) as [i|] eqn:Ei.
      + destruct i; try (destruct IHn as [-> ->]; cbn [out_of] in E; rewrite E; replace (n + 1 + 0) with (n + 1) in Hrest by lia;
                         destruct m; simpl in *; try exact Hrest; congruence).
        all: rewrite (IHn f (n + 1) budget) by lia; rewrite E; destruct m; simpl in *; try exact Hrest; congruence.
      + destruct IHn as [-> ->]. cbn [out_of] in E. rewrite E. replace (n + 1 + 0) with (n + 1) in Hrest by lia.
        destruct m; simpl in *; try exact Hrest; congruence.
    - intros s E. exists 0%nat, 0. unfold nested_runs_to. rewrite E. split; reflexivity.
    - intros s d nres E Hd (f1 & k1 & IHd). exists f1, k1. unfold nested_runs_to. rewrite E. exact IHd.
  Qed.

  (* C05 for the PikeVM model: a derivation bounds the ticks and excludes the budget outcome *)
  Corollary den_pk_run fwd S o : Den ix prog h fwd S o ->
    exists f0 k, forall fuel n budget, (f0 <= fuel)%nat -> n + k <= budget ->
      pk_run ix prog h budget fuel fwd S n = (out_of o, n + k).
  Proof. intro H. destruct (proj1 den_terminates fwd S o H) as (f0 & k & Hr). exists f0, k. exact Hr. Qed.
End Run.
