(* Utf8Valid.v — well-formed UTF-8 text as a sequence of well-formed characters: what the UTF-8 indexer does at
   character boundaries. *)
From RV Require Import Base.
From RV.Model Require Import Utf8 Indexer.
From RV.Proofs Require Import Utf8Facts.

Lemma in_nrange b : forall n a, a <= b -> b < a + N.of_nat n -> In b (nrange a n).
Proof.
  induction n as [|n IH]; intros a H1 H2; [lia|]. cbn [nrange]. destruct (N.eq_dec a b) as [->|Hne]; [left; reflexivity|].
  right. apply IH; lia.
Qed.

Lemma cont_range b : cont b = true -> 128 <= b /\ b < 192.
Proof. unfold cont. intro H. apply andb_true_iff in H as [H1 H2]. apply N.leb_le in H1, H2. lia. Qed.

(* every well-formed character has the checked facts *)
Lemma facts_of_wf bs : wf_char bs = true -> char_facts bs = true.
Proof.
  intro Hw. destruct bs as [|b0 [|b1 [|b2 [|b3 [|b4 t]]]]]; try discriminate Hw.
  - pose proof all1_ok as H. rewrite forallb_forall in H.
    assert (Hin : In b0 (nrange 0 256)) by (cbn [wf_char] in Hw; apply N.ltb_lt in Hw; apply in_nrange; lia).
    specialize (H b0 Hin). rewrite Hw in H. exact H.
  - pose proof all2_ok as H. rewrite forallb_forall in H. cbn [wf_char] in Hw.
    assert (Hr : 192 <= b0 /\ b0 < 224 /\ 128 <= b1 /\ b1 < 192).
    { apply andb_true_iff in Hw as [Hw Hc]. apply andb_true_iff in Hw as [H1 H2]. apply N.leb_le in H1, H2.
      apply cont_range in Hc. lia. }
    specialize (H b0 (in_nrange b0 32 192 ltac:(lia) ltac:(lia))). rewrite forallb_forall in H.
    specialize (H b1 (in_nrange b1 64 128 ltac:(lia) ltac:(lia))). cbn [wf_char] in H. rewrite Hw in H. exact H.
  - pose proof all3_ok as H. rewrite forallb_forall in H. cbn [wf_char] in Hw.
    assert (Hr : 224 <= b0 /\ b0 < 240 /\ 128 <= b1 /\ b1 < 192 /\ 128 <= b2 /\ b2 < 192).
    { apply andb_true_iff in Hw as [Hw Hc2]. apply cont_range in Hc2.
      repeat (apply orb_true_iff in Hw as [Hw|Hw]);
        repeat match goal with H : _ && _ = true |- _ => apply andb_true_iff in H as [? ?] end;
        repeat match goal with
               | H : (_ =? _) = true |- _ => apply N.eqb_eq in H
               | H : (_ <=? _) = true |- _ => apply N.leb_le in H
               | H : cont _ = true |- _ => apply cont_range in H
               end; lia. }
    specialize (H b0 (in_nrange b0 16 224 ltac:(lia) ltac:(lia))). rewrite forallb_forall in H.
    specialize (H b1 (in_nrange b1 64 128 ltac:(lia) ltac:(lia))). rewrite forallb_forall in H.
    specialize (H b2 (in_nrange b2 64 128 ltac:(lia) ltac:(lia))). cbn [wf_char] in H. rewrite Hw in H. exact H.
  - pose proof all4_ok as H. rewrite forallb_forall in H. cbn [wf_char] in Hw.
    assert (Hr : 240 <= b0 /\ b0 < 245 /\ 128 <= b1 /\ b1 < 192 /\ 128 <= b2 /\ b2 < 192 /\ 128 <= b3 /\ b3 < 192).
    { apply andb_true_iff in Hw as [Hw Hc3]. apply andb_true_iff in Hw as [Hw Hc2]. apply cont_range in Hc2, Hc3.
      repeat (apply orb_true_iff in Hw as [Hw|Hw]);
        repeat match goal with H : _ && _ = true |- _ => apply andb_true_iff in H as [? ?] end;
        repeat match goal with
               | H : (_ =? _) = true |- _ => apply N.eqb_eq in H
               | H : (_ <=? _) = true |- _ => apply N.leb_le in H
               | H : cont _ = true |- _ => apply cont_range in H
               end; lia. }
    specialize (H b0 (in_nrange b0 5 240 ltac:(lia) ltac:(lia))). rewrite forallb_forall in H.
    specialize (H b1 (in_nrange b1 64 128 ltac:(lia) ltac:(lia))). rewrite forallb_forall in H.
    specialize (H b2 (in_nrange b2 64 128 ltac:(lia) ltac:(lia))). rewrite forallb_forall in H.
    specialize (H b3 (in_nrange b3 64 128 ltac:(lia) ltac:(lia))). cbn [wf_char] in H. rewrite Hw in H. exact H.
Qed.

(* ---- the facts, unpacked ---- *)
Lemma wf_facts bs : wf_char bs = true ->
  is_scalar (dec bs) = true /\ utf8_encode (dec bs) = bs /\
  exists b0 t, bs = b0 :: t /\ utf8_seq_len b0 = length bs /\ is_utf8_continuation b0 = false /\
               Forall (fun b => is_utf8_continuation b = true) t /\ (b0 < 128 \/ 128 <= dec bs) /\ (b0 < 128 -> t = []) /\
               utf8_first_byte (dec bs) = b0.
Proof.
  intro Hw. pose proof (facts_of_wf bs Hw) as Hf. unfold char_facts in Hf.
  apply andb_true_iff in Hf as [Hf H3]. apply andb_true_iff in Hf as [H1 H2].
  split; [exact H1|]. split.
  - clear - H2. revert H2. generalize (utf8_encode (dec bs)) as l. induction bs as [|x bs IH]; intros [|y l] H; cbn in H; try discriminate; [reflexivity|].
    apply andb_true_iff in H as [Hx Hl]. apply N.eqb_eq in Hx. subst. f_equal. apply IH. exact Hl.
  - destruct bs as [|b0 t]; [discriminate|]. exists b0, t. split; [reflexivity|].
    apply andb_true_iff in H3 as [H3 H9]. apply andb_true_iff in H3 as [H3 H8]. apply andb_true_iff in H3 as [H3 H7]. apply andb_true_iff in H3 as [H3 H6].
    apply andb_true_iff in H3 as [H4 H5]. apply Nat.eqb_eq in H4. apply negb_true_iff in H5.
    split; [exact H4|]. split; [exact H5|]. split; [apply Forall_forall; rewrite forallb_forall in H6; exact H6|].
    split.
    + apply orb_true_iff in H7 as [H7|H7]; [left; apply N.ltb_lt; exact H7|right; apply N.leb_le; exact H7].
    + split.
      * intro Hlt. apply orb_true_iff in H8 as [H8|H8].
        -- apply negb_true_iff in H8. apply N.ltb_ge in H8. lia.
        -- apply Nat.eqb_eq in H8. destruct t; [reflexivity|cbn in H8; lia].
      * apply N.eqb_eq. exact H9.
Qed.

Lemma wf_len bs : wf_char bs = true -> (1 <= length bs <= 4)%nat.
Proof. intro H. destruct bs as [|b0 [|b1 [|b2 [|b3 [|b4 t]]]]]; try discriminate H; cbn; lia. Qed.

(* ---- text as a sequence of well-formed characters ---- *)
Definition wf_text (cs : list (list N)) : Prop := Forall (fun c => wf_char c = true) cs.

Lemma getb_app_mid (P c R : list N) i b : nth_error c i = Some b -> getb (P ++ c ++ R) (length P + i) = Ok b.
Proof.
  intro E. unfold getb. rewrite nth_error_app2 by lia. replace (length P + i - length P)%nat with i by lia.
  rewrite nth_error_app1 by (apply nth_error_Some; congruence). rewrite E. reflexivity.
Qed.

Section Text.
  Variable fold : N -> bool -> N.
  Notation u8 := (utf8_indexer fold).

  (* reading the character c that stands between P and R, forwards from its start and backwards from its end *)
  Lemma u8_right_at P c R : wf_char c = true ->
    u8_next_right (P ++ c ++ R) (length P) = Ok (Some (dec c, length P + length c)%nat).
  Proof.
    intro Hw. destruct (wf_facts c Hw) as (Hs & _ & b0 & t & -> & Hlen & _ & _ & _ & Hone & _).
    unfold u8_next_right.
    replace (length P =? length (P ++ (b0 :: t) ++ R))%nat with false
      by (symmetry; apply Nat.eqb_neq; rewrite !app_length; cbn [length]; lia).
    replace (length P) with (length P + 0)%nat at 1 by lia. rewrite (getb_app_mid P (b0 :: t) R 0 b0 eq_refl). cbn [bindR].
    destruct (N.ltb_spec b0 128) as [Hlt|Hge].
    - rewrite (Hone Hlt). cbn [dec length]. do 3 f_equal. lia.
    - rewrite Hlen. unfold decoded.
      destruct t as [|b1 [|b2 [|b3 [|b4 t]]]]; cbn [length dec] in *; try (cbn in Hw; discriminate Hw).
      + exfalso. cbn [wf_char] in Hw. apply N.ltb_lt in Hw. lia.
      + rewrite (getb_app_mid P [b0; b1] R 1 b1 eq_refl). cbn [bindR]. cbn [dec] in Hs. rewrite Hs. reflexivity.
      + rewrite (getb_app_mid P [b0; b1; b2] R 1 b1 eq_refl), (getb_app_mid P [b0; b1; b2] R 2 b2 eq_refl). cbn [bindR].
        cbn [dec] in Hs. rewrite Hs. reflexivity.
      + rewrite (getb_app_mid P [b0; b1; b2; b3] R 1 b1 eq_refl), (getb_app_mid P [b0; b1; b2; b3] R 2 b2 eq_refl),
          (getb_app_mid P [b0; b1; b2; b3] R 3 b3 eq_refl). cbn [bindR]. cbn [dec] in Hs. rewrite Hs. reflexivity.
  Qed.

  (* the four shapes, with what the indexer looks at *)
  Definition isc (b : N) : bool := is_utf8_continuation b.
  Lemma wf_shape c : wf_char c = true ->
    (exists b0, c = [b0] /\ b0 < 128) \/
    (exists b0 b1, c = [b0; b1] /\ 128 <= b0 /\ 128 <= b1 /\ isc b0 = false /\ isc b1 = true /\ utf8_seq_len b0 = 2%nat) \/
    (exists b0 b1 b2, c = [b0; b1; b2] /\ 128 <= b0 /\ 128 <= b1 /\ 128 <= b2 /\
                      isc b0 = false /\ isc b1 = true /\ isc b2 = true /\ utf8_seq_len b0 = 3%nat) \/
    (exists b0 b1 b2 b3, c = [b0; b1; b2; b3] /\ 128 <= b0 /\ 128 <= b1 /\ 128 <= b2 /\ 128 <= b3 /\
                         isc b0 = false /\ isc b1 = true /\ isc b2 = true /\ isc b3 = true /\ utf8_seq_len b0 = 4%nat).
  Proof.
    intro Hw. destruct (wf_facts c Hw) as (_ & _ & b0 & t & Hc & Hlen & Hb0 & Ht & _ & _ & _). subst c.
    destruct t as [|b1 [|b2 [|b3 [|b4 t]]]]; try (cbn in Hw; discriminate Hw); cbn [wf_char] in Hw; cbn [length] in Hlen.
    - left. exists b0. split; [reflexivity|]. apply N.ltb_lt. exact Hw.
    - right; left. exists b0, b1. inversion Ht as [|x l H1 _]; subst.
      apply andb_true_iff in Hw as [Hw Hc1]. apply andb_true_iff in Hw as [H0 _]. apply N.leb_le in H0. apply cont_range in Hc1.
      repeat split; try assumption; lia.
    - right; right; left. exists b0, b1, b2. inversion Ht as [|x l H1 Ht2]; subst. inversion Ht2 as [|x l H2 _]; subst.
      apply andb_true_iff in Hw as [Hw Hc2]. apply cont_range in Hc2.
      assert (Hr : 128 <= b0 /\ 128 <= b1).
      { repeat (apply orb_true_iff in Hw as [Hw|Hw]);
          repeat match goal with H : _ && _ = true |- _ => apply andb_true_iff in H as [? ?] end;
          repeat match goal with
                 | H : (_ =? _) = true |- _ => apply N.eqb_eq in H
                 | H : (_ <=? _) = true |- _ => apply N.leb_le in H
                 | H : cont _ = true |- _ => apply cont_range in H
                 end; lia. }
      repeat split; try assumption; lia.
    - right; right; right. exists b0, b1, b2, b3.
      inversion Ht as [|x l H1 Ht2]; subst. inversion Ht2 as [|x l H2 Ht3]; subst. inversion Ht3 as [|x l H3 _]; subst.
      apply andb_true_iff in Hw as [Hw Hc3]. apply andb_true_iff in Hw as [Hw Hc2]. apply cont_range in Hc2, Hc3.
      assert (Hr : 128 <= b0 /\ 128 <= b1).
      { repeat (apply orb_true_iff in Hw as [Hw|Hw]);
          repeat match goal with H : _ && _ = true |- _ => apply andb_true_iff in H as [? ?] end;
          repeat match goal with
                 | H : (_ =? _) = true |- _ => apply N.eqb_eq in H
                 | H : (_ <=? _) = true |- _ => apply N.leb_le in H
                 | H : cont _ = true |- _ => apply cont_range in H
                 end; lia. }
      repeat split; try assumption; lia.
  Qed.

  Lemma psub_ok p k : (k <= p)%nat -> psub p k = Ok (p - k)%nat.
  Proof. intro H. unfold psub. replace (k <=? p)%nat with true by (symmetry; apply Nat.leb_le; exact H). reflexivity. Qed.

  Ltac low b := replace (b <? 128) with true by (symmetry; apply N.ltb_lt; assumption).
  Ltac high b := replace (b <? 128) with false by (symmetry; apply N.ltb_ge; assumption).

  Lemma u8_left_at P c R : wf_char c = true ->
    u8_next_left (P ++ c ++ R) (length P + length c) = Ok (Some (dec c, length P)).
  Proof.
    intro Hw. pose proof (wf_facts c Hw) as (Hs & _). unfold u8_next_left, decoded.
    destruct (wf_shape c Hw) as [(b0 & -> & H0)|[(b0 & b1 & -> & H0 & H1 & C0 & C1 & _)|
      [(b0 & b1 & b2 & -> & H0 & H1 & H2 & C0 & C1 & C2 & _)|(b0 & b1 & b2 & b3 & -> & H0 & H1 & H2 & H3 & C0 & C1 & C2 & C3 & _)]]];
      cbn [length dec] in *; unfold isc in *;
      (replace (_ =? 0)%nat with false by (symmetry; apply Nat.eqb_neq; lia)).
    - rewrite psub_ok by lia. cbn [bindR]. replace (length P + 1 - 1)%nat with (length P + 0)%nat by lia.
      rewrite (getb_app_mid P [b0] R 0 b0 eq_refl). cbn [bindR]. low b0. do 3 f_equal. lia.
    - rewrite !psub_ok by lia. cbn [bindR]. replace (length P + 2 - 1)%nat with (length P + 1)%nat by lia.
      rewrite (getb_app_mid P [b0; b1] R 1 b1 eq_refl). cbn [bindR]. high b1.
      replace (length P + 2 - 2)%nat with (length P + 0)%nat by lia.
      rewrite (getb_app_mid P [b0; b1] R 0 b0 eq_refl). cbn [bindR]. rewrite C0. cbn [negb]. rewrite Hs. do 3 f_equal. lia.
    - rewrite !psub_ok by lia. cbn [bindR]. replace (length P + 3 - 1)%nat with (length P + 2)%nat by lia.
      rewrite (getb_app_mid P [b0; b1; b2] R 2 b2 eq_refl). cbn [bindR]. high b2.
      replace (length P + 3 - 2)%nat with (length P + 1)%nat by lia.
      rewrite (getb_app_mid P [b0; b1; b2] R 1 b1 eq_refl). cbn [bindR]. rewrite C1. cbn [negb].
      replace (length P + 3 - 3)%nat with (length P + 0)%nat by lia.
      rewrite (getb_app_mid P [b0; b1; b2] R 0 b0 eq_refl). cbn [bindR]. rewrite C0. cbn [negb]. rewrite Hs. do 3 f_equal. lia.
    - rewrite !psub_ok by lia. cbn [bindR]. replace (length P + 4 - 1)%nat with (length P + 3)%nat by lia.
      rewrite (getb_app_mid P [b0; b1; b2; b3] R 3 b3 eq_refl). cbn [bindR]. high b3.
      replace (length P + 4 - 2)%nat with (length P + 2)%nat by lia.
      rewrite (getb_app_mid P [b0; b1; b2; b3] R 2 b2 eq_refl). cbn [bindR]. rewrite C2. cbn [negb].
      replace (length P + 4 - 3)%nat with (length P + 1)%nat by lia.
      rewrite (getb_app_mid P [b0; b1; b2; b3] R 1 b1 eq_refl). cbn [bindR]. rewrite C1. cbn [negb].
      replace (length P + 4 - 4)%nat with (length P + 0)%nat by lia.
      rewrite (getb_app_mid P [b0; b1; b2; b3] R 0 b0 eq_refl). cbn [bindR]. rewrite Hs. do 3 f_equal. lia.
  Qed.

  Lemma u8_right_pos_at P c R : wf_char c = true ->
    u8_next_right_pos (P ++ c ++ R) (length P) = Ok (Some (length P + length c)%nat).
  Proof.
    intro Hw. destruct (wf_facts c Hw) as (_ & _ & b0 & t & -> & Hlen & _ & _ & _ & Hone & _).
    unfold u8_next_right_pos.
    replace (length P =? length (P ++ (b0 :: t) ++ R))%nat with false
      by (symmetry; apply Nat.eqb_neq; rewrite !app_length; cbn [length]; lia).
    replace (length P) with (length P + 0)%nat at 1 by lia. rewrite (getb_app_mid P (b0 :: t) R 0 b0 eq_refl). cbn [bindR].
    destruct (N.ltb_spec b0 128) as [Hlt|Hge].
    - rewrite (Hone Hlt). cbn [length]. do 2 f_equal. lia.
    - rewrite Hlen. reflexivity.
  Qed.

  Lemma u8_left_pos_at P c R : wf_char c = true ->
    u8_next_left_pos (P ++ c ++ R) (length P + length c) = Ok (Some (length P)).
  Proof.
    intro Hw. unfold u8_next_left_pos.
    destruct (wf_shape c Hw) as [(b0 & -> & H0)|[(b0 & b1 & -> & H0 & H1 & C0 & C1 & _)|
      [(b0 & b1 & b2 & -> & H0 & H1 & H2 & C0 & C1 & C2 & _)|(b0 & b1 & b2 & b3 & -> & H0 & H1 & H2 & H3 & C0 & C1 & C2 & C3 & _)]]];
      cbn [length] in *; unfold isc in *;
      (replace (_ =? 0)%nat with false by (symmetry; apply Nat.eqb_neq; lia)).
    - rewrite psub_ok by lia. cbn [bindR]. replace (length P + 1 - 1)%nat with (length P + 0)%nat by lia.
      rewrite (getb_app_mid P [b0] R 0 b0 eq_refl). cbn [bindR]. low b0. do 2 f_equal. lia.
    - rewrite !psub_ok by lia. cbn [bindR]. replace (length P + 2 - 1)%nat with (length P + 1)%nat by lia.
      rewrite (getb_app_mid P [b0; b1] R 1 b1 eq_refl). cbn [bindR]. high b1.
      replace (length P + 2 - 2)%nat with (length P + 0)%nat by lia.
      rewrite (getb_app_mid P [b0; b1] R 0 b0 eq_refl). cbn [bindR]. rewrite C0. cbn [negb]. do 2 f_equal. lia.
    - rewrite !psub_ok by lia. cbn [bindR]. replace (length P + 3 - 1)%nat with (length P + 2)%nat by lia.
      rewrite (getb_app_mid P [b0; b1; b2] R 2 b2 eq_refl). cbn [bindR]. high b2.
      replace (length P + 3 - 2)%nat with (length P + 1)%nat by lia.
      rewrite (getb_app_mid P [b0; b1; b2] R 1 b1 eq_refl). cbn [bindR]. rewrite C1. cbn [negb].
      replace (length P + 3 - 3)%nat with (length P + 0)%nat by lia.
      rewrite (getb_app_mid P [b0; b1; b2] R 0 b0 eq_refl). cbn [bindR]. rewrite C0. cbn [negb]. do 2 f_equal. lia.
    - rewrite !psub_ok by lia. cbn [bindR]. replace (length P + 4 - 1)%nat with (length P + 3)%nat by lia.
      rewrite (getb_app_mid P [b0; b1; b2; b3] R 3 b3 eq_refl). cbn [bindR]. high b3.
      replace (length P + 4 - 2)%nat with (length P + 2)%nat by lia.
      rewrite (getb_app_mid P [b0; b1; b2; b3] R 2 b2 eq_refl). cbn [bindR]. rewrite C2. cbn [negb].
      replace (length P + 4 - 3)%nat with (length P + 1)%nat by lia.
      rewrite (getb_app_mid P [b0; b1; b2; b3] R 1 b1 eq_refl). cbn [bindR]. rewrite C1. cbn [negb].
      do 2 f_equal. lia.
  Qed.

  (* ---- character boundaries of a well-formed text, and what the indexer sees there ---- *)
  Definition bnd (cs : list (list N)) (q : nat) : Prop := exists pre post, cs = pre ++ post /\ q = length (concat pre).

  Lemma concat_mid (pre : list (list N)) c post : concat (pre ++ c :: post) = concat pre ++ c ++ concat post.
  Proof. rewrite concat_app. reflexivity. Qed.

  Lemma bnd_len cs q : bnd cs q -> (q <= length (concat cs))%nat.
  Proof. intros (pre & post & -> & ->). rewrite concat_app, app_length. lia. Qed.

  Lemma bnd_0 cs : bnd cs 0.
  Proof. exists [], cs. split; reflexivity. Qed.
  Lemma bnd_end cs : bnd cs (length (concat cs)).
  Proof. exists cs, []. split; [rewrite app_nil_r; reflexivity|reflexivity]. Qed.

  Lemma slice_mid (P c R : list N) : slice (P ++ c ++ R) (length P) (length P + length c) = c.
  Proof.
    unfold slice. replace (length P + length c - length P)%nat with (length c) by lia.
    rewrite skipn_app, skipn_all, Nat.sub_diag. cbn [app skipn]. rewrite firstn_app, firstn_all, Nat.sub_diag. cbn [firstn].
    apply app_nil_r.
  Qed.

  Inductive fview (cs : list (list N)) (q : nat) : Prop :=
  | fv_end : q = length (concat cs) -> u8_next_right (concat cs) q = Ok None -> next_byte true (concat cs) q = Ok None ->
             u8_next_right_pos (concat cs) q = Ok None -> fview cs q
  | fv_char : forall c b0 t, c = b0 :: t -> wf_char c = true -> bnd cs (q + length c) ->
             u8_next_right (concat cs) q = Ok (Some (dec c, q + length c)%nat) ->
             next_byte true (concat cs) q = Ok (Some (b0, S q)) ->
             u8_next_right_pos (concat cs) q = Ok (Some (q + length c)%nat) ->
             u8_next_left (concat cs) (q + length c) = Ok (Some (dec c, q)) ->
             u8_next_left_pos (concat cs) (q + length c) = Ok (Some q) ->
             slice (concat cs) q (q + length c) = c -> fview cs q.

  Lemma view_fwd cs q : wf_text cs -> bnd cs q -> fview cs q.
  Proof.
    intros Hw (pre & post & -> & ->). destruct post as [|c post].
    - rewrite app_nil_r. apply fv_end; [reflexivity| | |].
      + unfold u8_next_right. rewrite Nat.eqb_refl. reflexivity.
      + unfold next_byte, peek_byte_right. rewrite Nat.eqb_refl. reflexivity.
      + unfold u8_next_right_pos. rewrite Nat.eqb_refl. reflexivity.
    - assert (Hc : wf_char c = true).
      { unfold wf_text in Hw. rewrite Forall_forall in Hw. apply Hw. apply in_or_app. right. left. reflexivity. }
      destruct c as [|b0 t]; [discriminate Hc|].
      eapply (fv_char _ _ (b0 :: t) b0 t eq_refl Hc); rewrite ?concat_mid.
      + exists (pre ++ [b0 :: t]), post. split; [rewrite <- app_assoc; reflexivity|].
        rewrite concat_app, app_length. cbn [concat]. rewrite app_nil_r. reflexivity.
      + apply u8_right_at. exact Hc.
      + unfold next_byte, peek_byte_right.
        replace (length (concat pre) =? length (concat pre ++ (b0 :: t) ++ concat post))%nat with false
          by (symmetry; apply Nat.eqb_neq; rewrite !app_length; cbn [length]; lia).
        replace (length (concat pre)) with (length (concat pre) + 0)%nat at 1 by lia.
        rewrite (getb_app_mid (concat pre) (b0 :: t) (concat post) 0 b0 eq_refl). reflexivity.
      + apply u8_right_pos_at. exact Hc.
      + apply u8_left_at. exact Hc.
      + apply u8_left_pos_at. exact Hc.
      + apply slice_mid.
  Qed.

  Inductive bview (cs : list (list N)) (q : nat) : Prop :=
  | bv_start : q = 0%nat -> u8_next_left (concat cs) q = Ok None -> next_byte false (concat cs) q = Ok None ->
               u8_next_left_pos (concat cs) q = Ok None -> bview cs q
  | bv_char : forall c z q0, wf_char c = true -> q = (q0 + length c)%nat -> bnd cs q0 ->
               nth_error c (length c - 1) = Some z ->
               u8_next_left (concat cs) q = Ok (Some (dec c, q0)) ->
               next_byte false (concat cs) q = Ok (Some (z, (q - 1)%nat)) ->
               u8_next_left_pos (concat cs) q = Ok (Some q0) ->
               u8_next_right (concat cs) q0 = Ok (Some (dec c, q)) ->
               u8_next_right_pos (concat cs) q0 = Ok (Some q) ->
               slice (concat cs) q0 q = c -> bview cs q.

  Lemma view_bwd cs q : wf_text cs -> bnd cs q -> bview cs q.
  Proof.
    intros Hw (pre & post & -> & ->). destruct (rev pre) as [|c rpre] eqn:Er.
    - assert (pre = []) by (rewrite <- (rev_involutive pre), Er; reflexivity). subst pre. cbn [concat length app].
      apply bv_start; reflexivity.
    - assert (Hp : pre = rev rpre ++ [c]) by (rewrite <- (rev_involutive pre), Er; reflexivity). subst pre.
      assert (Hc : wf_char c = true).
      { unfold wf_text in Hw. rewrite Forall_forall in Hw. apply Hw. apply in_or_app. left. apply in_or_app. right. left. reflexivity. }
      assert (Hq : length (concat (rev rpre ++ [c])) = (length (concat (rev rpre)) + length c)%nat).
      { rewrite concat_app, app_length. cbn [concat]. rewrite app_nil_r. reflexivity. }
      rewrite Hq. pose proof (wf_len c Hc) as Hl.
      destruct (nth_error c (length c - 1)) as [z|] eqn:Ez; [|apply nth_error_None in Ez; lia].
      assert (Hcs : concat ((rev rpre ++ [c]) ++ post) = concat (rev rpre) ++ c ++ concat post)
        by (rewrite <- app_assoc; cbn [app]; apply concat_mid).
      eapply (bv_char _ _ c z (length (concat (rev rpre))) Hc eq_refl); rewrite ?Hcs.
      + exists (rev rpre), (c :: post). split; [rewrite <- app_assoc; reflexivity|reflexivity].
      + exact Ez.
      + apply u8_left_at. exact Hc.
      + unfold next_byte, peek_byte_left.
        replace (length (concat (rev rpre)) + length c =? 0)%nat with false by (symmetry; apply Nat.eqb_neq; lia).
        rewrite psub_ok by lia. cbn [bindR].
        replace (length (concat (rev rpre)) + length c - 1)%nat with (length (concat (rev rpre)) + (length c - 1))%nat by lia.
        rewrite (getb_app_mid (concat (rev rpre)) c (concat post) (length c - 1) z Ez). reflexivity.
      + apply u8_left_pos_at. exact Hc.
      + apply u8_right_at. exact Hc.
      + apply u8_right_pos_at. exact Hc.
      + apply slice_mid.
  Qed.
End Text.

(* ---- splitting a byte string into its characters: the decidable form of "well-formed UTF-8" ---- *)
Fixpoint utf8_chars (fuel : nat) (h : list N) : option (list (list N)) :=
  match fuel with
  | O => match h with [] => Some [] | _ => None end
  | S k =>
      match h with
      | [] => Some []
      | b0 :: _ =>
          let n := utf8_seq_len b0 in
          let c := firstn n h in
          if wf_char c then option_map (cons c) (utf8_chars k (skipn n h)) else None
      end
  end.

Lemma utf8_chars_ok : forall fuel h cs, utf8_chars fuel h = Some cs -> wf_text cs /\ concat cs = h.
Proof.
  induction fuel as [|k IH]; intros h cs E; cbn [utf8_chars] in E.
  - destruct h; [|discriminate]. inversion E; subst. split; [constructor|reflexivity].
  - destruct h as [|b0 t]; [inversion E; subst; split; [constructor|reflexivity]|].
    remember (b0 :: t) as h0. destruct (wf_char (firstn (utf8_seq_len b0) h0)) eqn:Hc; [|discriminate].
    destruct (utf8_chars k (skipn (utf8_seq_len b0) h0)) as [cs'|] eqn:Er; [|discriminate]. cbn [option_map] in E.
    inversion E; subst cs. destruct (IH _ _ Er) as [Hw Hcat]. split; [constructor; assumption|].
    cbn [concat]. rewrite Hcat. apply firstn_skipn.
Qed.

(* the positions a search visits from a character boundary of well-formed text are boundaries inside the text *)
Lemma walk_ok_utf8 fold cs : wf_text cs -> forall fuel p, bnd cs p -> walk_ok (utf8_indexer fold) (concat cs) fuel p = true.
Proof.
  intro Hw. induction fuel as [|f IH]; intros p Hp; [reflexivity|]. cbn [walk_ok].
  replace (p <=? length (concat cs))%nat with true by (symmetry; apply Nat.leb_le; apply (bnd_len cs p Hp)).
  cbn [andb ix_next_right_pos utf8_indexer].
  destruct (view_fwd cs p Hw Hp) as [_ _ _ Hn|c b0 t Ec Hc Hq' _ _ Hn _ _ _]; rewrite Hn; [reflexivity|]. apply IH. exact Hq'.
Qed.

(* at a character boundary of well-formed text the byte under the cursor is the first byte of the encoding of the element
   the cursor reads (the hypothesis of the start-predicate theorem of C04) *)
Lemma first_byte_utf8 fold cs p c p' : wf_text cs -> bnd cs p ->
  cnext (utf8_indexer fold) true (concat cs) p = Ok (Some (c, p')) ->
  nth_error (concat cs) p = Some (utf8_first_byte c) /\ c <= 1114111.
Proof.
  intros Hw Hp E. change (cnext (utf8_indexer fold) true (concat cs) p) with (u8_next_right (concat cs) p) in E.
  destruct (view_fwd cs p Hw Hp) as [_ Hn _ _|ch b0 t Ec Hc Hq' Hn Hb _ _ _ _]; rewrite Hn in E; [discriminate|].
  injection E as Ec1 Ep. destruct (wf_facts ch Hc) as (Hs & _ & b & t' & E0 & _ & _ & _ & _ & _ & Hfb).
  rewrite Ec in E0. injection E0 as Eb Et. subst c b. split.
  - rewrite Hfb. unfold next_byte, peek_byte_right in Hb.
    destruct (p =? length (concat cs))%nat; [discriminate|]. unfold getb in Hb.
    destruct (nth_error (concat cs) p) as [x|]; cbn [bindR] in Hb; [|discriminate]. injection Hb as Hx. subst x. reflexivity.
  - unfold is_scalar in Hs. apply andb_true_iff in Hs as [H1 _]. apply N.leb_le in H1. exact H1.
Qed.
