(* OptTextCheck.v — the check the driver evaluates on every haystack (IRShape.text_ok_b) establishes the text
   hypotheses of the optimizer theorems at the character boundaries of that haystack, except the one about
   one-character steps, which the Loop1CharBody semantics checks itself at every step it takes, and the one about
   replaying a capture. *)
From RV Require Import Base.
From RV.Model Require Import Utf8 Indexer CodePointSet Insn IR Optimizer Unfold Emit.
From RV.Spec Require Import IRSem IRShape.
From RV.Proofs Require Import OptDD OptMono OptWalk OptRel OptTop.

Section Check.
  Variable ix : indexer.
  Variable unicode : bool.
  Variable h : hay.
  Definition bnd (q : nat) : Prop := is_bnd h q = true.

  Lemma bnd_le q : bnd q -> (q <= length h)%nat.
  Proof.
    unfold bnd, is_bnd. intro H. apply orb_true_iff in H as [H|H]; [apply Nat.eqb_eq in H; lia|].
    destruct (nth_error h q) eqn:E; [|discriminate]. assert (q < length h)%nat by (apply nth_error_Some; congruence). lia.
  Qed.

  Hypothesis Hchk : text_ok_b ix h = true.

  Lemma chk_at q : bnd q ->
    text_pos_ok ix h true q = true /\ text_pos_ok ix h false q = true /\
    match ix_next_right_pos ix h q with Ok (Some q') => is_bnd h q' | _ => true end = true.
  Proof.
    intro Hq. unfold text_ok_b in Hchk. rewrite forallb_forall in Hchk.
    assert (Hin : In q (seq 0 (S (length h)))) by (apply in_seq; pose proof (bnd_le q Hq); lia).
    specialize (Hchk q Hin). unfold bnd in Hq. rewrite Hq in Hchk. cbn [negb orb] in Hchk.
    apply andb_true_iff in Hchk as [H12 H3]. apply andb_true_iff in H12 as [H1 H2]. auto.
  Qed.

  Lemma pos_at fwd q : bnd q -> text_pos_ok ix h fwd q = true.
  Proof. intro Hq. destruct (chk_at q Hq) as (H1 & H2 & _). destruct fwd; assumption. Qed.

  Lemma byte_res_eqb_spec r c q : byte_res_eqb r c q = true -> r = Ok (Some (c, q)).
  Proof.
    unfold byte_res_eqb. destruct r as [e|[[b q1]|]]; try discriminate. intro H. apply andb_true_iff in H as [Hb Hq].
    apply N.eqb_eq in Hb. apply Nat.eqb_eq in Hq. subst. reflexivity.
  Qed.

  Theorem text_ok_b_sound :
    (forall body fwd s q q', matches_exactly_one_char body = true -> bnd q ->
       single_step ix unicode h (negb fwd) body fwd = Some s -> s q = Some (Some q') -> step_inv ix h fwd q q' = true) ->
    (forall fwd p rs re e, bnd p -> bnd rs -> bnd re -> subrange_eq fwd h p rs re = Ok (Some e) -> bnd e) ->
    text_ok ix unicode h bnd.
  Proof.
    intros Hstep Hk4. split; [intros q Hq; apply bnd_le; exact Hq|]. split; [|split; [|split; [exact Hk4|split; [|split; [|split]]]]].
    - intros fwd p c p' Hp E. pose proof (pos_at fwd p Hp) as H. unfold text_pos_ok in H. rewrite E in H.
      apply andb_true_iff in H as [H _]. apply andb_true_iff in H as [H _]. apply andb_true_iff in H as [H _]. exact H.
    - intros p p' Hp E. destruct (chk_at p Hp) as (_ & _ & H). rewrite E in H. exact H.
    - intros fwd p c p' Hp E. pose proof (pos_at fwd p Hp) as H. unfold text_pos_ok in H. rewrite E in H.
      apply andb_true_iff in H as [H _]. apply andb_true_iff in H as [H _]. apply andb_true_iff in H as [_ H].
      apply N.leb_le. exact H.
    - intros fwd q Hq. pose proof (pos_at fwd q Hq) as H. unfold text_pos_ok in H. apply andb_true_iff in H as [_ H].
      destruct (next_byte fwd h q) as [e|[[b q1]|]]; [exact I| |].
      + destruct (b <? 128); [apply byte_res_eqb_spec; exact H|].
        destruct (cnext ix fwd h q) as [e|[[c q2]|]]; try discriminate. exists c, q2. split; [reflexivity|apply N.leb_le; exact H].
      + destruct (cnext ix fwd h q) as [e|[[c q2]|]]; try discriminate. reflexivity.
    - intros fwd q Hq. pose proof (pos_at fwd q Hq) as H. unfold text_pos_ok in H. apply andb_true_iff in H as [H _].
      destruct (cnext ix fwd h q) as [e|[[c q2]|]]; [exact I| |].
      + apply andb_true_iff in H as [_ H]. destruct (c <? 128); [apply byte_res_eqb_spec; exact H|].
        destruct (next_byte fwd h q) as [e|[[b q1]|]]; try discriminate. exists b, q1. split; [reflexivity|apply N.leb_le; exact H].
      + destruct (next_byte fwd h q) as [e|[[b q1]|]]; try discriminate. reflexivity.
    - exact Hstep.
  Qed.
End Check.
