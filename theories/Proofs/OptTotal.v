(* OptTotal.v — on an IR of the shape the parser produces (qok: loop and lookaround group ranges count the groups
   they enclose, one-character loop bodies are leaves, brackets are well-formed) no optimizer pass hits a panic site
   (the asserts of try_duplicate and promote_1char_loops), so that together with OptTerm.v: optimize() returns, and
   returns Ok. *)
From RV Require Import Base.
From RV.Model Require Import Utf8 Indexer CodePointSet Insn IR Optimizer Unfold Emit.
From RV.Spec Require Import IRSem IRShape.
From RV.Proofs Require Import NodeInd MatchRange OptDD OptMono OptWalk OptRel OptDecat OptFails OptEmpties OptUnroll OptPromote
  OptBrackets OptBytes OptTop OptTerm.
Local Open Scope nat_scope.

(* the refinement relation with no position counted as well-formed: what is left of it is "qok and the group count
   are kept" — every text hypothesis of the local soundness lemmas is vacuous *)
Definition P0 : bool -> node -> node -> Prop := PRel ascii_indexer false false [] (fun _ => False).

Lemma P0_qok lb n n' : P0 lb n n' -> qok n = true -> qok n' = true /\ ng n' = ng n.
Proof. intros H Hq. destruct (H Hq (al_nowhere _ _ _ _ n)) as (_ & Q & _ & N). split; assumption. Qed.

Lemma brackets_loc lb n a : simplify_brackets lb n = Ok a -> P0 lb n (act_node a n).
Proof. apply brackets_sound; [intros fwd p c p' []|intros fwd p c p' []|intros fwd q []|intros fwd q []]. Qed.
Lemma decat_loc lb n a : decat lb n = Ok a -> P0 lb n (act_node a n).
Proof. apply decat_sound. Qed.
Lemma unroll_loc lb n a : unroll_loops lb n = Ok a -> P0 lb n (act_node a n).
Proof. apply unroll_sound; [exact ascii_cursor|exact ascii_dir|intros q []|reflexivity]. Qed.
Lemma promote_loc lb n a : promote_1char_loops lb n = Ok a -> P0 lb n (act_node a n).
Proof. apply promote_sound. intros body fwd s q q' _ []. Qed.
Lemma literal_loc lb n a : form_literal_bytes lb n = Ok a -> P0 lb n (act_node a n).
Proof.
  apply literal_sound; [intros q []|intros fwd p c p' []|intros fwd q []|intros fwd q []|intros fwd q c []|intros fwd q c e []].
Qed.
Lemma empties_loc lb n a : remove_empties lb n = Ok a -> P0 lb n (act_node a n).
Proof. apply empties_sound. Qed.
Lemma fails_loc lb n a : propagate_early_fails lb n = Ok a -> P0 lb n (act_node a n).
Proof. apply fails_sound. intros fwd p c p' []. Qed.

Section Total.
  Variable func : bool -> node -> R action.
  Hypothesis Hloc : forall lb n a, func lb n = Ok a -> P0 lb n (act_node a n).
  Hypothesis Hok : forall lb n, qok n = true -> exists a, func lb n = Ok a.

  Lemma walk_P lb n n' ch : walk func lb n = Ok (n', ch) -> P0 lb n n'.
  Proof.
    apply (walk_sound func P0 (PRel_refl _ _ _ _ _) (PRel_trans _ _ _ _ _) (PRel_cat _ _ _ _ _) (PRel_alt _ _ _ _ _)
             (PRel_cg _ _ _ _ _) (PRel_look _ _ _ _ _) (PRel_loop _ _ _ _ _) (PRel_l1 _ _ _ _ _) Hloc).
  Qed.

  Lemma finish_total lb m ch : qok m = true -> exists n' ch', finish func lb m ch = Ok (n', ch').
  Proof. intros Hq. destruct (Hok lb m Hq) as [a Ea]. unfold finish. rewrite Ea. cbn [bindR]. destruct a; eauto. Qed.

  Definition wt (n : node) : Prop := forall lb, qok n = true -> exists n' ch, walk func lb n = Ok (n', ch).

  Lemma walk_list_total lb : forall l, Forall wt l -> forallb qok l = true ->
    exists l' cl,
      (fix go (l : list node) : R (list node * bool) :=
         match l with
         | [] => Ok ([], false)
         | x :: t => do rx <- walk func lb x; do rt <- go t; Ok (fst rx :: fst rt, snd rx || snd rt)
         end) l = Ok (l', cl) /\ Forall2 (P0 lb) l l'.
  Proof.
    induction 1 as [|x l Hx Hl IH]; intros Hq.
    - exists [], false. split; [reflexivity|constructor].
    - cbn [forallb] in Hq. apply andb_true_iff in Hq as [Hqx Hql].
      destruct (Hx lb Hqx) as (x' & cx & Ex). destruct (IH Hql) as (l' & cl & El & HF).
      exists (x' :: l'), (cx || cl). rewrite Ex. cbn [bindR]. rewrite El. cbn [bindR fst snd]. split; [reflexivity|].
      constructor; [eapply walk_P; exact Ex|exact HF].
  Qed.

  Theorem walk_total : forall n, wt n.
  Proof.
    induction n as [n Hleaf|l H|a b IHa IHb|id c nm IHc|neg bw sg eg c IHc|b mn mx g egs ege IHb|b mn mx g IHb] using node_ind2;
      intros lb Hq.
    - destruct n; try contradiction; cbn [walk]; apply finish_total; exact Hq.
    - assert (Hq' := Hq). cbn [qok] in Hq'. destruct (walk_list_total lb l H Hq') as (l' & cl & El & HF).
      cbn [walk]. rewrite El. cbn [bindR fst snd]. apply finish_total.
      exact (proj1 (P0_qok lb _ _ (PRel_cat _ _ _ _ _ lb l l' HF) Hq)).
    - assert (Hq' := Hq). cbn [qok] in Hq'. apply andb_true_iff in Hq' as [Hqa Hqb].
      destruct (IHa lb Hqa) as (a' & ca & Ea). destruct (IHb lb Hqb) as (b' & cb & Eb).
      cbn [walk]. rewrite Ea. cbn [bindR]. rewrite Eb. cbn [bindR fst snd]. apply finish_total.
      exact (proj1 (P0_qok lb _ _ (PRel_alt _ _ _ _ _ lb a a' b b' (walk_P _ _ _ _ Ea) (walk_P _ _ _ _ Eb)) Hq)).
    - assert (Hq' := Hq). cbn [qok] in Hq'. destruct (IHc lb Hq') as (c' & cc & Ec).
      cbn [walk]. rewrite Ec. cbn [bindR fst snd]. apply finish_total.
      exact (proj1 (P0_qok lb _ _ (PRel_cg _ _ _ _ _ lb id nm c c' (walk_P _ _ _ _ Ec)) Hq)).
    - assert (Hq' := Hq). cbn [qok] in Hq'. apply andb_true_iff in Hq' as [Hqc _]. destruct (IHc bw Hqc) as (c' & cc & Ec).
      cbn [walk]. rewrite Ec. cbn [bindR fst snd]. apply finish_total.
      exact (proj1 (P0_qok lb _ _ (PRel_look _ _ _ _ _ lb neg bw sg eg c c' (walk_P _ _ _ _ Ec)) Hq)).
    - assert (Hq' := Hq). cbn [qok] in Hq'. apply andb_true_iff in Hq' as [Hq1 _]. apply andb_true_iff in Hq1 as [Hqb _].
      destruct (IHb lb Hqb) as (b' & cb & Eb).
      cbn [walk]. rewrite Eb. cbn [bindR fst snd]. apply finish_total.
      exact (proj1 (P0_qok lb _ _ (PRel_loop _ _ _ _ _ lb b b' mn mx g egs ege (walk_P _ _ _ _ Eb)) Hq)).
    - assert (Hq' := Hq). cbn [qok] in Hq'. apply andb_true_iff in Hq' as [Hq1 _]. apply andb_true_iff in Hq1 as [Hqb _].
      destruct (IHb lb Hqb) as (b' & cb & Eb).
      cbn [walk]. rewrite Eb. cbn [bindR fst snd]. apply finish_total.
      exact (proj1 (P0_qok lb _ _ (PRel_l1 _ _ _ _ _ lb b b' mn mx g (walk_P _ _ _ _ Eb)) Hq)).
  Qed.

  (* the loop either runs out of fuel or returns a node of the same shape class *)
  Theorem fixpoint_total : forall fuel n, qok n = true ->
    (exists n', run_to_fixpoint func fuel n = Ok n' /\ qok n' = true /\ ng n' = ng n) \/ run_to_fixpoint func fuel n = Err Unreach.
  Proof.
    induction fuel as [|k IH]; intros n Hq; [right; reflexivity|]. cbn [run_to_fixpoint].
    destruct (walk_total n false Hq) as (m & ch & Ew). rewrite Ew. cbn [bindR fst snd].
    destruct (P0_qok false n m (walk_P _ _ _ _ Ew) Hq) as [Qm Nm].
    destruct ch.
    - destruct (IH m Qm) as [(n' & E & Q & N)|E]; [left; exists n'; split; [exact E|split; [exact Q|congruence]]|right; exact E].
    - left. exists m. split; [reflexivity|split; assumption].
  Qed.
End Total.

(* ---- no pass hits a panic site on a qok node ---- *)
Lemma l1_body_ng b : l1_body_ok b = true -> ng b = 0.
Proof. destruct b; try reflexivity; cbn; discriminate. Qed.

Lemma list_sum_zero l : list_sum l = 0 -> Forall (fun x => x = 0) l.
Proof. induction l as [|a l IH]; [constructor|]. change (list_sum (a :: l)) with (a + list_sum l). intros H. constructor; [lia|apply IH; lia]. Qed.

Lemma try_dup_ok : forall n d, qok n = true -> ng n = 0 -> exists r, try_duplicate n d = Ok r.
Proof.
  induction n as [n Hleaf|l H|a b IHa IHb|id c nm IHc|neg bw sg eg c IHc|b mn mx g egs ege IHb|b mn mx g IHb] using node_ind2;
    intros d Hq Hn.
  - destruct n; try contradiction; cbn [try_duplicate]; destruct (100 <? d); eauto.
  - cbn [try_duplicate]. destruct (100 <? d); [eauto|]. cbn [qok] in Hq. cbn [ng] in Hn. apply list_sum_zero in Hn.
    assert (Hgo : exists o,
      (fix go (l : list node) : R (option (list node)) :=
         match l with
         | [] => Ok (Some [])
         | x :: t =>
             do rx <- try_duplicate x (S d);
             match rx with
             | None => Ok None
             | Some x' => do rt <- go t; Ok (option_map (cons x') rt)
             end
         end) l = Ok o).
    { induction H as [|x l Hx Hl IH]; [eauto|]. cbn [forallb] in Hq. apply andb_true_iff in Hq as [Hqx Hql].
      cbn [map] in Hn. inversion Hn as [|? ? Hnx Hnl]; subst.
      destruct (Hx (S d) Hqx Hnx) as [[x'|] Ex]; rewrite Ex; cbn [bindR]; [|eauto].
      destruct (IH Hql Hnl) as [o Eo]. rewrite Eo. cbn [bindR]. eauto. }
    destruct Hgo as [o Eo]. rewrite Eo. cbn [bindR]. eauto.
  - cbn [try_duplicate]. destruct (100 <? d); [eauto|]. cbn [qok] in Hq. apply andb_true_iff in Hq as [Hqa Hqb]. cbn [ng] in Hn.
    destruct (IHa (S d) Hqa ltac:(lia)) as [[a'|] Ea]; rewrite Ea; cbn [bindR]; [|eauto].
    destruct (IHb (S d) Hqb ltac:(lia)) as [rb Eb]. rewrite Eb. cbn [bindR]. eauto.
  - cbn [ng] in Hn. discriminate.
  - cbn [try_duplicate]. destruct (100 <? d); [eauto|]. cbn [qok] in Hq. apply andb_true_iff in Hq as [Hqc Hg]. cbn [ng] in Hn.
    apply Nat.eqb_eq in Hg. destruct (sg <? eg) eqn:El; [apply Nat.ltb_lt in El; lia|].
    destruct (IHc (S d) Hqc Hn) as [rc Ec]. rewrite Ec. cbn [bindR]. eauto.
  - cbn [try_duplicate]. destruct (100 <? d); [eauto|]. cbn [qok] in Hq. apply andb_true_iff in Hq as [Hq1 Hg].
    apply andb_true_iff in Hq1 as [Hqb _]. cbn [ng] in Hn. apply Nat.eqb_eq in Hg.
    destruct (egs <? ege) eqn:El; [apply Nat.ltb_lt in El; lia|].
    destruct (IHb (S d) Hqb Hn) as [rb Eb]. rewrite Eb. cbn [bindR]. eauto.
  - cbn [try_duplicate]. destruct (100 <? d); [eauto|]. cbn [qok] in Hq. apply andb_true_iff in Hq as [Hq1 Hl].
    apply andb_true_iff in Hq1 as [Hqb _].
    destruct (IHb (S d) Hqb (l1_body_ng _ Hl)) as [rb Eb]. rewrite Eb. cbn [bindR]. eauto.
Qed.

Lemma dup_n_ok body : qok body = true -> ng body = 0 -> forall k, exists r, dup_n body k = Ok r.
Proof.
  intros Hq Hn. induction k as [|k [r IH]]; cbn [dup_n]; [eauto|].
  destruct (try_dup_ok body 0 Hq Hn) as [[x|] Ex]; rewrite Ex; cbn [bindR]; [|eauto]. rewrite IH. cbn [bindR]. eauto.
Qed.

Lemma brackets_ok lb n : qok n = true -> exists a, simplify_brackets lb n = Ok a.
Proof.
  intros _. destruct n; cbn [simplify_brackets]; eauto. destruct (try_reduce_bracket b); [eauto|]. destruct (_ <? _); eauto.
Qed.
Lemma decat_ok lb n : qok n = true -> exists a, decat lb n = Ok a.
Proof.
  intros _. destruct n; cbn [decat]; eauto. destruct l as [|x [|y t]]; eauto. destruct (existsb is_cat (x :: y :: t)); eauto.
Qed.
Lemma unroll_ok lb n : qok n = true -> exists a, unroll_loops lb n = Ok a.
Proof.
  intros Hq. destruct n as [| |c|bs|bs|cs|l|n1 n2| | |sl ml|iv ui|id c nm|gr ic|b|alts ic|neg bw sg eg n|n mn mx g egs ege|n mn mx g];
    cbn [unroll_loops]; eauto.
  destruct (egs <? ege) eqn:El; [eauto|]. destruct ((mn =? 0)%N || (LOOP_UNROLL_THRESHOLD <? mn)%N); [eauto|].
  destruct (negb (fst (is_unrollable n UNROLL_BODY_BUDGET))); [eauto|].
  cbn [qok] in Hq. apply andb_true_iff in Hq as [Hq1 Hg]. apply andb_true_iff in Hq1 as [Hqb _].
  apply Nat.eqb_eq in Hg. apply Nat.ltb_ge in El.
  destruct (dup_n_ok n Hqb ltac:(lia) (N.to_nat mn)) as [[copies|] Ed]; rewrite Ed; cbn [bindR]; eauto.
Qed.
Lemma one_char_ng n : matches_exactly_one_char n = true -> ng n = 0.
Proof. destruct n; try reflexivity; cbn; discriminate. Qed.
Lemma promote_ok lb n : qok n = true -> exists a, promote_1char_loops lb n = Ok a.
Proof.
  intros Hq. destruct n as [| |c|bs|bs|cs|l|n1 n2| | |sl ml|iv ui|id c nm|gr ic|b|alts ic|neg bw sg eg n|n mn mx g egs ege|n mn mx g];
    cbn [promote_1char_loops]; eauto.
  destruct (matches_exactly_one_char n) eqn:Em; cbn [negb]; [|eauto].
  cbn [qok] in Hq. apply andb_true_iff in Hq as [_ Hg]. apply Nat.eqb_eq in Hg. rewrite (one_char_ng _ Em) in Hg.
  destruct (egs <? ege) eqn:El; [apply Nat.ltb_lt in El; lia|eauto].
Qed.
Lemma literal_ok lb n : qok n = true -> exists a, form_literal_bytes lb n = Ok a.
Proof.
  intros _. destruct n; cbn [form_literal_bytes]; eauto.
  - destruct (is_scalar c); eauto.
  - destruct (forallb _ cs); eauto.
  - destruct l as [|x t]; [eauto|]. destruct (merge_bytes_tail lb x t) as [l' m]. destruct m; eauto.
Qed.
Lemma empties_ok lb n : qok n = true -> exists a, remove_empties lb n = Ok a.
Proof.
  intros _. destruct n; cbn [remove_empties]; eauto.
  - destruct bs; eauto.
  - destruct (_ =? _); [eauto|]. destruct (filter _ l) as [|x [|y t]]; eauto.
  - destruct (is_empty_node n1 && is_empty_node n2); eauto.
  - destruct (negb negate && is_empty_node n); eauto.
  - match goal with |- exists a, (if ?c then _ else _) = _ => destruct c end; eauto.
Qed.
Lemma fails_ok lb n : qok n = true -> exists a, propagate_early_fails lb n = Ok a.
Proof.
  intros _. unfold propagate_early_fails. destruct (contains_capture_groups n); [eauto|]. destruct n; eauto.
  - destruct (existsb match_always_fails l); eauto.
  - destruct (match_always_fails n1), (match_always_fails n2); eauto.
  - destruct (egs <? ege); [eauto|]. destruct ((0 <? min)%N && match_always_fails n); eauto.
Qed.

(* ---- optimize() on a qok node: from some fuel on it is Ok, of the same class and group count ---- *)
Definition good (n : node) (r : R node) : Prop := exists n', r = Ok n' /\ qok n' = true /\ ng n' = ng n.

Theorem optimize_total : forall u16 n, qok n = true ->
  exists F n', qok n' = true /\ ng n' = ng n /\ forall fuel, F <= fuel -> optimize_with fuel u16 n = Ok n'.
Proof.
  intros u16 n Hq. destruct (optimize_settles u16 n) as (F & r & Hr & HE).
  assert (Hg : good n r \/ r = Err Unreach).
  { rewrite <- (HE F (Nat.le_refl F)). unfold optimize_with.
    assert (St : forall func (Hl : forall lb n a, func lb n = Ok a -> P0 lb n (act_node a n))
                   (Ho : forall lb n, qok n = true -> exists a, func lb n = Ok a) m (k : node -> R node) n0,
               qok m = true -> ng m = ng n0 ->
               (forall x, qok x = true -> ng x = ng n0 -> good n0 (k x) \/ k x = Err Unreach) ->
               good n0 (do x <- run_to_fixpoint func F m; k x) \/ (do x <- run_to_fixpoint func F m; k x) = Err Unreach).
    { intros func Hl Ho m k n0 Hqm Hnm Hk. destruct (fixpoint_total func Hl Ho F m Hqm) as [(x & E & Q & N)|E]; rewrite E; cbn [bindR].
      - apply Hk; [exact Q|congruence].
      - right. reflexivity. }
    apply (St _ brackets_loc brackets_ok); [exact Hq|reflexivity|]. intros n0 Q0 N0.
    apply (St _ decat_loc decat_ok); [exact Q0|exact N0|]. intros n1 Q1 N1.
    apply (St _ unroll_loc unroll_ok); [exact Q1|exact N1|]. intros n2 Q2 N2.
    apply (St _ promote_loc promote_ok); [exact Q2|exact N2|]. intros n3 Q3 N3.
    assert (Tail : forall n4, qok n4 = true -> ng n4 = ng n ->
              good n (do n5 <- run_to_fixpoint remove_empties F n4; run_to_fixpoint propagate_early_fails F n5) \/
              (do n5 <- run_to_fixpoint remove_empties F n4; run_to_fixpoint propagate_early_fails F n5) = Err Unreach).
    { intros n4 Q4 N4. apply (St _ empties_loc empties_ok); [exact Q4|exact N4|]. intros n5 Q5 N5.
      destruct (fixpoint_total _ fails_loc fails_ok F n5 Q5) as [(x & E & Q & N)|E]; rewrite E.
      - left. exists x. split; [reflexivity|split; [exact Q|congruence]].
      - right. reflexivity. }
    destruct u16; cbn [bindR].
    - apply Tail; assumption.
    - apply (St _ literal_loc literal_ok); [exact Q3|exact N3|]. intros n4 Q4 N4. apply Tail; assumption. }
  destruct Hg as [(n' & Er & Q & N)|Eu]; [|contradiction].
  exists F, n'. split; [exact Q|]. split; [exact N|]. intros fuel Hle. rewrite (HE fuel Hle). exact Er.
Qed.
