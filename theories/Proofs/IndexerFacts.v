(* IndexerFacts.v — the two hypotheses the backtracker theorem makes about an indexer, for the two concrete
   indexers: elements read from the haystack are elements a pattern character can equal, and stepping right
   stays within the haystack. *)
From RV Require Import Base.
From RV.Model Require Import Utf8 Indexer.

Lemma decoded_scalar cp p c p' : decoded cp p = Ok (Some (c, p')) -> is_scalar c = true.
Proof. unfold decoded. destruct (is_scalar cp) eqn:E; intro H; inversion H; subst. exact E. Qed.

Lemma small_scalar b : b <? 128 = true -> is_scalar b = true.
Proof. intro H. apply N.ltb_lt in H. unfold is_scalar. 
  repeat match goal with |- context [?a <? ?b] => destruct (N.ltb_spec a b) | |- context [?a <=? ?b] => destruct (N.leb_spec a b) end; simpl; try reflexivity; lia.
Qed.

Lemma utf8_elem fold h fwd p c p' : cnext (utf8_indexer fold) fwd h p = Ok (Some (c, p')) -> is_scalar c = true.
Proof.
  unfold cnext. destruct fwd; simpl.
  - unfold u8_next_right. destruct (p =? length h)%nat; [discriminate|].
    destruct (getb h p) as [e|b0]; cbn [bindR]; [discriminate|].
    destruct (b0 <? 128) eqn:Eb; [intro H; inversion H; subst; apply small_scalar; exact Eb|].
    destruct (utf8_seq_len b0) as [|[|[|[|[|k]]]]]; try discriminate;
      repeat match goal with |- context [getb h ?q] => destruct (getb h q) as [?|?]; cbn [bindR]; [discriminate|] end;
      apply decoded_scalar.
  - unfold u8_next_left. destruct (p =? 0)%nat; [discriminate|].
    repeat match goal with
           | |- context [psub ?a ?b] => destruct (psub a b) as [?|?]; cbn [bindR]; [discriminate|]
           | |- context [getb h ?q] => destruct (getb h q) as [?|?]; cbn [bindR]; [discriminate|]
           | |- context [if ?c <? 128 then _ else _] => destruct (c <? 128) eqn:?; [intro H; inversion H; subst; apply small_scalar; assumption|]
           | |- context [if negb ?c then _ else _] => destruct (negb c); [apply decoded_scalar|]
           end.
    apply decoded_scalar.
Qed.

Definition bytes_ok (h : hay) : Prop := Forall (fun b => b < 256) h.

Lemma getb_ok h p b : bytes_ok h -> getb h p = Ok b -> b <? 256 = true.
Proof.
  intros Hb. unfold getb. destruct (nth_error h p) as [x|] eqn:E; [|discriminate]. intro H; inversion H; subst.
  apply N.ltb_lt. unfold bytes_ok in Hb. rewrite Forall_forall in Hb. apply Hb. eapply nth_error_In; eauto.
Qed.

Lemma ascii_elem h fwd p c p' : bytes_ok h -> cnext ascii_indexer fwd h p = Ok (Some (c, p')) -> ix_elem_of_u32 ascii_indexer c = true.
Proof.
  intro Hb. unfold cnext. destruct fwd; simpl.
  - unfold as_next_right. destruct (p =? length h)%nat; [discriminate|].
    destruct (getb h p) as [e|b] eqn:Eg; cbn [bindR]; [discriminate|]. intro H; inversion H; subst. eapply getb_ok; eauto.
  - unfold as_next_left. destruct (p =? 0)%nat; [discriminate|].
    destruct (psub p 1) as [e|q]; cbn [bindR]; [discriminate|].
    destruct (getb h q) as [e|b] eqn:Eg; cbn [bindR]; [discriminate|]. intro H; inversion H; subst. eapply getb_ok; eauto.
Qed.

Lemma ascii_next_bound h p p' : ix_next_right_pos ascii_indexer h p = Ok (Some p') -> (p' <= length h)%nat.
Proof.
  simpl. unfold as_next_right_pos, try_move_right.
  destruct (p <=? length h)%nat eqn:E; cbn [bindR]; [|discriminate]. apply Nat.leb_le in E.
  destruct (length h - p <? 1)%nat eqn:E2; [discriminate|]. apply Nat.ltb_ge in E2. intro H; inversion H; subst. lia.
Qed.

Lemma walk_ok_ascii h : forall fuel p, (p <= length h)%nat -> walk_ok ascii_indexer h fuel p = true.
Proof.
  induction fuel as [|f IH]; intros p Hp; [reflexivity|]. cbn [walk_ok].
  replace (p <=? length h)%nat with true by (symmetry; apply Nat.leb_le; exact Hp). cbn [andb].
  destruct (ix_next_right_pos ascii_indexer h p) as [e|[p'|]] eqn:E; try reflexivity.
  apply IH. eapply ascii_next_bound; eauto.
Qed.

(* stepping right moves right; stepping left from a position > 0 finds something (or fails), never "nothing" *)
Lemma u8_right_gt fold h q q' : ix_next_right_pos (utf8_indexer fold) h q = Ok (Some q') -> (q < q')%nat.
Proof.
  simpl. unfold u8_next_right_pos. destruct (q =? length h)%nat; [discriminate|].
  destruct (getb h q) as [e|b0]; cbn [bindR]; [discriminate|].
  destruct (b0 <? 128) eqn:E; intro H; inversion H; subst; [lia|].
  unfold utf8_seq_len. rewrite E. destruct (N.land b0 240 =? 224); [lia|]. destruct (N.land b0 240 =? 240); lia.
Qed.
Lemma ascii_right_gt h q q' : ix_next_right_pos ascii_indexer h q = Ok (Some q') -> (q < q')%nat.
Proof.
  simpl. unfold as_next_right_pos, try_move_right. destruct (q <=? length h)%nat; cbn [bindR]; [|discriminate].
  destruct (length h - q <? 1)%nat; [discriminate|]. intro H; inversion H; lia.
Qed.
Lemma u8_left_some fold h q : (0 < q)%nat -> ix_next_left (utf8_indexer fold) h q <> Ok None.
Proof.
  intro Hq. simpl. unfold u8_next_left. replace (q =? 0)%nat with false by (symmetry; apply Nat.eqb_neq; lia).
  unfold psub, decoded.
  repeat match goal with
         | |- context [(?k <=? q)%nat] => destruct (k <=? q)%nat; cbn [bindR]; [|discriminate]
         | |- context [getb h ?x] => destruct (getb h x) as [?|?]; cbn [bindR]; [discriminate|]
         | |- context [if ?c <? 128 then _ else _] => destruct (c <? 128); [discriminate|]
         | |- context [if negb ?c then _ else _] => destruct (negb c)
         | |- context [is_scalar ?v] => destruct (is_scalar v); discriminate
         end.
Qed.
Lemma ascii_left_some h q : (0 < q)%nat -> ix_next_left ascii_indexer h q <> Ok None.
Proof.
  intro Hq. simpl. unfold as_next_left. replace (q =? 0)%nat with false by (symmetry; apply Nat.eqb_neq; lia).
  unfold psub. destruct (1 <=? q)%nat; cbn [bindR]; [|discriminate]. destruct (getb h (q - 1)); cbn [bindR]; discriminate.
Qed.
