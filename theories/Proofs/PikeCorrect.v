(* PikeCorrect.v — the PikeVM model executes the code emit produces for an IR node as the ordered list of
   successes of the IR semantics (IRSem.v): compile correctness, by induction on the fuel of ir_results. *)
From RV Require Import Base.
From RV.Model Require Import Utf8 Indexer CodePointSet Insn IR Optimizer Unfold Emit Pike.
From RV.Spec Require Import IRSem.
From RV.Proofs Require Import NodeInd PikeDen.

Section Correct.
  Variable ix : indexer.
  Variable prog : program.
  Variable h : hay.
  Variable utf16 : bool.
  Notation unicode := (p_unicode prog).
  Notation Den := (Den ix prog h).
  Notation onto := (onto ix prog h).

  Definition code_at (off : nat) (code : list insn) : Prop :=
    forall i x, nth_error code i = Some x -> nth_error (p_insns prog) (off + i) = Some x.

  Lemma code_at_app off a b : code_at off (a ++ b) -> code_at off a /\ code_at (off + length a) b.
  Proof.
    intro H. split; intros i x Hi.
    - apply H. rewrite nth_error_app1; auto. apply nth_error_Some. congruence.
    - replace (off + length a + i)%nat with (off + (length a + i))%nat by lia. apply H.
      rewrite nth_error_app2 by lia. replace (length a + i - length a)%nat with i by lia. exact Hi.
  Qed.
  Lemma code_at_cons off x c : code_at off (x :: c) -> nth_error (p_insns prog) off = Some x /\ code_at (S off) c.
  Proof.
    intro H. split.
    - replace off with (off + 0)%nat by lia. apply H. reflexivity.
    - intros i y Hi. replace (S off + i)%nat with (off + S i)%nat by lia. apply H. exact Hi.
  Qed.

  Definition brackets_ok (es : estate) : Prop :=
    forall i b, nth_error (es_brackets es) i = Some b -> nth_error (p_brackets prog) i = Some b.

  Definition obs (s : pstate) : mst := (ps_pos s, ps_groups s).

  Definition at_end (s : pstate) (e lo hi : nat) (s' : pstate) : Prop :=
    ps_ip s' = e /\ ps_l1 s' = 0 /\ length (ps_loops s') = length (ps_loops s) /\
    forall i, (i < lo \/ hi <= i)%nat -> nth_error (ps_loops s') i = nth_error (ps_loops s) i.

  Lemma at_end_trans s s1 s2 e1 e2 lo mid hi : (lo <= mid)%nat -> (mid <= hi)%nat ->
    at_end s e1 lo mid s1 -> at_end s1 e2 mid hi s2 -> at_end s e2 lo hi s2.
  Proof.
    intros H1 H2 (A1 & A2 & A3 & A4) (B1 & B2 & B3 & B4). repeat split; auto; try congruence.
    intros i Hi. rewrite B4 by lia. apply A4. lia.
  Qed.
  Lemma at_end_widen s s' e lo hi lo' hi' : (lo' <= lo)%nat -> (hi <= hi')%nat -> at_end s e lo hi s' -> at_end s e lo' hi' s'.
  Proof. intros H1 H2 (A1 & A2 & A3 & A4). repeat split; auto. intros i Hi. apply A4. lia. Qed.

  (* a state moved to another ip / position, nothing else touched *)
  Definition moved (s : pstate) (ip p : nat) : pstate := ps_set_pos (ps_set_ip s ip) p.
  Lemma at_end_moved s ip p lo hi : ps_l1 s = 0 -> at_end s ip lo hi (moved s ip p).
  Proof. intro H. unfold at_end, moved. simpl. auto. Qed.

  (* ---------------- single-step instructions ---------------- *)
  Definition simple_insn (i : insn) : bool :=
    match i with
    | Char _ | JustFail | CharSet _ | ByteSet _ | ByteSeq _ | AsciiBracket _ | MatchAny | MatchAnyExceptLT => true
    | _ => false
    end.

  Definition simple_step (i : insn) (fwd : bool) (p : nat) : option (R (option nat)) :=
    match i with
    | Char c => Some (char_pike ix c fwd h p)
    | JustFail => Some (Ok None)
    | other => match1 ix (dummy_prog (p_unicode prog)) other fwd h p
    end.

  Lemma match1_prog_irrelevant i fwd p pr1 pr2 : simple_insn i = true ->
    match1 ix pr1 i fwd h p = match1 ix pr2 i fwd h p.
  Proof. destruct i; simpl; intro H; try discriminate; reflexivity. Qed.

  Lemma step_simple nested fwd s i r : nth_error (p_insns prog) (ps_ip s) = Some i -> simple_insn i = true ->
    simple_step i fwd (ps_pos s) = Some (Ok r) ->
    pk_step ix prog h nested fwd s =
    inr (match r with Some p' => PContinue (moved s (S (ps_ip s)) p') | None => PFail end).
  Proof.
    intros Hi Hs Hr. unfold pk_step. rewrite Hi.
    destruct i; simpl in Hs; try discriminate; simpl in Hr; injection Hr as Hr'; cbn [match1];
      try rewrite Hr'; try (injection Hr' as <-); unfold adv_or_fail; cbn [bindR]; try destruct r; try discriminate; reflexivity.
  Qed.

  Definition not_look (i : insn) : bool :=
    match i with Lookahead _ _ _ _ | Lookbehind _ _ _ _ => false | _ => true end.
  Lemma look_dir_none s i : nth_error (p_insns prog) (ps_ip s) = Some i -> not_look i = true -> look_dir prog s = None.
  Proof. intros Hi Hn. unfold look_dir. rewrite Hi. destruct i; simpl in Hn; try discriminate; reflexivity. Qed.
  Lemma simple_not_look i : simple_insn i = true -> not_look i = true.
  Proof. destruct i; simpl; auto. Qed.

  Lemma moved_moved s a b c d : moved (moved s a b) c d = moved s c d.
  Proof. reflexivity. Qed.
  Lemma moved_self s : moved s (ps_ip s) (ps_pos s) = s.
  Proof. destruct s; reflexivity. Qed.

  (* a straight-line run of single-step instructions *)
  Lemma run_insns_onto fwd code : forall off s, code_at off code -> forallb simple_insn code = true -> ps_ip s = off ->
    forall r, run_insns ix (p_unicode prog) h code fwd (ps_pos s) = Some r ->
    onto fwd [s] (match r with Some p' => [moved s (off + length code) p'] | None => [] end).
  Proof.
    induction code as [|i code IH]; intros off s Hc Hs Hip r Hr.
    - simpl in Hr. inversion Hr; subst. simpl. rewrite Nat.add_0_r, moved_self. apply onto_refl.
    - simpl in Hs. apply andb_true_iff in Hs as [Hsi Hsc]. apply code_at_cons in Hc as [Hi Hc].
      rewrite <- Hip in Hi.
      cbn [run_insns] in Hr.
      change (match i with Char c => Some (char_pike ix c fwd h (ps_pos s)) | JustFail => Some (Ok None)
                      | other => match1 ix (dummy_prog (p_unicode prog)) other fwd h (ps_pos s) end)
        with (simple_step i fwd (ps_pos s)) in Hr.
      destruct (simple_step i fwd (ps_pos s)) as [[e|[p'|]]|] eqn:Est; try discriminate.
      + (* the instruction matched: continue with the rest *)
        eapply onto_trans.
        * apply (onto_step ix prog h fwd s (PContinue (moved s (S (ps_ip s)) p'))).
          -- eapply look_dir_none; eauto. apply simple_not_look; assumption.
          -- apply (step_simple _ fwd s i (Some p')); assumption.
          -- discriminate.
        * simpl push.
          specialize (IH (S off) (moved s (S (ps_ip s)) p') Hc Hsc).
          assert (Hip' : ps_ip (moved s (S (ps_ip s)) p') = S off) by (simpl; congruence).
          specialize (IH Hip' r Hr).
          replace (off + length (i :: code))%nat with (S off + length code)%nat by (simpl; lia).
          destruct r; exact IH.
      + (* the instruction failed *)
        inversion Hr; subst.
        apply (onto_step ix prog h fwd s PFail).
        * eapply look_dir_none; eauto. apply simple_not_look; assumption.
        * apply (step_simple _ fwd s i None); assumption.
        * discriminate.
  Qed.

  (* leaves: emit produces exactly leaf_code, which is made of single-step instructions *)
  Lemma emit_leaf n lb es off code : leaf_code lb n = Some code ->
    emit_node utf16 (p_unicode prog) n off lb es = Ok (code, es).
  Proof.
    destruct n; simpl; intro H; try discriminate; try (inversion H; subst; reflexivity).
    - destruct (emit_byte_set bs); [discriminate|]. inversion H; subst. reflexivity.
    - destruct (emit_char_set cs); [discriminate|]. inversion H; subst. reflexivity.
    - destruct (bracket_as_ascii b); [|discriminate]. inversion H; subst. reflexivity.
  Qed.

  Lemma leaf_code_simple n lb code : leaf_code lb n = Some code -> forallb simple_insn code = true.
  Proof.
    destruct n; simpl; intro H; try discriminate; try (inversion H; subst; reflexivity).
    - inversion H; subst. unfold emit_byte_sequence. induction (if lb then _ else _); simpl; auto.
    - unfold emit_byte_set in H. destruct (length bs) as [|[|[|[|[|k]]]]]; inversion H; subst; reflexivity.
    - unfold emit_char_set in H. destruct cs; [inversion H; subst; reflexivity|].
      destruct (4 <? length (n :: cs))%nat; inversion H; subst; reflexivity.
    - destruct (bracket_as_ascii b); inversion H; subst; reflexivity.
  Qed.

  (* ---------------- threading result lists through the machine ---------------- *)
  Lemma obindm_app {A} (f : A -> option (list mst)) a b ra rb :
    obindm f a = Some ra -> obindm f b = Some rb -> obindm f (a ++ b) = Some (ra ++ rb).
  Proof.
    revert ra; induction a as [|x a IH]; intros ra Ha Hb; simpl in *.
    - inversion Ha; subst. exact Hb.
    - destruct (f x) as [rx|]; [|discriminate]. destruct (obindm f a) as [r2|]; [|discriminate].
      inversion Ha; subst. rewrite (IH r2 eq_refl Hb). rewrite app_assoc. reflexivity.
  Qed.

  Lemma bind_states fwd (P : pstate -> pstate -> Prop) (rf : mst -> option (list mst)) ss ys :
    obindm rf (map obs ss) = Some ys ->
    (forall s l, In s ss -> rf (obs s) = Some l -> exists tt, map obs tt = l /\ Forall (P s) tt /\ onto fwd [s] tt) ->
    exists tts, map obs (concat tts) = ys /\ Forall2 (fun s tt => Forall (P s) tt /\ onto fwd [s] tt) ss tts.
  Proof.
    revert ys; induction ss as [|s ss IH]; intros ys Hb Hf; simpl in Hb.
    - inversion Hb; subst. exists []. split; [reflexivity|constructor].
    - destruct (rf (obs s)) as [l|] eqn:El; [|discriminate].
      destruct (obindm rf (map obs ss)) as [r2|] eqn:E2; [|discriminate]. inversion Hb; subst.
      destruct (Hf s l (or_introl eq_refl) El) as (tt & Ht1 & Ht2 & Ht3).
      destruct (IH r2 eq_refl) as (tts & Hs1 & Hs2).
      { intros s' l' Hin. apply Hf. right; exact Hin. }
      exists (tt :: tts). split.
      + simpl. rewrite map_app, Ht1, Hs1. reflexivity.
      + constructor; auto.
  Qed.

  Lemma onto_of_forall2 fwd (P : pstate -> pstate -> Prop) ss tts :
    Forall2 (fun s tt => Forall (P s) tt /\ onto fwd [s] tt) ss tts -> onto fwd ss (concat tts).
  Proof.
    intro H. apply onto_concat. induction H; constructor; auto. destruct H; assumption.
  Qed.

  (* every end state of a list, each relative to its own start *)
  Lemma forall2_at_end (Q : pstate -> Prop) (P : pstate -> pstate -> Prop) (R : pstate -> Prop) ss tts fwd :
    Forall Q ss -> (forall s t, Q s -> P s t -> R t) ->
    Forall2 (fun s tt => Forall (P s) tt /\ onto fwd [s] tt) ss tts -> Forall R (concat tts).
  Proof.
    intros HQ HPR H. induction H as [|s tt ss tts [Hp _] H2 IH]; simpl; [constructor|].
    inversion HQ; subst. apply Forall_app. split; [|apply IH; assumption].
    eapply Forall_impl; [|exact Hp]. intros t Ht. eapply HPR; eauto.
  Qed.

  (* ---------------- the supported fragment (grows as cases are proved) ---------------- *)
  (* the fragment: every node; Loop1CharBody bodies are single instructions (IRSem.ir_wf) *)
  Notation supported := ir_wf.

  Definition node_ok (f : nat) : Prop := forall n fwd off es code es' x l,
    supported n = true ->
    ir_results ix (p_unicode prog) utf16 h f n fwd x = Some l ->
    emit_node utf16 (p_unicode prog) n off (negb fwd) es = Ok (code, es') ->
    code_at off code -> brackets_ok es' ->
    forall s, ps_ip s = off -> obs s = x -> ps_l1 s = 0 -> (es_next_loop es' <= length (ps_loops s))%nat ->
    exists ss, map obs ss = l /\
               Forall (at_end s (off + length code) (es_next_loop es) (es_next_loop es')) ss /\
               onto fwd [s] ss.

  Lemma results_of_inv x r l : results_of x r = Some l ->
    exists q, r = Some q /\ l = match q with Some p' => [(p', snd x)] | None => [] end.
  Proof. destruct r as [[p'|]|]; simpl; intro H; inversion H; eauto. Qed.

  (* leaves handled through leaf_code *)
  Lemma leaf_ok n fwd off es code es' x l :
    leaf_code (negb fwd) n = Some code ->
    (match leaf_code (negb fwd) n with Some c => results_of x (run_insns ix (p_unicode prog) h c fwd (fst x)) | None => None end) = Some l ->
    emit_node utf16 (p_unicode prog) n off (negb fwd) es = Ok (code, es') ->
    code_at off code ->
    forall s, ps_ip s = off -> obs s = x -> ps_l1 s = 0 ->
    exists ss, map obs ss = l /\
               Forall (at_end s (off + length code) (es_next_loop es) (es_next_loop es')) ss /\
               onto fwd [s] ss.
  Proof.
    intros Hl Hr He Hc s Hip Hobs Hl1.
    rewrite Hl in Hr. rewrite (emit_leaf n (negb fwd) es off code Hl) in He. inversion He; subst es'. clear He.
    apply results_of_inv in Hr as (q & Hq & ->).
    assert (Hp : fst x = ps_pos s) by (rewrite <- Hobs; reflexivity). rewrite Hp in Hq.
    pose proof (run_insns_onto fwd code off s Hc (leaf_code_simple _ _ _ Hl) Hip q Hq) as Ho.
    destruct q as [p'|].
    - exists [moved s (off + length code) p']. repeat split.
      + simpl. unfold obs; simpl. rewrite <- Hobs. reflexivity.
      + constructor; [|constructor]. apply at_end_moved; assumption.
      + exact Ho.
    - exists []. repeat split; [constructor | exact Ho].
  Qed.

  Lemma brackets_ok_mono es es' : es_extends es es' -> brackets_ok es' -> brackets_ok es.
  Proof.
    intros (_ & _ & extra & E) H i b Hi. apply H. rewrite E. rewrite nth_error_app1; auto.
    apply nth_error_Some. congruence.
  Qed.

  (* plain one-instruction steps *)
  Lemma onto_plain fwd s i m : nth_error (p_insns prog) (ps_ip s) = Some i -> not_look i = true ->
    pk_step ix prog h (fun _ _ => PNoMatch) fwd s = inr m -> m <> PComplete -> onto fwd [s] (push m []).
  Proof. intros Hi Hn E Hm. eapply onto_step; eauto. eapply look_dir_none; eauto. Qed.

  Lemma step_jump nested fwd s t : nth_error (p_insns prog) (ps_ip s) = Some (Jump t) ->
    pk_step ix prog h nested fwd s = inr (PContinue (ps_set_ip s t)).
  Proof. intro H. unfold pk_step. rewrite H. reflexivity. Qed.

  Lemma step_alt nested fwd s sec : nth_error (p_insns prog) (ps_ip s) = Some (Alt sec) ->
    pk_step ix prog h nested fwd s = inr (PSplit (ps_set_ip s sec) (ps_set_ip s (S (ps_ip s)))).
  Proof. intro H. unfold pk_step. rewrite H. reflexivity. Qed.

  Lemma at_end_set_ip s s' e e' lo hi : at_end s e lo hi s' -> at_end s e' lo hi (ps_set_ip s' e').
  Proof. intros (A1 & A2 & A3 & A4). repeat split; auto. Qed.

  Section Cases.
    Variable f : nat.
    Hypothesis IHf : node_ok f.

    (* sequence *)
    Lemma cat_ok fwd l : forall off es code es' xs ys ss s0 lo0,
      supported (NCat l) = true ->
      cat_results (fun c => ir_results ix (p_unicode prog) utf16 h f c fwd) l xs = Some ys ->
      emit_node utf16 (p_unicode prog) (NCat l) off (negb fwd) es = Ok (code, es') ->
      code_at off code -> brackets_ok es' ->
      map obs ss = xs -> (lo0 <= es_next_loop es)%nat ->
      Forall (fun s => at_end s0 off lo0 (es_next_loop es) s) ss ->
      (es_next_loop es' <= length (ps_loops s0))%nat ->
      exists tt, map obs tt = ys /\ Forall (at_end s0 (off + length code) lo0 (es_next_loop es')) tt /\ onto fwd ss tt.
    Proof.
      induction l as [|c l IHl]; intros off es code es' xs ys ss s0 lo0 Hsup Hr He Hc Hb Hobs Hlo Hss Hlen.
      - simpl in Hr, He. inversion Hr; inversion He; subst. exists ss. repeat split; auto.
        + simpl. rewrite Nat.add_0_r. exact Hss.
        + apply onto_refl.
      - simpl in Hsup. apply andb_true_iff in Hsup as [Hsc Hsl].
        cbn [cat_results] in Hr.
        destruct (obindm (fun x => ir_results ix (p_unicode prog) utf16 h f c fwd x) xs) as [ys1|] eqn:Eb; [|discriminate].
        simpl in He.
        destruct (emit_node utf16 (p_unicode prog) c off (negb fwd) es) as [e|[cc ec]] eqn:Ec; simpl in He; [discriminate|].
        match type of He with (do rt <- ?r; _) = _ => destruct r as [e|[ct et]] eqn:Et; simpl in He; [discriminate|] end.
        inversion He; subst code es'. clear He.
        apply code_at_app in Hc as [Hcc Hct].
        pose proof (emit_extends _ _ _ _ _ _ _ _ Ec) as Hx1.
        assert (Het : emit_node utf16 (p_unicode prog) (NCat l) (off + length cc) (negb fwd) ec = Ok (ct, et)) by exact Et.
        pose proof (emit_extends _ _ _ _ _ _ _ _ Het) as Hx2.
        assert (Hbc : brackets_ok ec) by (eapply brackets_ok_mono; eauto).
        destruct Hx1 as (L1 & _ & _). destruct Hx2 as (L2 & _ & _).
        (* run c from every current state *)
        rewrite <- Hobs in Eb.
        destruct (bind_states fwd (fun s t => at_end s (off + length cc) (es_next_loop es) (es_next_loop ec) t) _ ss ys1 Eb)
          as (tts & Ht1 & Ht2).
        { intros s l0 Hin Hrs.
          rewrite Forall_forall in Hss. destruct (Hss s Hin) as (A1 & A2 & A3 & A4).
          eapply (IHf c fwd off es cc ec (obs s) l0); eauto. lia. }
        (* then the rest from the new states *)
        destruct (IHl (off + length cc)%nat ec ct et ys1 ys (concat tts) s0 lo0) as (tt & Hu1 & Hu2 & Hu3); auto; try lia.
        { apply (forall2_at_end (fun s => at_end s0 off lo0 (es_next_loop es) s)
                   (fun s t => at_end s (off + length cc) (es_next_loop es) (es_next_loop ec) t) _ ss tts fwd); auto.
          intros s t Hs Ht. eapply at_end_trans; [| |exact Hs|exact Ht]; lia. }
        exists tt. repeat split; auto.
        + rewrite app_length, Nat.add_assoc. exact Hu2.
        + eapply onto_trans; [eapply onto_of_forall2; exact Ht2 | exact Hu3].
    Qed.

    (* alternation: Alt right; <a>; Jump exit; <b> *)
    Lemma alt_ok fwd a b off es code es' x l : supported a = true -> supported b = true ->
      ir_results ix (p_unicode prog) utf16 h (S f) (NAlt a b) fwd x = Some l ->
      emit_node utf16 (p_unicode prog) (NAlt a b) off (negb fwd) es = Ok (code, es') ->
      code_at off code -> brackets_ok es' ->
      forall s, ps_ip s = off -> obs s = x -> ps_l1 s = 0 -> (es_next_loop es' <= length (ps_loops s))%nat ->
      exists ss, map obs ss = l /\ Forall (at_end s (off + length code) (es_next_loop es) (es_next_loop es')) ss /\ onto fwd [s] ss.
    Proof.
      intros Ha Hb Hr He Hc Hbr s Hip Hobs Hl1 Hlen.
      destruct x as [p gs]. cbn [ir_results] in Hr.
      destruct (ir_results ix (p_unicode prog) utf16 h f a fwd (p, gs)) as [u|] eqn:Eu; [|discriminate].
      destruct (ir_results ix (p_unicode prog) utf16 h f b fwd (p, gs)) as [v|] eqn:Ev; [|discriminate].
      inversion Hr; subst l. clear Hr.
      simpl in He.
      destruct (emit_node utf16 (p_unicode prog) a (S off) (negb fwd) es) as [e|[ca ea]] eqn:Ea; simpl in He; [discriminate|].
      destruct (emit_node utf16 (p_unicode prog) b (off + 2 + length ca) (negb fwd) ea) as [e|[cb eb]] eqn:Eb; simpl in He; [discriminate|].
      inversion He; subst code es'. clear He.
      apply code_at_cons in Hc as [Hi0 Hc]. apply code_at_app in Hc as [Hca Hc].
      apply code_at_cons in Hc as [Hij Hcb].
      pose proof (emit_extends _ _ _ _ _ _ _ _ Ea) as Hx1. pose proof (emit_extends _ _ _ _ _ _ _ _ Eb) as Hx2.
      assert (Hbra : brackets_ok ea) by (eapply brackets_ok_mono; eauto).
      destruct Hx1 as (L1 & _ & _). destruct Hx2 as (L2 & _ & _).
      set (right := (off + 2 + length ca)%nat) in *.
      set (exit := (right + length cb)%nat) in *.
      set (sl := ps_set_ip s (S (ps_ip s))). set (sr := ps_set_ip s right).
      (* left branch *)
      destruct (IHf a fwd (S off) es ca ea (p, gs) u Ha Eu Ea Hca Hbra sl) as (ssa & A1 & A2 & A3);
        try (unfold sl; simpl; auto; try congruence; lia).
      (* right branch *)
      destruct (IHf b fwd right ea cb eb (p, gs) v Hb Ev Eb) with (s := sr) as (ssb & B1 & B2 & B3);
        try (unfold sr; simpl; auto; try congruence; try lia).
      { replace (S (off + length ca)) with (S off + length ca)%nat in Hcb by lia.
        replace right with (S (S off + length ca))%nat by (subst right; lia). exact Hcb. }
      assert (Hexit : (off + S (length (ca ++ Jump exit :: cb)))%nat = exit)
        by (unfold exit, right; rewrite app_length; simpl; lia).
      rewrite Hexit.
      (* the left results jump over the right branch *)
      exists (map (fun t => ps_set_ip t exit) ssa ++ ssb). repeat split.
      + rewrite map_app, map_map. rewrite <- A1, <- B1. f_equal.
      + apply Forall_app. split.
        * apply Forall_forall. intros t Ht. apply in_map_iff in Ht as (t0 & <- & Ht0).
          rewrite Forall_forall in A2. specialize (A2 t0 Ht0).
          apply at_end_set_ip with (e := (S off + length ca)%nat).
          destruct A2 as (Q1 & Q2 & Q3 & Q4). repeat split; auto.
          intros i Hi. apply Q4. lia.
        * eapply Forall_impl; [|exact B2]. intros t Ht.
          destruct Ht as (Q1 & Q2 & Q3 & Q4). repeat split; auto.
          intros i Hi. apply Q4. lia.
      + (* s --Alt--> [sl; sr] ; sl ~> ssa --Jump--> ...; sr ~> ssb *)
        eapply onto_trans.
        * apply (onto_plain fwd s (Alt right) (PSplit sr sl)); auto.
          -- rewrite Hip. exact Hi0.
          -- apply step_alt. rewrite Hip. exact Hi0.
          -- discriminate.
        * simpl push. change [sl; sr] with ([sl] ++ [sr]). apply onto_app; [|exact B3].
          eapply onto_trans; [exact A3|].
          (* each left result executes the Jump *)
          clear A3 A1. induction ssa as [|t ssa IHs]; [apply onto_refl|].
          pose proof (Forall_inv A2) as Ht. pose proof (Forall_inv_tail A2) as Hts. simpl map.
          change (t :: ssa) with ([t] ++ ssa). change (ps_set_ip t exit :: map (fun t0 => ps_set_ip t0 exit) ssa)
            with ([ps_set_ip t exit] ++ map (fun t0 => ps_set_ip t0 exit) ssa).
          apply onto_app; [|apply IHs; assumption].
          destruct Ht as (Q1 & _).
          apply (onto_plain fwd t (Jump exit) (PContinue (ps_set_ip t exit))); auto.
          -- rewrite Q1. replace (S off + length ca)%nat with (S (off + length ca)) by lia. exact Hij.
          -- apply step_jump. rewrite Q1. replace (S off + length ca)%nat with (S (off + length ca)) by lia. exact Hij.
          -- discriminate.
    Qed.
    (* capture group: BeginCG id; <c>; EndCG id *)
    Lemma group_ok fwd id c nm off es code es' x l : supported c = true ->
      ir_results ix (p_unicode prog) utf16 h (S f) (NCaptureGroup id c nm) fwd x = Some l ->
      emit_node utf16 (p_unicode prog) (NCaptureGroup id c nm) off (negb fwd) es = Ok (code, es') ->
      code_at off code -> brackets_ok es' ->
      forall s, ps_ip s = off -> obs s = x -> ps_l1 s = 0 -> (es_next_loop es' <= length (ps_loops s))%nat ->
      exists ss, map obs ss = l /\ Forall (at_end s (off + length code) (es_next_loop es) (es_next_loop es')) ss /\ onto fwd [s] ss.
    Proof.
      intros Hsc Hr He Hc Hbr s Hip Hobs Hl1 Hlen.
      destruct x as [p gs]. cbn [ir_results] in Hr.
      destruct (upd_group id (set_group_start fwd p) gs) as [gs1|] eqn:E1; [|discriminate].
      destruct (ir_results ix (p_unicode prog) utf16 h f c fwd (p, gs1)) as [lc|] eqn:Ec; [|discriminate].
      simpl in He.
      match type of He with (do rc <- emit_node _ _ _ _ _ ?e1; _) = _ => set (es1 := e1) in * end.
      destruct (emit_node utf16 (p_unicode prog) c (S off) (negb fwd) es1) as [e|[cc ec]] eqn:Eem; simpl in He; [discriminate|].
      inversion He; subst code es'. clear He.
      apply code_at_cons in Hc as [Hi0 Hc]. apply code_at_app in Hc as [Hcc Hce]. apply code_at_cons in Hce as [Hie _].
      rewrite <- Hip in Hi0.
      assert (Hp : ps_pos s = p) by (unfold obs in Hobs; congruence).
      assert (Hg : ps_groups s = gs) by (unfold obs in Hobs; congruence).
      pose proof (emit_extends _ _ _ _ _ _ _ _ Eem) as (L1 & _ & _). simpl in L1.
      set (s1 := ps_set_ip (ps_set_groups s gs1) (S (ps_ip s))).
      assert (Hstep1 : pk_step ix prog h (fun _ _ => PNoMatch) fwd s = inr (PContinue s1)).
      { unfold pk_step. rewrite Hi0. unfold set_group. rewrite Hg, Hp.
        unfold upd_group in E1. destruct (nth_error gs id) as [gd|]; [|discriminate].
        inversion E1; subst gs1. unfold set_group_start. destruct fwd; reflexivity. }
      destruct (IHf c fwd (S off) es1 cc ec (p, gs1) lc Hsc Ec Eem Hcc Hbr s1) as (ssc & C1 & C2 & C3);
        try (unfold s1, obs; simpl; first [reflexivity | congruence | lia | assumption]).
      (* every result runs the EndCG *)
      set (E := (S off + length cc)%nat) in *.
      set (rf := fun y : mst => match upd_group id (set_group_end fwd (fst y)) (snd y) with
                                | Some g2 => Some [(fst y, g2)] | None => None end).
      rewrite <- C1 in Hr.
      destruct (bind_states fwd (fun t t' => ps_ip t' = S E /\ ps_l1 t' = ps_l1 t /\ ps_loops t' = ps_loops t) rf ssc l Hr)
        as (tts & T1 & T2).
      { intros t l0 Hin Hrf. rewrite Forall_forall in C2. destruct (C2 t Hin) as (Q1 & Q2 & Q3 & Q4).
        unfold rf in Hrf. simpl in Hrf.
        destruct (upd_group id (set_group_end fwd (ps_pos t)) (ps_groups t)) as [g2|] eqn:E2; [|discriminate].
        inversion Hrf; subst l0.
        exists [ps_set_ip (ps_set_groups t g2) (S (ps_ip t))]. repeat split.
        - constructor; [|constructor]. simpl. repeat split; auto; congruence.
        - apply (onto_plain fwd t (EndCG id) (PContinue (ps_set_ip (ps_set_groups t g2) (S (ps_ip t))))); auto.
          + rewrite Q1. exact Hie.
          + assert (Hie' : nth_error (p_insns prog) (ps_ip t) = Some (EndCG id)) by (rewrite Q1; exact Hie).
            unfold pk_step. rewrite Hie'. unfold set_group.
            unfold upd_group in E2. destruct (nth_error (ps_groups t) id) as [gd|]; [|discriminate].
            inversion E2; subst g2. unfold set_group_end. destruct fwd; reflexivity.
          + discriminate. }
      exists (concat tts). repeat split; auto.
      - apply (forall2_at_end (fun t => at_end s1 E (es_next_loop es1) (es_next_loop ec) t)
                 (fun t t' => ps_ip t' = S E /\ ps_l1 t' = ps_l1 t /\ ps_loops t' = ps_loops t) _ ssc tts fwd); auto.
        intros t t' (Q1 & Q2 & Q3 & Q4) (R1 & R2 & R3). repeat split.
        + rewrite R1. unfold E. simpl. rewrite app_length. simpl. lia.
        + congruence.
        + rewrite R3. exact Q3.
        + intros i Hi. rewrite R3. apply Q4. exact Hi.
      - eapply onto_trans.
        + apply (onto_plain fwd s (BeginCG id) (PContinue s1)); auto. discriminate.
        + simpl push. eapply onto_trans; [exact C3|]. eapply onto_of_forall2. exact T2.
    Qed.

    (* lookaround: Look..; <c>; Goal — the contents run as a nested attempt in their own direction *)
    Lemma look_ok fwd ng bw sg eg c off es code es' x l : supported c = true ->
      ir_results ix (p_unicode prog) utf16 h (S f) (NLookaround ng bw sg eg c) fwd x = Some l ->
      emit_node utf16 (p_unicode prog) (NLookaround ng bw sg eg c) off (negb fwd) es = Ok (code, es') ->
      code_at off code -> brackets_ok es' ->
      forall s, ps_ip s = off -> obs s = x -> ps_l1 s = 0 -> (es_next_loop es' <= length (ps_loops s))%nat ->
      exists ss, map obs ss = l /\ Forall (at_end s (off + length code) (es_next_loop es) (es_next_loop es')) ss /\ onto fwd [s] ss.
    Proof.
      intros Hsc Hr He Hc Hbr s Hip Hobs Hl1 Hlen.
      destruct x as [p gs]. cbn [ir_results] in Hr.
      destruct (ir_results ix (p_unicode prog) utf16 h f c (negb bw) (p, gs)) as [lc|] eqn:Ec; [|discriminate].
      simpl in He.
      destruct (emit_node utf16 (p_unicode prog) c (S off) bw es) as [e|[cc ec]] eqn:Eem; simpl in He; [discriminate|].
      inversion He; subst code es'. clear He.
      apply code_at_cons in Hc as [Hi0 Hc]. apply code_at_app in Hc as [Hcc Hce]. apply code_at_cons in Hce as [Hie _].
      rewrite <- Hip in Hi0 at 1.
      assert (Hp : ps_pos s = p) by (unfold obs in Hobs; congruence).
      assert (Hg : ps_groups s = gs) by (unfold obs in Hobs; congruence).
      pose proof (emit_extends _ _ _ _ _ _ _ _ Eem) as (L1 & _ & _).
      set (cont := (off + 1 + length cc + 1)%nat) in *.
      assert (Hcont : (off + length ((if bw then Lookbehind ng sg eg cont else Lookahead ng sg eg cont) :: cc ++ [Goal]))%nat = cont).
      { unfold cont. simpl. rewrite app_length. simpl. lia. }
      rewrite Hcont.
      set (s1 := ps_set_ip s (S (ps_ip s))).
      assert (Eem' : emit_node utf16 (p_unicode prog) c (S off) (negb (negb bw)) es = Ok (cc, ec))
        by (rewrite Bool.negb_involutive; exact Eem).
      destruct (IHf c (negb bw) (S off) es cc ec (p, gs) lc Hsc Ec Eem' Hcc Hbr s1) as (ssc & C1 & C2 & C3);
        try (unfold s1, obs; simpl; first [reflexivity | congruence | lia | assumption]).
      assert (Hld : look_dir prog s = Some (negb bw)).
      { unfold look_dir. rewrite Hi0. destruct bw; reflexivity. }
      set (nres := match ssc with [] => None | y :: _ => Some y end).
      assert (Hden : Den (negb bw) [s1] nres).
      { specialize (C3 [] nres). rewrite app_nil_r in C3. simpl in C3. apply C3.
        unfold nres. destruct ssc as [|y rest]; [constructor|].
        pose proof (Forall_inv C2) as (Q1 & _).
        assert (Hgy : nth_error (p_insns prog) (ps_ip y) = Some Goal) by (rewrite Q1; exact Hie).
        apply (D_complete ix prog h (negb bw) y rest None).
        - constructor. unfold look_dir. rewrite Hgy. reflexivity.
        - unfold pk_step. rewrite Hgy. reflexivity. }
      assert (Hstep : pk_step ix prog h (fun _ _ => out_of nres) fwd s =
                      inr (match nres with
                           | Some y => if ng then PFail else PContinue (ps_set_pos (ps_set_ip y cont) (ps_pos s))
                           | None => if ng then PContinue (ps_set_pos (ps_set_ip s1 cont) (ps_pos s)) else PFail
                           end)).
      { unfold pk_step. rewrite Hi0. destruct bw; unfold pk_lookaround; fold s1; destruct nres; reflexivity. }
      subst lc. unfold nres in *. destruct ssc as [|y rest]; simpl in Hr; inversion Hr; subst l; clear Hr.
      - (* the contents do not match *)
        destruct ng.
        + exists [ps_set_pos (ps_set_ip s1 cont) (ps_pos s)]. repeat split.
          * simpl. unfold obs. simpl. rewrite Hp, Hg. reflexivity.
          * constructor; [|constructor]. repeat split; auto.
          * apply (onto_look ix prog h fwd s (negb bw) None (PContinue (ps_set_pos (ps_set_ip s1 cont) (ps_pos s)))); auto. discriminate.
        + exists []. repeat split; [constructor|].
          apply (onto_look ix prog h fwd s (negb bw) None PFail); auto. discriminate.
      - pose proof (Forall_inv C2) as (Q1 & Q2 & Q3 & Q4).
        destruct ng.
        + exists []. repeat split; [constructor|].
          apply (onto_look ix prog h fwd s (negb bw) (Some y) PFail); auto. discriminate.
        + exists [ps_set_pos (ps_set_ip y cont) (ps_pos s)]. repeat split.
          * simpl. unfold obs. simpl. rewrite Hp. reflexivity.
          * constructor; [|constructor]. repeat split; auto.
          * apply (onto_look ix prog h fwd s (negb bw) (Some y) (PContinue (ps_set_pos (ps_set_ip y cont) (ps_pos s)))); auto. discriminate.
    Qed.
    (* ---------------- loops ---------------- *)
    Lemma at_end_same s s1 s2 e1 e2 lo hi : at_end s e1 lo hi s1 -> at_end s1 e2 lo hi s2 -> at_end s e2 lo hi s2.
    Proof.
      intros (A1 & A2 & A3 & A4) (B1 & B2 & B3 & B4). repeat split; auto; try congruence.
      intros i Hi. rewrite B4 by exact Hi. apply A4. exact Hi.
    Qed.

    (* the ResetCG prefix of a loop body *)
    Lemma resets_onto fwd : forall n lo gs g1 st,
      reset_groups gs lo n = Some g1 -> code_at (ps_ip st) (map ResetCG (seq lo n)) -> ps_groups st = gs ->
      onto fwd [st] [ps_set_ip (ps_set_groups st g1) (ps_ip st + n)].
    Proof.
      induction n as [|n IH]; intros lo gs g1 st Hr Hc Hg.
      - simpl in Hr. inversion Hr; subst g1. rewrite Nat.add_0_r. rewrite <- Hg.
        replace (ps_set_ip (ps_set_groups st (ps_groups st)) (ps_ip st)) with st by (destruct st; reflexivity).
        apply onto_refl.
      - cbn [reset_groups] in Hr. destruct (upd_group lo (fun _ => gd_empty) gs) as [gs'|] eqn:Eu; [|discriminate].
        simpl in Hc. apply code_at_cons in Hc as [Hi Hc].
        set (st1 := ps_set_ip (ps_set_groups st gs') (S (ps_ip st))).
        eapply onto_trans.
        + apply (onto_plain fwd st (ResetCG lo) (PContinue st1)); auto.
          * unfold pk_step. rewrite Hi. unfold set_group. rewrite Hg. unfold upd_group in Eu.
            destruct (nth_error gs lo) as [gd|]; [|discriminate]. inversion Eu; subst gs'. reflexivity.
          * discriminate.
        + simpl push. specialize (IH (S lo) gs' g1 st1 Hr Hc eq_refl).
          replace (ps_set_ip (ps_set_groups st g1) (ps_ip st + S n)) with (ps_set_ip (ps_set_groups st1 g1) (ps_ip st1 + n)).
          * exact IH.
          * unfold st1. simpl. unfold ps_set_ip, ps_set_groups. simpl. f_equal. lia.
    Qed.

    Section Loop.
      Variables (fwd : bool) (body : node) (mn : N) (mx : option N) (gr : bool) (egs ege : nat).
      Variables (off lid exit again : nat) (es1 eb : estate) (cb : list insn).
      Let MX := max_val mx.
      Let resets := map ResetCG (seq egs (ege - egs)).
      Hypothesis Hsb : supported body = true.
      Hypothesis Hi_enter : nth_error (p_insns prog) off = Some (EnterLoop lid mn MX gr exit).
      Hypothesis Hc_resets : code_at (S off) resets.
      Hypothesis Hc_body : code_at (off + 1 + length resets) cb.
      Hypothesis Hagain : again = (off + 1 + length resets + length cb)%nat.
      Hypothesis Hi_again : nth_error (p_insns prog) again = Some (LoopAgain off).
      Hypothesis Eb : emit_node utf16 (p_unicode prog) body (off + 1 + length resets) (negb fwd) es1 = Ok (cb, eb).
      Hypothesis Hbr : brackets_ok eb.
      Hypothesis Hlid : es_next_loop es1 = S lid.

      Definition loop_pt (t : pstate) (k : N) (entry : nat) : Prop :=
        (k = 0 /\ ps_ip t = off) \/
        (exists k', k = k' + 1 /\ ps_ip t = again /\ nth_error (ps_loops t) lid = Some (mkLD k' entry)).

      Definition loop_decision (k : N) (entry : nat) (t : pstate) : smatch :=
        if (0 <? k) && (mn <? k) && (entry =? ps_pos t)%nat then PFail
        else
          let s1 := ps_set_ip (ps_set_loops t (set_nth lid (mkLD k (ps_pos t)) (ps_loops t))) (S off) in
          if negb (k <? MX) && negb (mn <=? k) then PFail
          else if negb (k <? MX) then PContinue (ps_set_ip s1 exit)
          else if negb (mn <=? k) then PContinue s1
          else if gr then PSplit (ps_set_ip s1 exit) s1 else PSplit s1 (ps_set_ip s1 exit).

      Lemma loop_step nested t k entry : loop_pt t k entry -> (lid < length (ps_loops t))%nat ->
        pk_step ix prog h nested fwd t = inr (loop_decision k entry t).
      Proof.
        intros [[-> Hip]|(k' & -> & Hip & Hld)] Hlen.
        - unfold pk_step. rewrite Hip, Hi_enter. unfold pk_run_loop.
          destruct (nth_error (ps_loops t) lid) as [ld|] eqn:El; [|apply nth_error_None in El; lia].
          unfold loop_decision. rewrite Hip.
          replace (0 <? 0) with false by reflexivity. cbn [andb negb].
          replace (mn =? 0) with (mn <=? 0) by (destruct (N.eqb_spec mn 0), (N.leb_spec mn 0); try reflexivity; lia).
          destruct (0 <? MX), (mn <=? 0), gr; reflexivity.
        - unfold pk_step. rewrite Hip, Hi_again, Hi_enter. unfold pk_run_loop. cbn [ps_loops ps_set_ip].
          rewrite Hld. cbn [negb ld_iters ld_entry ps_pos ps_set_ip andb].
          unfold loop_decision.
          replace (0 <? k' + 1) with true by (symmetry; apply N.ltb_lt; lia). cbn [andb].
          destruct ((mn <? k' + 1) && (entry =? ps_pos t)%nat); [reflexivity|].
          destruct (k' + 1 <? MX), (mn <=? k' + 1), gr; reflexivity.
      Qed.

      Lemma loop_dec : forall lf k entry y l t,
        loop_results (ir_results ix (p_unicode prog) utf16 h f body fwd) mn mx gr egs ege lf k entry y = Some l ->
        obs t = y -> ps_l1 t = 0 -> (es_next_loop eb <= length (ps_loops t))%nat -> loop_pt t k entry ->
        exists ss, map obs ss = l /\ Forall (at_end t exit lid (es_next_loop eb)) ss /\ onto fwd [t] ss.
      Proof.
        pose proof (emit_extends _ _ _ _ _ _ _ _ Eb) as (Lx & _ & _). rewrite Hlid in Lx.
        induction lf as [|lf IH]; intros k entry y l t Hr Hobs Hl1 Hlen Hpt; [discriminate|].
        assert (Hll : (lid < length (ps_loops t))%nat) by lia.
        pose proof (loop_step (fun _ _ => PNoMatch) t k entry Hpt Hll) as Hstep.
        assert (Hnl : exists i, nth_error (p_insns prog) (ps_ip t) = Some i /\ not_look i = true).
        { destruct Hpt as [[_ Hip]|(k' & _ & Hip & _)]; rewrite Hip; eauto. }
        destruct Hnl as (i0 & Hi0 & Hn0).
        assert (Hpos : fst y = ps_pos t) by (rewrite <- Hobs; reflexivity).
        assert (Hgrp : snd y = ps_groups t) by (rewrite <- Hobs; reflexivity).
        cbn [loop_results] in Hr. unfold loop_decision in Hstep. rewrite Hpos in Hr.
        destruct ((0 <? k) && (mn <? k) && (entry =? ps_pos t)%nat).
        { inversion Hr; subst l. exists []. repeat split; [constructor|].
          apply (onto_plain fwd t i0 PFail); auto. discriminate. }
        fold MX in Hr.
        set (s1 := ps_set_ip (ps_set_loops t (set_nth lid (mkLD k (ps_pos t)) (ps_loops t))) (S off)) in *.
        (* the exit continuation *)
        assert (Hexit : obs (ps_set_ip s1 exit) = y /\ at_end t exit lid (es_next_loop eb) (ps_set_ip s1 exit)).
        { split; [rewrite <- Hobs; reflexivity|]. unfold s1. repeat split; simpl; auto.
          - apply set_nth_length.
          - intros i Hi. apply nth_error_set_nth_neq. lia. }
        destruct Hexit as [Hex1 Hex2].
        (* the iterate continuation, when taken *)
        assert (Hiter : forall it,
                  match reset_groups (snd y) egs (ege - egs) with
                  | None => None
                  | Some g1 => match ir_results ix (p_unicode prog) utf16 h f body fwd (ps_pos t, g1) with
                               | None => None
                               | Some zs => obindm (loop_results (ir_results ix (p_unicode prog) utf16 h f body fwd) mn mx gr egs ege lf (k + 1) (ps_pos t)) zs
                               end
                  end = Some it ->
                  exists ss, map obs ss = it /\ Forall (at_end t exit lid (es_next_loop eb)) ss /\ onto fwd [s1] ss).
        { intros it Hit.
          destruct (reset_groups (snd y) egs (ege - egs)) as [g1|] eqn:Erg; [|discriminate].
          destruct (ir_results ix (p_unicode prog) utf16 h f body fwd (ps_pos t, g1)) as [zs|] eqn:Ez; [|discriminate].
          set (s2 := ps_set_ip (ps_set_groups s1 g1) (ps_ip s1 + (ege - egs))).
          assert (Hs2 : onto fwd [s1] [s2]).
          { apply (resets_onto fwd (ege - egs) egs (snd y) g1 s1 Erg); [exact Hc_resets | rewrite Hgrp; reflexivity]. }
          assert (Hip2 : ps_ip s2 = (off + 1 + length resets)%nat).
          { unfold s2, s1, resets. simpl. rewrite map_length, seq_length. lia. }
          assert (Hat2 : at_end t (ps_ip s2) lid (es_next_loop eb) s2).
          { unfold s2, s1. repeat split; simpl; auto.
            - apply set_nth_length.
            - intros i Hi. apply nth_error_set_nth_neq. lia. }
          destruct (IHf body fwd (off + 1 + length resets)%nat es1 cb eb (ps_pos t, g1) zs Hsb Ez Eb Hc_body Hbr s2) as (ssb & B1 & B2 & B3);
            try (unfold s2, s1, obs; simpl; first [reflexivity | congruence | lia | assumption | (rewrite set_nth_length; lia)]).
          rewrite <- B1 in Hit.
          destruct (bind_states fwd (fun u v => at_end u exit lid (es_next_loop eb) v) _ ssb it Hit) as (tts & T1 & T2).
          { intros u l0 Hin Hu. rewrite Forall_forall in B2. destruct (B2 u Hin) as (Q1 & Q2 & Q3 & Q4).
            apply (IH (k + 1) (ps_pos t) (obs u) l0 u Hu eq_refl Q2).
            - rewrite Q3. unfold s2, s1. simpl. rewrite set_nth_length. exact Hlen.
            - right. exists k. repeat split.
              + rewrite Q1, Hagain. reflexivity.
              + rewrite Q4 by (rewrite Hlid; lia). unfold s2, s1. simpl. apply nth_error_set_nth_eq. exact Hll. }
          exists (concat tts). repeat split; auto.
          - apply (forall2_at_end (fun u => at_end s2 again (S lid) (es_next_loop eb) u)
                     (fun u v => at_end u exit lid (es_next_loop eb) v) _ ssb tts fwd).
            + rewrite Hagain. rewrite <- Hlid. exact B2.
            + intros u v Hu Hv. eapply at_end_same; [|exact Hv].
              eapply at_end_same; [exact Hat2|]. eapply at_end_widen; [| |exact Hu]; lia.
            + exact T2.
          - eapply onto_trans; [exact Hs2|]. eapply onto_trans; [exact B3|]. eapply onto_of_forall2. exact T2. }
        destruct (k <? MX) eqn:Een, (mn <=? k) eqn:Esk; cbn [negb andb] in Hr, Hstep.
        - (* both possible *)
          match type of Hr with match ?itx with _ => _ end = _ => destruct itx as [it|] eqn:Eit; [|discriminate] end.
          destruct (Hiter it eq_refl) as (ssi & I1 & I2 & I3).
          inversion Hr; subst l. clear Hr.
          destruct gr.
          + exists (ssi ++ [ps_set_ip s1 exit]). repeat split.
            * rewrite map_app, I1. simpl. rewrite Hex1. reflexivity.
            * apply Forall_app. split; [exact I2|]. constructor; [exact Hex2|constructor].
            * eapply onto_trans.
              -- apply (onto_plain fwd t i0 (PSplit (ps_set_ip s1 exit) s1)); auto. discriminate.
              -- simpl push. change [s1; ps_set_ip s1 exit] with ([s1] ++ [ps_set_ip s1 exit]).
                 apply onto_app; [exact I3|apply onto_refl].
          + exists (ps_set_ip s1 exit :: ssi). repeat split.
            * simpl. rewrite Hex1, I1. reflexivity.
            * constructor; [exact Hex2|exact I2].
            * eapply onto_trans.
              -- apply (onto_plain fwd t i0 (PSplit s1 (ps_set_ip s1 exit))); auto. discriminate.
              -- simpl push. change (ps_set_ip s1 exit :: ssi) with ([ps_set_ip s1 exit] ++ ssi).
                 change [ps_set_ip s1 exit; s1] with ([ps_set_ip s1 exit] ++ [s1]).
                 apply onto_app; [apply onto_refl|exact I3].
        - (* must iterate *)
          destruct (Hiter l Hr) as (ssi & I1 & I2 & I3).
          exists ssi. repeat split; auto.
          eapply onto_trans; [|exact I3].
          apply (onto_plain fwd t i0 (PContinue s1)); auto. discriminate.
        - (* must leave *)
          inversion Hr; subst l. exists [ps_set_ip s1 exit]. repeat split.
          + simpl. rewrite Hex1. reflexivity.
          + constructor; [exact Hex2|constructor].
          + apply (onto_plain fwd t i0 (PContinue (ps_set_ip s1 exit))); auto. discriminate.
        - inversion Hr; subst l. exists []. repeat split; [constructor|].
          apply (onto_plain fwd t i0 PFail); auto. discriminate.
      Qed.
    End Loop.

    Lemma loop_ok fwd body mn mx gr egs ege off es code es' x l : supported body = true ->
      ir_results ix (p_unicode prog) utf16 h (S f) (NLoop body mn mx gr egs ege) fwd x = Some l ->
      emit_node utf16 (p_unicode prog) (NLoop body mn mx gr egs ege) off (negb fwd) es = Ok (code, es') ->
      code_at off code -> brackets_ok es' ->
      forall s, ps_ip s = off -> obs s = x -> ps_l1 s = 0 -> (es_next_loop es' <= length (ps_loops s))%nat ->
      exists ss, map obs ss = l /\ Forall (at_end s (off + length code) (es_next_loop es) (es_next_loop es')) ss /\ onto fwd [s] ss.
    Proof.
      intros Hsb Hr He Hc Hbr s Hip Hobs Hl1 Hlen.
      destruct x as [p gs]. cbn [ir_results] in Hr.
      simpl in He.
      match type of He with (do rb <- emit_node _ _ _ ?o _ ?e1; _) = _ => set (es1 := e1) in *; set (boff := o) in * end.
      destruct (emit_node utf16 (p_unicode prog) body boff (negb fwd) es1) as [e|[cb eb]] eqn:Eb; simpl in He; [discriminate|].
      inversion He; subst code es'. clear He.
      apply code_at_cons in Hc as [Hi0 Hc]. apply code_at_app in Hc as [Hcr Hc]. apply code_at_app in Hc as [Hcb Hca].
      apply code_at_cons in Hca as [Hia _].
      set (resets := map ResetCG (seq egs (ege - egs))) in *.
      assert (Hboff : boff = (off + 1 + length resets)%nat) by reflexivity.
      set (exit := (off + 1 + length resets + length cb + 1)%nat) in *.
      match goal with |- context [at_end s ?e _ _] =>
        replace e with exit by (unfold exit, boff; simpl; rewrite !app_length; simpl; lia) end.
      apply (loop_dec fwd body mn mx gr egs ege off (es_next_loop es) exit (off + 1 + length resets + length cb)%nat es1 eb cb)
        with (lf := f) (k := 0) (entry := p) (y := (p, gs)); auto.
      - replace (S off + length resets)%nat with (off + 1 + length resets)%nat in Hcb by lia. exact Hcb.
      - replace (S off + length resets + length cb)%nat with (off + 1 + length resets + length cb)%nat in Hia by lia. exact Hia.
      - left. split; auto.
    Qed.
  End Cases.

  (* leaves through their emitted code *)
  Lemma leaf_ok' f n fwd off es code es' x l : leaf_code (negb fwd) n <> None ->
    (forall p gs, ir_results ix (p_unicode prog) utf16 h (S f) n fwd (p, gs) =
                  match leaf_code (negb fwd) n with
                  | Some c => results_of (p, gs) (run_insns ix (p_unicode prog) h c fwd p) | None => None end) ->
    ir_results ix (p_unicode prog) utf16 h (S f) n fwd x = Some l ->
    emit_node utf16 (p_unicode prog) n off (negb fwd) es = Ok (code, es') ->
    code_at off code ->
    forall s, ps_ip s = off -> obs s = x -> ps_l1 s = 0 ->
    exists ss, map obs ss = l /\
               Forall (at_end s (off + length code) (es_next_loop es) (es_next_loop es')) ss /\
               onto fwd [s] ss.
  Proof.
    intros Hl Hshape Hr He Hc s Hip Hobs Hl1.
    destruct (leaf_code (negb fwd) n) as [c|] eqn:El; [|congruence].
    pose proof (emit_leaf n (negb fwd) es off c El) as He'. rewrite He in He'. inversion He'; subst c es'.
    destruct x as [p gs]. rewrite Hshape in Hr.
    eapply leaf_ok; eauto. rewrite El. exact Hr.
  Qed.

  (* a bracket that needs the table *)
  Lemma bracket_ok b fwd off es code es' p gs l : bracket_as_ascii b = None ->
    match next_if ix fwd h p (bracket_matches b) with
    | Ok (Some p') => Some [(p', gs)] | Ok None => Some [] | Err _ => None end = Some l ->
    emit_node utf16 (p_unicode prog) (NBracket b) off (negb fwd) es = Ok (code, es') ->
    code_at off code -> brackets_ok es' ->
    forall s, ps_ip s = off -> obs s = (p, gs) -> ps_l1 s = 0 ->
    exists ss, map obs ss = l /\
               Forall (at_end s (off + length code) (es_next_loop es) (es_next_loop es')) ss /\
               onto fwd [s] ss.
  Proof.
    intros Hb Hr He Hc Hbr s Hip Hobs Hl1.
    simpl in He. rewrite Hb in He. inversion He; subst code es'. clear He.
    apply code_at_cons in Hc as [Hi _]. rewrite <- Hip in Hi.
    assert (Hnb : nth_error (p_brackets prog) (length (es_brackets es)) = Some b).
    { apply Hbr. simpl. rewrite nth_error_app2 by lia. rewrite Nat.sub_diag. reflexivity. }
    assert (Hp : ps_pos s = p) by (unfold obs in Hobs; congruence).
    assert (Hg : ps_groups s = gs) by (unfold obs in Hobs; congruence).
    assert (Hstep : forall r, next_if ix fwd h p (bracket_matches b) = Ok r ->
              pk_step ix prog h (fun _ _ => PNoMatch) fwd s =
              inr (match r with Some p' => PContinue (moved s (S (ps_ip s)) p') | None => PFail end)).
    { intros r Er. unfold pk_step. rewrite Hi. cbn [match1]. rewrite Hnb, Hp, Er. destruct r; reflexivity. }
    destruct (next_if ix fwd h p (bracket_matches b)) as [e|[p'|]] eqn:En; [discriminate| |]; inversion Hr; subst l.
    - exists [moved s (off + 1) p']. repeat split.
      + simpl. unfold obs. simpl. rewrite Hg. reflexivity.
      + constructor; [|constructor]. apply at_end_moved; assumption.
      + replace (off + 1)%nat with (S (ps_ip s)) by lia.
        apply (onto_plain fwd s (Bracket (length (es_brackets es))) (PContinue (moved s (S (ps_ip s)) p'))); auto.
        * apply (Hstep (Some p')). reflexivity.
        * discriminate.
    - exists []. repeat split; [constructor|].
      apply (onto_plain fwd s (Bracket (length (es_brackets es))) PFail); auto.
      + apply (Hstep None). reflexivity.
      + discriminate.
  Qed.

  (* one-instruction nodes whose step is a test of the current position *)
  Lemma cond_step_ok fwd s i (r : R bool) x l lo hi :
    nth_error (p_insns prog) (ps_ip s) = Some i -> not_look i = true ->
    pk_step ix prog h (fun _ _ => PNoMatch) fwd s =
      match (do b <- r; Ok (next_or_fail s b)) with Err e => inl (PError e) | Ok m => inr m end ->
    cond_results x r = Some l -> obs s = x -> ps_l1 s = 0 ->
    exists ss, map obs ss = l /\ Forall (at_end s (S (ps_ip s)) lo hi) ss /\ onto fwd [s] ss.
  Proof.
    intros Hi Hn Hstep Hr Hobs Hl1.
    destruct r as [e|[|]]; simpl in Hr; inversion Hr; subst l; simpl in Hstep.
    - exists [ps_set_ip s (S (ps_ip s))]. repeat split.
      + simpl. rewrite <- Hobs. reflexivity.
      + constructor; [|constructor]. repeat split; auto.
      + apply (onto_plain fwd s i (PContinue (ps_set_ip s (S (ps_ip s))))); auto. discriminate.
    - exists []. repeat split; [constructor|]. apply (onto_plain fwd s i PFail); auto. discriminate.
  Qed.

  (* ... or an attempt to advance *)
  Lemma adv_step_ok fwd s i (r : R (option nat)) l lo hi :
    nth_error (p_insns prog) (ps_ip s) = Some i -> not_look i = true ->
    pk_step ix prog h (fun _ _ => PNoMatch) fwd s =
      match adv_or_fail s r with Err e => inl (PError e) | Ok m => inr m end ->
    match r with Ok (Some p') => Some [(p', ps_groups s)] | Ok None => Some [] | Err _ => None end = Some l ->
    ps_l1 s = 0 ->
    exists ss, map obs ss = l /\ Forall (at_end s (S (ps_ip s)) lo hi) ss /\ onto fwd [s] ss.
  Proof.
    intros Hi Hn Hstep Hr Hl1.
    destruct r as [e|[p'|]]; inversion Hr; subst l; simpl in Hstep.
    - exists [moved s (S (ps_ip s)) p']. repeat split.
      + constructor; [|constructor]. apply at_end_moved; assumption.
      + apply (onto_plain fwd s i (PContinue (moved s (S (ps_ip s)) p'))); auto. discriminate.
    - exists []. repeat split; [constructor|]. apply (onto_plain fwd s i PFail); auto. discriminate.
  Qed.

  Lemma backref_go_prog pr1 pr2 fwd sub : p_unicode pr1 = p_unicode pr2 -> forall fuel rp p,
    backref_icase_go ix pr1 fuel fwd sub rp h p = backref_icase_go ix pr2 fuel fwd sub rp h p.
  Proof.
    intros Hu. induction fuel as [|k IH]; intros rp p; [reflexivity|].
    cbn [backref_icase_go]. destruct (cnext ix fwd sub rp) as [e|[[c1 rp']|]]; cbn [bindR]; try reflexivity.
    destruct (cnext ix fwd h p) as [e|[[c2 p']|]]; cbn [bindR]; try reflexivity.
    rewrite Hu, IH. reflexivity.
  Qed.
  Lemma backref_match_prog pr1 pr2 ic fwd p rs re : p_unicode pr1 = p_unicode pr2 ->
    backref_match ix pr1 ic fwd h p rs re = backref_match ix pr2 ic fwd h p rs re.
  Proof.
    intro Hu. unfold backref_match. destruct ic; [|reflexivity].
    destruct (re <? rs)%nat; [reflexivity|]. destruct (length h <? re)%nat; [reflexivity|].
    apply backref_go_prog. exact Hu.
  Qed.

  (* ---------------- Loop1CharBody ---------------- *)
  Definition pike_taken (bi : insn) (fwd : bool) (q : nat) : R (option nat) :=
    match bi with
    | Char c => char_pike ix c fwd h q
    | JustFail => Ok None
    | bi => match match1 ix prog bi fwd h q with Some r => r | None => Err Panic end
    end.

  Lemma l1_step nested fwd t mn MX gr bi :
    nth_error (p_insns prog) (ps_ip t) = Some (Loop1CharBody mn MX gr) ->
    nth_error (p_insns prog) (S (ps_ip t)) = Some bi ->
    pk_step ix prog h nested fwd t =
    match (do tk <- (if ps_l1 t <? MX then pike_taken bi fwd (ps_pos t) else Ok None);
           Ok (match tk, mn <=? ps_l1 t with
               | None, false => PFail
               | None, true => PContinue (ps_set_l1 (ps_set_ip t (ps_ip t + 2)) 0)
               | Some tp, false => PContinue (ps_set_l1 (ps_set_pos t tp) (ps_l1 t + 1))
               | Some tp, true =>
                   let iterate := ps_set_l1 (ps_set_pos t tp) (ps_l1 t + 1) in
                   let exit := ps_set_l1 (ps_set_ip t (ps_ip t + 2)) 0 in
                   if gr then PSplit exit iterate else PSplit iterate exit
               end)) with Err e => inl (PError e) | Ok m => inr m end.
  Proof.
    intros Hi Hb. unfold pk_step. rewrite Hi, Hb. unfold pike_taken. destruct bi; reflexivity.
  Qed.

  Lemma l1_dec fwd mn mx gr off bi (stepf : nat -> option (option nat)) chk gs lo hi :
    nth_error (p_insns prog) off = Some (Loop1CharBody mn (max_val mx) gr) ->
    nth_error (p_insns prog) (S off) = Some bi ->
    (forall q, stepf q = match pike_taken bi fwd q with Ok r => Some r | Err _ => None end) ->
    forall lf k q l t, l1_results stepf chk gs mn mx gr lf k q = Some l ->
      ps_ip t = off -> ps_pos t = q -> ps_groups t = gs -> ps_l1 t = k ->
      exists ss, map obs ss = l /\ Forall (at_end t (off + 2) lo hi) ss /\ onto fwd [t] ss.
  Proof.
    intros Hi Hb Hst. induction lf as [|lf IH]; intros k q l t Hr Hip Hpos Hg Hk; [discriminate|].
    cbn [l1_results] in Hr.
    assert (Hi' : nth_error (p_insns prog) (ps_ip t) = Some (Loop1CharBody mn (max_val mx) gr)) by (rewrite Hip; exact Hi).
    assert (Hb' : nth_error (p_insns prog) (S (ps_ip t)) = Some bi) by (rewrite Hip; exact Hb).
    pose proof (l1_step (fun _ _ => PNoMatch) fwd t mn (max_val mx) gr bi Hi' Hb') as Hstep.
    rewrite Hk, Hpos in Hstep.
    set (ex := ps_set_l1 (ps_set_ip t (ps_ip t + 2)) 0) in *.
    assert (Hex1 : obs ex = (q, gs)) by (unfold ex, obs; simpl; congruence).
    assert (Hex2 : at_end t (off + 2) lo hi ex) by (unfold ex; repeat split; simpl; auto; lia).
    assert (Htk : (if k <? max_val mx then stepf q else Some None) =
                  match (if k <? max_val mx then pike_taken bi fwd q else Ok None) with Ok r => Some r | Err _ => None end).
    { destruct (k <? max_val mx); [apply Hst|reflexivity]. }
    rewrite Htk in Hr.
    destruct (if k <? max_val mx then pike_taken bi fwd q else Ok None) as [e|[tp|]]; [discriminate| |]; cbn [bindR] in Hstep.
    - (* the body matched *)
      set (itst := ps_set_l1 (ps_set_pos t tp) (k + 1)) in *.
      destruct (chk q tp); [|discriminate].
      destruct (l1_results stepf chk gs mn mx gr lf (k + 1) tp) as [it|] eqn:Eit; [|discriminate].
      destruct (IH (k + 1) tp it itst Eit) as (ssi & I1 & I2 & I3);
        try (unfold itst; simpl; first [reflexivity | congruence | assumption]).
      assert (I2' : Forall (at_end t (off + 2) lo hi) ssi).
      { eapply Forall_impl; [|exact I2]. intros u (Q1 & Q2 & Q3 & Q4). repeat split; auto. }
      inversion Hr; subst l. clear Hr.
      destruct (mn <=? k).
      + destruct gr.
        * exists (ssi ++ [ex]). repeat split.
          -- rewrite map_app, I1. simpl. rewrite Hex1. reflexivity.
          -- apply Forall_app. split; [exact I2'|]. constructor; [exact Hex2|constructor].
          -- eapply onto_trans.
             ++ apply (onto_plain fwd t _ (PSplit ex itst) Hi'); auto. discriminate.
             ++ simpl push. change [itst; ex] with ([itst] ++ [ex]). apply onto_app; [exact I3|apply onto_refl].
        * exists (ex :: ssi). repeat split.
          -- simpl. rewrite Hex1, I1. reflexivity.
          -- constructor; [exact Hex2|exact I2'].
          -- eapply onto_trans.
             ++ apply (onto_plain fwd t _ (PSplit itst ex) Hi'); auto. discriminate.
             ++ simpl push. change (ex :: ssi) with ([ex] ++ ssi). change [ex; itst] with ([ex] ++ [itst]).
                apply onto_app; [apply onto_refl|exact I3].
      + exists ssi. repeat split; auto.
        eapply onto_trans; [|exact I3]. apply (onto_plain fwd t _ (PContinue itst) Hi'); auto. discriminate.
    - (* the body did not match, or the maximum is reached *)
      inversion Hr; subst l. clear Hr.
      destruct (mn <=? k).
      + exists [ex]. repeat split.
        * simpl. rewrite Hex1. reflexivity.
        * constructor; [exact Hex2|constructor].
        * apply (onto_plain fwd t _ (PContinue ex) Hi'); auto. discriminate.
      + exists []. repeat split; [constructor|]. apply (onto_plain fwd t _ PFail Hi'); auto. discriminate.
  Qed.

  Lemma l1_body_single body : l1_body_ok body = true -> forall lb lc, leaf_code lb body = Some lc -> exists bi, lc = [bi].
  Proof.
    intros Hok lb lc El.
    destruct body as [ | |c|bs|bs|cs|l0|a b| | |sol ml|inv ui|id c nm|g ic|b|alts icase|ng bw sg eg c|body' mn' mx' gr' egs ege|body' mn' mx' gr'];
      simpl in Hok, El; try discriminate; try (inversion El; subst; eauto; fail).
    - (* ByteSequence *)
      inversion El; subst lc.
      destruct (emit_byte_sequence false bs) as [|? [|? ?]] eqn:E1; try discriminate;
        destruct (emit_byte_sequence true bs) as [|? [|? ?]] eqn:E2; try discriminate.
      destruct lb; [rewrite E2|rewrite E1]; eauto.
    - (* ByteSet *) destruct (emit_byte_set bs) as [e|[|? [|? ?]]]; try discriminate. inversion El; eauto.
    - (* CharSet *) destruct (emit_char_set cs) as [e|[|? [|? ?]]]; try discriminate. inversion El; eauto.
    - (* Bracket *) destruct (bracket_as_ascii b); inversion El; eauto.
  Qed.

  Lemma run_insns_single bi fwd q : simple_insn bi = true ->
    run_insns ix (p_unicode prog) h [bi] fwd q = match pike_taken bi fwd q with Ok r => Some r | Err _ => None end.
  Proof.
    intro Hs. cbn [run_insns]. unfold pike_taken.
    destruct bi; simpl in Hs; try discriminate;
      try (rewrite (match1_prog_irrelevant _ fwd q (dummy_prog (p_unicode prog)) prog) by reflexivity; cbn [match1]);
      match goal with |- context [match ?r with Err _ => _ | Ok _ => _ end] => destruct r as [e|[p'|]]; reflexivity | _ => reflexivity end.
  Qed.

  (* the body of a Loop1CharBody is one instruction whose step is the one-step function of the semantics *)
  Lemma l1_body_insn body fwd off es cb eb stepf : l1_body_ok body = true ->
    single_step ix (p_unicode prog) h (negb fwd) body fwd = Some stepf ->
    emit_node utf16 (p_unicode prog) body off (negb fwd) es = Ok (cb, eb) -> brackets_ok eb ->
    exists bi, cb = [bi] /\ es_next_loop eb = es_next_loop es /\
      (forall q, stepf q = match pike_taken bi fwd q with Ok r => Some r | Err _ => None end) /\
      ((leaf_code (negb fwd) body = Some [bi] /\ simple_insn bi = true) \/ (exists idx, bi = Bracket idx)).
  Proof.
    intros Hok Ess Eb Hbr. unfold single_step in Ess.
    destruct (leaf_code (negb fwd) body) as [lc|] eqn:El.
    - inversion Ess; subst stepf. clear Ess.
      pose proof (emit_leaf body (negb fwd) es off lc El) as He'. rewrite Eb in He'. inversion He'; subst cb eb.
      pose proof (leaf_code_simple _ _ _ El) as Hsimp.
      destruct (l1_body_single body Hok (negb fwd) lc El) as (bi & ->). exists bi.
      simpl in Hsimp. apply andb_true_iff in Hsimp as [H1 _].
      split; [reflexivity|]. split; [reflexivity|]. split; [intro q; apply run_insns_single; exact H1|].
      left. split; [reflexivity|exact H1].
    - destruct body as [ | |c|bs|bs|cs|l0|a b| | |sol ml|inv ui|id c nm|g ic|b|alts icase|ng bw sg eg c|body' mn' mx' gr' egs ege|body' mn' mx' gr']; try discriminate. inversion Ess; subst stepf. clear Ess.
      simpl in El. destruct (bracket_as_ascii b) eqn:Ea; [discriminate|].
      simpl in Eb. rewrite Ea in Eb. inversion Eb; subst cb eb. clear Eb.
      exists (Bracket (length (es_brackets es))). split; [reflexivity|]. split; [reflexivity|]. split; [|right; eauto].
      intro q. unfold pike_taken. cbn [match1].
      assert (Hnb : nth_error (p_brackets prog) (length (es_brackets es)) = Some b).
      { apply Hbr. simpl. rewrite nth_error_app2 by lia. rewrite Nat.sub_diag. reflexivity. }
      rewrite Hnb. destruct (next_if ix fwd h q (bracket_matches b)); reflexivity.
  Qed.

  Lemma l1_ok f body mn mx gr fwd off es code es' x l : l1_body_ok body = true ->
    ir_results ix (p_unicode prog) utf16 h (S f) (NLoop1CharBody body mn mx gr) fwd x = Some l ->
    emit_node utf16 (p_unicode prog) (NLoop1CharBody body mn mx gr) off (negb fwd) es = Ok (code, es') ->
    code_at off code -> brackets_ok es' ->
    forall s, ps_ip s = off -> obs s = x -> ps_l1 s = 0 ->
    exists ss, map obs ss = l /\ Forall (at_end s (off + length code) (es_next_loop es) (es_next_loop es')) ss /\ onto fwd [s] ss.
  Proof.
    intros Hok Hr He Hc Hbr s Hip Hobs Hl1.
    destruct x as [p gs]. cbn [ir_results] in Hr.
    destruct (single_step ix (p_unicode prog) h (negb fwd) body fwd) as [stepf|] eqn:Ess; [|discriminate].
    simpl in He.
    destruct (emit_node utf16 (p_unicode prog) body (S off) (negb fwd) es) as [e|[cb eb]] eqn:Eb; simpl in He; [discriminate|].
    inversion He; subst code es'. clear He.
    assert (Hp : ps_pos s = p) by (unfold obs in Hobs; congruence).
    assert (Hg : ps_groups s = gs) by (unfold obs in Hobs; congruence).
    apply code_at_cons in Hc as [Hi0 Hcb].
    destruct (l1_body_insn body fwd (S off) es cb eb stepf Hok Ess Eb Hbr) as (bi & Hcbe & _ & Hst & _).
    assert (Hbody : exists bi, cb = [bi] /\ forall q, stepf q = match pike_taken bi fwd q with Ok r => Some r | Err _ => None end) by eauto.
    clear Hcbe Hst bi.
    destruct Hbody as (bi & -> & Hst).
    apply code_at_cons in Hcb as [Hib _].
    replace (off + length [Loop1CharBody mn match mx with Some v => v | None => USIZE_MAX end gr; bi])%nat with (off + 2)%nat by (simpl; lia).
    eapply (l1_dec fwd mn mx gr off bi stepf _ gs); eauto.
  Qed.

  (* ---------------- class-set strings ---------------- *)
  Lemma run_insns_app a b fwd q :
    run_insns ix (p_unicode prog) h (a ++ b) fwd q =
    match run_insns ix (p_unicode prog) h a fwd q with
    | Some (Some q') => run_insns ix (p_unicode prog) h b fwd q'
    | other => other
    end.
  Proof.
    revert q; induction a as [|i a IH]; intro q; [reflexivity|].
    cbn [app run_insns].
    destruct (match i with Char c => Some (char_pike ix c fwd h q) | JustFail => Some (Ok None)
                      | _ => match1 ix (dummy_prog (p_unicode prog)) i fwd h q end) as [[e|[q'|]]|]; auto.
  Qed.

  Lemma piece_leaf lb pc c : emit_piece_node lb (node_of_piece pc) = Ok c -> leaf_code lb (node_of_piece pc) = Some c.
  Proof.
    destruct pc; simpl; intro H.
    - inversion H; reflexivity.
    - inversion H; reflexivity.
    - rewrite H. reflexivity.
    - rewrite H. reflexivity.
  Qed.

  Definition piece_step (lb : bool) (acc : R (list insn)) (p : piece) : R (list insn) :=
    do a <- acc; do i <- emit_piece_node lb (node_of_piece p); Ok (a ++ i).

  Lemma fold_pieces_err lb l e : fold_left (piece_step lb) l (Err e) = Err e.
  Proof. induction l; simpl; auto. Qed.

  Lemma fold_pieces lb fwd : forall l a0 c, fold_left (piece_step lb) l (Ok a0) = Ok c ->
    exists c', c = a0 ++ c' /\ forallb simple_insn c' = true /\
               forall q, pieces_run ix (p_unicode prog) h lb (map node_of_piece l) fwd q = run_insns ix (p_unicode prog) h c' fwd q.
  Proof.
    induction l as [|pc l IH]; intros a0 c H; cbn [fold_left] in H.
    - inversion H; subst. exists []. rewrite app_nil_r. repeat split; auto.
    - replace (piece_step lb (Ok a0) pc)
        with (match emit_piece_node lb (node_of_piece pc) with Err e => Err e | Ok i => Ok (a0 ++ i) end) in H by reflexivity.
      destruct (emit_piece_node lb (node_of_piece pc)) as [e|i] eqn:Ei.
      + rewrite fold_pieces_err in H. discriminate.
      + destruct (IH _ _ H) as (c'' & -> & Hs & Hrun).
        pose proof (piece_leaf _ _ _ Ei) as Hl.
        exists (i ++ c''). repeat split.
        * rewrite app_assoc. reflexivity.
        * rewrite forallb_app, Hs, (leaf_code_simple _ _ _ Hl). reflexivity.
        * intro q. cbn [map pieces_run]. rewrite Hl, run_insns_app.
          destruct (run_insns ix (p_unicode prog) h i fwd q) as [[q'|]|]; auto.
  Qed.

  (* one string alternative: straight-line code equal to its pieces *)
  Lemma cp_sequence_code fwd a icase code pieces : utf16 = false ->
    emit_cp_sequence utf16 (p_unicode prog) (negb fwd) a icase = Ok code ->
    lower_code_point_sequence a icase (p_unicode prog) = Some pieces ->
    forallb simple_insn code = true /\
    forall q, pieces_run ix (p_unicode prog) h (negb fwd) (map node_of_piece (if fwd then pieces else rev pieces)) fwd q
              = run_insns ix (p_unicode prog) h code fwd q.
  Proof.
    intros Hu He Hl. unfold emit_cp_sequence in He. rewrite Hu, Hl in He.
    change (fold_left (piece_step (negb fwd)) (if negb fwd then rev pieces else pieces) (Ok []) = Ok code) in He.
    replace (if negb fwd then rev pieces else pieces) with (if fwd then pieces else rev pieces) in He by (destruct fwd; reflexivity).
    destruct (fold_pieces (negb fwd) fwd _ _ _ He) as (c' & Hc & Hs & Hr). simpl in Hc. subst c'. split; auto.
  Qed.

  Lemma emit_string_set_cons2 lb a b rest icase off endoff :
    emit_string_set utf16 (p_unicode prog) lb (a :: b :: rest) icase off endoff =
    do code <- emit_cp_sequence utf16 (p_unicode prog) lb a icase;
    do r <- emit_string_set utf16 (p_unicode prog) lb (b :: rest) icase (off + 2 + length code) endoff;
    Ok (Alt (off + 2 + length code) :: code ++ Jump endoff :: r).
  Proof. reflexivity. Qed.
  Lemma string_set_len_cons2 lb a b rest icase :
    string_set_len utf16 (p_unicode prog) lb (a :: b :: rest) icase =
    do c <- emit_cp_sequence utf16 (p_unicode prog) lb a icase;
    do r <- string_set_len utf16 (p_unicode prog) lb (b :: rest) icase; Ok (2 + length c + r)%nat.
  Proof. reflexivity. Qed.

  Lemma string_set_len_ok lb icase : forall alts off endoff code n,
    emit_string_set utf16 (p_unicode prog) lb alts icase off endoff = Ok code ->
    string_set_len utf16 (p_unicode prog) lb alts icase = Ok n -> length code = n.
  Proof.
    induction alts as [|a alts IH]; intros off endoff code n He Hn.
    - simpl in He, Hn. inversion He; inversion Hn; reflexivity.
    - destruct alts as [|b rest].
      + simpl in He, Hn. rewrite He in Hn. simpl in Hn. inversion Hn. reflexivity.
      + rewrite emit_string_set_cons2 in He. rewrite string_set_len_cons2 in Hn.
        destruct (emit_cp_sequence utf16 (p_unicode prog) lb a icase) as [e|ca]; cbn [bindR] in He, Hn; [discriminate|].
        destruct (emit_string_set utf16 (p_unicode prog) lb (b :: rest) icase (off + 2 + length ca) endoff) as [e|r] eqn:Er; cbn [bindR] in He; [discriminate|].
        destruct (string_set_len utf16 (p_unicode prog) lb (b :: rest) icase) as [e|m] eqn:Em; cbn [bindR] in Hn; [discriminate|].
        inversion He; inversion Hn; subst. simpl. rewrite app_length. simpl. rewrite (IH _ _ _ _ Er eq_refl). lia.
  Qed.

  Lemma strset_chain fwd icase x lo hi : forall alts off endoff code l s,
    emit_string_set utf16 (p_unicode prog) (negb fwd) alts icase off endoff = Ok code ->
    endoff = (off + length code)%nat -> code_at off code ->
    strset_results ix (p_unicode prog) utf16 h alts icase fwd x = Some l ->
    ps_ip s = off -> obs s = x -> ps_l1 s = 0 ->
    exists ss, map obs ss = l /\ Forall (at_end s endoff lo hi) ss /\ onto fwd [s] ss.
  Proof.
    induction alts as [|a alts IH]; intros off endoff code l s He Hend Hc Hr Hip Hobs Hl1.
    - simpl in He, Hr. inversion He; inversion Hr; subst code l. apply code_at_cons in Hc as [Hi _].
      exists []. repeat split; [constructor|].
      apply (onto_plain fwd s JustFail PFail); auto.
      + rewrite Hip. exact Hi.
      + unfold pk_step. rewrite Hip, Hi. reflexivity.
      + discriminate.
    - unfold strset_results in Hr. cbn [obindm] in Hr.
      assert (Hu : utf16 = false) by (destruct utf16; [discriminate Hr|reflexivity]).
      rewrite Hu in Hr.
      destruct (lower_code_point_sequence a icase (p_unicode prog)) as [pieces|] eqn:El; [|discriminate].
      match type of Hr with match ?r with _ => _ end = _ => destruct r as [ra|] eqn:Era; [|discriminate] end.
      match type of Hr with match ?r with _ => _ end = _ => destruct r as [rrest|] eqn:Erest; [|discriminate] end.
      inversion Hr; subst l. clear Hr.
      assert (Hpos : fst x = ps_pos s) by (rewrite <- Hobs; reflexivity).
      destruct alts as [|b rest].
      + (* the last alternative falls through *)
        cbn [emit_string_set] in He. simpl in Erest. inversion Erest; subst rrest. rewrite app_nil_r.
        destruct (cp_sequence_code fwd a icase code pieces Hu He El) as (Hs & Hrun).
        rewrite Hrun in Era. apply results_of_inv in Era as (q & Hq & ->). rewrite Hpos in Hq.
        pose proof (run_insns_onto fwd code off s Hc Hs Hip q Hq) as Ho. subst endoff.
        destruct q as [p'|].
        * exists [moved s (off + length code) p']. repeat split; auto.
          -- simpl. unfold obs; simpl. rewrite <- Hobs. reflexivity.
          -- constructor; [|constructor]. apply at_end_moved; assumption.
        * exists []. repeat split; [constructor|exact Ho].
      + rewrite emit_string_set_cons2 in He.
        destruct (emit_cp_sequence utf16 (p_unicode prog) (negb fwd) a icase) as [e|ca] eqn:Eca; cbn [bindR] in He; [discriminate|].
        set (next := (off + 2 + length ca)%nat) in *.
        destruct (emit_string_set utf16 (p_unicode prog) (negb fwd) (b :: rest) icase next endoff) as [e|r] eqn:Er; cbn [bindR] in He; [discriminate|].
        inversion He; subst code. clear He.
        apply code_at_cons in Hc as [Hi0 Hc]. apply code_at_app in Hc as [Hca Hc]. apply code_at_cons in Hc as [Hij Hcr].
        destruct (cp_sequence_code fwd a icase ca pieces Hu Eca El) as (Hs & Hrun).
        rewrite Hrun in Era. apply results_of_inv in Era as (q & Hq & ->). rewrite Hpos in Hq.
        set (sl := ps_set_ip s (S (ps_ip s))). set (sr := ps_set_ip s next).
        assert (Hendr : endoff = (next + length r)%nat).
        { rewrite Hend. unfold next. simpl. rewrite app_length. simpl. lia. }
        assert (Hcr' : code_at next r).
        { replace next with (S (S off + length ca)) by (unfold next; lia). exact Hcr. }
        destruct (IH next endoff r rrest sr) as (ssb & B1 & B2 & B3); auto.
        { unfold strset_results. rewrite Hu. exact Erest. }
        assert (Hql : run_insns ix (p_unicode prog) h ca fwd (ps_pos sl) = Some q) by exact Hq.
        pose proof (run_insns_onto fwd ca (S off) sl Hca Hs (f_equal S Hip) q Hql) as Ho.
        assert (Hjump : forall t, ps_ip t = (S off + length ca)%nat -> onto fwd [t] [ps_set_ip t endoff]).
        { intros t Ht. apply (onto_plain fwd t (Jump endoff) (PContinue (ps_set_ip t endoff))); auto.
          - rewrite Ht. exact Hij.
          - apply step_jump. rewrite Ht. exact Hij.
          - discriminate. }
        assert (Hsplit : onto fwd [s] [sl; sr]).
        { apply (onto_plain fwd s (Alt next) (PSplit sr sl)); auto.
          - rewrite Hip. exact Hi0.
          - apply step_alt. rewrite Hip. exact Hi0.
          - discriminate. }
        assert (B2' : Forall (at_end s endoff lo hi) ssb).
        { eapply Forall_impl; [|exact B2]. intros t (Q1 & Q2 & Q3 & Q4). repeat split; auto. }
        destruct q as [p'|].
        * exists (ps_set_ip (moved sl (S off + length ca) p') endoff :: ssb). repeat split.
          -- simpl. rewrite B1. unfold obs at 1; simpl. rewrite <- Hobs. reflexivity.
          -- constructor; [|exact B2']. repeat split; auto.
          -- eapply onto_trans; [exact Hsplit|].
             change [sl; sr] with ([sl] ++ [sr]).
             change (ps_set_ip (moved sl (S off + length ca) p') endoff :: ssb) with ([ps_set_ip (moved sl (S off + length ca) p') endoff] ++ ssb).
             apply onto_app; [|exact B3].
             eapply onto_trans; [exact Ho|]. apply Hjump. reflexivity.
        * exists ssb. repeat split; auto.
          eapply onto_trans; [exact Hsplit|]. change [sl; sr] with ([sl] ++ [sr]).
          change ssb with ([] ++ ssb). apply onto_app; [exact Ho|exact B3].
  Qed.

  Lemma strset_ok f fwd alts icase off es code es' x l :
    ir_results ix (p_unicode prog) utf16 h (S f) (NStringSet alts icase) fwd x = Some l ->
    emit_node utf16 (p_unicode prog) (NStringSet alts icase) off (negb fwd) es = Ok (code, es') ->
    code_at off code ->
    forall s, ps_ip s = off -> obs s = x -> ps_l1 s = 0 ->
    exists ss, map obs ss = l /\ Forall (at_end s (off + length code) (es_next_loop es) (es_next_loop es')) ss /\ onto fwd [s] ss.
  Proof.
    intros Hr He Hc s Hip Hobs Hl1. destruct x as [p gs]. cbn [ir_results] in Hr. simpl in He.
    destruct (string_set_len utf16 (p_unicode prog) (negb fwd) alts icase) as [e|len] eqn:Elen; cbn [bindR] in He; [discriminate|].
    destruct (emit_string_set utf16 (p_unicode prog) (negb fwd) alts icase off (off + len)) as [e|c] eqn:Ec; cbn [bindR] in He; [discriminate|].
    inversion He; subst code es'. clear He.
    pose proof (string_set_len_ok _ _ _ _ _ _ _ Ec Elen) as Hlen. rewrite <- Hlen in Ec.
    eapply strset_chain; eauto.
  Qed.

  Theorem all_ok : forall f, node_ok f.
  Proof.
    induction f as [|f IHf]; intros n fwd off es code es' x l Hsup Hr He Hc Hbr s Hip Hobs Hl1 Hlen.
    - discriminate Hr.
    - destruct n as [ | |c|bs|bs|cs|l0|a b| | |sol ml|inv ui|id c nm|g ic|b|alts icase|ng bw sg eg c|body mn mx gr egs ege|body mn mx gr];
        simpl in Hsup.
      + (* Empty *)
        destruct x as [p gs]. simpl in Hr, He. inversion Hr; inversion He; subst. exists [s]. repeat split.
        * simpl. rewrite Hobs. reflexivity.
        * constructor; [|constructor]. simpl. rewrite Nat.add_0_r. repeat split; auto.
        * apply onto_refl.
      + (* Goal *) discriminate Hsup.
      + (* Char *) eapply leaf_ok'; eauto; [discriminate | intros; reflexivity].
      + (* ByteSequence *) eapply leaf_ok'; eauto; [discriminate | intros; reflexivity].
      + (* ByteSet *)
        destruct (emit_byte_set bs) as [e|cbs] eqn:Eb; [simpl in He; rewrite Eb in He; discriminate|].
        eapply leaf_ok'; eauto; [simpl; rewrite Eb; discriminate | intros; reflexivity].
      + (* CharSet *)
        destruct (emit_char_set cs) as [e|ccs] eqn:Eb; [simpl in He; rewrite Eb in He; discriminate|].
        eapply leaf_ok'; eauto; [simpl; rewrite Eb; discriminate | intros; reflexivity].
      + (* Cat *)
        destruct x as [p gs]. cbn [ir_results] in Hr.
        destruct (cat_ok f IHf fwd l0 off es code es' [(p, gs)] l [s] s (es_next_loop es)) as (tt & T1 & T2 & T3); auto.
        * simpl. rewrite Hobs. reflexivity.
        * constructor; [|constructor]. repeat split; auto.
        * exists tt. repeat split; auto.
      + (* Alt *)
        apply andb_true_iff in Hsup as [Ha Hb]. eapply (alt_ok f IHf fwd a b); eauto.
      + (* MatchAny *) eapply leaf_ok'; eauto; [discriminate | intros; reflexivity].
      + (* MatchAnyExceptLT *) eapply leaf_ok'; eauto; [discriminate | intros; reflexivity].
      + (* Anchor *)
        destruct x as [p gs]. cbn [ir_results] in Hr. simpl in He. inversion He; subst code es'. clear He.
        apply code_at_cons in Hc as [Hi _]. rewrite <- Hip in Hi.
        assert (Hp : ps_pos s = p) by (unfold obs in Hobs; congruence).
        replace (off + length [if sol then StartOfLine ml else EndOfLine ml])%nat with (S (ps_ip s)) by (simpl; lia).
        eapply (cond_step_ok fwd s _ _ (p, gs) l); eauto.
        * destruct sol; reflexivity.
        * unfold pk_step. rewrite Hi, Hp. destruct sol; reflexivity.
      + (* WordBoundary *)
        destruct x as [p gs]. cbn [ir_results] in Hr. simpl in He. inversion He; subst code es'. clear He.
        apply code_at_cons in Hc as [Hi _]. rewrite <- Hip in Hi.
        assert (Hp : ps_pos s = p) by (unfold obs in Hobs; congruence).
        replace (off + length [if ui then WordBoundaryUnicodeICase inv else WordBoundary inv])%nat with (S (ps_ip s)) by (simpl; lia).
        eapply (cond_step_ok fwd s _ (do b <- word_boundary ix ui h p; Ok (negb (Bool.eqb b inv))) (p, gs) l); eauto.
        * destruct ui; reflexivity.
        * unfold pk_step. rewrite Hi, Hp. destruct ui; destruct (word_boundary ix _ h p); reflexivity.
      + (* CaptureGroup *) eapply (group_ok f IHf fwd id c nm); eauto.
      + (* BackRef *)
        destruct x as [p gs]. cbn [ir_results] in Hr. simpl in He.
        destruct (g =? 0) eqn:Eg; [discriminate|]. inversion He; subst code es'. clear He.
        apply code_at_cons in Hc as [Hi _]. rewrite <- Hip in Hi.
        assert (Hp : ps_pos s = p) by (unfold obs in Hobs; congruence).
        assert (Hg : ps_groups s = gs) by (unfold obs in Hobs; congruence).
        replace (off + length [BackRef (N.to_nat (g - 1)) ic])%nat with (S (ps_ip s)) by (simpl; lia).
        destruct (nth_error gs (N.to_nat (g - 1))) as [gd|] eqn:Egd; [|discriminate].
        destruct (gd_range gd) as [[rs re]|] eqn:Er.
        * eapply (adv_step_ok fwd s _ (backref_match ix prog ic fwd h p rs re) l); eauto.
          -- unfold pk_step. rewrite Hi, Hg, Egd, Er, Hp. reflexivity.
          -- rewrite Hg. rewrite (backref_match_prog prog (dummy_prog (p_unicode prog))) by reflexivity. exact Hr.
        * eapply (cond_step_ok fwd s _ (Ok true) (p, gs) l); eauto.
          unfold pk_step. rewrite Hi, Hg, Egd, Er. reflexivity.
      + (* Bracket *)
        destruct (bracket_as_ascii b) as [bm|] eqn:Eb.
        * eapply leaf_ok'; eauto.
          -- simpl. rewrite Eb. discriminate.
          -- intros p gs. simpl. rewrite Eb. reflexivity.
        * destruct x as [p gs]. cbn [ir_results] in Hr. rewrite Eb in Hr. eapply bracket_ok; eauto.
      + (* StringSet *) eapply (strset_ok f fwd alts icase); eauto.
      + (* Lookaround *) eapply (look_ok f IHf fwd ng bw sg eg c); eauto.
      + (* Loop *) eapply (loop_ok f IHf fwd body mn mx gr egs ege); eauto.
      + (* Loop1CharBody *) eapply (l1_ok f body mn mx gr); eauto.
  Qed.

End Correct.
