(* OptPromote.v — the promote_1char_loops pass keeps the meaning of every node, on text where one step of a
   one-character node can be undone by stepping back one character (what the Loop1CharBody semantics demands of
   every step, and what holds on well-formed text): a loop without capture groups over a one-character node means
   the one-character loop over that node. *)
From RV Require Import Base.
From RV.Model Require Import Utf8 Indexer CodePointSet Insn IR Optimizer Unfold Emit.
From RV.Spec Require Import IRSem IRShape.
From RV.Proofs Require Import NodeInd OptDD OptMono OptWalk OptRel.

Lemma promote_loop (okp : nat -> Prop) (bodyf : mst -> option (list mst)) (s : nat -> option (option nat)) (chk : nat -> nat -> bool)
      mn mx gr egs ege :
  (forall q G, bodyf (q, G) = match s q with Some (Some q') => Some [(q', G)] | Some None => Some [] | None => None end) ->
  (forall q q', okp q -> s q = Some (Some q') -> chk q q' = true /\ q <> q' /\ okp q') ->
  (ege - egs = 0)%nat ->
  forall lf k entry q G r, okp q -> (k = 0 \/ entry <> q) ->
  loop_results bodyf mn mx gr egs ege lf k entry (q, G) = Some r ->
  l1_results s chk G mn mx gr lf k q = Some r.
Proof.
  intros Hb Hinv Hz. induction lf as [|lf IH]; intros k entry q G r Hq Hk E; [discriminate|].
  cbn [loop_results l1_results] in *. cbn [fst snd] in E. rewrite Hz in E. cbn [reset_groups] in E.
  replace ((0 <? k) && (mn <? k) && (entry =? q)%nat) with false in E.
  2:{ symmetry. destruct Hk as [Hk|Hk]; [subst k; reflexivity|].
      apply Nat.eqb_neq in Hk. rewrite Hk. apply andb_false_r. }
  rewrite Hb in E. destruct (k <? max_val mx); cbn [negb andb] in E.
  - destruct (s q) as [[q'|]|] eqn:Es.
    + destruct (Hinv q q' Hq Es) as (Hc & Hne & Hq'). rewrite Hc. rewrite obindm_single in E.
      destruct (mn <=? k); cbn [negb] in E.
      * destruct (loop_results bodyf mn mx gr egs ege lf (k + 1) q (q', G)) as [it|] eqn:Ei; [|discriminate].
        rewrite (IH (k + 1) q q' G it Hq' (or_intror Hne) Ei). exact E.
      * rewrite (IH (k + 1) q q' G r Hq' (or_intror Hne) E). reflexivity.
    + cbn [obindm] in E. destruct (mn <=? k); cbn [negb] in E; [destruct gr|]; exact E.
    + destruct (mn <=? k); cbn [negb] in E; discriminate.
  - destruct (mn <=? k); cbn [negb] in E; exact E.
Qed.

Section Promote.
  Variable ix : indexer.
  Variables unicode utf16 : bool.
  Variable h : hay.
  Variable okp : nat -> Prop.
  Notation IR := (ir_results ix unicode utf16 h).
  Notation ref := (ref ix unicode utf16 h okp).
  Notation al := (al ix unicode utf16 h okp).
  Notation PRel := (PRel ix unicode utf16 h okp).
  (* one step of a one-character node is invertible on this text *)
  Hypothesis Hstep : forall body fwd s q q', matches_exactly_one_char body = true -> okp q ->
    single_step ix unicode h (negb fwd) body fwd = Some s -> s q = Some (Some q') -> step_inv ix h fwd q q' = true.

  Lemma step_inv_neq fwd q q' : step_inv ix h fwd q q' = true -> q <> q'.
  Proof.
    unfold step_inv. intro H.
    destruct (if fwd then ix_next_left_pos ix h q' else ix_next_right_pos ix h q') as [e|[a|]]; try discriminate.
    destruct (if fwd then ix_next_right_pos ix h q else ix_next_left_pos ix h q) as [e|[b|]]; try discriminate.
    apply andb_true_iff in H as [_ H]. destruct fwd; [apply Nat.ltb_lt in H|apply Nat.ltb_lt in H]; lia.
  Qed.

  Lemma one_char_step body fwd : matches_exactly_one_char body = true -> qok body = true ->
    l1_body_ok body = true /\
    exists s, single_step ix unicode h (negb fwd) body fwd = Some s /\
      forall f q G, IR (S f) body fwd (q, G) =
        match s q with Some (Some q') => Some [(q', G)] | Some None => Some [] | None => None end.
  Proof.
    intros H1 Hq. destruct body; try discriminate H1.
    - (* Char *)
      split; [reflexivity|]. eexists. split; [reflexivity|]. intros f q G. cbn [ir_results leaf_code results_of snd].
      destruct (run_insns ix unicode h [Char c] fwd q) as [[q'|]|]; reflexivity.
    - (* CharSet *)
      cbn [matches_exactly_one_char] in H1. cbn [qok] in Hq. apply Nat.leb_le in Hq.
      destruct cs as [|c0 cs]; [discriminate|].
      assert (Hle : (4 <? length (c0 :: cs))%nat = false) by (apply Nat.ltb_ge; exact Hq).
      split; [unfold l1_body_ok, leaf_code, emit_char_set; rewrite Hle; reflexivity|].
      unfold single_step, leaf_code, emit_char_set. rewrite Hle. eexists. split; [reflexivity|].
      intros f q G. cbn [ir_results leaf_code]. unfold emit_char_set. rewrite Hle. cbn [results_of snd].
      match goal with |- context [run_insns ?a ?b ?c ?d ?e ?g] => destruct (run_insns a b c d e g) as [[q'|]|] end; reflexivity.
    - (* MatchAny *)
      split; [reflexivity|]. eexists. split; [reflexivity|]. intros f q G. cbn [ir_results leaf_code results_of snd].
      destruct (run_insns ix unicode h [MatchAny] fwd q) as [[q'|]|]; reflexivity.
    - split; [reflexivity|]. eexists. split; [reflexivity|]. intros f q G. cbn [ir_results leaf_code results_of snd].
      destruct (run_insns ix unicode h [MatchAnyExceptLT] fwd q) as [[q'|]|]; reflexivity.
    - (* Bracket *)
      split; [reflexivity|]. unfold single_step, leaf_code. destruct (bracket_as_ascii b) as [bm|] eqn:Eb.
      + eexists. split; [reflexivity|]. intros f q G. cbn [ir_results]. rewrite Eb. cbn [results_of snd].
        destruct (run_insns ix unicode h [AsciiBracket bm] fwd q) as [[q'|]|]; reflexivity.
      + eexists. split; [reflexivity|]. intros f q G. cbn [ir_results]. rewrite Eb.
        destruct (next_if ix fwd h q (bracket_matches b)) as [e|[q'|]]; reflexivity.
  Qed.

  Lemma ref_promote fwd body mn mx gr egs ege : matches_exactly_one_char body = true -> qok body = true -> al body ->
    (ege - egs = 0)%nat -> ref fwd (NLoop body mn mx gr egs ege) (NLoop1CharBody body mn mx gr).
  Proof.
    intros H1 Hq Ha Hz. split; [|apply rstep_nol1; reflexivity].
    destruct (one_char_step body fwd H1 Hq) as [_ [s [Es Hb]]].
    apply (rres_fleO ix unicode utf16 h okp fwd _ _ 0%nat). intros [|f] [p G] r Hx E; [discriminate|].
    rewrite Nat.add_0_r. rewrite ir_loop_eq in E. cbn [ir_results]. rewrite Es. cbn [fst] in E, Hx.
    destruct f as [|f]; [discriminate|].
    eapply (promote_loop okp (IR (S f) body fwd) s (step_inv ix h fwd) mn mx gr egs ege (Hb f)); [|exact Hz|exact Hx|left; reflexivity|exact E].
    intros q q' Hq0 Esq. pose proof (Hstep body fwd s q q' H1 Hq0 Es Esq) as Hc.
    split; [exact Hc|]. split; [apply (step_inv_neq fwd); exact Hc|].
    eapply (al_step ix unicode utf16 h okp body fwd s Ha Es); eauto.
  Qed.

  Lemma promote_sound lb n a : promote_1char_loops lb n = Ok a -> PRel lb n (act_node a n).
  Proof.
    intros E. destruct n; try (inversion E; subst; apply PRel_refl). cbn [promote_1char_loops] in E.
    destruct (matches_exactly_one_char n) eqn:H1; cbn [negb] in E; [|inversion E; subst; apply PRel_refl].
    destruct (egs <? ege)%nat eqn:Hg; [discriminate|]. inversion E; subst. cbn [act_node].
    apply Nat.ltb_ge in Hg. intros Hq Ha. cbn [qok] in Hq. cbn [OptMono.al] in Ha.
    apply andb_true_iff in Hq as [Hq1 Hq3]. apply andb_true_iff in Hq1 as [Hq1 Hq2]. apply Nat.eqb_eq in Hq3.
    assert (Hz : (ege - egs = 0)%nat) by lia.
    split; [apply ref_promote; assumption|].
    destruct (one_char_step n true H1 Hq1) as [Hl _]. cbn [qok ng]. rewrite Hq1, Hq2, Hl.
    split; [reflexivity|]. split; [exact Ha|lia].
  Qed.

  Theorem promote_pass_sound fuel n n' : run_to_fixpoint promote_1char_loops fuel n = Ok n' -> PRel false n n'.
  Proof. apply pass_sound. exact promote_sound. Qed.
End Promote.
