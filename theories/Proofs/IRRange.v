(* IRRange.v — positions stay inside the haystack: every result of the IR semantics from a position <= length h
   is at a position <= length h, for every indexer whose cursor stays in bounds (both concrete ones do).
   Through the interpreter theorems this is the range half of C06 for the models: 0 <= start <= end <= len. *)
From RV Require Import Base.
From RV.Model Require Import Utf8 Indexer CodePointSet Insn IR Optimizer Unfold Emit.
From RV.Spec Require Import IRSem.

Section Rng.
  Variable ix : indexer.
  Variable unicode utf16 : bool.
  Variable h : hay.
  (* the cursor of the indexer stays within any haystack *)
  Hypothesis Hcur : forall (h' : hay) fwd p c p', (p <= length h')%nat -> cnext ix fwd h' p = Ok (Some (c, p')) -> (p' <= length h')%nat.
  Notation len := (length h).

  Lemma next_if_range fwd p test q : (p <= len)%nat -> next_if ix fwd h p test = Ok (Some q) -> (q <= len)%nat.
  Proof.
    intros Hp. unfold next_if. destruct (cnext ix fwd h p) as [e|[[c p']|]] eqn:E; cbn [bindR]; try discriminate.
    destruct (test c); intro H; inversion H; subst. eapply Hcur; eauto.
  Qed.

  Lemma next_byte_range fwd p b q : (p <= len)%nat -> next_byte fwd h p = Ok (Some (b, q)) -> (q <= len)%nat.
  Proof.
    intro Hp. unfold next_byte. destruct fwd.
    - unfold peek_byte_right. destruct (p =? len)%nat eqn:E; cbn [bindR]; [discriminate|].
      unfold getb. destruct (nth_error h p) eqn:En; cbn [bindR]; [|discriminate]. intro H; inversion H; subst.
      assert (p < len)%nat by (apply nth_error_Some; congruence). lia.
    - unfold peek_byte_left. destruct (p =? 0)%nat; cbn [bindR]; [discriminate|].
      destruct (psub p 1); cbn [bindR]; [discriminate|]. destruct (getb h a); cbn [bindR]; [discriminate|].
      intro H; inversion H; subst. lia.
  Qed.

  Lemma byte_if_range fwd p test q : (p <= len)%nat -> byte_if fwd h p test = Ok (Some q) -> (q <= len)%nat.
  Proof.
    intro Hp. unfold byte_if. destruct (next_byte fwd h p) as [e|[[b p']|]] eqn:E; cbn [bindR]; try discriminate.
    destruct (test b); intro H; inversion H; subst. eapply next_byte_range; eauto.
  Qed.

  Lemma try_move_right_range p amt q : try_move_right h p amt = Ok (Some q) -> (q <= len)%nat.
  Proof.
    unfold try_move_right. destruct (p <=? len)%nat eqn:E; cbn [bindR]; [|discriminate]. apply Nat.leb_le in E.
    destruct (len - p <? amt)%nat eqn:E2; [discriminate|]. apply Nat.ltb_ge in E2. intro H; inversion H; subst. lia.
  Qed.
  Lemma try_move_left_range p amt q : (p <= len)%nat -> try_move_left h p amt = Ok (Some q) -> (q <= len)%nat.
  Proof. intro Hp. unfold try_move_left. destruct (p <? amt)%nat; [discriminate|]. intro H; inversion H; subst. lia. Qed.

  Lemma match_bytes_range fwd p bs q : (p <= len)%nat -> match_bytes fwd h p bs = Ok (Some q) -> (q <= len)%nat.
  Proof.
    intro Hp. unfold match_bytes. destruct fwd.
    - destruct (try_move_right h p (length bs)) as [e|[e0|]] eqn:E; cbn [bindR]; try discriminate.
      destruct (bytes_eqb bs (slice h p e0)); intro H; inversion H; subst. eapply try_move_right_range; eauto.
    - destruct (try_move_left h p (length bs)) as [e|[s0|]] eqn:E; cbn [bindR]; try discriminate.
      destruct (bytes_eqb bs (slice h s0 p)); intro H; inversion H; subst. eapply try_move_left_range; eauto.
  Qed.

  Lemma subrange_eq_range fwd p rs re q : (p <= len)%nat -> subrange_eq fwd h p rs re = Ok (Some q) -> (q <= len)%nat.
  Proof.
    intro Hp. unfold subrange_eq. destruct (re <? rs)%nat; [discriminate|]. destruct (len <? re)%nat; [discriminate|].
    destruct fwd.
    - destruct (try_move_right h p (re - rs)) as [e|[e0|]] eqn:E; cbn [bindR]; try discriminate.
      destruct (bytes_eqb (slice h p e0) (slice h rs re)); intro H; inversion H; subst. eapply try_move_right_range; eauto.
    - destruct (try_move_left h p (re - rs)) as [e|[s0|]] eqn:E; cbn [bindR]; try discriminate.
      destruct (bytes_eqb (slice h s0 p) (slice h rs re)); intro H; inversion H; subst. eapply try_move_left_range; eauto.
  Qed.

  Lemma backref_go_range pr fwd sub : forall fuel rp p q, (p <= len)%nat ->
    backref_icase_go ix pr fuel fwd sub rp h p = Ok (Some q) -> (q <= len)%nat.
  Proof.
    induction fuel as [|k IH]; intros rp p q Hp H; [discriminate|]. cbn [backref_icase_go] in H.
    destruct (cnext ix fwd sub rp) as [e|[[c1 rp']|]]; cbn [bindR] in H; try discriminate.
    - destruct (cnext ix fwd h p) as [e|[[c2 p']|]] eqn:E2; cbn [bindR] in H; try discriminate.
      destruct (fold_equals ix (p_unicode pr) c1 c2); [|discriminate].
      eapply IH; [|exact H]. eapply Hcur; eauto.
    - inversion H; subst. exact Hp.
  Qed.

  Lemma backref_match_range pr ic fwd p rs re q : (p <= len)%nat ->
    backref_match ix pr ic fwd h p rs re = Ok (Some q) -> (q <= len)%nat.
  Proof.
    intro Hp. unfold backref_match. destruct ic; [|apply subrange_eq_range; exact Hp].
    destruct (re <? rs)%nat; [discriminate|]. destruct (len <? re)%nat; [discriminate|].
    apply backref_go_range. exact Hp.
  Qed.

  Lemma match1_range pr i fwd p r q : (p <= len)%nat -> match1 ix pr i fwd h p = Some r -> r = Ok (Some q) -> (q <= len)%nat.
  Proof.
    intros Hp Hm Hr. subst r. destruct i; simpl in Hm; try discriminate; inversion Hm as [Hm']; clear Hm;
      try (eapply next_if_range; eassumption); try (eapply byte_if_range; eassumption);
      try (eapply match_bytes_range; eassumption).
    destruct (nth_error (p_brackets pr) idx); [eapply next_if_range; eauto|discriminate].
  Qed.

  Lemma run_insns_range code fwd : forall p q, (p <= len)%nat ->
    run_insns ix unicode h code fwd p = Some (Some q) -> (q <= len)%nat.
  Proof.
    induction code as [|i code IH]; intros p q Hp H; simpl in H.
    - inversion H; subst. exact Hp.
    - destruct (match i with Char c => Some (char_pike ix c fwd h p) | JustFail => Some (Ok None)
                       | _ => match1 ix (dummy_prog unicode) i fwd h p end) as [[e|[p'|]]|] eqn:Er; try discriminate.
      eapply IH; [|exact H].
      destruct i; try (eapply (match1_range (dummy_prog unicode)); [exact Hp|exact Er|reflexivity]); try discriminate.
      inversion Er as [Er']. eapply next_if_range; eauto.
  Qed.

  Definition okpos (l : list mst) : Prop := Forall (fun y => (fst y <= len)%nat) l.

  Lemma okpos_obindm {A} (rf : A -> option (list mst)) (P : A -> Prop) : forall xs ys,
    Forall P xs -> (forall x r, P x -> rf x = Some r -> okpos r) -> obindm rf xs = Some ys -> okpos ys.
  Proof.
    induction xs as [|x xs IH]; intros ys HP Hk Hb; simpl in Hb.
    - inversion Hb; subst. constructor.
    - destruct (rf x) as [r|] eqn:Er; [|discriminate]. destruct (obindm rf xs) as [r2|] eqn:E2; [|discriminate].
      inversion Hb; subst. inversion HP; subst. apply Forall_app. split; [eapply Hk; eauto | eapply IH; eauto].
  Qed.

  Lemma okpos_results_of G p code fwd l : (p <= len)%nat ->
    results_of (p, G) (run_insns ix unicode h code fwd p) = Some l -> okpos l.
  Proof.
    intro Hp. destruct (run_insns ix unicode h code fwd p) as [[q|]|] eqn:E; simpl; intro H; inversion H; subst.
    - constructor; [|constructor]. simpl. eapply run_insns_range; eauto.
    - constructor.
  Qed.
  Lemma okpos_cond G p r l : (p <= len)%nat -> cond_results (p, G) r = Some l -> okpos l.
  Proof. intro Hp. destruct r as [e|[|]]; simpl; intro H; inversion H; subst; repeat constructor; exact Hp. Qed.

  Lemma okpos_l1 (stepf : nat -> option (option nat)) chk G mn mx gr :
    (forall q q', (q <= len)%nat -> stepf q = Some (Some q') -> (q' <= len)%nat) ->
    forall lf k q l, (q <= len)%nat -> l1_results stepf chk G mn mx gr lf k q = Some l -> okpos l.
  Proof.
    intro Hst. induction lf as [|lf IH]; intros k q l Hq H; [discriminate|]. cbn [l1_results] in H.
    destruct (if k <? max_val mx then stepf q else Some None) as [[q'|]|] eqn:Et; [| |discriminate].
    - assert (Hq' : (q' <= len)%nat).
      { destruct (k <? max_val mx); [eapply Hst; eauto|discriminate]. }
      destruct (chk q q'); [|discriminate]. destruct (l1_results stepf chk G mn mx gr lf (k + 1) q') as [it|] eqn:Ei; [|discriminate].
      apply IH in Ei; [|exact Hq']. inversion H; subst. destruct (mn <=? k); [|exact Ei].
      destruct gr; [apply Forall_app; split; auto|constructor; auto]; repeat constructor; exact Hq.
    - inversion H; subst. destruct (mn <=? k); repeat constructor. exact Hq.
  Qed.

  Definition node_range (f : nat) : Prop := forall n fwd p G l, (p <= len)%nat ->
    ir_results ix unicode utf16 h f n fwd (p, G) = Some l -> okpos l.

  Lemma cat_range f (IHf : node_range f) fwd : forall l xs ys,
    okpos xs -> cat_results (fun c => ir_results ix unicode utf16 h f c fwd) l xs = Some ys -> okpos ys.
  Proof.
    induction l as [|c l IH]; intros xs ys Hx Hr; simpl in Hr.
    - inversion Hr; subst. exact Hx.
    - destruct (obindm (fun x => ir_results ix unicode utf16 h f c fwd x) xs) as [ys1|] eqn:Eb; [|discriminate].
      apply (IH ys1 ys); [|exact Hr].
      eapply (okpos_obindm _ (fun y => (fst y <= len)%nat)); [exact Hx| |exact Eb].
      intros [q Gq] r Hq Hrr. simpl in Hq. eapply IHf; eauto.
  Qed.

  Lemma loop_range f (IHf : node_range f) body fwd mn mx gr egs ege :
    forall lf k entry q Gq l, (q <= len)%nat ->
      loop_results (ir_results ix unicode utf16 h f body fwd) mn mx gr egs ege lf k entry (q, Gq) = Some l -> okpos l.
  Proof.
    induction lf as [|lf IH]; intros k entry q Gq l Hq Hr; [discriminate|].
    cbn [loop_results] in Hr.
    destruct ((0 <? k) && (mn <? k) && (entry =? fst (q, Gq))%nat); [inversion Hr; constructor|].
    assert (Hy : okpos [(q, Gq)]) by (constructor; [exact Hq|constructor]).
    assert (Hit : forall it,
              match reset_groups (snd (q, Gq)) egs (ege - egs) with
              | None => None
              | Some g1 => match ir_results ix unicode utf16 h f body fwd (fst (q, Gq), g1) with
                           | None => None
                           | Some zs => obindm (loop_results (ir_results ix unicode utf16 h f body fwd) mn mx gr egs ege lf (k + 1) (fst (q, Gq))) zs
                           end
              end = Some it -> okpos it).
    { intros it Hi. simpl in Hi.
      destruct (reset_groups Gq egs (ege - egs)) as [g1|] eqn:Er; [|discriminate].
      destruct (ir_results ix unicode utf16 h f body fwd (q, g1)) as [zs|] eqn:Ez; [|discriminate].
      pose proof (IHf body fwd q g1 zs Hq Ez) as Hz.
      eapply (okpos_obindm _ (fun y => (fst y <= len)%nat)); [exact Hz| |exact Hi].
      intros [q' Gq'] r Hq' Hrr. simpl in Hq'. eapply (IH (k + 1) q q' Gq' r Hq' Hrr). }
    destruct (negb (k <? max_val mx) && negb (mn <=? k)); [inversion Hr; constructor|].
    destruct (negb (k <? max_val mx)); [inversion Hr; subst; exact Hy|].
    destruct (negb (mn <=? k)); [apply Hit; exact Hr|].
    match type of Hr with match ?itx with _ => _ end = _ => destruct itx as [it|] eqn:Eit; [|discriminate] end.
    specialize (Hit it eq_refl). inversion Hr; subst.
    destruct gr; [apply Forall_app; split; auto|constructor; auto; inversion Hy; auto].
  Qed.

  Lemma pieces_run_range lb fwd : forall l q q', (q <= len)%nat ->
    pieces_run ix unicode h lb l fwd q = Some (Some q') -> (q' <= len)%nat.
  Proof.
    induction l as [|c l IH]; intros q q' Hq H; simpl in H.
    - inversion H; subst. exact Hq.
    - destruct (leaf_code lb c) as [code|]; [|discriminate].
      destruct (run_insns ix unicode h code fwd q) as [[q1|]|] eqn:E; try discriminate.
      eapply IH; [|exact H]. eapply run_insns_range; eauto.
  Qed.

  Theorem ir_range : forall f, node_range f.
  Proof.
    induction f as [|f IHf]; intros n fwd p G l Hp Hr; [discriminate|].
    destruct n as [ | |c|bs|bs|cs|l0|a b| | |sol ml|inv ui|id c nm|g ic|b|alts icase|ng bw sg' eg' c|body mn mx gr egs ege|body mn mx gr];
      cbn [ir_results leaf_code] in Hr; try (eapply okpos_cond; eauto; fail); try discriminate.
    - inversion Hr; subst. constructor; [exact Hp|constructor].
    - inversion Hr; subst. constructor; [exact Hp|constructor].
    - eapply okpos_results_of; eauto.
    - eapply okpos_results_of; eauto.
    - destruct (emit_byte_set bs); [discriminate|eapply okpos_results_of; eauto].
    - destruct (emit_char_set cs); [discriminate|eapply okpos_results_of; eauto].
    - eapply (cat_range f IHf fwd l0 [(p, G)]); eauto. constructor; [exact Hp|constructor].
    - destruct (ir_results ix unicode utf16 h f a fwd (p, G)) as [u|] eqn:Eu; [|discriminate].
      destruct (ir_results ix unicode utf16 h f b fwd (p, G)) as [v|] eqn:Ev; [|discriminate].
      inversion Hr; subst. apply Forall_app. split; [eapply (IHf a); eauto | eapply (IHf b); eauto].
    - eapply okpos_results_of; eauto.
    - eapply okpos_results_of; eauto.
    - (* CaptureGroup *)
      destruct (upd_group id (set_group_start fwd p) G) as [G1|] eqn:E1; [|discriminate].
      destruct (ir_results ix unicode utf16 h f c fwd (p, G1)) as [lc|] eqn:Ec; [|discriminate].
      pose proof (IHf c fwd p G1 lc Hp Ec) as Hlc.
      eapply (okpos_obindm _ (fun y => (fst y <= len)%nat)); [exact Hlc| |exact Hr].
      intros [q Gq] r Hq Hrr. simpl in Hq, Hrr.
      destruct (upd_group id (set_group_end fwd q) Gq) as [G2|] eqn:E2; [|discriminate]. inversion Hrr; subst.
      constructor; [exact Hq|constructor].
    - (* BackRef *)
      destruct (g =? 0); [discriminate|]. destruct (nth_error G (N.to_nat (g - 1))) as [gd|]; [|discriminate].
      destruct (gd_range gd) as [[rs re]|]; [|inversion Hr; subst; constructor; [exact Hp|constructor]].
      destruct (backref_match ix (dummy_prog unicode) ic fwd h p rs re) as [e|[q|]] eqn:Eb; inversion Hr; subst; [|constructor].
      constructor; [|constructor]. simpl. eapply backref_match_range; eauto.
    - (* Bracket *)
      destruct (bracket_as_ascii b); [eapply okpos_results_of; eauto|].
      destruct (next_if ix fwd h p (bracket_matches b)) as [e|[q|]] eqn:En; inversion Hr; subst; [|constructor].
      constructor; [|constructor]. simpl. eapply next_if_range; eauto.
    - (* StringSet *)
      unfold strset_results in Hr.
      eapply (okpos_obindm _ (fun _ => True)); [| |exact Hr].
      + apply Forall_forall. auto.
      + intros a r _ Ha. cbv beta in Ha. destruct (if utf16 then None else lower_code_point_sequence a icase unicode); [|discriminate Ha].
        cbn [fst] in Ha.
        destruct (pieces_run ix unicode h (negb fwd) (map node_of_piece (if fwd then l0 else rev l0)) fwd p) as [[q|]|] eqn:Ep;
          simpl in Ha; inversion Ha; subst; [|constructor].
        constructor; [|constructor]. simpl. eapply pieces_run_range; eauto.
    - (* Lookaround *)
      destruct (ir_results ix unicode utf16 h f c (negb bw) (p, G)) as [[|y rest]|] eqn:Ec; [| |discriminate].
      + inversion Hr; subst. destruct ng; repeat constructor; exact Hp.
      + inversion Hr; subst. destruct ng; repeat constructor; exact Hp.
    - (* Loop *)
      eapply (loop_range f IHf body fwd mn mx gr egs ege f 0 p p G l Hp). exact Hr.
    - (* Loop1CharBody *)
      destruct (single_step ix unicode h (negb fwd) body fwd) as [stepf|] eqn:Es; [|discriminate].
      eapply (okpos_l1 stepf _ G mn mx gr); [|exact Hp|exact Hr].
      intros q q' Hq Hst. unfold single_step in Es.
      destruct (leaf_code (negb fwd) body) as [code|].
      + inversion Es; subst stepf. eapply run_insns_range; eauto.
      + destruct body; try discriminate. inversion Es; subst stepf. cbv beta in Hst.
        destruct (next_if ix fwd h q (bracket_matches b)) as [e|r] eqn:En; [discriminate|]. inversion Hst; subst r.
        eapply next_if_range; eauto.
  Qed.
End Rng.
