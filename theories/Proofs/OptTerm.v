(* OptTerm.v — every optimizer pass reaches its fixpoint (C07: optimization always terminates).
   run_to_fixpoint in src/optimizer.rs loops "until nothing changes"; the model carries that loop with explicit fuel
   and reports exhaustion as Err Unreach.  Here: for each of the seven passes a measure on nodes that is additive over
   the tree and that every single rewrite of the pass strictly lowers; hence a walk that reports a change strictly
   lowers the measure of the whole tree, the loop runs at most (measure + 1) times, and from that fuel on the result
   does not depend on the fuel at all. *)
From RV Require Import Base.
From RV.Model Require Import Utf8 Indexer CodePointSet Insn IR Optimizer Unfold Emit.
From RV.Proofs Require Import NodeInd OptWalk OptUnroll.
Local Open Scope nat_scope.

Local Lemma lsum_cons a l : list_sum (a :: l) = (a + list_sum l)%nat.
Proof. reflexivity. Qed.
Local Lemma lsum_app l1 l2 : list_sum (l1 ++ l2) = (list_sum l1 + list_sum l2)%nat.
Proof. induction l1 as [|a l1 IH]; [reflexivity|]. cbn [app]. rewrite !lsum_cons, IH. lia. Qed.

(* ---- additive measures: a weight per node kind, summed over the tree ---- *)
Section Additive.
  Variable kleaf : node -> nat.
  Variables kcat kalt kcg kla kl1 : nat.
  Variable kloop : N -> nat.

  Fixpoint amu (n : node) : nat :=
    match n with
    | NCat l => kcat + (fix go (l : list node) : nat := match l with [] => 0 | x :: t => amu x + go t end) l
    | NAlt a b => kalt + amu a + amu b
    | NCaptureGroup _ c _ => kcg + amu c
    | NLookaround _ _ _ _ c => kla + amu c
    | NLoop b mn _ _ _ _ => kloop mn + amu b
    | NLoop1CharBody b _ _ _ => kl1 + amu b
    | leaf => kleaf leaf
    end.

  Lemma amu_cat l : amu (NCat l) = (kcat + list_sum (map amu l))%nat.
  Proof.
    cbn [amu]. f_equal. induction l as [|x t IH]; [reflexivity|]. cbn [map]. rewrite lsum_cons, <- IH. reflexivity.
  Qed.
End Additive.

(* ---- a walk that reports a change lowers the measure ---- *)
Section WalkMeasure.
  Variable func : bool -> node -> R action.
  Variable kleaf : node -> nat.
  Variables kcat kalt kcg kla kl1 : nat.
  Variable kloop : N -> nat.
  Notation mu := (amu kleaf kcat kalt kcg kla kl1 kloop).
  Hypothesis Hloc : forall lb n a, func lb n = Ok a -> a <> Keep -> (mu (act_node a n) < mu n)%nat.
  Hypothesis Hnu : forall lb n, func lb n <> Err Unreach.

  Definition dec (n n' : node) (ch : bool) : Prop := (mu n' <= mu n)%nat /\ (ch = true -> (mu n' < mu n)%nat).

  Lemma finish_dec lb n m ch n' ch' : dec n m ch -> finish func lb m ch = Ok (n', ch') -> dec n n' ch'.
  Proof.
    intros [H1 H2] E. unfold finish in E. destruct (func lb m) as [e|a] eqn:Ea; [discriminate|]. cbn [bindR] in E.
    destruct a as [|m'| |m'].
    - inversion E; subst. split; assumption.
    - inversion E; subst. assert (Hl := Hloc lb m (Modified n') Ea ltac:(discriminate)). cbn [act_node] in Hl.
      split; [lia|intros _; lia].
    - inversion E; subst. assert (Hl := Hloc lb m Remove Ea ltac:(discriminate)). cbn [act_node] in Hl.
      split; [lia|intros _; lia].
    - inversion E; subst. assert (Hl := Hloc lb m (Replace n') Ea ltac:(discriminate)). cbn [act_node] in Hl.
      split; [lia|intros _; lia].
  Qed.

  Lemma finish_nu lb m ch : finish func lb m ch <> Err Unreach.
  Proof.
    unfold finish. destruct (func lb m) as [e|a] eqn:Ea; cbn [bindR]; [|discriminate].
    intros H; inversion H; subst. exact (Hnu lb m Ea).
  Qed.

  Definition walk_dec_at (n : node) : Prop :=
    forall lb, walk func lb n <> Err Unreach /\ forall n' ch, walk func lb n = Ok (n', ch) -> dec n n' ch.

  Lemma walk_list_dec lb : forall l, Forall walk_dec_at l ->
    let go := (fix go (l : list node) : R (list node * bool) :=
       match l with
       | [] => Ok ([], false)
       | x :: t => do rx <- walk func lb x; do rt <- go t; Ok (fst rx :: fst rt, snd rx || snd rt)
       end) in
    go l <> Err Unreach /\
    forall l' ch, go l = Ok (l', ch) ->
      (list_sum (map mu l') <= list_sum (map mu l))%nat /\ (ch = true -> (list_sum (map mu l') < list_sum (map mu l))%nat).
  Proof.
    induction 1 as [|x l Hx Hl IH]; intros go.
    - split; [discriminate|]. intros l' ch E. inversion E; subst. split; [cbn; lia|discriminate].
    - destruct (Hx lb) as [Hxn Hxd]. destruct IH as [IHn IHd]. subst go. split.
      + destruct (walk func lb x) as [e|[x' cx]] eqn:Ex; [intros H; inversion H; subst; apply Hxn; reflexivity|]. cbn [bindR].
        match goal with |- (do rt <- ?r; _) <> _ => destruct r as [e|[t' ct]] eqn:Et end; [|discriminate].
        cbn [bindR]. intros H; inversion H; subst. apply IHn. reflexivity.
      + intros l' ch E.
        destruct (walk func lb x) as [e|[x' cx]] eqn:Ex; [discriminate|]. cbn [bindR] in E.
        match type of E with (do rt <- ?r; _) = _ => destruct r as [e|[t' ct]] eqn:Et; [discriminate|] end.
        cbn [bindR fst snd] in E. inversion E; subst. destruct (Hxd x' cx eq_refl) as [D1 D2].
        destruct (IHd t' ct eq_refl) as [D3 D4]. cbn [map]. rewrite !lsum_cons. split; [lia|].
        intros Hc. apply orb_true_iff in Hc as [Hc|Hc]; [specialize (D2 Hc)|specialize (D4 Hc)]; lia.
  Qed.

  Theorem walk_dec : forall n, walk_dec_at n.
  Proof.
    induction n as [n Hleaf|l H|a b IHa IHb|id c nm IHc|neg bw sg eg c IHc|b mn mx g egs ege IHb|b mn mx g IHb] using node_ind2; intros lb.
    - destruct n; try contradiction; cbn [walk];
        (split; [apply finish_nu|intros n' ch E; eapply finish_dec; [|exact E]; split; [lia|discriminate]]).
    - destruct (walk_list_dec lb l H) as [Hn Hd]. cbn [walk]. split.
      + match goal with |- (do r <- ?r0; _) <> _ => destruct r0 as [e|[l' cl]] eqn:El end.
        * cbn [bindR]. intros Hx; inversion Hx; subst. apply Hn. reflexivity.
        * cbn [bindR]. apply finish_nu.
      + intros n' ch E.
        match type of E with (do r <- ?r0; _) = _ => destruct r0 as [e|[l' cl]] eqn:El; [discriminate|] end.
        cbn [bindR fst snd] in E. eapply finish_dec; [|exact E]. destruct (Hd l' cl eq_refl) as [D1 D2].
        unfold dec. rewrite !amu_cat. split; [lia|intros Hc; specialize (D2 Hc); lia].
    - destruct (IHa lb) as [Han Had]. destruct (IHb lb) as [Hbn Hbd]. cbn [walk]. split.
      + destruct (walk func lb a) as [e|[a' ca]] eqn:Ea; [intros Hx; inversion Hx; subst; apply Han; reflexivity|]. cbn [bindR].
        destruct (walk func lb b) as [e|[b' cb]] eqn:Eb; [intros Hx; inversion Hx; subst; apply Hbn; reflexivity|]. cbn [bindR].
        apply finish_nu.
      + intros n' ch E.
        destruct (walk func lb a) as [e|[a' ca]] eqn:Ea; [discriminate|]. cbn [bindR] in E.
        destruct (walk func lb b) as [e|[b' cb]] eqn:Eb; [discriminate|]. cbn [bindR fst snd] in E.
        eapply finish_dec; [|exact E]. destruct (Had a' ca eq_refl) as [D1 D2]. destruct (Hbd b' cb eq_refl) as [D3 D4].
        unfold dec. cbn [amu]. split; [lia|].
        intros Hc. apply orb_true_iff in Hc as [Hc|Hc]; [specialize (D2 Hc)|specialize (D4 Hc)]; lia.
    - destruct (IHc lb) as [Hcn Hcd]. cbn [walk]. split.
      + destruct (walk func lb c) as [e|[c' cc]] eqn:Ec; [intros Hx; inversion Hx; subst; apply Hcn; reflexivity|]. cbn [bindR].
        apply finish_nu.
      + intros n' ch E. destruct (walk func lb c) as [e|[c' cc]] eqn:Ec; [discriminate|]. cbn [bindR fst snd] in E.
        eapply finish_dec; [|exact E]. destruct (Hcd c' cc eq_refl) as [D1 D2]. unfold dec. cbn [amu].
        split; [lia|intros Hc; specialize (D2 Hc); lia].
    - destruct (IHc bw) as [Hcn Hcd]. cbn [walk]. split.
      + destruct (walk func bw c) as [e|[c' cc]] eqn:Ec; [intros Hx; inversion Hx; subst; apply Hcn; reflexivity|]. cbn [bindR].
        apply finish_nu.
      + intros n' ch E. destruct (walk func bw c) as [e|[c' cc]] eqn:Ec; [discriminate|]. cbn [bindR fst snd] in E.
        eapply finish_dec; [|exact E]. destruct (Hcd c' cc eq_refl) as [D1 D2]. unfold dec. cbn [amu].
        split; [lia|intros Hc; specialize (D2 Hc); lia].
    - destruct (IHb lb) as [Hcn Hcd]. cbn [walk]. split.
      + destruct (walk func lb b) as [e|[c' cc]] eqn:Ec; [intros Hx; inversion Hx; subst; apply Hcn; reflexivity|]. cbn [bindR].
        apply finish_nu.
      + intros n' ch E. destruct (walk func lb b) as [e|[c' cc]] eqn:Ec; [discriminate|]. cbn [bindR fst snd] in E.
        eapply finish_dec; [|exact E]. destruct (Hcd c' cc eq_refl) as [D1 D2]. unfold dec. cbn [amu].
        split; [lia|intros Hc; specialize (D2 Hc); lia].
    - destruct (IHb lb) as [Hcn Hcd]. cbn [walk]. split.
      + destruct (walk func lb b) as [e|[c' cc]] eqn:Ec; [intros Hx; inversion Hx; subst; apply Hcn; reflexivity|]. cbn [bindR].
        apply finish_nu.
      + intros n' ch E. destruct (walk func lb b) as [e|[c' cc]] eqn:Ec; [discriminate|]. cbn [bindR fst snd] in E.
        eapply finish_dec; [|exact E]. destruct (Hcd c' cc eq_refl) as [D1 D2]. unfold dec. cbn [amu].
        split; [lia|intros Hc; specialize (D2 Hc); lia].
  Qed.

  (* the loop: with more fuel than the measure it never runs out *)
  Theorem fixpoint_terminates : forall fuel n, (mu n < fuel)%nat -> run_to_fixpoint func fuel n <> Err Unreach.
  Proof.
    induction fuel as [|k IH]; intros n Hlt; [lia|]. cbn [run_to_fixpoint].
    destruct (walk_dec n false) as [Hn Hd].
    destruct (walk func false n) as [e|[m ch]] eqn:Ew; [intros Hx; inversion Hx; subst; apply Hn; reflexivity|].
    cbn [bindR fst snd]. destruct (Hd m ch eq_refl) as [D1 D2].
    destruct ch; [apply IH; specialize (D2 eq_refl); lia|discriminate].
  Qed.
End WalkMeasure.

(* whatever the pass: a result other than "out of fuel" is the result for every larger fuel *)
Lemma fixpoint_fuel_mono (func : bool -> node -> R action) : forall fuel n r,
  run_to_fixpoint func fuel n = r -> r <> Err Unreach -> forall fuel', (fuel <= fuel')%nat -> run_to_fixpoint func fuel' n = r.
Proof.
  induction fuel as [|k IH]; intros n r E Hr fuel' Hle; [cbn in E; subst; contradiction|].
  destruct fuel' as [|k']; [lia|]. cbn [run_to_fixpoint] in *.
  destruct (walk func false n) as [e|[m ch]]; [exact E|]. cbn [bindR fst snd] in *.
  destruct ch; [eapply IH; [exact E|exact Hr|lia]|exact E].
Qed.

(* a fuelled stage settles: from some fuel on it gives one and the same result, and that is not "out of fuel" *)
Definition settles (s : nat -> node -> R node) : Prop :=
  forall n, exists F r, r <> Err Unreach /\ forall fuel, (F <= fuel)%nat -> s fuel n = r.

Lemma settles_pass func kleaf kcat kalt kcg kla kl1 kloop :
  (forall lb n a, func lb n = Ok a -> a <> Keep ->
     (amu kleaf kcat kalt kcg kla kl1 kloop (act_node a n) < amu kleaf kcat kalt kcg kla kl1 kloop n)%nat) ->
  (forall lb n, func lb n <> Err Unreach) ->
  settles (run_to_fixpoint func).
Proof.
  intros Hloc Hnu n. set (F := S (amu kleaf kcat kalt kcg kla kl1 kloop n)).
  exists F, (run_to_fixpoint func F n).
  assert (Hr : run_to_fixpoint func F n <> Err Unreach).
  { eapply fixpoint_terminates; [exact Hloc|exact Hnu|unfold F; lia]. }
  split; [exact Hr|]. intros fuel Hle. eapply fixpoint_fuel_mono; [reflexivity|exact Hr|exact Hle].
Qed.

Lemma settles_comp s1 s2 : settles s1 -> settles s2 -> settles (fun fuel n => do m <- s1 fuel n; s2 fuel m).
Proof.
  intros H1 H2 n. destruct (H1 n) as (F1 & r1 & Hr1 & E1). destruct r1 as [e|m].
  - exists F1, (Err e). split; [exact Hr1|]. intros fuel Hle. rewrite (E1 fuel Hle). reflexivity.
  - destruct (H2 m) as (F2 & r2 & Hr2 & E2). exists (Nat.max F1 F2), r2. split; [exact Hr2|].
    intros fuel Hle. rewrite (E1 fuel ltac:(lia)). cbn [bindR]. apply E2. lia.
Qed.

Lemma settles_skip (b : bool) s : settles s -> settles (fun fuel n => if b then Ok n else s fuel n).
Proof.
  intros H n. destruct b; [exists 0%nat, (Ok n); split; [discriminate|reflexivity]|apply H].
Qed.

(* ---- the seven measures ---- *)
Notation k0 := (fun _ : N => 0).
Notation k1 := (fun _ : N => 1).

(* 1. simplify_brackets: the intervals held in brackets (a reduced bracket is gone, an inverted one is shorter) *)
Definition kleaf_br (n : node) : nat := match n with NBracket b => S (length (br_ivs b)) | _ => 0 end.
Lemma brackets_settles : settles (run_to_fixpoint simplify_brackets).
Proof.
  apply (settles_pass _ kleaf_br 0 0 0 0 0 k0).
  - intros lb n a E Ha. destruct n as [| |c|bs|bs|cs|l|n1 n2| | |sl ml|iv ui|id c nm|gr ic|b|alts ic|ng bw sg eg n|n mn mx g n1 n2|n mn mx g]; cbn [simplify_brackets] in E; try (inversion E; subst; contradiction).
    unfold try_reduce_bracket in E.
    destruct (br_invert b) eqn:Ei.
    + destruct (cps_inverted_interval_count (br_ivs b) <? length (br_ivs b))%nat eqn:El; inversion E; subst; [|contradiction].
      cbn [act_node amu kleaf_br br_ivs]. apply Nat.ltb_lt in El. unfold cps_inverted_interval_count in El. apply (proj1 (Nat.succ_lt_mono _ _)). exact El.
    + match type of E with context [if ?c then None else _] => destruct c eqn:Et end.
      * destruct (cps_inverted_interval_count (br_ivs b) <? length (br_ivs b))%nat eqn:El; inversion E; subst; [|contradiction].
        cbn [act_node amu kleaf_br br_ivs]. apply Nat.ltb_lt in El. unfold cps_inverted_interval_count in El. apply (proj1 (Nat.succ_lt_mono _ _)). exact El.
      * inversion E; subst. cbn [act_node amu kleaf_br]. lia.
  - intros lb n. destruct n as [| |c|bs|bs|cs|l|n1 n2| | |sl ml|iv ui|id c nm|gr ic|b|alts ic|ng bw sg eg n|n mn mx g n1 n2|n mn mx g]; cbn [simplify_brackets]; try discriminate.
    destruct (try_reduce_bracket b); [discriminate|]. destruct (_ <? _)%nat; discriminate.
Qed.

(* 2. decat: the number of Cat nodes *)
Notation kleaf0 := (fun _ : node => 0).
Notation mu_cat := (amu kleaf0 1 0 0 0 0 k0).
Definition spl (x : node) : list node := match x with NCat l' => l' | _ => [x] end.
Lemma flatten_mu : forall l,
  (list_sum (map mu_cat (flat_map spl l)) <= list_sum (map mu_cat l))%nat /\
  (existsb is_cat l = true -> (list_sum (map mu_cat (flat_map spl l)) < list_sum (map mu_cat l))%nat).
Proof.
  induction l as [|x l [IH1 IH2]]; [split; [cbn; lia|discriminate]|].
  cbn [flat_map map existsb]. rewrite map_app, lsum_app, lsum_cons.
  assert (Hx : (list_sum (map mu_cat (spl x)) <= mu_cat x)%nat /\ (is_cat x = true -> (list_sum (map mu_cat (spl x)) < mu_cat x)%nat)).
  { destruct x; cbn [spl is_cat]; try (split; [cbn [map]; rewrite lsum_cons; cbn [list_sum fold_right]; lia|discriminate]).
    rewrite amu_cat. split; [lia|intros _; lia]. }
  destruct Hx as [Hx1 Hx2]. split; [lia|].
  intros Hc. apply orb_true_iff in Hc as [Hc|Hc]; [specialize (Hx2 Hc)|specialize (IH2 Hc)]; lia.
Qed.
Lemma decat_settles : settles (run_to_fixpoint decat).
Proof.
  apply (settles_pass _ kleaf0 1 0 0 0 0 k0).
  - intros lb n a E Ha. destruct n as [| |c|bs|bs|cs|l|n1 n2| | |sl ml|iv ui|id c nm|gr ic|b|alts ic|ng bw sg eg n|n mn mx g n1 n2|n mn mx g]; cbn [decat] in E; try (inversion E; subst; contradiction).
    destruct l as [|x [|y t]].
    + inversion E; subst. cbn [act_node]. rewrite amu_cat. cbn. lia.
    + inversion E; subst. cbn [act_node]. rewrite amu_cat. cbn [map]. rewrite lsum_cons. lia.
    + destruct (existsb is_cat (x :: y :: t)) eqn:Ec; [|inversion E; subst; contradiction].
      injection E as E'. subst a. cbn [act_node]. rewrite !amu_cat. destruct (flatten_mu (x :: y :: t)) as [_ H2]. specialize (H2 Ec).
      exact (proj1 (Nat.succ_lt_mono _ _) H2).
  - intros lb n. destruct n as [| |c|bs|bs|cs|l|n1 n2| | |sl ml|iv ui|id c nm|gr ic|b|alts ic|ng bw sg eg n|n mn mx g n1 n2|n mn mx g]; cbn [decat]; try discriminate. destruct l as [|x [|y t]]; try discriminate.
    destruct (existsb is_cat (x :: y :: t)); discriminate.
Qed.

(* 3. unroll_loops: the loops with a positive minimum (an unrolled loop leaves copies of a loop-free body and a
   loop with minimum 0) *)
Definition kloop_pos (mn : N) : nat := if (mn =? 0)%N then 0 else 1.
Notation mu_un := (amu kleaf0 0 0 0 0 0 kloop_pos).
Lemma unrollable_mu0 : forall n budget, fst (is_unrollable n budget) = true -> mu_un n = 0%nat.
Proof.
  induction n as [n Hleaf|l H|a b IHa IHb|id c nm IHc|neg bw sg eg c IHc|b mn mx g egs ege IHb|b mn mx g IHb] using node_ind2;
    intros budget Hu.
  - destruct n as [| |c|bs|bs|cs|l|n1 n2| | |sl ml|iv ui|id c nm|gr ic|b|alts ic|ng bw sg eg n|n mn mx g n1 n2|n mn mx g]; try contradiction; reflexivity.
  - destruct budget as [|bd]; [discriminate|].
    rewrite amu_cat. cbn [is_unrollable] in Hu.
    revert bd Hu. induction H as [|x l Hx Hl IH]; intros bd Hu; [reflexivity|].
    destruct (is_unrollable x bd) as [r b'] eqn:Ex. destruct r; [|discriminate].
    cbn [map]. rewrite lsum_cons. specialize (IH b' Hu). rewrite (Hx bd ltac:(rewrite Ex; reflexivity)). exact IH.
  - destruct budget as [|bd]; [discriminate|].
    cbn [is_unrollable] in Hu. destruct (is_unrollable a bd) as [r b'] eqn:Ea. destruct r; [|discriminate].
    cbn [amu]. rewrite (IHa bd ltac:(rewrite Ea; reflexivity)), (IHb b' Hu). reflexivity.
  - destruct budget as [|bd]; [discriminate|]. cbn [is_unrollable] in Hu. cbn [amu]. rewrite (IHc bd Hu). reflexivity.
  - destruct budget as [|bd]; [discriminate|]. cbn [is_unrollable] in Hu. cbn [amu]. rewrite (IHc bd Hu). reflexivity.
  - destruct budget as [|bd]; discriminate.
  - destruct budget as [|bd]; discriminate.
Qed.
Lemma try_dup_err : forall n d e, try_duplicate n d = Err e -> e = Panic.
Proof.
  induction n as [n Hleaf|l H|a b IHa IHb|id c nm IHc|neg bw sg eg c IHc|b mn mx g egs ege IHb|b mn mx g IHb] using node_ind2;
    intros d e E.
  - destruct n as [| |c|bs|bs|cs|l|n1 n2| | |sl ml|iv ui|id c nm|gr ic|b|alts ic|ng bw sg eg n|n mn mx g n1 n2|n mn mx g]; try contradiction; cbn [try_duplicate] in E; destruct (100 <? d)%nat; discriminate.
  - cbn [try_duplicate] in E. destruct (100 <? d)%nat; [discriminate|].
    assert (Hgo : forall e,
      (fix go (l : list node) : R (option (list node)) :=
         match l with
         | [] => Ok (Some [])
         | x :: t =>
             do rx <- try_duplicate x (S d);
             match rx with
             | None => Ok None
             | Some x' => do rt <- go t; Ok (option_map (cons x') rt)
             end
         end) l = Err e -> e = Panic).
    { clear E e. induction H as [|x l Hx Hl IH]; intros e El; [discriminate|].
      destruct (try_duplicate x (S d)) as [e0|[x'|]] eqn:Ex; cbn [bindR] in El; try discriminate.
      - inversion El; subst. eapply Hx; exact Ex.
      - match type of El with (do rt <- ?r; _) = _ => destruct r as [e1|[t'|]] eqn:Et; cbn [bindR option_map] in El; try discriminate end.
        inversion El; subst. apply IH. reflexivity. }
    match type of E with (do o <- ?r; _) = _ => destruct r as [e1|[l'|]] eqn:El; cbn [bindR option_map] in E; try discriminate end.
    inversion E; subst. apply Hgo. reflexivity.
  - cbn [try_duplicate] in E. destruct (100 <? d)%nat; [discriminate|].
    destruct (try_duplicate a (S d)) as [e0|[a'|]] eqn:Ea; cbn [bindR] in E; try discriminate.
    + inversion E; subst. eapply IHa; exact Ea.
    + destruct (try_duplicate b (S d)) as [e0|[b'|]] eqn:Eb; cbn [bindR option_map] in E; try discriminate.
      inversion E; subst. eapply IHb; exact Eb.
  - cbn [try_duplicate] in E. destruct (100 <? d)%nat; [discriminate|]. inversion E; reflexivity.
  - cbn [try_duplicate] in E. destruct (100 <? d)%nat; [discriminate|]. destruct (sg <? eg)%nat; [inversion E; reflexivity|].
    destruct (try_duplicate c (S d)) as [e0|[c'|]] eqn:Ec; cbn [bindR option_map] in E; try discriminate.
    inversion E; subst. eapply IHc; exact Ec.
  - cbn [try_duplicate] in E. destruct (100 <? d)%nat; [discriminate|]. destruct (egs <? ege)%nat; [inversion E; reflexivity|].
    destruct (try_duplicate b (S d)) as [e0|[b'|]] eqn:Eb; cbn [bindR option_map] in E; try discriminate.
    inversion E; subst. eapply IHb; exact Eb.
  - cbn [try_duplicate] in E. destruct (100 <? d)%nat; [discriminate|].
    destruct (try_duplicate b (S d)) as [e0|[b'|]] eqn:Eb; cbn [bindR option_map] in E; try discriminate.
    inversion E; subst. eapply IHb; exact Eb.
Qed.
Lemma dup_n_err body : forall k e, dup_n body k = Err e -> e = Panic.
Proof.
  induction k as [|k IH]; intros e E; cbn [dup_n] in E; [discriminate|].
  destruct (try_duplicate body 0) as [e0|[x|]] eqn:Ex; cbn [bindR] in E; try discriminate.
  - inversion E; subst. eapply try_dup_err; exact Ex.
  - destruct (dup_n body k) as [e0|[t|]] eqn:Et; cbn [bindR option_map] in E; try discriminate.
    inversion E; subst. apply IH. reflexivity.
Qed.
Lemma repeat_mu0 body : mu_un body = 0%nat -> forall k, list_sum (map mu_un (repeat body k)) = 0%nat.
Proof. intros H k. induction k as [|k IH]; [reflexivity|]. cbn [repeat map]. rewrite lsum_cons, H, IH. reflexivity. Qed.
Lemma unroll_dec : forall lb n a, unroll_loops lb n = Ok a -> a <> Keep -> mu_un (act_node a n) < mu_un n.
Proof.
  intros lb n a E Ha. destruct n as [| |c|bs|bs|cs|l|n1 n2| | |sl ml|iv ui|id c nm|gr ic|b|alts ic|ng bw sg eg n|n mn mx g n1 n2|n mn mx g]; cbn [unroll_loops] in E; try (inversion E; subst; contradiction).
    destruct (n1 <? n2)%nat; [inversion E; subst; contradiction|].
    destruct ((mn =? 0)%N || (LOOP_UNROLL_THRESHOLD <? mn)%N) eqn:Em; [inversion E; subst; contradiction|].
    destruct (fst (is_unrollable n UNROLL_BODY_BUDGET)) eqn:Eu; cbn [negb] in E; [|inversion E; subst; contradiction].
    destruct (dup_n n (N.to_nat mn)) as [e|[copies|]] eqn:Ed; cbn [bindR] in E; [discriminate| |inversion E; subst; contradiction].
    inversion E; subst. cbn [act_node]. rewrite (dup_n_repeat _ _ _ Ed). rewrite amu_cat.
    pose proof (unrollable_mu0 _ _ Eu) as H0. rewrite map_app, lsum_app, (repeat_mu0 _ H0).
    apply orb_false_iff in Em as [Em _]. cbn [amu]. rewrite H0. unfold kloop_pos at 2. rewrite Em.
    destruct (option_map (fun v : N => (v - mn)%N) mx) as [v|] eqn:Emx.
    + destruct (v =? 0)%N eqn:Ev.
      * apply N.eqb_eq in Ev. subst v. unfold kloop_pos; rewrite ?N.eqb_refl; cbn. lia.
      * destruct v; [discriminate|]. cbn [map]. rewrite lsum_cons. cbn [amu]. rewrite H0. unfold kloop_pos; rewrite ?N.eqb_refl; cbn. lia.
    + cbn [map]. rewrite lsum_cons. cbn [amu]. rewrite H0. unfold kloop_pos; rewrite ?N.eqb_refl; cbn. lia.
Qed.
Lemma unroll_nu : forall lb n, unroll_loops lb n <> Err Unreach.
Proof.
  intros lb n. destruct n as [| |c|bs|bs|cs|l|n1 n2| | |sl ml|iv ui|id c nm|gr ic|b|alts ic|ng bw sg eg n|n mn mx g n1 n2|n mn mx g]; cbn [unroll_loops]; try discriminate.
    destruct (n1 <? n2)%nat; [discriminate|]. destruct ((mn =? 0)%N || (LOOP_UNROLL_THRESHOLD <? mn)%N); [discriminate|].
    destruct (negb (fst (is_unrollable n UNROLL_BODY_BUDGET))); [discriminate|].
    destruct (dup_n n (N.to_nat mn)) as [e|[copies|]] eqn:Ed; cbn [bindR]; try discriminate.
    intros Hx; inversion Hx; subst. pose proof (dup_n_err _ _ _ Ed). discriminate.
Qed.
Lemma unroll_settles : settles (run_to_fixpoint unroll_loops).
Proof. exact (settles_pass _ kleaf0 0 0 0 0 0 kloop_pos unroll_dec unroll_nu). Qed.
Lemma unroll_fuel_bound : forall fuel n, mu_un n < fuel -> run_to_fixpoint unroll_loops fuel n <> Err Unreach.
Proof. exact (fixpoint_terminates _ kleaf0 0 0 0 0 0 kloop_pos unroll_dec unroll_nu). Qed.

(* 4. promote_1char_loops: the number of Loop nodes *)
Lemma promote_settles : settles (run_to_fixpoint promote_1char_loops).
Proof.
  apply (settles_pass _ kleaf0 0 0 0 0 0 k1).
  - intros lb n a E Ha. destruct n as [| |c|bs|bs|cs|l|n1 n2| | |sl ml|iv ui|id c nm|gr ic|b|alts ic|ng bw sg eg n|n mn mx g n1 n2|n mn mx g]; cbn [promote_1char_loops] in E; try (inversion E; subst; contradiction).
    destruct (negb (matches_exactly_one_char n)); [inversion E; subst; contradiction|].
    destruct (n1 <? n2)%nat; [discriminate|]. inversion E; subst. cbn [act_node amu]. lia.
  - intros lb n. destruct n as [| |c|bs|bs|cs|l|n1 n2| | |sl ml|iv ui|id c nm|gr ic|b|alts ic|ng bw sg eg n|n mn mx g n1 n2|n mn mx g]; cbn [promote_1char_loops]; try discriminate.
    destruct (negb (matches_exactly_one_char n)); [discriminate|]. destruct (n1 <? n2)%nat; discriminate.
Qed.

(* 5. form_literal_bytes: twice the characters and sets still to convert, plus the non-empty byte sequences
   (a merge makes one out of two) *)
Definition kleaf_lit (n : node) : nat :=
  match n with
  | NChar _ => 2 | NCharSet _ => 2
  | NByteSequence bs => if list_is_empty bs then 0 else 1
  | _ => 0
  end.
Notation mu_lit := (amu kleaf_lit 0 0 0 0 0 k0).
Lemma merge_tail_mu lb : forall t cur,
  let r := merge_bytes_tail lb cur t in
  (list_sum (map mu_lit (fst r)) <= mu_lit cur + list_sum (map mu_lit t))%nat /\
  (snd r = true -> (list_sum (map mu_lit (fst r)) < mu_lit cur + list_sum (map mu_lit t))%nat).
Proof.
  induction t as [|c t IH]; intros cur r; subst r.
  - cbn [merge_bytes_tail fst snd map]. rewrite lsum_cons. cbn [list_sum fold_right]. split; [lia|discriminate].
  - assert (Hkeep : let r := merge_bytes_tail lb c t in
             (list_sum (map mu_lit (cur :: fst r)) <= mu_lit cur + list_sum (map mu_lit (c :: t)))%nat /\
             (snd r = true -> (list_sum (map mu_lit (cur :: fst r)) < mu_lit cur + list_sum (map mu_lit (c :: t)))%nat)).
    { destruct (IH c) as [H1 H2]. cbn [map]. rewrite !lsum_cons. split; [lia|intros Hs; specialize (H2 Hs); lia]. }
    destruct cur; try (cbn [merge_bytes_tail]; destruct (merge_bytes_tail lb c t) as [r0 m0]; exact Hkeep).
    destruct c; try (cbn [merge_bytes_tail]; match goal with |- context [merge_bytes_tail ?a ?b ?d] => destruct (merge_bytes_tail a b d) as [r0 m0] end; exact Hkeep).
    cbn [merge_bytes_tail].
    destruct (negb (list_is_empty bs) && negb (list_is_empty bs0)) eqn:Ene;
      [|destruct (merge_bytes_tail lb (NByteSequence bs0) t) as [r0 m0]; exact Hkeep].
    apply andb_true_iff in Ene as [E1 E2]. apply negb_true_iff in E1, E2.
    destruct (IH (NByteSequence (if lb then bs0 ++ bs else bs ++ bs0))) as [H1 _].
    destruct (merge_bytes_tail lb (NByteSequence (if lb then bs0 ++ bs else bs ++ bs0)) t) as [r0 m0].
    cbn [fst snd] in *. cbn [map]. rewrite !lsum_cons.
    assert (Hm : (mu_lit (NByteSequence (if lb then bs0 ++ bs else bs ++ bs0)) <= 1)%nat).
    { cbn [amu kleaf_lit]. destruct (list_is_empty (if lb then bs0 ++ bs else bs ++ bs0)); lia. }
    cbn [amu kleaf_lit list_is_empty] in *. rewrite E1, E2. split; [lia|intros _; lia].
Qed.
Lemma literal_settles : settles (run_to_fixpoint form_literal_bytes).
Proof.
  apply (settles_pass _ kleaf_lit 0 0 0 0 0 k0).
  - intros lb n a E Ha. destruct n as [| |c|bs|bs|cs|l|n1 n2| | |sl ml|iv ui|id c nm|gr ic|b|alts ic|ng bw sg eg n|n mn mx g n1 n2|n mn mx g]; cbn [form_literal_bytes] in E; try (inversion E; subst; contradiction).
    + destruct (is_scalar c); inversion E; subst; [|contradiction]. cbn [act_node amu kleaf_lit].
      destruct (list_is_empty (utf8_encode c)); lia.
    + destruct (forallb (fun c : N => (c <=? 127)%N) cs); inversion E; subst; [|contradiction]. cbn [act_node amu kleaf_lit]. lia.
    + destruct l as [|x t]; [inversion E; subst; contradiction|].
      pose proof (merge_tail_mu lb t x) as [_ H2]. destruct (merge_bytes_tail lb x t) as [l' m]. cbn [fst snd] in H2.
      destruct m; inversion E; subst; [|contradiction]. cbn [act_node]. rewrite !amu_cat. cbn [map]. rewrite lsum_cons.
      specialize (H2 eq_refl). lia.
  - intros lb n. destruct n as [| |c|bs|bs|cs|l|n1 n2| | |sl ml|iv ui|id c nm|gr ic|b|alts ic|ng bw sg eg n|n mn mx g n1 n2|n mn mx g]; cbn [form_literal_bytes]; try discriminate.
    + destruct (is_scalar c); discriminate.
    + destruct (forallb (fun c : N => (c <=? 127)%N) cs); discriminate.
    + destruct l as [|x t]; [discriminate|]. destruct (merge_bytes_tail lb x t) as [l' m]. destruct m; discriminate.
Qed.

(* 6. remove_empties: the size of the tree, an empty byte sequence counting 2 (it becomes Empty, which counts 1) *)
Definition kleaf_em (n : node) : nat := match n with NByteSequence [] => 2 | _ => 1 end.
Notation mu_em := (amu kleaf_em 1 1 1 1 1 k1).
Lemma mu_em_pos n : (1 <= mu_em n)%nat.
Proof. destruct n as [| |c|bs|bs|cs|l|n1 n2| | |sl ml|iv ui|id c nm|gr ic|b|alts ic|ng bw sg eg n|n mn mx g n1 n2|n mn mx g]; cbn [amu kleaf_em]; try lia. destruct bs; lia. Qed.
Lemma filter_mu : forall l,
  let kept := filter (fun x => negb (is_empty_node x)) l in
  (list_sum (map mu_em kept) <= list_sum (map mu_em l))%nat /\
  (length kept <> length l -> (list_sum (map mu_em kept) < list_sum (map mu_em l))%nat).
Proof.
  induction l as [|x l [IH1 IH2]]; [split; [cbn; lia|intros H; contradiction]|].
  cbn [filter]. destruct (negb (is_empty_node x)) eqn:Ex; cbn [map length]; rewrite !lsum_cons.
  - split; [lia|]. intros Hl. assert (Hl' : length (filter (fun x => negb (is_empty_node x)) l) <> length l) by lia.
    specialize (IH2 Hl'). lia.
  - pose proof (mu_em_pos x). split; [lia|intros _; lia].
Qed.
Lemma empties_settles : settles (run_to_fixpoint remove_empties).
Proof.
  apply (settles_pass _ kleaf_em 1 1 1 1 1 k1).
  - intros lb n a E Ha. destruct n as [| |c|bs|bs|cs|l|n1 n2| | |sl ml|iv ui|id c nm|gr ic|b|alts ic|ng bw sg eg n|n mn mx g n1 n2|n mn mx g]; cbn [remove_empties] in E; try (inversion E; subst; contradiction).
    + destruct bs; inversion E; subst; [|contradiction]. cbn [act_node amu kleaf_em]. lia.
    + destruct (filter_mu l) as [F1 F2]. cbn zeta in F1, F2.
      destruct (length (filter (fun x => negb (is_empty_node x)) l) =? length l)%nat eqn:El; [inversion E; subst; contradiction|].
      apply Nat.eqb_neq in El. specialize (F2 El). rewrite amu_cat.
      destruct (filter (fun x => negb (is_empty_node x)) l) as [|x [|y t]] eqn:Ef; inversion E; subst; cbn [act_node].
      * cbn [amu kleaf_em]. lia.
      * cbn [map] in F2. rewrite lsum_cons in F2. cbn [list_sum fold_right] in F2. lia.
      * rewrite amu_cat. lia.
    + destruct (is_empty_node n1 && is_empty_node n2); inversion E; subst; [|contradiction].
      cbn [act_node amu kleaf_em]. pose proof (mu_em_pos n1). lia.
    + destruct (negb ng && is_empty_node n); inversion E; subst; [|contradiction].
      cbn [act_node amu kleaf_em]. pose proof (mu_em_pos n). lia.
    + match type of E with (if ?c then _ else _) = _ => destruct c end; inversion E; subst; [|contradiction].
      cbn [act_node amu kleaf_em]. pose proof (mu_em_pos n). lia.
  - intros lb n. destruct n as [| |c|bs|bs|cs|l|n1 n2| | |sl ml|iv ui|id c nm|gr ic|b|alts ic|ng bw sg eg n|n mn mx g n1 n2|n mn mx g]; cbn [remove_empties]; try discriminate.
    + destruct bs; discriminate.
    + destruct (_ =? _)%nat; [discriminate|]. destruct (filter _ l) as [|x [|y t]]; discriminate.
    + destruct (is_empty_node n1 && is_empty_node n2); discriminate.
    + destruct (negb ng && is_empty_node n); discriminate.
    + match goal with |- (if ?c then _ else _) <> _ => destruct c end; discriminate.
Qed.

(* 7. propagate_early_fails: the size of the tree *)
Notation kleaf1 := (fun _ : node => 1).
Notation mu_sz := (amu kleaf1 1 1 1 1 1 k1).
Lemma mu_sz_pos n : (1 <= mu_sz n)%nat.
Proof. destruct n as [| |c|bs|bs|cs|l|n1 n2| | |sl ml|iv ui|id c nm|gr ic|b|alts ic|ng bw sg eg n|n mn mx g n1 n2|n mn mx g]; cbn [amu]; lia. Qed.
Lemma fails_settles : settles (run_to_fixpoint propagate_early_fails).
Proof.
  apply (settles_pass _ kleaf1 1 1 1 1 1 k1).
  - intros lb n a E Ha. unfold propagate_early_fails in E.
    destruct (contains_capture_groups n); [inversion E; subst; contradiction|].
    destruct n as [| |c|bs|bs|cs|l|n1 n2| | |sl ml|iv ui|id c nm|gr ic|b|alts ic|ng bw sg eg n|n mn mx g n1 n2|n mn mx g]; try (inversion E; subst; contradiction).
    + destruct (existsb match_always_fails l) eqn:Ex; inversion E; subst; [|contradiction].
      cbn [act_node]. rewrite amu_cat. destruct l as [|x t]; [discriminate|]. cbn [map]. rewrite lsum_cons.
      pose proof (mu_sz_pos x). cbn [make_always_fails amu]. lia.
    + pose proof (mu_sz_pos n1). pose proof (mu_sz_pos n2).
      destruct (match_always_fails n1), (match_always_fails n2); inversion E; subst; try contradiction;
        cbn [act_node make_always_fails amu]; lia.
    + destruct (n1 <? n2)%nat; [inversion E; subst; contradiction|].
      destruct ((0 <? mn)%N && match_always_fails n); inversion E; subst; [|contradiction].
      cbn [act_node make_always_fails amu]. pose proof (mu_sz_pos n). lia.
  - intros lb n. unfold propagate_early_fails. destruct (contains_capture_groups n); [discriminate|].
    destruct n as [| |c|bs|bs|cs|l|n1 n2| | |sl ml|iv ui|id c nm|gr ic|b|alts ic|ng bw sg eg n|n mn mx g n1 n2|n mn mx g]; try discriminate.
    + destruct (existsb match_always_fails l); discriminate.
    + destruct (match_always_fails n1), (match_always_fails n2); discriminate.
    + destruct (n1 <? n2)%nat; [discriminate|]. destruct ((0 <? mn)%N && match_always_fails n); discriminate.
Qed.

(* ---- optimize(): from some fuel on the answer does not depend on the fuel, and it is never "out of fuel" ---- *)
Theorem optimize_settles : forall u16, settles (fun fuel n => optimize_with fuel u16 n).
Proof.
  intros u16. unfold optimize_with.
  apply (settles_comp (run_to_fixpoint simplify_brackets)); [exact brackets_settles|].
  apply (settles_comp (run_to_fixpoint decat)); [exact decat_settles|].
  apply (settles_comp (run_to_fixpoint unroll_loops)); [exact unroll_settles|].
  apply (settles_comp (run_to_fixpoint promote_1char_loops)); [exact promote_settles|].
  apply (settles_comp (fun fuel n => if u16 then Ok n else run_to_fixpoint form_literal_bytes fuel n));
    [apply settles_skip; exact literal_settles|].
  apply (settles_comp (run_to_fixpoint remove_empties)); [exact empties_settles|].
  exact fails_settles.
Qed.

(* what the fuel of the model's `optimize` (PASS_FUEL) yields, any larger fuel yields as well *)
Lemma bind_stage func f f' m (k k' : node -> R node) r : f <= f' -> r <> Err Unreach ->
  (do x <- run_to_fixpoint func f m; k x) = r -> (forall x, k x = r -> k' x = r) ->
  (do x <- run_to_fixpoint func f' m; k' x) = r.
Proof.
  intros Hle Hr E Hk. destruct (run_to_fixpoint func f m) as [e|x] eqn:Ex; cbn [bindR] in E.
  - assert (He : Err (A := node) e <> Err Unreach) by (rewrite E; exact Hr).
    rewrite (fixpoint_fuel_mono func f m (Err e) Ex He f' Hle). exact E.
  - rewrite (fixpoint_fuel_mono func f m (Ok x) Ex ltac:(discriminate) f' Hle). cbn [bindR]. apply Hk. exact E.
Qed.
Lemma optimize_with_mono : forall f f' u16 n r, optimize_with f u16 n = r -> r <> Err Unreach -> f <= f' -> optimize_with f' u16 n = r.
Proof.
  intros f f' u16 n r E Hr Hle. unfold optimize_with in *.
  eapply bind_stage; [exact Hle|exact Hr|exact E|]. clear E. intros n0 E.
  eapply bind_stage; [exact Hle|exact Hr|exact E|]. clear E. intros n1 E.
  eapply bind_stage; [exact Hle|exact Hr|exact E|]. clear E. intros n2 E.
  eapply bind_stage; [exact Hle|exact Hr|exact E|]. clear E. intros n3 E.
  destruct u16; cbn [bindR] in *.
  - eapply bind_stage; [exact Hle|exact Hr|exact E|]. clear E. intros n5 E.
    eapply fixpoint_fuel_mono; eauto.
  - eapply bind_stage; [exact Hle|exact Hr|exact E|]. clear E. intros n4 E.
    eapply bind_stage; [exact Hle|exact Hr|exact E|]. clear E. intros n5 E.
    eapply fixpoint_fuel_mono; eauto.
Qed.
