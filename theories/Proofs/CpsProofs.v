(* CpsProofs.v — the algebra of CodePointSet (model of src/codepointset.rs): the representation invariant
   is preserved and every operation denotes the corresponding set operation on code points. *)
From RV Require Import Base.
From RV.Model Require Import CodePointSet.
From Coq Require Import ZifyBool.

Local Ltac bdestruct :=
  repeat match goal with
  | |- context [?a <? ?b] => destruct (N.ltb_spec a b)
  | |- context [?a <=? ?b] => destruct (N.leb_spec a b)
  | |- context [?a =? ?b] => destruct (N.eqb_spec a b)
  | H : context [?a <? ?b] |- _ => destruct (N.ltb_spec a b)
  | H : context [?a <=? ?b] |- _ => destruct (N.leb_spec a b)
  end.

Definition inb (c : N) (f l : N) : bool := (f <=? c) && (c <=? l).

Lemma contains_cons s f l c : cps_contains ((f, l) :: s) c = inb c f l || cps_contains s c.
Proof. reflexivity. Qed.

Lemma contains_app a b c : cps_contains (a ++ b) c = cps_contains a c || cps_contains b c.
Proof. unfold cps_contains. apply existsb_app. Qed.

(* every interval of a wf set from [lo] starts at or after lo *)
Lemma wf_from_weaken lo lo' s : lo' <= lo -> cps_wf_from lo s = true -> cps_wf_from lo' s = true.
Proof.
  destruct s as [|[f l] t]; simpl; auto. intros H Hw.
  apply andb_true_iff in Hw as [Hw H4]. apply andb_true_iff in Hw as [Hw H3]. apply andb_true_iff in Hw as [H1 H2].
  rewrite H2, H3, H4. apply N.leb_le in H1. assert (lo' <=? f = true) as -> by (apply N.leb_le; lia). reflexivity.
Qed.

Lemma wf_from_below lo s c : cps_wf_from lo s = true -> c < lo -> cps_contains s c = false.
Proof.
  revert lo; induction s as [|[f l] t IH]; intros lo Hw Hc; simpl; auto.
  simpl in Hw. apply andb_true_iff in Hw as [Hw H4]. apply andb_true_iff in Hw as [Hw H3]. apply andb_true_iff in Hw as [H1 H2].
  apply N.leb_le in H1, H2. unfold iv_contains; simpl.
  assert (f <=? c = false) as -> by (apply N.leb_gt; lia). simpl. apply (IH (l + 2)); auto. lia.
Qed.

Lemma wf_cons lo f l t : cps_wf_from lo ((f, l) :: t) = true <->
  lo <= f /\ f <= l /\ l <= CODE_POINT_MAX /\ cps_wf_from (l + 2) t = true.
Proof.
  simpl. rewrite !andb_true_iff, !N.leb_le. tauto.
Qed.

(* ---------------- add ---------------- *)
Lemma add_contains s f l c : f <= l ->
  cps_contains (cps_add s f l) c = cps_contains s c || inb c f l.
Proof.
  revert f l; induction s as [|[sf sl] t IH]; intros f l Hfl; simpl.
  - unfold iv_contains, inb; simpl. rewrite orb_false_r. reflexivity.
  - destruct (N.ltb_spec (sl + 1) f).
    + simpl. rewrite IH by assumption. rewrite orb_assoc. reflexivity.
    + destruct (N.ltb_spec (l + 1) sf).
      * simpl. unfold iv_contains, inb; simpl.
        destruct ((f <=? c) && (c <=? l)); destruct ((sf <=? c) && (c <=? sl)); destruct (cps_contains t c); reflexivity.
      * rewrite IH by lia. unfold iv_contains, inb; simpl.
        (* the union of two overlapping-or-abutting intervals is the interval [min, max] *)
        destruct (cps_contains t c); [rewrite !orb_true_r, ?orb_true_l; simpl; rewrite ?orb_true_r; reflexivity|].
        rewrite !orb_false_r, orb_false_l.
        destruct (N.leb_spec (N.min sf f) c), (N.leb_spec c (N.max sl l)), (N.leb_spec sf c), (N.leb_spec c sl),
                 (N.leb_spec f c), (N.leb_spec c l); simpl; try reflexivity; lia.
Qed.

Lemma add_wf lo s f l : cps_wf_from lo s = true -> lo <= f -> f <= l -> l <= CODE_POINT_MAX ->
  cps_wf_from lo (cps_add s f l) = true.
Proof.
  revert lo f l; induction s as [|[sf sl] t IH]; intros lo f l Hw Hlo Hfl Hmax.
  - simpl. apply andb_true_iff; split; [|reflexivity]. rewrite !andb_true_iff, !N.leb_le. auto.
  - apply wf_cons in Hw as (H1 & H2 & H3 & H4). simpl.
    destruct (N.ltb_spec (sl + 1) f).
    + apply wf_cons. repeat split; auto. apply IH; auto. lia.
    + destruct (N.ltb_spec (l + 1) sf).
      * apply wf_cons. repeat split; auto. apply wf_cons. repeat split; auto. lia.
      * apply IH; try lia.
        eapply wf_from_weaken; [|exact H4]. lia.
Qed.

(* ---------------- inverted ---------------- *)
Lemma inverted_go_contains s start c : cps_wf_from start s = true -> c <= CODE_POINT_MAX ->
  cps_contains (cps_inverted_go s start) c = (start <=? c) && negb (cps_contains s c).
Proof.
  revert start; induction s as [|[f l] t IH]; intros start Hw Hc; simpl.
  - destruct (N.leb_spec start CODE_POINT_MAX); simpl.
    + unfold iv_contains; simpl. rewrite orb_false_r, andb_true_r.
      destruct (N.leb_spec start c); simpl; auto. apply N.leb_le; assumption.
    + rewrite andb_true_r. symmetry. apply N.leb_gt. lia.
  - apply wf_cons in Hw as (H1 & H2 & H3 & H4).
    rewrite contains_app. rewrite IH by first [assumption | (eapply wf_from_weaken; [|exact H4]; lia)].
    unfold iv_contains; simpl.
    assert (Ht : forall x, x < l + 2 -> cps_contains t x = false) by (intros; eapply wf_from_below; eauto).
    destruct (N.ltb_spec start f); simpl; unfold iv_contains; simpl; rewrite ?orb_false_r;
      repeat match goal with |- context [N.leb ?a ?b] => destruct (N.leb_spec a b) end;
      simpl; try reflexivity; try lia; rewrite ?Ht by lia; try reflexivity.
Qed.

Lemma inverted_contains s c : cps_wf s = true -> c <= CODE_POINT_MAX ->
  cps_contains (cps_inverted s) c = negb (cps_contains s c).
Proof.
  intros Hw Hc. unfold cps_inverted. rewrite inverted_go_contains by assumption.
  assert (0 <=? c = true) as -> by (apply N.leb_le; lia). reflexivity.
Qed.

Lemma inverted_go_wf s start lo : cps_wf_from start s = true -> lo <= start ->
  cps_wf_from lo (cps_inverted_go s start) = true.
Proof.
  revert start lo; induction s as [|[f l] t IH]; intros start lo Hw Hlo; simpl.
  - destruct (N.leb_spec start CODE_POINT_MAX); simpl; auto.
    rewrite !andb_true_iff, !N.leb_le. repeat split; auto; lia.
  - apply wf_cons in Hw as (H1 & H2 & H3 & H4).
    destruct (N.ltb_spec start f); simpl.
    + rewrite !andb_true_iff, !N.leb_le. repeat split; try lia.
      apply IH; [eapply wf_from_weaken; [|exact H4]; lia | lia].
    + apply IH; [eapply wf_from_weaken; [|exact H4]; lia | lia].
Qed.

Lemma inverted_wf s : cps_wf s = true -> cps_wf (cps_inverted s) = true.
Proof. intro H. unfold cps_wf, cps_inverted. eapply inverted_go_wf; eauto. lia. Qed.

(* ---------------- intersect ---------------- *)
Local Ltac cmp_crush :=
  repeat (first [ progress (unfold iv_contains, iv_overlaps, inb; simpl)
                | match goal with
                  | |- context [N.leb ?a ?b] => destruct (N.leb_spec a b)
                  | |- context [N.ltb ?a ?b] => destruct (N.ltb_spec a b)
                  end ]); simpl; try reflexivity; try lia.

Lemma intersect_inner s rf rl c :
  cps_contains (flat_map (fun si : N * N => if iv_overlaps (rf, rl) si
                 then [(N.max rf (fst si), N.min rl (snd si))] else []) s) c
  = cps_contains s c && inb c rf rl.
Proof.
  induction s as [|[sf sl] s IH]; simpl; auto.
  rewrite contains_app, IH. unfold iv_overlaps, iv_contains, inb; simpl.
  destruct (cps_contains s c); rewrite ?orb_true_r, ?orb_false_r, ?andb_true_r, ?andb_false_r; cmp_crush.
Qed.

Lemma intersect_contains s r c : cps_contains (cps_intersect s r) c = cps_contains s c && cps_contains r c.
Proof.
  unfold cps_intersect. induction r as [|[rf rl] r IH]; simpl; [rewrite andb_false_r; reflexivity|].
  rewrite contains_app, IH, intersect_inner. unfold iv_contains, inb; simpl.
  destruct (cps_contains s c), ((rf <=? c) && (c <=? rl)), (cps_contains r c); reflexivity.
Qed.

(* ---------------- add_set ---------------- *)
Lemma fold_add_contains b a c : Forall (fun i => fst i <= snd i) b ->
  cps_contains (fold_left (fun acc i => cps_add acc (fst i) (snd i)) b a) c = cps_contains a c || cps_contains b c.
Proof.
  revert a; induction b as [|[f l] b IH]; intros a Hb; simpl; [rewrite orb_false_r; reflexivity|].
  inversion Hb; subst. rewrite IH by assumption. rewrite add_contains by assumption.
  unfold iv_contains, inb; simpl. rewrite orb_assoc. reflexivity.
Qed.

Lemma wf_intervals_ordered lo s : cps_wf_from lo s = true -> Forall (fun i => fst i <= snd i) s.
Proof.
  revert lo; induction s as [|[f l] t IH]; intros lo H; constructor.
  - apply wf_cons in H as (_ & H & _). exact H.
  - apply wf_cons in H as (_ & _ & _ & H). eapply IH; eauto.
Qed.

Lemma add_set_contains s r c : cps_wf s = true -> cps_wf r = true ->
  cps_contains (cps_add_set s r) c = cps_contains s c || cps_contains r c.
Proof.
  intros Hs Hr. unfold cps_add_set. destruct (length s <? length r)%nat.
  - rewrite fold_add_contains by (eapply wf_intervals_ordered; eauto). apply orb_comm.
  - rewrite fold_add_contains by (eapply wf_intervals_ordered; eauto). reflexivity.
Qed.

Lemma fold_add_wf b a : cps_wf a = true -> Forall (fun i => fst i <= snd i /\ snd i <= CODE_POINT_MAX) b ->
  cps_wf (fold_left (fun acc i => cps_add acc (fst i) (snd i)) b a) = true.
Proof.
  revert a; induction b as [|[f l] b IH]; intros a Ha Hb; simpl; auto.
  inversion Hb as [|? ? [H1 H2] Hb']; subst. apply IH; auto.
  unfold cps_wf. apply add_wf; auto. lia.
Qed.

Lemma wf_intervals_bounded lo s : cps_wf_from lo s = true ->
  Forall (fun i => fst i <= snd i /\ snd i <= CODE_POINT_MAX) s.
Proof.
  revert lo; induction s as [|[f l] t IH]; intros lo H; constructor.
  - apply wf_cons in H as (_ & H1 & H2 & _). split; assumption.
  - apply wf_cons in H as (_ & _ & _ & H). eapply IH; eauto.
Qed.

Lemma add_set_wf s r : cps_wf s = true -> cps_wf r = true -> cps_wf (cps_add_set s r) = true.
Proof.
  intros Hs Hr. unfold cps_add_set. destruct (length s <? length r)%nat;
    apply fold_add_wf; auto; eapply wf_intervals_bounded; eauto.
Qed.

(* ---------------- remove ---------------- *)
Lemma wf_from_contains_ge lo s c : cps_wf_from lo s = true -> cps_contains s c = true -> lo <= c.
Proof.
  intros Hw Hc. destruct (N.le_gt_cases lo c); auto.
  rewrite (wf_from_below lo s c Hw) in Hc by lia. discriminate.
Qed.

Lemma remove_go_contains fuel f l rest rem lo c :
  (length rest + length rem < fuel)%nat ->
  f <= l -> cps_wf_from (l + 2) rest = true -> cps_wf_from lo rem = true ->
  cps_contains (cps_remove_go fuel (f, l) rest rem) c
  = (inb c f l || cps_contains rest c) && negb (cps_contains rem c).
Proof.
  revert f l rest rem lo; induction fuel as [|k IH]; intros f l rest rem lo Hfuel Hfl Hrest Hrem; [lia|].
  cbn [cps_remove_go]. cbv zeta.
  destruct rem as [|[rf rl] rem'].
  - simpl. rewrite andb_true_r. reflexivity.
  - unfold cps, iv in *. pose proof Hrem as Hrem0.
    apply wf_cons in Hrem as (R1 & R2 & R3 & R4). cbn [fst snd].
    assert (Hrem'_lo : forall x, x < rl + 2 -> cps_contains rem' x = false) by (intros; eapply wf_from_below; eauto).
    assert (Hrest_lo : forall x, x < l + 2 -> cps_contains rest x = false) by (intros; eapply wf_from_below; eauto).
    assert (Hrest_ge : cps_contains rest c = true -> l + 2 <= c) by (apply wf_from_contains_ge; auto).
    destruct (N.ltb_spec rl f).
    + (* the removed interval lies entirely before cur *)
      rewrite (IH f l rest rem' (rl + 2)) by (auto; simpl in *; lia).
      rewrite contains_cons. unfold inb.
      destruct (cps_contains rest c) eqn:E; [specialize (Hrest_ge eq_refl)|clear Hrest_ge];
        destruct (N.leb_spec f c), (N.leb_spec c l), (N.leb_spec rf c), (N.leb_spec c rl); simpl; try reflexivity; lia.
    + destruct rest as [|[f2 l2] rest'].
      * (* cur is the last interval *)
        destruct (N.ltb_spec l rf).
        -- simpl. unfold iv_contains, inb; simpl. rewrite !orb_false_r.
           destruct (N.leb_spec f c), (N.leb_spec c l), (N.leb_spec rf c), (N.leb_spec c rl); simpl; try reflexivity; try lia.
           all: rewrite Hrem'_lo by lia; reflexivity.
        -- rewrite contains_app.
           destruct (N.ltb_spec rl l).
           ++ rewrite (IH (rl + 1) l [] rem' (rl + 2)) by (auto; simpl in *; lia).
              destruct (N.ltb_spec f rf); simpl; unfold iv_contains, inb; simpl; rewrite ?orb_false_r;
                destruct (N.leb_spec f c), (N.leb_spec c l), (N.leb_spec rf c), (N.leb_spec c rl), (N.leb_spec (rl + 1) c);
                simpl; try lia; try (destruct (N.leb_spec c (rf - 1)); simpl; try lia);
                rewrite ?Hrem'_lo by lia; try reflexivity.
           ++ destruct (N.ltb_spec f rf); simpl; unfold iv_contains, inb; simpl; rewrite ?orb_false_r;
                destruct (N.leb_spec f c), (N.leb_spec c l), (N.leb_spec rf c), (N.leb_spec c rl);
                simpl; try lia; try (destruct (N.leb_spec c (rf - 1)); simpl; try lia);
                rewrite ?Hrem'_lo by lia; try reflexivity.
      * pose proof Hrest as Hrest0.
        apply wf_cons in Hrest as (S1 & S2 & S3 & S4).
        assert (Hnx : forall rm lo', rm = (rf, rl) :: rem' -> cps_wf_from lo' rm = true ->
                  cps_contains (cps_remove_go k (f2, l2) rest' rm) c
                  = (inb c f2 l2 || cps_contains rest' c) && negb (cps_contains rm c)).
        { intros rm lo' -> Hw. apply (IH f2 l2 rest' _ lo'); auto. simpl in *; lia. }
        change (cps_contains ((f2, l2) :: rest') c) with (inb c f2 l2 || cps_contains rest' c) in *.
        destruct (N.ltb_spec l rf).
        -- rewrite !contains_cons. rewrite (Hnx ((rf, rl) :: rem') lo eq_refl Hrem0). rewrite ?contains_cons. unfold inb in *.
           destruct (N.leb_spec f c), (N.leb_spec c l), (N.leb_spec rf c), (N.leb_spec c rl); simpl; try lia;
             rewrite ?Hrem'_lo by lia; simpl; try reflexivity.
           all: try (destruct ((f2 <=? c) && (c <=? l2) || cps_contains rest' c) eqn:E; simpl; try reflexivity;
                     specialize (Hrest_ge eq_refl); lia).
           all: destruct ((f2 <=? c) && (c <=? l2) || cps_contains rest' c); reflexivity.
        -- rewrite contains_app. unfold cps, iv in *.
           assert (Hpre : cps_contains (if f <? rf then [(f, rf - 1)] else []) c = inb c f l && (c <? rf)).
           { unfold inb. destruct (N.ltb_spec f rf); simpl; unfold iv_contains; simpl; rewrite ?orb_false_r;
               destruct (N.leb_spec f c), (N.leb_spec c l), (N.ltb_spec c rf); simpl; try reflexivity; try lia;
               destruct (N.leb_spec c (rf - 1)); simpl; try reflexivity; lia. }
           unfold cps, iv in *. rewrite Hpre. rewrite ?contains_cons.
           destruct (N.ltb_spec rl l).
           ++ rewrite (IH (rl + 1) l ((f2, l2) :: rest') rem' (rl + 2)) by (auto; simpl in *; lia).
              change (cps_contains ((f2, l2) :: rest') c) with (inb c f2 l2 || cps_contains rest' c).
              unfold inb in *.
              destruct ((f2 <=? c) && (c <=? l2) || cps_contains rest' c) eqn:E; [specialize (Hrest_ge eq_refl)|clear Hrest_ge];
                destruct (N.leb_spec f c), (N.leb_spec c l), (N.ltb_spec c rf), (N.leb_spec rf c), (N.leb_spec c rl),
                         (N.leb_spec (rl + 1) c); simpl; try lia; rewrite ?Hrem'_lo by lia; simpl; try reflexivity.
           ++ rewrite (Hnx ((rf, rl) :: rem') lo eq_refl Hrem0). rewrite ?contains_cons. unfold inb in *.
              destruct ((f2 <=? c) && (c <=? l2) || cps_contains rest' c) eqn:E; [specialize (Hrest_ge eq_refl)|clear Hrest_ge];
                destruct (N.leb_spec f c), (N.leb_spec c l), (N.ltb_spec c rf), (N.leb_spec rf c), (N.leb_spec c rl);
                simpl; try lia; try reflexivity; rewrite ?Hrem'_lo by lia; try reflexivity;
                destruct (cps_contains rem' c); reflexivity.
Qed.

Lemma remove_contains s r c : cps_wf s = true -> cps_wf r = true ->
  cps_contains (cps_remove s r) c = cps_contains s c && negb (cps_contains r c).
Proof.
  intros Hs Hr. unfold cps_remove. destruct s as [|[f l] rest]; [reflexivity|].
  apply wf_cons in Hs as (S1 & S2 & S3 & S4).
  rewrite (remove_go_contains _ f l rest r 0); auto; simpl; lia.
Qed.
