(* OptDD.v — ordered result lists up to repeated results.  [dd r r']: r' is r with some elements deleted, each
   deleted element being equal to one that stands earlier in r.  A backtracking search cannot tell the two apart
   (a continuation that rejected a state rejects it again), the first element and emptiness are the same, and the
   relation is kept by concatenation and by mapping a (refining) function over the list. *)
From RV Require Import Base.
From RV.Model Require Import Utf8 Indexer CodePointSet Insn IR Optimizer Unfold Emit.
From RV.Spec Require Import IRSem.

Inductive ddS : list mst -> list mst -> list mst -> Prop :=
| ddS_nil : forall seen, ddS seen [] []
| ddS_keep : forall seen x r r', ddS (x :: seen) r r' -> ddS seen (x :: r) (x :: r')
| ddS_drop : forall seen x r r', In x seen -> ddS seen r r' -> ddS seen (x :: r) r'.

Definition dd (r r' : list mst) : Prop := ddS [] r r'.

Lemma ddS_refl : forall r seen, ddS seen r r.
Proof. induction r as [|x r IH]; intro seen; constructor. apply IH. Qed.

Lemma ddS_incl : forall s r r', ddS s r r' -> forall s', incl s s' -> ddS s' r r'.
Proof.
  induction 1 as [s|s x r r' H IH|s x r r' Hin H IH]; intros s' Hs.
  - constructor.
  - apply ddS_keep. apply IH. intros y [Hy|Hy]; [left; exact Hy|right; apply Hs; exact Hy].
  - apply ddS_drop; [apply Hs; exact Hin|apply IH; exact Hs].
Qed.

Lemma ddS_trans : forall s1 a b, ddS s1 a b -> forall s2 c, ddS s2 b c -> incl s2 s1 -> ddS s1 a c.
Proof.
  induction 1 as [s1|s1 x a b H IH|s1 x a b Hin H IH]; intros s2 c Hbc Hs.
  - inversion Hbc; subst. constructor.
  - inversion Hbc as [|s2' x' b0 c0 Hk|s2' x' b0 c0 Hin2 Hd]; subst.
    + apply ddS_keep. eapply IH; [exact Hk|]. intros y [Hy|Hy]; [left; exact Hy|right; apply Hs; exact Hy].
    + apply ddS_drop; [apply Hs; exact Hin2|].
      eapply ddS_incl; [eapply IH; [exact Hd|]|].
      * intros y Hy. right. apply Hs. exact Hy.
      * intros y [Hy|Hy]; [subst y; apply Hs; exact Hin2|exact Hy].
  - apply ddS_drop; [exact Hin|]. eapply IH; eauto.
Qed.

Lemma dd_refl r : dd r r.
Proof. apply ddS_refl. Qed.
Lemma dd_trans a b c : dd a b -> dd b c -> dd a c.
Proof. intros H1 H2. eapply ddS_trans; [exact H1|exact H2|]. intros y Hy. exact Hy. Qed.

Lemma ddS_app : forall s a a', ddS s a a' -> forall b b', ddS (a ++ s) b b' -> ddS s (a ++ b) (a' ++ b').
Proof.
  induction 1 as [s|s x a a' H IH|s x a a' Hin H IH]; intros b b' Hb.
  - exact Hb.
  - cbn [app]. apply ddS_keep. apply IH. eapply ddS_incl; [exact Hb|].
    intros y Hy. cbn [app] in Hy. destruct Hy as [Hy|Hy]; [subst y; apply in_or_app; right; left; reflexivity|].
    apply in_app_or in Hy as [Hy|Hy]; apply in_or_app; [left; exact Hy|right; right; exact Hy].
  - cbn [app]. apply ddS_drop; [exact Hin|]. apply IH. eapply ddS_incl; [exact Hb|].
    intros y Hy. cbn [app] in Hy. destruct Hy as [Hy|Hy]; [subst y; apply in_or_app; right; exact Hin|exact Hy].
Qed.

Lemma ddS_drop_all : forall a s b b', incl a s -> ddS s b b' -> ddS s (a ++ b) b'.
Proof.
  induction a as [|x a IH]; intros s b b' Hi Hb; [exact Hb|]. cbn [app].
  apply ddS_drop; [apply Hi; left; reflexivity|]. apply IH; [|exact Hb]. intros y Hy. apply Hi. right. exact Hy.
Qed.

Lemma dd_app a a' b b' : dd a a' -> dd b b' -> dd (a ++ b) (a' ++ b').
Proof. intros Ha Hb. apply ddS_app; [exact Ha|]. eapply ddS_incl; [exact Hb|]. intros y []. Qed.

Lemma dd_cons x r r' : dd r r' -> dd (x :: r) (x :: r').
Proof. intro H. apply ddS_keep. eapply ddS_incl; [exact H|]. intros y []. Qed.

Lemma dd_nil_l r' : dd [] r' -> r' = [].
Proof. intro H. inversion H; reflexivity. Qed.

Lemma dd_head r r' : dd r r' ->
  match r, r' with [], [] => True | x :: _, y :: _ => x = y | _, _ => False end.
Proof.
  intro H. inversion H as [|s x r0 r0' Hk|s x r0 r0' Hin Hd]; subst; [exact I|reflexivity|destruct Hin].
Qed.

(* duplicate the whole list: what Alt(Empty, Empty) does *)
Lemma ddS_all_seen : forall a s, incl a s -> ddS s a [].
Proof.
  induction a as [|x a IH]; intros s Hi; [constructor|].
  apply ddS_drop; [apply Hi; left; reflexivity|]. apply IH. intros y Hy. apply Hi. right. exact Hy.
Qed.

Lemma dd_twice r : dd (r ++ r) r.
Proof.
  unfold dd. replace r with (r ++ []) at 3 by apply app_nil_r. apply ddS_app; [apply ddS_refl|].
  apply ddS_all_seen. intros y Hy. apply in_or_app. left. exact Hy.
Qed.

(* the elements that remain are elements of the original list *)
Lemma ddS_in : forall s r r', ddS s r r' -> forall y, In y r' -> In y r.
Proof.
  induction 1 as [s|s x r r' H IH|s x r r' Hin H IH]; intros y Hy.
  - exact Hy.
  - destruct Hy as [Hy|Hy]; [left; exact Hy|right; apply IH; exact Hy].
  - right. apply IH. exact Hy.
Qed.

Lemma dd_Forall (P : mst -> Prop) r r' : dd r r' -> Forall P r -> Forall P r'.
Proof.
  intros Hd Hr. rewrite Forall_forall in *. intros y Hy. apply Hr. eapply ddS_in; eauto.
Qed.

(* ---- functions refining each other up to repeated results, on the states that satisfy P ---- *)
Definition frelP {A} (P : A -> Prop) (f g : A -> option (list mst)) : Prop :=
  forall x r, P x -> f x = Some r -> exists r', g x = Some r' /\ dd r r'.
Definition frel {A} (f g : A -> option (list mst)) : Prop := frelP (fun _ => True) f g.

Lemma frelP_refl {A} (P : A -> Prop) (f : A -> option (list mst)) : frelP P f f.
Proof. intros x r _ E. exists r. split; [exact E|apply dd_refl]. Qed.
Lemma frelP_trans {A} (P : A -> Prop) (f g k : A -> option (list mst)) : frelP P f g -> frelP P g k -> frelP P f k.
Proof.
  intros H1 H2 x r Hx E. destruct (H1 x r Hx E) as [r1 [E1 D1]]. destruct (H2 x r1 Hx E1) as [r2 [E2 D2]].
  exists r2. split; [exact E2|eapply dd_trans; eauto].
Qed.
Lemma frel_refl {A} (f : A -> option (list mst)) : frel f f.
Proof. apply frelP_refl. Qed.
Lemma frel_trans {A} (f g k : A -> option (list mst)) : frel f g -> frel g k -> frel f k.
Proof. apply frelP_trans. Qed.

Lemma obindm_ddS (P : mst -> Prop) (f g : mst -> option (list mst)) : frelP P f g ->
  forall seen xs xs', ddS seen xs xs' -> Forall P xs -> forall seenO ys,
  (forall x0 a, In x0 seen -> f x0 = Some a -> incl a seenO) ->
  obindm f xs = Some ys -> exists ys', obindm g xs' = Some ys' /\ ddS seenO ys ys'.
Proof.
  intro Hfg. induction 1 as [s|s x r r' H IH|s x r r' Hin H IH]; intros HP seenO ys Hinv E.
  - cbn [obindm] in *. inversion E; subst. exists []. split; [reflexivity|constructor].
  - cbn [obindm] in E. destruct (f x) as [a|] eqn:Ea; [|discriminate].
    destruct (obindm f r) as [b|] eqn:Eb; [|discriminate]. inversion E; subst.
    inversion HP as [|x0 r0 Hpx Hpr]; subst.
    destruct (Hfg x a Hpx Ea) as [a' [Ea' Da]].
    destruct (IH Hpr (a ++ seenO) b) as [b' [Eb' Db]]; [|reflexivity|].
    { intros x0 a0 [Hx|Hx] E0.
      - subst x0. rewrite Ea in E0. inversion E0; subst. intros y Hy. apply in_or_app. left. exact Hy.
      - intros y Hy. apply in_or_app. right. eapply Hinv; eauto. }
    exists (a' ++ b'). split; [cbn [obindm]; rewrite Ea', Eb'; reflexivity|].
    apply ddS_app; [eapply ddS_incl; [exact Da|intros y []]|exact Db].
  - cbn [obindm] in E. destruct (f x) as [a|] eqn:Ea; [|discriminate].
    destruct (obindm f r) as [b|] eqn:Eb; [|discriminate]. inversion E; subst.
    inversion HP as [|x0 r0 Hpx Hpr]; subst.
    destruct (IH Hpr seenO b Hinv eq_refl) as [b' [Eb' Db]]. exists b'. split; [exact Eb'|].
    apply ddS_drop_all; [eapply Hinv; eauto|exact Db].
Qed.

Lemma obindm_frelP (P : mst -> Prop) (f g : mst -> option (list mst)) : frelP P f g ->
  forall xs xs' ys, Forall P xs -> dd xs xs' -> obindm f xs = Some ys -> exists ys', obindm g xs' = Some ys' /\ dd ys ys'.
Proof.
  intros Hfg xs xs' ys HP Hd E. eapply (obindm_ddS P f g Hfg [] xs xs' Hd HP [] ys); [|exact E].
  intros x0 a [].
Qed.

Lemma obindm_frel (f g : mst -> option (list mst)) : frel f g ->
  forall xs xs' ys, dd xs xs' -> obindm f xs = Some ys -> exists ys', obindm g xs' = Some ys' /\ dd ys ys'.
Proof.
  intros Hfg xs xs' ys Hd E. eapply (obindm_frelP (fun _ => True) f g Hfg xs xs' ys); [|exact Hd|exact E].
  apply Forall_forall. intros; exact I.
Qed.
