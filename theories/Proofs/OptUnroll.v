(* OptUnroll.v — the unroll_loops pass keeps the meaning of every node: a loop without capture groups and with a
   minimum of 1..5 means its body repeated min times followed by the same loop with the minimum taken off both
   bounds. *)
From RV Require Import Base.
From RV.Model Require Import Utf8 Indexer CodePointSet Insn IR Optimizer Unfold Emit.
From RV.Spec Require Import IRSem IRShape.
From RV.Proofs Require Import NodeInd IRRange IRMono OptDD OptMono OptWalk OptRel.

(* try_duplicate returns a copy *)
Lemma try_dup_id : forall n d n', try_duplicate n d = Ok (Some n') -> n' = n.
Proof.
  induction n as [n Hleaf|l H|a b IHa IHb|id c nm IHc|neg bw sg eg c IHc|b mn mx g egs ege IHb|b mn mx g IHb] using node_ind2;
    intros d n' E.
  - destruct n; try contradiction; cbn [try_duplicate] in E; destruct (100 <? d)%nat; inversion E; reflexivity.
  - cbn [try_duplicate] in E. destruct (100 <? d)%nat; [discriminate|].
    assert (Hgo : forall l',
      (fix go (l : list node) : R (option (list node)) :=
         match l with
         | [] => Ok (Some [])
         | x :: t =>
             do rx <- try_duplicate x (S d);
             match rx with
             | None => Ok None
             | Some x' => do rt <- go t; Ok (option_map (cons x') rt)
             end
         end) l = Ok (Some l') -> l' = l).
    { clear E. induction H as [|x l Hx Hl IH]; intros l' El; [inversion El; reflexivity|].
      destruct (try_duplicate x (S d)) as [e|[x'|]] eqn:Ex; cbn [bindR] in El; try discriminate.
      match type of El with (do rt <- ?r; _) = _ => destruct r as [e|[t'|]] eqn:Et; cbn [bindR option_map] in El; try discriminate end.
      inversion El; subst. rewrite (Hx _ _ Ex), (IH _ eq_refl). reflexivity. }
    match type of E with (do o <- ?r; _) = _ => destruct r as [e|[l'|]] eqn:El; cbn [bindR option_map] in E; try discriminate end.
    inversion E; subst. rewrite (Hgo _ eq_refl). reflexivity.
  - cbn [try_duplicate] in E. destruct (100 <? d)%nat; [discriminate|].
    destruct (try_duplicate a (S d)) as [e|[a'|]] eqn:Ea; cbn [bindR] in E; try discriminate.
    destruct (try_duplicate b (S d)) as [e|[b'|]] eqn:Eb; cbn [bindR option_map] in E; try discriminate.
    inversion E; subst. rewrite (IHa _ _ Ea), (IHb _ _ Eb). reflexivity.
  - cbn [try_duplicate] in E. destruct (100 <? d)%nat; discriminate.
  - cbn [try_duplicate] in E. destruct (100 <? d)%nat; [discriminate|]. destruct (sg <? eg)%nat; [discriminate|].
    destruct (try_duplicate c (S d)) as [e|[c'|]] eqn:Ec; cbn [bindR option_map] in E; try discriminate.
    inversion E; subst. rewrite (IHc _ _ Ec). reflexivity.
  - cbn [try_duplicate] in E. destruct (100 <? d)%nat; [discriminate|]. destruct (egs <? ege)%nat; [discriminate|].
    destruct (try_duplicate b (S d)) as [e|[b'|]] eqn:Eb; cbn [bindR option_map] in E; try discriminate.
    inversion E; subst. rewrite (IHb _ _ Eb). reflexivity.
  - cbn [try_duplicate] in E. destruct (100 <? d)%nat; [discriminate|].
    destruct (try_duplicate b (S d)) as [e|[b'|]] eqn:Eb; cbn [bindR option_map] in E; try discriminate.
    inversion E; subst. rewrite (IHb _ _ Eb). reflexivity.
Qed.

Lemma dup_n_repeat body : forall k copies, dup_n body k = Ok (Some copies) -> copies = repeat body k.
Proof.
  induction k as [|k IH]; intros copies E; cbn [dup_n] in E; [inversion E; reflexivity|].
  destruct (try_duplicate body 0) as [e|[x|]] eqn:Ex; cbn [bindR] in E; try discriminate.
  destruct (dup_n body k) as [e|[t|]] eqn:Et; cbn [bindR option_map] in E; try discriminate.
  inversion E; subst. rewrite (try_dup_id _ _ _ Ex), (IH _ eq_refl). reflexivity.
Qed.

Lemma obindm_ext_all {A} (f g : A -> option (list mst)) : (forall x, f x = g x) -> forall xs, obindm f xs = obindm g xs.
Proof. intros H xs. induction xs as [|x xs IH]; [reflexivity|]. cbn [obindm]. rewrite H, IH. reflexivity. Qed.

Lemma obindm_assoc {A} (f : A -> option (list mst)) (g : mst -> option (list mst)) : forall xs r,
  obindm (fun y => match f y with None => None | Some zs => obindm g zs end) xs = Some r ->
  exists ys, obindm f xs = Some ys /\ obindm g ys = Some r.
Proof.
  induction xs as [|x xs IH]; intros r E; cbn [obindm] in E.
  - inversion E; subst. exists []. split; reflexivity.
  - destruct (f x) as [zs|] eqn:Ef; [|discriminate]. destruct (obindm g zs) as [a|] eqn:Ea; [|discriminate].
    match type of E with match ?o with _ => _ end = _ => destruct o as [b|] eqn:Eb; [|discriminate] end.
    inversion E; subst. destruct (IH b eq_refl) as [ys [Ey Eg]].
    exists (zs ++ ys). split; [cbn [obindm]; rewrite Ef, Ey; reflexivity|].
    rewrite obindm_app, Ea, Eg. reflexivity.
Qed.

Lemma obindm_id {A} (g : A -> option (list A)) : True. Proof. exact I. Qed.

Lemma obindm_self (g : mst -> option (list mst)) : (forall y ry, g y = Some ry -> ry = [y]) ->
  forall xs r, obindm g xs = Some r -> r = xs.
Proof.
  intro Hg. induction xs as [|x xs IH]; intros r E; cbn [obindm] in E; [inversion E; reflexivity|].
  destruct (g x) as [a|] eqn:Ea; [|discriminate]. destruct (obindm g xs) as [b|] eqn:Eb; [|discriminate].
  inversion E; subst. rewrite (Hg _ _ Ea), (IH _ eq_refl). reflexivity.
Qed.

Lemma forallb_repeat {A} (p : A -> bool) x : p x = true -> forall k, forallb p (repeat x k) = true.
Proof. intros Hp k. induction k as [|k IH]; [reflexivity|]. cbn [repeat forallb]. rewrite Hp, IH. reflexivity. Qed.

Lemma ng_repeat x : ng x = 0%nat -> forall k, list_sum (map ng (repeat x k)) = 0%nat.
Proof. intros Hx k. induction k as [|k IH]; [reflexivity|]. cbn [repeat map]. rewrite list_sum_cons, Hx, IH. reflexivity. Qed.

Section LoopFacts.
  Variable bodyf : mst -> option (list mst).
  Variables (mn : N) (mx : option N) (gr : bool) (egs ege : nat).
  Hypothesis Hz : (ege - egs = 0)%nat.
  Hypothesis Hmm : mn <= max_val mx.
  Notation L := (loop_results bodyf mn mx gr egs ege).
  Notation mx' := (option_map (fun v => v - mn) mx).
  Notation L' := (loop_results bodyf 0 mx' gr egs ege).

  Lemma loop_entry_irrel lf k e1 e2 y : k <= mn -> L lf k e1 y = L lf k e2 y.
  Proof.
    intro Hk. destruct lf as [|lf]; [reflexivity|]. cbn [loop_results].
    replace (mn <? k) with false by (symmetry; apply N.ltb_ge; exact Hk). rewrite !andb_false_r. reflexivity.
  Qed.

  Lemma loop_pre lf k entry y : k < mn ->
    L (S lf) k entry y = match bodyf y with None => None | Some zs => obindm (L lf (k + 1) (fst y)) zs end.
  Proof.
    intro Hk. destruct y as [q G]. cbn [loop_results]. rewrite Hz. cbn [reset_groups fst snd].
    replace (mn <? k) with false by (symmetry; apply N.ltb_ge; lia). rewrite andb_false_r. cbn [andb].
    replace (k <? max_val mx) with true by (symmetry; apply N.ltb_lt; lia).
    replace (mn <=? k) with false by (symmetry; apply N.leb_gt; lia). cbn [negb andb]. reflexivity.
  Qed.

  Lemma loop_at_max lf e y r : mx = Some mn -> L lf mn e y = Some r -> r = [y].
  Proof.
    intros Hmx E. destruct lf as [|lf]; [discriminate|]. cbn [loop_results] in E. subst mx. cbn [max_val] in E.
    rewrite N.ltb_irrefl in E. rewrite andb_false_r in E. cbn [andb negb] in E. rewrite N.leb_refl in E.
    cbn [negb] in E. inversion E; reflexivity.
  Qed.

  (* the iteration counter stays far below usize::MAX: past the minimum every iteration moves on (the empty check),
     the body never moves against its direction, and positions stay inside the text *)
  Variable len : nat.
  Variable mu : nat -> nat.
  Hypothesis Hmu_le : forall q, (q <= len)%nat -> (mu q <= len)%nat.
  Hypothesis Hmu_inj : forall a b, (a <= len)%nat -> (b <= len)%nat -> mu a = mu b -> a = b.
  Hypothesis Hbody : forall y zs, (fst y <= len)%nat -> bodyf y = Some zs ->
    Forall (fun z => (fst z <= len)%nat /\ (mu (fst y) <= mu (fst z))%nat) zs.
  Hypothesis Hlen : N.of_nat len + mn + 2 < USIZE_MAX.

  Lemma obindm_ext_in {A} (f g : A -> option (list mst)) : forall xs, (forall x, In x xs -> f x = g x) -> obindm f xs = obindm g xs.
  Proof.
    induction xs as [|x xs IH]; intro H; [reflexivity|]. cbn [obindm]. rewrite (H x (or_introl eq_refl)).
    rewrite IH by (intros y Hy; apply H; right; exact Hy). reflexivity.
  Qed.

  Lemma loop_shift : forall lf j entry y, (fst y <= len)%nat ->
    (j = 0 \/ (j <= N.of_nat (mu entry) + 1 /\ (mu entry <= mu (fst y))%nat /\ (entry <= len)%nat)) ->
    L lf (mn + j) entry y = L' lf j entry y.
  Proof.
    induction lf as [|lf IH]; intros j entry y Hy Hinv; [reflexivity|]. cbn [loop_results].
    assert (Hc : (0 <? mn + j) && (mn <? mn + j) = (0 <? j) && (0 <? j)).
    { destruct (N.ltb_spec 0 j) as [Hj|Hj].
      - replace (0 <? mn + j) with true by (symmetry; apply N.ltb_lt; lia).
        replace (mn <? mn + j) with true by (symmetry; apply N.ltb_lt; lia). reflexivity.
      - replace (mn <? mn + j) with false by (symmetry; apply N.ltb_ge; lia). rewrite andb_false_r. reflexivity. }
    rewrite Hc. destruct ((0 <? j) && (0 <? j) && (entry =? fst y)%nat) eqn:Hchk; [reflexivity|].
    assert (Hj : j <= N.of_nat (mu (fst y))).
    { destruct Hinv as [->|(H1 & H2 & H3)]; [lia|].
      destruct (N.ltb_spec 0 j) as [Hj0|Hj0]; [|lia]. cbn [andb] in Hchk. apply Nat.eqb_neq in Hchk.
      assert (mu entry <> mu (fst y)) by (intro Heq; apply Hchk; apply Hmu_inj; assumption). lia. }
    pose proof (Hmu_le (fst y) Hy) as Hmy.
    assert (He : (mn + j <? max_val mx) = (j <? max_val mx')).
    { destruct mx as [v|]; cbn [option_map max_val] in *.
      - destruct (N.ltb_spec (mn + j) v); destruct (N.ltb_spec j (v - mn)); try reflexivity; lia.
      - replace (mn + j <? USIZE_MAX) with true by (symmetry; apply N.ltb_lt; lia).
        replace (j <? USIZE_MAX) with true by (symmetry; apply N.ltb_lt; lia). reflexivity. }
    assert (Hs : (mn <=? mn + j) = (0 <=? j)).
    { replace (mn <=? mn + j) with true by (symmetry; apply N.leb_le; lia).
      replace (0 <=? j) with true by (symmetry; apply N.leb_le; lia). reflexivity. }
    assert (Hit : forall g1, match bodyf (fst y, g1) with
                             | None => None
                             | Some zs => obindm (L lf (mn + j + 1) (fst y)) zs
                             end =
                             match bodyf (fst y, g1) with
                             | None => None
                             | Some zs => obindm (L' lf (j + 1) (fst y)) zs
                             end).
    { intro g1. destruct (bodyf (fst y, g1)) as [zs|] eqn:Ez; [|reflexivity]. apply obindm_ext_in. intros z Hz0.
      pose proof (Hbody (fst y, g1) zs Hy Ez) as Hb. rewrite Forall_forall in Hb. destruct (Hb z Hz0) as [Hz1 Hz2]. cbn [fst] in Hz2.
      rewrite <- N.add_assoc. apply IH; [exact Hz1|]. right. split; [lia|]. split; [exact Hz2|exact Hy]. }
    rewrite He, Hs. destruct (reset_groups (snd y) egs (ege - egs)) as [g1|]; [rewrite Hit|]; reflexivity.
  Qed.
End LoopFacts.

Section Unroll.
  Variable ix : indexer.
  Variables unicode utf16 : bool.
  Variable h : hay.
  Variable okp : nat -> Prop.
  Notation IR := (ir_results ix unicode utf16 h).
  Notation ref := (ref ix unicode utf16 h okp).
  Notation al := (al ix unicode utf16 h okp).
  Notation PRel := (PRel ix unicode utf16 h okp).

  Definition unroll_tail (body : node) (mn : N) (mx : option N) (g : bool) (egs ege : nat) : list node :=
    let mx' := option_map (fun v => v - mn) mx in
    match mx' with
    | Some 0 => []
    | _ => [NLoop body 0 mx' g egs ege]
    end.

  (* the indexer moves inside the text and in its direction (on every text); the well-formed positions lie inside
     this text, which is shorter than usize::MAX *)
  Hypothesis Hcur : forall (h' : hay) fwd p c p', (p <= length h')%nat -> cnext ix fwd h' p = Ok (Some (c, p')) -> (p' <= length h')%nat.
  Hypothesis Hdir : forall (h' : hay) fwd p c p', cnext ix fwd h' p = Ok (Some (c, p')) -> if fwd then (p <= p')%nat else (p' <= p)%nat.
  Hypothesis Hk0 : forall q, okp q -> (q <= length h)%nat.
  Hypothesis Hlen : N.of_nat (length h) + 8 < USIZE_MAX.
  Notation len := (length h).

  Definition mu (fwd : bool) (q : nat) : nat := if fwd then q else (len - q)%nat.

  Lemma body_moves f fwd body : forall y zs, (fst y <= len)%nat -> IR f body fwd y = Some zs ->
    Forall (fun z => (fst z <= len)%nat /\ (mu fwd (fst y) <= mu fwd (fst z))%nat) zs.
  Proof.
    intros [p G] zs Hy E. cbn [fst] in *.
    pose proof (ir_range ix unicode utf16 h Hcur f body fwd p G zs Hy E) as Hr.
    pose proof (ir_mono ix unicode utf16 h Hdir f body fwd p G zs E) as Hm.
    unfold okpos in Hr. unfold okdir, dir in Hm. rewrite Forall_forall in *. intros z Hz.
    specialize (Hr z Hz). specialize (Hm z Hz). split; [exact Hr|]. unfold mu. destruct fwd; lia.
  Qed.

  Lemma obindm_fle_in {A} (f g : A -> option (list mst)) : forall xs r,
    (forall x r0, In x xs -> f x = Some r0 -> g x = Some r0) -> obindm f xs = Some r -> obindm g xs = Some r.
  Proof.
    induction xs as [|x xs IH]; intros r Hfg E; [exact E|]. cbn [obindm] in *.
    destruct (f x) as [a|] eqn:Ef; [|discriminate]. destruct (obindm f xs) as [b|] eqn:Eb; [|discriminate].
    rewrite (Hfg x a (or_introl eq_refl) Ef). rewrite (IH b) by (intros; eauto using in_cons). exact E.
  Qed.

  Lemma unroll_main f fwd body mn mx g egs ege : (ege - egs = 0)%nat -> mn <= max_val mx -> mn <= 5 ->
    forall j m k, k + N.of_nat j = mn -> (m <= f)%nat -> forall xs r, Forall (fun x => (fst x <= len)%nat) xs ->
    obindm (loop_results (IR f body fwd) mn mx g egs ege m k 0) xs = Some r ->
    cat_results (fun c => IR (S f) c fwd) (repeat body j ++ unroll_tail body mn mx g egs ege) xs = Some r.
  Proof.
    intros Hz Hmm H5.
    assert (Hshift : forall lf y, (fst y <= len)%nat ->
              loop_results (IR f body fwd) mn mx g egs ege lf (mn + 0) 0 y =
              loop_results (IR f body fwd) 0 (option_map (fun v => v - mn) mx) g egs ege lf 0 0 y).
    { intros lf y Hy. apply (loop_shift (IR f body fwd) mn mx g egs ege Hz Hmm len (mu fwd)).
      - intros q Hq. unfold mu. destruct fwd; lia.
      - intros a b Ha Hb E. unfold mu in E. destruct fwd; lia.
      - apply body_moves.
      - lia.
      - exact Hy.
      - left. reflexivity. }
    induction j as [|j IH]; intros m k Hk Hm xs r Hxs E.
    - cbn [repeat app]. assert (k = mn) by lia. subst k. unfold unroll_tail.
      destruct (option_map (fun v => v - mn) mx) as [[|vp]|] eqn:Emx.
      + (* the maximum is the minimum: nothing follows the copies *)
        destruct mx as [v|]; [|discriminate]. cbn [option_map] in Emx. inversion Emx as [Ev].
        cbn [max_val] in Hmm. assert (v = mn) by lia. subst v. cbn [cat_results]. f_equal. symmetry.
        eapply obindm_self; [|exact E]. intros y ry Ey. exact (loop_at_max _ mn (Some mn) g egs ege Hmm m 0 y ry eq_refl Ey).
      + cbn [cat_results].
        erewrite obindm_fle_in; [reflexivity| |exact E]. intros y ry Hin Ey. rewrite ir_loop_eq.
        rewrite Forall_forall in Hxs. pose proof (Hxs y Hin) as Hy.
        replace mn with (mn + 0) in Ey at 2 by lia. rewrite (Hshift m y Hy) in Ey.
        rewrite (loop_entry_irrel _ 0 _ g egs ege m 0 0 (fst y) y) in Ey by lia.
        eapply loop_fle; [apply fle_refl|exact Hm|exact Ey].
      + cbn [cat_results].
        erewrite obindm_fle_in; [reflexivity| |exact E]. intros y ry Hin Ey. rewrite ir_loop_eq.
        rewrite Forall_forall in Hxs. pose proof (Hxs y Hin) as Hy.
        replace mn with (mn + 0) in Ey at 2 by lia. rewrite (Hshift m y Hy) in Ey.
        rewrite (loop_entry_irrel _ 0 _ g egs ege m 0 0 (fst y) y) in Ey by lia.
        eapply loop_fle; [apply fle_refl|exact Hm|exact Ey].
    - cbn [repeat app cat_results]. destruct m as [|m].
      + (* no fuel left: only the empty list of states gets through *)
        destruct xs as [|x xs]; [|cbn in E; discriminate]. cbn [obindm] in *. inversion E; subst. apply cat_nil.
      + rewrite (obindm_ext_all _ (fun y => match IR f body fwd y with
                                             | None => None
                                             | Some zs => obindm (loop_results (IR f body fwd) mn mx g egs ege m (k + 1) 0) zs
                                             end)) in E.
        2:{ intro y. rewrite (loop_pre _ mn mx g egs ege Hz Hmm) by lia.
            destruct (IR f body fwd y) as [zs|]; [|reflexivity]. apply obindm_ext_all. intro z.
            apply loop_entry_irrel. lia. }
        destruct (obindm_assoc _ _ xs r E) as [ys [Ey Eg]].
        assert (Hys : Forall (fun x => (fst x <= len)%nat) ys).
        { eapply (okpos_obindm h (IR f body fwd) (fun y => (fst y <= len)%nat)); [exact Hxs| |exact Ey].
          intros [p G] r0 Hp Er. exact (ir_range ix unicode utf16 h Hcur f body fwd p G r0 Hp Er). }
        rewrite (obindm_fle (IR f body fwd) (IR (S f) body fwd) (ir_fuel_mono ix unicode utf16 h f (S f) ltac:(lia) body fwd) xs ys Ey).
        eapply IH; [| |exact Hys|exact Eg]; lia.
  Qed.

  Lemma ref_unroll fwd body mn mx g egs ege : (ege - egs = 0)%nat -> mn <= max_val mx -> mn <= 5 ->
    ref fwd (NLoop body mn mx g egs ege) (NCat (repeat body (N.to_nat mn) ++ unroll_tail body mn mx g egs ege)).
  Proof.
    intros Hz Hmm H5. split; [|apply rstep_nol1; reflexivity].
    exists 4%nat. intros [|f] x r Hx E; [discriminate|]. exists r. split; [|apply dd_refl].
    eapply (ir_fuel_mono ix unicode utf16 h (S (S f)) (S f + 4)); [lia|].
    rewrite ir_cat_eq. rewrite ir_loop_eq in E.
    eapply (unroll_main f fwd body mn mx g egs ege Hz Hmm H5 (N.to_nat mn) f 0); [rewrite N2Nat.id; lia|lia| |].
    - constructor; [apply Hk0; exact (proj1 Hx)|constructor].
    - rewrite obindm_single. rewrite (loop_entry_irrel _ mn mx g egs ege f 0 0 (fst x) x) by lia. exact E.
  Qed.

  Lemma unroll_sound lb n a : unroll_loops lb n = Ok a -> PRel lb n (act_node a n).
  Proof.
    intros E. destruct n; try (inversion E; subst; apply PRel_refl). cbn [unroll_loops] in E.
    destruct (egs <? ege)%nat eqn:Hg; [inversion E; subst; apply PRel_refl|].
    destruct ((min =? 0) || (LOOP_UNROLL_THRESHOLD <? min)) eqn:Hth; [inversion E; subst; apply PRel_refl|].
    destruct (negb (fst (is_unrollable n UNROLL_BODY_BUDGET))); [inversion E; subst; apply PRel_refl|].
    destruct (dup_n n (N.to_nat min)) as [e|[copies|]] eqn:Ed; cbn [bindR] in E; try discriminate;
      [|inversion E; subst; apply PRel_refl].
    inversion E; subst. cbn [act_node]. rewrite (dup_n_repeat _ _ _ Ed).
    apply orb_false_iff in Hth as [Hm0 Hm5]. apply N.eqb_neq in Hm0. apply N.ltb_ge in Hm5.
    unfold LOOP_UNROLL_THRESHOLD in Hm5. apply Nat.ltb_ge in Hg.
    intros Hq Ha. cbn [qok] in Hq. apply andb_true_iff in Hq as [Hq1 Hq3]. apply andb_true_iff in Hq1 as [Hq1 Hq2].
    apply N.leb_le in Hq2. apply Nat.eqb_eq in Hq3. cbn [OptMono.al] in Ha.
    assert (Hz : (ege - egs = 0)%nat) by lia. assert (Hng : ng n = 0%nat) by lia.
    split; [apply (ref_unroll (negb lb) n min max greedy egs ege Hz Hq2 Hm5)|].
    fold (unroll_tail n min max greedy egs ege). unfold unroll_tail.
    split; [|split].
    - cbn [qok]. rewrite forallb_app, (forallb_repeat qok n Hq1), andb_true_l.
      destruct (option_map (fun v => v - min) max) as [[|vp]|]; [reflexivity| |];
        cbn [forallb qok]; rewrite Hq1, Hz, Hng; cbn; reflexivity.
    - apply al_cat. apply Forall_app. split; [apply Forall_forall; intros y Hy; apply repeat_spec in Hy; subst y; exact Ha|].
      destruct (option_map (fun v => v - min) max) as [[|vp]|]; constructor; try constructor; exact Ha.
    - cbn [ng]. rewrite map_app, list_sum_app, (ng_repeat n Hng).
      destruct (option_map (fun v => v - min) max) as [[|vp]|]; cbn [map list_sum fold_right ng]; lia.
  Qed.

  Theorem unroll_pass_sound fuel n n' : run_to_fixpoint unroll_loops fuel n = Ok n' -> PRel false n n'.
  Proof. apply pass_sound. exact unroll_sound. Qed.
End Unroll.
