(* OptBrackets.v — the simplify_brackets pass keeps the meaning of every node, on text where reading a byte and
   reading an element agree below 128 (an ASCII bracket is matched bytewise, a character set and an inverted bracket
   by element): a small bracket means the character set of its members, and a bracket means the bracket with the
   complementary set and the opposite sense. *)
From RV Require Import Base.
From RV.Model Require Import Utf8 Indexer CodePointSet Insn IR Optimizer Unfold Emit.
From RV.Spec Require Import IRSem IRShape.
From RV.Proofs Require Import NodeInd CpsProofs StartPred OptDD OptMono OptWalk OptRel.

Lemma ascii_bitmap_eq ivs v : v < 128 -> ascii_bitmap_contains (ascii_bitmap_of ivs) v = cps_contains ivs v.
Proof.
  intro E. unfold ascii_bitmap_contains. replace (128 <=? v) with false by (symmetry; apply N.leb_gt; exact E).
  unfold ascii_bitmap_of. rewrite N.shiftr_div_pow2. change (2 ^ 3) with 8.
  rewrite nth_map16 by (apply N.div_lt_upper_bound; lia).
  replace (N.land v 7) with (v mod 8) by (change 7 with (N.ones 3); rewrite N.land_ones; reflexivity).
  rewrite (fold8_testbit (fun b => cps_contains ivs (8 * (v / 8) + b))) by (apply N.mod_lt; lia).
  rewrite <- N.div_mod by lia. reflexivity.
Qed.

Lemma n_range_contains c : forall k f, list_contains (n_range f k) c = (f <=? c) && (c <? f + N.of_nat k).
Proof.
  induction k as [|k IH]; intro f; cbn [n_range].
  - cbn [list_contains existsb]. destruct (N.leb_spec f c); destruct (N.ltb_spec c (f + N.of_nat 0)); try reflexivity; lia.
  - unfold list_contains in *. cbn [existsb]. rewrite IH.
    destruct (N.eqb_spec c f); destruct (N.leb_spec f c); destruct (N.leb_spec (f + 1) c);
      destruct (N.ltb_spec c (f + 1 + N.of_nat k)); destruct (N.ltb_spec c (f + N.of_nat (S k))); try reflexivity; lia.
Qed.

Definition bracket_chars (ivs : cps) : list N := flat_map (fun i => n_range (fst i) (N.to_nat (iv_count i))) ivs.

Lemma bracket_chars_contains c : forall ivs lo, cps_wf_from lo ivs = true ->
  list_contains (bracket_chars ivs) c = cps_contains ivs c.
Proof.
  induction ivs as [|[f l] t IH]; intros lo Hw; [reflexivity|].
  apply wf_cons in Hw as (H1 & H2 & H3 & H4).
  assert (Happ : forall a b, list_contains (a ++ b) c = list_contains a c || list_contains b c)
    by (intros; unfold list_contains; apply existsb_app).
  change (bracket_chars ((f, l) :: t)) with (n_range f (N.to_nat (iv_count (f, l))) ++ bracket_chars t).
  rewrite Happ, n_range_contains, (IH _ H4).
  change (cps_contains ((f, l) :: t) c) with (iv_contains (f, l) c || cps_contains t c). f_equal.
  unfold iv_contains, iv_count. cbn [fst snd].
  rewrite N2Nat.id. destruct (N.leb_spec f c); destruct (N.ltb_spec c (f + (l - f + 1))); destruct (N.leb_spec c l);
    try reflexivity; lia.
Qed.

Lemma bracket_chars_length : forall ivs a,
  N.of_nat (length (bracket_chars ivs)) + a = fold_left (fun acc i => acc + iv_count i) ivs a.
Proof.
  induction ivs as [|i t IH]; intro a; [reflexivity|]. unfold bracket_chars in *. cbn [flat_map fold_left].
  rewrite app_length, <- IH.
  assert (Hl : forall k f, length (n_range f k) = k) by (induction k as [|k IHk]; intro f; cbn [n_range length]; [reflexivity|rewrite IHk; reflexivity]).
  rewrite Hl. lia.
Qed.

Lemma list_contains_pad cs c0 k c : In c0 cs -> list_contains (cs ++ repeat c0 k) c = list_contains cs c.
Proof.
  intro Hin. unfold list_contains. rewrite existsb_app.
  destruct (existsb (N.eqb c) cs) eqn:E; [reflexivity|]. cbn [orb].
  induction k as [|k IH]; [reflexivity|]. cbn [repeat existsb]. rewrite IH, orb_false_r.
  destruct (N.eqb_spec c c0) as [->|]; [|reflexivity].
  exfalso. assert (existsb (N.eqb c0) cs = true) by (apply existsb_exists; exists c0; split; [exact Hin|apply N.eqb_refl]).
  congruence.
Qed.

Section Brackets.
  Variable ix : indexer.
  Variables unicode utf16 : bool.
  Variable h : hay.
  Variable okp : nat -> Prop.
  Notation IR := (ir_results ix unicode utf16 h).
  Notation ref := (ref ix unicode utf16 h okp).
  Notation al := (al ix unicode utf16 h okp).
  Notation lclo := (lclo ix unicode utf16 h okp).
  Notation PRel := (PRel ix unicode utf16 h okp).
  Notation fleO := (fleO okp).
  Notation sclo := (sclo okp).
  (* the text, at the well-formed positions: reading an element leads to a well-formed position; elements are code
     points; a byte below 128 is the element at that place and an element below 128 is the byte; a byte from 128 up
     belongs to an element from 128 up and conversely *)
  Hypothesis Hk1 : forall fwd p c p', okp p -> cnext ix fwd h p = Ok (Some (c, p')) -> okp p'.
  Hypothesis Hcp : forall fwd p c p', okp p -> cnext ix fwd h p = Ok (Some (c, p')) -> c <= CODE_POINT_MAX.
  (* replaying a capture (a stretch of text between two well-formed positions) from a well-formed position ends at one *)
  Hypothesis Hk4 : forall fwd p rs re e, okp p -> okp rs -> okp re -> subrange_eq fwd h p rs re = Ok (Some e) -> okp e.
  Hypothesis Hbyte1 : forall fwd q, okp q ->
    match next_byte fwd h q with
    | Ok (Some (b, q1)) => if b <? 128 then cnext ix fwd h q = Ok (Some (b, q1))
                           else exists c q2, cnext ix fwd h q = Ok (Some (c, q2)) /\ 128 <= c
    | Ok None => cnext ix fwd h q = Ok None
    | Err _ => True
    end.
  Hypothesis Hbyte2 : forall fwd q, okp q ->
    match cnext ix fwd h q with
    | Ok (Some (c, q2)) => if c <? 128 then next_byte fwd h q = Ok (Some (c, q2))
                           else exists b q1, next_byte fwd h q = Ok (Some (b, q1)) /\ 128 <= b
    | Ok None => next_byte fwd h q = Ok None
    | Err _ => True
    end.

  Definition charstep (fwd : bool) (test : N -> bool) (q : nat) : option (option nat) :=
    match next_if ix fwd h q test with Ok r => Some r | Err _ => None end.
  Definition bytestep (fwd : bool) (test : N -> bool) (q : nat) : option (option nat) :=
    match byte_if fwd h q test with Ok r => Some r | Err _ => None end.

  Lemma charstep_ext fwd t1 t2 : (forall c, c <= CODE_POINT_MAX -> t1 c = t2 c) ->
    forall q, okp q -> charstep fwd t1 q = charstep fwd t2 q.
  Proof.
    intros Ht q Hq. unfold charstep, next_if. destruct (cnext ix fwd h q) as [e|[[c q']|]] eqn:Ec; cbn [bindR]; try reflexivity.
    rewrite (Ht c (Hcp _ _ _ _ Hq Ec)). reflexivity.
  Qed.

  Lemma charstep_ext_all fwd t1 t2 : (forall c, t1 c = t2 c) -> forall q, charstep fwd t1 q = charstep fwd t2 q.
  Proof.
    intros Ht q. unfold charstep, next_if. destruct (cnext ix fwd h q) as [e|[[c q']|]] eqn:Ec; cbn [bindR]; try reflexivity.
    rewrite (Ht c). reflexivity.
  Qed.

  Lemma charstep_clo fwd t : sclo (charstep fwd t).
  Proof.
    intros q q' Hq E. unfold charstep, next_if in E. destruct (cnext ix fwd h q) as [e|[[c q1]|]] eqn:Ec; cbn [bindR] in E; try discriminate.
    destruct (t c); inversion E; subst. eapply Hk1; eauto.
  Qed.

  Lemma bytestep_clo fwd t : (forall v, 128 <= v -> t v = false) -> sclo (bytestep fwd t).
  Proof.
    intros Hhi q q' Hq E. unfold bytestep, byte_if in E. pose proof (Hbyte1 fwd q Hq) as Hb.
    destruct (next_byte fwd h q) as [e|[[b q1]|]]; cbn [bindR] in E; try discriminate.
    destruct (t b) eqn:Et; inversion E; subst.
    destruct (N.ltb_spec b 128) as [Hl|Hl]; [eapply Hk1; eauto|rewrite (Hhi b Hl) in Et; discriminate].
  Qed.

  (* a test that only accepts values below 128 and agrees with the element test there *)
  Lemma byte_to_char fwd tb tc : (forall v, v < 128 -> tb v = tc v) -> (forall v, 128 <= v -> tb v = false /\ tc v = false) ->
    fleO (bytestep fwd tb) (charstep fwd tc).
  Proof.
    intros Hlo Hhi q o Hq E. unfold bytestep, byte_if in E. unfold charstep, next_if. pose proof (Hbyte1 fwd q Hq) as Hb.
    destruct (next_byte fwd h q) as [e|[[b q1]|]]; cbn [bindR] in E; try discriminate.
    - destruct (N.ltb_spec b 128) as [Hl|Hl].
      + rewrite Hb. cbn [bindR]. rewrite <- (Hlo b Hl). exact E.
      + destruct Hb as (c & q2 & Ec & Hc). rewrite Ec. cbn [bindR].
        destruct (Hhi b Hl) as [Hb0 _]. destruct (Hhi c Hc) as [_ Hc0]. rewrite Hb0 in E. rewrite Hc0. exact E.
    - rewrite Hb. exact E.
  Qed.

  Lemma char_to_byte fwd tb tc : (forall v, v < 128 -> tb v = tc v) -> (forall v, 128 <= v -> tb v = false /\ tc v = false) ->
    fleO (charstep fwd tc) (bytestep fwd tb).
  Proof.
    intros Hlo Hhi q o Hq E. unfold charstep, next_if in E. unfold bytestep, byte_if. pose proof (Hbyte2 fwd q Hq) as Hb.
    destruct (cnext ix fwd h q) as [e|[[c q2]|]]; cbn [bindR] in E; try discriminate.
    - destruct (N.ltb_spec c 128) as [Hl|Hl].
      + rewrite Hb. cbn [bindR]. rewrite (Hlo c Hl). exact E.
      + destruct Hb as (b & q1 & Eb & Hb128). rewrite Eb. cbn [bindR].
        destruct (Hhi b Hb128) as [Hb0 _]. destruct (Hhi c Hl) as [_ Hc0]. rewrite Hc0 in E. rewrite Hb0. exact E.
    - rewrite Hb. exact E.
  Qed.

  (* the step function of a bracket node *)
  Definition bracket_step (fwd : bool) (b : bracket) : nat -> option (option nat) :=
    match bracket_as_ascii b with
    | Some bm => bytestep fwd (ascii_bitmap_contains bm)
    | None => charstep fwd (bracket_matches b)
    end.

  Lemma ascii_hi (b : bracket) : br_invert b = false -> forallb (fun i => snd i <? 128) (br_ivs b) = true ->
    forall v, 128 <= v -> ascii_bitmap_contains (ascii_bitmap_of (br_ivs b)) v = false /\ bracket_matches b v = false.
  Proof.
    intros Hi Hall v Hv. split.
    - unfold ascii_bitmap_contains. replace (128 <=? v) with true by (symmetry; apply N.leb_le; exact Hv). reflexivity.
    - unfold bracket_matches. rewrite Hi. cbn [negb].
      replace (ivs_contains (br_ivs b) v) with false; [reflexivity|]. symmetry. unfold ivs_contains.
      apply not_true_is_false. intro Hex. apply existsb_exists in Hex as (i & Hin & Hc).
      rewrite forallb_forall in Hall. specialize (Hall i Hin). apply N.ltb_lt in Hall.
      apply andb_true_iff in Hc as [_ Hc]. apply N.leb_le in Hc. lia.
  Qed.

  Lemma bracket_step_char fwd b : fleO (bracket_step fwd b) (charstep fwd (bracket_matches b)).
  Proof.
    unfold bracket_step, bracket_as_ascii. destruct (br_invert b) eqn:Hi; [apply fleO_refl|].
    destruct (forallb (fun i => snd i <? 128) (br_ivs b)) eqn:Hall; [|apply fleO_refl].
    apply byte_to_char; [|apply ascii_hi; assumption].
    intros v Hv. rewrite ascii_bitmap_eq by exact Hv. unfold bracket_matches. rewrite Hi. cbn [negb].
    change (cps_contains (br_ivs b) v) with (ivs_contains (br_ivs b) v). destruct (ivs_contains (br_ivs b) v); reflexivity.
  Qed.

  Lemma char_bracket_step fwd b : fleO (charstep fwd (bracket_matches b)) (bracket_step fwd b).
  Proof.
    unfold bracket_step, bracket_as_ascii. destruct (br_invert b) eqn:Hi; [apply fleO_refl|].
    destruct (forallb (fun i => snd i <? 128) (br_ivs b)) eqn:Hall; [|apply fleO_refl].
    apply char_to_byte; [|apply ascii_hi; assumption].
    intros v Hv. rewrite ascii_bitmap_eq by exact Hv. unfold bracket_matches. rewrite Hi. cbn [negb].
    change (cps_contains (br_ivs b) v) with (ivs_contains (br_ivs b) v). destruct (ivs_contains (br_ivs b) v); reflexivity.
  Qed.

  Lemma bracket_step_clo fwd b : sclo (bracket_step fwd b).
  Proof.
    unfold bracket_step. destruct (bracket_as_ascii b) as [bm|]; [|apply charstep_clo].
    apply bytestep_clo. intros v Hv. unfold ascii_bitmap_contains.
    replace (128 <=? v) with true by (symmetry; apply N.leb_le; exact Hv). reflexivity.
  Qed.

  (* the results and the single-step reading of a bracket node are its step function *)
  Lemma bracket_ir f fwd b q G : IR (S f) (NBracket b) fwd (q, G) =
    match bracket_step fwd b q with Some (Some q') => Some [(q', G)] | Some None => Some [] | None => None end.
  Proof.
    cbn [ir_results]. unfold bracket_step, bytestep, charstep. destruct (bracket_as_ascii b) as [bm|].
    - cbn [run_insns match1]. destruct (byte_if fwd h q (ascii_bitmap_contains bm)) as [e|[q'|]]; reflexivity.
    - destruct (next_if ix fwd h q (bracket_matches b)) as [e|[q'|]]; reflexivity.
  Qed.

  Lemma bracket_single lb fwd b : exists s, single_step ix unicode h lb (NBracket b) fwd = Some s /\ forall q, s q = bracket_step fwd b q.
  Proof.
    unfold single_step, leaf_code, bracket_step, bytestep, charstep. destruct (bracket_as_ascii b) as [bm|].
    - eexists. split; [reflexivity|]. intro q. cbn [run_insns match1].
      destruct (byte_if fwd h q (ascii_bitmap_contains bm)) as [e|[q'|]]; reflexivity.
    - eexists. split; [reflexivity|]. intro q. reflexivity.
  Qed.

  Lemma al_bracket b : al (NBracket b).
  Proof.
    split.
    - intros [|f] fwd [q G] r Hx E; [discriminate|]. rewrite bracket_ir in E.
      destruct (bracket_step fwd b q) as [[q'|]|] eqn:Es; inversion E; subst; constructor; [|constructor].
      apply (oks_move okp q G q' Hx). eapply bracket_step_clo; [exact (proj1 Hx)|exact Es].
    - intros fwd s Es. destruct (bracket_single (negb fwd) fwd b) as [s0 [Es0 Hs0]]. rewrite Es0 in Es. inversion Es; subst s0.
      intros q q' Hq E. rewrite Hs0 in E. eapply bracket_step_clo; eauto.
  Qed.

  (* two bracket-like leaves whose step functions refine each other *)
  Lemma ref_brackets fwd b b' : fleO (bracket_step fwd b) (bracket_step fwd b') -> ref fwd (NBracket b) (NBracket b').
  Proof.
    intro Hs. split.
    - apply (rres_fleO ix unicode utf16 h okp fwd _ _ 0%nat). intros [|f] [q G] r Hx E; [discriminate|].
      rewrite Nat.add_0_r. rewrite bracket_ir in *.
      destruct (bracket_step fwd b q) as [o|] eqn:Eo; [|discriminate]. rewrite (Hs q o Hx Eo). exact E.
    - intros _. split; [reflexivity|]. intros s Es.
      destruct (bracket_single (negb fwd) fwd b) as [s0 [Es0 Hs0]]. rewrite Es0 in Es. inversion Es; subst s0.
      destruct (bracket_single (negb fwd) fwd b') as [s1 [Es1 Hs1]]. exists s1. split; [exact Es1|].
      intros q o Hq Eq. rewrite Hs1. apply Hs; [exact Hq|]. rewrite <- Hs0. exact Eq.
  Qed.

  Lemma ref_invert fwd inv ivs : cps_wf ivs = true ->
    ref fwd (NBracket (mkBracket inv ivs)) (NBracket (mkBracket (negb inv) (cps_inverted ivs))).
  Proof.
    intro Hw. apply ref_brackets.
    eapply fleO_trans; [apply bracket_step_char|]. eapply fleO_trans; [|apply char_bracket_step].
    intros q o Hq E. rewrite <- E. symmetry. apply charstep_ext; [|exact Hq]. intros c Hc. unfold bracket_matches. cbn [br_invert br_ivs].
    change (ivs_contains (cps_inverted ivs) c) with (cps_contains (cps_inverted ivs) c).
    change (ivs_contains ivs c) with (cps_contains ivs c).
    rewrite (inverted_contains ivs c Hw Hc). destruct (cps_contains ivs c); destruct inv; reflexivity.
  Qed.

  (* a character set of at most four characters *)
  Definition charset_step (fwd : bool) (cs : list N) (q : nat) : option (option nat) :=
    match cs with [] => Some None | _ => charstep fwd (list_contains cs) q end.

  Lemma charset_ir f fwd cs q G : (length cs <= 4)%nat -> IR (S f) (NCharSet cs) fwd (q, G) =
    match charset_step fwd cs q with Some (Some q') => Some [(q', G)] | Some None => Some [] | None => None end.
  Proof.
    intro Hl. cbn [ir_results leaf_code]. unfold emit_char_set, charset_step. destruct cs as [|c0 cs]; [reflexivity|].
    replace (4 <? length (c0 :: cs))%nat with false by (symmetry; apply Nat.ltb_ge; exact Hl).
    cbn [run_insns match1].
    rewrite <- (charstep_ext_all fwd (list_contains ((c0 :: cs) ++ repeat c0 (4 - length (c0 :: cs)))) (list_contains (c0 :: cs))
                  (fun c => list_contains_pad (c0 :: cs) c0 _ c (or_introl eq_refl)) q).
    unfold charstep. destruct (next_if ix fwd h q _) as [e|[q'|]]; reflexivity.
  Qed.

  Lemma charset_single lb fwd cs : (length cs <= 4)%nat ->
    exists s, single_step ix unicode h lb (NCharSet cs) fwd = Some s /\ forall q, s q = charset_step fwd cs q.
  Proof.
    intro Hl. unfold single_step, leaf_code, emit_char_set, charset_step. destruct cs as [|c0 cs].
    - eexists. split; [reflexivity|]. intro q. reflexivity.
    - replace (4 <? length (c0 :: cs))%nat with false by (symmetry; apply Nat.ltb_ge; exact Hl).
      eexists. split; [reflexivity|]. intro q. cbn [run_insns match1].
      rewrite <- (charstep_ext_all fwd (list_contains ((c0 :: cs) ++ repeat c0 (4 - length (c0 :: cs)))) (list_contains (c0 :: cs))
                    (fun c => list_contains_pad (c0 :: cs) c0 _ c (or_introl eq_refl)) q).
      unfold charstep. destruct (next_if ix fwd h q _) as [e|[q'|]]; reflexivity.
  Qed.

  Lemma charset_step_clo fwd cs : sclo (charset_step fwd cs).
  Proof. unfold charset_step. destruct cs; [intros q q' _ E; discriminate E|apply charstep_clo]. Qed.

  Lemma al_charset cs : (length cs <= 4)%nat -> al (NCharSet cs).
  Proof.
    intro Hl. split.
    - intros [|f] fwd [q G] r Hx E; [discriminate|]. rewrite (charset_ir f fwd cs q G Hl) in E.
      destruct (charset_step fwd cs q) as [[q'|]|] eqn:Es; inversion E; subst; constructor; [|constructor].
      apply (oks_move okp q G q' Hx). eapply charset_step_clo; [exact (proj1 Hx)|exact Es].
    - intros fwd s Es. destruct (charset_single (negb fwd) fwd cs Hl) as [s0 [Es0 Hs0]]. rewrite Es0 in Es. inversion Es; subst s0.
      intros q q' Hq E. rewrite Hs0 in E. eapply charset_step_clo; eauto.
  Qed.

  (* ---- nodes without byte-level leaves, backreferences or string sets stay among the well-formed positions ---- *)
  Lemma next_if_clo fwd q t q' : okp q -> next_if ix fwd h q t = Ok (Some q') -> okp q'.
  Proof.
    intros Hq E. unfold next_if in E. destruct (cnext ix fwd h q) as [e|[[c q1]|]] eqn:Ec; cbn [bindR] in E; try discriminate.
    destruct (t c); inversion E; subst. eapply Hk1; eauto.
  Qed.

  Lemma lclo_run1 (n : node) (i : insn) (t : N -> bool) :
    (forall lb, leaf_code lb n = Some [i]) ->
    (forall fwd q, run_insns ix unicode h [i] fwd q =
                   match next_if ix fwd h q t with Ok (Some p') => Some (Some p') | Ok None => Some None | Err _ => None end) ->
    (forall f fwd x, ir_results ix unicode utf16 h (S f) n fwd x =
                     results_of x (run_insns ix unicode h [i] fwd (fst x))) ->
    lclo n.
  Proof.
    intros Hcode Hrun Hir. split.
    - intros [|f] fwd [q G] r Hx E; [discriminate|]. rewrite Hir in E. cbn [fst] in E. rewrite (Hrun fwd q) in E.
      destruct (next_if ix fwd h q t) as [e|[q'|]] eqn:En; cbn [results_of snd] in E; inversion E; subst; constructor; [|constructor].
      apply (oks_move okp q G q' Hx). eapply next_if_clo; [exact (proj1 Hx)|exact En].
    - intros fwd s Es. unfold single_step in Es. rewrite Hcode in Es. injection Es as Hs. subst s.
      intros q q' Hq E. change (run_insns ix unicode h [i] fwd q = Some (Some q')) in E.
      rewrite Hrun in E. destruct (next_if ix fwd h q t) as [e|[q1|]] eqn:En; inversion E; subst.
      eapply next_if_clo; eauto.
  Qed.

  Lemma al_char c : al (NChar c).
  Proof.
    apply (lclo_run1 (NChar c) (Char c) (N.eqb c)); [reflexivity| |intros f fwd [q G]; reflexivity].
    intros fwd q. cbn [run_insns]. unfold char_pike. destruct (next_if ix fwd h q (N.eqb c)) as [e|[p'|]]; reflexivity.
  Qed.
  Lemma al_any : al NMatchAny.
  Proof.
    apply (lclo_run1 NMatchAny MatchAny (fun _ => true)); [reflexivity| |intros f fwd [q G]; reflexivity].
    intros fwd q. cbn [run_insns match1]. destruct (next_if ix fwd h q (fun _ => true)) as [e|[p'|]]; reflexivity.
  Qed.
  Lemma al_any_lt : al NMatchAnyExceptLT.
  Proof.
    apply (lclo_run1 NMatchAnyExceptLT MatchAnyExceptLT (fun c => negb (is_line_terminator c))); [reflexivity| |intros f fwd [q G]; reflexivity].
    intros fwd q. cbn [run_insns match1]. destruct (next_if ix fwd h q _) as [e|[p'|]]; reflexivity.
  Qed.

  Lemma al_charset_any cs : al (NCharSet cs).
  Proof.
    destruct (Nat.leb_spec (length cs) 4) as [Hl|Hl]; [apply al_charset; exact Hl|].
    assert (Hc : forall lb, leaf_code lb (NCharSet cs) = None).
    { intro lb. unfold leaf_code, emit_char_set. destruct cs as [|c0 cs]; [cbn in Hl; lia|].
      replace (4 <? length (c0 :: cs))%nat with true by (symmetry; apply Nat.ltb_lt; exact Hl). reflexivity. }
    split.
    - intros [|f] fwd [q G] r Hx E; [discriminate|]. cbn [ir_results] in E. rewrite Hc in E. discriminate.
    - intros fwd s Es. unfold single_step in Es. rewrite Hc in Es. discriminate.
  Qed.

  Lemma lclo_static n : (forall lb fwd, single_step ix unicode h lb n fwd = None) ->
    (forall f fwd x r, ir_results ix unicode utf16 h f n fwd x = Some r -> r = [x] \/ r = []) -> lclo n.
  Proof.
    intros Hs Hr. split.
    - intros f fwd x r Hx E. destruct (Hr f fwd x r E) as [->| ->]; [constructor; [exact Hx|constructor]|constructor].
    - intros fwd s Es. rewrite Hs in Es. discriminate.
  Qed.

  (* a case-insensitive backreference walks the text element by element *)
  Lemma backref_go_clo pr fwd sub : forall fuel rp p p', okp p ->
    backref_icase_go ix pr fuel fwd sub rp h p = Ok (Some p') -> okp p'.
  Proof.
    induction fuel as [|f IH]; intros rp p p' Hp E; [discriminate|]. cbn [backref_icase_go] in E.
    destruct (cnext ix fwd sub rp) as [e|[[c1 rp']|]]; cbn [bindR] in E; try discriminate.
    - destruct (cnext ix fwd h p) as [e|[[c2 p1]|]] eqn:Ec; cbn [bindR] in E; try discriminate.
      destruct (fold_equals ix (p_unicode pr) c1 c2); [|discriminate]. eapply IH; [|exact E]. eapply Hk1; eauto.
    - inversion E; subst. exact Hp.
  Qed.

  Lemma al_backref g ic : al (NBackRef g ic).
  Proof.
    split.
    - intros [|f] fwd [p G] r Hx E; [discriminate|]. cbn [ir_results] in E.
      destruct (g =? 0); [discriminate|]. destruct (nth_error G (N.to_nat (g - 1))) as [gd|] eqn:En; [|discriminate].
      destruct (gd_range gd) as [[rs re]|] eqn:Eg; [|inversion E; subst; constructor; [exact Hx|constructor]].
      destruct (backref_match ix (dummy_prog unicode) ic fwd h p rs re) as [e|[p'|]] eqn:Eb; inversion E; subst; constructor; [|constructor].
      apply (oks_move okp p G p' Hx). unfold backref_match in Eb. destruct ic.
      + destruct (re <? rs)%nat; [discriminate|]. destruct (length h <? re)%nat; [discriminate|].
        eapply backref_go_clo; [exact (proj1 Hx)|exact Eb].
      + (* the recorded range lies between well-formed positions *)
        destruct Hx as [Hp HG]. cbn [fst snd] in Hp, HG. unfold gok in HG. rewrite Forall_forall in HG.
        destruct (HG gd (nth_error_In _ _ En)) as [Hs He]. unfold gd_range in Eg.
        destruct (gd_start gd) as [s0|] eqn:E1; [|discriminate]. destruct (gd_end gd) as [e0|] eqn:E2; [|discriminate].
        inversion Eg; subst. eapply (Hk4 fwd p rs re p' Hp (Hs rs eq_refl) (He re eq_refl) Eb).
    - intros fwd s Es. discriminate Es.
  Qed.

  Theorem al_simple : forall n, simple n = true -> al n.
  Proof.
    induction n as [n Hleaf|l H|a b IHa IHb|id c nm IHc|neg bw sg eg c IHc|b mn mx g egs ege IHb|b mn mx g IHb] using node_ind2;
      intro Hs.
    - destruct n; try contradiction; try discriminate Hs.
      + apply al_empty.
      + (* Goal *) apply lclo_static; [reflexivity|]. intros [|f] fwd [q G] r E; [discriminate|]. cbn in E. inversion E; auto.
      + apply al_char.
      + apply al_charset_any.
      + apply al_any.
      + apply al_any_lt.
      + (* Anchor *) apply lclo_static; [reflexivity|]. intros [|f] fwd [q G] r E; [discriminate|]. cbn [ir_results] in E.
        unfold cond_results in E.
        match type of E with match ?c with _ => _ end = _ => destruct c as [e|[|]] end; inversion E; auto.
      + (* WordBoundary *) apply lclo_static; [reflexivity|]. intros [|f] fwd [q G] r E; [discriminate|]. cbn [ir_results] in E.
        unfold cond_results in E.
        match type of E with match ?c with _ => _ end = _ => destruct c as [e|[|]] end; inversion E; auto.
      + apply al_backref.
      + apply al_bracket.
    - apply al_cat. cbn [simple] in Hs. rewrite forallb_forall in Hs. rewrite Forall_forall in *.
      intros x Hx. apply H; [exact Hx|apply Hs; exact Hx].
    - cbn [simple] in Hs. apply andb_true_iff in Hs as [H1 H2]. split; auto.
    - apply IHc. exact Hs.
    - apply IHc. exact Hs.
    - apply IHb. exact Hs.
    - apply IHb. exact Hs.
  Qed.

  Lemma ref_reduce fwd ivs : cps_wf ivs = true -> (length (bracket_chars ivs) <= 4)%nat ->
    ref fwd (NBracket (mkBracket false ivs)) (NCharSet (bracket_chars ivs)).
  Proof.
    intros Hw Hl.
    assert (Hstep : fleO (bracket_step fwd (mkBracket false ivs)) (charset_step fwd (bracket_chars ivs))).
    { intros q o Hq E. apply bracket_step_char in E; [|exact Hq].
      rewrite (charstep_ext_all fwd (bracket_matches (mkBracket false ivs)) (list_contains (bracket_chars ivs))) in E.
      2:{ intros c. unfold bracket_matches. cbn [br_invert br_ivs negb].
          rewrite (bracket_chars_contains c ivs 0 Hw). change (cps_contains ivs c) with (ivs_contains ivs c).
          destruct (ivs_contains ivs c); reflexivity. }
      unfold charset_step. destruct (bracket_chars ivs) as [|c0 cs] eqn:Ecs; [|exact E].
      unfold charstep, next_if in E. destruct (cnext ix fwd h q) as [e|[[c q']|]]; cbn [bindR] in E; try discriminate;
        inversion E; reflexivity. }
    split.
    - apply (rres_fleO ix unicode utf16 h okp fwd _ _ 0%nat). intros [|f] [q G] r Hx E; [discriminate|].
      rewrite Nat.add_0_r. rewrite bracket_ir in E. rewrite (charset_ir f fwd _ q G Hl).
      destruct (bracket_step fwd (mkBracket false ivs) q) as [o|] eqn:Eo; [|discriminate].
      rewrite (Hstep q o Hx Eo). exact E.
    - intros _.
      assert (Hle : (4 <? length (bracket_chars ivs))%nat = false) by (apply Nat.ltb_ge; exact Hl).
      split.
      + unfold l1_body_ok, leaf_code, emit_char_set. destruct (bracket_chars ivs); [reflexivity|]. rewrite Hle. reflexivity.
      + intros s Es. destruct (bracket_single (negb fwd) fwd (mkBracket false ivs)) as [s0 [Es0 Hs0]].
        rewrite Es0 in Es. inversion Es; subst s0.
        destruct (charset_single (negb fwd) fwd (bracket_chars ivs) Hl) as [s1 [Es1 Hs1]]. exists s1. split; [exact Es1|].
        intros q o Hq Eq. rewrite Hs1. apply Hstep; [exact Hq|]. rewrite <- Hs0. exact Eq.
  Qed.

  Lemma brackets_sound lb n a : simplify_brackets lb n = Ok a -> PRel lb n (act_node a n).
  Proof.
    intros E. destruct n; try (inversion E; subst; apply PRel_refl). cbn [simplify_brackets] in E.
    destruct b as [inv ivs]. unfold try_reduce_bracket in E. cbn [br_invert br_ivs] in E.
    destruct inv.
    - (* inverted: only the complement may be taken *)
      destruct (cps_inverted_interval_count ivs <? length ivs)%nat; inversion E; subst; [|apply PRel_refl].
      intros Hq Ha. cbn [qok br_ivs] in Hq. cbn [act_node]. split; [apply (ref_invert (negb lb) true ivs Hq)|].
      split; [cbn [qok br_ivs]; apply inverted_wf; exact Hq|]. split; [apply al_bracket|reflexivity].
    - destruct (MAX_CHAR_SET_LENGTH <? fold_left (fun acc i => acc + iv_count i) ivs 0) eqn:Ht.
      + destruct (cps_inverted_interval_count ivs <? length ivs)%nat; inversion E; subst; [|apply PRel_refl].
        intros Hq Ha. cbn [qok br_ivs] in Hq. cbn [act_node]. split; [apply (ref_invert (negb lb) false ivs Hq)|].
        split; [cbn [qok br_ivs]; apply inverted_wf; exact Hq|]. split; [apply al_bracket|reflexivity].
      + inversion E; subst. fold (bracket_chars ivs). intros Hq Ha. cbn [qok br_ivs] in Hq. cbn [act_node].
        apply N.ltb_ge in Ht. unfold MAX_CHAR_SET_LENGTH in Ht. rewrite <- bracket_chars_length in Ht.
        assert (Hl : (length (bracket_chars ivs) <= 4)%nat) by lia.
        split; [apply (ref_reduce (negb lb) ivs Hq Hl)|]. split; [cbn [qok]; apply Nat.leb_le; exact Hl|].
        split; [apply al_charset; exact Hl|reflexivity].
  Qed.

  Theorem brackets_pass_sound fuel n n' : run_to_fixpoint simplify_brackets fuel n = Ok n' -> PRel false n n'.
  Proof. apply pass_sound. exact brackets_sound. Qed.
End Brackets.
