(* BTTop.v — the backtracking model against the IR semantics at the level of whole programs: one attempt
   (bt_run from [BExhausted]) returns the first success of ir_results; the search loop with the trivial
   prefilter (bt_search (fun _ => true), what next_match does when the start predicate is Arbitrary) returns
   the leftmost such match; both within a step count that exists whenever the IR semantics is defined. *)
From RV Require Import Base.
From RV.Model Require Import Utf8 Indexer CodePointSet Insn IR Optimizer Unfold Emit Pike BT Exec.
From RV.Spec Require Import IRSem IRShape.
From RV.Proofs Require Import NodeInd PikeCorrect PikeTop BTDen BTShape ListAux IRGroups IRLen BTCorrect.

Section Top.
  Variable ix : indexer.
  Variable prog : program.
  Variable h : hay.
  Variable utf16 : bool.
  Hypothesis Hix_elem : forall fwd p c p', cnext ix fwd h p = Ok (Some (c, p')) -> ix_elem_of_u32 ix c = true.

  Variables (n0 : node) (code : list insn) (es' : estate) (rest : list insn) (ng : nat).
  Hypothesis Hwf : bt_wf ng n0 = true.
  Hypothesis Hemit : emit_node utf16 (p_unicode prog) n0 0 false (mkES [] 0 0 []) = Ok (code, es').
  Hypothesis Hinsns : p_insns prog = code ++ rest.
  Hypothesis Hgoal : nth_error rest 0 = Some Goal \/
                     (forall fuel x y l, ir_results ix (p_unicode prog) utf16 h fuel n0 true x <> Some (y :: l)).
  Hypothesis Hbrackets : p_brackets prog = es_brackets es'.

  Definition dg0 : nat -> bool := fun i => lslot i n0 0.
  Notation RC ip pos L G B := (mkBC (MRun ip pos) L G B).
  Notation BK L G B := (mkBC MBack L G B).

  Lemma btop_code_at : code_at prog 0 code.
  Proof. intros i x Hi. simpl. rewrite Hinsns. rewrite nth_error_app1; auto. apply nth_error_Some. congruence. Qed.
  Lemma btop_brackets : brackets_ok prog es'.
  Proof. intros i b Hb. rewrite Hbrackets. exact Hb. Qed.

  (* one attempt *)
  Theorem bt_attempt fuel pos G l L :
    ir_results ix (p_unicode prog) utf16 h fuel n0 true (pos, G) = Some l ->
    (ng <= length G)%nat -> (es_next_loop es' <= length L)%nat ->
    exists o, BDen ix prog h true (RC 0 pos L G [BExhausted]) o /\
              match l with
              | [] => exists L', o = BNoMatch L' G /\ length L' = length L
              | y :: _ => exists L1, o = BMatched (fst y) L1 (snd y) /\ length L1 = length L
              end.
  Proof.
    intros Hr Hng Hlen.
    assert (Hdg : dgx dg0 n0 0) by (intros i Hi; reflexivity).
    pose proof (ball_ok ix prog h utf16 Hix_elem fuel dg0 n0 true 0%nat (mkES [] 0 0 []) code es' pos G l ng
                        Hwf Hng Hdg Hr Hemit btop_code_at btop_brackets L [BExhausted] Hlen) as Hch.
    inversion Hch as [c0 Q0 cf Hq Hl0 Hc0 Hl Hq0 | c0 y ys Q0 L1 B1 Hl1 Hfr Hres Hc0 Hl Hq0]; subst.
    - destruct Hq as (L' & -> & HL'). exists (BNoMatch L' G). split.
      + apply Hl0. eapply (BD_done ix prog h true _ BBudget); [constructor; reflexivity|reflexivity].
      + exists L'. split; [reflexivity|]. destruct HL' as [H1 _]. congruence.
    - exists (BMatched (fst y) L1 (snd y)). split.
      + apply Hl1. simpl.
        assert (Hg : nth_error (p_insns prog) (length code) = Some Goal).
        { destruct Hgoal as [Hg|Hnever].
          - rewrite Hinsns. rewrite nth_error_app2 by lia. rewrite Nat.sub_diag. exact Hg.
          - exfalso. exact (Hnever _ _ _ _ Hr). }
        eapply (BD_done ix prog h true _ BBudget).
        * constructor. unfold blook_dir. cbn [bc_mode]. rewrite Hg. reflexivity.
        * unfold bt_next. cbn [bc_mode bc_loops bc_groups bc_bts]. unfold bt_exec. rewrite Hg. reflexivity.
      + exists L1. split; [reflexivity|]. destruct Hfr as [H1 _]. congruence.
  Qed.

  (* the search loop with the trivial prefilter *)
  Definition bt_result_of (r : option (nat * nat * list groupdata)) (st : bt_exec_state) : xres bt_exec_state :=
    match r with
    | None => XNone st
    | Some (p0, e, gs) =>
        match next_start_after ix h p0 e with
        | Err er => XError er
        | Ok ns => XMatch (mkMatch p0 e (caps_of gs)) ns st
        end
    end.

  Lemma find_bytes_trivial p : (p <= length h)%nat -> find_bytes (fun _ => true) h p = Ok (Some p).
  Proof.
    intro Hp. unfold find_bytes. replace (length h <? p)%nat with false by (symmetry; apply Nat.ltb_ge; lia).
    cbn [find_from]. replace (length h <? p)%nat with false by (symmetry; apply Nat.ltb_ge; lia). reflexivity.
  Qed.

  Theorem bt_search_correct fuel ngroups : forall tries p r st,
    ir_search ix (p_unicode prog) utf16 h fuel n0 ngroups tries p = Some r ->
    (ng <= ngroups)%nat -> walk_ok ix h tries p = true ->
    bx_groups st = repeat gd_empty ngroups -> (es_next_loop es' <= length (bx_loops st))%nat ->
    exists f0 k st', forall pfuel n budget, (f0 <= pfuel)%nat -> n + k <= budget ->
      bt_search ix prog h budget pfuel (fun _ => true) tries st p n = (bt_result_of r st', n + k).
  Proof.
    induction tries as [|t IH]; intros p r st Hs Hngr Hw Hg Hlen; [discriminate|].
    cbn [walk_ok] in Hw. apply andb_true_iff in Hw as [Hp Hw]. apply Nat.leb_le in Hp.
    cbn [ir_search] in Hs.
    destruct (ir_results ix (p_unicode prog) utf16 h fuel n0 true (p, repeat gd_empty ngroups)) as [l|] eqn:Er; [|discriminate].
    assert (Hng' : (ng <= length (repeat gd_empty ngroups))%nat) by (rewrite repeat_length; exact Hngr).
    destruct (bt_attempt fuel p _ l (bx_loops st) Er Hng' Hlen) as (o & Hd & Ho).
    destruct (bden_bt_run ix prog h true _ o Hd) as (f1 & k1 & Hrun).
    destruct l as [|y l'].
    - destruct Ho as (L' & -> & HL').
      destruct (ix_next_right_pos ix h p) as [e|[p'|]] eqn:En; [discriminate| |].
      + destruct (IH p' r (mkBX L' (repeat gd_empty ngroups)) Hs Hngr Hw eq_refl) as (f2 & k2 & st' & Hrest).
        { simpl. lia. }
        exists (Nat.max f1 f2), (k1 + k2), st'. intros pfuel n budget Hf Hb.
        cbn [bt_search]. rewrite (find_bytes_trivial p Hp). unfold bt_try. rewrite Hg.
        rewrite (Hrun pfuel n budget) by lia. rewrite En.
        rewrite (Hrest pfuel (n + k1) budget) by lia. f_equal. lia.
      + inversion Hs; subst r. exists f1, k1, (mkBX L' (repeat gd_empty ngroups)). intros pfuel n budget Hf Hb.
        cbn [bt_search]. rewrite (find_bytes_trivial p Hp). unfold bt_try. rewrite Hg.
        rewrite (Hrun pfuel n budget) by lia. rewrite En. reflexivity.
    - destruct Ho as (L1 & -> & HL1). inversion Hs; subst r.
      exists f1, k1, (mkBX L1 (repeat gd_empty (length (snd y)))). intros pfuel n budget Hf Hb.
      cbn [bt_search]. rewrite (find_bytes_trivial p Hp). unfold bt_try. rewrite Hg.
      rewrite (Hrun pfuel n budget) by lia. unfold bt_success, bt_result_of.
      destruct (next_start_after ix h p (fst y)); reflexivity.
  Qed.
End Top.

(* ---- instantiation for the programs emit produces ---- *)
Theorem bt_emit_correct ix h utf16 unicode ml n body prog names fuel tries p r :
  (forall fwd p c p', cnext ix fwd h p = Ok (Some (c, p')) -> ix_elem_of_u32 ix c = true) ->
  walk_ok ix h tries p = true ->
  top_shape n body ->
  emit utf16 unicode ml n = Ok (prog, names) ->
  bt_wf (p_groups prog) (NCat body) = true ->
  ir_search ix unicode utf16 h fuel (NCat body) (p_groups prog) tries p = Some r ->
  exists f0 k st', forall pfuel n budget, (f0 <= pfuel)%nat -> n + k <= budget ->
    bt_search ix prog h budget pfuel (fun _ => true) tries (bt_init prog) p n = (bt_result_of ix h r st', n + k).
Proof.
  intros Hel Hnb Hshape He Hwf Hs. unfold emit in He.
  destruct (predicate_for_re n ml) as [e|sp]; cbn [bindR] in He; [discriminate|].
  destruct Hshape as [Hn | [[Hn Hb] | [Hn Hb]]].
  - subst n. rewrite emit_cat_snoc in He.
    destruct (emit_node utf16 unicode (NCat body) 0 false (mkES [] 0 0 [])) as [e|[c es']] eqn:Eb; cbn [bindR] in He; [discriminate|].
    cbn [fst snd] in He. inversion He; subst prog names. clear He.
    eapply (bt_search_correct ix _ h utf16 Hel (NCat body) c es' [Goal] _ Hwf); simpl; eauto.
    rewrite repeat_length. lia.
  - subst n body. simpl in He. inversion He; subst prog names. clear He.
    eapply (bt_search_correct ix _ h utf16 Hel (NCat []) [] _ [Goal] _ Hwf); simpl; eauto.
  - subst n body. simpl in He. inversion He; subst prog names. clear He.
    eapply (bt_search_correct ix _ h utf16 Hel (NCat [NCharSet []]) [JustFail] _ [] _ Hwf); simpl; eauto.
    right. intros f x y l Hr. destruct f as [|f]; [discriminate|]. destruct x as [p0 gs0]. cbn [ir_results cat_results obindm] in Hr.
    destruct f as [|f]; [discriminate|]. cbn [ir_results leaf_code emit_char_set run_insns results_of] in Hr. discriminate.
Qed.
