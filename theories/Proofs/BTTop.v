(* BTTop.v — the backtracking model against the IR semantics at the level of whole programs: one attempt
   (bt_run from [BExhausted]) returns the first success of ir_results; the search loop with the trivial
   prefilter (bt_search (fun _ => true), what next_match does when the start predicate is Arbitrary) returns
   the leftmost such match; both within a step count that exists whenever the IR semantics is defined. *)
From RV Require Import Base.
From RV.Model Require Import Utf8 Indexer CodePointSet Insn IR Optimizer Unfold Emit Pike BT Exec.
From RV.Spec Require Import IRSem IRShape.
From RV.Proofs Require Import NodeInd PikeCorrect PikeTop BTDen BTShape ListAux IRGroups IRLen BTCorrect StartPred.

Section Top.
  Variable ix : indexer.
  Variable prog : program.
  Variable h : hay.
  Variable utf16 : bool.
  Hypothesis Hix_elem : forall fwd p c p', cnext ix fwd h p = Ok (Some (c, p')) -> ix_elem_of_u32 ix c = true.

  Variables (n0 : node) (code : list insn) (es' : estate) (rest : list insn) (ng : nat).
  Hypothesis Hwf : bt_wf ng n0 = true.
  Hypothesis Hemit : emit_node utf16 (p_unicode prog) n0 0 false (mkES [] 0 0 []) = Ok (code, es').
  Hypothesis Hinsns : p_insns prog = code ++ rest.
  Hypothesis Hgoal : nth_error rest 0 = Some Goal \/
                     (forall fuel x y l, ir_results ix (p_unicode prog) utf16 h fuel n0 true x <> Some (y :: l)).
  Hypothesis Hbrackets : p_brackets prog = es_brackets es'.

  Definition dg0 : nat -> bool := fun i => lslot i n0 0.
  Notation RC ip pos L G B := (mkBC (MRun ip pos) L G B).
  Notation BK L G B := (mkBC MBack L G B).

  Lemma btop_code_at : code_at prog 0 code.
  Proof. intros i x Hi. simpl. rewrite Hinsns. rewrite nth_error_app1; auto. apply nth_error_Some. congruence. Qed.
  Lemma btop_brackets : brackets_ok prog es'.
  Proof. intros i b Hb. rewrite Hbrackets. exact Hb. Qed.

  (* one attempt *)
  Theorem bt_attempt fuel pos G l L :
    ir_results ix (p_unicode prog) utf16 h fuel n0 true (pos, G) = Some l ->
    (ng <= length G)%nat -> (es_next_loop es' <= length L)%nat ->
    exists o, BDen ix prog h true (RC 0 pos L G [BExhausted]) o /\
              match l with
              | [] => exists L', o = BNoMatch L' G /\ length L' = length L
              | y :: _ => exists L1, o = BMatched (fst y) L1 (snd y) /\ length L1 = length L
              end.
  Proof.
    intros Hr Hng Hlen.
    assert (Hdg : dgx dg0 n0 0) by (intros i Hi; reflexivity).
    pose proof (ball_ok ix prog h utf16 Hix_elem fuel dg0 n0 true 0%nat (mkES [] 0 0 []) code es' pos G l ng
                        Hwf Hng Hdg Hr Hemit btop_code_at btop_brackets L [BExhausted] Hlen) as Hch.
    inversion Hch as [c0 Q0 cf Hq Hl0 Hc0 Hl Hq0 | c0 y ys Q0 L1 B1 Hl1 Hfr Hres Hc0 Hl Hq0]; subst.
    - destruct Hq as (L' & -> & HL'). exists (BNoMatch L' G). split.
      + apply Hl0. eapply (BD_done ix prog h true _ BBudget); [constructor; reflexivity|reflexivity].
      + exists L'. split; [reflexivity|]. destruct HL' as [H1 _]. congruence.
    - exists (BMatched (fst y) L1 (snd y)). split.
      + apply Hl1. simpl.
        assert (Hg : nth_error (p_insns prog) (length code) = Some Goal).
        { destruct Hgoal as [Hg|Hnever].
          - rewrite Hinsns. rewrite nth_error_app2 by lia. rewrite Nat.sub_diag. exact Hg.
          - exfalso. exact (Hnever _ _ _ _ Hr). }
        eapply (BD_done ix prog h true _ BBudget).
        * constructor. unfold blook_dir. cbn [bc_mode]. rewrite Hg. reflexivity.
        * unfold bt_next. cbn [bc_mode bc_loops bc_groups bc_bts]. unfold bt_exec. rewrite Hg. reflexivity.
      + exists L1. split; [reflexivity|]. destruct Hfr as [H1 _]. congruence.
  Qed.

  (* the search loop with the trivial prefilter *)
  Definition bt_result_of (r : option (nat * nat * list groupdata)) (st : bt_exec_state) : xres bt_exec_state :=
    match r with
    | None => XNone st
    | Some (p0, e, gs) =>
        match next_start_after ix h p0 e with
        | Err er => XError er
        | Ok ns => XMatch (mkMatch p0 e (caps_of gs)) ns st
        end
    end.

  Lemma find_bytes_trivial p : (p <= length h)%nat -> find_bytes (fun _ => true) h p = Ok (Some p).
  Proof.
    intro Hp. unfold find_bytes. replace (length h <? p)%nat with false by (symmetry; apply Nat.ltb_ge; lia).
    cbn [find_from]. replace (length h <? p)%nat with false by (symmetry; apply Nat.ltb_ge; lia). reflexivity.
  Qed.

  Theorem bt_search_correct fuel ngroups : forall tries p r st,
    ir_search ix (p_unicode prog) utf16 h fuel n0 ngroups tries p = Some r ->
    (ng <= ngroups)%nat -> walk_ok ix h tries p = true ->
    bx_groups st = repeat gd_empty ngroups -> (es_next_loop es' <= length (bx_loops st))%nat ->
    exists f0 k st', forall pfuel n budget, (f0 <= pfuel)%nat -> n + k <= budget ->
      bt_search ix prog h budget pfuel (fun _ => true) tries st p n = (bt_result_of r st', n + k).
  Proof.
    induction tries as [|t IH]; intros p r st Hs Hngr Hw Hg Hlen; [discriminate|].
    cbn [walk_ok] in Hw. apply andb_true_iff in Hw as [Hp Hw]. apply Nat.leb_le in Hp.
    cbn [ir_search] in Hs.
    destruct (ir_results ix (p_unicode prog) utf16 h fuel n0 true (p, repeat gd_empty ngroups)) as [l|] eqn:Er; [|discriminate].
    assert (Hng' : (ng <= length (repeat gd_empty ngroups))%nat) by (rewrite repeat_length; exact Hngr).
    destruct (bt_attempt fuel p _ l (bx_loops st) Er Hng' Hlen) as (o & Hd & Ho).
    destruct (bden_bt_run ix prog h true _ o Hd) as (f1 & k1 & Hrun).
    destruct l as [|y l'].
    - destruct Ho as (L' & -> & HL').
      destruct (ix_next_right_pos ix h p) as [e|[p'|]] eqn:En; [discriminate| |].
      + destruct (IH p' r (mkBX L' (repeat gd_empty ngroups)) Hs Hngr Hw eq_refl) as (f2 & k2 & st' & Hrest).
        { simpl. lia. }
        exists (Nat.max f1 f2), (k1 + k2), st'. intros pfuel n budget Hf Hb.
        cbn [bt_search]. rewrite (find_bytes_trivial p Hp). unfold bt_try. rewrite Hg.
        rewrite (Hrun pfuel n budget) by lia. rewrite En.
        rewrite (Hrest pfuel (n + k1) budget) by lia. f_equal. lia.
      + inversion Hs; subst r. exists f1, k1, (mkBX L' (repeat gd_empty ngroups)). intros pfuel n budget Hf Hb.
        cbn [bt_search]. rewrite (find_bytes_trivial p Hp). unfold bt_try. rewrite Hg.
        rewrite (Hrun pfuel n budget) by lia. rewrite En. reflexivity.
    - destruct Ho as (L1 & -> & HL1). inversion Hs; subst r.
      exists f1, k1, (mkBX L1 (repeat gd_empty (length (snd y)))). intros pfuel n budget Hf Hb.
      cbn [bt_search]. rewrite (find_bytes_trivial p Hp). unfold bt_try. rewrite Hg.
      rewrite (Hrun pfuel n budget) by lia. unfold bt_success, bt_result_of.
      destruct (next_start_after ix h p (fst y)); reflexivity.
  Qed.

  (* ---- the search loop with a prefilter ---- *)
  Variable test : list N -> bool.

  (* q is visited by a search that starts at p and steps right at most [fuel] times *)
  Fixpoint on_walk (fuel : nat) (p q : nat) : Prop :=
    match fuel with
    | O => False
    | S f => q = p \/ match ix_next_right_pos ix h p with Ok (Some p') => on_walk f p' q | _ => False end
    end.

  (* what the prefilter has to satisfy along the walk: it accepts every position where an attempt succeeds, it
     does not fire between two visited positions, and the walk ends at the end of the haystack *)
  Definition pref_ok (fuel tries : nat) (p : nat) : Prop :=
    (forall q G l, on_walk tries p q -> ir_results ix (p_unicode prog) utf16 h fuel n0 true (q, G) = Some l -> l <> [] ->
                   test (skipn q h) = true) /\
    (forall q q' i, on_walk tries p q -> test (skipn q h) = false -> ix_next_right_pos ix h q = Ok (Some q') -> (q < i < q')%nat -> test (skipn i h) = false) /\
    (forall q, on_walk tries p q -> ix_next_right_pos ix h q = Ok None -> q = length h) /\
    (forall q q', on_walk tries p q -> ix_next_right_pos ix h q = Ok (Some q') -> (q < q')%nat).

  Lemma on_walk_step t p p' q : ix_next_right_pos ix h p = Ok (Some p') -> on_walk t p' q -> on_walk (S t) p q.
  Proof. intros E H. cbn [on_walk]. right. rewrite E. exact H. Qed.

  Lemma pref_ok_step fuel t p p' : ix_next_right_pos ix h p = Ok (Some p') -> pref_ok fuel (S t) p -> pref_ok fuel t p'.
  Proof.
    intros E (H1 & H2 & H3 & H4). repeat split.
    - intros q G l Hq. apply H1. eapply on_walk_step; eauto.
    - intros q q' i Hq. apply H2. eapply on_walk_step; eauto.
    - intros q Hq. apply H3. eapply on_walk_step; eauto.
    - intros q q' Hq. apply H4. eapply on_walk_step; eauto.
  Qed.

  Lemma find_from_past f q : (length h < q)%nat -> find_from test f h q = None.
  Proof. intros Hq. destruct f; [reflexivity|]. cbn [find_from]. replace (length h <? q)%nat with true by (symmetry; apply Nat.ltb_lt; lia). reflexivity. Qed.

  (* find_from does not depend on its fuel once the fuel covers the rest of the haystack *)
  Lemma find_from_fuel : forall f1 f2 p, (length h - p < f1)%nat -> (length h - p < f2)%nat ->
    find_from test f1 h p = find_from test f2 h p.
  Proof.
    pose proof find_from_past as Hpast.
    induction f1 as [|f1 IH]; intros f2 p H1 H2; [lia|]. destruct f2 as [|f2]; [lia|]. cbn [find_from].
    destruct (length h <? p)%nat eqn:E; [reflexivity|]. apply Nat.ltb_ge in E.
    destruct (test (skipn p h)); [reflexivity|].
    destruct (Nat.eq_dec p (length h)) as [->|Hne]; [rewrite !Hpast by lia; reflexivity|]. apply IH; lia.
  Qed.

  Lemma find_from_skip : forall d f p, (forall i, (p <= i < p + d)%nat -> test (skipn i h) = false) ->
    (p + d <= length h)%nat -> (length h - p < f)%nat ->
    find_from test f h p = find_from test f h (p + d).
  Proof.
    induction d as [|d IH]; intros f p Hno Hle Hf; [rewrite Nat.add_0_r; reflexivity|].
    destruct f as [|f]; [lia|].
    assert (Hmiss : find_from test (S f) h p = find_from test f h (S p)).
    { cbn [find_from]. replace (length h <? p)%nat with false by (symmetry; apply Nat.ltb_ge; lia).
      rewrite (Hno p) by lia. reflexivity. }
    rewrite Hmiss.
    rewrite (IH f (S p)); [|intros i Hi; apply Hno; lia|lia|lia].
    replace (S p + d)%nat with (p + S d)%nat by lia. apply find_from_fuel; lia.
  Qed.

  Lemma find_bytes_hit p : (p <= length h)%nat -> test (skipn p h) = true -> find_bytes test h p = Ok (Some p).
  Proof.
    intros Hp Ht. unfold find_bytes. replace (length h <? p)%nat with false by (symmetry; apply Nat.ltb_ge; lia).
    cbn [find_from]. replace (length h <? p)%nat with false by (symmetry; apply Nat.ltb_ge; lia). rewrite Ht. reflexivity.
  Qed.

  Lemma find_bytes_skip p p' : (p <= p')%nat -> (p' <= length h)%nat ->
    (forall i, (p <= i < p')%nat -> test (skipn i h) = false) -> find_bytes test h p = find_bytes test h p'.
  Proof.
    intros H1 H2 Hno. unfold find_bytes.
    replace (length h <? p)%nat with false by (symmetry; apply Nat.ltb_ge; lia).
    replace (length h <? p')%nat with false by (symmetry; apply Nat.ltb_ge; lia).
    f_equal. replace p' with (p + (p' - p))%nat by lia. apply find_from_skip; [|lia|lia].
    intros i Hi. apply Hno. lia.
  Qed.

  Lemma find_bytes_end : test (skipn (length h) h) = false -> find_bytes test h (length h) = Ok None.
  Proof.
    intro Ht. unfold find_bytes. rewrite Nat.ltb_irrefl. cbn [find_from]. rewrite Nat.ltb_irrefl, Ht.
    rewrite find_from_past by lia. reflexivity.
  Qed.

  Theorem bt_search_pref fuel ngroups : forall tries p r st,
    ir_search ix (p_unicode prog) utf16 h fuel n0 ngroups tries p = Some r ->
    (ng <= ngroups)%nat -> walk_ok ix h tries p = true -> pref_ok fuel tries p ->
    bx_groups st = repeat gd_empty ngroups -> (es_next_loop es' <= length (bx_loops st))%nat ->
    exists f0 k st', forall kk pfuel n budget, (tries <= kk)%nat -> (f0 <= pfuel)%nat -> n + k <= budget ->
      bt_search ix prog h budget pfuel test kk st p n = (bt_result_of r st', n + k).
  Proof.
    induction tries as [|t IH]; intros p r st Hs Hngr Hw Hpref Hg Hlen; [discriminate|].
    cbn [walk_ok] in Hw. apply andb_true_iff in Hw as [Hp Hw]. apply Nat.leb_le in Hp.
    cbn [ir_search] in Hs.
    destruct (ir_results ix (p_unicode prog) utf16 h fuel n0 true (p, repeat gd_empty ngroups)) as [l|] eqn:Er; [|discriminate].
    assert (Hng' : (ng <= length (repeat gd_empty ngroups))%nat) by (rewrite repeat_length; exact Hngr).
    assert (Hpp : on_walk (S t) p p) by (left; reflexivity).
    destruct (test (skipn p h)) eqn:Et.
    - (* the prefilter accepts p: attempt here, as without a prefilter *)
      destruct (bt_attempt fuel p _ l (bx_loops st) Er Hng' Hlen) as (o & Hd & Ho).
      destruct (bden_bt_run ix prog h true _ o Hd) as (f1 & k1 & Hrun).
      destruct l as [|y l'].
      + destruct Ho as (L' & -> & HL').
        destruct (ix_next_right_pos ix h p) as [e|[p'|]] eqn:En; [discriminate| |].
        * destruct (IH p' r (mkBX L' (repeat gd_empty ngroups)) Hs Hngr Hw (pref_ok_step fuel t p p' En Hpref) eq_refl) as (f2 & k2 & st' & Hrest).
          { simpl. lia. }
          exists (Nat.max f1 f2), (k1 + k2), st'. intros kk pfuel n budget Hk Hf Hb.
          destruct kk as [|kk]; [lia|].
          cbn [bt_search]. rewrite (find_bytes_hit p Hp Et). unfold bt_try. rewrite Hg.
          rewrite (Hrun pfuel n budget) by lia. rewrite En.
          rewrite (Hrest kk pfuel (n + k1) budget) by lia. f_equal. lia.
        * inversion Hs; subst r. exists f1, k1, (mkBX L' (repeat gd_empty ngroups)). intros kk pfuel n budget Hk Hf Hb.
          destruct kk as [|kk]; [lia|].
          cbn [bt_search]. rewrite (find_bytes_hit p Hp Et). unfold bt_try. rewrite Hg.
          rewrite (Hrun pfuel n budget) by lia. rewrite En. reflexivity.
      + destruct Ho as (L1 & -> & HL1). inversion Hs; subst r.
        exists f1, k1, (mkBX L1 (repeat gd_empty (length (snd y)))). intros kk pfuel n budget Hk Hf Hb.
        destruct kk as [|kk]; [lia|].
        cbn [bt_search]. rewrite (find_bytes_hit p Hp Et). unfold bt_try. rewrite Hg.
        rewrite (Hrun pfuel n budget) by lia. unfold bt_success, bt_result_of.
        destruct (next_start_after ix h p (fst y)); reflexivity.
    - (* the prefilter rejects p: no attempt at p can succeed *)
      destruct Hpref as (Hsound & Halign & Hend & Hstrict).
      assert (Hl : l = []).
      { destruct l as [|y l']; [reflexivity|]. exfalso.
        assert (Ht : test (skipn p h) = true) by (eapply Hsound; [exact Hpp|exact Er|discriminate]).
        rewrite Et in Ht. discriminate. }
      subst l.
      destruct (ix_next_right_pos ix h p) as [e|[p'|]] eqn:En; [discriminate| |].
      + assert (Hp' : (p' <= length h)%nat).
        { destruct t as [|t']; [discriminate Hs|]. cbn [walk_ok] in Hw. apply andb_true_iff in Hw as [Hw1 _]. apply Nat.leb_le in Hw1. exact Hw1. }
        pose proof (Hstrict p p' Hpp En) as Hgt.
        destruct (IH p' r st Hs Hngr Hw (pref_ok_step fuel t p p' En (conj Hsound (conj Halign (conj Hend Hstrict)))) Hg Hlen) as (f2 & k2 & st' & Hrest).
        exists f2, k2, st'. intros kk pfuel n budget Hk Hf Hb.
        destruct kk as [|kk]; [lia|].
        assert (Hfb : find_bytes test h p = find_bytes test h p').
        { apply find_bytes_skip; [lia|exact Hp'|]. intros i Hi.
          destruct (Nat.eq_dec i p) as [->|Hne]; [exact Et|]. eapply (Halign p p' i Hpp Et En). lia. }
        specialize (Hrest (S kk) pfuel n budget ltac:(lia) Hf Hb).
        cbn [bt_search] in Hrest |- *. rewrite Hfb. exact Hrest.
      + inversion Hs; subst r. pose proof (Hend p Hpp En) as Hpe. subst p.
        exists 0%nat, 0, st. intros kk pfuel n budget Hk Hf Hb.
        destruct kk as [|kk]; [lia|].
        cbn [bt_search]. rewrite (find_bytes_end Et). simpl. f_equal. lia.
  Qed.
End Top.

(* ---- instantiation for the programs emit produces ---- *)
Theorem bt_emit_correct ix h utf16 unicode ml n body prog names fuel tries p r :
  (forall fwd p c p', cnext ix fwd h p = Ok (Some (c, p')) -> ix_elem_of_u32 ix c = true) ->
  walk_ok ix h tries p = true ->
  top_shape n body ->
  emit utf16 unicode ml n = Ok (prog, names) ->
  bt_wf (p_groups prog) (NCat body) = true ->
  ir_search ix unicode utf16 h fuel (NCat body) (p_groups prog) tries p = Some r ->
  exists f0 k st', forall pfuel n budget, (f0 <= pfuel)%nat -> n + k <= budget ->
    bt_search ix prog h budget pfuel (fun _ => true) tries (bt_init prog) p n = (bt_result_of ix h r st', n + k).
Proof.
  intros Hel Hnb Hshape He Hwf Hs. unfold emit in He.
  destruct (predicate_for_re n ml) as [e|sp]; cbn [bindR] in He; [discriminate|].
  destruct Hshape as [Hn | [[Hn Hb] | [Hn Hb]]].
  - subst n. rewrite emit_cat_snoc in He.
    destruct (emit_node utf16 unicode (NCat body) 0 false (mkES [] 0 0 [])) as [e|[c es']] eqn:Eb; cbn [bindR] in He; [discriminate|].
    cbn [fst snd] in He. inversion He; subst prog names. clear He.
    eapply (bt_search_correct ix _ h utf16 Hel (NCat body) c es' [Goal] _ Hwf); simpl; eauto.
    rewrite repeat_length. lia.
  - subst n body. simpl in He. inversion He; subst prog names. clear He.
    eapply (bt_search_correct ix _ h utf16 Hel (NCat []) [] _ [Goal] _ Hwf); simpl; eauto.
  - subst n body. simpl in He. inversion He; subst prog names. clear He.
    eapply (bt_search_correct ix _ h utf16 Hel (NCat [NCharSet []]) [JustFail] _ [] _ Hwf); simpl; eauto.
    right. intros f x y l Hr. destruct f as [|f]; [discriminate|]. destruct x as [p0 gs0]. cbn [ir_results cat_results obindm] in Hr.
    destruct f as [|f]; [discriminate|]. cbn [ir_results leaf_code emit_char_set run_insns results_of] in Hr. discriminate.
Qed.
