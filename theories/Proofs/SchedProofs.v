(* SchedProofs.v — schedule independence of searches that share only a read-only program.
   Every thread is a deterministic step function on its OWN configuration (the models Pike.v / BT.v take
   the program as a constant parameter and have no other shared input); a schedule is any list of thread
   indices.  Then each thread's configuration after the schedule is what it would be running alone. *)
From RV Require Import Base.

Section Sched.
  Variable C : Type.
  Variable step : C -> C.          (* one interpreter step of a thread on its own configuration *)

  Fixpoint iter (n : nat) (c : C) : C := match n with O => c | S k => iter k (step c) end.

  Definition run_thread (cfgs : list C) (i : nat) : list C :=
    match nth_error cfgs i with Some c => set_nth i (step c) cfgs | None => cfgs end.
  Definition run_sched (sched : list nat) (cfgs : list C) : list C := fold_left run_thread sched cfgs.

  Lemma iter_step n c : iter n (step c) = step (iter n c).
  Proof. revert c; induction n as [|n IH]; intros c; simpl; auto. Qed.

  Lemma run_thread_length cfgs i : length (run_thread cfgs i) = length cfgs.
  Proof. unfold run_thread. destruct (nth_error cfgs i); auto. apply set_nth_length. Qed.

  Lemma run_thread_nth cfgs i j :
    nth_error (run_thread cfgs i) j =
    if (i =? j)%nat then option_map step (nth_error cfgs j) else nth_error cfgs j.
  Proof.
    unfold run_thread. destruct (Nat.eqb_spec i j) as [->|Hne].
    - destruct (nth_error cfgs j) as [c|] eqn:E; simpl; [|exact E].
      apply nth_error_set_nth_eq. apply nth_error_Some. congruence.
    - destruct (nth_error cfgs i); auto. apply nth_error_set_nth_neq. exact Hne.
  Qed.

  Theorem schedule_independent sched cfgs j :
    nth_error (run_sched sched cfgs) j =
    option_map (iter (count_occ Nat.eq_dec sched j)) (nth_error cfgs j).
  Proof.
    revert cfgs; induction sched as [|i sched IH]; intros cfgs; simpl.
    - destruct (nth_error cfgs j); reflexivity.
    - rewrite IH, run_thread_nth.
      destruct (Nat.eq_dec i j) as [->|Hne].
      + rewrite Nat.eqb_refl. destruct (nth_error cfgs j); simpl; reflexivity.
      + assert ((i =? j)%nat = false) as -> by (apply Nat.eqb_neq; exact Hne). reflexivity.
  Qed.

  (* two schedules that give thread j the same number of steps leave it in the same configuration *)
  Corollary schedules_agree s1 s2 cfgs j :
    count_occ Nat.eq_dec s1 j = count_occ Nat.eq_dec s2 j ->
    nth_error (run_sched s1 cfgs) j = nth_error (run_sched s2 cfgs) j.
  Proof. intro H. rewrite !schedule_independent, H. reflexivity. Qed.
End Sched.
