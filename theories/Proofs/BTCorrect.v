(* BTCorrect.v — the backtracking model executes the code emit produces for an IR node as the ordered list
   of successes of the IR semantics: each success is reached in turn (continuing behind the node with the
   success's position and captures), backtracking into the records the node left on the stack resumes with the
   next success, and after the last one the machine is back in backtrack mode with the captures, the stack and
   (up to loop slots that only lookaround bodies use) the loop data it started with. *)
From RV Require Import Base.
From RV.Model Require Import Utf8 Indexer CodePointSet Insn IR Optimizer Unfold Emit Pike BT.
From RV.Spec Require Import IRSem IRShape.
From RV.Proofs Require Import NodeInd PikeCorrect BTDen BTShape ListAux IRGroups IRLen.

Section BCorrect.
  Variable ix : indexer.
  Variable prog : program.
  Variable h : hay.
  Variable utf16 : bool.
  (* loop slots that belong to lookaround bodies: a nested attempt drops its undo records, so these are not
     restored; nothing outside a nested attempt reads them *)
  Variable dg : nat -> bool.
  Notation leads := (leads ix prog h).

  Definition leq (L L' : list loopdata) : Prop :=
    length L = length L' /\ forall i, dg i = false -> nth_error L i = nth_error L' i.
  Definition leq_out (lo hi : nat) (L L' : list loopdata) : Prop :=
    length L = length L' /\ forall i, dg i = false -> (i < lo \/ hi <= i)%nat -> nth_error L i = nth_error L' i.

  Lemma leq_refl L : leq L L. Proof. split; auto. Qed.
  Lemma leq_sym L L' : leq L L' -> leq L' L.
  Proof. intros [H1 H2]. split; [congruence|]. intros i Hi. symmetry. apply H2; assumption. Qed.
  Lemma leq_trans a b c : leq a b -> leq b c -> leq a c.
  Proof. intros [A1 A2] [B1 B2]. split; [congruence|]. intros i Hi. rewrite A2 by assumption. apply B2; assumption. Qed.
  Lemma leq_leq_out lo hi L L' : leq L L' -> leq_out lo hi L L'.
  Proof. intros [H1 H2]. split; auto. Qed.
  Lemma leq_out_trans lo hi a b c : leq_out lo hi a b -> leq_out lo hi b c -> leq_out lo hi a c.
  Proof. intros [A1 A2] [B1 B2]. split; [congruence|]. intros i Hi Hr. rewrite A2 by assumption. apply B2; assumption. Qed.
  Lemma leq_out_widen lo hi lo' hi' a b : (lo' <= lo)%nat -> (hi <= hi')%nat -> leq_out lo hi a b -> leq_out lo' hi' a b.
  Proof. intros H1 H2 [A1 A2]. split; auto. intros i Hi Hr. apply A2; auto. lia. Qed.
  Lemma leq_out_dg lo hi a b : (forall i, (lo <= i < hi)%nat -> dg i = true) -> leq_out lo hi a b -> leq a b.
  Proof.
    intros Hd [A1 A2]. split; auto. intros i Hi. apply A2; auto.
    destruct (Nat.lt_ge_cases i lo); [left; assumption|]. destruct (Nat.lt_ge_cases i hi); [|right; assumption].
    rewrite Hd in Hi by lia. discriminate.
  Qed.

  (* ---------------- the chain of successes ---------------- *)
  Inductive chain (fwd : bool) (e : nat) (frame : list loopdata -> Prop) : bconf -> list mst -> (bconf -> Prop) -> Prop :=
  | ch_nil c (Q : bconf -> Prop) cf : Q cf -> leads fwd c cf -> chain fwd e frame c [] Q
  | ch_cons c y ys (Q : bconf -> Prop) L B :
      leads fwd c (mkBC (MRun e (fst y)) L (snd y) B) -> frame L ->
      (forall L', leq L L' -> chain fwd e frame (mkBC MBack L' (snd y) B) ys Q) ->
      chain fwd e frame c (y :: ys) Q.

  Lemma chain_leads fwd e fr c c' ys Q : leads fwd c c' -> chain fwd e fr c' ys Q -> chain fwd e fr c ys Q.
  Proof.
    intros Hl Hc. destruct Hc as [c' Q cf Hq H1 | c' y ys Q L B H1 H2 H3].
    - eapply ch_nil; eauto. eapply leads_trans; eauto.
    - eapply ch_cons; eauto. eapply leads_trans; eauto.
  Qed.

  Lemma chain_weaken fwd e (fr fr' : list loopdata -> Prop) c ys (Q Q' : bconf -> Prop) :
    (forall L, fr L -> fr' L) -> (forall cf, Q cf -> Q' cf) -> chain fwd e fr c ys Q -> chain fwd e fr' c ys Q'.
  Proof.
    intros Hf Hq Hc. induction Hc as [c Q cf Hqc H1 | c y ys Q L B H1 H2 H3 IH].
    - eapply ch_nil; eauto.
    - eapply ch_cons; eauto.
  Qed.

  Lemma chain_app fwd e fr c ys1 (Q1 : bconf -> Prop) :
    chain fwd e fr c ys1 Q1 -> forall ys2 Q, (forall cf, Q1 cf -> chain fwd e fr cf ys2 Q) ->
    chain fwd e fr c (ys1 ++ ys2) Q.
  Proof.
    intro Hc. induction Hc as [c Q1 cf Hqc H1 | c y ys Q1 L B H1 H2 H3 IH]; intros ys2 Q Hk.
    - simpl. eapply chain_leads; eauto.
    - simpl. eapply ch_cons; eauto.
  Qed.

  (* thread every success of a chain through a continuation that itself is a chain *)
  Lemma chain_bind fwd e1 e2 (fr1 fr2 : list loopdata -> Prop) (rf : mst -> option (list mst)) (P : mst -> Prop) c ys (Q : bconf -> Prop) :
    chain fwd e1 fr1 c ys Q -> Forall P ys ->
    (forall y L B zs, P y -> fr1 L -> rf y = Some zs ->
       chain fwd e2 fr2 (mkBC (MRun e1 (fst y)) L (snd y) B) zs (fun cf => exists L', cf = mkBC MBack L' (snd y) B /\ leq L L')) ->
    forall zs_all, obindm rf ys = Some zs_all -> chain fwd e2 fr2 c zs_all Q.
  Proof.
    intros Hc HP Hk. induction Hc as [c Q cf Hqc H1 | c y ys Q L B H1 H2 H3 IH]; intros zs_all Hb; simpl in Hb.
    - inversion Hb; subst. eapply ch_nil; eauto.
    - destruct (rf y) as [zs|] eqn:Ey; [|discriminate]. destruct (obindm rf ys) as [rest|] eqn:Er; [|discriminate].
      inversion Hb; subst zs_all. clear Hb. inversion HP as [|? ? Py Pys]; subst.
      eapply chain_leads; [exact H1|].
      eapply chain_app; [apply (Hk y L B zs Py H2 Ey)|].
      intros cf (L' & -> & HL). apply (IH L' HL Pys rest eq_refl).
  Qed.

  Lemma forall_obindm {A} (rf : A -> option (list mst)) (P : A -> Prop) (Q : mst -> Prop) : forall xs ys,
    Forall P xs -> (forall x r, P x -> rf x = Some r -> Forall Q r) -> obindm rf xs = Some ys -> Forall Q ys.
  Proof.
    induction xs as [|x xs IH]; intros ys HP Hk Hb; simpl in Hb.
    - inversion Hb; subst. constructor.
    - destruct (rf x) as [r|] eqn:Er; [|discriminate]. destruct (obindm rf xs) as [r2|] eqn:E2; [|discriminate].
      inversion Hb; subst. inversion HP; subst. apply Forall_app. split; [eapply Hk; eauto | eapply IH; eauto].
  Qed.

  Notation RC ip pos L G B := (mkBC (MRun ip pos) L G B).
  Notation BK L G B := (mkBC MBack L G B).

  (* back in backtrack mode with the captures and the stack of the start, loops up to dg *)
  Definition Qback (L : list loopdata) (G : list groupdata) (B : list btinsn) : bconf -> Prop :=
    fun cf => exists L', cf = BK L' G B /\ leq L L'.

  Lemma Qback_weaken L1 L2 G B cf : leq L2 L1 -> Qback L1 G B cf -> Qback L2 G B cf.
  Proof. intros H (L' & -> & HL). exists L'. split; auto. eapply leq_trans; eauto. Qed.

  Lemma chain_single fwd e (fr : list loopdata -> Prop) c p' L G B :
    leads fwd c (RC e p' L G B) -> fr L -> chain fwd e fr c [(p', G)] (Qback L G B).
  Proof.
    intros Hl Hf. eapply (ch_cons fwd e fr c (p', G) [] _ L B); simpl; auto.
    intros L' HL. eapply (ch_nil fwd e fr _ _ (BK L' G B)); [exists L'; auto | apply leads_refl].
  Qed.

  Lemma chain_none fwd e (fr : list loopdata -> Prop) c L L' G B :
    leads fwd c (BK L' G B) -> leq L L' -> chain fwd e fr c [] (Qback L G B).
  Proof. intros Hl HL. eapply (ch_nil fwd e fr c _ (BK L' G B)); [exists L'; auto | exact Hl]. Qed.

  (* move the continuation point of every success *)
  Lemma chain_retarget fwd e1 e2 (fr : list loopdata -> Prop) c ys (Q : bconf -> Prop) :
    (forall p' L G B, leads fwd (RC e1 p' L G B) (RC e2 p' L G B)) ->
    chain fwd e1 fr c ys Q -> chain fwd e2 fr c ys Q.
  Proof.
    intros Hm Hc. induction Hc as [c Q cf Hqc H1 | c y ys Q L B H1 H2 H3 IH].
    - eapply ch_nil; eauto.
    - eapply ch_cons; eauto. eapply leads_trans; [exact H1|apply Hm].
  Qed.

  (* ---------------- single steps ---------------- *)
  Lemma run_step fwd ip pos L G B i c' :
    nth_error (p_insns prog) ip = Some i -> not_look i = true ->
    bt_exec ix prog h BBudget L G B fwd ip pos = BSNext c' -> leads fwd (RC ip pos L G B) c'.
  Proof.
    intros Hi Hn E. apply leads_step; [|exact E].
    unfold blook_dir. simpl. rewrite Hi. destruct i; simpl in Hn; try discriminate; reflexivity.
  Qed.

  Lemma back_step fwd L G B c' : bt_back ix prog h L G B fwd = BSNext c' -> leads fwd (BK L G B) c'.
  Proof. intro E. apply leads_step; [reflexivity|exact E]. Qed.

  (* the haystack decodes to elements a pattern character can equal (true of valid UTF-8 and of bytes) *)
  Hypothesis Hix_elem : forall fwd p c p', cnext ix fwd h p = Ok (Some (c, p')) -> ix_elem_of_u32 ix c = true.

  Lemma char_bt_pike c fwd p r : char_pike ix c fwd h p = Ok r -> char_bt ix c fwd h p = Ok r.
  Proof.
    unfold char_pike, char_bt. destruct (ix_elem_of_u32 ix c) eqn:Ee; [auto|].
    unfold next_if. destruct (cnext ix fwd h p) as [e|[[c' p']|]] eqn:En; cbn [bindR]; intro H; try discriminate.
    - destruct (c =? c') eqn:Ec.
      + apply N.eqb_eq in Ec. subst c'. rewrite (Hix_elem _ _ _ _ En) in Ee. discriminate.
      + exact H.
    - exact H.
  Qed.

  Lemma bt_simple_step fwd ip pos L G B i r :
    nth_error (p_insns prog) ip = Some i -> simple_insn i = true ->
    simple_step ix prog h i fwd pos = Some (Ok r) ->
    bt_exec ix prog h BBudget L G B fwd ip pos =
    BSNext (match r with Some p' => RC (S ip) p' L G B | None => BK L G B end).
  Proof.
    intros Hi Hs Hr. unfold bt_exec. rewrite Hi.
    destruct i; simpl in Hs; try discriminate; simpl in Hr; injection Hr as Hr';
      first [ rewrite (char_bt_pike _ _ _ _ Hr'); destruct r; reflexivity
            | (cbn [match1]; rewrite Hr'; destruct r; reflexivity)
            | (inversion Hr'; reflexivity) ].
  Qed.

  Lemma run_insns_leads fwd L G B code : forall off pos r,
    code_at prog off code -> forallb simple_insn code = true ->
    run_insns ix (p_unicode prog) h code fwd pos = Some r ->
    leads fwd (RC off pos L G B) (match r with Some p' => RC (off + length code) p' L G B | None => BK L G B end).
  Proof.
    induction code as [|i code IH]; intros off pos r Hc Hs Hr.
    - simpl in Hr. inversion Hr; subst. simpl. rewrite Nat.add_0_r. apply leads_refl.
    - simpl in Hs. apply andb_true_iff in Hs as [Hsi Hsc]. apply code_at_cons in Hc as [Hi Hc].
      cbn [run_insns] in Hr.
      change (match i with Char c => Some (char_pike ix c fwd h pos) | JustFail => Some (Ok None)
                      | other => match1 ix (dummy_prog (p_unicode prog)) other fwd h pos end)
        with (simple_step ix prog h i fwd pos) in Hr.
      destruct (simple_step ix prog h i fwd pos) as [[e|[p'|]]|] eqn:Est; try discriminate.
      + eapply leads_trans.
        * eapply run_step; [exact Hi | apply simple_not_look; exact Hsi | apply (bt_simple_step fwd off pos L G B i (Some p')); assumption].
        * replace (off + length (i :: code))%nat with (S off + length code)%nat by (simpl; lia).
          apply IH; assumption.
      + inversion Hr; subst.
        eapply run_step; [exact Hi | apply simple_not_look; exact Hsi | apply (bt_simple_step fwd off pos L G B i None); assumption].
  Qed.
End BCorrect.

(* ================= the node statement and its cases ================= *)
Section BNodes.
  Variable ix : indexer.
  Variable prog : program.
  Variable h : hay.
  Variable utf16 : bool.
  Hypothesis Hix_elem : forall fwd p c p', cnext ix fwd h p = Ok (Some (c, p')) -> ix_elem_of_u32 ix c = true.
  Notation RC ip pos L G B := (mkBC (MRun ip pos) L G B).
  Notation BK L G B := (mkBC MBack L G B).
  Notation leads := (leads ix prog h).
  Notation chain := (chain ix prog h).

  (* dg is exactly "the slot belongs to a lookaround body of the node" on the node's slot range *)
  Definition dgx (dg : nat -> bool) (n : node) (lo : nat) : Prop :=
    forall i, (lo <= i < lo + nloops n)%nat -> dg i = lslot i n lo.

  Definition bnode_ok_dg (dg : nat -> bool) (f : nat) : Prop := forall n fwd off es code es' pos G l ng,
    bt_wf ng n = true -> (ng <= length G)%nat -> dgx dg n (es_next_loop es) ->
    ir_results ix (p_unicode prog) utf16 h f n fwd (pos, G) = Some l ->
    emit_node utf16 (p_unicode prog) n off (negb fwd) es = Ok (code, es') ->
    code_at prog off code -> brackets_ok prog es' ->
    forall L B, (es_next_loop es' <= length L)%nat ->
    chain dg fwd (off + length code) (leq_out dg (es_next_loop es) (es_next_loop es') L)
          (RC off pos L G B) l (Qback dg L G B).

  Definition bnode_ok (f : nat) : Prop := forall dg, bnode_ok_dg dg f.

  Section Fixed.
    Variable dg : nat -> bool.
    Notation leq := (leq dg).
    Notation leq_out := (leq_out dg).
    Notation Qback := (Qback dg).

    (* results of a leaf through its straight-line code *)
    Lemma bt_leaf fwd code off pos G r lo hi L B :
      code_at prog off code -> forallb simple_insn code = true ->
      run_insns ix (p_unicode prog) h code fwd pos = Some r ->
      chain dg fwd (off + length code) (leq_out lo hi L) (RC off pos L G B)
            (match r with Some p' => [(p', G)] | None => [] end) (Qback L G B).
    Proof.
      intros Hc Hs Hr. pose proof (run_insns_leads ix prog h Hix_elem fwd L G B code off pos r Hc Hs Hr) as Hl.
      destruct r as [p'|].
      - apply chain_single; [exact Hl|]. apply leq_leq_out, leq_refl.
      - eapply chain_none; [exact Hl|apply leq_refl].
    Qed.

    (* a test of the current position *)
    Lemma bt_cond fwd off pos G (r : R bool) l i lo hi L B :
      nth_error (p_insns prog) off = Some i -> not_look i = true ->
      bt_exec ix prog h BBudget L G B fwd off pos =
        match r with Err e => BSDone (BError e) | Ok true => BSNext (RC (S off) pos L G B) | Ok false => BSNext (BK L G B) end ->
      cond_results (pos, G) r = Some l ->
      chain dg fwd (S off) (leq_out lo hi L) (RC off pos L G B) l (Qback L G B).
    Proof.
      intros Hi Hn Hstep Hr. destruct r as [e|[|]]; simpl in Hr; inversion Hr; subst l.
      - apply chain_single; [eapply run_step; eauto | apply leq_leq_out, leq_refl].
      - eapply chain_none; [eapply run_step; eauto | apply leq_refl].
    Qed.

    (* an attempt to advance *)
    Lemma bt_adv fwd off pos G (r : R (option nat)) l i lo hi L B :
      nth_error (p_insns prog) off = Some i -> not_look i = true ->
      bt_exec ix prog h BBudget L G B fwd off pos =
        match r with Err e => BSDone (BError e) | Ok (Some p') => BSNext (RC (S off) p' L G B) | Ok None => BSNext (BK L G B) end ->
      match r with Ok (Some p') => Some [(p', G)] | Ok None => Some [] | Err _ => None end = Some l ->
      chain dg fwd (S off) (leq_out lo hi L) (RC off pos L G B) l (Qback L G B).
    Proof.
      intros Hi Hn Hstep Hr. destruct r as [e|[p'|]]; inversion Hr; subst l.
      - apply chain_single; [eapply run_step; eauto | apply leq_leq_out, leq_refl].
      - eapply chain_none; [eapply run_step; eauto | apply leq_refl].
    Qed.
  End Fixed.

  (* ---------------- Loop1CharBody ---------------- *)
  Section L1.
    Variable dg : nat -> bool.
    Notation leq := (leq dg).
    Notation leq_out := (leq_out dg).
    Notation Qback := (Qback dg).
    Variables (fwd : bool) (G : list groupdata) (mn : N) (mx : option N) (gr : bool).
    Variable stepf : nat -> option (option nat).
    Variable chk : nat -> nat -> bool.
    Variable m : nat -> R (option nat).
    Let MX := max_val mx.
    Let back (q : nat) := if fwd then ix_next_left_pos ix h q else ix_next_right_pos ix h q.
    Let forth (q : nat) := if fwd then ix_next_right_pos ix h q else ix_next_left_pos ix h q.
    Let dist (q : nat) : nat := if fwd then (length h - q)%nat else q.
    Hypothesis Hm : forall q r, stepf q = Some r -> m q = Ok r.
    Hypothesis Hchk : forall q q', chk q q' = true ->
      (q <= length h)%nat /\ (q' <= length h)%nat /\ (if fwd then q < q' else q' < q)%nat /\
      back q' = Ok (Some q) /\ forth q = Ok (Some q').
    Hypothesis Hmm : mn <= MX.

    Lemma chk_dist q q' : chk q q' = true -> (dist q' < dist q)%nat /\ (q <= length h)%nat /\ (q' <= length h)%nat.
    Proof. intro H. destruct (Hchk q q' H) as (H1 & H2 & H3 & _). unfold dist. destruct fwd; lia. Qed.

    Definition fuel_ok (fuel q : nat) : Prop := (1 <= fuel)%nat /\ ((q <= length h)%nat -> (dist q < fuel)%nat).

    Lemma exact_phase : forall lf k q l fuel,
      l1_results stepf chk G mn mx gr lf k q = Some l -> k <= mn -> fuel_ok fuel q ->
      (scm_exact m fuel (mn - k) q = Ok None /\ l = []) \/
      (exists qmin lf', scm_exact m fuel (mn - k) q = Ok (Some qmin) /\
                        l1_results stepf chk G mn mx gr lf' mn qmin = Some l /\ fuel_ok fuel qmin).
    Proof.
      induction lf as [|lf IH]; intros k q l fuel Hr Hk Hf; [discriminate|].
      destruct (N.eq_dec k mn) as [->|Hne].
      - right. exists q, (S lf). replace (mn - mn) with 0 by lia.
        destruct fuel; simpl; auto.
      - cbn [l1_results] in Hr.
        assert (Hlt : k <? max_val mx = true) by (apply N.ltb_lt; unfold MX in Hmm; lia). rewrite Hlt in Hr.
        assert (Hc0 : (mn - k =? 0) = false) by (apply N.eqb_neq; lia).
        assert (Hmk : (mn <=? k) = false) by (apply N.leb_gt; lia). rewrite Hmk in Hr.
        destruct Hf as [Hf1 Hf2]. destruct fuel as [|fuel']; [lia|].
        destruct (stepf q) as [[q'|]|] eqn:Es; [| |discriminate].
        + destruct (chk q q') eqn:Ec; [|discriminate].
          destruct (l1_results stepf chk G mn mx gr lf (k + 1) q') as [it|] eqn:Ei; [|discriminate].
          inversion Hr; subst l. destruct (chk_dist q q' Ec) as (D1 & D2 & D3).
          assert (Hf' : fuel_ok fuel' q') by (split; [|intros _]; specialize (Hf2 D2); lia).
          destruct (IH (k + 1) q' it fuel' Ei ltac:(lia) Hf') as [[He ->]|(qmin & lf' & He & Hl & Hfq)].
          * left. split; [|reflexivity]. cbn [scm_exact]. rewrite Hc0. rewrite (Hm q _ Es). cbn [bindR].
            replace (mn - k - 1) with (mn - (k + 1)) by lia. exact He.
          * right. exists qmin, lf'. split; [|split; [exact Hl|]].
            -- cbn [scm_exact]. rewrite Hc0. rewrite (Hm q _ Es). cbn [bindR].
               replace (mn - k - 1) with (mn - (k + 1)) by lia. exact He.
            -- destruct Hfq as [F1 F2]. split; [lia|]. intro Hq. specialize (F2 Hq). lia.
        + inversion Hr; subst l. left. split; [|reflexivity].
          cbn [scm_exact]. rewrite Hc0. rewrite (Hm q _ Es). reflexivity.
    Qed.

    Fixpoint path (l : list nat) : Prop :=
      match l with
      | a :: ((b :: _) as t) => chk a b = true /\ path t
      | _ => True
      end.

    Lemma last_nonempty_default (t : list nat) : forall b d d', last (b :: t) d = last (b :: t) d'.
    Proof. induction t as [|c t IH]; intros b d d'; [reflexivity|]. cbn [last] in *. apply (IH c d d'). Qed.
    Lemma last_cons_default (a b d : nat) t : last (a :: b :: t) d = last (b :: t) b.
    Proof. change (last (a :: b :: t) d) with (last (b :: t) d). apply last_nonempty_default. Qed.

    Lemma upto_phase : forall lf k q l fuel,
      l1_results stepf chk G mn mx gr lf k q = Some l -> mn <= k -> fuel_ok fuel q ->
      exists rest, path (q :: rest) /\ scm_upto m fuel (MX - k) q = Ok (last (q :: rest) q) /\
                   l = map (fun x => (x, G)) (if gr then rev (q :: rest) else q :: rest).
    Proof.
      induction lf as [|lf IH]; intros k q l fuel Hr Hk Hf; [discriminate|].
      cbn [l1_results] in Hr.
      assert (Hmk : (mn <=? k) = true) by (apply N.leb_le; exact Hk). rewrite Hmk in Hr.
      destruct Hf as [Hf1 Hf2]. destruct fuel as [|fuel']; [lia|].
      destruct (k <? max_val mx) eqn:Elt.
      - apply N.ltb_lt in Elt. assert (Hc0 : (MX - k =? 0) = false) by (apply N.eqb_neq; unfold MX; lia).
        destruct (stepf q) as [[q'|]|] eqn:Es; [| |discriminate].
        + destruct (chk q q') eqn:Ec; [|discriminate].
          destruct (l1_results stepf chk G mn mx gr lf (k + 1) q') as [it|] eqn:Ei; [|discriminate].
          inversion Hr; subst l. destruct (chk_dist q q' Ec) as (D1 & D2 & D3).
          assert (Hf' : fuel_ok fuel' q') by (split; [|intros _]; specialize (Hf2 D2); lia).
          destruct (IH (k + 1) q' it fuel' Ei ltac:(lia) Hf') as (rest' & Hp & Hu & ->).
          exists (q' :: rest'). split; [split; assumption|]. split.
          * cbn [scm_upto]. rewrite Hc0. rewrite (Hm q _ Es). cbn [bindR].
            replace (MX - k - 1) with (MX - (k + 1)) by lia. rewrite Hu. f_equal. symmetry. apply last_cons_default.
          * destruct gr.
            -- change (rev (q :: q' :: rest')) with (rev (q' :: rest') ++ [q]). rewrite map_app. reflexivity.
            -- reflexivity.
        + inversion Hr; subst l. exists []. split; [exact I|]. split.
          * cbn [scm_upto]. rewrite Hc0. rewrite (Hm q _ Es). reflexivity.
          * destruct gr; reflexivity.
      - apply N.ltb_ge in Elt. inversion Hr; subst l. exists []. split; [exact I|]. split.
        + replace (MX - k) with 0 by (unfold MX; lia). destruct fuel'; reflexivity.
        + destruct gr; reflexivity.
    Qed.

    Lemma path_app_last : forall l a z, path (a :: l ++ [z]) -> path (a :: l) /\ chk (last (a :: l) a) z = true.
    Proof.
      induction l as [|b l IH]; intros a z H.
      - simpl in H. destruct H as [H _]. split; [exact I|exact H].
      - cbn [app path] in H. destruct H as [H1 H2]. destruct (IH b z H2) as [P1 P2].
        split; [split; assumption|]. rewrite last_cons_default. exact P2.
    Qed.

    Lemma path_last_ne : forall l a, path (a :: l) -> l <> [] -> last (a :: l) a <> a.
    Proof.
      assert (Hmono : forall l a, path (a :: l) -> (if fwd then a <= last (a :: l) a else last (a :: l) a <= a)%nat /\
                                                  (l <> [] -> last (a :: l) a <> a)).
      { induction l as [|b l IH]; intros a H.
        - simpl. split; [destruct fwd; lia|congruence].
        - cbn [path] in H. destruct H as [H1 H2]. destruct (Hchk a b H1) as (_ & _ & H3 & _).
          destruct (IH b H2) as [I1 _]. rewrite last_cons_default. split; [destruct fwd; lia|intros _; destruct fwd; lia]. }
      intros l a H. apply Hmono. exact H.
    Qed.

    Variables (cont lo hi : nat) (L0 : list loopdata).

    (* greedy: the positions are given back from the last one down to the first by stepping back one character *)
    Lemma greedy_enum : forall rest q c0 L B, path (q :: rest) -> leq_out lo hi L0 L ->
      leads fwd c0 (RC cont (last (q :: rest) q) L G (BGreedyLoop1Char cont q (last (q :: rest) q) :: B)) ->
      chain dg fwd cont (leq_out lo hi L0) c0 (map (fun x => (x, G)) (rev (q :: rest))) (Qback L G B).
    Proof.
      intros rest. induction rest as [|z rest0 IH] using rev_ind; intros q c0 L B Hp HL Hl.
      - simpl in *. eapply (ch_cons ix prog h dg fwd cont _ _ (q, G) [] _ L (BGreedyLoop1Char cont q q :: B)); [exact Hl|exact HL|].
        intros L' HL'. cbn [snd]. eapply (ch_nil ix prog h dg fwd cont _ _ _ (BK L' G B)); [exists L'; auto|].
        apply back_step. unfold bt_back. rewrite Nat.eqb_refl. reflexivity.
      - destruct (path_app_last rest0 q z Hp) as [Hp0 Hcz].
        set (y := last (q :: rest0) q) in *.
        assert (Hlast : last (q :: rest0 ++ [z]) q = z).
        { change (q :: rest0 ++ [z]) with ((q :: rest0) ++ [z]). apply last_last. }
        rewrite Hlast in Hl.
        assert (Hzq : z <> q).
        { pose proof (path_last_ne (rest0 ++ [z]) q Hp) as Hne. rewrite Hlast in Hne. apply Hne. destruct rest0; discriminate. }
        change (q :: rest0 ++ [z]) with ((q :: rest0) ++ [z]). rewrite rev_unit. cbn [map].
        eapply (ch_cons ix prog h dg fwd cont _ _ (z, G) _ _ L (BGreedyLoop1Char cont q z :: B)); [exact Hl|exact HL|].
        intros L' HL'. cbn [snd].
        destruct (Hchk y z Hcz) as (_ & _ & _ & Hb & _).
        eapply chain_weaken; [intros L1 H1; exact H1| |eapply (IH q _ L' B Hp0)].
        + intros cf Hcf. eapply Qback_weaken; eauto.
        + eapply leq_out_trans; [exact HL|apply leq_leq_out; exact HL'].
        + apply back_step. unfold bt_back.
          replace (z =? q)%nat with false by (symmetry; apply Nat.eqb_neq; exact Hzq).
          unfold back in Hb. rewrite Hb. reflexivity.
    Qed.

    (* lazy: the positions are tried from the first one up to the last by stepping forward one character *)
    Lemma lazy_enum : forall rest q c0 L B qe, path (q :: rest) -> qe = last (q :: rest) q -> leq_out lo hi L0 L ->
      leads fwd c0 (RC cont q L G (BNonGreedyLoop1Char cont q qe :: B)) ->
      chain dg fwd cont (leq_out lo hi L0) c0 (map (fun x => (x, G)) (q :: rest)) (Qback L G B).
    Proof.
      induction rest as [|q' rest IH]; intros q c0 L B qe Hp Hqe HL Hl.
      - simpl in *. subst qe.
        eapply (ch_cons ix prog h dg fwd cont _ _ (q, G) [] _ L (BNonGreedyLoop1Char cont q q :: B)); [exact Hl|exact HL|].
        intros L' HL'. cbn [snd]. eapply (ch_nil ix prog h dg fwd cont _ _ _ (BK L' G B)); [exists L'; auto|].
        apply back_step. unfold bt_back. rewrite Nat.eqb_refl. reflexivity.
      - cbn [map]. cbn [path] in Hp. destruct Hp as [Hc Hp'].
        assert (Hne : qe <> q).
        { subst qe. apply (path_last_ne (q' :: rest) q); [split; assumption|discriminate]. }
        eapply (ch_cons ix prog h dg fwd cont _ _ (q, G) _ _ L (BNonGreedyLoop1Char cont q qe :: B)); [exact Hl|exact HL|].
        intros L' HL'. cbn [snd].
        destruct (Hchk q q' Hc) as (_ & _ & _ & _ & Hfo).
        eapply chain_weaken; [intros L1 H1; exact H1| |eapply (IH q' _ L' B qe Hp')].
        + intros cf Hcf. eapply Qback_weaken; eauto.
        + rewrite Hqe. apply last_cons_default.
        + eapply leq_out_trans; [exact HL|apply leq_leq_out; exact HL'].
        + apply back_step. unfold bt_back.
          replace (qe =? q)%nat with false by (symmetry; apply Nat.eqb_neq; exact Hne).
          unfold forth in Hfo. rewrite Hfo. reflexivity.
    Qed.
  End L1.

  (* the single-character matcher the backtracker dispatches to for the instruction after Loop1CharBody *)
  Definition bt_taken (bi : insn) (fwd : bool) (q : nat) : R (option nat) :=
    match bi with
    | Char c => char_bt ix c fwd h q
    | ByteSeq bs => match_bytes fwd h q bs
    | bi => match match1 ix prog bi fwd h q with Some r => r | None => Err Unreach end
    end.

  Definition scm_insn_ok (bi : insn) : bool :=
    match bi with
    | Char _ | CharSet _ | ByteSet _ | AsciiBracket _ | Bracket _ | MatchAny | MatchAnyExceptLT => true
    | ByteSeq bs => (length bs <=? 6)%nat
    | _ => false
    end.

  Lemma scm_dispatch_ok ip fwd bi : nth_error (p_insns prog) (S ip) = Some bi -> scm_insn_ok bi = true ->
    exists m, scm_dispatch ix prog h ip fwd = Ok (Some m) /\ forall q, m q = bt_taken bi fwd q.
  Proof.
    intros Hi Hok. unfold scm_dispatch. rewrite Hi.
    destruct bi; simpl in Hok; try discriminate; cbn [match1];
      first [ (unfold bt_taken, char_bt; destruct (ix_elem_of_u32 ix c); eexists; split; reflexivity)
            | (rewrite Hok; eexists; split; reflexivity)
            | (eexists; split; reflexivity) ].
  Qed.

  Lemma scm_exact_ext (m1 m2 : nat -> R (option nat)) : (forall q, m1 q = m2 q) ->
    forall fuel count p, scm_exact m1 fuel count p = scm_exact m2 fuel count p.
  Proof.
    intro He. induction fuel as [|f IH]; intros count p; cbn [scm_exact]; [reflexivity|].
    destruct (count =? 0); [reflexivity|]. rewrite He. destruct (m2 p) as [e|[p'|]]; cbn [bindR]; auto.
  Qed.
  Lemma scm_upto_ext (m1 m2 : nat -> R (option nat)) : (forall q, m1 q = m2 q) ->
    forall fuel count p, scm_upto m1 fuel count p = scm_upto m2 fuel count p.
  Proof.
    intro He. induction fuel as [|f IH]; intros count p; cbn [scm_upto]; [reflexivity|].
    destruct (count =? 0); [reflexivity|]. rewrite He. destruct (m2 p) as [e|[p'|]]; cbn [bindR]; auto.
  Qed.

  Lemma pike_bt_taken bi fwd q r : scm_insn_ok bi = true -> pike_taken ix prog h bi fwd q = Ok r -> bt_taken bi fwd q = Ok r.
  Proof.
    intros Hok. destruct bi; simpl in Hok; try discriminate; unfold pike_taken, bt_taken; cbn [match1]; auto.
    apply char_bt_pike; exact Hix_elem.
  Qed.

  Lemma step_inv_facts fwd q q' : step_inv ix h fwd q q' = true ->
    (q <= length h)%nat /\ (q' <= length h)%nat /\ (if fwd then q < q' else q' < q)%nat /\
    (if fwd then ix_next_left_pos ix h q' else ix_next_right_pos ix h q') = Ok (Some q) /\
    (if fwd then ix_next_right_pos ix h q else ix_next_left_pos ix h q) = Ok (Some q').
  Proof.
    unfold step_inv.
    destruct (if fwd then ix_next_left_pos ix h q' else ix_next_right_pos ix h q') as [e|[a|]]; try discriminate.
    destruct (if fwd then ix_next_right_pos ix h q else ix_next_left_pos ix h q) as [e|[b|]]; try discriminate.
    intro H. repeat (apply andb_true_iff in H as [H ?]).
    apply Nat.eqb_eq in H. subst a.
    match goal with H1 : (b =? q')%nat = true |- _ => apply Nat.eqb_eq in H1; subst b end.
    repeat match goal with H1 : (_ <=? _)%nat = true |- _ => apply Nat.leb_le in H1 end.
    repeat split; auto. destruct fwd; match goal with H1 : (_ <? _)%nat = true |- _ => apply Nat.ltb_lt in H1; exact H1 end.
  Qed.

  Lemma byte_sequence_single lb bs bi : emit_byte_sequence lb bs = [bi] -> bi = ByteSeq bs.
  Proof.
    unfold emit_byte_sequence. destruct bs as [|b0 t]; [destruct lb; discriminate|].
    set (n := length t).
    change (chunks16 (S (length (b0 :: t))) (b0 :: t)) with (firstn 16 (b0 :: t) :: chunks16 (S n) (skipn 16 (b0 :: t))).
    destruct (skipn 16 (b0 :: t)) as [|x r] eqn:Es.
    - assert (Hfn : firstn 16 (b0 :: t) = b0 :: t) by (rewrite <- (firstn_skipn 16 (b0 :: t)) at 2; rewrite Es, app_nil_r; reflexivity).
      rewrite Hfn. cbn [chunks16]. destruct lb; cbn [rev app map]; intro H; inversion H; reflexivity.
    - cbn [chunks16]. intro H. apply (f_equal (@length insn)) in H. rewrite map_length in H.
      destruct lb; [rewrite rev_length in H|]; cbn [length] in H; lia.
  Qed.

  Lemma bt_l1 dg f fwd ng body mn mx gr off es code es' pos G l :
    bt_wf ng (NLoop1CharBody body mn mx gr) = true ->
    ir_results ix (p_unicode prog) utf16 h (S f) (NLoop1CharBody body mn mx gr) fwd (pos, G) = Some l ->
    emit_node utf16 (p_unicode prog) (NLoop1CharBody body mn mx gr) off (negb fwd) es = Ok (code, es') ->
    code_at prog off code -> brackets_ok prog es' ->
    forall L B,
    chain dg fwd (off + length code) (leq_out dg (es_next_loop es) (es_next_loop es') L) (RC off pos L G B) l (Qback dg L G B).
  Proof.
    intros Hwf Hr He Hc Hbr L B.
    simpl in Hwf. unfold bt_l1_ok in Hwf. apply andb_true_iff in Hwf as [Hwf Hmm]. apply andb_true_iff in Hwf as [Hbok Hshape].
    apply N.leb_le in Hmm.
    cbn [ir_results] in Hr.
    destruct (single_step ix (p_unicode prog) h (negb fwd) body fwd) as [stepf|] eqn:Ess; [|discriminate].
    simpl in He.
    destruct (emit_node utf16 (p_unicode prog) body (S off) (negb fwd) es) as [e|[cb eb]] eqn:Eb; simpl in He; [discriminate|].
    inversion He; subst code es'. clear He.
    apply code_at_cons in Hc as [Hi0 Hcb].
    destruct (l1_body_insn ix prog h utf16 body fwd (S off) es cb eb stepf Hbok Ess Eb Hbr) as (bi & -> & Hnl & Hst & Hkind).
    apply code_at_cons in Hcb as [Hib _].
    (* the dispatched matcher *)
    assert (Hbiok : scm_insn_ok bi = true).
    { destruct Hkind as [[Hlc Hsimp]|(idx & ->)]; [|reflexivity].
      destruct body as [ | |c|bs|bs|cs|l0|a b| | |sol ml|inv ui|id c nm|g ic|b|alts icase|ng0 bw sg eg c|body' mn' mx' gr' egs ege|body' mn' mx' gr'];
        simpl in Hlc; try discriminate; try (inversion Hlc; subst bi; reflexivity).
      - (* ByteSequence *)
        inversion Hlc as [Hl']. apply byte_sequence_single in Hl'. subst bi. simpl. exact Hshape.
      - (* ByteSet *)
        unfold emit_byte_set in Hlc. destruct bs as [|b0 [|b1 [|b2 [|b3 [|b4 t]]]]]; simpl in Hlc; try discriminate; inversion Hlc; subst bi; reflexivity.
      - (* CharSet *)
        unfold emit_char_set in Hlc. destruct cs as [|c0 t]; [discriminate|].
        destruct (4 <? length (c0 :: t))%nat; inversion Hlc; subst bi; reflexivity.
      - (* Bracket *)
        destruct (bracket_as_ascii b); inversion Hlc; subst bi; reflexivity. }
    destruct (scm_dispatch_ok off fwd bi Hib Hbiok) as (m & Hdisp & Hmq).
    assert (Hm : forall q r, stepf q = Some r -> m q = Ok r).
    { intros q r Hs. rewrite Hmq. apply pike_bt_taken; [exact Hbiok|]. rewrite Hst in Hs.
      destruct (pike_taken ix prog h bi fwd q); inversion Hs; reflexivity. }
    pose proof (step_inv_facts fwd) as Hchk.
    set (len := length h).
    assert (Hfuel : fuel_ok fwd (S len) pos).
    { split; [lia|]. intro Hp. unfold len. destruct fwd; lia. }
    replace (off + length [Loop1CharBody mn match mx with Some v => v | None => USIZE_MAX end gr; bi])%nat with (off + 2)%nat by (simpl; lia).
    assert (Hrun : forall c', bt_exec ix prog h BBudget L G B fwd off pos = BSNext c' -> leads fwd (RC off pos L G B) c').
    { intros c' Hx. eapply (run_step ix prog h fwd off pos L G B _ c' Hi0 eq_refl Hx). }
    assert (Hexec : bt_exec ix prog h BBudget L G B fwd off pos =
                    bt_scm_loop ix prog h L G B fwd pos mn (max_val mx) off gr).
    { unfold bt_exec. rewrite Hi0. reflexivity. }
    unfold bt_scm_loop in Hexec. rewrite Hdisp in Hexec.
    destruct (exact_phase fwd G mn mx gr stepf (step_inv ix h fwd) m Hm Hchk Hmm f 0 pos l (S len) Hr ltac:(lia) Hfuel)
      as [[He ->]|(qmin & lf' & He & Hl & Hfq)];
      rewrite N.sub_0_r in He; fold len in Hexec; rewrite He in Hexec.
    - eapply chain_none; [apply Hrun; exact Hexec|apply leq_refl].
    - destruct (upto_phase fwd G mn mx gr stepf (step_inv ix h fwd) m Hm Hchk Hmm lf' mn qmin l (S len) Hl ltac:(lia) Hfq)
        as (rest & Hp & Hu & ->).
      set (qe := last (qmin :: rest) qmin) in *.
      assert (Hmax : (if mn <? max_val mx then scm_upto m (S len) (max_val mx - mn) qmin else Ok qmin) = Ok qe).
      { destruct (mn <? max_val mx) eqn:E; [exact Hu|].
        apply N.ltb_ge in E. replace (max_val mx - mn) with 0 in Hu by lia. cbn [scm_upto] in Hu.
        replace (0 =? 0) with true in Hu by reflexivity. exact Hu. }
      rewrite Hmax in Hexec.
      destruct (Nat.eq_dec qmin qe) as [Heq|Hne].
      + (* a single position *)
        assert (Hrest : rest = []).
        { destruct rest as [|z r0]; [reflexivity|]. exfalso.
          apply (path_last_ne fwd mn mx (step_inv ix h fwd) Hchk Hmm (z :: r0) qmin Hp); [discriminate|]. symmetry. exact Heq. }
        subst rest. rewrite <- Heq in Hexec. rewrite Nat.eqb_refl in Hexec.
        replace (if gr then qmin else qmin) with qmin in Hexec by (destruct gr; reflexivity).
        replace (map (fun x => (x, G)) (if gr then rev [qmin] else [qmin])) with [(qmin, G)] by (destruct gr; reflexivity).
        apply chain_single; [apply Hrun; exact Hexec|apply leq_leq_out, leq_refl].
      + replace (qmin =? qe)%nat with false in Hexec by (symmetry; apply Nat.eqb_neq; exact Hne).
        destruct gr.
        * apply (greedy_enum dg fwd G mn mx (step_inv ix h fwd) Hchk Hmm (off + 2)%nat _ _ L rest qmin _ L B Hp (leq_leq_out dg _ _ _ _ (leq_refl dg L))).
          apply Hrun. exact Hexec.
        * apply (lazy_enum dg fwd G mn mx (step_inv ix h fwd) Hchk Hmm (off + 2)%nat _ _ L rest qmin _ L B qe Hp eq_refl (leq_leq_out dg _ _ _ _ (leq_refl dg L))).
          apply Hrun. exact Hexec.
  Qed.

  Section Cases.
    Variable f : nat.
    Hypothesis IHf : bnode_ok f.
    Variable dg : nat -> bool.
    Notation leq := (leq dg).
    Notation leq_out := (leq_out dg).
    Notation Qback := (Qback dg).

    Lemma dgx_cat x t lo : dgx dg (NCat (x :: t)) lo -> dgx dg x lo /\ dgx dg (NCat t) (lo + nloops x).
    Proof.
      unfold dgx. intro H. split; intros i Hi.
      - rewrite H by (simpl; lia). simpl.
        change ((fix go (l : list node) (lo0 : nat) : bool :=
                   match l with [] => false | x0 :: t0 => lslot i x0 lo0 || go t0 (lo0 + nloops x0)%nat end) t (lo + nloops x)%nat)
          with (lslot i (NCat t) (lo + nloops x)).
        rewrite (lslot_out i (NCat t)) by lia. apply orb_false_r.
      - rewrite H by (simpl in *; lia). simpl.
        change ((fix go (l : list node) (lo0 : nat) : bool :=
                   match l with [] => false | x0 :: t0 => lslot i x0 lo0 || go t0 (lo0 + nloops x0)%nat end) t (lo + nloops x)%nat)
          with (lslot i (NCat t) (lo + nloops x)).
        rewrite (lslot_out i x) by lia. reflexivity.
    Qed.

    Lemma dgx_alt a b lo : dgx dg (NAlt a b) lo -> dgx dg a lo /\ dgx dg b (lo + nloops a).
    Proof.
      unfold dgx. intro H. split; intros i Hi.
      - rewrite H by (simpl; lia). simpl. rewrite (lslot_out i b) by lia. apply orb_false_r.
      - rewrite H by (simpl; lia). simpl. rewrite (lslot_out i a) by lia. reflexivity.
    Qed.

    Lemma dgx_loop body mn mx gr egs ege lo : dgx dg (NLoop body mn mx gr egs ege) lo -> dg lo = false /\ dgx dg body (S lo).
    Proof.
      unfold dgx. intro H. split.
      - rewrite H by (simpl; lia). simpl. apply lslot_out. lia.
      - intros i Hi. rewrite H by (simpl; lia). reflexivity.
    Qed.

    Lemma dgx_look ng bw sg eg c lo : dgx dg (NLookaround ng bw sg eg c) lo -> forall i, (lo <= i < lo + nloops c)%nat -> dg i = true.
    Proof.
      unfold dgx. intros H i Hi. rewrite H by (simpl; lia). simpl.
      apply andb_true_iff. split; [apply Nat.leb_le|apply Nat.ltb_lt]; lia.
    Qed.

    (* sequence *)
    Lemma bt_cat fwd ng : forall l off es code es' xs ys c (Q : bconf -> Prop) lo0 L0,
      bt_wf ng (NCat l) = true -> dgx dg (NCat l) (es_next_loop es) ->
      cat_results (fun c => ir_results ix (p_unicode prog) utf16 h f c fwd) l xs = Some ys ->
      emit_node utf16 (p_unicode prog) (NCat l) off (negb fwd) es = Ok (code, es') ->
      code_at prog off code -> brackets_ok prog es' ->
      Forall (fun y => (ng <= length (snd y))%nat) xs ->
      (lo0 <= es_next_loop es)%nat -> (es_next_loop es' <= length L0)%nat ->
      chain dg fwd off (leq_out lo0 (es_next_loop es) L0) c xs Q ->
      chain dg fwd (off + length code) (leq_out lo0 (es_next_loop es') L0) c ys Q.
    Proof.
      induction l as [|n l IHl]; intros off es code es' xs ys c Q lo0 L0 Hwf Hdg Hr He Hc Hbr Hxs Hlo Hlen Hch.
      - simpl in Hr, He. inversion Hr; inversion He; subst. simpl. rewrite Nat.add_0_r. exact Hch.
      - simpl in Hwf. apply andb_true_iff in Hwf as [Hwn Hwl].
        apply dgx_cat in Hdg as [Hdn Hdl].
        cbn [cat_results] in Hr.
        destruct (obindm (fun x => ir_results ix (p_unicode prog) utf16 h f n fwd x) xs) as [ys1|] eqn:Eb; [|discriminate].
        simpl in He.
        destruct (emit_node utf16 (p_unicode prog) n off (negb fwd) es) as [e|[cn en]] eqn:En; simpl in He; [discriminate|].
        match type of He with (do rt <- ?r; _) = _ => destruct r as [e|[ct et]] eqn:Et; simpl in He; [discriminate|] end.
        inversion He; subst code es'. clear He.
        apply code_at_app in Hc as [Hcn Hct].
        assert (Het : emit_node utf16 (p_unicode prog) (NCat l) (off + length cn) (negb fwd) en = Ok (ct, et)) by exact Et.
        pose proof (emit_extends _ _ _ _ _ _ _ _ En) as Hx1. pose proof (emit_extends _ _ _ _ _ _ _ _ Het) as Hx2.
        assert (Hbn : brackets_ok prog en) by (eapply brackets_ok_mono; eauto).
        destruct Hx1 as (L1 & _ & _). destruct Hx2 as (L2 & _ & _).
        rewrite <- (emit_nloops _ _ _ _ _ _ _ _ En) in Hdl.
        rewrite app_length, Nat.add_assoc.
        eapply (IHl (off + length cn)%nat en ct et ys1 ys c Q lo0 L0); eauto; try lia.
        + (* slot counts of the intermediate results *)
          eapply (forall_obindm _ (fun y => (ng <= length (snd y))%nat)); [exact Hxs| |exact Eb].
          intros [q Gq] r Hq Hrr. simpl in Hq.
          pose proof (ir_len ix (p_unicode prog) utf16 h f n fwd q Gq r Hrr) as Hl.
          eapply Forall_impl; [|exact Hl]. intros z Hz. simpl in Hz. rewrite Hz. exact Hq.
        + (* run n from every success so far *)
          eapply (chain_bind ix prog h dg fwd off (off + length cn)%nat _ _ _ (fun y => (ng <= length (snd y))%nat) c xs Q Hch Hxs); [|exact Eb].
          intros [q Gq] L B zs Hq Hfr Hz. simpl in Hq. cbn [fst snd].
          assert (HlenL : length L0 = length L) by (destruct Hfr; assumption).
          eapply chain_weaken; [| |eapply (IHf dg n fwd off es cn en q Gq zs ng Hwn Hq Hdn Hz En Hcn Hbn L B); lia].
          * intros L' HL'. eapply leq_out_trans; [eapply leq_out_widen; [| |exact Hfr]; lia|].
            eapply leq_out_widen; [| |exact HL']; lia.
          * intros cf Hcf. exact Hcf.
    Qed.

    Lemma set_nth_undo {A} (l : list A) : forall i x y, nth_error l i = Some x -> set_nth i x (set_nth i y l) = l.
    Proof.
      induction l as [|a l IH]; intros [|i] x y H; simpl in *; try discriminate.
      - inversion H; subst. reflexivity.
      - rewrite IH by assumption. reflexivity.
    Qed.

    (* alternation: Alt right; <a>; Jump exit; <b> *)
    Lemma bt_alt fwd ng a b off es code es' pos G l :
      bt_wf ng (NAlt a b) = true -> (ng <= length G)%nat -> dgx dg (NAlt a b) (es_next_loop es) ->
      ir_results ix (p_unicode prog) utf16 h (S f) (NAlt a b) fwd (pos, G) = Some l ->
      emit_node utf16 (p_unicode prog) (NAlt a b) off (negb fwd) es = Ok (code, es') ->
      code_at prog off code -> brackets_ok prog es' ->
      forall L B, (es_next_loop es' <= length L)%nat ->
      chain dg fwd (off + length code) (leq_out (es_next_loop es) (es_next_loop es') L) (RC off pos L G B) l (Qback L G B).
    Proof.
      intros Hwf Hng Hdg Hr He Hc Hbr L B Hlen.
      simpl in Hwf. apply andb_true_iff in Hwf as [Hwa Hwb]. apply dgx_alt in Hdg as [Hda Hdb].
      cbn [ir_results] in Hr.
      destruct (ir_results ix (p_unicode prog) utf16 h f a fwd (pos, G)) as [u|] eqn:Eu; [|discriminate].
      destruct (ir_results ix (p_unicode prog) utf16 h f b fwd (pos, G)) as [v|] eqn:Ev; [|discriminate].
      inversion Hr; subst l. clear Hr.
      simpl in He.
      destruct (emit_node utf16 (p_unicode prog) a (S off) (negb fwd) es) as [e|[ca ea]] eqn:Ea; simpl in He; [discriminate|].
      destruct (emit_node utf16 (p_unicode prog) b (off + 2 + length ca) (negb fwd) ea) as [e|[cb eb]] eqn:Eb; simpl in He; [discriminate|].
      inversion He; subst code es'. clear He.
      apply code_at_cons in Hc as [Hi0 Hc]. apply code_at_app in Hc as [Hca Hc].
      apply code_at_cons in Hc as [Hij Hcb].
      pose proof (emit_extends _ _ _ _ _ _ _ _ Ea) as Hx1. pose proof (emit_extends _ _ _ _ _ _ _ _ Eb) as Hx2.
      assert (Hbra : brackets_ok prog ea) by (eapply brackets_ok_mono; eauto).
      destruct Hx1 as (L1 & _ & _). destruct Hx2 as (L2 & _ & _).
      rewrite <- (emit_nloops _ _ _ _ _ _ _ _ Ea) in Hdb.
      set (right := (off + 2 + length ca)%nat) in *.
      set (exit := (right + length cb)%nat) in *.
      match goal with |- chain _ _ ?e _ _ _ _ =>
        replace e with exit by (unfold exit, right; simpl; rewrite app_length; simpl; lia) end.
      set (B' := BSetPosition right pos :: B).
      eapply chain_leads.
      { eapply (run_step ix prog h fwd off pos L G B (Alt right)); [exact Hi0|reflexivity|].
        unfold bt_exec. rewrite Hi0. reflexivity. }
      fold B'.
      eapply chain_app.
      - (* the left branch; every success jumps over the right branch *)
        eapply (chain_retarget ix prog h dg fwd (S off + length ca)%nat exit).
        + intros p' L' G' B0. eapply (run_step ix prog h fwd _ p' L' G' B0 (Jump exit)); [|reflexivity|].
          * exact Hij.
          * unfold bt_exec. rewrite Hij. reflexivity.
        + eapply chain_weaken; [| |eapply (IHf dg a fwd (S off) es ca ea pos G u ng Hwa Hng Hda Eu Ea Hca Hbra L B'); lia].
          * intros L' HL'. eapply leq_out_widen; [| |exact HL']; lia.
          * intros cf Hcf. exact Hcf.
      - (* backtracking into the Alt record runs the right branch *)
        intros cf (L' & -> & HL).
        eapply chain_leads.
        { apply back_step. unfold B'. reflexivity. }
        assert (Hlen' : length L = length L') by (destruct HL; assumption).
        eapply chain_weaken; [| |eapply (IHf dg b fwd right ea cb eb pos G v ng Hwb Hng Hdb Ev Eb)]; try lia.
        + intros L2' HL2. eapply leq_out_trans; [apply leq_leq_out; exact HL|]. eapply leq_out_widen; [| |exact HL2]; lia.
        + intros cf Hcf. eapply Qback_weaken; eauto.
        + replace right with (S (S off + length ca)) by (unfold right; lia).
          replace (S (S off + length ca)) with (S (S (off + length ca))) by lia.
          replace (S (off + length ca)) with (S off + length ca)%nat in Hcb by lia.
          replace (S (S (off + length ca))) with (S (S off + length ca)) by lia. exact Hcb.
        + exact Hbr.
    Qed.

    (* capture group: BeginCG id; <c>; EndCG id *)
    Lemma bt_group fwd ng id c nm off es code es' pos G l :
      bt_wf ng (NCaptureGroup id c nm) = true -> (ng <= length G)%nat -> dgx dg (NCaptureGroup id c nm) (es_next_loop es) ->
      ir_results ix (p_unicode prog) utf16 h (S f) (NCaptureGroup id c nm) fwd (pos, G) = Some l ->
      emit_node utf16 (p_unicode prog) (NCaptureGroup id c nm) off (negb fwd) es = Ok (code, es') ->
      code_at prog off code -> brackets_ok prog es' ->
      forall L B, (es_next_loop es' <= length L)%nat ->
      chain dg fwd (off + length code) (leq_out (es_next_loop es) (es_next_loop es') L) (RC off pos L G B) l (Qback L G B).
    Proof.
      intros Hwf Hng Hdg Hr He Hc Hbr L B Hlen.
      simpl in Hwf. cbn [ir_results] in Hr.
      destruct (upd_group id (set_group_start fwd pos) G) as [G1|] eqn:E1; [|discriminate].
      destruct (ir_results ix (p_unicode prog) utf16 h f c fwd (pos, G1)) as [lc|] eqn:Ec; [|discriminate].
      simpl in He.
      match type of He with (do rc <- emit_node _ _ _ _ _ ?e1; _) = _ => set (es1 := e1) in * end.
      destruct (emit_node utf16 (p_unicode prog) c (S off) (negb fwd) es1) as [e|[cc ec]] eqn:Eem; simpl in He; [discriminate|].
      inversion He; subst code es'. clear He.
      apply code_at_cons in Hc as [Hi0 Hc]. apply code_at_app in Hc as [Hcc Hce]. apply code_at_cons in Hce as [Hie _].
      unfold upd_group in E1. destruct (nth_error G id) as [gd|] eqn:Egd; [|discriminate]. inversion E1; subst G1. clear E1.
      set (G1 := set_nth id (set_group_start fwd pos gd) G) in *.
      set (B1 := BSetCaptureGroup id gd :: B).
      set (ec_ip := (S off + length cc)%nat) in *.
      match goal with |- chain _ _ ?e _ _ _ _ =>
        replace e with (S ec_ip) by (unfold ec_ip; simpl; rewrite app_length; simpl; lia) end.
      assert (Hstep1 : leads fwd (RC off pos L G B) (RC (S off) pos L G1 B1)).
      { eapply (run_step ix prog h fwd off pos L G B (BeginCG id)); [exact Hi0|reflexivity|].
        unfold bt_exec. rewrite Hi0, Egd. unfold G1, B1, set_group_start. destruct fwd; reflexivity. }
      eapply chain_leads; [exact Hstep1|].
      assert (Hng1 : (ng <= length G1)%nat) by (unfold G1; rewrite set_nth_length; exact Hng).
      assert (Hdc : dgx dg c (es_next_loop es1)) by exact Hdg.
      pose proof (IHf dg c fwd (S off) es1 cc ec pos G1 lc ng Hwf Hng1 Hdc Ec Eem Hcc Hbr L B1 Hlen) as Hch.
      rewrite <- (app_nil_r l). eapply chain_app.
      - eapply (chain_bind ix prog h dg fwd ec_ip (S ec_ip) _ _ _ (fun _ => True) _ lc _ Hch); [apply Forall_forall; auto| |exact Hr].
        intros [q Gq] L' B' zs _ Hfr Hz. cbn [fst snd] in *.
        unfold upd_group in Hz. destruct (nth_error Gq id) as [gdq|] eqn:Egq; [|discriminate]. inversion Hz; subst zs. clear Hz.
        eapply (ch_cons ix prog h dg fwd (S ec_ip) _ _ (q, set_nth id (set_group_end fwd q gdq) Gq) [] _ L' (BSetCaptureGroup id gdq :: B')).
        + cbn [fst snd]. eapply (run_step ix prog h fwd ec_ip q L' Gq B' (EndCG id)); [exact Hie|reflexivity|].
          unfold bt_exec. rewrite Hie, Egq. unfold set_group_end. destruct fwd; reflexivity.
        + exact Hfr.
        + intros L'' HL''. cbn [snd].
          eapply (ch_nil ix prog h dg fwd (S ec_ip) _ _ _ (BK L'' Gq B')); [exists L''; auto|].
          apply back_step. unfold bt_back. rewrite set_nth_length.
          assert (Hid : (id <? length Gq)%nat = true) by (apply Nat.ltb_lt; apply nth_error_Some; congruence).
          rewrite Hid. rewrite (set_nth_undo Gq id gdq _ Egq). reflexivity.
      - intros cf (L' & -> & HL).
        eapply (ch_nil ix prog h dg fwd (S ec_ip) _ _ _ (BK L' G B)); [exists L'; auto|].
        apply back_step. unfold B1, bt_back. unfold G1. rewrite set_nth_length.
        assert (Hid : (id <? length G)%nat = true) by (apply Nat.ltb_lt; apply nth_error_Some; congruence).
        rewrite Hid. rewrite (set_nth_undo G id gd _ Egd). reflexivity.
    Qed.

    (* ---------------- loops ---------------- *)
    Lemma bt_resets fwd : forall n lo G g1 ip pos L B,
      reset_groups G lo n = Some g1 -> code_at prog ip (map ResetCG (seq lo n)) ->
      exists B', leads fwd (RC ip pos L G B) (RC (ip + n) pos L g1 B') /\ forall L', leads fwd (BK L' g1 B') (BK L' G B).
    Proof.
      induction n as [|n IH]; intros lo G g1 ip pos L B Hr Hc.
      - simpl in Hr. inversion Hr; subst. exists B. rewrite Nat.add_0_r. split; [apply leads_refl|intro; apply leads_refl].
      - cbn [reset_groups] in Hr. destruct (upd_group lo (fun _ => gd_empty) G) as [G'|] eqn:Eu; [|discriminate].
        simpl in Hc. apply code_at_cons in Hc as [Hi Hc].
        unfold upd_group in Eu. destruct (nth_error G lo) as [gd|] eqn:Egd; [|discriminate]. inversion Eu; subst G'. clear Eu.
        destruct (IH (S lo) _ g1 (S ip) pos L (BSetCaptureGroup lo gd :: B) Hr Hc) as (B' & H1 & H2).
        exists B'. split.
        + eapply leads_trans; [|replace (ip + S n)%nat with (S ip + n)%nat by lia; exact H1].
          eapply (run_step ix prog h fwd ip pos L G B (ResetCG lo)); [exact Hi|reflexivity|].
          unfold bt_exec. rewrite Hi, Egd. reflexivity.
        + intro L'. eapply leads_trans; [apply H2|].
          apply back_step. unfold bt_back. rewrite set_nth_length.
          assert (Hid : (lo <? length G)%nat = true) by (apply Nat.ltb_lt; apply nth_error_Some; congruence).
          rewrite Hid. rewrite (set_nth_undo G lo gd _ Egd). reflexivity.
    Qed.

    Lemma leq_restore L L' lid ld v : nth_error L lid = Some ld -> leq (set_nth lid v L) L' -> leq L (set_nth lid ld L').
    Proof.
      intros Hl [H1 H2]. rewrite set_nth_length in H1. split; [rewrite set_nth_length; exact H1|].
      intros i Hi. destruct (Nat.eq_dec i lid) as [->|Hne].
      - rewrite nth_error_set_nth_eq; [exact Hl|]. rewrite <- H1. apply nth_error_Some. congruence.
      - rewrite nth_error_set_nth_neq by auto. rewrite <- H2 by exact Hi. rewrite nth_error_set_nth_neq by auto. reflexivity.
    Qed.

    Section BLoop.
      Variables (fwd : bool) (body : node) (mn : N) (mx : option N) (gr : bool) (egs ege : nat).
      Variables (off lid exit again ng : nat) (es1 eb : estate) (cb : list insn).
      Let MX := max_val mx.
      Let resets := map ResetCG (seq egs (ege - egs)).
      Hypothesis Hwb : bt_wf ng body = true.
      Hypothesis Hdb : dgx dg body (S lid).
      Hypothesis Hdl : dg lid = false.
      Hypothesis Hi_enter : nth_error (p_insns prog) off = Some (EnterLoop lid mn MX gr exit).
      Hypothesis Hc_resets : code_at prog (S off) resets.
      Hypothesis Hc_body : code_at prog (off + 1 + length resets) cb.
      Hypothesis Hagain : again = (off + 1 + length resets + length cb)%nat.
      Hypothesis Hi_again : nth_error (p_insns prog) again = Some (LoopAgain off).
      Hypothesis Eb : emit_node utf16 (p_unicode prog) body (off + 1 + length resets) (negb fwd) es1 = Ok (cb, eb).
      Hypothesis Hbr : brackets_ok prog eb.
      Hypothesis Hlid : es_next_loop es1 = S lid.
      Notation hi := (es_next_loop eb).

      Lemma bloop_dec : forall lf k entry pos G l c L B e0,
        loop_results (ir_results ix (p_unicode prog) utf16 h f body fwd) mn mx gr egs ege lf k entry (pos, G) = Some l ->
        (ng <= length G)%nat ->
        blook_dir prog c = None ->
        bt_next ix prog h BBudget fwd c = bt_run_loop L G B lid mn MX gr exit pos off ->
        nth_error L lid = Some (mkLD k e0) -> (k = 0 \/ e0 = entry) -> (hi <= length L)%nat ->
        chain dg fwd exit (leq_out lid hi L) c l (Qback L G B).
      Proof.
        pose proof (emit_extends _ _ _ _ _ _ _ _ Eb) as (Lx & _ & _). rewrite Hlid in Lx.
        induction lf as [|lf IH]; intros k entry pos G l c L B e0 Hr Hng Hld Hstep HL Hke Hlen; [discriminate|].
        assert (Hll : (lid < length L)%nat) by lia.
        cbn [loop_results fst snd] in Hr. unfold bt_run_loop in Hstep. rewrite HL in Hstep. cbn [ld_iters ld_entry] in Hstep.
        assert (Hchk : ((e0 =? pos)%nat && (mn <? k)) = ((0 <? k) && (mn <? k) && (entry =? pos)%nat)).
        { destruct (mn <? k) eqn:Emk; [|rewrite !andb_false_r; reflexivity].
          apply N.ltb_lt in Emk. replace (0 <? k) with true by (symmetry; apply N.ltb_lt; lia).
          destruct Hke as [-> | ->]; [lia|]. rewrite andb_true_r. reflexivity. }
        rewrite Hchk in Hstep.
        destruct ((0 <? k) && (mn <? k) && (entry =? pos)%nat).
        { inversion Hr; subst l. eapply chain_none; [apply leads_step; eauto|apply leq_refl]. }
        fold MX in Hr.
        set (ld := mkLD k e0) in *.
        (* running one more iteration from a state whose counter says k+1 *)
        assert (Hiter : forall it L2 Bx,
                  match reset_groups G egs (ege - egs) with
                  | None => None
                  | Some g1 => match ir_results ix (p_unicode prog) utf16 h f body fwd (pos, g1) with
                               | None => None
                               | Some zs => obindm (loop_results (ir_results ix (p_unicode prog) utf16 h f body fwd) mn mx gr egs ege lf (k + 1) pos) zs
                               end
                  end = Some it ->
                  nth_error L2 lid = Some (mkLD (k + 1) pos) -> leq_out lid hi L L2 ->
                  chain dg fwd exit (leq_out lid hi L) (RC (S off) pos L2 G Bx) it (Qback L2 G Bx)).
        { intros it L2 Bx Hit HL2 HLL2.
          assert (Hlen2 : length L = length L2) by (destruct HLL2; assumption).
          destruct (reset_groups G egs (ege - egs)) as [g1|] eqn:Erg; [|discriminate].
          destruct (ir_results ix (p_unicode prog) utf16 h f body fwd (pos, g1)) as [zs|] eqn:Ez; [|discriminate].
          destruct (bt_resets fwd (ege - egs) egs G g1 (S off) pos L2 Bx Erg Hc_resets) as (B' & Hr1 & Hr2).
          assert (Hboff : (S off + (ege - egs))%nat = (off + 1 + length resets)%nat).
          { unfold resets. rewrite map_length, seq_length. lia. }
          rewrite Hboff in Hr1.
          assert (Hng1 : (ng <= length g1)%nat) by (rewrite (len_reset _ _ _ _ Erg); exact Hng).
          assert (Hdb' : dgx dg body (es_next_loop es1)) by (rewrite Hlid; exact Hdb).
          pose proof (IHf dg body fwd (off + 1 + length resets)%nat es1 cb eb pos g1 zs ng Hwb Hng1 Hdb' Ez Eb Hc_body Hbr L2 B') as Hbody.
          rewrite Hlid in Hbody. rewrite <- Hagain in Hbody. specialize (Hbody ltac:(lia)).
          eapply chain_leads; [exact Hr1|].
          rewrite <- (app_nil_r it). eapply chain_app.
          - eapply (chain_bind ix prog h dg fwd again exit _ _ _ (fun y => (ng <= length (snd y))%nat) _ zs _ Hbody); [| |exact Hit].
            + pose proof (ir_len ix (p_unicode prog) utf16 h f body fwd pos g1 zs Ez) as Hl.
              eapply Forall_impl; [|exact Hl]. intros z Hz. simpl in Hz. rewrite Hz. exact Hng1.
            + intros [q Gq] Lu Bu r Hq Hfr Hrr. cbn [fst snd] in *.
              assert (HlenU : length L2 = length Lu) by (destruct Hfr; assumption).
              assert (HLu : nth_error Lu lid = Some (mkLD (k + 1) pos)).
              { destruct Hfr as [_ Hfr]. rewrite <- Hfr; [exact HL2|exact Hdl|lia]. }
              eapply chain_weaken; [| |eapply (IH (k + 1) pos q Gq r (RC again q Lu Gq Bu) Lu Bu pos Hrr Hq)]; try lia; auto.
              * intros L' HL'. eapply leq_out_trans; [exact HLL2|]. eapply leq_out_trans; [|exact HL'].
                eapply leq_out_widen; [| |exact Hfr]; lia.
              * unfold blook_dir. simpl. rewrite Hi_again. reflexivity.
              * unfold bt_next. simpl. unfold bt_exec. rewrite Hi_again, Hi_enter. reflexivity.
          - intros cf (L' & -> & HL'). eapply (ch_nil ix prog h dg fwd exit _ _ _ (BK L' G Bx)); [exists L'; auto|apply Hr2]. }
        assert (HL2 : nth_error (set_nth lid (mkLD (k + 1) pos) L) lid = Some (mkLD (k + 1) pos)) by (apply nth_error_set_nth_eq; exact Hll).
        assert (HLL2 : leq_out lid hi L (set_nth lid (mkLD (k + 1) pos) L)).
        { split; [symmetry; apply set_nth_length|]. intros i Hi Hr'. symmetry. apply nth_error_set_nth_neq. lia. }
        set (L2 := set_nth lid (mkLD (k + 1) pos) L) in *.
        assert (Hback_ld : forall L' Bz, leq L2 L' -> leads fwd (BK L' G (BSetLoopData lid ld :: Bz)) (BK (set_nth lid ld L') G Bz) /\ leq L (set_nth lid ld L')).
        { intros L' Bz HL'. split.
          - apply back_step. unfold bt_back.
            assert (Hid : (lid <? length L')%nat = true).
            { apply Nat.ltb_lt. destruct HL' as [Hl' _]. unfold L2 in Hl'. rewrite set_nth_length in Hl'. lia. }
            rewrite Hid. reflexivity.
          - eapply leq_restore; eauto. }
        destruct (k <? MX) eqn:Een, (mn <=? k) eqn:Esk; cbn [negb andb] in Hr.
        - (* both possible *)
          match type of Hr with match ?itx with _ => _ end = _ => destruct itx as [it|] eqn:Eit; [|discriminate] end.
          inversion Hr; subst l. clear Hr.
          destruct gr.
          + (* greedy: iterate, the exit continuation is a BSetPosition record *)
            eapply chain_leads; [apply leads_step; [exact Hld|exact Hstep]|].
            eapply chain_app; [apply (Hiter it L2 _ eq_refl HL2 HLL2)|].
            intros cf (L' & -> & HL').
            destruct (Hback_ld L' (BSetPosition exit pos :: B) HL') as [Hb1 Hb2].
            eapply chain_leads; [exact Hb1|].
            eapply chain_leads; [apply back_step; reflexivity|].
            eapply chain_weaken; [intros L0 H0; exact H0| |apply (chain_single ix prog h dg fwd exit _ _ pos (set_nth lid ld L') G B (leads_refl _ _ _ _ _)); apply leq_leq_out; exact Hb2].
            intros cf Hcf. eapply Qback_weaken; eauto.
          + (* lazy: leave first; the record re-enters the loop *)
            set (ld' := mkLD k pos) in *.
            eapply (ch_cons ix prog h dg fwd exit _ _ (pos, G) it _ (set_nth lid ld' L) (BEnterNonGreedyLoop off e0 ld' :: B)).
            * cbn [fst snd]. apply leads_step; [exact Hld|exact Hstep].
            * split; [symmetry; apply set_nth_length|]. intros i Hi Hr'. symmetry. apply nth_error_set_nth_neq. lia.
            * intros L'' HL''. cbn [snd].
              assert (Hlen'' : length L = length L'') by (destruct HL'' as [Hl _]; rewrite set_nth_length in Hl; exact Hl).
              set (L2'' := set_nth lid (mkLD (k + 1) pos) L'').
              eapply chain_leads.
              { apply back_step. unfold bt_back. rewrite Hi_enter.
                assert (Hid : (lid <? length L'')%nat = true) by (apply Nat.ltb_lt; lia). rewrite Hid. reflexivity. }
              cbn [ld_iters ld_entry ld'].
              assert (HL2'' : nth_error L2'' lid = Some (mkLD (k + 1) pos)) by (apply nth_error_set_nth_eq; lia).
              assert (HLL2'' : leq_out lid hi L L2'').
              { split; [unfold L2''; rewrite set_nth_length; exact Hlen''|].
                intros i Hi Hr'. unfold L2''. rewrite nth_error_set_nth_neq by lia.
                destruct HL'' as [_ H2]. rewrite <- H2 by exact Hi. rewrite nth_error_set_nth_neq by lia. reflexivity. }
              rewrite <- (app_nil_r it). eapply chain_app; [apply (Hiter it L2'' _ eq_refl HL2'' HLL2'')|].
              intros cf (L3 & -> & HL3).
              assert (Hlen3 : length L = length L3) by (destruct HL3 as [Hl _]; unfold L2'' in Hl; rewrite set_nth_length in Hl; lia).
              eapply (ch_nil ix prog h dg fwd exit _ _ _ (BK (set_nth lid ld (set_nth lid ld' L3)) G B)).
              -- exists (set_nth lid ld (set_nth lid ld' L3)). split; [reflexivity|].
                 split; [rewrite !set_nth_length; lia|].
                 intros i Hi. destruct (Nat.eq_dec i lid) as [->|Hne].
                 ++ rewrite nth_error_set_nth_eq by (rewrite set_nth_length; lia). exact HL.
                 ++ rewrite !nth_error_set_nth_neq by auto.
                    destruct HL3 as [_ H3]. rewrite <- H3 by exact Hi. unfold L2''. rewrite nth_error_set_nth_neq by auto.
                    destruct HL'' as [_ H2]. rewrite <- H2 by exact Hi. rewrite nth_error_set_nth_neq by auto. reflexivity.
              -- eapply leads_trans.
                 ++ apply back_step. unfold bt_back.
                    assert (Hid : (lid <? length L3)%nat = true) by (apply Nat.ltb_lt; lia). rewrite Hid. reflexivity.
                 ++ apply back_step. unfold bt_back. rewrite set_nth_length.
                    assert (Hid : (lid <? length L3)%nat = true) by (apply Nat.ltb_lt; lia). rewrite Hid. reflexivity.
        - (* must iterate *)
          eapply chain_leads; [apply leads_step; [exact Hld|exact Hstep]|].
          rewrite <- (app_nil_r l). eapply chain_app; [apply (Hiter l L2 _ Hr HL2 HLL2)|].
          intros cf (L' & -> & HL').
          destruct (Hback_ld L' B HL') as [Hb1 Hb2].
          eapply (ch_nil ix prog h dg fwd exit _ _ _ (BK (set_nth lid ld L') G B)); [exists (set_nth lid ld L'); auto|exact Hb1].
        - (* must leave *)
          inversion Hr; subst l.
          apply chain_single; [apply leads_step; [exact Hld|exact Hstep]|apply leq_leq_out, leq_refl].
        - inversion Hr; subst l. eapply chain_none; [apply leads_step; [exact Hld|exact Hstep]|apply leq_refl].
      Qed.
    End BLoop.

    Lemma bt_loop fwd ng body mn mx gr egs ege off es code es' pos G l :
      bt_wf ng (NLoop body mn mx gr egs ege) = true -> (ng <= length G)%nat -> dgx dg (NLoop body mn mx gr egs ege) (es_next_loop es) ->
      ir_results ix (p_unicode prog) utf16 h (S f) (NLoop body mn mx gr egs ege) fwd (pos, G) = Some l ->
      emit_node utf16 (p_unicode prog) (NLoop body mn mx gr egs ege) off (negb fwd) es = Ok (code, es') ->
      code_at prog off code -> brackets_ok prog es' ->
      forall L B, (es_next_loop es' <= length L)%nat ->
      chain dg fwd (off + length code) (leq_out (es_next_loop es) (es_next_loop es') L) (RC off pos L G B) l (Qback L G B).
    Proof.
      intros Hwf Hng Hdg Hr He Hc Hbr L B Hlen.
      simpl in Hwf. apply dgx_loop in Hdg as [Hdl Hdb]. cbn [ir_results] in Hr.
      simpl in He.
      match type of He with (do rb <- emit_node _ _ _ ?o _ ?e1; _) = _ => set (es1 := e1) in *; set (boff := o) in * end.
      destruct (emit_node utf16 (p_unicode prog) body boff (negb fwd) es1) as [e|[cb eb]] eqn:Eb; simpl in He; [discriminate|].
      inversion He; subst code es'. clear He.
      apply code_at_cons in Hc as [Hi0 Hc]. apply code_at_app in Hc as [Hcr Hc]. apply code_at_app in Hc as [Hcb Hca].
      apply code_at_cons in Hca as [Hia _].
      set (resets := map ResetCG (seq egs (ege - egs))) in *.
      set (exit := (off + 1 + length resets + length cb + 1)%nat) in *.
      match goal with |- chain _ _ ?e _ _ _ _ =>
        replace e with exit by (unfold exit, boff; simpl; rewrite !app_length; simpl; lia) end.
      set (lid := es_next_loop es) in *.
      pose proof (emit_extends _ _ _ _ _ _ _ _ Eb) as (Lx & _ & _). simpl in Lx.
      assert (Hll : (lid < length L)%nat) by lia.
      destruct (nth_error L lid) as [ld0|] eqn:Eld; [|apply nth_error_None in Eld; lia].
      set (L1 := set_nth lid (mkLD 0 (ld_entry ld0)) L).
      set (B1 := BSetLoopData lid ld0 :: B).
      assert (HL1 : nth_error L1 lid = Some (mkLD 0 (ld_entry ld0))) by (apply nth_error_set_nth_eq; exact Hll).
      assert (HLL1 : leq_out lid (es_next_loop eb) L L1).
      { split; [symmetry; apply set_nth_length|]. intros i Hi Hr'. symmetry. apply nth_error_set_nth_neq. lia. }
      replace (S off + length resets)%nat with (off + 1 + length resets)%nat in Hcb by lia.
      replace (S off + length resets + length cb)%nat with (off + 1 + length resets + length cb)%nat in Hia by lia.
      pose proof (bloop_dec fwd body mn mx gr egs ege off lid exit (off + 1 + length resets + length cb)%nat ng es1 eb cb
                            Hwf Hdb Hdl Hi0 Hcr Hcb eq_refl Hia Eb Hbr eq_refl) as Hdec.
      rewrite <- (app_nil_r l). eapply chain_app.
      - eapply chain_weaken; [| |eapply (Hdec f 0 pos pos G l (RC off pos L G B) L1 B1 (ld_entry ld0) Hr Hng)]; auto.
        + intros L' HL'. eapply leq_out_trans; [exact HLL1|exact HL'].
        + intros cf Hcf. exact Hcf.
        + unfold blook_dir. simpl. rewrite Hi0. reflexivity.
        + unfold bt_next. simpl. unfold bt_exec. rewrite Hi0, Eld. reflexivity.
        + unfold L1. rewrite set_nth_length. exact Hlen.
      - intros cf (L' & -> & HL').
        eapply (ch_nil ix prog h dg fwd exit _ _ _ (BK (set_nth lid ld0 L') G B)).
        + exists (set_nth lid ld0 L'). split; [reflexivity|]. eapply leq_restore; eauto.
        + apply back_step. unfold B1, bt_back.
          assert (Hid : (lid <? length L')%nat = true).
          { apply Nat.ltb_lt. destruct HL' as [Hl' _]. unfold L1 in Hl'. rewrite set_nth_length in Hl'. lia. }
          rewrite Hid. reflexivity.
    Qed.

    (* ---------------- lookarounds ---------------- *)
    Lemma push_undo_leads fwd L'' sg0 : forall saved k0 Gc B, (sg0 + k0 + length saved <= length Gc)%nat ->
      leads fwd (BK L'' Gc (fold_left (fun acc x => BSetCaptureGroup (sg0 + fst x) (snd x) :: acc)
                                     (combine (seq k0 (length saved)) saved) B))
                (BK L'' (overwrite Gc (sg0 + k0) saved) B).
    Proof.
      induction saved as [|s0 t IH]; intros k0 Gc B Hlen.
      - simpl. apply leads_refl.
      - cbn [length seq combine fold_left fst snd overwrite]. simpl in Hlen.
        eapply leads_trans; [apply (IH (S k0) Gc (BSetCaptureGroup (sg0 + k0) s0 :: B)); lia|].
        apply back_step. unfold bt_back. rewrite overwrite_length.
        assert (Hid : (sg0 + k0 <? length Gc)%nat = true) by (apply Nat.ltb_lt; lia). rewrite Hid.
        replace (sg0 + S k0)%nat with (S (sg0 + k0)) by lia. reflexivity.
    Qed.

    Lemma bt_look fwd ngr neg bw sg eg c off es code es' pos G l :
      bt_wf ngr (NLookaround neg bw sg eg c) = true -> (ngr <= length G)%nat -> dgx dg (NLookaround neg bw sg eg c) (es_next_loop es) ->
      ir_results ix (p_unicode prog) utf16 h (S f) (NLookaround neg bw sg eg c) fwd (pos, G) = Some l ->
      emit_node utf16 (p_unicode prog) (NLookaround neg bw sg eg c) off (negb fwd) es = Ok (code, es') ->
      code_at prog off code -> brackets_ok prog es' ->
      forall L B, (es_next_loop es' <= length L)%nat ->
      chain dg fwd (off + length code) (leq_out (es_next_loop es) (es_next_loop es') L) (RC off pos L G B) l (Qback L G B).
    Proof.
      intros Hwf Hng Hdg Hr He Hc Hbr L B Hlen.
      simpl in Hwf. apply andb_true_iff in Hwf as [Hwf Hwc]. apply andb_true_iff in Hwf as [Hwf Hcaps].
      apply andb_true_iff in Hwf as [Hsg Heg]. apply Nat.leb_le in Hsg. apply Nat.leb_le in Heg.
      pose proof (dgx_look _ _ _ _ _ _ Hdg) as Hdin.
      cbn [ir_results] in Hr.
      destruct (ir_results ix (p_unicode prog) utf16 h f c (negb bw) (pos, G)) as [lc|] eqn:Ec; [|discriminate].
      simpl in He.
      destruct (emit_node utf16 (p_unicode prog) c (S off) bw es) as [e|[cc ec]] eqn:Eem; simpl in He; [discriminate|].
      inversion He; subst code es'. clear He.
      apply code_at_cons in Hc as [Hi0 Hc]. apply code_at_app in Hc as [Hcc Hce]. apply code_at_cons in Hce as [Hie _].
      pose proof (emit_extends _ _ _ _ _ _ _ _ Eem) as (L1x & _ & _).
      pose proof (emit_nloops _ _ _ _ _ _ _ _ Eem) as Hnl.
      set (lo := es_next_loop es) in *. set (hi := es_next_loop ec) in *.
      set (cont := (off + 1 + length cc + 1)%nat) in *.
      match goal with |- chain _ _ ?e _ _ _ _ =>
        replace e with cont by (unfold cont; simpl; rewrite app_length; simpl; lia) end.
      (* the nested attempt, with the slots of lookarounds inside c as its own don't-care set *)
      set (dg' := fun i => lslot i c lo).
      assert (Hdg' : dgx dg' c lo) by (intros i Hi; reflexivity).
      assert (Eem' : emit_node utf16 (p_unicode prog) c (S off) (negb (negb bw)) es = Ok (cc, ec))
        by (rewrite Bool.negb_involutive; exact Eem).
      pose proof (IHf dg' c (negb bw) (S off) es cc ec pos G lc ngr Hwc Hng Hdg' Ec Eem' Hcc Hbr L [BExhausted] Hlen) as Hch.
      assert (Hconv : forall L', BTCorrect.leq_out dg' lo hi L L' -> leq L L').
      { intros L' [H1 H2]. split; [exact H1|]. intros i Hi.
        destruct (Nat.lt_ge_cases i lo) as [Hlt|Hge]; [apply H2; [apply lslot_out; lia|lia]|].
        destruct (Nat.lt_ge_cases i hi) as [Hlt2|Hge2]; [|apply H2; [apply lslot_out; unfold hi in Hge2; lia|lia]].
        rewrite Hdin in Hi by (unfold hi in Hlt2; lia). discriminate. }
      assert (Hld : blook_dir prog (RC off pos L G B) = Some (negb bw)).
      { unfold blook_dir. simpl. rewrite Hi0. destruct bw; reflexivity. }
      assert (Hguard : ((eg <? sg)%nat || (length G <? eg)%nat) = false).
      { apply orb_false_iff. split; apply Nat.ltb_ge; lia. }
      assert (Hexec : forall nres, bt_next ix prog h nres fwd (RC off pos L G B) =
                                   bt_lookaround nres L G B pos neg sg eg cont).
      { intro nres. unfold bt_next. simpl. unfold bt_exec. rewrite Hi0. destruct bw; reflexivity. }
      set (saved := slice G sg eg) in *.
      assert (Hegl : (eg <= length G)%nat) by lia.
      inversion Hch as [c0 Q0 cf Hq Hl0 Hc0 Hl Hq0 | c0 y ys Q0 L1 B1 Hl1 Hfr Hres Hc0 Hl Hq0]; subst.
      - (* the contents do not match *)
        destruct Hq as (L' & -> & HL').
        assert (HLL' : leq L L') by (apply Hconv; apply BTCorrect.leq_leq_out; exact HL').
        assert (Hden : BDen ix prog h (negb bw) (nested_conf (RC off pos L G B)) (BNoMatch L' G)).
        { apply Hl0. eapply (BD_done ix prog h (negb bw) _ BBudget); [constructor; reflexivity|reflexivity]. }
        assert (Hstep : bt_next ix prog h (BNoMatch L' G) fwd (RC off pos L G B) =
                        BSNext (if neg then RC cont pos L' G B else BK L' G B)).
        { rewrite Hexec. unfold bt_lookaround. rewrite Hguard. unfold saved.
          rewrite (splice_slice G G sg eg Hsg Hegl eq_refl (fun i _ => eq_refl)). destruct neg; reflexivity. }
        destruct neg; inversion Hr; subst l.
        + eapply chain_weaken; [intros L0 H0; exact H0| |apply (chain_single ix prog h dg fwd cont _ _ pos L' G B)].
          * intros cf Hcf. eapply Qback_weaken; eauto.
          * eapply leads_look; eauto.
          * apply leq_leq_out. exact HLL'.
        + eapply chain_none; [eapply leads_look; eauto|exact HLL'].
      - (* the contents match: the first success ends the nested attempt *)
        destruct y as [py Gy]. cbn [fst snd] in *.
        assert (HLL1 : leq L L1) by (apply Hconv; exact Hfr).
        assert (Hden : BDen ix prog h (negb bw) (nested_conf (RC off pos L G B)) (BMatched py L1 Gy)).
        { apply Hl1. eapply (BD_done ix prog h (negb bw) _ BBudget).
          - constructor. unfold blook_dir. cbn [bc_mode]. rewrite Hie. reflexivity.
          - unfold bt_next. cbn [bc_mode bc_loops bc_groups bc_bts]. unfold bt_exec. rewrite Hie. reflexivity. }
        pose proof (ir_gframe ix (p_unicode prog) utf16 h sg eg f c (negb bw) pos G _ Hcaps Ec) as Hgf.
        pose proof (Forall_inv Hgf) as [Hgl Hgo]. cbn [snd] in Hgl, Hgo.
        assert (Hstep : bt_next ix prog h (BMatched py L1 Gy) fwd (RC off pos L G B) =
                        BSNext (if neg then BK L1 G B else RC cont pos L1 Gy (push_undo_groups sg saved B))).
        { rewrite Hexec. unfold bt_lookaround. rewrite Hguard. unfold saved.
          rewrite (splice_slice G Gy sg eg Hsg Hegl Hgl Hgo). destruct neg; reflexivity. }
        destruct neg; inversion Hr; subst l.
        + eapply chain_none; [eapply leads_look; eauto|exact HLL1].
        + eapply (ch_cons ix prog h dg fwd cont _ _ (pos, Gy) [] _ L1 (push_undo_groups sg saved B)).
          * cbn [fst snd]. eapply leads_look; eauto.
          * apply leq_leq_out. exact HLL1.
          * intros L'' HL''. cbn [snd].
            eapply (ch_nil ix prog h dg fwd cont _ _ _ (BK L'' G B)).
            -- exists L''. split; [reflexivity|]. eapply leq_trans; eauto.
            -- unfold push_undo_groups.
               pose proof (push_undo_leads fwd L'' sg saved 0 Gy B) as Hu.
               rewrite Nat.add_0_r in Hu. unfold saved in Hu. rewrite (overwrite_slice G Gy sg eg Hsg Hegl Hgl Hgo) in Hu.
               unfold saved. apply Hu. rewrite slice_length by lia. lia.
    Qed.

    (* ---------------- class-set strings ---------------- *)
    Lemma bt_strset fwd icase pos G lo hi : forall alts off endoff code l L B,
      emit_string_set utf16 (p_unicode prog) (negb fwd) alts icase off endoff = Ok code ->
      endoff = (off + length code)%nat -> code_at prog off code ->
      strset_results ix (p_unicode prog) utf16 h alts icase fwd (pos, G) = Some l ->
      chain dg fwd endoff (leq_out lo hi L) (RC off pos L G B) l (Qback L G B).
    Proof.
      induction alts as [|a alts IH]; intros off endoff code l L B He Hend Hc Hr.
      - simpl in He, Hr. inversion He; inversion Hr; subst code l. apply code_at_cons in Hc as [Hi _].
        eapply chain_none; [|apply leq_refl].
        eapply (run_step ix prog h fwd off pos L G B JustFail); [exact Hi|reflexivity|].
        unfold bt_exec. rewrite Hi. reflexivity.
      - unfold strset_results in Hr. cbn [obindm] in Hr.
        assert (Hu : utf16 = false) by (destruct utf16; [discriminate Hr|reflexivity]).
        rewrite Hu in Hr.
        destruct (lower_code_point_sequence a icase (p_unicode prog)) as [pieces|] eqn:El; [|discriminate].
        match type of Hr with match ?r with _ => _ end = _ => destruct r as [ra|] eqn:Era; [|discriminate] end.
        match type of Hr with match ?r with _ => _ end = _ => destruct r as [rrest|] eqn:Erest; [|discriminate] end.
        inversion Hr; subst l. clear Hr. cbn [fst] in Era.
        destruct alts as [|b rest].
        + cbn [emit_string_set] in He. simpl in Erest. inversion Erest; subst rrest. rewrite app_nil_r.
          destruct (cp_sequence_code ix prog h utf16 fwd a icase code pieces Hu He El) as (Hs & Hrun).
          rewrite Hrun in Era. apply results_of_inv in Era as (q & Hq & ->). subst endoff.
          apply (bt_leaf dg fwd code off pos G q lo hi L B Hc Hs Hq).
        + rewrite emit_string_set_cons2 in He.
          destruct (emit_cp_sequence utf16 (p_unicode prog) (negb fwd) a icase) as [e|ca] eqn:Eca; cbn [bindR] in He; [discriminate|].
          set (next := (off + 2 + length ca)%nat) in *.
          destruct (emit_string_set utf16 (p_unicode prog) (negb fwd) (b :: rest) icase next endoff) as [e|r] eqn:Er; cbn [bindR] in He; [discriminate|].
          inversion He; subst code. clear He.
          apply code_at_cons in Hc as [Hi0 Hc]. apply code_at_app in Hc as [Hca Hc]. apply code_at_cons in Hc as [Hij Hcr].
          destruct (cp_sequence_code ix prog h utf16 fwd a icase ca pieces Hu Eca El) as (Hs & Hrun).
          rewrite Hrun in Era. apply results_of_inv in Era as (q & Hq & ->).
          assert (Hendr : endoff = (next + length r)%nat).
          { rewrite Hend. unfold next. simpl. rewrite app_length. simpl. lia. }
          assert (Hcr' : code_at prog next r).
          { replace next with (S (S off + length ca)) by (unfold next; lia). exact Hcr. }
          set (B' := BSetPosition next pos :: B).
          eapply chain_leads.
          { eapply (run_step ix prog h fwd off pos L G B (Alt next)); [exact Hi0|reflexivity|].
            unfold bt_exec. rewrite Hi0. reflexivity. }
          fold B'. eapply chain_app.
          * eapply (chain_retarget ix prog h dg fwd (S off + length ca)%nat endoff).
            -- intros p' L' G' B0. eapply (run_step ix prog h fwd _ p' L' G' B0 (Jump endoff)); [exact Hij|reflexivity|].
               unfold bt_exec. rewrite Hij. reflexivity.
            -- apply (bt_leaf dg fwd ca (S off) pos G q lo hi L B' Hca Hs Hq).
          * intros cf (L' & -> & HL).
            eapply chain_leads; [apply back_step; unfold B'; reflexivity|].
            eapply chain_weaken; [| |eapply (IH next endoff r rrest L' B Er Hendr Hcr')].
            -- intros L2 HL2. eapply leq_out_trans; [apply leq_leq_out; exact HL|exact HL2].
            -- intros cf Hcf. eapply Qback_weaken; eauto.
            -- unfold strset_results. rewrite Hu. exact Erest.
    Qed.

    (* leaves through their emitted code *)
    Lemma bt_leaf' n fwd off es code es' pos G l L B : leaf_code (negb fwd) n <> None ->
      (forall p gs, ir_results ix (p_unicode prog) utf16 h (S f) n fwd (p, gs) =
                    match leaf_code (negb fwd) n with
                    | Some c => results_of (p, gs) (run_insns ix (p_unicode prog) h c fwd p) | None => None end) ->
      ir_results ix (p_unicode prog) utf16 h (S f) n fwd (pos, G) = Some l ->
      emit_node utf16 (p_unicode prog) n off (negb fwd) es = Ok (code, es') ->
      code_at prog off code ->
      chain dg fwd (off + length code) (leq_out (es_next_loop es) (es_next_loop es') L) (RC off pos L G B) l (Qback L G B).
    Proof.
      intros Hl Hshape Hr He Hc.
      destruct (leaf_code (negb fwd) n) as [c|] eqn:El; [|congruence].
      pose proof (emit_leaf prog utf16 n (negb fwd) es off c El) as He'. rewrite He in He'. inversion He'; subst c es'.
      rewrite Hshape in Hr. change (results_of (pos, G) (run_insns ix (p_unicode prog) h code fwd pos) = Some l) in Hr.
      apply results_of_inv in Hr as (q & Hq & ->).
      apply (bt_leaf dg fwd code off pos G q _ _ L B Hc (leaf_code_simple _ _ _ El) Hq).
    Qed.
  End Cases.

  Theorem ball_ok : forall f, bnode_ok f.
  Proof.
    induction f as [|f IHf]; intros dg n fwd off es code es' pos G l ng Hwf Hng Hdg Hr He Hc Hbr L B Hlen.
    - discriminate Hr.
    - destruct n as [ | |c|bs|bs|cs|l0|a b| | |sol ml|inv ui|id c nm|g ic|b|alts icase|neg bw sg eg c|body mn mx gr egs ege|body mn mx gr].
      + (* Empty *)
        simpl in Hr, He. inversion Hr; inversion He; subst. simpl. rewrite Nat.add_0_r.
        apply chain_single; [apply leads_refl|apply leq_leq_out, leq_refl].
      + discriminate Hwf.
      + eapply bt_leaf'; eauto; [discriminate | intros; reflexivity].
      + eapply bt_leaf'; eauto; [discriminate | intros; reflexivity].
      + destruct (emit_byte_set bs) as [e|cbs] eqn:Eb; [simpl in He; rewrite Eb in He; discriminate|].
        eapply bt_leaf'; eauto; [simpl; rewrite Eb; discriminate | intros; reflexivity].
      + destruct (emit_char_set cs) as [e|ccs] eqn:Eb; [simpl in He; rewrite Eb in He; discriminate|].
        eapply bt_leaf'; eauto; [simpl; rewrite Eb; discriminate | intros; reflexivity].
      + (* Cat *)
        cbn [ir_results] in Hr.
        eapply chain_weaken; [| |eapply (bt_cat f IHf dg fwd ng l0 off es code es' [(pos, G)] l (RC off pos L G B) (Qback dg L G B) (es_next_loop es) L Hwf Hdg Hr He Hc Hbr)]; auto.
        apply chain_single; [apply leads_refl|apply leq_leq_out, leq_refl].
      + eapply (bt_alt f IHf dg fwd ng a b); eauto.
      + eapply bt_leaf'; eauto; [discriminate | intros; reflexivity].
      + eapply bt_leaf'; eauto; [discriminate | intros; reflexivity].
      + (* Anchor *)
        cbn [ir_results] in Hr. simpl in He. inversion He; subst code es'. clear He.
        apply code_at_cons in Hc as [Hi _].
        replace (off + length [if sol then StartOfLine ml else EndOfLine ml])%nat with (S off) by (simpl; lia).
        eapply (bt_cond dg fwd off pos G _ l); eauto.
        * destruct sol; reflexivity.
        * unfold bt_exec. rewrite Hi. destruct sol; [destruct (start_of_line ix ml h pos) as [e|[|]]|destruct (end_of_line ix ml h pos) as [e|[|]]]; reflexivity.
      + (* WordBoundary *)
        cbn [ir_results] in Hr. simpl in He. inversion He; subst code es'. clear He.
        apply code_at_cons in Hc as [Hi _].
        replace (off + length [if ui then WordBoundaryUnicodeICase inv else WordBoundary inv])%nat with (S off) by (simpl; lia).
        eapply (bt_cond dg fwd off pos G (do b <- word_boundary ix ui h pos; Ok (negb (Bool.eqb b inv))) l); eauto.
        * destruct ui; reflexivity.
        * unfold bt_exec. rewrite Hi. destruct ui; destruct (word_boundary ix _ h pos) as [e|bb]; try reflexivity;
            cbn [bindR]; destruct (negb (Bool.eqb bb inv)); reflexivity.
      + eapply (bt_group f IHf dg fwd ng id c nm); eauto.
      + (* BackRef *)
        cbn [ir_results] in Hr. simpl in He.
        destruct (g =? 0) eqn:Eg; [discriminate|]. inversion He; subst code es'. clear He.
        apply code_at_cons in Hc as [Hi _].
        replace (off + length [BackRef (N.to_nat (g - 1)) ic])%nat with (S off) by (simpl; lia).
        destruct (nth_error G (N.to_nat (g - 1))) as [gd|] eqn:Egd; [|discriminate].
        destruct (gd_range gd) as [[rs re]|] eqn:Er.
        * rewrite <- (backref_match_prog ix h prog (dummy_prog (p_unicode prog))) in Hr by reflexivity.
          assert (Hx : bt_exec ix prog h BBudget L G B fwd off pos =
                       match backref_match ix prog ic fwd h pos rs re with
                       | Err e => BSDone (BError e) | Ok (Some p') => BSNext (RC (S off) p' L G B) | Ok None => BSNext (BK L G B) end).
          { unfold bt_exec. rewrite Hi, Egd, Er. destruct (backref_match ix prog ic fwd h pos rs re) as [e|[p'|]]; reflexivity. }
          eapply (bt_adv dg fwd off pos G (backref_match ix prog ic fwd h pos rs re) l _ _ _ L B Hi eq_refl Hx Hr).
        * assert (Hx : bt_exec ix prog h BBudget L G B fwd off pos =
                       match (Ok true : R bool) with
                       | Err e => BSDone (BError e) | Ok true => BSNext (RC (S off) pos L G B) | Ok false => BSNext (BK L G B) end).
          { unfold bt_exec. rewrite Hi, Egd, Er. reflexivity. }
          eapply (bt_cond dg fwd off pos G (Ok true) l _ _ _ L B Hi eq_refl Hx). simpl. exact Hr.
      + (* Bracket *)
        destruct (bracket_as_ascii b) as [bm|] eqn:Eb.
        * eapply bt_leaf'; eauto.
          -- simpl. rewrite Eb. discriminate.
          -- intros p gs. simpl. rewrite Eb. reflexivity.
        * cbn [ir_results] in Hr. rewrite Eb in Hr.
          simpl in He. rewrite Eb in He. inversion He; subst code es'. clear He.
          apply code_at_cons in Hc as [Hi _].
          assert (Hnb : nth_error (p_brackets prog) (length (es_brackets es)) = Some b).
          { apply Hbr. simpl. rewrite nth_error_app2 by lia. rewrite Nat.sub_diag. reflexivity. }
          replace (off + length [Bracket (length (es_brackets es))])%nat with (S off) by (simpl; lia).
          eapply (bt_adv dg fwd off pos G (next_if ix fwd h pos (bracket_matches b)) l); eauto.
          unfold bt_exec. rewrite Hi. cbn [match1]. rewrite Hnb.
          destruct (next_if ix fwd h pos (bracket_matches b)) as [e|[p'|]]; reflexivity.
      + (* StringSet *)
        cbn [ir_results] in Hr. simpl in He.
        destruct (string_set_len utf16 (p_unicode prog) (negb fwd) alts icase) as [e|len] eqn:Elen; cbn [bindR] in He; [discriminate|].
        destruct (emit_string_set utf16 (p_unicode prog) (negb fwd) alts icase off (off + len)) as [e|cs0] eqn:Ec; cbn [bindR] in He; [discriminate|].
        inversion He; subst code es'. clear He.
        pose proof (string_set_len_ok prog utf16 _ _ _ _ _ _ _ Ec Elen) as Hl. rewrite <- Hl in Ec.
        eapply (bt_strset dg fwd icase pos G); eauto.
      + eapply (bt_look f IHf dg fwd ng neg bw sg eg c); eauto.
      + eapply (bt_loop f IHf dg fwd ng body mn mx gr egs ege); eauto.
      + eapply (bt_l1 dg f fwd ng body mn mx gr); eauto.
  Qed.
End BNodes.
