(* BTCorrect.v — the backtracking model executes the code emit produces for an IR node as the ordered list
   of successes of the IR semantics: each success is reached in turn (continuing behind the node with the
   success's position and captures), backtracking into the records the node left on the stack resumes with the
   next success, and after the last one the machine is back in backtrack mode with the captures, the stack and
   (up to loop slots that only lookaround bodies use) the loop data it started with. *)
From RV Require Import Base.
From RV.Model Require Import Utf8 Indexer CodePointSet Insn IR Optimizer Unfold Emit Pike BT.
From RV.Spec Require Import IRSem.
From RV.Proofs Require Import NodeInd BTDen.

Section BCorrect.
  Variable ix : indexer.
  Variable prog : program.
  Variable h : hay.
  Variable utf16 : bool.
  (* loop slots that belong to lookaround bodies: a nested attempt drops its undo records, so these are not
     restored; nothing outside a nested attempt reads them *)
  Variable dg : nat -> bool.
  Notation leads := (leads ix prog h).

  Definition leq (L L' : list loopdata) : Prop :=
    length L = length L' /\ forall i, dg i = false -> nth_error L i = nth_error L' i.
  Definition leq_out (lo hi : nat) (L L' : list loopdata) : Prop :=
    length L = length L' /\ forall i, dg i = false -> (i < lo \/ hi <= i)%nat -> nth_error L i = nth_error L' i.

  Lemma leq_refl L : leq L L. Proof. split; auto. Qed.
  Lemma leq_sym L L' : leq L L' -> leq L' L.
  Proof. intros [H1 H2]. split; [congruence|]. intros i Hi. symmetry. apply H2; assumption. Qed.
  Lemma leq_trans a b c : leq a b -> leq b c -> leq a c.
  Proof. intros [A1 A2] [B1 B2]. split; [congruence|]. intros i Hi. rewrite A2 by assumption. apply B2; assumption. Qed.
  Lemma leq_leq_out lo hi L L' : leq L L' -> leq_out lo hi L L'.
  Proof. intros [H1 H2]. split; auto. Qed.
  Lemma leq_out_trans lo hi a b c : leq_out lo hi a b -> leq_out lo hi b c -> leq_out lo hi a c.
  Proof. intros [A1 A2] [B1 B2]. split; [congruence|]. intros i Hi Hr. rewrite A2 by assumption. apply B2; assumption. Qed.
  Lemma leq_out_widen lo hi lo' hi' a b : (lo' <= lo)%nat -> (hi <= hi')%nat -> leq_out lo hi a b -> leq_out lo' hi' a b.
  Proof. intros H1 H2 [A1 A2]. split; auto. intros i Hi Hr. apply A2; auto. lia. Qed.
  Lemma leq_out_dg lo hi a b : (forall i, (lo <= i < hi)%nat -> dg i = true) -> leq_out lo hi a b -> leq a b.
  Proof.
    intros Hd [A1 A2]. split; auto. intros i Hi. apply A2; auto.
    destruct (Nat.lt_ge_cases i lo); [left; assumption|]. destruct (Nat.lt_ge_cases i hi); [|right; assumption].
    rewrite Hd in Hi by lia. discriminate.
  Qed.

  (* ---------------- the chain of successes ---------------- *)
  Inductive chain (fwd : bool) (e : nat) (frame : list loopdata -> Prop) : bconf -> list mst -> (bconf -> Prop) -> Prop :=
  | ch_nil c (Q : bconf -> Prop) cf : Q cf -> leads fwd c cf -> chain fwd e frame c [] Q
  | ch_cons c y ys (Q : bconf -> Prop) L B :
      leads fwd c (mkBC (MRun e (fst y)) L (snd y) B) -> frame L ->
      (forall L', leq L L' -> chain fwd e frame (mkBC MBack L' (snd y) B) ys Q) ->
      chain fwd e frame c (y :: ys) Q.

  Lemma chain_leads fwd e fr c c' ys Q : leads fwd c c' -> chain fwd e fr c' ys Q -> chain fwd e fr c ys Q.
  Proof.
    intros Hl Hc. destruct Hc as [c' Q cf Hq H1 | c' y ys Q L B H1 H2 H3].
    - eapply ch_nil; eauto. eapply leads_trans; eauto.
    - eapply ch_cons; eauto. eapply leads_trans; eauto.
  Qed.

  Lemma chain_weaken fwd e (fr fr' : list loopdata -> Prop) c ys (Q Q' : bconf -> Prop) :
    (forall L, fr L -> fr' L) -> (forall cf, Q cf -> Q' cf) -> chain fwd e fr c ys Q -> chain fwd e fr' c ys Q'.
  Proof.
    intros Hf Hq Hc. induction Hc as [c Q cf Hqc H1 | c y ys Q L B H1 H2 H3 IH].
    - eapply ch_nil; eauto.
    - eapply ch_cons; eauto.
  Qed.

  Lemma chain_app fwd e fr c ys1 (Q1 : bconf -> Prop) :
    chain fwd e fr c ys1 Q1 -> forall ys2 Q, (forall cf, Q1 cf -> chain fwd e fr cf ys2 Q) ->
    chain fwd e fr c (ys1 ++ ys2) Q.
  Proof.
    intro Hc. induction Hc as [c Q1 cf Hqc H1 | c y ys Q1 L B H1 H2 H3 IH]; intros ys2 Q Hk.
    - simpl. eapply chain_leads; eauto.
    - simpl. eapply ch_cons; eauto.
  Qed.

  (* thread every success of a chain through a continuation that itself is a chain *)
  Lemma chain_bind fwd e1 e2 (fr1 fr2 : list loopdata -> Prop) (rf : mst -> option (list mst)) c ys (Q : bconf -> Prop) :
    chain fwd e1 fr1 c ys Q ->
    (forall y L B zs, fr1 L -> rf y = Some zs ->
       chain fwd e2 fr2 (mkBC (MRun e1 (fst y)) L (snd y) B) zs (fun cf => exists L', cf = mkBC MBack L' (snd y) B /\ leq L L')) ->
    forall zs_all, obindm rf ys = Some zs_all -> chain fwd e2 fr2 c zs_all Q.
  Proof.
    intros Hc Hk. induction Hc as [c Q cf Hqc H1 | c y ys Q L B H1 H2 H3 IH]; intros zs_all Hb; simpl in Hb.
    - inversion Hb; subst. eapply ch_nil; eauto.
    - destruct (rf y) as [zs|] eqn:Ey; [|discriminate]. destruct (obindm rf ys) as [rest|] eqn:Er; [|discriminate].
      inversion Hb; subst zs_all. clear Hb.
      eapply chain_leads; [exact H1|].
      eapply chain_app; [apply (Hk y L B zs H2 Ey)|].
      intros cf (L' & -> & HL). apply (IH L' HL rest eq_refl).
  Qed.
End BCorrect.
