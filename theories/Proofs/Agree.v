(* Agree.v — both interpreters compute the IR semantics, hence each other: for programs without
   Loop1CharBody (everything the compiler emits with Flags::no_opt, and optimised programs without a
   single-character loop), from the same start, with the prefilter-free search. *)
From RV Require Import Base.
From RV.Model Require Import Utf8 Indexer CodePointSet Insn IR Optimizer Unfold Emit Pike BT Exec.
From RV.Spec Require Import IRSem IRShape.
From RV.Proofs Require Import NodeInd PikeCorrect PikeTop BTDen BTShape BTCorrect BTTop IndexerFacts.

Lemma bt_wf_ir_wf ng n : bt_wf ng n = true -> ir_wf n = true.
Proof.
  induction n using node_ind2; intro Hw.
  - destruct n; try contradiction; simpl in *; auto.
  - simpl in *. induction H as [|x l Hx Hl IH]; [reflexivity|].
    apply andb_true_iff in Hw as [H1 H2]. rewrite (Hx H1). simpl. apply IH. exact H2.
  - simpl in *. apply andb_true_iff in Hw as [H1 H2]. rewrite IHn1, IHn2 by assumption. reflexivity.
  - simpl in *. auto.
  - simpl in *. apply andb_true_iff in Hw as [_ H2]. auto.
  - simpl in *. auto.
  - simpl in Hw. unfold bt_l1_ok in Hw. apply andb_true_iff in Hw as [Hw _]. apply andb_true_iff in Hw as [Hw _]. exact Hw.
Qed.

(* the executor-state component of a result is not observable *)
Definition xobs {S} (x : xres S) : xres unit :=
  match x with XMatch m ns _ => XMatch m ns tt | XNone _ => XNone tt | XError e => XError e | XBudget => XBudget end.

Lemma xobs_result ix h r st : xobs (bt_result_of ix h r st) = result_of ix h r.
Proof. destruct r as [[[p0 e] gs]|]; simpl; [destruct (next_start_after ix h p0 e)|]; reflexivity. Qed.

Theorem engines_agree ix h utf16 unicode ml n body prog names fuel tries p r :
  (forall fwd p c p', cnext ix fwd h p = Ok (Some (c, p')) -> ix_elem_of_u32 ix c = true) ->
  walk_ok ix h tries p = true ->
  top_shape n body ->
  emit utf16 unicode ml n = Ok (prog, names) ->
  bt_wf (p_groups prog) (NCat body) = true ->
  ir_search ix unicode utf16 h fuel (NCat body) (p_groups prog) tries p = Some r ->
  exists f0 kb kp, forall pfuel nb np budget, (f0 <= pfuel)%nat -> nb + kb <= budget -> np + kp <= budget ->
    xobs (fst (bt_search ix prog h budget pfuel (fun _ => true) tries (bt_init prog) p nb)) =
    fst (pk_search ix prog h budget pfuel tries (pk_init_state prog p) np) /\
    fst (pk_search ix prog h budget pfuel tries (pk_init_state prog p) np) = result_of ix h r.
Proof.
  intros Hel Hnb Hshape He Hwf Hs.
  destruct (bt_emit_correct ix h utf16 unicode ml n body prog names fuel tries p r Hel Hnb Hshape He Hwf Hs) as (f1 & kb & st' & Hb).
  destruct (pike_emit_correct ix h utf16 unicode ml n body prog names fuel tries p r Hshape He (bt_wf_ir_wf _ _ Hwf) Hs) as (f2 & kp & Hk).
  exists (Nat.max f1 f2), kb, kp. intros pfuel nb np budget Hf H1 H2.
  rewrite (Hb pfuel nb budget) by lia. rewrite (Hk pfuel np budget) by lia. simpl. split; [apply xobs_result|reflexivity].
Qed.

(* the two concrete input modes *)
Corollary engines_agree_utf8 fold h utf16 unicode ml n body prog names fuel tries p r :
  walk_ok (utf8_indexer fold) h tries p = true ->
  top_shape n body -> emit utf16 unicode ml n = Ok (prog, names) -> bt_wf (p_groups prog) (NCat body) = true ->
  ir_search (utf8_indexer fold) unicode utf16 h fuel (NCat body) (p_groups prog) tries p = Some r ->
  exists f0 kb kp, forall pfuel nb np budget, (f0 <= pfuel)%nat -> nb + kb <= budget -> np + kp <= budget ->
    xobs (fst (bt_search (utf8_indexer fold) prog h budget pfuel (fun _ => true) tries (bt_init prog) p nb)) =
    fst (pk_search (utf8_indexer fold) prog h budget pfuel tries (pk_init_state prog p) np) /\
    fst (pk_search (utf8_indexer fold) prog h budget pfuel tries (pk_init_state prog p) np) = result_of (utf8_indexer fold) h r.
Proof.
  intros Hs. apply engines_agree; [|exact Hs].
  intros fwd q c q' H. exact (utf8_elem fold h fwd q c q' H).
Qed.

Corollary engines_agree_ascii h utf16 unicode ml n body prog names fuel tries p r :
  bytes_ok h -> (p <= length h)%nat ->
  top_shape n body -> emit utf16 unicode ml n = Ok (prog, names) -> bt_wf (p_groups prog) (NCat body) = true ->
  ir_search ascii_indexer unicode utf16 h fuel (NCat body) (p_groups prog) tries p = Some r ->
  exists f0 kb kp, forall pfuel nb np budget, (f0 <= pfuel)%nat -> nb + kb <= budget -> np + kp <= budget ->
    xobs (fst (bt_search ascii_indexer prog h budget pfuel (fun _ => true) tries (bt_init prog) p nb)) =
    fst (pk_search ascii_indexer prog h budget pfuel tries (pk_init_state prog p) np) /\
    fst (pk_search ascii_indexer prog h budget pfuel tries (pk_init_state prog p) np) = result_of ascii_indexer h r.
Proof.
  intros Hb Hp. apply engines_agree; [|apply walk_ok_ascii; exact Hp].
  intros fwd q c q' H. exact (ascii_elem h fwd q c q' Hb H).
Qed.
