(* IRExt.v — the IR semantics depends on the indexer only through what the indexer does on the haystacks and
   positions a run visits: two indexers that agree there (cursor steps, and fold_equals on the elements read)
   give the same results.  Instantiated in AsciiUtf8.v with the UTF-8 and the ASCII indexer on ASCII haystacks. *)
From RV Require Import Base.
From RV.Model Require Import Utf8 Indexer CodePointSet Insn IR Optimizer Unfold Emit.
From RV.Spec Require Import IRSem.
From RV.Proofs Require Import IRRange.

Section Ext.
  Variables ix1 ix2 : indexer.
  Variable unicode utf16 : bool.
  (* the class of haystacks on which the two agree (closed under taking slices: backreferences read the
     captured text as a haystack of its own) *)
  Variable A : hay -> Prop.
  Hypothesis A_slice : forall h' a b, A h' -> A (slice h' a b).
  Hypothesis Hnr : forall h' p, A h' -> (p <= length h')%nat -> ix_next_right ix1 h' p = ix_next_right ix2 h' p.
  Hypothesis Hnl : forall h' p, A h' -> (p <= length h')%nat -> ix_next_left ix1 h' p = ix_next_left ix2 h' p.
  Hypothesis Hcur : forall (h' : hay) fwd p c p', (p <= length h')%nat -> cnext ix1 fwd h' p = Ok (Some (c, p')) -> (p' <= length h')%nat.
  Variable small : N -> Prop.
  Hypothesis Hsmall : forall h' fwd p c p', A h' -> (p <= length h')%nat -> cnext ix1 fwd h' p = Ok (Some (c, p')) -> small c.
  Hypothesis Hfold : forall u c1 c2, small c1 -> small c2 -> fold_equals ix1 u c1 c2 = fold_equals ix2 u c1 c2.

  Variable h : hay.
  Hypothesis Ah : A h.
  Notation len := (length h).
  Hypothesis Hnrp : forall p, (p <= len)%nat -> ix_next_right_pos ix1 h p = ix_next_right_pos ix2 h p.
  Hypothesis Hnlp : forall p, (p <= len)%nat -> ix_next_left_pos ix1 h p = ix_next_left_pos ix2 h p.

  Lemma step_inv_ext fwd q q' : (q <= len)%nat -> (q' <= len)%nat -> step_inv ix1 h fwd q q' = step_inv ix2 h fwd q q'.
  Proof. intros Hq Hq'. unfold step_inv. destruct fwd; rewrite ?(Hnrp q Hq), ?(Hnrp q' Hq'), ?(Hnlp q Hq), ?(Hnlp q' Hq'); reflexivity. Qed.

  Lemma cnext_ext h' fwd p : A h' -> (p <= length h')%nat -> cnext ix1 fwd h' p = cnext ix2 fwd h' p.
  Proof. intros Ha Hp. unfold cnext. destruct fwd; [apply Hnr|apply Hnl]; assumption. Qed.

  Lemma next_if_ext fwd p test : (p <= len)%nat -> next_if ix1 fwd h p test = next_if ix2 fwd h p test.
  Proof. intro Hp. unfold next_if. rewrite (cnext_ext h fwd p Ah Hp). reflexivity. Qed.

  Lemma peek_right_ext p : (p <= len)%nat -> peek_right ix1 h p = peek_right ix2 h p.
  Proof. intro Hp. unfold peek_right. rewrite (Hnr h p Ah Hp). reflexivity. Qed.
  Lemma peek_left_ext p : (p <= len)%nat -> peek_left ix1 h p = peek_left ix2 h p.
  Proof. intro Hp. unfold peek_left. rewrite (Hnl h p Ah Hp). reflexivity. Qed.

  Lemma sol_ext ml p : (p <= len)%nat -> start_of_line ix1 ml h p = start_of_line ix2 ml h p.
  Proof. intro Hp. unfold start_of_line. rewrite (peek_left_ext p Hp). reflexivity. Qed.
  Lemma eol_ext ml p : (p <= len)%nat -> end_of_line ix1 ml h p = end_of_line ix2 ml h p.
  Proof. intro Hp. unfold end_of_line. rewrite (peek_right_ext p Hp). reflexivity. Qed.
  Lemma wb_ext ui p : (p <= len)%nat -> word_boundary ix1 ui h p = word_boundary ix2 ui h p.
  Proof. intro Hp. unfold word_boundary. rewrite (peek_left_ext p Hp), (peek_right_ext p Hp). reflexivity. Qed.

  Lemma match1_ext pr i fwd p : (p <= len)%nat -> match1 ix1 pr i fwd h p = match1 ix2 pr i fwd h p.
  Proof.
    intro Hp. destruct i; simpl; try reflexivity; try (rewrite (next_if_ext fwd p _ Hp); reflexivity).
    destruct (nth_error (p_brackets pr) idx); [rewrite (next_if_ext fwd p _ Hp)|]; reflexivity.
  Qed.

  Lemma backref_go_ext pr fwd sub : A sub -> forall fuel rp p, (rp <= length sub)%nat -> (p <= len)%nat ->
    backref_icase_go ix1 pr fuel fwd sub rp h p = backref_icase_go ix2 pr fuel fwd sub rp h p.
  Proof.
    intros Asub. induction fuel as [|k IH]; intros rp p Hrp Hp; [reflexivity|].
    cbn [backref_icase_go]. rewrite <- (cnext_ext sub fwd rp Asub Hrp).
    destruct (cnext ix1 fwd sub rp) as [e|[[c1 rp']|]] eqn:E1; cbn [bindR]; try reflexivity.
    rewrite <- (cnext_ext h fwd p Ah Hp).
    destruct (cnext ix1 fwd h p) as [e|[[c2 p']|]] eqn:E2; cbn [bindR]; try reflexivity.
    rewrite <- (Hfold (p_unicode pr) c1 c2 (Hsmall _ _ _ _ _ Asub Hrp E1) (Hsmall _ _ _ _ _ Ah Hp E2)).
    destruct (fold_equals ix1 (p_unicode pr) c1 c2); [|reflexivity].
    apply IH; [eapply Hcur; eauto|eapply Hcur; eauto].
  Qed.

  Lemma backref_match_ext pr ic fwd p rs re : (p <= len)%nat ->
    backref_match ix1 pr ic fwd h p rs re = backref_match ix2 pr ic fwd h p rs re.
  Proof.
    intro Hp. unfold backref_match. destruct ic; [|reflexivity].
    destruct (re <? rs)%nat; [reflexivity|]. destruct (len <? re)%nat; [reflexivity|].
    apply backref_go_ext; [apply A_slice; exact Ah| |exact Hp].
    destruct fwd; lia.
  Qed.

  Lemma run_insns_ext code fwd : forall p, (p <= len)%nat ->
    run_insns ix1 unicode h code fwd p = run_insns ix2 unicode h code fwd p.
  Proof.
    induction code as [|i code IH]; intros p Hp; [reflexivity|]. cbn [run_insns].
    assert (Hstep : match i with Char c => Some (char_pike ix1 c fwd h p) | JustFail => Some (Ok None)
                            | _ => match1 ix1 (dummy_prog unicode) i fwd h p end =
                    match i with Char c => Some (char_pike ix2 c fwd h p) | JustFail => Some (Ok None)
                            | _ => match1 ix2 (dummy_prog unicode) i fwd h p end).
    { destruct i; try apply match1_ext; try exact Hp; try reflexivity.
      unfold char_pike. rewrite (next_if_ext fwd p _ Hp). reflexivity. }
    rewrite <- Hstep.
    destruct (match i with Char c => Some (char_pike ix1 c fwd h p) | JustFail => Some (Ok None)
                      | _ => match1 ix1 (dummy_prog unicode) i fwd h p end) as [[e|[p'|]]|] eqn:Er; try reflexivity.
    apply IH.
    destruct i; try (eapply (match1_range ix1 h Hcur (dummy_prog unicode)); [exact Hp|exact Er|reflexivity]); try discriminate.
    inversion Er as [Er']. eapply (next_if_range ix1 h Hcur); eauto.
  Qed.

  Lemma obindm_ext {B} (f g : B -> option (list mst)) (P : B -> Prop) : forall xs,
    Forall P xs -> (forall x, P x -> f x = g x) -> obindm f xs = obindm g xs.
  Proof.
    induction xs as [|x xs IH]; intros HP Hfg; [reflexivity|]. inversion HP; subst. simpl.
    rewrite (Hfg x) by assumption. rewrite IH by assumption. reflexivity.
  Qed.

  Definition node_ext (f : nat) : Prop := forall n fwd p G, (p <= len)%nat ->
    ir_results ix1 unicode utf16 h f n fwd (p, G) = ir_results ix2 unicode utf16 h f n fwd (p, G).

  Notation okpos := (okpos h).

  Lemma cat_ext_gen (rf1 rf2 : node -> mst -> option (list mst)) :
    (forall c x, (fst x <= len)%nat -> rf1 c x = rf2 c x) ->
    (forall c x r, (fst x <= len)%nat -> rf1 c x = Some r -> okpos r) ->
    forall l xs, okpos xs -> cat_results rf1 l xs = cat_results rf2 l xs.
  Proof.
    intros Heq Hrg. induction l as [|c l IH]; intros xs Hx; [reflexivity|]. cbn [cat_results].
    rewrite <- (obindm_ext (rf1 c) (rf2 c) (fun y => (fst y <= len)%nat) xs Hx (fun x Hq => Heq c x Hq)).
    destruct (obindm (rf1 c) xs) as [ys|] eqn:Eb; [|reflexivity].
    apply IH. eapply (okpos_obindm h _ (fun y => (fst y <= len)%nat)); [exact Hx| |exact Eb].
    intros x r Hq Hrr. eapply Hrg; eauto.
  Qed.

  Lemma cat_ext f (IHf : node_ext f) fwd : forall l xs, okpos xs ->
    cat_results (fun c => ir_results ix1 unicode utf16 h f c fwd) l xs =
    cat_results (fun c => ir_results ix2 unicode utf16 h f c fwd) l xs.
  Proof.
    apply cat_ext_gen.
    - intros c [q Gq] Hq. apply IHf. exact Hq.
    - intros c [q Gq] r Hq Hrr. eapply (ir_range ix1 unicode utf16 h Hcur f c fwd q Gq r Hq Hrr).
  Qed.

  Lemma loop_ext f (IHf : node_ext f) body fwd mn mx gr egs ege : forall lf k entry q Gq, (q <= len)%nat ->
    loop_results (ir_results ix1 unicode utf16 h f body fwd) mn mx gr egs ege lf k entry (q, Gq) =
    loop_results (ir_results ix2 unicode utf16 h f body fwd) mn mx gr egs ege lf k entry (q, Gq).
  Proof.
    induction lf as [|lf IH]; intros k entry q Gq Hq; [reflexivity|]. cbn [loop_results].
    destruct ((0 <? k) && (mn <? k) && (entry =? fst (q, Gq))%nat); [reflexivity|].
    assert (Hit : match reset_groups (snd (q, Gq)) egs (ege - egs) with
                  | None => None
                  | Some g1 => match ir_results ix1 unicode utf16 h f body fwd (fst (q, Gq), g1) with
                               | None => None
                               | Some zs => obindm (loop_results (ir_results ix1 unicode utf16 h f body fwd) mn mx gr egs ege lf (k + 1) (fst (q, Gq))) zs
                               end
                  end =
                  match reset_groups (snd (q, Gq)) egs (ege - egs) with
                  | None => None
                  | Some g1 => match ir_results ix2 unicode utf16 h f body fwd (fst (q, Gq), g1) with
                               | None => None
                               | Some zs => obindm (loop_results (ir_results ix2 unicode utf16 h f body fwd) mn mx gr egs ege lf (k + 1) (fst (q, Gq))) zs
                               end
                  end).
    { cbn [fst snd]. destruct (reset_groups Gq egs (ege - egs)) as [g1|]; [|reflexivity].
      rewrite <- (IHf body fwd q g1 Hq).
      destruct (ir_results ix1 unicode utf16 h f body fwd (q, g1)) as [zs|] eqn:Ez; [|reflexivity].
      apply (obindm_ext _ _ (fun y => (fst y <= len)%nat)).
      - eapply (ir_range ix1 unicode utf16 h Hcur f body fwd q g1 zs Hq Ez).
      - intros [q' Gq'] Hq'. apply IH. exact Hq'. }
    rewrite Hit. reflexivity.
  Qed.

  Lemma l1_ext (s1 s2 : nat -> option (option nat)) (c1 c2 : nat -> nat -> bool) G mn mx gr :
    (forall q, (q <= len)%nat -> s1 q = s2 q) ->
    (forall q q', (q <= len)%nat -> (q' <= len)%nat -> c1 q q' = c2 q q') ->
    (forall q q', (q <= len)%nat -> s1 q = Some (Some q') -> (q' <= len)%nat) ->
    forall lf k q, (q <= len)%nat -> l1_results s1 c1 G mn mx gr lf k q = l1_results s2 c2 G mn mx gr lf k q.
  Proof.
    intros Heq Hchk Hrg. induction lf as [|lf IH]; intros k q Hq; [reflexivity|]. cbn [l1_results].
    rewrite <- (Heq q Hq).
    destruct (if k <? max_val mx then s1 q else Some None) as [[q'|]|] eqn:Et; try reflexivity.
    assert (Hq' : (q' <= len)%nat) by (destruct (k <? max_val mx); [eapply Hrg; eauto|discriminate]).
    rewrite <- (Hchk q q' Hq Hq'). destruct (c1 q q'); [|reflexivity].
    rewrite IH; [reflexivity|exact Hq'].
  Qed.

  Lemma pieces_run_ext lb fwd : forall l q, (q <= len)%nat ->
    pieces_run ix1 unicode h lb l fwd q = pieces_run ix2 unicode h lb l fwd q.
  Proof.
    induction l as [|c l IH]; intros q Hq; [reflexivity|]. cbn [pieces_run].
    destruct (leaf_code lb c) as [code|]; [|reflexivity].
    rewrite <- (run_insns_ext code fwd q Hq).
    destruct (run_insns ix1 unicode h code fwd q) as [[q1|]|] eqn:E; try reflexivity.
    apply IH. eapply (run_insns_range ix1 unicode h Hcur); eauto.
  Qed.

  Theorem ir_ext : forall f, node_ext f.
  Proof.
    induction f as [|f IHf]; intros n fwd p G Hp; [reflexivity|].
    destruct n as [ | |c|bs|bs|cs|l0|a b| | |sol ml|inv ui|id c nm|g ic|b|alts icase|ng bw sg' eg' c|body mn mx gr egs ege|body mn mx gr];
      cbn [ir_results]; try reflexivity;
      try (destruct (leaf_code (negb fwd) _) as [code|]; [rewrite (run_insns_ext code fwd p Hp)|]; reflexivity).
    - (* Cat *) apply cat_ext; [exact IHf|]. constructor; [exact Hp|constructor].
    - (* Alt *) rewrite (IHf a fwd p G Hp), (IHf b fwd p G Hp). reflexivity.
    - (* Anchor *) destruct sol; [rewrite (sol_ext ml p Hp)|rewrite (eol_ext ml p Hp)]; reflexivity.
    - (* WordBoundary *) rewrite (wb_ext ui p Hp). reflexivity.
    - (* CaptureGroup *)
      destruct (upd_group id (set_group_start fwd p) G) as [G1|]; [|reflexivity].
      rewrite <- (IHf c fwd p G1 Hp). reflexivity.
    - (* BackRef *)
      destruct (g =? 0); [reflexivity|]. destruct (nth_error G (N.to_nat (g - 1))) as [gd|]; [|reflexivity].
      destruct (gd_range gd) as [[rs re]|]; [|reflexivity].
      rewrite (backref_match_ext (dummy_prog unicode) ic fwd p rs re Hp). reflexivity.
    - (* Bracket *)
      destruct (bracket_as_ascii b); [rewrite (run_insns_ext _ fwd p Hp); reflexivity|].
      rewrite (next_if_ext fwd p _ Hp). reflexivity.
    - (* StringSet *)
      unfold strset_results. apply (obindm_ext _ _ (fun _ => True)); [apply Forall_forall; auto|].
      intros a _. destruct (if utf16 then None else lower_code_point_sequence a icase unicode); [|reflexivity].
      cbn [fst]. rewrite (pieces_run_ext (negb fwd) fwd _ p Hp). reflexivity.
    - (* Lookaround *) rewrite (IHf c (negb bw) p G Hp). reflexivity.
    - (* Loop *) apply loop_ext; assumption.
    - (* Loop1CharBody *)
      unfold single_step.
      destruct (leaf_code (negb fwd) body) as [code|].
      + apply l1_ext; [intros q Hq; apply run_insns_ext; exact Hq|intros; apply step_inv_ext; assumption| |exact Hp].
        intros q q' Hq Hs. eapply (run_insns_range ix1 unicode h Hcur); eauto.
      + destruct body; try reflexivity.
        apply l1_ext; [|intros; apply step_inv_ext; assumption| |exact Hp].
        * intros q Hq. rewrite (next_if_ext fwd q _ Hq). reflexivity.
        * intros q q' Hq Hs. destruct (next_if ix1 fwd h q (bracket_matches b)) as [e|r] eqn:En; [discriminate|].
          inversion Hs; subst r. eapply (next_if_range ix1 h Hcur); eauto.
  Qed.

  (* the search loop *)
  Hypothesis Hnrp_bound : forall p p', (p <= len)%nat -> ix_next_right_pos ix1 h p = Ok (Some p') -> (p' <= len)%nat.

  Theorem ir_search_ext fuel n ngroups : forall tries p, (p <= len)%nat ->
    ir_search ix1 unicode utf16 h fuel n ngroups tries p = ir_search ix2 unicode utf16 h fuel n ngroups tries p.
  Proof.
    induction tries as [|t IH]; intros p Hp; [reflexivity|]. cbn [ir_search].
    rewrite <- (ir_ext fuel n true p _ Hp).
    destruct (ir_results ix1 unicode utf16 h fuel n true (p, repeat gd_empty ngroups)) as [[|y l]|]; try reflexivity.
    rewrite <- (Hnrp p Hp). destruct (ix_next_right_pos ix1 h p) as [e|[p'|]] eqn:En; try reflexivity.
    apply IH. eapply Hnrp_bound; eauto.
  Qed.
End Ext.
