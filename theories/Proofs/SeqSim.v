(* SeqSim.v — concatenations of single-character atoms (C01): the reference semantics of r1 r2 ... rk on the code points
   of a well-formed UTF-8 text and the IR semantics of Cat [n1; ...; nk] on its bytes yield the same list of results,
   character index i on one side being byte offset off(i) on the other, whenever every ri / ni is a pair of
   single-character atoms deciding by the same test (a literal character, the dot, a string-free v-mode class:
   ClassAtom.v).  Both sides are computed without reference to a fuel bound: any fuel above the length of the
   sequence gives the reference result, any positive fuel the IR result. *)
From RV Require Import Base.
From RV.Model Require Import Utf8 Indexer CodePointSet Insn Fold IR Optimizer Unfold Emit ClassSet.
From RV.Spec Require Import Spec IRSem IRShape.
From RV.Proofs Require Import CpsProofs Closure ClassSetProofs OptMono OptBrackets OptTop Utf8Facts Utf8Valid OptTextUtf8 ClassAtom.

(* the sequence as the syntax tree of the reference (right-nested, as the stream prints it) *)
Fixpoint seq_of (rs : list regex) : regex :=
  match rs with
  | [] => REmpty
  | [r] => r
  | r :: t => RSeq r (seq_of t)
  end.

Inductive Forall3 {A B C} (P : A -> B -> C -> Prop) : list A -> list B -> list C -> Prop :=
| F3_nil : Forall3 P [] [] []
| F3_cons a b c la lb lc : P a b c -> Forall3 P la lb lc -> Forall3 P (a :: la) (b :: lb) (c :: lc).

Section Seq.
  Variable foldf : N -> bool -> N.
  Variables unicode utf16 : bool.
  Variable cs : list (list N).
  Hypothesis Hw : wf_text cs.
  Variable eqclass : N -> list N.
  Notation canon := (fun x => fold_code_point x unicode).
  Notation u8 := (utf8_indexer foldf).
  Notation text := (concat cs).
  Notation chars := (map dec cs).
  Notation ES := (es_results canon eqclass chars).
  Notation IR := (ir_results u8 unicode utf16 text).

  (* byte offset of character index i *)
  Definition off (i : nat) : nat := length (concat (firstn i cs)).

  (* one step of a single-character atom that decides by test t *)
  Definition stepD {S} (t : N -> bool) (x : nat * S) : list (nat * S) :=
    match nth_error chars (fst x) with Some d => if t d then [(Datatypes.S (fst x), snd x)] else [] | None => [] end.
  Fixpoint chainD {S} (ts : list (N -> bool)) (l : list (nat * S)) : list (nat * S) :=
    match ts with [] => l | t :: ts' => chainD ts' (flat_map (stepD t) l) end.

  (* a pair (reference atom, IR node) deciding by t *)
  Definition atom (r : regex) (n : node) (t : N -> bool) : Prop :=
    (forall f x, ES (S f) r Fwd x = Some (stepD t x)) /\
    (forall f i G, (i <= length cs)%nat -> IR (S f) n true (off i, G) = Some (map (fun y => (off (fst y), snd y)) (stepD t (i, G)))).

  Lemma flat_map_flat_map {A B C} (f : A -> list B) (g : B -> list C) l :
    flat_map g (flat_map f l) = flat_map (fun y => flat_map g (f y)) l.
  Proof. induction l as [|y l IH]; [reflexivity|]. cbn [flat_map]. rewrite flat_map_app, IH. reflexivity. Qed.

  Lemma chainD_flat {S} ts : forall (l : list (nat * S)), chainD ts l = flat_map (fun y => chainD ts [y]) l.
  Proof.
    induction ts as [|t ts IH]; intros l; cbn [chainD].
    - induction l as [|y l IHl]; [reflexivity|]. cbn [flat_map app]. rewrite <- IHl. reflexivity.
    - rewrite IH, flat_map_flat_map. apply flat_map_ext. intros y. cbn [flat_map]. rewrite app_nil_r. symmetry. apply IH.
  Qed.

  Lemma obind_all {A B} (f : A -> option (list B)) (g : A -> list B) : (forall x, f x = Some (g x)) -> forall l, Spec.obind f l = Some (flat_map g l).
  Proof. intros H l. induction l as [|x l IH]; [reflexivity|]. cbn [Spec.obind flat_map]. rewrite H, IH. reflexivity. Qed.

  Lemma es_seq_unfold f a b x : ES (S f) (RSeq a b) Fwd x = match ES f a Fwd x with Some l => obind (ES f b Fwd) l | None => None end.
  Proof. destruct x; reflexivity. Qed.

  (* the reference side *)
  Theorem es_sequence : forall rs ts, Forall2 (fun r t => forall f x, ES (S f) r Fwd x = Some (stepD t x)) rs ts ->
    forall f x, (length rs <= f)%nat -> ES (S f) (seq_of rs) Fwd x = Some (chainD ts [x]).
  Proof.
    induction 1 as [|r t rs ts Hr Hrest IH]; intros f x Hf.
    - cbn [seq_of es_results chainD]. destruct x; reflexivity.
    - destruct rs as [|r2 rs'].
      + inversion Hrest; subst. cbn [seq_of chainD flat_map]. rewrite app_nil_r. apply Hr.
      + cbn [length] in Hf. destruct f as [|f0]; [lia|].
        change (seq_of (r :: r2 :: rs')) with (RSeq r (seq_of (r2 :: rs'))).
        rewrite es_seq_unfold. rewrite (Hr f0 x).
        rewrite (obind_all (ES (S f0) (seq_of (r2 :: rs')) Fwd) (fun y => chainD ts [y])) by (intros y; apply IH; cbn [length] in *; lia).
        f_equal. cbn [chainD flat_map]. rewrite app_nil_r. symmetry. apply chainD_flat.
  Qed.

  (* the IR side *)
  Definition phi {S} (y : nat * S) : nat * S := (off (fst y), snd y).
  Definition inside {S} (l : list (nat * S)) : Prop := Forall (fun y => (fst y <= length cs)%nat) l.

  Lemma stepD_inside {S} t (x : nat * S) : inside (stepD t x).
  Proof.
    unfold stepD, inside. destruct (nth_error chars (fst x)) as [d|] eqn:E; [|constructor]. destruct (t d); [|constructor].
    constructor; [|constructor]. cbn [fst].
    assert (Hl : (fst x < length chars)%nat) by (apply nth_error_Some; congruence). rewrite map_length in Hl. lia.
  Qed.
  Lemma flat_inside {S} t (l : list (nat * S)) : inside (flat_map (stepD t) l).
  Proof. unfold inside. induction l as [|y l IH]; [constructor|]. cbn [flat_map]. apply Forall_app. split; [apply stepD_inside|exact IH]. Qed.

  Lemma obindm_mapped (f : mst -> option (list mst)) (g : mst -> list mst) : forall (l : list mst),
    (forall y, In y l -> f (phi y) = Some (map phi (g y))) -> obindm f (map phi l) = Some (map phi (flat_map g l)).
  Proof.
    induction l as [|y l IH]; intros H; [reflexivity|]. cbn [map obindm flat_map]. rewrite (H y (or_introl eq_refl)), IH, map_app; [reflexivity|].
    intros z Hz. apply H. right. exact Hz.
  Qed.

  Theorem ir_sequence : forall ns ts, Forall2 (fun n t => forall f i G, (i <= length cs)%nat ->
      IR (S f) n true (off i, G) = Some (map phi (stepD t (i, G)))) ns ts ->
    forall f (l : list mst), inside l -> cat_results (fun c => IR (S f) c true) ns (map phi l) = Some (map phi (chainD ts l)).
  Proof.
    induction 1 as [|n t ns ts Hn Hrest IH]; intros f l Hl; cbn [cat_results chainD]; [reflexivity|].
    rewrite (obindm_mapped _ (stepD t)).
    - apply IH. apply flat_inside.
    - intros [i G] Hy. unfold inside in Hl. rewrite Forall_forall in Hl. specialize (Hl _ Hy). cbn [fst] in Hl. unfold phi at 1. cbn [fst snd].
      apply Hn. exact Hl.
  Qed.

  Lemma cat_unfold f l x : IR (S f) (NCat l) true x = cat_results (fun c => IR f c true) l [x].
  Proof. destruct x; reflexivity. Qed.

  (* the two sides of a sequence of atoms *)
  Theorem sequence_of_atoms : forall rs ns ts, Forall3 atom rs ns ts ->
    forall f f' i caps G, (length rs <= f)%nat -> (i <= length cs)%nat ->
    ES (S f) (seq_of rs) Fwd (i, caps) = Some (chainD ts [(i, caps)]) /\
    IR (S (S f')) (NCat ns) true (off i, G) = Some (map phi (chainD ts [(i, G)])).
  Proof.
    intros rs ns ts H3 f f' i caps G Hf Hi. split.
    - apply es_sequence; [|exact Hf]. clear - H3. induction H3 as [|r n t rs ns ts [Hr _] _ IH]; constructor; assumption.
    - rewrite cat_unfold. change [(off i, G)] with (map phi [(i, G)]). apply ir_sequence.
      + clear - H3. induction H3 as [|r n t rs ns ts [_ Hn] _ IH]; constructor; [|assumption]. intros f0 i0 G0 Hi0. apply Hn. exact Hi0.
      + constructor; [exact Hi|constructor].
  Qed.

  (* ---- the atoms ---- *)
  Lemma split_at {A} : forall (l : list A) i c, nth_error l i = Some c -> l = firstn i l ++ c :: skipn (S i) l.
  Proof.
    induction l as [|x l IH]; intros [|i] c E; try discriminate.
    - inversion E; subst. reflexivity.
    - cbn [firstn skipn app]. f_equal. apply IH. exact E.
  Qed.
  Lemma firstn_S_nth {A} : forall (l : list A) i c, nth_error l i = Some c -> firstn (S i) l = firstn i l ++ [c].
  Proof.
    induction l as [|x l IH]; intros [|i] c E; try discriminate.
    - inversion E; subst. reflexivity.
    - cbn [firstn app]. f_equal. apply IH. exact E.
  Qed.
  Lemma off_S i c : nth_error cs i = Some c -> off (S i) = (off i + length c)%nat.
  Proof.
    intros E. unfold off.
    rewrite (firstn_S_nth cs i c E), concat_app, app_length. cbn [concat]. rewrite app_nil_r. reflexivity.
  Qed.
  Lemma off_end : off (length cs) = length text.
  Proof. unfold off. rewrite firstn_all. reflexivity. Qed.
  Lemma next_if_end test : next_if u8 true text (length text) test = Ok None.
  Proof. unfold next_if. rewrite cnext_fwd. unfold u8_next_right. rewrite Nat.eqb_refl. reflexivity. Qed.

  (* an IR node that, in front of a character, decides by t and moves over it, and yields nothing at the end of the
     text, is the IR half of an atom *)
  Lemma atom_ir (n : node) (t : N -> bool) :
    (forall (pre : list (list N)) (c : list N) (post : list (list N)), cs = pre ++ c :: post -> forall (f : nat) (G : list groupdata),
       IR (S f) n true (length (concat pre), G) = Some (if t (dec c) then [((length (concat pre) + length c)%nat, G)] else [])) ->
    (forall f G, IR (S f) n true (length text, G) = Some []) ->
    forall f i G, (i <= length cs)%nat -> IR (S f) n true (off i, G) = Some (map phi (stepD t (i, G))).
  Proof.
    intros Hmid Hend f i G Hi. unfold stepD. cbn [fst snd]. rewrite nth_error_map.
    destruct (nth_error cs i) as [c|] eqn:E; cbn [option_map].
    - change (off i) with (length (concat (firstn i cs))) at 1. rewrite (Hmid (firstn i cs) c (skipn (S i) cs) (split_at cs i c E) f G). fold (off i).
      destruct (t (dec c)); [|reflexivity]. cbn [map phi fst snd]. unfold phi. cbn [fst snd]. rewrite (off_S i c E). reflexivity.
    - assert (i = length cs) by (apply nth_error_None in E; lia). subst i. rewrite off_end. apply Hend.
  Qed.

  Lemma one_stepD (x : mstate) t : one chars Fwd x t = stepD t x.
  Proof. unfold one, peek, stepD. destruct (nth_error chars (fst x)); reflexivity. Qed.

  (* a literal character *)
  Theorem char_is_atom ch icase n : char_node icase unicode ch = Ok n -> atom (RChar ch icase) n (char_matches canon ch icase).
  Proof.
    intros En. split.
    - intros f x. destruct x as [p cp]. cbn [es_results]. rewrite one_stepD. reflexivity.
    - apply atom_ir.
      + intros pre c post Ecs f G. subst cs.
        exact (proj2 (char_atom_step foldf unicode utf16 pre post c Hw eqclass ch icase n 0 f G [] En)).
      + intros f G. unfold char_node in En. destruct icase; cbn [negb] in En.
        * destruct (expand_code_point ch true unicode) as [|x [|y t]] eqn:E; [discriminate| |].
          -- inversion En; subst n. cbn [ir_results leaf_code run_insns match1]. unfold results_of, char_pike. cbn [fst snd]. rewrite next_if_end. reflexivity.
          -- destruct ((2 <=? length (x :: y :: t)) && (length (x :: y :: t) <=? 4))%nat eqn:El; [|discriminate]. inversion En; subst n.
             apply andb_true_iff in El as [_ L4]. apply Nat.leb_le in L4.
             rewrite (charset_ir u8 unicode utf16 text f true (x :: y :: t) (length text) G L4). unfold charset_step, charstep. rewrite next_if_end. reflexivity.
        * inversion En; subst n. cbn [ir_results leaf_code run_insns match1]. unfold results_of, char_pike. cbn [fst snd]. rewrite next_if_end. reflexivity.
  Qed.

  (* the dot *)
  Theorem dot_is_atom dot_all : atom (RAny dot_all) (dot_node dot_all) (fun d => dot_all || negb (is_lt d)).
  Proof.
    split.
    - intros f x. destruct x as [p cp]. cbn [es_results]. rewrite one_stepD. reflexivity.
    - apply atom_ir.
      + intros pre c post Ecs f G. subst cs. exact (proj2 (dot_atom_step foldf unicode utf16 pre post c Hw eqclass dot_all 0 f G [])).
      + intros f G. unfold dot_node. destruct dot_all; cbn [ir_results leaf_code run_insns match1]; unfold results_of; cbn [fst snd]; rewrite next_if_end; reflexivity.
  Qed.
End Seq.

(* a v-mode class without strings: Unicode mode, the classes computed by unfold_char *)
Theorem class_is_atom foldf utf16 cs : wf_text cs -> forall icase e, vwf e = true -> sfree e = true ->
  atom foldf true utf16 cs unfold_char (RVClass e icase) (class_node icase e) (vmem fold unfold_char icase e).
Proof.
  intros Hw icase e Hwf Hsf. split.
  - intros f x. destruct x as [p cp]. cbn [es_results]. rewrite (vstrs_sfree _ icase e Hsf). cbn [filter flat_map existsb app]. rewrite app_nil_r.
    apply f_equal. apply one_stepD.
  - apply atom_ir.
    + intros pre c post Ecs f G. subst cs.
      exact (class_node_step unfold_char unfold_char_spec foldf true utf16 pre post c Hw icase e Hwf Hsf f G).
    + intros f G. destruct (class_node_meaning unfold_char unfold_char_spec icase e Hwf Hsf) as (cps' & En & _ & _). rewrite En.
      rewrite (bracket_ir (utf8_indexer foldf) true utf16 (concat cs)).
      destruct (text_ok_utf8 foldf cs Hw true) as (_ & _ & _ & _ & _ & _ & Hb2 & _).
      assert (Hcs : charstep (utf8_indexer foldf) (concat cs) true (bracket_matches (mkBracket (top_neg e) cps')) (length (concat cs)) = Some None).
      { unfold charstep. rewrite (next_if_end foldf cs). reflexivity. }
      assert (Hb : bnd cs (length (concat cs))) by (exists cs, []; split; [rewrite app_nil_r; reflexivity|reflexivity]).
      rewrite (char_bracket_step (utf8_indexer foldf) (concat cs) (bnd cs) Hb2 true _ _ _ Hb Hcs). reflexivity.
Qed.
