(* SeqSim.v — concatenations of single-character atoms (C01): the reference semantics of r1 r2 ... rk on the code points
   of a well-formed UTF-8 text and the IR semantics of Cat [n1; ...; nk] on its bytes yield the same list of results,
   character index i on one side being byte offset off(i) on the other, whenever every ri / ni is a pair of
   single-character atoms deciding by the same test (a literal character, the dot, a string-free v-mode class:
   ClassAtom.v).  Both sides are computed without reference to a fuel bound: any fuel above the length of the
   sequence gives the reference result, any positive fuel the IR result. *)
From RV Require Import Base.
From RV.Model Require Import Utf8 Indexer CodePointSet Insn Fold IR Optimizer Unfold Emit ClassSet.
From RV.Spec Require Import Spec IRSem IRShape.
From RV.Proofs Require Import CpsProofs Closure ClassSetProofs OptMono OptBrackets OptTop Utf8Facts Utf8Valid OptTextUtf8 ClassAtom.
From Coq Require Import Btauto.

(* the sequence as the syntax tree of the reference (right-nested, as the stream prints it) *)
Fixpoint seq_of (rs : list regex) : regex :=
  match rs with
  | [] => REmpty
  | [r] => r
  | r :: t => RSeq r (seq_of t)
  end.

Inductive Forall3 {A B C} (P : A -> B -> C -> Prop) : list A -> list B -> list C -> Prop :=
| F3_nil : Forall3 P [] [] []
| F3_cons a b c la lb lc : P a b c -> Forall3 P la lb lc -> Forall3 P (a :: la) (b :: lb) (c :: lc).

Section Seq.
  Variable foldf : N -> bool -> N.
  Variables unicode utf16 : bool.
  Variable cs : list (list N).
  Hypothesis Hw : wf_text cs.
  Variable eqclass : N -> list N.
  Notation canon := (fun x => fold_code_point x unicode).
  Notation u8 := (utf8_indexer foldf).
  Notation text := (concat cs).
  Notation chars := (map dec cs).
  Notation ES := (es_results canon eqclass chars).
  Notation IR := (ir_results u8 unicode utf16 text).

  (* byte offset of character index i *)
  Definition off (i : nat) : nat := length (concat (firstn i cs)).

  (* one step of a single-character atom that decides by test t *)
  Definition stepD {S} (t : N -> bool) (x : nat * S) : list (nat * S) :=
    match nth_error chars (fst x) with Some d => if t d then [(Datatypes.S (fst x), snd x)] else [] | None => [] end.
  Fixpoint chainD {S} (ts : list (N -> bool)) (l : list (nat * S)) : list (nat * S) :=
    match ts with [] => l | t :: ts' => chainD ts' (flat_map (stepD t) l) end.

  (* a pair (reference atom, IR node) deciding by t *)
  Definition atom (r : regex) (n : node) (t : N -> bool) : Prop :=
    (forall f x, ES (S f) r Fwd x = Some (stepD t x)) /\
    (forall f i G, (i <= length cs)%nat -> IR (S f) n true (off i, G) = Some (map (fun y => (off (fst y), snd y)) (stepD t (i, G)))).

  Lemma flat_map_flat_map {A B C} (f : A -> list B) (g : B -> list C) l :
    flat_map g (flat_map f l) = flat_map (fun y => flat_map g (f y)) l.
  Proof. induction l as [|y l IH]; [reflexivity|]. cbn [flat_map]. rewrite flat_map_app, IH. reflexivity. Qed.

  Lemma chainD_flat {S} ts : forall (l : list (nat * S)), chainD ts l = flat_map (fun y => chainD ts [y]) l.
  Proof.
    induction ts as [|t ts IH]; intros l; cbn [chainD].
    - induction l as [|y l IHl]; [reflexivity|]. cbn [flat_map app]. rewrite <- IHl. reflexivity.
    - rewrite IH, flat_map_flat_map. apply flat_map_ext. intros y. cbn [flat_map]. rewrite app_nil_r. symmetry. apply IH.
  Qed.

  Lemma obind_all {A B} (f : A -> option (list B)) (g : A -> list B) : (forall x, f x = Some (g x)) -> forall l, Spec.obind f l = Some (flat_map g l).
  Proof. intros H l. induction l as [|x l IH]; [reflexivity|]. cbn [Spec.obind flat_map]. rewrite H, IH. reflexivity. Qed.

  Lemma es_seq_unfold f a b x : ES (S f) (RSeq a b) Fwd x = match ES f a Fwd x with Some l => obind (ES f b Fwd) l | None => None end.
  Proof. destruct x; reflexivity. Qed.

  (* the reference side *)
  Theorem es_sequence : forall rs ts, Forall2 (fun r t => forall f x, ES (S f) r Fwd x = Some (stepD t x)) rs ts ->
    forall f x, (length rs <= f)%nat -> ES (S f) (seq_of rs) Fwd x = Some (chainD ts [x]).
  Proof.
    induction 1 as [|r t rs ts Hr Hrest IH]; intros f x Hf.
    - cbn [seq_of es_results chainD]. destruct x; reflexivity.
    - destruct rs as [|r2 rs'].
      + inversion Hrest; subst. cbn [seq_of chainD flat_map]. rewrite app_nil_r. apply Hr.
      + cbn [length] in Hf. destruct f as [|f0]; [lia|].
        change (seq_of (r :: r2 :: rs')) with (RSeq r (seq_of (r2 :: rs'))).
        rewrite es_seq_unfold. rewrite (Hr f0 x).
        rewrite (obind_all (ES (S f0) (seq_of (r2 :: rs')) Fwd) (fun y => chainD ts [y])) by (intros y; apply IH; cbn [length] in *; lia).
        f_equal. cbn [chainD flat_map]. rewrite app_nil_r. symmetry. apply chainD_flat.
  Qed.

  (* the IR side *)
  Definition phi {S} (y : nat * S) : nat * S := (off (fst y), snd y).
  Definition inside {S} (l : list (nat * S)) : Prop := Forall (fun y => (fst y <= length cs)%nat) l.

  Lemma stepD_inside {S} t (x : nat * S) : inside (stepD t x).
  Proof.
    unfold stepD, inside. destruct (nth_error chars (fst x)) as [d|] eqn:E; [|constructor]. destruct (t d); [|constructor].
    constructor; [|constructor]. cbn [fst].
    assert (Hl : (fst x < length chars)%nat) by (apply nth_error_Some; congruence). rewrite map_length in Hl. lia.
  Qed.
  Lemma flat_inside {S} t (l : list (nat * S)) : inside (flat_map (stepD t) l).
  Proof. unfold inside. induction l as [|y l IH]; [constructor|]. cbn [flat_map]. apply Forall_app. split; [apply stepD_inside|exact IH]. Qed.

  Lemma obindm_mapped (f : mst -> option (list mst)) (g : mst -> list mst) : forall (l : list mst),
    (forall y, In y l -> f (phi y) = Some (map phi (g y))) -> obindm f (map phi l) = Some (map phi (flat_map g l)).
  Proof.
    induction l as [|y l IH]; intros H; [reflexivity|]. cbn [map obindm flat_map]. rewrite (H y (or_introl eq_refl)), IH, map_app; [reflexivity|].
    intros z Hz. apply H. right. exact Hz.
  Qed.

  Theorem ir_sequence : forall ns ts, Forall2 (fun n t => forall f i G, (i <= length cs)%nat ->
      IR (S f) n true (off i, G) = Some (map phi (stepD t (i, G)))) ns ts ->
    forall f (l : list mst), inside l -> cat_results (fun c => IR (S f) c true) ns (map phi l) = Some (map phi (chainD ts l)).
  Proof.
    induction 1 as [|n t ns ts Hn Hrest IH]; intros f l Hl; cbn [cat_results chainD]; [reflexivity|].
    rewrite (obindm_mapped _ (stepD t)).
    - apply IH. apply flat_inside.
    - intros [i G] Hy. unfold inside in Hl. rewrite Forall_forall in Hl. specialize (Hl _ Hy). cbn [fst] in Hl. unfold phi at 1. cbn [fst snd].
      apply Hn. exact Hl.
  Qed.

  Lemma cat_unfold f l x : IR (S f) (NCat l) true x = cat_results (fun c => IR f c true) l [x].
  Proof. destruct x; reflexivity. Qed.

  (* the two sides of a sequence of atoms *)
  Theorem sequence_of_atoms : forall rs ns ts, Forall3 atom rs ns ts ->
    forall f f' i caps G, (length rs <= f)%nat -> (i <= length cs)%nat ->
    ES (S f) (seq_of rs) Fwd (i, caps) = Some (chainD ts [(i, caps)]) /\
    IR (S (S f')) (NCat ns) true (off i, G) = Some (map phi (chainD ts [(i, G)])).
  Proof.
    intros rs ns ts H3 f f' i caps G Hf Hi. split.
    - apply es_sequence; [|exact Hf]. clear - H3. induction H3 as [|r n t rs ns ts [Hr _] _ IH]; constructor; assumption.
    - rewrite cat_unfold. change [(off i, G)] with (map phi [(i, G)]). apply ir_sequence.
      + clear - H3. induction H3 as [|r n t rs ns ts [_ Hn] _ IH]; constructor; [|assumption]. intros f0 i0 G0 Hi0. apply Hn. exact Hi0.
      + constructor; [exact Hi|constructor].
  Qed.

  (* ---- the atoms ---- *)
  Lemma split_at {A} : forall (l : list A) i c, nth_error l i = Some c -> l = firstn i l ++ c :: skipn (S i) l.
  Proof.
    induction l as [|x l IH]; intros [|i] c E; try discriminate.
    - inversion E; subst. reflexivity.
    - cbn [firstn skipn app]. f_equal. apply IH. exact E.
  Qed.
  Lemma firstn_S_nth {A} : forall (l : list A) i c, nth_error l i = Some c -> firstn (S i) l = firstn i l ++ [c].
  Proof.
    induction l as [|x l IH]; intros [|i] c E; try discriminate.
    - inversion E; subst. reflexivity.
    - cbn [firstn app]. f_equal. apply IH. exact E.
  Qed.
  Lemma off_S i c : nth_error cs i = Some c -> off (S i) = (off i + length c)%nat.
  Proof.
    intros E. unfold off.
    rewrite (firstn_S_nth cs i c E), concat_app, app_length. cbn [concat]. rewrite app_nil_r. reflexivity.
  Qed.
  Lemma off_end : off (length cs) = length text.
  Proof. unfold off. rewrite firstn_all. reflexivity. Qed.
  Lemma next_if_end test : next_if u8 true text (length text) test = Ok None.
  Proof. unfold next_if. rewrite cnext_fwd. unfold u8_next_right. rewrite Nat.eqb_refl. reflexivity. Qed.

  (* an IR node that, in front of a character, decides by t and moves over it, and yields nothing at the end of the
     text, is the IR half of an atom *)
  Lemma atom_ir (n : node) (t : N -> bool) :
    (forall (pre : list (list N)) (c : list N) (post : list (list N)), cs = pre ++ c :: post -> forall (f : nat) (G : list groupdata),
       IR (S f) n true (length (concat pre), G) = Some (if t (dec c) then [((length (concat pre) + length c)%nat, G)] else [])) ->
    (forall f G, IR (S f) n true (length text, G) = Some []) ->
    forall f i G, (i <= length cs)%nat -> IR (S f) n true (off i, G) = Some (map phi (stepD t (i, G))).
  Proof.
    intros Hmid Hend f i G Hi. unfold stepD. cbn [fst snd]. rewrite nth_error_map.
    destruct (nth_error cs i) as [c|] eqn:E; cbn [option_map].
    - change (off i) with (length (concat (firstn i cs))) at 1. rewrite (Hmid (firstn i cs) c (skipn (S i) cs) (split_at cs i c E) f G). fold (off i).
      destruct (t (dec c)); [|reflexivity]. cbn [map phi fst snd]. unfold phi. cbn [fst snd]. rewrite (off_S i c E). reflexivity.
    - assert (i = length cs) by (apply nth_error_None in E; lia). subst i. rewrite off_end. apply Hend.
  Qed.

  Lemma one_stepD (x : mstate) t : one chars Fwd x t = stepD t x.
  Proof. unfold one, peek, stepD. destruct (nth_error chars (fst x)); reflexivity. Qed.

  (* a literal character *)
  Theorem char_is_atom ch icase n : char_node icase unicode ch = Ok n -> atom (RChar ch icase) n (char_matches canon ch icase).
  Proof.
    intros En. split.
    - intros f x. destruct x as [p cp]. cbn [es_results]. rewrite one_stepD. reflexivity.
    - apply atom_ir.
      + intros pre c post Ecs f G. subst cs.
        exact (proj2 (char_atom_step foldf unicode utf16 pre post c Hw eqclass ch icase n 0 f G [] En)).
      + intros f G. unfold char_node in En. destruct icase; cbn [negb] in En.
        * destruct (expand_code_point ch true unicode) as [|x [|y t]] eqn:E; [discriminate| |].
          -- inversion En; subst n. cbn [ir_results leaf_code run_insns match1]. unfold results_of, char_pike. cbn [fst snd]. rewrite next_if_end. reflexivity.
          -- destruct ((2 <=? length (x :: y :: t)) && (length (x :: y :: t) <=? 4))%nat eqn:El; [|discriminate]. inversion En; subst n.
             apply andb_true_iff in El as [_ L4]. apply Nat.leb_le in L4.
             rewrite (charset_ir u8 unicode utf16 text f true (x :: y :: t) (length text) G L4). unfold charset_step, charstep. rewrite next_if_end. reflexivity.
        * inversion En; subst n. cbn [ir_results leaf_code run_insns match1]. unfold results_of, char_pike. cbn [fst snd]. rewrite next_if_end. reflexivity.
  Qed.

  (* the dot *)
  Theorem dot_is_atom dot_all : atom (RAny dot_all) (dot_node dot_all) (fun d => dot_all || negb (is_lt d)).
  Proof.
    split.
    - intros f x. destruct x as [p cp]. cbn [es_results]. rewrite one_stepD. reflexivity.
    - apply atom_ir.
      + intros pre c post Ecs f G. subst cs. exact (proj2 (dot_atom_step foldf unicode utf16 pre post c Hw eqclass dot_all 0 f G [])).
      + intros f G. unfold dot_node. destruct dot_all; cbn [ir_results leaf_code run_insns match1]; unfold results_of; cbn [fst snd]; rewrite next_if_end; reflexivity.
  Qed.
End Seq.

(* a v-mode class without strings: Unicode mode, the classes computed by unfold_char *)
Theorem class_is_atom foldf utf16 cs : wf_text cs -> forall icase e, vwf e = true -> sfree e = true ->
  atom foldf true utf16 cs unfold_char (RVClass e icase) (class_node icase e) (vmem fold unfold_char icase e).
Proof.
  intros Hw icase e Hwf Hsf. split.
  - intros f x. destruct x as [p cp]. cbn [es_results]. rewrite (vstrs_sfree _ icase e Hsf). cbn [filter flat_map existsb app]. rewrite app_nil_r.
    apply f_equal. apply one_stepD.
  - apply atom_ir.
    + intros pre c post Ecs f G. subst cs.
      exact (class_node_step unfold_char unfold_char_spec foldf true utf16 pre post c Hw icase e Hwf Hsf f G).
    + intros f G. destruct (class_node_meaning unfold_char unfold_char_spec icase e Hwf Hsf) as (cps' & En & _ & _). rewrite En.
      rewrite (bracket_ir (utf8_indexer foldf) true utf16 (concat cs)).
      destruct (text_ok_utf8 foldf cs Hw true) as (_ & _ & _ & _ & _ & _ & Hb2 & _).
      assert (Hcs : charstep (utf8_indexer foldf) (concat cs) true (bracket_matches (mkBracket (top_neg e) cps')) (length (concat cs)) = Some None).
      { unfold charstep. rewrite (next_if_end foldf cs). reflexivity. }
      assert (Hb : bnd cs (length (concat cs))) by (exists cs, []; split; [rewrite app_nil_r; reflexivity|reflexivity]).
      rewrite (char_bracket_step (utf8_indexer foldf) (concat cs) (bnd cs) Hb2 true _ _ _ Hb Hcs). reflexivity.
Qed.

(* ---- alternations of such sequences (the balanced Alt tree of the parser against the right-nested tree the reference
   is given): both yield the results of the alternatives in order ---- *)
Fixpoint alt_of (rs : list regex) : regex :=
  match rs with
  | [] => REmpty
  | [r] => r
  | r :: t => RAlt r (alt_of t)
  end.

Section Alt.
  Variable foldf : N -> bool -> N.
  Variables unicode utf16 : bool.
  Variable cs : list (list N).
  Variable eqclass : N -> list N.
  Notation canon := (fun x => fold_code_point x unicode).
  Notation u8 := (utf8_indexer foldf).
  Notation ES := (es_results canon eqclass (map dec cs)).
  Notation IR := (ir_results u8 unicode utf16 (concat cs)).

  (* results as positions: the payload of the state (captures) is carried along unchanged *)
  Definition lift {S} (P : nat -> list nat) (x : nat * S) : list (nat * S) := map (fun j => (j, snd x)) (P (fst x)).

  (* r / n denote P: from fuel kr / kn on, from every state, the results are the positions P of the state *)
  Definition den (r : regex) (n : node) (P : nat -> list nat) (kr kn : nat) : Prop :=
    (forall f (x : mstate), (kr <= f)%nat -> ES (S f) r Fwd x = Some (lift P x)) /\
    (forall f i (G : list groupdata), (kn <= f)%nat -> (i <= length cs)%nat -> IR (S f) n true (off cs i, G) = Some (map (phi cs) (lift P (i, G)))).

  (* positions of a step and of a chain *)
  Definition posD (t : N -> bool) (i : nat) : list nat :=
    match nth_error (map dec cs) i with Some d => if t d then [S i] else [] | None => [] end.
  Lemma stepD_lift {S} t (x : nat * S) : stepD cs t x = lift (posD t) x.
  Proof. unfold stepD, lift, posD. destruct (nth_error (map dec cs) (fst x)) as [d|]; [destruct (t d)|]; reflexivity. Qed.

  Fixpoint pchain (ts : list (N -> bool)) (l : list nat) : list nat :=
    match ts with [] => l | t :: ts' => pchain ts' (flat_map (posD t) l) end.
  Lemma chainD_lift {S} ts : forall (l : list nat) (s : S), chainD cs ts (map (fun j => (j, s)) l) = map (fun j => (j, s)) (pchain ts l).
  Proof.
    induction ts as [|t ts IH]; intros l s; cbn [chainD pchain]; [reflexivity|]. rewrite <- IH. f_equal.
    induction l as [|j l IHl]; [reflexivity|]. cbn [map flat_map]. rewrite map_app, <- IHl. f_equal.
    rewrite stepD_lift. unfold lift. reflexivity.
  Qed.

  (* a sequence of atoms denotes its chain of positions *)
  Lemma den_sequence rs ns ts : Forall3 (atom foldf unicode utf16 cs eqclass) rs ns ts ->
    den (seq_of rs) (NCat ns) (fun i => pchain ts [i]) (length rs) 1.
  Proof.
    intros H3. split.
    - intros f [i c] Hf. rewrite (es_sequence foldf unicode utf16 cs eqclass rs ts); [|clear - H3; induction H3 as [|r n t rs ns ts [Hr _] _ IH]; constructor; assumption|exact Hf].
      f_equal. unfold lift. cbn [fst snd]. exact (chainD_lift ts [i] c).
    - intros f i G Hf Hi. destruct f as [|f']; [lia|].
      rewrite (proj2 (sequence_of_atoms foldf unicode utf16 cs eqclass rs ns ts H3 (length rs) f' i [] G (Nat.le_refl _) Hi)).
      f_equal. f_equal. unfold lift. cbn [fst snd]. exact (chainD_lift ts [i] G).
  Qed.

  Lemma den_weaken r n P kr kn kr' kn' : (kr <= kr')%nat -> (kn <= kn')%nat -> den r n P kr kn -> den r n P kr' kn'.
  Proof. intros H1 H2 [Hr Hn]. split; [intros f x Hf; apply Hr; lia|intros f i G Hf Hi; apply Hn; [lia|exact Hi]]. Qed.

  Lemma es_alt_unfold f a b x : ES (S f) (RAlt a b) Fwd x =
    match ES f a Fwd x, ES f b Fwd x with Some u, Some v => Some (u ++ v) | _, _ => None end.
  Proof. destruct x; reflexivity. Qed.
  Lemma ir_alt_unfold f a b x : IR (S f) (NAlt a b) true x =
    match IR f a true x, IR f b true x with Some u, Some v => Some (u ++ v) | _, _ => None end.
  Proof. destruct x; reflexivity. Qed.

  Definition catP (Ps : list (nat -> list nat)) (i : nat) : list nat := flat_map (fun P => P i) Ps.
  Lemma lift_catP {S} Ps (x : nat * S) : lift (catP Ps) x = flat_map (fun P => lift P x) Ps.
  Proof. unfold lift, catP. induction Ps as [|P Ps IH]; [reflexivity|]. cbn [flat_map]. rewrite map_app, IH. reflexivity. Qed.

  (* the reference side of a right-nested alternation *)
  Lemma es_alt_right k : forall rs Ps, Forall2 (fun r P => forall f (x : mstate), (k <= f)%nat -> ES (S f) r Fwd x = Some (lift P x)) rs Ps ->
    rs <> [] -> forall f x, (k + length rs <= f)%nat -> ES (S f) (alt_of rs) Fwd x = Some (lift (catP Ps) x).
  Proof.
    induction 1 as [|r P rs Ps Hr Hrest IH]; intros Hne f x Hf; [contradiction|]. rewrite lift_catP. cbn [flat_map].
    destruct rs as [|r2 rs'].
    - inversion Hrest; subst. cbn [alt_of flat_map]. rewrite app_nil_r. apply Hr. lia.
    - change (alt_of (r :: r2 :: rs')) with (RAlt r (alt_of (r2 :: rs'))). cbn [length] in Hf. destruct f as [|f0]; [lia|].
      rewrite es_alt_unfold. rewrite (Hr f0 x) by lia.
      rewrite (IH ltac:(discriminate) f0 x) by (cbn [length]; lia). rewrite lift_catP. reflexivity.
  Qed.

  (* the IR side: any Alt tree over the alternatives, in order *)
  Inductive atree := ALeaf (n : node) | ANode (l r : atree).
  Fixpoint to_node (t : atree) : node := match t with ALeaf n => n | ANode l r => NAlt (to_node l) (to_node r) end.
  Fixpoint leaves (t : atree) : list node := match t with ALeaf n => [n] | ANode l r => leaves l ++ leaves r end.
  Fixpoint depth (t : atree) : nat := match t with ALeaf _ => 0%nat | ANode l r => S (Nat.max (depth l) (depth r)) end.

  Lemma ir_alt_tree k : forall t Ps, Forall2 (fun n P => forall f i (G : list groupdata), (k <= f)%nat -> (i <= length cs)%nat ->
       IR (S f) n true (off cs i, G) = Some (map (phi cs) (lift P (i, G)))) (leaves t) Ps ->
    forall f i G, (k + depth t <= f)%nat -> (i <= length cs)%nat ->
      IR (S f) (to_node t) true (off cs i, G) = Some (map (phi cs) (lift (catP Ps) (i, G))).
  Proof.
    induction t as [n|l IHl r IHr]; intros Ps HF f i G Hf Hi.
    - cbn [leaves] in HF. inversion HF as [|? P ? ? Hn Hr]; subst. inversion Hr; subst. rewrite lift_catP. cbn [to_node flat_map]. rewrite app_nil_r.
      apply Hn; [cbn [depth] in Hf; lia|exact Hi].
    - cbn [leaves] in HF. apply Forall2_app_inv_l in HF as (P1 & P2 & H1 & H2 & ->).
      cbn [to_node depth] in *. destruct f as [|f0]; [lia|]. rewrite ir_alt_unfold.
      rewrite (IHl P1 H1 f0 i G) by lia. rewrite (IHr P2 H2 f0 i G) by lia.
      rewrite !lift_catP, flat_map_app, map_app. reflexivity.
  Qed.

  (* together: a right-nested reference alternation and any Alt tree over alternatives that pairwise denote the same
     positions yield the same results *)
  Theorem alternation : forall rs t Ps kr kn, Forall3 (fun r n P => den r n P kr kn) rs (leaves t) Ps -> rs <> [] ->
    den (alt_of rs) (to_node t) (catP Ps) (kr + length rs) (kn + depth t).
  Proof.
    intros rs t Ps kr kn H3 Hne. split.
    - intros f x Hf. apply (es_alt_right kr rs Ps); [|exact Hne|exact Hf].
      clear - H3. induction H3 as [|r n P rs ns Ps [Hr _] _ IH]; constructor; [exact Hr|exact IH].
    - intros f i G Hf Hi. apply (ir_alt_tree kn t Ps); [|exact Hf|exact Hi].
      clear - H3. remember (leaves t) as ns. clear Heqns. induction H3 as [|r n P rs ns Ps [_ Hn] _ IH]; constructor; [exact Hn|exact IH].
  Qed.

  (* the balanced tree Parser::make_alt builds *)
  Lemma make_alt_tree : forall fuel l, l <> [] -> (length l <= fuel)%nat ->
    exists t, make_alt fuel l = to_node t /\ leaves t = l /\ (depth t <= fuel)%nat.
  Proof.
    induction fuel as [|k IH]; intros l Hne Hl; [destruct l; [contradiction|cbn [length] in Hl; lia]|].
    destruct l as [|x [|y r]]; [contradiction|exists (ALeaf x); repeat split; cbn; lia|].
    set (l := x :: y :: r) in *. set (h := Nat.div (length l) 2).
    assert (Hh : (1 <= h /\ h < length l)%nat).
    { subst h l. cbn [length]. pose proof (Nat.div_mod (S (S (length r))) 2 ltac:(lia)). pose proof (Nat.mod_upper_bound (S (S (length r))) 2 ltac:(lia)). lia. }
    destruct (IH (firstn h l)) as (t1 & E1 & L1 & D1).
    { intros E. apply (f_equal (@length node)) in E. rewrite firstn_length in E. cbn [length] in E. lia. }
    { rewrite firstn_length. lia. }
    destruct (IH (skipn h l)) as (t2 & E2 & L2 & D2).
    { intros E. apply (f_equal (@length node)) in E. rewrite skipn_length in E. cbn [length] in E. lia. }
    { rewrite skipn_length. lia. }
    exists (ANode t1 t2). split; [|split].
    - change (make_alt (S k) l) with (NAlt (make_alt k (firstn h l)) (make_alt k (skipn h l))). rewrite E1, E2. reflexivity.
    - cbn [leaves]. rewrite L1, L2. apply firstn_skipn.
    - cbn [depth]. lia.
  Qed.

  Lemma den_ext r n P P' kr kn : (forall i, P i = P' i) -> den r n P kr kn -> den r n P' kr kn.
  Proof.
    intros HP [Hr Hn]. split.
    - intros f x Hf. rewrite (Hr f x Hf). unfold lift. rewrite HP. reflexivity.
    - intros f i G Hf Hi. rewrite (Hn f i G Hf Hi). unfold lift. cbn [fst]. rewrite HP. reflexivity.
  Qed.

  (* one alternative: a term of atoms, as Parser::make_cat builds it *)
  Lemma den_term rs ns ts : Forall3 (atom foldf unicode utf16 cs eqclass) rs ns ts ->
    den (seq_of rs) (make_cat ns) (fun i => pchain ts [i]) (length rs) 1.
  Proof.
    intros H3. destruct H3 as [|r n t rs ns ts Ha Hrest].
    - cbn [seq_of make_cat pchain length]. split; [intros f [p c] _; reflexivity|intros f i G _ _; reflexivity].
    - destruct Hrest as [|r2 n2 t2 rs ns ts Ha2 Hrest].
      + cbn [seq_of make_cat length]. apply (den_weaken r n _ 0 0); [lia|lia|].
        apply (den_ext r n (posD t)); [intros i; cbn [pchain flat_map]; rewrite app_nil_r; reflexivity|].
        destruct Ha as [Hr Hn]. split.
        * intros f x _. rewrite Hr. apply f_equal. apply stepD_lift.
        * intros f i G _ Hi. rewrite (Hn f i G Hi). apply f_equal. change (fun y : nat * list groupdata => (off cs (fst y), snd y)) with (@phi cs (list groupdata)).
          f_equal. apply stepD_lift.
      + change (make_cat (n :: n2 :: ns)) with (NCat (n :: n2 :: ns)). apply den_sequence. constructor; [exact Ha|constructor; assumption].
  Qed.

  (* an alternation of terms of atoms: the reference tree against the IR node Parser builds with make_cat / make_alt *)
  Theorem alternation_of_terms : forall rss nss tss, Forall3 (Forall3 (atom foldf unicode utf16 cs eqclass)) rss nss tss -> rss <> [] ->
    forall fuel, (length nss <= fuel)%nat -> forall m, Forall (fun rs => (length rs <= m)%nat) rss ->
    den (alt_of (map seq_of rss)) (make_alt fuel (map make_cat nss)) (catP (map (fun ts i => pchain ts [i]) tss))
        (m + length rss) (1 + fuel).
  Proof.
    intros rss nss tss H3 Hne fuel Hfuel m Hm.
    assert (Hln : length nss = length rss) by (clear - H3; induction H3; cbn [length]; congruence).
    destruct (make_alt_tree fuel (map make_cat nss)) as (t & Et & Lt & Dt).
    { destruct nss; [destruct rss; [contradiction|discriminate Hln]|discriminate]. }
    { rewrite map_length. exact Hfuel. }
    rewrite Et. apply (den_weaken _ _ _ (m + length (map seq_of rss)) (1 + depth t)); [rewrite map_length; lia|lia|].
    apply alternation; [|destruct rss; [contradiction|discriminate]].
    rewrite Lt. clear - H3 Hm. induction H3 as [|rs ns ts rss nss tss Ht Hrest IH]; cbn [map]; constructor.
    - inversion Hm; subst. apply (den_weaken _ _ _ (length rs) 1); [assumption|lia|]. apply den_term. exact Ht.
    - apply IH. inversion Hm; assumption.
  Qed.
End Alt.

(* ---- the same with zero-width atoms: ^ $ \b \B.  A general atom denotes a list of positions (one step ahead for a
   character atom, the position itself or nothing for an assertion) ---- *)
Section GSeq.
  Variable foldf : N -> bool -> N.
  Variables unicode utf16 : bool.
  Variable cs : list (list N).
  Hypothesis Hw : wf_text cs.
  Variable eqclass : N -> list N.
  Notation canon := (fun x => fold_code_point x unicode).
  Notation u8 := (utf8_indexer foldf).
  Notation text := (concat cs).
  Notation chars := (map dec cs).
  Notation ES := (es_results canon eqclass chars).
  Notation IR := (ir_results u8 unicode utf16 text).
  Notation lift := (@lift).

  Definition gatom (r : regex) (n : node) (P : nat -> list nat) : Prop :=
    (forall f (x : mstate), ES (S f) r Fwd x = Some (lift _ P x)) /\
    (forall f i (G : list groupdata), (i <= length cs)%nat -> IR (S f) n true (off cs i, G) = Some (map (phi cs) (lift _ P (i, G)))) /\
    (forall i, (i <= length cs)%nat -> Forall (fun j => (j <= length cs)%nat) (P i)).

  (* a character atom is a general atom *)
  Lemma atom_gatom r n t : atom foldf unicode utf16 cs eqclass r n t -> gatom r n (posD cs t).
  Proof.
    intros [Hr Hn]. split; [|split].
    - intros f x. rewrite Hr. apply f_equal. apply stepD_lift.
    - intros f i G Hi. rewrite (Hn f i G Hi). apply f_equal. change (fun y : nat * list groupdata => (off cs (fst y), snd y)) with (@phi cs (list groupdata)).
      f_equal. apply stepD_lift.
    - intros i Hi. unfold posD. destruct (nth_error chars i) as [d|] eqn:E; [|constructor]. destruct (t d); [|constructor].
      constructor; [|constructor]. assert (Hl : (i < length chars)%nat) by (apply nth_error_Some; congruence). rewrite map_length in Hl. lia.
  Qed.

  Fixpoint gchain (Ps : list (nat -> list nat)) (l : list nat) : list nat :=
    match Ps with [] => l | P :: Ps' => gchain Ps' (flat_map P l) end.
  Lemma gchain_flat Ps : forall l, gchain Ps l = flat_map (fun y => gchain Ps [y]) l.
  Proof.
    induction Ps as [|P Ps IH]; intros l; cbn [gchain].
    - induction l as [|y l IHl]; [reflexivity|]. cbn [flat_map app]. rewrite <- IHl. reflexivity.
    - rewrite IH, flat_map_flat_map. apply flat_map_ext. intros y. cbn [flat_map]. rewrite app_nil_r. symmetry. apply IH.
  Qed.

  Lemma lift_flat {S} (P : nat -> list nat) (l : list nat) (s : S) :
    flat_map (lift S P) (map (fun j => (j, s)) l) = map (fun j => (j, s)) (flat_map P l).
  Proof. induction l as [|j l IH]; [reflexivity|]. cbn [map flat_map]. rewrite map_app, IH. reflexivity. Qed.

  Lemma lift_flat_mst (P : nat -> list nat) (l : list nat) (G : list groupdata) :
    @flat_map mst mst (lift (list groupdata) P) (map (fun j => (j, G)) l) = map (fun j => (j, G)) (flat_map P l).
  Proof. exact (lift_flat P l G). Qed.

  (* the reference side *)
  Theorem es_gsequence : forall rs Ps, Forall2 (fun r P => forall f (x : mstate), ES (S f) r Fwd x = Some (lift _ P x)) rs Ps ->
    forall f (x : mstate), (length rs <= f)%nat -> ES (S f) (seq_of rs) Fwd x = Some (lift _ (fun i => gchain Ps [i]) x).
  Proof.
    induction 1 as [|r P rs Ps Hr Hrest IH]; intros f x Hf.
    - destruct x as [p c]. reflexivity.
    - destruct rs as [|r2 rs'].
      + inversion Hrest; subst. cbn [seq_of]. rewrite Hr. unfold lift. cbn [gchain flat_map]. rewrite app_nil_r. reflexivity.
      + cbn [length] in Hf. destruct f as [|f0]; [lia|].
        change (seq_of (r :: r2 :: rs')) with (RSeq r (seq_of (r2 :: rs'))). rewrite (es_seq_unfold unicode cs eqclass). rewrite (Hr f0 x).
        rewrite (obind_all (ES (S f0) (seq_of (r2 :: rs')) Fwd) (fun y => lift _ (fun i => gchain Ps [i]) y)) by (intros y; apply IH; cbn [length] in *; lia).
        f_equal. unfold lift. cbn [gchain flat_map]. rewrite app_nil_r. rewrite (gchain_flat Ps (P (fst x))).
        destruct x as [p c]. cbn [fst snd]. generalize (P p). intros l. induction l as [|j l IHl]; [reflexivity|].
        cbn [map flat_map]. rewrite map_app, IHl. reflexivity.
  Qed.

  (* the IR side *)
  Theorem ir_gsequence : forall ns Ps, Forall2 (fun n P => (forall f i (G : list groupdata), (i <= length cs)%nat ->
      IR (S f) n true (off cs i, G) = Some (map (phi cs) (lift _ P (i, G)))) /\
      (forall i, (i <= length cs)%nat -> Forall (fun j => (j <= length cs)%nat) (P i))) ns Ps ->
    forall f (l : list nat) (G : list groupdata), Forall (fun j => (j <= length cs)%nat) l ->
      cat_results (fun c => IR (S f) c true) ns (map (phi cs) (map (fun j => (j, G)) l)) = Some (map (phi cs) (map (fun j => (j, G)) (gchain Ps l))).
  Proof.
    induction 1 as [|n P ns Ps [Hn Hin] Hrest IH]; intros f l G Hl; cbn [cat_results gchain]; [reflexivity|].
    rewrite (obindm_mapped cs _ (lift _ P)).
    - rewrite lift_flat_mst. apply IH. clear - Hl Hin. induction l as [|j l IHl]; [constructor|]. cbn [flat_map]. inversion Hl; subst.
      apply Forall_app. split; [apply Hin; assumption|apply IHl; assumption].
    - intros [i G0] Hy. apply in_map_iff in Hy as (j & Ej & Hj). inversion Ej; subst. rewrite Forall_forall in Hl. specialize (Hl _ Hj).
      unfold phi at 1. cbn [fst snd]. apply Hn. exact Hl.
  Qed.

  Theorem sequence_of_gatoms : forall rs ns Ps, Forall3 gatom rs ns Ps ->
    den foldf unicode utf16 cs eqclass (seq_of rs) (NCat ns) (fun i => gchain Ps [i]) (length rs) 1.
  Proof.
    intros rs ns Ps H3. split.
    - intros f x Hf. apply es_gsequence; [|exact Hf]. clear - H3. induction H3 as [|r n P rs ns Ps (Hr & _ & _) _ IH]; constructor; assumption.
    - intros f i G Hf Hi. destruct f as [|f']; [lia|]. rewrite (cat_unfold foldf unicode utf16 cs).
      change [(off cs i, G)] with (map (phi cs) (map (fun j => (j, G)) [i])). rewrite (ir_gsequence ns Ps).
      + reflexivity.
      + clear - H3. induction H3 as [|r n P rs ns Ps (_ & Hn & Hin) _ IH]; constructor; [split; assumption|assumption].
      + constructor; [exact Hi|constructor].
  Qed.

  (* ---- the assertions ^ $ \b \B ---- *)
  Lemma peek_right_at i : (i <= length cs)%nat -> peek_right u8 text (off cs i) = Ok (nth_error chars i).
  Proof.
    intros Hi. unfold peek_right. cbn [ix_next_right utf8_indexer]. rewrite nth_error_map.
    destruct (nth_error cs i) as [c|] eqn:E; cbn [option_map].
    - assert (Hc : wf_char c = true) by (unfold wf_text in Hw; rewrite Forall_forall in Hw; apply Hw; eapply nth_error_In; exact E).
      rewrite (split_at cs i c E) at 1. rewrite concat_mid. unfold off. rewrite (u8_right_at _ c _ Hc). reflexivity.
    - assert (i = length cs) by (apply nth_error_None in E; lia). subst i. rewrite (off_end cs). unfold u8_next_right. rewrite Nat.eqb_refl. reflexivity.
  Qed.
  Lemma peek_left_at i : (i <= length cs)%nat -> peek_left u8 text (off cs i) = Ok (match i with O => None | S j => nth_error chars j end).
  Proof.
    intros Hi. unfold peek_left. cbn [ix_next_left utf8_indexer]. destruct i as [|j].
    - unfold off. cbn [firstn concat length]. reflexivity.
    - rewrite nth_error_map. destruct (nth_error cs j) as [c|] eqn:E; [|apply nth_error_None in E; lia]. cbn [option_map].
      assert (Hc : wf_char c = true) by (unfold wf_text in Hw; rewrite Forall_forall in Hw; apply Hw; eapply nth_error_In; exact E).
      rewrite (off_S cs j c E). rewrite (split_at cs j c E) at 1. rewrite concat_mid. unfold off. rewrite (u8_left_at _ c _ Hc). reflexivity.
  Qed.

  Definition assertP (cond : nat -> bool) (i : nat) : list nat := if cond i then [i] else [].
  Lemma assert_inside cond i : (i <= length cs)%nat -> Forall (fun j => (j <= length cs)%nat) (assertP cond i).
  Proof. intros Hi. unfold assertP. destruct (cond i); repeat constructor. exact Hi. Qed.

  Definition bol_cond (ml : bool) (i : nat) : bool :=
    (i =? 0)%nat || (ml && match i with O => false | S q => match nth_error chars q with Some c => is_lt c | None => false end end).
  Theorem bol_is_gatom ml : gatom (RBol ml) (NAnchor true ml) (assertP (bol_cond ml)).
  Proof.
    split; [|split; [|intros i Hi; apply assert_inside; exact Hi]].
    - intros f [p c]. cbn [es_results]. unfold lift, assertP, bol_cond. cbn [fst snd].
      match goal with |- Some (if ?b then _ else _) = Some (map _ (if ?b' then _ else _)) => change b' with b; destruct b end; reflexivity.
    - intros f i G Hi. cbn [ir_results]. unfold cond_results, start_of_line. rewrite (peek_left_at i Hi). cbn [bindR].
      unfold lift, assertP, bol_cond. cbn [fst snd]. destruct i as [|j]; [reflexivity|].
      assert (Hj : (j < length chars)%nat) by (rewrite map_length; lia). destruct (nth_error chars j) as [c|] eqn:E; [|apply nth_error_None in E; lia].
      cbn [Nat.eqb orb]. change (is_line_terminator c) with (is_lt c). destruct (ml && is_lt c); reflexivity.
  Qed.

  Definition eol_cond (ml : bool) (i : nat) : bool :=
    (i =? length chars)%nat || (ml && match nth_error chars i with Some c => is_lt c | None => false end).
  Theorem eol_is_gatom ml : gatom (REol ml) (NAnchor false ml) (assertP (eol_cond ml)).
  Proof.
    split; [|split; [|intros i Hi; apply assert_inside; exact Hi]].
    - intros f [p c]. cbn [es_results]. unfold lift, assertP, eol_cond. cbn [fst snd].
      match goal with |- Some (if ?b then _ else _) = Some (map _ (if ?b' then _ else _)) => change b' with b; destruct b end; reflexivity.
    - intros f i G Hi. cbn [ir_results]. unfold cond_results, end_of_line. rewrite (peek_right_at i Hi). cbn [bindR].
      unfold lift, assertP, eol_cond. cbn [fst snd]. rewrite map_length.
      destruct (nth_error chars i) as [c|] eqn:E.
      + assert (Hl : (i < length chars)%nat) by (apply nth_error_Some; congruence). rewrite map_length in Hl.
        replace (i =? length cs)%nat with false by (symmetry; apply Nat.eqb_neq; lia). cbn [orb].
        change (is_line_terminator c) with (is_lt c). destruct (ml && is_lt c); reflexivity.
      + apply nth_error_None in E. rewrite map_length in E. replace (i =? length cs)%nat with true by (symmetry; apply Nat.eqb_eq; lia). reflexivity.
  Qed.

  Lemma is_word_eq extra c : is_word extra c = (if extra then is_word_char c || (c =? 383) || (c =? 8490) else is_word_char c).
  Proof.
    unfold is_word, is_word_char.
    generalize (48 <=? c) (c <=? 57) (65 <=? c) (c <=? 90) (97 <=? c) (c <=? 122) (c =? 95) (c =? 383) (c =? 8490). intros.
    destruct extra; btauto.
  Qed.

  Definition wb_cond (inv extra : bool) (i : nat) : bool := xorb inv (xorb (word_before chars extra i) (word_at chars extra i)).
  Theorem wordb_is_gatom inv extra : gatom (RWordB inv extra) (NWordBoundary inv extra) (assertP (wb_cond inv extra)).
  Proof.
    split; [|split; [|intros i Hi; apply assert_inside; exact Hi]].
    - intros f [p c]. cbn [es_results]. unfold lift, assertP, wb_cond. cbn [fst snd].
      match goal with |- Some (if ?b then _ else _) = Some (map _ (if ?b' then _ else _)) => change b' with b; destruct b end; reflexivity.
    - intros f i G Hi. cbn [ir_results]. unfold cond_results, word_boundary. rewrite (peek_left_at i Hi), (peek_right_at i Hi). cbn [bindR].
      unfold lift, assertP, wb_cond, word_before, word_at. cbn [fst snd].
      assert (El : match (match i with O => None | S j => nth_error chars j end) with
                   | Some c => if extra then is_word_char c || (c =? 383) || (c =? 8490) else is_word_char c | None => false end =
                   match i with O => false | S q => match nth_error chars q with Some c => is_word extra c | None => false end end).
      { destruct i as [|j]; [reflexivity|]. destruct (nth_error chars j) as [c|]; [rewrite is_word_eq|]; reflexivity. }
      assert (Er : match nth_error chars i with
                   | Some c => if extra then is_word_char c || (c =? 383) || (c =? 8490) else is_word_char c | None => false end =
                   match nth_error chars i with Some c => is_word extra c | None => false end).
      { destruct (nth_error chars i) as [c|]; [rewrite is_word_eq|]; reflexivity. }
      rewrite <- El, <- Er.
      generalize (match (match i with O => None | S j => nth_error chars j end) with
                  | Some c => if extra then is_word_char c || (c =? 383) || (c =? 8490) else is_word_char c | None => false end).
      generalize (match nth_error chars i with
                  | Some c => if extra then is_word_char c || (c =? 383) || (c =? 8490) else is_word_char c | None => false end).
      intros rw lw. destruct lw, rw, inv; reflexivity.
  Qed.
End GSeq.

(* ---- alternations of terms of general atoms: the fragment  atoms, assertions, concatenation, alternation ---- *)
Section GAlt.
  Variable foldf : N -> bool -> N.
  Variables unicode utf16 : bool.
  Variable cs : list (list N).
  Hypothesis Hw : wf_text cs.
  Variable eqclass : N -> list N.
  Notation gatom := (gatom foldf unicode utf16 cs eqclass).
  Notation den := (den foldf unicode utf16 cs eqclass).

  Lemma den_gterm rs ns Ps : Forall3 gatom rs ns Ps -> den (seq_of rs) (make_cat ns) (fun i => gchain Ps [i]) (length rs) 1.
  Proof.
    intros H3. destruct H3 as [|r n P rs ns Ps Ha Hrest].
    - cbn [seq_of make_cat gchain length]. split; [intros f [p c] _; reflexivity|intros f i G _ _; reflexivity].
    - destruct Hrest as [|r2 n2 P2 rs ns Ps Ha2 Hrest].
      + cbn [seq_of make_cat length]. destruct Ha as (Hr & Hn & _). split.
        * intros f x _. rewrite Hr. unfold lift. cbn [gchain flat_map]. rewrite app_nil_r. reflexivity.
        * intros f i G _ Hi. rewrite (Hn f i G Hi). unfold lift. cbn [gchain flat_map fst]. rewrite app_nil_r. reflexivity.
      + change (make_cat (n :: n2 :: ns)) with (NCat (n :: n2 :: ns)). apply sequence_of_gatoms. constructor; [exact Ha|constructor; assumption].
  Qed.

  Theorem alternation_of_gterms : forall rss nss Pss, Forall3 (Forall3 gatom) rss nss Pss -> rss <> [] ->
    forall fuel, (length nss <= fuel)%nat -> forall m, Forall (fun rs => (length rs <= m)%nat) rss ->
    den (alt_of (map seq_of rss)) (make_alt fuel (map make_cat nss)) (catP (map (fun Ps i => gchain Ps [i]) Pss))
        (m + length rss) (1 + fuel).
  Proof.
    intros rss nss Pss H3 Hne fuel Hfuel m Hm.
    assert (Hln : length nss = length rss) by (clear - H3; induction H3; cbn [length]; congruence).
    destruct (make_alt_tree foldf unicode fuel (map make_cat nss)) as (t & Et & Lt & Dt).
    { destruct nss; [destruct rss; [contradiction|discriminate Hln]|discriminate]. }
    { rewrite map_length. exact Hfuel. }
    rewrite Et. apply (den_weaken foldf unicode utf16 cs eqclass _ _ _ (m + length (map seq_of rss)) (1 + depth t)); [rewrite map_length; lia|lia|].
    apply alternation; [|destruct rss; [contradiction|discriminate]].
    rewrite Lt. clear - H3 Hm Hw. induction H3 as [|rs ns Ps rss nss Pss Ht Hrest IH]; cbn [map]; constructor.
    - inversion Hm; subst. apply (den_weaken foldf unicode utf16 cs eqclass _ _ _ (length rs) 1); [assumption|lia|]. apply den_gterm. exact Ht.
    - apply IH. inversion Hm; assumption.
  Qed.
End GAlt.

(* ---- closure under nesting: (?: ... ) groups.  A factor may itself be a group, i.e. anything that denotes positions from
   some fuel on; sequences (make_cat) and alternations (make_alt) of such factors denote positions again, with explicit
   fuel bounds, so the construction can be iterated to any nesting depth ---- *)
Section Nest.
  Variable foldf : N -> bool -> N.
  Variables unicode utf16 : bool.
  Variable cs : list (list N).
  Variable eqclass : N -> list N.
  Notation canon := (fun x => fold_code_point x unicode).
  Notation u8 := (utf8_indexer foldf).
  Notation ES := (es_results canon eqclass (map dec cs)).
  Notation IR := (ir_results u8 unicode utf16 (concat cs)).
  Notation den := (den foldf unicode utf16 cs eqclass).

  Definition insideP (P : nat -> list nat) : Prop := forall i, (i <= length cs)%nat -> Forall (fun j => (j <= length cs)%nat) (P i).
  Definition gden (r : regex) (n : node) (P : nat -> list nat) (kr kn : nat) : Prop := den r n P kr kn /\ insideP P.

  Lemma gatom_gden r n P : gatom foldf unicode utf16 cs eqclass r n P -> gden r n P 0 0.
  Proof. intros (Hr & Hn & Hi). split; [split; [intros f x _; apply Hr|intros f i G _ Hl; apply Hn; exact Hl]|exact Hi]. Qed.

  Lemma gden_weaken r n P kr kn kr' kn' : (kr <= kr')%nat -> (kn <= kn')%nat -> gden r n P kr kn -> gden r n P kr' kn'.
  Proof. intros H1 H2 [Hd Hi]. split; [eapply den_weaken; eauto|exact Hi]. Qed.

  Lemma gchain_inside Ps : Forall insideP Ps -> forall l, Forall (fun j => (j <= length cs)%nat) l -> Forall (fun j => (j <= length cs)%nat) (gchain Ps l).
  Proof.
    induction 1 as [|P Ps HP HPs IH]; intros l Hl; cbn [gchain]; [exact Hl|]. apply IH.
    clear - HP Hl. induction l as [|j l IHl]; [constructor|]. cbn [flat_map]. inversion Hl; subst. apply Forall_app. split; [apply HP; assumption|apply IHl; assumption].
  Qed.

  (* the reference side of a sequence of factors that work from fuel k on *)
  Lemma es_nsequence k : forall rs Ps, Forall2 (fun r P => forall f (x : mstate), (k <= f)%nat -> ES (S f) r Fwd x = Some (lift P x)) rs Ps ->
    forall f (x : mstate), (k + length rs <= f)%nat -> ES (S f) (seq_of rs) Fwd x = Some (lift (fun i => gchain Ps [i]) x).
  Proof.
    induction 1 as [|r P rs Ps Hr Hrest IH]; intros f x Hf.
    - destruct x as [p c]. reflexivity.
    - destruct rs as [|r2 rs'].
      + inversion Hrest; subst. cbn [seq_of]. rewrite Hr by (cbn [length] in Hf; lia). unfold lift. cbn [gchain flat_map]. rewrite app_nil_r. reflexivity.
      + cbn [length] in Hf. destruct f as [|f0]; [lia|].
        change (seq_of (r :: r2 :: rs')) with (RSeq r (seq_of (r2 :: rs'))). rewrite (es_seq_unfold unicode cs eqclass). rewrite (Hr f0 x) by lia.
        rewrite (obind_all (ES (S f0) (seq_of (r2 :: rs')) Fwd) (fun y => lift (fun i => gchain Ps [i]) y)) by (intros y; apply IH; cbn [length] in *; lia).
        f_equal. unfold lift. cbn [gchain flat_map]. rewrite app_nil_r. rewrite (gchain_flat Ps (P (fst x))).
        destruct x as [p c]. cbn [fst snd]. generalize (P p). intros l. induction l as [|j l IHl]; [reflexivity|].
        cbn [map flat_map]. rewrite map_app, IHl. reflexivity.
  Qed.

  Lemma ir_nsequence k : forall ns Ps, Forall2 (fun n P => (forall f i (G : list groupdata), (k <= f)%nat -> (i <= length cs)%nat ->
      IR (S f) n true (off cs i, G) = Some (map (phi cs) (lift P (i, G)))) /\ insideP P) ns Ps ->
    forall f (l : list nat) (G : list groupdata), (k <= f)%nat -> Forall (fun j => (j <= length cs)%nat) l ->
      cat_results (fun c => IR (S f) c true) ns (map (phi cs) (map (fun j => (j, G)) l)) = Some (map (phi cs) (map (fun j => (j, G)) (gchain Ps l))).
  Proof.
    induction 1 as [|n P ns Ps [Hn Hin] Hrest IH]; intros f l G Hf Hl; cbn [cat_results gchain]; [reflexivity|].
    rewrite (obindm_mapped cs _ (lift P)).
    - rewrite (lift_flat_mst P l G). apply IH; [exact Hf|]. clear - Hl Hin. induction l as [|j l IHl]; [constructor|]. cbn [flat_map]. inversion Hl; subst.
      apply Forall_app. split; [apply Hin; assumption|apply IHl; assumption].
    - intros [i G0] Hy. apply in_map_iff in Hy as (j & Ej & Hj). inversion Ej; subst. rewrite Forall_forall in Hl. specialize (Hl _ Hj).
      unfold phi at 1. cbn [fst snd]. apply Hn; [exact Hf|exact Hl].
  Qed.

  (* a term of factors, as make_cat builds it *)
  Theorem nested_term kr kn : forall rs ns Ps, Forall3 (fun r n P => gden r n P kr kn) rs ns Ps ->
    gden (seq_of rs) (make_cat ns) (fun i => gchain Ps [i]) (kr + length rs) (kn + 1).
  Proof.
    intros rs ns Ps H3.
    assert (HI : Forall insideP Ps) by (clear - H3; induction H3 as [|r n P rs ns Ps [_ Hi] _ IH]; constructor; assumption).
    split; [|intros i Hi; apply gchain_inside; [exact HI|constructor; [exact Hi|constructor]]].
    destruct H3 as [|r n P rs ns Ps Ha Hrest].
    - cbn [seq_of make_cat gchain length]. split; [intros f [p c] _; reflexivity|intros f i G _ _; reflexivity].
    - destruct Hrest as [|r2 n2 P2 rs ns Ps Ha2 Hrest].
      + cbn [seq_of make_cat length]. destruct Ha as [[Hr Hn] _]. split.
        * intros f x Hf. rewrite Hr by lia. unfold lift. cbn [gchain flat_map]. rewrite app_nil_r. reflexivity.
        * intros f i G Hf Hi. rewrite (Hn f i G ltac:(lia) Hi). unfold lift. cbn [gchain flat_map fst]. rewrite app_nil_r. reflexivity.
      + change (make_cat (n :: n2 :: ns)) with (NCat (n :: n2 :: ns)).
        assert (H3' : Forall3 (fun r n P => gden r n P kr kn) (r :: r2 :: rs) (n :: n2 :: ns) (P :: P2 :: Ps)) by (constructor; [exact Ha|constructor; assumption]).
        split.
        * intros f x Hf. apply (es_nsequence kr); [|exact Hf]. clear - H3'. induction H3' as [|r0 n0 P0 rs0 ns0 Ps0 [[Hr0 _] _] _ IH]; constructor; assumption.
        * intros f i G Hf Hi. destruct f as [|f']; [lia|]. rewrite (cat_unfold foldf unicode utf16 cs).
          change [(off cs i, G)] with (map (phi cs) (map (fun j => (j, G)) [i])). rewrite (ir_nsequence kn (n :: n2 :: ns) (P :: P2 :: Ps)).
          -- reflexivity.
          -- clear - H3'. induction H3' as [|r0 n0 P0 rs0 ns0 Ps0 [[_ Hn0] Hi0] _ IH]; constructor; [split; assumption|assumption].
          -- lia.
          -- constructor; [exact Hi|constructor].
  Qed.

  (* an alternation of terms, as make_alt builds it *)
  Theorem nested_alternation kr kn : forall rs ns Ps, Forall3 (fun r n P => gden r n P kr kn) rs ns Ps -> rs <> [] ->
    forall fuel, (length ns <= fuel)%nat ->
    gden (alt_of rs) (make_alt fuel ns) (catP Ps) (kr + length rs) (kn + fuel).
  Proof.
    intros rs ns Ps H3 Hne fuel Hfuel.
    assert (Hln : length ns = length rs) by (clear - H3; induction H3; cbn [length]; congruence).
    split.
    - destruct (make_alt_tree foldf unicode fuel ns) as (t & Et & Lt & Dt).
      { destruct ns; [destruct rs; [contradiction|discriminate Hln]|discriminate]. }
      { exact Hfuel. }
      rewrite Et. apply (den_weaken foldf unicode utf16 cs eqclass _ _ _ (kr + length rs) (kn + depth t)); [lia|lia|].
      apply alternation; [|exact Hne]. rewrite Lt. clear - H3. induction H3 as [|r n P rs ns Ps [Hd _] _ IH]; constructor; assumption.
    - intros i Hi. unfold catP. clear - H3 Hi. induction H3 as [|r n P rs ns Ps [_ HP] _ IH]; [constructor|]. cbn [flat_map]. apply Forall_app. split; [apply HP; exact Hi|exact IH].
  Qed.
  (* a lookahead (?=r) / (?!r) over a position-denoting body is a zero-width factor again: it keeps the position when the
     body has (has no) result; captures cannot change since a position-denoting body carries them along unchanged *)
  Definition lookP (neg : bool) (P : nat -> list nat) (i : nat) : list nat :=
    match P i with [] => if neg then [i] else [] | _ :: _ => if neg then [] else [i] end.
  Lemma es_look_unfold f neg b x : ES (S f) (RLook true neg b) Fwd x =
    match ES f b Fwd x with
    | None => None
    | Some [] => Some (if neg then [x] else [])
    | Some (y :: _) => Some (if neg then [] else [(fst x, snd y)])
    end.
  Proof. destruct x; reflexivity. Qed.
  Lemma ir_look_unfold f neg sg eg c x : IR (S f) (NLookaround neg false sg eg c) true x =
    match IR f c true x with
    | None => None
    | Some [] => Some (if neg then [x] else [])
    | Some (y :: _) => Some (if neg then [] else [(fst x, snd y)])
    end.
  Proof. destruct x; reflexivity. Qed.
  Theorem lookahead_gden kr kn r n P neg sg eg : gden r n P kr kn ->
    gden (RLook true neg r) (NLookaround neg false sg eg n) (lookP neg P) (S kr) (S kn).
  Proof.
    intros [[Hr Hn] Hi]. split; [split|].
    - intros f x Hf. destruct f as [|f']; [lia|]. rewrite es_look_unfold, (Hr f' x) by lia. unfold lift, lookP.
      destruct x as [p c]. cbn [fst snd]. destruct (P p) as [|j l]; cbn [map]; destruct neg; reflexivity.
    - intros f i G Hf Hl. destruct f as [|f']; [lia|]. rewrite ir_look_unfold, (Hn f' i G) by (lia || exact Hl). unfold lift, lookP.
      cbn [fst snd]. destruct (P i) as [|j l]; cbn [map]; destruct neg; reflexivity.
    - intros i Hl. unfold lookP. destruct (P i); destruct neg; repeat constructor; exact Hl.
  Qed.
End Nest.
