(* IRGroups.v — the IR semantics changes only the capture slots a node owns: every result of a node whose
   capture groups and loop reset ranges lie in [sg, eg) has the same number of slots and the same contents
   outside [sg, eg). *)
From RV Require Import Base.
From RV.Model Require Import Utf8 Indexer CodePointSet Insn IR Optimizer Unfold Emit.
From RV.Spec Require Import IRSem IRShape.

Section G.
  Variable ix : indexer.
  Variable unicode utf16 : bool.
  Variable h : hay.
  Variables sg eg : nat.

  Definition gframe (G G' : list groupdata) : Prop :=
    length G' = length G /\ forall i, (i < sg \/ eg <= i)%nat -> nth_error G' i = nth_error G i.

  Lemma gframe_refl G : gframe G G. Proof. split; auto. Qed.
  Lemma gframe_trans a b c : gframe a b -> gframe b c -> gframe a c.
  Proof. intros [A1 A2] [B1 B2]. split; [congruence|]. intros i Hi. rewrite B2 by assumption. apply A2; assumption. Qed.

  Lemma gframe_upd G g f G' : (sg <= g < eg)%nat -> upd_group g f G = Some G' -> gframe G G'.
  Proof.
    intros Hg Hu. unfold upd_group in Hu. destruct (nth_error G g); [|discriminate]. inversion Hu; subst.
    split; [apply set_nth_length|]. intros i Hi. apply nth_error_set_nth_neq. lia.
  Qed.

  Lemma gframe_reset : forall n lo G G', (sg <= lo)%nat -> (lo + n <= eg)%nat -> reset_groups G lo n = Some G' -> gframe G G'.
  Proof.
    induction n as [|n IH]; intros lo G G' H1 H2 Hr; simpl in Hr.
    - inversion Hr; subst. apply gframe_refl.
    - destruct (upd_group lo (fun _ => gd_empty) G) as [G1|] eqn:Eu; [|discriminate].
      eapply gframe_trans; [eapply gframe_upd; [|exact Eu]; lia | eapply IH; [| |exact Hr]; lia].
  Qed.

  Definition okres (G : list groupdata) (l : list mst) : Prop := Forall (fun y => gframe G (snd y)) l.

  Lemma okres_obindm {A} (rf : A -> option (list mst)) (P : A -> Prop) G : forall xs ys,
    Forall P xs -> (forall x r, P x -> rf x = Some r -> okres G r) -> obindm rf xs = Some ys -> okres G ys.
  Proof.
    induction xs as [|x xs IH]; intros ys HP Hk Hb; simpl in Hb.
    - inversion Hb; subst. constructor.
    - destruct (rf x) as [r|] eqn:Er; [|discriminate]. destruct (obindm rf xs) as [r2|] eqn:E2; [|discriminate].
      inversion Hb; subst. inversion HP; subst. apply Forall_app. split; [eapply Hk; eauto | eapply IH; eauto].
  Qed.

  Lemma okres_results_of G p r l : results_of (p, G) r = Some l -> okres G l.
  Proof. destruct r as [[q|]|]; simpl; intro H; inversion H; subst; repeat constructor; simpl; auto. Qed.
  Lemma okres_cond G p r l : cond_results (p, G) r = Some l -> okres G l.
  Proof. destruct r as [e|[|]]; simpl; intro H; inversion H; subst; repeat constructor; simpl; auto. Qed.

  Lemma okres_l1 stepf chk G mn mx gr : forall lf k q l, l1_results stepf chk G mn mx gr lf k q = Some l -> okres G l.
  Proof.
    induction lf as [|lf IH]; intros k q l H; [discriminate|]. cbn [l1_results] in H.
    destruct (if k <? max_val mx then stepf q else Some None) as [[q'|]|]; [| |discriminate].
    - destruct (chk q q'); [|discriminate]. destruct (l1_results stepf chk G mn mx gr lf (k + 1) q') as [it|] eqn:Ei; [|discriminate].
      apply IH in Ei. inversion H; subst. destruct (mn <=? k); [|exact Ei].
      destruct gr; [apply Forall_app; split; auto|constructor; auto]; repeat constructor; simpl; auto.
    - inversion H; subst. destruct (mn <=? k); repeat constructor; simpl; auto.
  Qed.

  Lemma okres_trans G G1 l : gframe G G1 -> okres G1 l -> okres G l.
  Proof. intros Hg Hl. eapply Forall_impl; [|exact Hl]. intros y Hy. eapply gframe_trans; eauto. Qed.

  Definition node_gframe (f : nat) : Prop := forall n fwd p G l,
    caps_in sg eg n = true -> ir_results ix unicode utf16 h f n fwd (p, G) = Some l -> okres G l.

  Lemma cat_gframe f (IHf : node_gframe f) fwd G : forall l xs ys,
    (fix go (l : list node) : bool := match l with [] => true | x :: t => caps_in sg eg x && go t end) l = true ->
    okres G xs -> cat_results (fun c => ir_results ix unicode utf16 h f c fwd) l xs = Some ys -> okres G ys.
  Proof.
    induction l as [|c l IH]; intros xs ys Hc Hx Hr; simpl in Hr.
    - inversion Hr; subst. exact Hx.
    - apply andb_true_iff in Hc as [Hc1 Hc2].
      destruct (obindm (fun x => ir_results ix unicode utf16 h f c fwd x) xs) as [ys1|] eqn:Eb; [|discriminate].
      apply (IH ys1 ys Hc2); [|exact Hr].
      eapply (okres_obindm _ (fun y => gframe G (snd y))); [exact Hx| |exact Eb].
      intros [q Gq] r Hq Hrr. simpl in Hq. eapply okres_trans; [exact Hq|]. eapply IHf; eauto.
  Qed.

  Lemma loop_gframe f (IHf : node_gframe f) body fwd mn mx gr egs ege :
    caps_in sg eg body = true -> ((ege <=? egs)%nat || ((sg <=? egs)%nat && (ege <=? eg)%nat)) = true ->
    forall lf k entry q G0 Gq l, gframe G0 Gq ->
      loop_results (ir_results ix unicode utf16 h f body fwd) mn mx gr egs ege lf k entry (q, Gq) = Some l -> okres G0 l.
  Proof.
    intros Hcb Hrange. induction lf as [|lf IH]; intros k entry q G0 Gq l Hg Hr; [discriminate|].
    cbn [loop_results] in Hr.
    destruct ((0 <? k) && (mn <? k) && (entry =? fst (q, Gq))%nat); [inversion Hr; constructor|].
    assert (Hy : okres G0 [(q, Gq)]) by (constructor; [exact Hg|constructor]).
    assert (Hit : forall it,
              match reset_groups (snd (q, Gq)) egs (ege - egs) with
              | None => None
              | Some g1 => match ir_results ix unicode utf16 h f body fwd (fst (q, Gq), g1) with
                           | None => None
                           | Some zs => obindm (loop_results (ir_results ix unicode utf16 h f body fwd) mn mx gr egs ege lf (k + 1) (fst (q, Gq))) zs
                           end
              end = Some it -> okres G0 it).
    { intros it Hi. simpl in Hi.
      destruct (reset_groups Gq egs (ege - egs)) as [g1|] eqn:Er; [|discriminate].
      destruct (ir_results ix unicode utf16 h f body fwd (q, g1)) as [zs|] eqn:Ez; [|discriminate].
      assert (Hg1 : gframe Gq g1).
      { apply orb_true_iff in Hrange as [Hle|Hin].
        - apply Nat.leb_le in Hle. replace (ege - egs)%nat with 0%nat in Er by lia. simpl in Er. inversion Er; subst. apply gframe_refl.
        - apply andb_true_iff in Hin as [H1 H2]. apply Nat.leb_le in H1. apply Nat.leb_le in H2.
          destruct (Nat.le_gt_cases ege egs) as [Hle|Hgt].
          + replace (ege - egs)%nat with 0%nat in Er by lia. simpl in Er. inversion Er; subst. apply gframe_refl.
          + eapply gframe_reset; [| |exact Er]; lia. }
      pose proof (IHf body fwd q g1 zs Hcb Ez) as Hz.
      eapply (okres_obindm _ (fun y => gframe g1 (snd y))); [exact Hz| |exact Hi].
      intros [q' Gq'] r Hq' Hrr. simpl in Hq'. eapply (IH (k + 1) q q' G0 Gq' r); [|exact Hrr].
      eapply gframe_trans; [exact Hg|]. eapply gframe_trans; eauto. }
    destruct (negb (k <? max_val mx) && negb (mn <=? k)); [inversion Hr; constructor|].
    destruct (negb (k <? max_val mx)); [inversion Hr; subst; exact Hy|].
    destruct (negb (mn <=? k)); [apply Hit; exact Hr|].
    match type of Hr with match ?itx with _ => _ end = _ => destruct itx as [it|] eqn:Eit; [|discriminate] end.
    specialize (Hit it eq_refl). inversion Hr; subst.
    destruct gr; [apply Forall_app; split; auto|constructor; auto; inversion Hy; auto].
  Qed.

  Theorem ir_gframe : forall f, node_gframe f.
  Proof.
    induction f as [|f IHf]; intros n fwd p G l Hc Hr; [discriminate|].
    destruct n as [ | |c|bs|bs|cs|l0|a b| | |sol ml|inv ui|id c nm|g ic|b|alts icase|ng bw sg' eg' c|body mn mx gr egs ege|body mn mx gr];
      cbn [ir_results] in Hr; try (eapply okres_results_of; exact Hr); try (eapply okres_cond; exact Hr); try discriminate.
    - inversion Hr; subst. repeat constructor; simpl; auto.
    - inversion Hr; subst. repeat constructor; simpl; auto.
    - destruct (leaf_code (negb fwd) (NByteSet bs)); [eapply okres_results_of; exact Hr|discriminate].
    - destruct (leaf_code (negb fwd) (NCharSet cs)); [eapply okres_results_of; exact Hr|discriminate].
    - simpl in Hc. eapply (cat_gframe f IHf fwd G l0 [(p, G)]); eauto; try (repeat constructor; apply gframe_refl).
    - simpl in Hc. apply andb_true_iff in Hc as [Ha Hb].
      destruct (ir_results ix unicode utf16 h f a fwd (p, G)) as [u|] eqn:Eu; [|discriminate].
      destruct (ir_results ix unicode utf16 h f b fwd (p, G)) as [v|] eqn:Ev; [|discriminate].
      inversion Hr; subst. apply Forall_app. split; [eapply (IHf a); eauto | eapply (IHf b); eauto].
    - (* CaptureGroup *)
      simpl in Hc. apply andb_true_iff in Hc as [Hc Hcc]. apply andb_true_iff in Hc as [H1 H2].
      apply Nat.leb_le in H1. apply Nat.ltb_lt in H2.
      destruct (upd_group id (set_group_start fwd p) G) as [G1|] eqn:E1; [|discriminate].
      destruct (ir_results ix unicode utf16 h f c fwd (p, G1)) as [lc|] eqn:Ec; [|discriminate].
      pose proof (gframe_upd _ _ _ _ (conj H1 H2) E1) as Hg1.
      pose proof (IHf c fwd p G1 lc Hcc Ec) as Hlc.
      eapply (okres_obindm _ (fun y => gframe G1 (snd y))); [exact Hlc| |exact Hr].
      intros [q Gq] r Hq Hrr. simpl in Hq, Hrr.
      destruct (upd_group id (set_group_end fwd q) Gq) as [G2|] eqn:E2; [|discriminate]. inversion Hrr; subst.
      constructor; [|constructor]. simpl. eapply gframe_trans; [exact Hg1|]. eapply gframe_trans; [exact Hq|].
      eapply gframe_upd; eauto.
    - (* BackRef *)
      destruct (g =? 0); [discriminate|]. destruct (nth_error G (N.to_nat (g - 1))) as [gd|]; [|discriminate].
      destruct (gd_range gd) as [[rs re]|]; [|inversion Hr; subst; repeat constructor; simpl; auto].
      destruct (backref_match ix (dummy_prog unicode) ic fwd h p rs re) as [e|[q|]]; inversion Hr; subst; repeat constructor; simpl; auto.
    - (* Bracket *)
      destruct (bracket_as_ascii b); [eapply okres_results_of; exact Hr|].
      destruct (next_if ix fwd h p (bracket_matches b)) as [e|[q|]]; inversion Hr; subst; repeat constructor; simpl; auto.
    - (* StringSet *)
      unfold strset_results in Hr.
      eapply (okres_obindm _ (fun _ => True)); [| |exact Hr].
      + apply Forall_forall. auto.
      + intros a r _ Ha. cbv beta in Ha. destruct (if utf16 then None else lower_code_point_sequence a icase unicode); [|discriminate Ha].
        eapply okres_results_of; exact Ha.
    - (* Lookaround *)
      simpl in Hc.
      destruct (ir_results ix unicode utf16 h f c (negb bw) (p, G)) as [[|y rest]|] eqn:Ec; [| |discriminate].
      + inversion Hr; subst. destruct ng; repeat constructor; simpl; auto.
      + pose proof (IHf c (negb bw) p G _ Hc Ec) as Hy. inversion Hy as [|? ? Hy1 Hy2]; subst.
        inversion Hr; subst. destruct ng; [constructor|constructor; [exact Hy1|constructor]].
    - (* Loop *)
      simpl in Hc. apply andb_true_iff in Hc as [Hrange Hcb].
      eapply (loop_gframe f IHf body fwd mn mx gr egs ege Hcb Hrange f 0 p p G G l); [apply gframe_refl|exact Hr].
    - (* Loop1CharBody *)
      destruct (single_step ix unicode h (negb fwd) body fwd) as [stepf|]; [|discriminate].
      eapply okres_l1; exact Hr.
  Qed.
End G.
