(* NodeInd.v — induction principle for the nested IR node type, and structural facts about emit_node. *)
From RV Require Import Base.
From RV.Model Require Import Utf8 Indexer CodePointSet Insn IR Optimizer Unfold Emit.

Section NodeInd.
  Variable P : node -> Prop.
  Hypothesis H_leaf : forall n, (match n with
                                 | NCat _ | NAlt _ _ | NCaptureGroup _ _ _ | NLookaround _ _ _ _ _
                                 | NLoop _ _ _ _ _ _ | NLoop1CharBody _ _ _ _ => False
                                 | _ => True end) -> P n.
  Hypothesis H_cat : forall l, Forall P l -> P (NCat l).
  Hypothesis H_alt : forall a b, P a -> P b -> P (NAlt a b).
  Hypothesis H_cg : forall id c nm, P c -> P (NCaptureGroup id c nm).
  Hypothesis H_look : forall ng bw sg eg c, P c -> P (NLookaround ng bw sg eg c).
  Hypothesis H_loop : forall b mn mx g egs ege, P b -> P (NLoop b mn mx g egs ege).
  Hypothesis H_l1 : forall b mn mx g, P b -> P (NLoop1CharBody b mn mx g).

  Fixpoint node_ind2 (n : node) : P n :=
    match n with
    | NCat l => H_cat l ((fix go (l : list node) : Forall P l :=
                            match l with [] => Forall_nil P | x :: t => Forall_cons x (node_ind2 x) (go t) end) l)
    | NAlt a b => H_alt a b (node_ind2 a) (node_ind2 b)
    | NCaptureGroup id c nm => H_cg id c nm (node_ind2 c)
    | NLookaround ng bw sg eg c => H_look ng bw sg eg c (node_ind2 c)
    | NLoop b mn mx g egs ege => H_loop b mn mx g egs ege (node_ind2 b)
    | NLoop1CharBody b mn mx g => H_l1 b mn mx g (node_ind2 b)
    | NEmpty => H_leaf NEmpty I
    | NGoal => H_leaf NGoal I
    | NChar c => H_leaf (NChar c) I
    | NByteSequence bs => H_leaf (NByteSequence bs) I
    | NByteSet bs => H_leaf (NByteSet bs) I
    | NCharSet cs => H_leaf (NCharSet cs) I
    | NMatchAny => H_leaf NMatchAny I
    | NMatchAnyExceptLT => H_leaf NMatchAnyExceptLT I
    | NAnchor a b => H_leaf (NAnchor a b) I
    | NWordBoundary a b => H_leaf (NWordBoundary a b) I
    | NBackRef a b => H_leaf (NBackRef a b) I
    | NBracket b => H_leaf (NBracket b) I
    | NStringSet a b => H_leaf (NStringSet a b) I
    end.
End NodeInd.

(* emit_node only extends the emitter state: loop ids and group counts grow, brackets are appended *)
Definition es_extends (es es' : estate) : Prop :=
  (es_next_loop es <= es_next_loop es')%nat /\ (es_groups es <= es_groups es')%nat /\
  exists extra, es_brackets es' = es_brackets es ++ extra.

Lemma es_extends_refl es : es_extends es es.
Proof. repeat split; auto. exists []. rewrite app_nil_r. reflexivity. Qed.
Lemma es_extends_trans a b c : es_extends a b -> es_extends b c -> es_extends a c.
Proof.
  intros (A1 & A2 & x & A3) (B1 & B2 & y & B3). repeat split; try lia.
  exists (x ++ y). rewrite B3, A3, app_assoc. reflexivity.
Qed.

Lemma emit_extends utf16 unicode n : forall off lb es code es',
  emit_node utf16 unicode n off lb es = Ok (code, es') -> es_extends es es'.
Proof.
  induction n using node_ind2; intros off lb es code es' E.
  - destruct n; try contradiction; simpl in E;
      repeat match type of E with
             | (do _ <- ?r; _) = Ok _ => destruct r eqn:?; simpl in E; try discriminate
             | match ?r with _ => _ end = Ok _ => destruct r eqn:?; simpl in E; try discriminate
             | (if ?c then _ else _) = Ok _ => destruct c eqn:?; simpl in E; try discriminate
             end; inversion E; subst; try apply es_extends_refl.
    (* a bracket that goes to the table *)
    repeat split; simpl; auto. eexists; reflexivity.
  - revert off es code es' E. induction H as [|x l Hx Hl IH]; intros off es code es' E; simpl in E.
    + inversion E; subst. apply es_extends_refl.
    + destruct (emit_node utf16 unicode x off lb es) as [e|[cx ex]] eqn:Ex; simpl in E; [discriminate|].
      match type of E with (do rt <- ?r; _) = _ => destruct r as [e|[ct et]] eqn:Et; simpl in E; [discriminate|] end.
      inversion E; subst. eapply es_extends_trans; [eapply Hx; eauto | eapply IH; eauto].
  - simpl in E.
    destruct (emit_node utf16 unicode n1 (S off) lb es) as [e|[ca ea]] eqn:Ea; simpl in E; [discriminate|].
    destruct (emit_node utf16 unicode n2 (off + 2 + length ca) lb ea) as [e|[cb eb]] eqn:Eb; simpl in E; [discriminate|].
    inversion E; subst. eapply es_extends_trans; eauto.
  - simpl in E.
    match type of E with (do rc <- ?r; _) = _ => destruct r as [e|[cc ec]] eqn:Ec; simpl in E; [discriminate|] end.
    inversion E; subst. eapply es_extends_trans; [|eapply IHn; eauto].
    repeat split; simpl; auto. exists []. rewrite app_nil_r. reflexivity.
  - simpl in E.
    match type of E with (do rc <- ?r; _) = _ => destruct r as [e|[cc ec]] eqn:Ec; simpl in E; [discriminate|] end.
    inversion E; subst. eapply IHn; eauto.
  - simpl in E.
    match type of E with (do rc <- ?r; _) = _ => destruct r as [e|[cc ec]] eqn:Ec; simpl in E; [discriminate|] end.
    inversion E; subst. eapply es_extends_trans; [|eapply IHn; eauto].
    repeat split; simpl; auto. exists []. rewrite app_nil_r. reflexivity.
  - simpl in E.
    match type of E with (do rc <- ?r; _) = _ => destruct r as [e|[cc ec]] eqn:Ec; simpl in E; [discriminate|] end.
    inversion E; subst. eapply IHn; eauto.
Qed.
