(* OptRel.v — the relation every optimizer pass is proved to establish between a node and its rewrite:
   under the loop invariant [qok] (a loop's minimum does not exceed its maximum and its group range has the size of
   the number of capture groups of its body) the rewritten node refines the original in the IR semantics, the
   invariant still holds, and the number of capture groups is unchanged. *)
From RV Require Import Base.
From RV.Model Require Import Utf8 Indexer CodePointSet Insn IR Optimizer Unfold Emit.
From RV.Spec Require Import IRSem IRShape.
From RV.Proofs Require Import NodeInd OptDD OptMono OptWalk.

Lemma Forall2_same {A} (P : A -> A -> Prop) : (forall a, P a a) -> forall l, Forall2 P l l.
Proof. intros H l. induction l; constructor; auto. Qed.

Lemma list_sum_cons a l : list_sum (a :: l) = (a + list_sum l)%nat.
Proof. reflexivity. Qed.

Section Rel.
  Variable ix : indexer.
  Variables unicode utf16 : bool.
  Variable h : hay.
  Variable okp : nat -> Prop.
  Notation IR := (ir_results ix unicode utf16 h).
  Notation ref := (ref ix unicode utf16 h okp).
  Notation al := (al ix unicode utf16 h okp).

  (* under the invariant and for a node that stays among the well-formed positions: refinement, and both kept *)
  Definition PRel (lb : bool) (n n' : node) : Prop :=
    qok n = true -> al n -> ref (negb lb) n n' /\ qok n' = true /\ al n' /\ ng n' = ng n.

  Lemma PRel_refl lb n : PRel lb n n.
  Proof. intros Hq Ha. split; [apply ref_refl|split; [exact Hq|split; [exact Ha|reflexivity]]]. Qed.

  Lemma PRel_trans lb a b c : PRel lb a b -> PRel lb b c -> PRel lb a c.
  Proof.
    intros H1 H2 Hq Ha. destruct (H1 Hq Ha) as (R1 & Q1 & A1 & N1). destruct (H2 Q1 A1) as (R2 & Q2 & A2 & N2).
    split; [eapply ref_trans; eauto|split; [exact Q2|split; [exact A2|congruence]]].
  Qed.

  Lemma PRel_cat lb l l' : Forall2 (PRel lb) l l' -> PRel lb (NCat l) (NCat l').
  Proof.
    intros HF Hq Ha. cbn [qok] in Hq. apply al_cat in Ha.
    assert (H3 : Forall2 (ref (negb lb)) l l' /\ forallb qok l' = true /\ Forall al l' /\
                 list_sum (map ng l') = list_sum (map ng l)).
    { induction HF as [|c c' l l' Hc Hl IH]; [repeat split; constructor|].
      cbn [forallb] in Hq. apply andb_true_iff in Hq as [Hqc Hql]. inversion Ha as [|c0 l0 Hac Hal]; subst.
      destruct (Hc Hqc Hac) as (R1 & Q1 & A1 & N1). destruct (IH Hql Hal) as (R2 & Q2 & A2 & N2).
      split; [constructor; assumption|]. split; [cbn [forallb]; rewrite Q1, Q2; reflexivity|].
      split; [constructor; assumption|]. cbn [map]. rewrite !list_sum_cons, N1, N2. reflexivity. }
    destruct H3 as (R & Q & A & Ng). split; [apply ref_cat; [exact Ha|exact R]|].
    split; [exact Q|]. split; [apply al_cat; exact A|exact Ng].
  Qed.

  Lemma PRel_alt lb a a' b b' : PRel lb a a' -> PRel lb b b' -> PRel lb (NAlt a b) (NAlt a' b').
  Proof.
    intros Ha Hb Hq Hal. cbn [qok] in Hq. apply andb_true_iff in Hq as [Hqa Hqb]. destruct Hal as [Hal1 Hal2].
    destruct (Ha Hqa Hal1) as (R1 & Q1 & A1 & N1). destruct (Hb Hqb Hal2) as (R2 & Q2 & A2 & N2).
    split; [apply ref_alt; assumption|]. cbn [qok ng]. rewrite Q1, Q2, N1, N2.
    split; [reflexivity|]. split; [split; assumption|reflexivity].
  Qed.

  Lemma PRel_cg lb id nm c c' : PRel lb c c' -> PRel lb (NCaptureGroup id c nm) (NCaptureGroup id c' nm).
  Proof.
    intros Hc Hq Ha. cbn [qok] in Hq. cbn [OptMono.al] in Ha. destruct (Hc Hq Ha) as (R1 & Q1 & A1 & N1).
    split; [apply ref_cg; assumption|]. cbn [qok ng]. rewrite N1. split; [exact Q1|]. split; [exact A1|reflexivity].
  Qed.

  Lemma PRel_look lb ng0 bw sg eg c c' : PRel bw c c' ->
    PRel lb (NLookaround ng0 bw sg eg c) (NLookaround ng0 bw sg eg c').
  Proof.
    intros Hc Hq Ha. cbn [qok] in Hq. apply andb_true_iff in Hq as [Hq Hg]. cbn [OptMono.al] in Ha.
    destruct (Hc Hq Ha) as (R1 & Q1 & A1 & N1).
    split; [apply ref_look; assumption|]. cbn [qok ng]. rewrite Q1, N1, Hg. split; [reflexivity|]. split; [exact A1|reflexivity].
  Qed.

  Lemma PRel_loop lb b b' mn mx g egs ege : PRel lb b b' ->
    PRel lb (NLoop b mn mx g egs ege) (NLoop b' mn mx g egs ege).
  Proof.
    intros Hb Hq Ha. cbn [qok] in Hq. apply andb_true_iff in Hq as [Hq1 Hq3]. apply andb_true_iff in Hq1 as [Hq1 Hq2].
    cbn [OptMono.al] in Ha. destruct (Hb Hq1 Ha) as (R1 & Q1 & A1 & N1).
    split; [apply ref_loop; assumption|]. cbn [qok ng]. rewrite Q1, Hq2, N1, Hq3.
    split; [reflexivity|]. split; [exact A1|reflexivity].
  Qed.

  Lemma PRel_l1 lb b b' mn mx g : PRel lb b b' ->
    PRel lb (NLoop1CharBody b mn mx g) (NLoop1CharBody b' mn mx g).
  Proof.
    intros Hb Hq Ha. cbn [qok] in Hq. apply andb_true_iff in Hq as [Hq1 Hq3]. apply andb_true_iff in Hq1 as [Hq1 Hq2].
    cbn [OptMono.al] in Ha. destruct (Hb Hq1 Ha) as (R1 & Q1 & A1 & N1).
    split; [apply ref_l1; assumption|]. cbn [qok ng]. destruct R1 as [_ S1]. destruct (S1 Hq3) as [Hl' _].
    rewrite Q1, Hq2, Hl'. split; [reflexivity|]. split; [exact A1|reflexivity].
  Qed.

  Lemma rres_fle fwd n n' K : (forall f, fle (IR f n fwd) (IR (f + K) n' fwd)) -> rres ix unicode utf16 h okp fwd n n'.
  Proof. intro H. exists K. intro f. apply fle_frelP. apply H. Qed.

  Lemma rres_fleO fwd n n' K :
    (forall f x r, okp (fst x) -> IR f n fwd x = Some r -> IR (f + K) n' fwd x = Some r) -> rres ix unicode utf16 h okp fwd n n'.
  Proof. intro H. exists K. intros f x r Hx E. exists r. split; [apply H; [exact (proj1 Hx)|exact E]|apply dd_refl]. Qed.

  Lemma rres_fleS fwd n n' K :
    (forall f x r, oks okp x -> IR f n fwd x = Some r -> IR (f + K) n' fwd x = Some r) -> rres ix unicode utf16 h okp fwd n n'.
  Proof. intro H. exists K. intros f x r Hx E. exists r. split; [apply H; assumption|apply dd_refl]. Qed.

  (* a pass whose single rewrites establish PRel establishes it by run_to_fixpoint *)
  Theorem pass_sound (func : bool -> node -> R action) :
    (forall lb n a, func lb n = Ok a -> PRel lb n (act_node a n)) ->
    forall fuel n n', run_to_fixpoint func fuel n = Ok n' -> PRel false n n'.
  Proof.
    intro Hloc. apply (fixpoint_sound func PRel PRel_refl PRel_trans PRel_cat PRel_alt PRel_cg PRel_look PRel_loop PRel_l1 Hloc).
  Qed.

  Lemma al_empty : al NEmpty.
  Proof.
    split.
    - intros [|f] fwd [p G] r Hx E; [discriminate|]. cbn in E. inversion E; subst. constructor; [exact Hx|constructor].
    - intros fwd s Es. discriminate Es.
  Qed.

  Lemma al_fails : al make_always_fails.
  Proof.
    split.
    - intros [|f] fwd [p G] r Hx E; [discriminate|]. cbn in E. inversion E; subst. constructor.
    - intros fwd s Es. cbn in Es. inversion Es; subst. intros q q' _ E. cbn in E. discriminate E.
  Qed.

  (* ---- unfolding equations (ir_results destructs its state argument first) ---- *)
  Lemma ir_cat_eq f l fwd x : IR (S f) (NCat l) fwd x = cat_results (fun c => IR f c fwd) l [x].
  Proof. destruct x; reflexivity. Qed.
  Lemma ir_empty_eq f fwd x : IR (S f) NEmpty fwd x = Some [x].
  Proof. destruct x; reflexivity. Qed.
  Lemma ir_alt_eq f a b fwd x : IR (S f) (NAlt a b) fwd x =
    match IR f a fwd x, IR f b fwd x with Some u, Some v => Some (u ++ v) | _, _ => None end.
  Proof. destruct x; reflexivity. Qed.
  Lemma ir_loop_eq f body mn mx gr egs ege fwd x : IR (S f) (NLoop body mn mx gr egs ege) fwd x =
    loop_results (IR f body fwd) mn mx gr egs ege f 0 (fst x) x.
  Proof. destruct x; reflexivity. Qed.

  Lemma obindm_app {A} (f : A -> option (list mst)) : forall xs ys,
    obindm f (xs ++ ys) = match obindm f xs, obindm f ys with Some a, Some b => Some (a ++ b) | _, _ => None end.
  Proof.
    induction xs as [|x xs IH]; intro ys; cbn [app obindm].
    - destruct (obindm f ys); reflexivity.
    - rewrite IH. destruct (f x) as [a|]; [|reflexivity].
      destruct (obindm f xs) as [b|]; [|reflexivity]. destruct (obindm f ys) as [c|]; [|reflexivity].
      rewrite app_assoc. reflexivity.
  Qed.

  Lemma obindm_single {A} (f : A -> option (list mst)) x : obindm f [x] = f x.
  Proof. cbn [obindm]. destruct (f x) as [a|]; [rewrite app_nil_r|]; reflexivity. Qed.

  Lemma cat_nil rf : forall l, cat_results rf l [] = Some [].
  Proof. induction l as [|c l IH]; [reflexivity|]. cbn [cat_results obindm]. exact IH. Qed.

  Lemma cat_app_xs rf : forall l xs ys,
    cat_results rf l (xs ++ ys) =
    match cat_results rf l xs, cat_results rf l ys with Some a, Some b => Some (a ++ b) | _, _ => None end.
  Proof.
    induction l as [|c l IH]; intros xs ys; cbn [cat_results]; [reflexivity|].
    rewrite obindm_app. destruct (obindm (rf c) xs) as [a|]; [|reflexivity].
    destruct (obindm (rf c) ys) as [b|].
    - apply IH.
    - destruct (cat_results rf l a); reflexivity.
  Qed.

  Lemma cat_obindm rf l : forall xs, obindm (fun x => cat_results rf l [x]) xs = cat_results rf l xs.
  Proof.
    induction xs as [|x xs IH]; [cbn [obindm]; rewrite cat_nil; reflexivity|].
    cbn [obindm]. rewrite IH. change (x :: xs) with ([x] ++ xs). rewrite cat_app_xs. reflexivity.
  Qed.

  Lemma cat_app_l rf : forall l1 l2 xs,
    cat_results rf (l1 ++ l2) xs = match cat_results rf l1 xs with Some ys => cat_results rf l2 ys | None => None end.
  Proof.
    induction l1 as [|c l1 IH]; intros l2 xs; cbn [app cat_results]; [reflexivity|].
    destruct (obindm (rf c) xs) as [ys|]; [apply IH|reflexivity].
  Qed.
End Rel.
