(* Utf16Proofs.v — the UTF-16 cursor reads what was encoded: over the encoding of any list of scalar values the forward
   cursor at the start of a character reads that character and stops at the start of the next, the backward cursor
   at the end of a character reads it and stops at its start; the cursor never leaves the slice and never fails
   inside it, whatever the units (lone surrogates included); on units that are not surrogates it is the UCS-2 cursor. *)
From RV Require Import Base.
From RV.Model Require Import Utf16.
From Coq Require Import ZifyN ZifyBool.
Ltac Zify.zify_post_hook ::= Z.div_mod_to_equations.

Definition scalar (c : N) : Prop := c <= 1114111 /\ ~ (55296 <= c <= 57343).

(* the bit formula is the arithmetic one on a surrogate pair *)
Lemma cp_from_surrogates_arith hi lo : is_high_surrogate hi = true -> is_low_surrogate lo = true ->
  code_point_from_surrogates hi lo = 65536 + (hi - 55296) * 1024 + (lo - 56320).
Proof.
  unfold is_high_surrogate, is_low_surrogate, code_point_from_surrogates. intros Hh Hl.
  apply andb_true_iff in Hh as [H1 H2]. apply andb_true_iff in Hl as [L1 L2]. apply N.leb_le in H1, H2, L1, L2.
  change 1023 with (N.ones 10). rewrite !N.land_ones, N.shiftl_mul_pow2.
  assert (Eh : hi mod 2 ^ 10 = hi - 55296) by (change (2 ^ 10) with 1024; lia).
  assert (El : lo mod 2 ^ 10 = lo - 56320) by (change (2 ^ 10) with 1024; lia).
  rewrite Eh, El. change (2 ^ 10) with 1024.
  (* the two parts occupy different bits: lor is + *)
  assert (Hd : N.lor ((hi - 55296) * 1024) (lo - 56320) = (hi - 55296) * 1024 + (lo - 56320)).
  { rewrite <- N.lxor_lor; [rewrite <- N.add_nocarry_lxor; [reflexivity|]|].
    - apply N.bits_inj_0. intros n. rewrite N.land_spec. destruct (N.ltb_spec n 10).
      + replace ((hi - 55296) * 1024) with ((hi - 55296) * 2 ^ 10) by (change (2 ^ 10) with 1024; reflexivity).
        rewrite N.mul_pow2_bits_low by assumption. reflexivity.
      + rewrite (N.bits_above_log2 (lo - 56320) n), andb_false_r; [reflexivity|].
        destruct (N.eq_dec (lo - 56320) 0) as [E|Hne]; [rewrite E; cbn; lia|].
        apply N.log2_lt_pow2; [lia|]. apply N.lt_le_trans with (2 ^ 10); [change (2 ^ 10) with 1024; lia|apply N.pow_le_mono_r; lia].
    - apply N.bits_inj_0. intros n. rewrite N.land_spec. destruct (N.ltb_spec n 10).
      + replace ((hi - 55296) * 1024) with ((hi - 55296) * 2 ^ 10) by (change (2 ^ 10) with 1024; reflexivity).
        rewrite N.mul_pow2_bits_low by assumption. reflexivity.
      + rewrite (N.bits_above_log2 (lo - 56320) n), andb_false_r; [reflexivity|].
        destruct (N.eq_dec (lo - 56320) 0) as [E|Hne]; [rewrite E; cbn; lia|].
        apply N.log2_lt_pow2; [lia|]. apply N.lt_le_trans with (2 ^ 10); [change (2 ^ 10) with 1024; lia|apply N.pow_le_mono_r; lia]. }
  rewrite Hd. lia.
Qed.

(* encoding then reading: one character *)
Lemma enc_shape c : scalar c ->
  (c < 65536 /\ utf16_encode c = [c] /\ is_high_surrogate c = false /\ is_low_surrogate c = false) \/
  (65536 <= c /\ exists hi lo, utf16_encode c = [hi; lo] /\ is_high_surrogate hi = true /\ is_low_surrogate lo = true /\
     code_point_from_surrogates hi lo = c).
Proof.
  intros [Hm Hs]. unfold utf16_encode. destruct (N.ltb_spec c 65536) as [Hlt|Hge].
  - left. split; [exact Hlt|]. split; [reflexivity|]. unfold is_high_surrogate, is_low_surrogate. split; lia.
  - right. split; [exact Hge|]. exists (55296 + (c - 65536) / 1024), (56320 + (c - 65536) mod 1024).
    assert (Hh : is_high_surrogate (55296 + (c - 65536) / 1024) = true) by (unfold is_high_surrogate; lia).
    assert (Hl : is_low_surrogate (56320 + (c - 65536) mod 1024) = true) by (unfold is_low_surrogate; lia).
    split; [reflexivity|]. split; [exact Hh|]. split; [exact Hl|]. rewrite (cp_from_surrogates_arith _ _ Hh Hl). lia.
Qed.

Lemma nth_error_app_at {A} (a : list A) x b : nth_error (a ++ x :: b) (length a) = Some x.
Proof. induction a as [|y a IH]; [reflexivity|exact IH]. Qed.
Lemma nth_error_app_at1 {A} (a : list A) x y b : nth_error (a ++ x :: y :: b) (S (length a)) = Some y.
Proof. induction a as [|z a IH]; [reflexivity|exact IH]. Qed.

(* the text is the encoding of [pre ++ c :: post]; q is where c starts *)
Theorem utf16_reads_forward pre c post : scalar c ->
  u16_next_right (flat_map utf16_encode pre ++ utf16_encode c ++ flat_map utf16_encode post) (length (flat_map utf16_encode pre))
  = Some (c, (length (flat_map utf16_encode pre) + length (utf16_encode c))%nat).
Proof.
  intros Hc. set (a := flat_map utf16_encode pre). set (b := flat_map utf16_encode post). unfold u16_next_right.
  destruct (enc_shape c Hc) as [(Hlt & E & Hh & Hl)|(Hge & hi & lo & E & Hh & Hl & Ecp)]; rewrite E; cbn [app length].
  - rewrite nth_error_app_at, Hh. cbn [negb]. f_equal. f_equal. lia.
  - rewrite nth_error_app_at, Hh. cbn [negb]. rewrite nth_error_app_at1, Hl, Ecp. f_equal. f_equal. lia.
Qed.

Theorem utf16_reads_backward pre c post : scalar c ->
  u16_next_left (flat_map utf16_encode pre ++ utf16_encode c ++ flat_map utf16_encode post)
                (length (flat_map utf16_encode pre) + length (utf16_encode c))
  = Some (c, length (flat_map utf16_encode pre)).
Proof.
  intros Hc. set (a := flat_map utf16_encode pre). set (b := flat_map utf16_encode post). unfold u16_next_left.
  destruct (enc_shape c Hc) as [(Hlt & E & Hh & Hl)|(Hge & hi & lo & E & Hh & Hl & Ecp)]; rewrite E; cbn [app length].
  - replace (length a + 1)%nat with (S (length a)) by lia. rewrite nth_error_app_at, Hl. cbn [negb]. rewrite orb_true_r. reflexivity.
  - replace (length a + 2)%nat with (S (S (length a))) by lia. rewrite nth_error_app_at1, Hl. cbn [negb orb Nat.eqb].
    replace (S (length a) - 1)%nat with (length a) by lia. rewrite nth_error_app_at, Hh, Ecp. reflexivity.
Qed.

(* totality inside the slice, positions stay inside, progress by one or two units *)
Theorem utf16_forward_total h p : (p < length h)%nat ->
  exists c q, u16_next_right h p = Some (c, q) /\ (p < q)%nat /\ (q <= p + 2)%nat /\ (q <= length h)%nat.
Proof.
  intros Hp. unfold u16_next_right. destruct (nth_error h p) as [u1|] eqn:E1; [|apply nth_error_None in E1; lia].
  destruct (negb (is_high_surrogate u1)); [exists u1, (S p); repeat split; lia|].
  destruct (nth_error h (S p)) as [u2|] eqn:E2; [|exists u1, (S p); repeat split; lia].
  assert (S p < length h)%nat by (apply nth_error_Some; congruence).
  destruct (is_low_surrogate u2); [exists (code_point_from_surrogates u1 u2), (S (S p))|exists u1, (S p)]; repeat split; lia.
Qed.
Theorem utf16_backward_total h p : (0 < p)%nat -> (p <= length h)%nat ->
  exists c q, u16_next_left h p = Some (c, q) /\ (q < p)%nat /\ (p <= q + 2)%nat.
Proof.
  intros Hp Hl. unfold u16_next_left. destruct p as [|q]; [lia|].
  destruct (nth_error h q) as [u2|] eqn:E2; [|apply nth_error_None in E2; lia].
  destruct ((q =? 0)%nat || negb (is_low_surrogate u2)); [exists u2, q; repeat split; lia|].
  destruct (nth_error h (q - 1)) as [u1|]; [|exists u2, q; repeat split; lia].
  destruct (is_high_surrogate u1); [exists (code_point_from_surrogates u1 u2), (q - 1)%nat|exists u2, q]; repeat split; lia.
Qed.
Theorem utf16_end_is_none h p : (length h <= p)%nat -> u16_next_right h p = None.
Proof. intros H. unfold u16_next_right. apply nth_error_None in H. rewrite H. reflexivity. Qed.

(* the element read is a code point; a surrogate pair gives a supplementary one *)
Theorem utf16_element_range h p c q : Forall (fun u => u < 65536) h -> u16_next_right h p = Some (c, q) -> c <= 1114111.
Proof.
  intros Hu. unfold u16_next_right. rewrite Forall_forall in Hu.
  destruct (nth_error h p) as [u1|] eqn:E1; [|discriminate]. pose proof (Hu u1 (nth_error_In _ _ E1)).
  destruct (negb (is_high_surrogate u1)) eqn:Eh; [intros E; inversion E; subst; lia|].
  destruct (nth_error h (S p)) as [u2|] eqn:E2; [|intros E; inversion E; subst; lia].
  destruct (is_low_surrogate u2) eqn:El; [|intros E; inversion E; subst; lia].
  apply negb_false_iff in Eh. intros E. inversion E; subst. rewrite (cp_from_surrogates_arith _ _ Eh El).
  unfold is_high_surrogate, is_low_surrogate in *. lia.
Qed.

(* where no unit is a surrogate the two input types read the same *)
Theorem utf16_is_ucs2_without_surrogates h p : Forall (fun u => is_high_surrogate u = false /\ is_low_surrogate u = false) h ->
  u16_next_right h p = ucs2_next_right h p /\ u16_next_left h p = ucs2_next_left h p.
Proof.
  intros Hu. rewrite Forall_forall in Hu. split.
  - unfold u16_next_right, ucs2_next_right. destruct (nth_error h p) as [u1|] eqn:E1; [|reflexivity].
    destruct (Hu u1 (nth_error_In _ _ E1)) as [H1 _]. rewrite H1. reflexivity.
  - unfold u16_next_left, ucs2_next_left. destruct p as [|q]; [reflexivity|]. destruct (nth_error h q) as [u2|] eqn:E2; [|reflexivity].
    destruct (Hu u2 (nth_error_In _ _ E2)) as [_ H2]. rewrite H2. cbn [negb]. rewrite orb_true_r. reflexivity.
Qed.
