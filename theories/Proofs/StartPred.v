(* StartPred.v — soundness of the start predicate (src/startpredicate.rs) with respect to the IR semantics:
   if a forward attempt at p has a success, the bytes at p pass the predicate computed for the pattern; a node
   for which no predicate is computed (None) never moves the position. *)
From RV Require Import Base.
From RV.Model Require Import Utf8 Indexer CodePointSet Insn IR Optimizer Unfold Emit Exec.
From RV.Spec Require Import IRSem.
From RV.Proofs Require Import CpsProofs.

(* ---------------- sets of bytes ---------------- *)
Lemma insert_sorted_in x y l : In x (insert_sorted y l) <-> x = y \/ In x l.
Proof.
  induction l as [|z t IH]; simpl.
  - intuition.
  - destruct (y <? z) eqn:E1; [simpl; intuition|]. destruct (y =? z) eqn:E2.
    + apply N.eqb_eq in E2. subst z. simpl. intuition.
    + simpl. rewrite IH. intuition.
Qed.

Lemma fold_bitmap_in x bs : forall acc, In x (fold_left bitmap_set bs acc) <-> In x bs \/ In x acc.
Proof.
  induction bs as [|b t IH]; intro acc; simpl; [tauto|].
  rewrite IH. unfold bitmap_set. rewrite insert_sorted_in. intuition.
Qed.

Lemma bitmap_of_in x bs : In x (bitmap_of bs) <-> In x bs.
Proof. unfold bitmap_of. rewrite fold_bitmap_in. simpl. tauto. Qed.

Lemma list_contains_in ms b : list_contains ms b = true <-> In b ms.
Proof.
  unfold list_contains. rewrite existsb_exists. split.
  - intros (x & Hx & He). apply N.eqb_eq in He. subst. exact Hx.
  - intro H. exists b. split; [exact H|apply N.eqb_refl].
Qed.

Lemma n_range_in x : forall k a, In x (n_range a k) <-> a <= x < a + N.of_nat k.
Proof.
  induction k as [|k IH]; intro a; simpl.
  - split; [tauto|lia].
  - rewrite IH. lia.
Qed.

(* ---------------- the abstract predicate as a test on the remaining bytes ---------------- *)
Definition asp_test (sp : asp) (l : list N) : bool :=
  match sp with
  | AArbitrary => true
  | ASequence bs => is_prefix bs l
  | ASet ms => match l with b :: _ => list_contains ms b | [] => false end
  end.

Lemma list_eqb_eq : forall a b, bytes_eqb a b = true <-> a = b.
Proof.
  unfold bytes_eqb. induction a as [|x a IH]; intros [|y b]; simpl; split; intro H; try discriminate; try reflexivity.
  - apply andb_true_iff in H as [H1 H2]. apply N.eqb_eq in H1. apply IH in H2. congruence.
  - inversion H; subst. rewrite N.eqb_refl. simpl. apply IH. reflexivity.
Qed.

Lemma is_prefix_app bs rest : is_prefix bs (bs ++ rest) = true.
Proof.
  unfold is_prefix. apply list_eqb_eq. rewrite firstn_app, Nat.sub_diag, firstn_all. simpl. rewrite app_nil_r. reflexivity.
Qed.

Lemma is_prefix_inv bs l : is_prefix bs l = true -> exists rest, l = bs ++ rest.
Proof.
  unfold is_prefix. intro H. apply list_eqb_eq in H. exists (skipn (length bs) l).
  rewrite H at 1. symmetry. apply firstn_skipn.
Qed.

Lemma asp_test_resolve sp l : asp_test sp l = true ->
  match searcher_test (resolve_to_insn sp) with Some t => t l = true | None => True end.
Proof.
  destruct sp as [|bs|ms]; simpl; intro H.
  - reflexivity.
  - destruct bs as [|b [|b2 t]]; simpl.
    + reflexivity.
    + apply is_prefix_inv in H as (rest & ->). simpl. rewrite N.eqb_refl. reflexivity.
    + exact H.
  - destruct (length ms) as [|[|[|[|k]]]]; simpl; try reflexivity; exact H.
Qed.

Lemma shared_prefix_l a b : exists r, a = shared_prefix a b ++ r.
Proof.
  revert b; induction a as [|x a IH]; intros [|y b]; simpl; try (eexists; reflexivity).
  destruct (x =? y); [|eexists; reflexivity]. destruct (IH b) as (r & Hr). exists r. simpl. congruence.
Qed.
Lemma shared_prefix_r a b : exists r, b = shared_prefix a b ++ r.
Proof.
  revert b; induction a as [|x a IH]; intros [|y b]; simpl; try (eexists; reflexivity).
  destruct (x =? y) eqn:E; [|eexists; reflexivity]. apply N.eqb_eq in E. subst y.
  destruct (IH b) as (r & Hr). exists r. simpl. congruence.
Qed.

Lemma is_prefix_weaken p r l : is_prefix (p ++ r) l = true -> is_prefix p l = true.
Proof.
  intro H. apply is_prefix_inv in H as (rest & ->). rewrite <- app_assoc. apply is_prefix_app.
Qed.

Lemma asp_disjunction_sound x y d l : asp_disjunction x y = Ok d ->
  asp_test x l = true \/ asp_test y l = true -> asp_test d l = true.
Proof.
  intros Hd H. destruct x as [|s1|m1], y as [|s2|m2]; simpl in Hd; try (inversion Hd; subst; reflexivity).
  - (* sequence / sequence *)
    destruct (shared_prefix s1 s2) as [|p0 pt] eqn:Esp.
    + destruct s1 as [|a t1]; [discriminate|]. destruct s2 as [|b t2]; [discriminate|]. inversion Hd; subst d. simpl.
      destruct H as [H|H]; apply is_prefix_inv in H as (rest & ->); simpl; apply list_contains_in; apply bitmap_of_in; simpl; auto.
    + inversion Hd; subst d. simpl. rewrite <- Esp.
      destruct H as [H|H].
      * destruct (shared_prefix_l s1 s2) as (r & Hr). rewrite Hr in H. eapply is_prefix_weaken; eauto.
      * destruct (shared_prefix_r s1 s2) as (r & Hr). rewrite Hr in H. eapply is_prefix_weaken; eauto.
  - (* sequence / set *)
    destruct s1 as [|b t]; [discriminate|]. inversion Hd; subst d. simpl in *.
    destruct H as [H|H].
    + apply is_prefix_inv in H as (rest & ->). simpl. apply list_contains_in. unfold bitmap_set. apply insert_sorted_in. auto.
    + destruct l as [|c l']; [discriminate|]. apply list_contains_in in H. apply list_contains_in. unfold bitmap_set. apply insert_sorted_in. auto.
  - (* set / sequence *)
    destruct s2 as [|b t]; [discriminate|]. inversion Hd; subst d. simpl in *.
    destruct H as [H|H].
    + destruct l as [|c l']; [discriminate|]. apply list_contains_in in H. apply list_contains_in. unfold bitmap_set. apply insert_sorted_in. auto.
    + apply is_prefix_inv in H as (rest & ->). simpl. apply list_contains_in. unfold bitmap_set. apply insert_sorted_in. auto.
  - (* set / set *)
    inversion Hd; subst d. simpl in *. destruct l as [|c l']; [destruct H; discriminate|].
    apply list_contains_in. apply fold_bitmap_in. destruct H as [H|H]; apply list_contains_in in H; auto.
Qed.

(* ---------------- first bytes of UTF-8 encodings ---------------- *)
Lemma fb2_check : forallb (fun v => N.lor (N.land v 31) 192 =? 192 + v) (map N.of_nat (seq 0 32)) = true.
Proof. vm_compute. reflexivity. Qed.
Lemma fb3_check : forallb (fun v => N.lor (N.land v 15) 224 =? 224 + v) (map N.of_nat (seq 0 16)) = true.
Proof. vm_compute. reflexivity. Qed.
Lemma fb4_check : forallb (fun v => N.lor (N.land v 7) 240 =? 240 + v) (map N.of_nat (seq 0 8)) = true.
Proof. vm_compute. reflexivity. Qed.

Lemma small_in_seq v k : v < N.of_nat k -> In v (map N.of_nat (seq 0 k)).
Proof. intro H. apply in_map_iff. exists (N.to_nat v). split; [apply N2Nat.id|apply in_seq; lia]. Qed.

Lemma first_byte_2 c : 128 <= c -> c < 2048 -> utf8_first_byte c = 192 + c / 64.
Proof.
  intros H1 H2. unfold utf8_first_byte.
  replace (c <? 128) with false by (symmetry; apply N.ltb_ge; lia).
  replace (c <? 2048) with true by (symmetry; apply N.ltb_lt; lia).
  rewrite N.shiftr_div_pow2. change (2 ^ 6) with 64.
  assert (Hv : c / 64 < 32) by (apply N.div_lt_upper_bound; lia).
  pose proof fb2_check as Hc. rewrite forallb_forall in Hc. specialize (Hc (c / 64) (small_in_seq _ 32%nat Hv)).
  apply N.eqb_eq in Hc. exact Hc.
Qed.
Lemma first_byte_3 c : 2048 <= c -> c < 65536 -> utf8_first_byte c = 224 + c / 4096.
Proof.
  intros H1 H2. unfold utf8_first_byte.
  replace (c <? 128) with false by (symmetry; apply N.ltb_ge; lia).
  replace (c <? 2048) with false by (symmetry; apply N.ltb_ge; lia).
  replace (c <? 65536) with true by (symmetry; apply N.ltb_lt; lia).
  rewrite N.shiftr_div_pow2. change (2 ^ 12) with 4096.
  assert (Hv : c / 4096 < 16) by (apply N.div_lt_upper_bound; lia).
  pose proof fb3_check as Hc. rewrite forallb_forall in Hc. specialize (Hc (c / 4096) (small_in_seq _ 16%nat Hv)).
  apply N.eqb_eq in Hc. exact Hc.
Qed.
Lemma first_byte_4 c : 65536 <= c -> c <= CODE_POINT_MAX -> utf8_first_byte c = 240 + c / 262144.
Proof.
  intros H1 H2. unfold CODE_POINT_MAX in H2. unfold utf8_first_byte.
  replace (c <? 128) with false by (symmetry; apply N.ltb_ge; lia).
  replace (c <? 2048) with false by (symmetry; apply N.ltb_ge; lia).
  replace (c <? 65536) with false by (symmetry; apply N.ltb_ge; lia).
  rewrite N.shiftr_div_pow2. change (2 ^ 18) with 262144.
  assert (Hv : c / 262144 < 8) by (apply N.div_lt_upper_bound; lia).
  pose proof fb4_check as Hc. rewrite forallb_forall in Hc. specialize (Hc (c / 262144) (small_in_seq _ 8%nat Hv)).
  apply N.eqb_eq in Hc. exact Hc.
Qed.

(* within one length class the first byte is monotone *)
Definition same_class (a b : N) : Prop :=
  (b < 128) \/ (128 <= a /\ b < 2048) \/ (2048 <= a /\ b < 65536) \/ (65536 <= a /\ b <= CODE_POINT_MAX).

Lemma first_byte_mono a c b : a <= c -> c <= b -> same_class a b ->
  utf8_first_byte a <= utf8_first_byte c /\ utf8_first_byte c <= utf8_first_byte b.
Proof.
  intros H1 H2 [Hc|[[Ha Hb]|[[Ha Hb]|[Ha Hb]]]].
  - unfold utf8_first_byte.
    replace (a <? 128) with true by (symmetry; apply N.ltb_lt; lia).
    replace (c <? 128) with true by (symmetry; apply N.ltb_lt; lia).
    replace (b <? 128) with true by (symmetry; apply N.ltb_lt; lia). lia.
  - rewrite !first_byte_2 by lia. split; apply N.add_le_mono_l; apply N.div_le_mono; lia.
  - rewrite !first_byte_3 by lia. split; apply N.add_le_mono_l; apply N.div_le_mono; lia.
  - rewrite !first_byte_4 by lia. split; apply N.add_le_mono_l; apply N.div_le_mono; lia.
Qed.

Lemma range_fold_in x f l acc : f <= l -> utf8_first_byte f <= x -> x <= utf8_first_byte l ->
  In x (fold_left bitmap_set (n_range (utf8_first_byte f) (S (N.to_nat (utf8_first_byte l - utf8_first_byte f)))) acc).
Proof.
  intros H0 H1 H2. apply fold_bitmap_in. left. apply n_range_in. lia.
Qed.

Lemma add_first_bytes_in first last c bm : first <= c -> c <= last -> last <= CODE_POINT_MAX ->
  In (utf8_first_byte c) (add_first_bytes (first, last) bm).
Proof.
  intros H1 H2 H3. unfold add_first_bytes. cbn [fold_left].
  (* membership is kept by every later step *)
  assert (Hkeep : forall x f l acc, In x acc -> In x (if f <=? l then fold_left bitmap_set (n_range (utf8_first_byte f) (S (N.to_nat (utf8_first_byte l - utf8_first_byte f)))) acc else acc)).
  { intros x f l acc Hin. destruct (f <=? l); [apply fold_bitmap_in; right|]; exact Hin. }
  assert (Hadd : forall f l acc, f <= c -> c <= l -> same_class f l ->
             In (utf8_first_byte c) (if f <=? l then fold_left bitmap_set (n_range (utf8_first_byte f) (S (N.to_nat (utf8_first_byte l - utf8_first_byte f)))) acc else acc)).
  { intros f l acc Hf Hl Hs. replace (f <=? l) with true by (symmetry; apply N.leb_le; lia).
    destruct (first_byte_mono f c l Hf Hl Hs) as [M1 M2]. apply range_fold_in; [lia|exact M1|exact M2]. }
  unfold CODE_POINT_MAX in *.
  destruct (N.lt_ge_cases c 128) as [C1|C1].
  - do 3 apply Hkeep. apply Hadd; [lia|lia|left; lia].
  - destruct (N.lt_ge_cases c 2048) as [C2|C2].
    + do 2 apply Hkeep. apply Hadd; [lia|lia|right; left; lia].
    + destruct (N.lt_ge_cases c 65536) as [C3|C3].
      * apply Hkeep. apply Hadd; [lia|lia|right; right; left; lia].
      * apply Hadd; [lia|lia|right; right; right; unfold CODE_POINT_MAX; lia].
Qed.

Lemma add_first_bytes_keep i x bm : In x bm -> In x (add_first_bytes i bm).
Proof.
  destruct i as [first last]. intro H. unfold add_first_bytes. cbn [fold_left].
  assert (Hkeep : forall f l acc, In x acc -> In x (if f <=? l then fold_left bitmap_set (n_range (utf8_first_byte f) (S (N.to_nat (utf8_first_byte l - utf8_first_byte f)))) acc else acc)).
  { intros f l acc Hin. destruct (f <=? l); [apply fold_bitmap_in; right|]; exact Hin. }
  do 4 apply Hkeep. exact H.
Qed.

Lemma wf_from_bound lo s f l : cps_wf_from lo s = true -> In (f, l) s -> l <= CODE_POINT_MAX.
Proof.
  revert lo. induction s as [|[f0 l0] t IH]; intros lo Hw Hin; [contradiction|].
  simpl in Hw. apply andb_true_iff in Hw as [Hw Ht]. apply andb_true_iff in Hw as [Hw Hl].
  destruct Hin as [He|Hin]; [inversion He; subst; apply N.leb_le; exact Hl|eapply IH; eauto].
Qed.

Lemma first_bytes_of_set s c : cps_wf s = true -> cps_contains s c = true ->
  In (utf8_first_byte c) (fold_left (fun acc i => add_first_bytes i acc) s []).
Proof.
  intros Hw Hc. unfold cps_contains in Hc. apply existsb_exists in Hc as ([f l] & Hin & Hiv).
  unfold iv_contains in Hiv. simpl in Hiv. apply andb_true_iff in Hiv as [Hf Hl]. apply N.leb_le in Hf. apply N.leb_le in Hl.
  pose proof (wf_from_bound 0 s f l Hw Hin) as Hb.
  assert (Hgen : forall s' acc, (In (f, l) s' \/ In (utf8_first_byte c) acc) ->
                                In (utf8_first_byte c) (fold_left (fun acc i => add_first_bytes i acc) s' acc)).
  { induction s' as [|i t IH]; intros acc [Hi|Ha]; simpl.
    - contradiction.
    - exact Ha.
    - destruct Hi as [->|Hi]; apply IH; [right; apply add_first_bytes_in; assumption|left; exact Hi].
    - apply IH. right. apply add_first_bytes_keep. exact Ha. }
  apply Hgen. left. exact Hin.
Qed.

(* ---------------- the ASCII bitmap of a bracket denotes its members below 128 ---------------- *)
Lemma fold8_testbit (P : N -> bool) j : j < 8 ->
  N.testbit (fold_left (fun acc b => if P b then acc + N.shiftl 1 b else acc) [0; 1; 2; 3; 4; 5; 6; 7] 0) j = P j.
Proof.
  intro Hj. cbn [fold_left].
  assert (Hc : j = 0 \/ j = 1 \/ j = 2 \/ j = 3 \/ j = 4 \/ j = 5 \/ j = 6 \/ j = 7) by lia.
  destruct Hc as [->|[->|[->|[->|[->|[->|[->| ->]]]]]]];
    destruct (P 0), (P 1), (P 2), (P 3), (P 4), (P 5), (P 6), (P 7); vm_compute; reflexivity.
Qed.

Lemma nth_map16 (f : N -> N) k : k < 16 ->
  nth (N.to_nat k) (map f [0; 1; 2; 3; 4; 5; 6; 7; 8; 9; 10; 11; 12; 13; 14; 15]) 0 = f k.
Proof.
  intro Hk.
  assert (Hc : k = 0 \/ k = 1 \/ k = 2 \/ k = 3 \/ k = 4 \/ k = 5 \/ k = 6 \/ k = 7 \/ k = 8 \/ k = 9 \/ k = 10 \/
               k = 11 \/ k = 12 \/ k = 13 \/ k = 14 \/ k = 15) by lia.
  repeat (destruct Hc as [->|Hc]; [reflexivity|]). subst k. reflexivity.
Qed.

Lemma ascii_bitmap_sound ivs v : ascii_bitmap_contains (ascii_bitmap_of ivs) v = true -> v < 128 /\ cps_contains ivs v = true.
Proof.
  unfold ascii_bitmap_contains. destruct (128 <=? v) eqn:E; [discriminate|]. apply N.leb_gt in E. intro H.
  split; [exact E|]. unfold ascii_bitmap_of in H.
  rewrite N.shiftr_div_pow2 in H. change (2 ^ 3) with 8 in H.
  rewrite nth_map16 in H by (apply N.div_lt_upper_bound; lia).
  replace (N.land v 7) with (v mod 8) in H by (change 7 with (N.ones 3); rewrite N.land_ones; reflexivity).
  rewrite (fold8_testbit (fun b => cps_contains ivs (8 * (v / 8) + b))) in H by (apply N.mod_lt; lia).
  rewrite <- N.div_mod in H by lia. exact H.
Qed.

(* ---------------- soundness against the IR semantics ---------------- *)
From RV.Spec Require Import IRShape.

Section Sound.
  Variable ix : indexer.
  Variable unicode utf16 : bool.
  Variable h : hay.

  (* at the position of the attempt, the byte under the cursor is the first byte of the UTF-8 encoding of the
     element the cursor reads (a scalar value): true of valid UTF-8 at a character boundary, and of ASCII
     bytes; the driver evaluates it along the positions a search visits *)
  Definition first_byte_at (p : nat) : Prop :=
    forall c p', cnext ix true h p = Ok (Some (c, p')) -> nth_error h p = Some (utf8_first_byte c) /\ c <= CODE_POINT_MAX.

  Lemma skipn_hd p b : nth_error h p = Some b -> exists t, skipn p h = b :: t.
  Proof.
    revert p. induction h as [|x l IH]; intros [|p] H; simpl in *; try discriminate.
    - inversion H; subst. eauto.
    - apply IH. exact H.
  Qed.

  Lemma byte_if_fwd p test q : byte_if true h p test = Ok (Some q) -> exists b, nth_error h p = Some b /\ test b = true.
  Proof.
    unfold byte_if, next_byte, peek_byte_right. destruct (p =? length h)%nat; cbn [bindR]; [discriminate|].
    unfold getb. destruct (nth_error h p) as [b|]; cbn [bindR]; [|discriminate].
    destruct (test b) eqn:E; [|discriminate]. intros _. eauto.
  Qed.

  Lemma next_if_fwd p test q : next_if ix true h p test = Ok (Some q) -> exists c, cnext ix true h p = Ok (Some (c, q)) /\ test c = true.
  Proof.
    unfold next_if. destruct (cnext ix true h p) as [e|[[c p']|]]; cbn [bindR]; try discriminate.
    destruct (test c) eqn:E; [|discriminate]. intro H; inversion H; subst. eauto.
  Qed.

  Lemma slice_skipn p e : slice h p e = firstn (e - p) (skipn p h).
  Proof. reflexivity. Qed.

  Lemma match_bytes_fwd p bs q : match_bytes true h p bs = Ok (Some q) ->
    q = (p + length bs)%nat /\ exists rest, skipn p h = bs ++ rest.
  Proof.
    unfold match_bytes, try_move_right. destruct (p <=? length h)%nat eqn:Ep; cbn [bindR]; [|discriminate].
    destruct (length h - p <? length bs)%nat eqn:El; [discriminate|]. apply Nat.ltb_ge in El. apply Nat.leb_le in Ep.
    cbn [bindR]. destruct (bytes_eqb bs (slice h p (p + length bs))) eqn:Eb; [|discriminate]. intro H; inversion H; subst q.
    split; [reflexivity|]. apply list_eqb_eq in Eb. rewrite slice_skipn in Eb.
    replace (p + length bs - p)%nat with (length bs) in Eb by lia.
    exists (skipn (length bs) (skipn p h)). rewrite Eb at 1. symmetry. apply firstn_skipn.
  Qed.

  Lemma skipn_add a b : skipn (a + b) h = skipn b (skipn a h).
  Proof.
    revert a. generalize h. induction h0 as [|x l IH]; intros a; [destruct a, b; reflexivity|].
    destruct a; [reflexivity|]. simpl. apply IH.
  Qed.

  (* a byte literal, emitted in chunks of at most 16 bytes *)
  Lemma chunks_prefix : forall fuel bs p q, (length bs < fuel)%nat ->
    run_insns ix unicode h (map ByteSeq (chunks16 fuel bs)) true p = Some (Some q) ->
    exists rest, skipn p h = bs ++ rest.
  Proof.
    induction fuel as [|k IH]; intros bs p q Hf Hr; [lia|].
    destruct bs as [|b0 t]; [exists (skipn p h); reflexivity|].
    set (bs := b0 :: t) in *. change (chunks16 (S k) bs) with (firstn 16 bs :: chunks16 k (skipn 16 bs)) in Hr.
    cbn [map run_insns match1] in Hr.
    destruct (match_bytes true h p (firstn 16 bs)) as [e|[p1|]] eqn:Em; try discriminate.
    apply match_bytes_fwd in Em as [Hp1 (r1 & Hs1)].
    assert (Hlen : (length (skipn 16 bs) < k)%nat).
    { rewrite skipn_length. unfold bs in *. simpl in *. lia. }
    destruct (IH (skipn 16 bs) p1 q Hlen Hr) as (r2 & Hs2).
    exists r2. rewrite <- (firstn_skipn 16 bs). rewrite <- app_assoc, <- Hs2.
    rewrite Hp1, skipn_add, Hs1. rewrite skipn_app, skipn_all, Nat.sub_diag. reflexivity.
  Qed.

  Lemma some_fun_eq {A B} (f g : A -> B) x r : Some f = Some g -> g x = r -> f x = r.
  Proof. intro H; inversion H; auto. Qed.

  Lemma run_insns_one i p q : run_insns ix unicode h [i] true p = Some (Some q) ->
    match i with
    | Char c => char_pike ix c true h p
    | JustFail => Ok None
    | _ => match match1 ix (dummy_prog unicode) i true h p with Some r => r | None => Err Unreach end
    end = Ok (Some q).
  Proof.
    cbn [run_insns].
    destruct i; try (destruct (match1 ix (dummy_prog unicode) _ true h p) as [[e|[p'|]]|]; intro H; inversion H; reflexivity);
      try discriminate.
    destruct (char_pike ix c true h p) as [e|[p'|]]; intro H; inversion H; reflexivity.
  Qed.

  (* one step of a leaf from p: the predicate computed for the leaf accepts the bytes at p *)
  Lemma leaf_sp_sound n sp p q stepf : first_byte_at p -> brackets_wf n = true ->
    compute_start_predicate n = Ok (Some sp) ->
    single_step ix unicode h false n true = Some stepf -> stepf p = Some (Some q) ->
    asp_test sp (skipn p h) = true.
  Proof.
    intros Hfb Hbw Hc Hss Hst. unfold single_step in Hss.
    destruct n as [ | |c|bs|bs|cs|l0|a b| | |sol ml|inv ui|id c nm|g ic|b|alts icase|ng bw sg eg c|body mn mx gr egs ege|body mn mx gr];
      simpl in Hc; try (inversion Hc; subst sp; reflexivity); try discriminate.
    - (* ByteSequence *)
      inversion Hc; subst sp. cbn [leaf_code] in Hss. apply (some_fun_eq _ _ p _ Hss) in Hst; clear Hss. unfold emit_byte_sequence in Hst.
      destruct (chunks_prefix _ bs p q (Nat.lt_succ_diag_r _) Hst) as (rest & ->). apply is_prefix_app.
    - (* ByteSet *)
      inversion Hc; subst sp. cbn [leaf_code] in Hss. unfold emit_byte_set in Hss.
      destruct bs as [|b0 [|b1 [|b2 [|b3 [|b4 t]]]]]; cbn [length] in Hss; try discriminate; apply (some_fun_eq _ _ p _ Hss) in Hst; clear Hss;
        try (simpl in Hst; discriminate Hst); apply run_insns_one in Hst; cbn [match1] in Hst.
      + apply match_bytes_fwd in Hst as [_ (r1 & ->)]. simpl. rewrite N.eqb_refl. reflexivity.
      + apply byte_if_fwd in Hst as (b & Hb & Ht). destruct (skipn_hd p b Hb) as (t' & ->). cbn [asp_test].
        apply list_contains_in, bitmap_of_in. apply list_contains_in. exact Ht.
      + apply byte_if_fwd in Hst as (b & Hb & Ht). destruct (skipn_hd p b Hb) as (t' & ->). cbn [asp_test].
        apply list_contains_in, bitmap_of_in. apply list_contains_in. exact Ht.
      + apply byte_if_fwd in Hst as (b & Hb & Ht). destruct (skipn_hd p b Hb) as (t' & ->). cbn [asp_test].
        apply list_contains_in, bitmap_of_in. apply list_contains_in. exact Ht.
    - (* CharSet *)
      inversion Hc; subst sp. cbn [leaf_code] in Hss. unfold emit_char_set in Hss.
      destruct cs as [|c0 t]; [apply (some_fun_eq _ _ p _ Hss) in Hst; clear Hss; simpl in Hst; discriminate Hst|].
      destruct (4 <? length (c0 :: t))%nat; [discriminate|]. apply (some_fun_eq _ _ p _ Hss) in Hst; clear Hss.
      apply run_insns_one in Hst. cbn [match1] in Hst.
      apply next_if_fwd in Hst as (c & Hcn & Ht). destruct (Hfb c q Hcn) as [Hb _].
      destruct (skipn_hd p _ Hb) as (t' & ->). cbn [asp_test].
      apply list_contains_in, bitmap_of_in. apply in_map. apply list_contains_in in Ht.
      apply in_app_or in Ht as [Ht|Ht]; [exact Ht|]. apply repeat_spec in Ht. subst c. left; reflexivity.
    - (* Bracket *)
      inversion Hc; subst sp. simpl in Hbw.
      assert (Hmem : exists c, cnext ix true h p = Ok (Some (c, q)) /\
                               cps_contains (if br_invert b then cps_inverted (br_ivs b) else br_ivs b) c = true \/
                               exists v, nth_error h p = Some v /\ v < 128 /\ br_invert b = false /\ cps_contains (br_ivs b) v = true).
      { cbn [leaf_code] in Hss. unfold bracket_as_ascii in Hss.
        destruct (br_invert b) eqn:Einv.
        - apply (some_fun_eq _ _ p _ Hss) in Hst; clear Hss. cbv beta in Hst.
          destruct (next_if ix true h p (bracket_matches b)) as [e|[p1|]] eqn:Em; cbv iota in Hst; try discriminate. inversion Hst; subst p1.
          apply next_if_fwd in Em as (c & Hcn & Ht). exists c. left. split; [exact Hcn|].
          unfold bracket_matches in Ht. rewrite Einv in Ht.
          change (ivs_contains (br_ivs b) c) with (cps_contains (br_ivs b) c) in Ht.
          destruct (cps_contains (br_ivs b) c) eqn:Ecc; [discriminate|].
          destruct (Hfb c q Hcn) as [_ Hmax].
          rewrite (inverted_contains (br_ivs b) c Hbw Hmax). rewrite Ecc. reflexivity.
        - destruct (forallb (fun i => snd i <? 128) (br_ivs b)).
          + apply (some_fun_eq _ _ p _ Hss) in Hst; clear Hss. apply run_insns_one in Hst. cbn [match1] in Hst.
            apply byte_if_fwd in Hst as (v & Hv & Ht). apply ascii_bitmap_sound in Ht as [Hv128 Hcc].
            exists 0. right. exists v. auto.
          + apply (some_fun_eq _ _ p _ Hss) in Hst; clear Hss. cbv beta in Hst.
            destruct (next_if ix true h p (bracket_matches b)) as [e|[p1|]] eqn:Em; cbv iota in Hst; try discriminate. inversion Hst; subst p1.
            apply next_if_fwd in Em as (c & Hcn & Ht). exists c. left. split; [exact Hcn|].
            unfold bracket_matches in Ht. rewrite Einv in Ht.
            change (ivs_contains (br_ivs b) c) with (cps_contains (br_ivs b) c) in Ht.
            destruct (cps_contains (br_ivs b) c); [reflexivity|discriminate]. }
      destruct Hmem as (c & [[Hcn Hcc]|(v & Hv & Hv128 & Einv & Hcc)]).
      + destruct (Hfb c q Hcn) as [Hb _]. destruct (skipn_hd p _ Hb) as (t' & ->). simpl.
        apply list_contains_in. apply first_bytes_of_set; [|exact Hcc].
        destruct (br_invert b); [apply inverted_wf; exact Hbw|exact Hbw].
      + destruct (skipn_hd p _ Hv) as (t' & ->). simpl. rewrite Einv.
        apply list_contains_in.
        replace v with (utf8_first_byte v) at 1 by (unfold utf8_first_byte; replace (v <? 128) with true by (symmetry; apply N.ltb_lt; exact Hv128); reflexivity).
        apply first_bytes_of_set; [exact Hbw|exact Hcc].
  Qed.
End Sound.

Section Sound2.
  Variable ix : indexer.
  Variable unicode utf16 : bool.
  Variable h : hay.

  Definition stay (p : nat) (l : list mst) : Prop := Forall (fun y => fst y = p) l.

  Lemma stay_obindm {A} (rf : A -> option (list mst)) (P : A -> Prop) p : forall xs ys,
    Forall P xs -> (forall x r, P x -> rf x = Some r -> stay p r) -> obindm rf xs = Some ys -> stay p ys.
  Proof.
    induction xs as [|x xs IH]; intros ys HP Hk Hb; simpl in Hb.
    - inversion Hb; subst. constructor.
    - destruct (rf x) as [r|] eqn:Er; [|discriminate]. destruct (obindm rf xs) as [r2|] eqn:E2; [|discriminate].
      inversion Hb; subst. inversion HP; subst. apply Forall_app. split; [eapply Hk; eauto | eapply IH; eauto].
  Qed.

  (* a node for which no predicate is computed never moves the position *)
  Definition node_stay (f : nat) : Prop := forall n p G l,
    compute_start_predicate n = Ok None -> ir_results ix unicode utf16 h f n true (p, G) = Some l -> stay p l.

  Lemma loop_stay f body mn mx gr egs ege p :
    (forall G l, ir_results ix unicode utf16 h f body true (p, G) = Some l -> stay p l) ->
    forall lf k entry G l, loop_results (ir_results ix unicode utf16 h f body true) mn mx gr egs ege lf k entry (p, G) = Some l -> stay p l.
  Proof.
    intro Hb. induction lf as [|lf IH]; intros k entry G l Hr; [discriminate|]. cbn [loop_results fst snd] in Hr.
    destruct ((0 <? k) && (mn <? k) && (entry =? p)%nat); [inversion Hr; constructor|].
    assert (Hy : stay p [(p, G)]) by (constructor; [reflexivity|constructor]).
    assert (Hit : forall it,
              match reset_groups G egs (ege - egs) with
              | None => None
              | Some g1 => match ir_results ix unicode utf16 h f body true (p, g1) with
                           | None => None
                           | Some zs => obindm (loop_results (ir_results ix unicode utf16 h f body true) mn mx gr egs ege lf (k + 1) p) zs
                           end
              end = Some it -> stay p it).
    { intros it Hi. destruct (reset_groups G egs (ege - egs)) as [g1|]; [|discriminate].
      destruct (ir_results ix unicode utf16 h f body true (p, g1)) as [zs|] eqn:Ez; [|discriminate].
      pose proof (Hb g1 zs Ez) as Hz.
      eapply (stay_obindm _ (fun y => fst y = p)); [exact Hz| |exact Hi].
      intros [q' Gq'] r Hq' Hrr. simpl in Hq'. subst q'. eapply IH; eauto. }
    destruct (negb (k <? max_val mx) && negb (mn <=? k)); [inversion Hr; constructor|].
    destruct (negb (k <? max_val mx)); [inversion Hr; subst; exact Hy|].
    destruct (negb (mn <=? k)); [apply Hit; exact Hr|].
    match type of Hr with match ?itx with _ => _ end = _ => destruct itx as [it|] eqn:Eit; [|discriminate] end.
    specialize (Hit it eq_refl). inversion Hr; subst.
    destruct gr; [apply Forall_app; split; auto|constructor; auto; inversion Hy; auto].
  Qed.

  Lemma leaf_pred_some n : (match n with
                            | NCat _ | NAlt _ _ | NCaptureGroup _ _ _ | NLookaround _ _ _ _ _
                            | NLoop _ _ _ _ _ _ | NLoop1CharBody _ _ _ _ => False
                            | _ => True end) -> compute_start_predicate n <> Ok None.
  Proof. destruct n; simpl; intros H; try contradiction; discriminate. Qed.

  Theorem ir_stay : forall f, node_stay f.
  Proof.
    induction f as [|f IHf]; intros n p G l Hc Hr; [discriminate|].
    destruct n as [ | |c|bs|bs|cs|l0|a b| | |sol ml|inv ui|id c nm|g ic|b|alts icase|ng bw sg eg c|body mn mx gr egs ege|body mn mx gr];
      simpl in Hc; try discriminate.
    - (* Cat: every child has no predicate *)
      cbn [ir_results] in Hr.
      assert (Hgen : forall ll xs ys,
                 (fix go (l : list node) : R (option asp) :=
                    match l with [] => Ok None | x :: t => do r <- compute_start_predicate x; match r with Some p0 => Ok (Some p0) | None => go t end end) ll = Ok None ->
                 stay p xs -> cat_results (fun c => ir_results ix unicode utf16 h f c true) ll xs = Some ys -> stay p ys).
      { induction ll as [|x t IH]; intros xs ys Hg Hx Hcr; simpl in Hcr.
        - inversion Hcr; subst. exact Hx.
        - destruct (compute_start_predicate x) as [e|[sp|]] eqn:Ex; simpl in Hg; try discriminate.
          destruct (obindm (fun y => ir_results ix unicode utf16 h f x true y) xs) as [ys1|] eqn:Eb; [|discriminate].
          apply (IH ys1 ys Hg); [|exact Hcr].
          eapply (stay_obindm _ (fun y => fst y = p)); [exact Hx| |exact Eb].
          intros [q Gq] r Hq Hrr. simpl in Hq. subst q. eapply IHf; eauto. }
      eapply Hgen; eauto. constructor; [reflexivity|constructor].
    - (* Alt: never None *)
      destruct (compute_start_predicate a) as [e|[x|]]; simpl in Hc; try discriminate;
        destruct (compute_start_predicate b) as [e|[y|]]; simpl in Hc; try discriminate.
      destruct (asp_disjunction x y); discriminate.
    - (* CaptureGroup *)
      cbn [ir_results] in Hr.
      destruct (upd_group id (set_group_start true p) G) as [G1|]; [|discriminate].
      destruct (ir_results ix unicode utf16 h f c true (p, G1)) as [lc|] eqn:Ec; [|discriminate].
      pose proof (IHf c p G1 lc Hc Ec) as Hlc.
      eapply (stay_obindm _ (fun y => fst y = p)); [exact Hlc| |exact Hr].
      intros [q Gq] r Hq Hrr. simpl in Hq, Hrr. subst q.
      destruct (upd_group id (set_group_end true p) Gq); [|discriminate]. inversion Hrr; subst. constructor; [reflexivity|constructor].
    - (* Lookaround *)
      cbn [ir_results] in Hr.
      destruct (ir_results ix unicode utf16 h f c (negb bw) (p, G)) as [[|y rest]|]; [| |discriminate];
        inversion Hr; subst; destruct ng; repeat constructor.
    - (* Loop *)
      cbn [ir_results] in Hr. destruct (0 <? mn); [|discriminate].
      eapply (loop_stay f body mn mx gr egs ege p); [|exact Hr].
      intros G' l' Hb. eapply IHf; eauto.
    - (* Loop1CharBody: a body without a predicate is not a single-character leaf, so the semantics is undefined *)
      destruct (0 <? mn); [|discriminate]. cbn [ir_results] in Hr. unfold single_step in Hr.
      exfalso.
      destruct body as [ | |c|bs'|bs'|cs|l1|a b| | |sol ml|inv ui|id c nm|g ic|b|alts icase|ng bw sg eg c|body' mn' mx' gr' egs ege|body' mn' mx' gr'];
        simpl in Hc; try discriminate; simpl in Hr; discriminate.
  Qed.

  (* ---- the predicate accepts the bytes at a position where the attempt has a success ---- *)
  Definition node_sp (f : nat) : Prop := forall n p G l sp,
    first_byte_at ix h p -> brackets_wf n = true ->
    compute_start_predicate n = Ok (Some sp) ->
    ir_results ix unicode utf16 h f n true (p, G) = Some l -> l <> [] ->
    asp_test sp (skipn p h) = true.

  Lemma obindm_nonempty {A} (rf : A -> option (list mst)) : forall xs ys,
    obindm rf xs = Some ys -> ys <> [] -> exists x r, In x xs /\ rf x = Some r /\ r <> [].
  Proof.
    induction xs as [|x xs IH]; intros ys Hb Hne; simpl in Hb.
    - inversion Hb; subst. contradiction.
    - destruct (rf x) as [r|] eqn:Er; [|discriminate]. destruct (obindm rf xs) as [r2|] eqn:E2; [|discriminate].
      inversion Hb; subst. destruct r as [|y r'].
      + destruct (IH r2 eq_refl Hne) as (x' & r' & Hin & Hr & Hn). exists x', r'. simpl. auto.
      + exists x, (y :: r'). simpl. repeat split; auto. discriminate.
  Qed.

  Lemma cat_results_nil (rf : node -> mst -> option (list mst)) : forall l, cat_results rf l [] = Some [].
  Proof. induction l as [|c l IH]; simpl; auto. Qed.

  Lemma results_of_nonempty x r l : results_of x r = Some l -> l <> [] -> exists q, r = Some (Some q).
  Proof. destruct r as [[q|]|]; simpl; intros H Hn; inversion H; subst; eauto; contradiction. Qed.

  Theorem ir_sp : forall f, node_sp f.
  Proof.
    induction f as [|f IHf]; intros n p G l sp Hfb Hbw Hc Hr Hne; [discriminate|].
    destruct n as [ | |c|bs|bs|cs|l0|a b| | |sol ml|inv ui|id c nm|g ic|b|alts icase|ng bw sg eg c|body mn mx gr egs ege|body mn mx gr];
      try (simpl in Hc; inversion Hc; subst sp; reflexivity).
    - (* ByteSequence *)
      cbn [ir_results leaf_code negb] in Hr. apply results_of_nonempty in Hr as (q & Hq); [|exact Hne].
      eapply (leaf_sp_sound ix unicode h (NByteSequence bs) sp p q); eauto. reflexivity.
    - (* ByteSet *)
      cbn [ir_results negb] in Hr. destruct (leaf_code false (NByteSet bs)) as [code|] eqn:El; [|discriminate Hr].
      apply results_of_nonempty in Hr as (q & Hq); [|exact Hne].
      eapply (leaf_sp_sound ix unicode h (NByteSet bs) sp p q); eauto. unfold single_step. rewrite El. reflexivity.
    - (* CharSet *)
      cbn [ir_results negb] in Hr. destruct (leaf_code false (NCharSet cs)) as [code|] eqn:El; [|discriminate Hr].
      apply results_of_nonempty in Hr as (q & Hq); [|exact Hne].
      eapply (leaf_sp_sound ix unicode h (NCharSet cs) sp p q); eauto. unfold single_step. rewrite El. reflexivity.
    - (* Cat *)
      cbn [ir_results] in Hr. simpl in Hc, Hbw.
      assert (Hgen : forall ll xs ys,
                 (fix go (l : list node) : bool := match l with [] => true | x :: t => brackets_wf x && go t end) ll = true ->
                 (fix go (l : list node) : R (option asp) :=
                    match l with [] => Ok None | x :: t => do r <- compute_start_predicate x; match r with Some p0 => Ok (Some p0) | None => go t end end) ll = Ok (Some sp) ->
                 stay p xs -> cat_results (fun c => ir_results ix unicode utf16 h f c true) ll xs = Some ys -> ys <> [] ->
                 asp_test sp (skipn p h) = true).
      { induction ll as [|x t IH]; intros xs ys Hw Hg Hx Hcr Hn; [discriminate|].
        apply andb_true_iff in Hw as [Hwx Hwt]. cbn [cat_results] in Hcr.
        destruct (obindm (fun y => ir_results ix unicode utf16 h f x true y) xs) as [ys1|] eqn:Eb; [|discriminate].
        assert (Hn1 : ys1 <> []).
        { intro He. subst ys1. rewrite cat_results_nil in Hcr. inversion Hcr; subst. contradiction. }
        destruct (compute_start_predicate x) as [e|[spx|]] eqn:Ex; cbn [bindR] in Hg; try discriminate.
        - inversion Hg; subst spx.
          destruct (obindm_nonempty _ xs ys1 Eb Hn1) as ([q Gq] & r & Hin & Hrr & Hrn).
          unfold stay in Hx. rewrite Forall_forall in Hx. pose proof (Hx _ Hin) as Hq. simpl in Hq. subst q.
          eapply (IHf x p Gq r sp); eauto.
        - eapply (IH ys1 ys Hwt Hg); eauto.
          eapply (stay_obindm _ (fun y => fst y = p)); [exact Hx| |exact Eb].
          intros [q Gq] r Hq Hrr. simpl in Hq. subst q. eapply (ir_stay f x p Gq r Ex Hrr). }
      eapply Hgen; eauto. constructor; [reflexivity|constructor].
    - (* Alt *)
      cbn [ir_results] in Hr. simpl in Hc, Hbw. apply andb_true_iff in Hbw as [Hwa Hwb].
      destruct (ir_results ix unicode utf16 h f a true (p, G)) as [u|] eqn:Eu; [|discriminate].
      destruct (ir_results ix unicode utf16 h f b true (p, G)) as [v|] eqn:Ev; [|discriminate].
      inversion Hr; subst l.
      destruct (compute_start_predicate a) as [e|[x|]] eqn:Ea; cbn [bindR] in Hc; try discriminate;
        destruct (compute_start_predicate b) as [e|[y|]] eqn:Eb; cbn [bindR] in Hc; try discriminate;
        try (inversion Hc; subst sp; reflexivity).
      destruct (asp_disjunction x y) as [e|d] eqn:Ed; cbn [bindR] in Hc; [discriminate|]. inversion Hc; subst d.
      eapply asp_disjunction_sound; [exact Ed|].
      destruct u as [|y0 u'].
      + right. simpl in Hne. eapply (IHf b p G v y); eauto.
      + left. eapply (IHf a p G (y0 :: u') x); eauto. discriminate.
    - (* CaptureGroup *)
      cbn [ir_results] in Hr. simpl in Hc, Hbw.
      destruct (upd_group id (set_group_start true p) G) as [G1|]; [|discriminate].
      destruct (ir_results ix unicode utf16 h f c true (p, G1)) as [lc|] eqn:Ec; [|discriminate].
      destruct (obindm_nonempty _ lc l Hr Hne) as (y & r & Hin & _ & _).
      eapply (IHf c p G1 lc sp); eauto. intro He. subst lc. contradiction.
    - (* Bracket *)
      simpl in Hbw.
      cbn [ir_results] in Hr.
      destruct (bracket_as_ascii b) as [bm|] eqn:Ea.
      + apply results_of_nonempty in Hr as (q & Hq); [|exact Hne].
        eapply (leaf_sp_sound ix unicode h (NBracket b) sp p q); eauto. unfold single_step. cbn [leaf_code]. rewrite Ea. reflexivity.
      + destruct (next_if ix true h p (bracket_matches b)) as [e|[q|]] eqn:En; inversion Hr; subst l; [|contradiction].
        eapply (leaf_sp_sound ix unicode h (NBracket b) sp p q); eauto.
        * unfold single_step. cbn [leaf_code]. rewrite Ea. reflexivity.
        * cbv beta. rewrite En. reflexivity.
    - (* Loop *)
      simpl in Hc, Hbw. destruct (0 <? mn) eqn:Emn; [|inversion Hc; subst sp; reflexivity].
      cbn [ir_results] in Hr. destruct f as [|f']; [discriminate|]. cbn [loop_results fst snd] in Hr.
      replace (0 <? 0) with false in Hr by reflexivity. cbn [andb] in Hr.
      replace (mn <=? 0) with false in Hr by (symmetry; apply N.leb_gt; apply N.ltb_lt in Emn; lia).
      destruct (0 <? max_val mx); cbn [negb andb] in Hr; [|inversion Hr; subst; contradiction].
      destruct (reset_groups G egs (ege - egs)) as [g1|]; [|discriminate].
      destruct (ir_results ix unicode utf16 h (S f') body true (p, g1)) as [zs|] eqn:Ez; [|discriminate].
      destruct (obindm_nonempty _ zs l Hr Hne) as (y & r & Hin & _ & _).
      eapply (IHf body p g1 zs sp); eauto. intro He. subst zs. contradiction.
    - (* Loop1CharBody *)
      simpl in Hc, Hbw. destruct (0 <? mn) eqn:Emn; [|inversion Hc; subst sp; reflexivity].
      cbn [ir_results negb] in Hr.
      destruct (single_step ix unicode h false body true) as [stepf|] eqn:Ess; [|discriminate Hr].
      destruct f as [|f']; [discriminate Hr|]. cbn [l1_results] in Hr.
      replace (mn <=? 0) with false in Hr by (symmetry; apply N.leb_gt; apply N.ltb_lt in Emn; lia).
      destruct (0 <? max_val mx); [|inversion Hr; subst; contradiction].
      destruct (stepf p) as [[q'|]|] eqn:Est; [| |discriminate].
      + eapply (leaf_sp_sound ix unicode h body sp p q'); eauto.
      + inversion Hr; subst. contradiction.
  Qed.

  (* ---- a start-anchored pattern only succeeds where start_of_line (non-multiline) holds ---- *)
  Theorem ir_anchored : forall f n p G l,
    is_start_anchored n = true -> ir_results ix unicode utf16 h f n true (p, G) = Some l -> l <> [] ->
    start_of_line ix false h p = Ok true.
  Proof.
    induction f as [|f IHf]; intros n p G l Ha Hr Hne; [discriminate|].
    destruct n as [ | |c|bs|bs|cs|l0|a b| | |sol ml|inv ui|id c nm|g ic|b|alts icase|ng bw sg eg c|body mn mx gr egs ege|body mn mx gr];
      simpl in Ha; try discriminate.
    - (* Cat *)
      destruct l0 as [|x t]; [discriminate|]. cbn [ir_results cat_results obindm] in Hr.
      destruct (ir_results ix unicode utf16 h f x true (p, G)) as [r|] eqn:Ex; [|discriminate Hr].
      rewrite app_nil_r in Hr.
      eapply (IHf x p G r); eauto.
      intro He. subst r. rewrite cat_results_nil in Hr. inversion Hr; subst. contradiction.
    - (* Alt *)
      apply andb_true_iff in Ha as [Ha1 Ha2]. cbn [ir_results] in Hr.
      destruct (ir_results ix unicode utf16 h f a true (p, G)) as [u|] eqn:Eu; [|discriminate].
      destruct (ir_results ix unicode utf16 h f b true (p, G)) as [v|] eqn:Ev; [|discriminate].
      inversion Hr; subst l. destruct u as [|y0 u'].
      + simpl in Hne. eapply (IHf b); eauto.
      + eapply (IHf a); eauto. discriminate.
    - (* Anchor *)
      destruct sol; [|discriminate]. apply negb_true_iff in Ha. subst ml. cbn [ir_results] in Hr.
      destruct (start_of_line ix false h p) as [e|[|]]; simpl in Hr; inversion Hr; subst; [reflexivity|contradiction].
    - (* CaptureGroup *)
      cbn [ir_results] in Hr.
      destruct (upd_group id (set_group_start true p) G) as [G1|]; [|discriminate].
      destruct (ir_results ix unicode utf16 h f c true (p, G1)) as [lc|] eqn:Ec; [|discriminate].
      destruct (obindm_nonempty _ lc l Hr Hne) as (y & r & Hin & _ & _).
      eapply (IHf c p G1 lc); eauto. intro He. subst lc. contradiction.
  Qed.
End Sound2.
