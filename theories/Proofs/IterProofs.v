(* IterProofs.v — theorems about exec.rs Matches (model: Exec.collect): iteration is the unfold of a
   first-match function with the lastIndex advance rule, and its consequences. *)
From RV Require Import Base.
From RV.Model Require Import Utf8 Indexer Insn Pike BT Exec.

Section Unfold.
  Variable len : nat.
  (* first match at or after a position, with the next start the executor reports *)
  Variable fm : nat -> option (mmatch * option nat).
  Hypothesis fm_range : forall p m ns, fm p = Some (m, ns) ->
    (p <= m_start m)%nat /\ (m_start m <= m_end m)%nat /\ (m_end m <= len)%nat.
  (* the advance rule: the end of a non-empty match, strictly beyond the end of an empty one *)
  Hypothesis fm_next : forall p m ns c, fm p = Some (m, ns) -> ns = Some c ->
    (m_end m <= c)%nat /\ (m_start m < c)%nat.

  Fixpoint unfold (k : nat) (pos : option nat) : list mmatch :=
    match k with
    | O => []
    | S k' =>
      match pos with
      | None => []
      | Some p => match fm p with None => [] | Some (m, ns) => m :: unfold k' ns end
      end
    end.

  (* every yielded match lies at or after the cursor, inside the text *)
  Lemma unfold_range k p m : In m (unfold k (Some p)) ->
    (p <= m_start m)%nat /\ (m_start m <= m_end m)%nat /\ (m_end m <= len)%nat.
  Proof.
    revert p; induction k as [|k IH]; intros p H; simpl in H; [contradiction|].
    destruct (fm p) as [[m0 ns]|] eqn:E; [|contradiction].
    destruct H as [H|H].
    - subst. eapply fm_range; eauto.
    - destruct ns as [c|]; [|destruct k; simpl in H; contradiction].
      destruct (fm_next _ _ _ _ E eq_refl) as [A B]. destruct (fm_range _ _ _ E) as (C & D & F).
      destruct (IH _ H) as (G & I & J). repeat split; lia.
  Qed.

  (* matches come in increasing order and never overlap *)
  Inductive ordered : list mmatch -> Prop :=
  | ord_nil : ordered []
  | ord_one m : ordered [m]
  | ord_cons m1 m2 l : (m_end m1 <= m_start m2)%nat -> (m_start m1 < m_start m2)%nat ->
                       ordered (m2 :: l) -> ordered (m1 :: m2 :: l).

  Lemma unfold_ordered k pos : ordered (unfold k pos).
  Proof.
    revert pos; induction k as [|k IH]; intros pos; simpl; [constructor|].
    destruct pos as [p|]; [|constructor]. destruct (fm p) as [[m ns]|] eqn:E; [|constructor].
    specialize (IH ns). destruct (unfold k ns) as [|m2 l] eqn:E2; [constructor|].
    destruct k as [|k']; [discriminate|]. simpl in E2. destruct ns as [c|]; [|discriminate].
    destruct (fm c) as [[m2' ns2]|] eqn:E3; [|discriminate]. inversion E2; subst m2'.
    destruct (fm_next _ _ _ _ E eq_refl) as [A B]. destruct (fm_range _ _ _ E3) as (C & _).
    rewrite H1. constructor; [lia | lia | exact IH].
  Qed.

  (* at most one match per position of the remaining text, plus one *)
  Lemma unfold_count k p : (p <= len)%nat -> (length (unfold k (Some p)) <= len - p + 1)%nat.
  Proof.
    revert p; induction k as [|k IH]; intros p Hp; simpl; [lia|].
    destruct (fm p) as [[m ns]|] eqn:E; [|simpl; lia]. simpl.
    destruct ns as [c|]; [|destruct k; simpl; lia].
    destruct (fm_next _ _ _ _ E eq_refl) as [A B]. destruct (fm_range _ _ _ E) as (C & D & F).
    destruct (Nat.le_gt_cases c len) as [Hc|Hc].
    - specialize (IH c Hc). lia.
    - (* the cursor left the text: no further match is possible *)
      destruct k as [|k']; simpl; [lia|]. destruct (fm c) as [[m2 ns2]|] eqn:E2; [|simpl; lia].
      destruct (fm_range _ _ _ E2) as (G & I & J). lia.
  Qed.

  (* fuel: len - p + 2 steps always suffice, more fuel changes nothing *)
  Lemma unfold_fuel k p : (p <= len)%nat -> (len - p + 2 <= k)%nat ->
    unfold (S k) (Some p) = unfold k (Some p).
  Proof.
    revert p; induction k as [|k IH]; intros p Hp Hk; [lia|].
    cbn [unfold]. destruct (fm p) as [[m ns]|] eqn:E; [|reflexivity]. f_equal.
    destruct ns as [c|]; [|destruct k; reflexivity].
    destruct (fm_next _ _ _ _ E eq_refl) as [A B]. destruct (fm_range _ _ _ E) as (C & D & F).
    destruct (Nat.le_gt_cases c len) as [Hc|Hc].
    - apply IH; lia.
    - destruct k as [|k']; cbn [unfold]; destruct (fm c) as [[m2 ns2]|] eqn:E2; try reflexivity;
        destruct (fm_range _ _ _ E2) as (G & I & J); lia.
  Qed.
End Unfold.

(* The model of Matches::next iterated to exhaustion is this unfold, for any executor whose
   next_match answers are a function of the position alone whenever it answers at all (i.e. does not
   stop on the step budget or an error): the PikeVM executor by construction, the backtracking
   executor by history-freedom. *)
Section Collect.
  Variable St : Type.
  Variable next_match : St -> nat -> N -> xres St * N.
  Variable fm : nat -> option (mmatch * option nat).
  Definition answers_by (fm : nat -> option (mmatch * option nat)) : Prop :=
    forall st pos n r n', next_match st pos n = (r, n') ->
      match r with
      | XMatch m ns _ => fm pos = Some (m, ns)
      | XNone _ => fm pos = None
      | _ => True
      end.
  Hypothesis det : answers_by fm.

  Lemma collect_unfold k st position n acc :
    let '(ms, res, _, _, _) := collect St next_match k st position n acc in
    res = IterDone -> ms = rev acc ++ unfold fm k position.
  Proof.
    revert st position n acc; induction k as [|k IH]; intros st position n acc; simpl.
    - discriminate.
    - destruct position as [pos|]; [|intros _; rewrite app_nil_r; reflexivity].
      destruct (next_match st pos n) as [r n'] eqn:En. pose proof (det _ _ _ _ _ En) as Hd.
      destruct r as [m ns st'|st'|e|]; try discriminate.
      + rewrite Hd. specialize (IH st' ns n' (m :: acc)).
        destruct (collect St next_match k st' ns n' (m :: acc)) as [[[[ms res] n2] st2] p2].
        intro Hr. rewrite (IH Hr). simpl. rewrite <- app_assoc. reflexivity.
      + rewrite Hd. intros _. rewrite app_nil_r. reflexivity.
  Qed.

  (* once the iterator has returned None it keeps returning None *)
  Lemma collect_fused k st position n acc :
    let '(ms, res, n1, st1, pos1) := collect St next_match k st position n acc in
    res = IterDone ->
    forall k2 n2, let '(ms2, res2, _, _, _) := collect St next_match k2 st1 pos1 n2 [] in
                  res2 = IterDone -> ms2 = [].
  Proof.
    revert st position n acc; induction k as [|k IH]; intros st position n acc; simpl; [discriminate|].
    destruct position as [pos|].
    - destruct (next_match st pos n) as [r n'] eqn:En. pose proof (det _ _ _ _ _ En) as Hd.
      destruct r as [m ns st'|st'|e|]; try discriminate.
      + specialize (IH st' ns n' (m :: acc)).
        destruct (collect St next_match k st' ns n' (m :: acc)) as [[[[ms res] n2] st2] p2]. exact IH.
      + intros _ k2 n2. destruct k2 as [|k2]; simpl; [discriminate|].
        destruct (next_match st' pos n2) as [r2 n2'] eqn:En2. pose proof (det _ _ _ _ _ En2) as Hd2.
        destruct r2 as [m2 ns2 st2|st2|e2|]; try discriminate.
        * rewrite Hd in Hd2. discriminate.
        * reflexivity.
    - intros _ k2 n2. destruct k2; simpl; [discriminate|reflexivity].
  Qed.
End Collect.

(* a start offset beyond the end yields nothing *)
Lemma collect_start_beyond_end (h : hay) (St : Type) (nm : St -> nat -> N -> xres St * N) k st n start :
  (length h < start)%nat -> collect St nm k st (initial_position h start) n [] = ([], IterDone, n, st, None)
  \/ k = O.
Proof.
  intro H. destruct k; [right; reflexivity|left]. unfold initial_position.
  apply Nat.ltb_lt in H. rewrite H. reflexivity.
Qed.
