(* Utf8Facts.v — well-formed UTF-8: the byte patterns of the Unicode standard (Table 3-7), and what the model's
   decoder and the reference encoder do on them.  The facts about single characters are finite and are checked by
   evaluation over all byte tuples of each pattern. *)
From RV Require Import Base.
From RV.Model Require Import Utf8 Indexer.

Definition cont (b : N) : bool := (128 <=? b) && (b <=? 191).

Definition wf_char (bs : list N) : bool :=
  match bs with
  | [b0] => b0 <? 128
  | [b0; b1] => (194 <=? b0) && (b0 <=? 223) && cont b1
  | [b0; b1; b2] =>
      ((b0 =? 224) && (160 <=? b1) && (b1 <=? 191) || (225 <=? b0) && (b0 <=? 236) && cont b1 ||
       (b0 =? 237) && (128 <=? b1) && (b1 <=? 159) || (238 <=? b0) && (b0 <=? 239) && cont b1) && cont b2
  | [b0; b1; b2; b3] =>
      ((b0 =? 240) && (144 <=? b1) && (b1 <=? 191) || (241 <=? b0) && (b0 <=? 243) && cont b1 ||
       (b0 =? 244) && (128 <=? b1) && (b1 <=? 143)) && cont b2 && cont b3
  | _ => false
  end.

Definition dec (bs : list N) : N :=
  match bs with
  | [b0] => b0
  | [b0; b1] => utf8_w2 b0 b1
  | [b0; b1; b2] => utf8_w3 b0 b1 b2
  | [b0; b1; b2; b3] => utf8_w4 b0 b1 b2 b3
  | _ => 0
  end.

(* what is checked of every well-formed character *)
Definition char_facts (bs : list N) : bool :=
  is_scalar (dec bs) &&
  list_eqb N.eqb (utf8_encode (dec bs)) bs &&
  (match bs with b0 :: t => (utf8_seq_len b0 =? length bs)%nat && negb (is_utf8_continuation b0) &&
                             forallb is_utf8_continuation t && ((b0 <? 128) || (128 <=? dec bs)) &&
                             (negb (b0 <? 128) || (length bs =? 1)%nat) && (utf8_first_byte (dec bs) =? b0)
                | [] => false end).

Fixpoint nrange (a : N) (n : nat) : list N := match n with O => [] | S k => a :: nrange (a + 1) k end.

(* stated on the forallb terms themselves: a defined constant would make the kernel compare the constant with its
   unfolding by evaluating both *)
Lemma all1_ok : forallb (fun b0 => negb (wf_char [b0]) || char_facts [b0]) (nrange 0 256) = true.
Proof. vm_compute. reflexivity. Qed.
Lemma all2_ok :
  forallb (fun b0 => forallb (fun b1 => negb (wf_char [b0; b1]) || char_facts [b0; b1]) (nrange 128 64)) (nrange 192 32) = true.
Proof. vm_compute. reflexivity. Qed.
Lemma all3_ok :
  forallb (fun b0 => forallb (fun b1 => forallb (fun b2 =>
    negb (wf_char [b0; b1; b2]) || char_facts [b0; b1; b2]) (nrange 128 64)) (nrange 128 64)) (nrange 224 16) = true.
Proof. vm_compute. reflexivity. Qed.
Lemma all4_ok :
  forallb (fun b0 => forallb (fun b1 => forallb (fun b2 => forallb (fun b3 =>
    negb (wf_char [b0; b1; b2; b3]) || char_facts [b0; b1; b2; b3]) (nrange 128 64)) (nrange 128 64)) (nrange 128 64)) (nrange 240 5) = true.
Proof. vm_compute. reflexivity. Qed.

(* the reference encoder produces a well-formed character that decodes back, for every scalar value *)
Definition enc_fact (c : N) : bool := negb (is_scalar c) || (wf_char (utf8_encode c) && (dec (utf8_encode c) =? c)).
Definition enc_step (st : N * bool) : N * bool := (fst st + 1, snd st && enc_fact (fst st)).

Lemma enc_all_ok : snd (N.iter 1114112 enc_step (0, true)) = true.
Proof. vm_compute. reflexivity. Qed.

Lemma enc_iter_spec : forall n a b, fst (N.iter n enc_step (a, b)) = a + n /\
  (snd (N.iter n enc_step (a, b)) = true -> b = true /\ forall c, a <= c -> c < a + n -> enc_fact c = true).
Proof.
  induction n as [|n IH] using N.peano_ind; intros a b.
  - cbn [N.iter]. split; [cbn; lia|]. intro H. split; [exact H|]. intros c H1 H2. lia.
  - rewrite N.iter_succ. destruct (IH a b) as [Hf Hs]. unfold enc_step at 1. cbn [fst snd]. split; [rewrite Hf; lia|].
    intro H. apply andb_true_iff in H as [H1 H2]. destruct (Hs H1) as [Hb Hall]. split; [exact Hb|].
    intros c Hc1 Hc2. destruct (N.eq_dec c (a + n)) as [->|Hne]; [rewrite <- Hf; exact H2|apply Hall; lia].
Qed.

Lemma enc_wf c : is_scalar c = true -> wf_char (utf8_encode c) = true /\ dec (utf8_encode c) = c.
Proof.
  intro Hs. destruct (enc_iter_spec 1114112 0 true) as [_ H]. destruct (H enc_all_ok) as [_ Hall].
  assert (Hc : c < 1114112).
  { unfold is_scalar in Hs. apply andb_true_iff in Hs as [H1 _]. apply N.leb_le in H1. lia. }
  specialize (Hall c ltac:(lia) ltac:(lia)). unfold enc_fact in Hall. rewrite Hs in Hall. cbn [negb orb] in Hall.
  apply andb_true_iff in Hall as [H1 H2]. apply N.eqb_eq in H2. split; assumption.
Qed.
