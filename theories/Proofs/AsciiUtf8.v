(* AsciiUtf8.v — on a haystack made only of ASCII bytes the ASCII and the UTF-8 indexer agree on everything
   the IR semantics asks of them; hence (IRExt.v) the IR semantics, and through the interpreter theorems the
   PikeVM (every program) and the backtracker (programs without Loop1CharBody), return the same match in both
   input modes: C13 for the models. *)
From RV Require Import Base.
From RV.Model Require Import Utf8 Indexer CodePointSet Insn IR Optimizer Unfold Emit Pike BT Exec Fold.
From RV.Spec Require Import IRSem IRShape.
From RV.Gen Require Import FoldTables.
From RV.Proofs Require Import IRRange IRExt PikeTop BTTop IndexerFacts Agree.

Definition ascii_hay (h : hay) : Prop := Forall (fun b => b < 128) h.
Notation u8 := (utf8_indexer fold_code_point).

Lemma ascii_firstn n : forall h, ascii_hay h -> ascii_hay (firstn n h).
Proof. induction n as [|n IH]; intros [|b h] H; simpl; try constructor; inversion H; subst; auto. apply IH; auto. Qed.
Lemma ascii_skipn n : forall h, ascii_hay h -> ascii_hay (skipn n h).
Proof. induction n as [|n IH]; intros [|b h] H; simpl; auto. inversion H; subst. apply IH; auto. Qed.
Lemma ascii_slice h a b : ascii_hay h -> ascii_hay (slice h a b).
Proof. intro H. unfold slice. apply ascii_firstn, ascii_skipn, H. Qed.

Lemma ascii_getb h p : ascii_hay h -> (p < length h)%nat -> exists b, getb h p = Ok b /\ b <? 128 = true.
Proof.
  intros Ha Hp. unfold getb. destruct (nth_error h p) as [b|] eqn:E; [|apply nth_error_None in E; lia].
  exists b. split; [reflexivity|]. apply N.ltb_lt. unfold ascii_hay in Ha. rewrite Forall_forall in Ha. apply Ha.
  eapply nth_error_In; eauto.
Qed.

Lemma u8_as_next_right h p : ascii_hay h -> (p <= length h)%nat -> ix_next_right u8 h p = ix_next_right ascii_indexer h p.
Proof.
  intros Ha Hp. simpl. unfold u8_next_right, as_next_right.
  destruct (p =? length h)%nat eqn:E; [reflexivity|]. apply Nat.eqb_neq in E.
  destruct (ascii_getb h p Ha ltac:(lia)) as (b & -> & Hb). cbn [bindR]. rewrite Hb. reflexivity.
Qed.

Lemma u8_as_next_left h p : ascii_hay h -> (p <= length h)%nat -> ix_next_left u8 h p = ix_next_left ascii_indexer h p.
Proof.
  intros Ha Hp. simpl. unfold u8_next_left, as_next_left.
  destruct (p =? 0)%nat eqn:E; [reflexivity|]. apply Nat.eqb_neq in E.
  unfold psub. replace (1 <=? p)%nat with true by (symmetry; apply Nat.leb_le; lia). cbn [bindR].
  destruct (ascii_getb h (p - 1) Ha ltac:(lia)) as (b & -> & Hb). cbn [bindR]. rewrite Hb. reflexivity.
Qed.

Lemma u8_as_next_right_pos h p : ascii_hay h -> (p <= length h)%nat -> ix_next_right_pos u8 h p = ix_next_right_pos ascii_indexer h p.
Proof.
  intros Ha Hp. simpl. unfold u8_next_right_pos, as_next_right_pos, try_move_right.
  replace (p <=? length h)%nat with true by (symmetry; apply Nat.leb_le; lia). cbn [bindR].
  destruct (p =? length h)%nat eqn:E.
  - apply Nat.eqb_eq in E. replace (length h - p <? 1)%nat with true by (symmetry; apply Nat.ltb_lt; lia). reflexivity.
  - apply Nat.eqb_neq in E. destruct (ascii_getb h p Ha ltac:(lia)) as (b & -> & Hb). cbn [bindR]. rewrite Hb.
    replace (length h - p <? 1)%nat with false by (symmetry; apply Nat.ltb_ge; lia). f_equal. f_equal. lia.
Qed.

Lemma u8_as_next_left_pos h p : ascii_hay h -> (p <= length h)%nat -> ix_next_left_pos u8 h p = ix_next_left_pos ascii_indexer h p.
Proof.
  intros Ha Hp. simpl. unfold u8_next_left_pos, as_next_left_pos, try_move_left.
  destruct (p =? 0)%nat eqn:E.
  - apply Nat.eqb_eq in E. subst p. reflexivity.
  - apply Nat.eqb_neq in E. unfold psub. replace (1 <=? p)%nat with true by (symmetry; apply Nat.leb_le; lia). cbn [bindR].
    destruct (ascii_getb h (p - 1) Ha ltac:(lia)) as (b & -> & Hb). cbn [bindR]. rewrite Hb.
    replace (p <? 1)%nat with false by (symmetry; apply Nat.ltb_ge; lia). reflexivity.
Qed.

Lemma u8_cursor (h : hay) fwd p c p' : (p <= length h)%nat -> cnext u8 fwd h p = Ok (Some (c, p')) -> (p' <= length h)%nat.
Proof.
  intro Hp. unfold cnext. destruct fwd; simpl.
  - unfold u8_next_right. destruct (p =? length h)%nat; [discriminate|].
    assert (Hg : forall q b, getb h q = Ok b -> (q < length h)%nat).
    { intros q b H. unfold getb in H. destruct (nth_error h q) eqn:E; [|discriminate]. apply nth_error_Some. congruence. }
    destruct (getb h p) as [e|b0] eqn:E0; cbn [bindR]; [discriminate|]. pose proof (Hg _ _ E0).
    destruct (b0 <? 128); [intro H'; inversion H'; subst; lia|].
    destruct (utf8_seq_len b0) as [|[|[|[|[|k]]]]]; try discriminate;
      repeat match goal with |- context [getb h ?q] => let E := fresh "E" in destruct (getb h q) as [?|?] eqn:E; cbn [bindR]; [discriminate|]; pose proof (Hg _ _ E) end;
      unfold decoded; match goal with |- context [is_scalar ?v] => destruct (is_scalar v) end; intro H'; inversion H'; subst; lia.
  - unfold u8_next_left. destruct (p =? 0)%nat; [discriminate|]. unfold psub.
    repeat match goal with
           | |- context [(?k <=? p)%nat] => destruct (k <=? p)%nat; cbn [bindR]; [|discriminate]
           | |- context [getb h ?q] => destruct (getb h q) as [?|?]; cbn [bindR]; [discriminate|]
           | |- context [if ?c <? 128 then _ else _] => destruct (c <? 128); [intro H'; inversion H'; subst; lia|]
           | |- context [if negb ?c then _ else _] => destruct (negb c); [unfold decoded; match goal with |- context [is_scalar ?v] => destruct (is_scalar v) end; intro H'; inversion H'; subst; lia|]
           end.
    unfold decoded; match goal with |- context [is_scalar ?v] => destruct (is_scalar v) end; intro H'; inversion H'; subst; lia.
Qed.

Lemma u8_small h fwd p c p' : ascii_hay h -> (p <= length h)%nat -> cnext u8 fwd h p = Ok (Some (c, p')) -> c < 128.
Proof.
  intros Ha Hp. unfold cnext. destruct fwd.
  - rewrite (u8_as_next_right h p Ha Hp). simpl. unfold as_next_right.
    destruct (p =? length h)%nat eqn:E; [discriminate|]. apply Nat.eqb_neq in E.
    destruct (ascii_getb h p Ha ltac:(lia)) as (b & -> & Hb). cbn [bindR]. intro H; inversion H; subst. apply N.ltb_lt. exact Hb.
  - rewrite (u8_as_next_left h p Ha Hp). simpl. unfold as_next_left.
    destruct (p =? 0)%nat eqn:E; [discriminate|]. apply Nat.eqb_neq in E.
    unfold psub. replace (1 <=? p)%nat with true by (symmetry; apply Nat.leb_le; lia). cbn [bindR].
    destruct (ascii_getb h (p - 1) Ha ltac:(lia)) as (b & -> & Hb). cbn [bindR]. intro H; inversion H; subst. apply N.ltb_lt. exact Hb.
Qed.

(* fold_equals on ASCII elements: a finite check over the regenerated fold tables *)
Definition ascii_codes : list N := map N.of_nat (seq 0 128).
Lemma fold_agree_check :
  forallb (fun u => forallb (fun c1 => forallb (fun c2 =>
     Bool.eqb (fold_equals u8 u c1 c2) (fold_equals ascii_indexer u c1 c2)) ascii_codes) ascii_codes) [true; false] = true.
Proof. vm_compute. reflexivity. Qed.

Lemma in_ascii_codes c : c < 128 -> In c ascii_codes.
Proof.
  intro H. unfold ascii_codes. apply in_map_iff. exists (N.to_nat c). split; [apply N2Nat.id|]. apply in_seq. lia.
Qed.

Lemma fold_agree u c1 c2 : c1 < 128 -> c2 < 128 -> fold_equals u8 u c1 c2 = fold_equals ascii_indexer u c1 c2.
Proof.
  intros H1 H2. pose proof fold_agree_check as Hc. rewrite forallb_forall in Hc.
  assert (Hu : In u [true; false]) by (destruct u; simpl; auto).
  specialize (Hc u Hu). rewrite forallb_forall in Hc. specialize (Hc c1 (in_ascii_codes c1 H1)).
  rewrite forallb_forall in Hc. specialize (Hc c2 (in_ascii_codes c2 H2)). apply Bool.eqb_prop. exact Hc.
Qed.

Theorem ir_search_ascii_utf8 unicode utf16 h fuel n ngroups tries p : ascii_hay h -> (p <= length h)%nat ->
  ir_search u8 unicode utf16 h fuel n ngroups tries p = ir_search ascii_indexer unicode utf16 h fuel n ngroups tries p.
Proof.
  intros Ha Hp.
  apply (ir_search_ext u8 ascii_indexer unicode utf16 ascii_hay ascii_slice u8_as_next_right u8_as_next_left
                       u8_cursor (fun c => c < 128) (fun h' fwd q c q' A1 A2 A3 => u8_small h' fwd q c q' A1 A2 A3)
                       fold_agree h Ha); auto.
  - intros q Hq. apply u8_as_next_right_pos; assumption.
  - intros q Hq. apply u8_as_next_left_pos; assumption.
  - intros q q' Hq H. rewrite (u8_as_next_right_pos h q Ha Hq) in H. eapply ascii_next_bound; eauto.
Qed.

Lemma result_of_ascii_utf8 h r : ascii_hay h ->
  (forall p0 e gs, r = Some (p0, e, gs) -> (e <= length h)%nat) ->
  result_of u8 h r = result_of ascii_indexer h r.
Proof.
  intros Ha Hr. destruct r as [[[p0 e] gs]|]; [|reflexivity]. simpl. unfold next_start_after.
  destruct (e =? p0)%nat; [|reflexivity]. rewrite (u8_as_next_right_pos h e Ha (Hr _ _ _ eq_refl)). reflexivity.
Qed.

Lemma ir_search_end_range ix unicode utf16 h fuel n ngroups
  (Hcur : forall (h' : hay) fwd p c p', (p <= length h')%nat -> cnext ix fwd h' p = Ok (Some (c, p')) -> (p' <= length h')%nat)
  (Hpos : forall p p', (p <= length h)%nat -> ix_next_right_pos ix h p = Ok (Some p') -> (p' <= length h)%nat) :
  forall tries p p0 e gs, (p <= length h)%nat ->
    ir_search ix unicode utf16 h fuel n ngroups tries p = Some (Some (p0, e, gs)) -> (e <= length h)%nat.
Proof.
  induction tries as [|t IH]; intros p p0 e gs Hp H; [discriminate|]. cbn [ir_search] in H.
  destruct (ir_results ix unicode utf16 h fuel n true (p, repeat gd_empty ngroups)) as [[|y l]|] eqn:Er; [| |discriminate].
  - destruct (ix_next_right_pos ix h p) as [er|[p'|]] eqn:En; try discriminate.
    eapply IH; [|exact H]. eapply Hpos; eauto.
  - inversion H; subst p0 e gs. pose proof (ir_range ix unicode utf16 h Hcur fuel n true p _ _ Hp Er) as Hr.
    inversion Hr; subst. assumption.
Qed.

(* C13 for the PikeVM model: every program, every ASCII haystack *)
Theorem pike_ascii_utf8 h utf16 unicode ml n body prog names fuel tries p r :
  ascii_hay h -> (p <= length h)%nat ->
  top_shape n body -> emit utf16 unicode ml n = Ok (prog, names) -> ir_wf (NCat body) = true ->
  ir_search u8 unicode utf16 h fuel (NCat body) (p_groups prog) tries p = Some r ->
  exists f0 k, forall pfuel n1 n2 budget, (f0 <= pfuel)%nat -> n1 + k <= budget -> n2 + k <= budget ->
    fst (pk_search u8 prog h budget pfuel tries (pk_init_state prog p) n1) =
    fst (pk_search ascii_indexer prog h budget pfuel tries (pk_init_state prog p) n2).
Proof.
  intros Ha Hp Hshape He Hwf Hs.
  pose proof Hs as Hs2. rewrite (ir_search_ascii_utf8 unicode utf16 h fuel (NCat body) (p_groups prog) tries p Ha Hp) in Hs2.
  destruct (pike_emit_correct u8 h utf16 unicode ml n body prog names fuel tries p r Hshape He Hwf Hs) as (f1 & k1 & H1).
  destruct (pike_emit_correct ascii_indexer h utf16 unicode ml n body prog names fuel tries p r Hshape He Hwf Hs2) as (f2 & k2 & H2).
  exists (Nat.max f1 f2), (N.max k1 k2). intros pfuel n1 n2 budget Hf Hb1 Hb2.
  rewrite (H1 pfuel n1 budget) by lia. rewrite (H2 pfuel n2 budget) by lia. simpl.
  apply result_of_ascii_utf8; [exact Ha|].
  intros p0 e gs ->. eapply (ir_search_end_range u8 unicode utf16 h fuel (NCat body) (p_groups prog) (fun h' => u8_cursor h')); [|exact Hp|exact Hs].
  intros q q' Hq H. rewrite (u8_as_next_right_pos h q Ha Hq) in H. eapply ascii_next_bound; eauto.
Qed.

(* ... and for the backtracking model, programs without Loop1CharBody *)
Lemma ascii_bytes_ok h : ascii_hay h -> bytes_ok h.
Proof. intro H. eapply Forall_impl; [|exact H]. intros b Hb. simpl in Hb. lia. Qed.

Lemma walk_ok_u8_ascii h : ascii_hay h -> forall fuel p, (p <= length h)%nat -> walk_ok u8 h fuel p = true.
Proof.
  intro Ha. induction fuel as [|f IH]; intros p Hp; [reflexivity|]. cbn [walk_ok].
  replace (p <=? length h)%nat with true by (symmetry; apply Nat.leb_le; exact Hp). cbn [andb].
  rewrite (u8_as_next_right_pos h p Ha Hp).
  destruct (ix_next_right_pos ascii_indexer h p) as [e|[p'|]] eqn:E; try reflexivity.
  apply IH. eapply ascii_next_bound; eauto.
Qed.

Theorem bt_ascii_utf8 h utf16 unicode ml n body prog names fuel tries p r :
  ascii_hay h -> (p <= length h)%nat ->
  top_shape n body -> emit utf16 unicode ml n = Ok (prog, names) -> bt_wf (p_groups prog) (NCat body) = true ->
  ir_search u8 unicode utf16 h fuel (NCat body) (p_groups prog) tries p = Some r ->
  exists f0 k, forall pfuel n1 n2 budget, (f0 <= pfuel)%nat -> n1 + k <= budget -> n2 + k <= budget ->
    xobs (fst (bt_search u8 prog h budget pfuel (fun _ => true) tries (bt_init prog) p n1)) =
    xobs (fst (bt_search ascii_indexer prog h budget pfuel (fun _ => true) tries (bt_init prog) p n2)).
Proof.
  intros Ha Hp Hshape He Hwf Hs.
  pose proof Hs as Hs2. rewrite (ir_search_ascii_utf8 unicode utf16 h fuel (NCat body) (p_groups prog) tries p Ha Hp) in Hs2.
  destruct (bt_emit_correct u8 h utf16 unicode ml n body prog names fuel tries p r
              (fun fwd q c q' H => utf8_elem fold_code_point h fwd q c q' H) (walk_ok_u8_ascii h Ha tries p Hp) Hshape He Hwf Hs) as (f1 & k1 & st1 & H1).
  destruct (bt_emit_correct ascii_indexer h utf16 unicode ml n body prog names fuel tries p r
              (fun fwd q c q' H => ascii_elem h fwd q c q' (ascii_bytes_ok h Ha) H) (walk_ok_ascii h tries p Hp) Hshape He Hwf Hs2) as (f2 & k2 & st2 & H2).
  exists (Nat.max f1 f2), (N.max k1 k2). intros pfuel n1 n2 budget Hf Hb1 Hb2.
  rewrite (H1 pfuel n1 budget) by lia. rewrite (H2 pfuel n2 budget) by lia. simpl.
  rewrite !xobs_result. apply result_of_ascii_utf8; [exact Ha|].
  intros p0 e gs ->. eapply (ir_search_end_range u8 unicode utf16 h fuel (NCat body) (p_groups prog) (fun h' => u8_cursor h')); [|exact Hp|exact Hs].
  intros q q' Hq H. rewrite (u8_as_next_right_pos h q Ha Hq) in H. eapply ascii_next_bound; eauto.
Qed.
