(* SearcherProofs.v — the steps of the forward and reverse searcher tile the haystack. *)
From RV Require Import Base.
From RV.Model Require Import Searcher.

(* steps are adjacent from [cur] to [len] and end with Done *)
Fixpoint tiles_from (cur len : nat) (l : list sstep) : Prop :=
  match l with
  | [] => False
  | [SDone] => cur = len
  | SMatch a b :: t => a = cur /\ (a <= b)%nat /\ (b <= len)%nat /\ tiles_from b len t
  | SReject a b :: t => a = cur /\ (a < b)%nat /\ (b <= len)%nat /\ tiles_from b len t
  | SDone :: _ => False
  end.

Fixpoint tiles_back (cur : nat) (l : list sstep) : Prop :=
  match l with
  | [] => False
  | [SDone] => cur = 0%nat
  | SMatch a b :: t => b = cur /\ (a <= b)%nat /\ tiles_back a t
  | SReject a b :: t => b = cur /\ (a < b)%nat /\ tiles_back a t
  | SDone :: _ => False
  end.

Section Forward.
  Variable len : nat.
  Variable find_from : nat -> option (nat * nat).
  Variable next_boundary : nat -> nat.
  (* what C09 / C06 give about find_from *)
  Hypothesis ff_range : forall p s e, find_from p = Some (s, e) -> (p <= s)%nat /\ (s <= e)%nat /\ (e <= len)%nat.
  (* the first match at or after p is also the first match at or after any q in [p, its start] *)
  Hypothesis ff_stable : forall p s e q, find_from p = Some (s, e) -> (p <= q)%nat -> (q <= s)%nat -> find_from q = Some (s, e).
  Hypothesis nb_gt : forall p, (p < len)%nat -> (p < next_boundary p)%nat /\ (next_boundary p <= len)%nat.

  Definition finv (s : fstate) : Prop :=
    (fs_cur s <= len)%nat /\
    match fs_search s with
    | Some p => (fs_cur s <= p)%nat /\ (p <= len)%nat
    | None => fs_cur s = len
    end.

  (* progress measure: the steps strictly advance (cur, search) *)
  Definition fmeasure (s : fstate) : nat :=
    if fs_done s then 0%nat else
    S (2 * (len - fs_cur s) + match fs_search s with Some p => S (len - p) | None => 0 end)%nat.

  Lemma s_next_step s : finv s -> fs_done s = false ->
    match s_next len find_from next_boundary s with
    | (SDone, s') => fs_cur s = len
    | (SMatch a b, s') => a = fs_cur s /\ (a <= b)%nat /\ (b <= len)%nat /\ fs_cur s' = b /\ finv s' /\ fs_done s' = false /\ (fmeasure s' < fmeasure s)%nat
    | (SReject a b, s') => a = fs_cur s /\ (a < b)%nat /\ (b <= len)%nat /\ fs_cur s' = b /\
                           ((fs_done s' = false /\ finv s' /\ (fmeasure s' < fmeasure s)%nat) \/ (fs_done s' = true /\ b = len))
    end.
  Proof.
    intros (Hc & Hs) Hd. unfold s_next. rewrite Hd.
    destruct (fs_search s) as [p|] eqn:Es.
    - destruct Hs as [Hcp Hpl].
      destruct (find_from p) as [[ms me]|] eqn:Ef.
      + destruct (ff_range _ _ _ Ef) as (R1 & R2 & R3).
        destruct (Nat.ltb_spec (fs_cur s) ms).
        * repeat split; simpl; try lia. left. repeat split; simpl; try lia.
          unfold fmeasure; simpl. rewrite Hd, Es. lia.
        * assert (ms = fs_cur s) by lia. subst ms.
          repeat split; simpl; try lia.
          -- destruct (Nat.eqb_spec (fs_cur s) me); [|lia].
             destruct (Nat.ltb_spec me len); [|lia].
             destruct (nb_gt me); lia.
          -- unfold fmeasure; simpl. rewrite Hd, Es.
             destruct (Nat.eqb_spec (fs_cur s) me).
             ++ destruct (Nat.ltb_spec me len); [destruct (nb_gt me); lia | lia].
             ++ lia.
      + destruct (Nat.ltb_spec (fs_cur s) len); simpl.
        * repeat split; simpl; try lia; try (right; split; reflexivity).
        * lia.
    - destruct (Nat.ltb_spec (fs_cur s) len); simpl; [lia|]. lia.
  Qed.

  Lemma s_run_tiles fuel s : finv s -> fs_done s = false -> (fmeasure s < fuel)%nat ->
    tiles_from (fs_cur s) len (s_run len find_from next_boundary fuel s).
  Proof.
    revert s; induction fuel as [|k IH]; intros s Hi Hd Hf; [lia|].
    cbn [s_run]. pose proof (s_next_step s Hi Hd) as Hs.
    destruct (s_next len find_from next_boundary s) as [st s'].
    destruct st as [a b|a b|].
    - destruct Hs as (E & H1 & H2 & Hc & Hi' & Hd' & Hm). subst a.
      cbn [tiles_from]. repeat split; auto. rewrite <- Hc. apply IH; auto. lia.
    - destruct Hs as (E & H1 & H2 & Hc & [(Hd' & Hi' & Hm)|(Hd' & Hb)]). subst a.
      + cbn [tiles_from]. repeat split; auto. rewrite <- Hc. apply IH; auto. lia.
      + subst a. cbn [tiles_from]. repeat split; auto.
        destruct k as [|k']; [unfold fmeasure in Hf; rewrite Hd in Hf; lia|].
        cbn [s_run]. unfold s_next. rewrite Hd'. cbn [tiles_from]. exact Hb.
    - cbn [tiles_from]. exact Hs.
  Qed.

  (* the forward searcher, run to Done, tiles [0, len] *)
  Theorem forward_tiles : tiles_from 0 len (s_run len find_from next_boundary (2 * len + len + 5) fs_init).
  Proof.
    apply (s_run_tiles _ fs_init); [unfold finv, fs_init; simpl; lia | reflexivity |].
    unfold fmeasure, fs_init; simpl. lia.
  Qed.
End Forward.

Section Backward.
  Variable len : nat.
  (* the find_iter sequence, last match first: ordered and inside the text (C09) *)
  Fixpoint rev_ok (pos : nat) (l : list (nat * nat)) : Prop :=
    match l with
    | [] => True
    | (s, e) :: t => (s <= e)%nat /\ (e <= pos)%nat /\ rev_ok s t
    end.

  Definition gap (pos : nat) (l : list (nat * nat)) : nat :=
    match l with (_, e) :: _ => if (e <? pos)%nat then 1%nat else 0%nat | [] => 0%nat end.

  Lemma r_run_tiles fuel pos l : rev_ok pos l -> (2 * length l + gap pos l + 2 <= fuel)%nat ->
    tiles_back pos (r_run fuel (mkRS pos l false)).
  Proof.
    revert pos l; induction fuel as [|k IH]; intros pos l Hok Hf; [lia|].
    cbn [r_run]. unfold s_next_back. cbn [rs_done rs_matches rs_pos].
    destruct l as [|[s e] t].
    - destruct (Nat.ltb_spec 0 pos); cbn [tiles_back].
      + repeat split; auto.
        destruct k as [|k']; [simpl in Hf; lia|]. cbn [r_run]. unfold s_next_back. cbn [rs_done]. cbn [tiles_back]. reflexivity.
      + lia.
    - destruct Hok as (H1 & H2 & H3). unfold gap in Hf.
      destruct (Nat.ltb_spec e pos); cbn [tiles_back].
      + repeat split; auto. apply IH; [simpl; repeat split; auto; lia|].
        unfold gap. assert ((e <? e)%nat = false) as -> by (apply Nat.ltb_ge; lia). simpl length in *. lia.
      + assert (e = pos) by lia. subst e. repeat split; auto.
        apply IH; auto. simpl length in Hf.
        assert (gap s t <= 1)%nat by (unfold gap; destruct t as [|[s2 e2] t2]; [lia|]; destruct (e2 <? s)%nat; lia).
        lia.
  Qed.

  Theorem backward_tiles find_iter : rev_ok len (rev find_iter) ->
    tiles_back len (r_run (2 * length find_iter + 4) (rs_init len find_iter)).
  Proof.
    intro H. unfold rs_init. apply r_run_tiles; auto. rewrite rev_length.
    assert (gap len (rev find_iter) <= 1)%nat by (unfold gap; destruct (rev find_iter) as [|[s e] t]; [lia|]; destruct (e <? len)%nat; lia).
    lia.
  Qed.
End Backward.
