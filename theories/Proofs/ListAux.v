(* ListAux.v — list facts used by the lookaround case of the backtracker proof: extensionality through
   nth_error, overwriting a run of consecutive entries, slice and splice_groups. *)
From RV Require Import Base.
From RV.Model Require Import Utf8 Indexer Insn BT.

Lemma list_ext {A} : forall (a b : list A), (forall i, nth_error a i = nth_error b i) -> a = b.
Proof.
  induction a as [|x a IH]; intros [|y b] H.
  - reflexivity.
  - specialize (H 0%nat). discriminate.
  - specialize (H 0%nat). discriminate.
  - pose proof (H 0%nat) as H0. simpl in H0. inversion H0; subst. f_equal. apply IH. intro i. apply (H (S i)).
Qed.

Fixpoint overwrite {A} (l : list A) (p : nat) (vals : list A) : list A :=
  match vals with
  | [] => l
  | v :: t => set_nth p v (overwrite l (S p) t)
  end.

Lemma overwrite_length {A} (vals : list A) : forall l p, length (overwrite l p vals) = length l.
Proof. induction vals as [|v t IH]; intros l p; simpl; [reflexivity|]. rewrite set_nth_length. apply IH. Qed.

Lemma nth_error_overwrite {A} (vals : list A) : forall l p i, (p + length vals <= length l)%nat ->
  nth_error (overwrite l p vals) i =
  if (p <=? i)%nat && (i <? p + length vals)%nat then nth_error vals (i - p) else nth_error l i.
Proof.
  induction vals as [|v t IH]; intros l p i Hlen; cbn [overwrite length] in *.
  - destruct (Nat.leb_spec p i), (Nat.ltb_spec i (p + 0)); cbn [andb]; try reflexivity. exfalso; lia.
  - destruct (Nat.eq_dec i p) as [->|Hne].
    + rewrite nth_error_set_nth_eq by (rewrite overwrite_length; lia).
      destruct (Nat.leb_spec p p), (Nat.ltb_spec p (p + S (length t))); cbn [andb]; try (exfalso; lia).
      rewrite Nat.sub_diag. reflexivity.
    + rewrite nth_error_set_nth_neq by auto. rewrite IH by lia.
      destruct (Nat.leb_spec (S p) i), (Nat.ltb_spec i (S p + length t)), (Nat.leb_spec p i), (Nat.ltb_spec i (p + S (length t)));
        cbn [andb]; try reflexivity; try (exfalso; lia).
      replace (i - p)%nat with (S (i - S p)) by lia. reflexivity.
Qed.

Lemma nth_error_firstn' {A} : forall n (l : list A) i, (i < n)%nat -> nth_error (firstn n l) i = nth_error l i.
Proof.
  induction n as [|n IH]; intros l i Hi; [lia|]. destruct l as [|x l]; [destruct i; reflexivity|].
  destruct i as [|i]; simpl; [reflexivity|]. apply IH. lia.
Qed.
Lemma nth_error_skipn' {A} : forall n (l : list A) i, nth_error (skipn n l) i = nth_error l (n + i).
Proof.
  induction n as [|n IH]; intros l i; [reflexivity|]. destruct l as [|x l]; simpl; [destruct i; reflexivity|]. apply IH.
Qed.

Lemma nth_error_slice {A} (l : list A) a b j : (j < b - a)%nat -> nth_error (slice l a b) j = nth_error l (a + j).
Proof.
  intro Hj. unfold slice. rewrite nth_error_firstn' by exact Hj. rewrite nth_error_skipn'. reflexivity.
Qed.

Lemma slice_length {A} (l : list A) a b : (a <= b)%nat -> (b <= length l)%nat -> length (slice l a b) = (b - a)%nat.
Proof. intros H1 H2. unfold slice. rewrite firstn_length, skipn_length. lia. Qed.

(* entries [sg, eg) restored from the saved slice, the rest already equal: the original list *)
Lemma overwrite_slice {A} (G G' : list A) sg eg : (sg <= eg)%nat -> (eg <= length G)%nat ->
  length G' = length G -> (forall i, (i < sg \/ eg <= i)%nat -> nth_error G' i = nth_error G i) ->
  overwrite G' sg (slice G sg eg) = G.
Proof.
  intros H1 H2 Hl Ho. apply list_ext. intro i.
  rewrite nth_error_overwrite by (rewrite slice_length by assumption; lia).
  rewrite slice_length by assumption.
  destruct (sg <=? i)%nat eqn:E1; simpl.
  - apply Nat.leb_le in E1. destruct (i <? sg + (eg - sg))%nat eqn:E2.
    + apply Nat.ltb_lt in E2. rewrite nth_error_slice by lia. f_equal. lia.
    + apply Nat.ltb_ge in E2. apply Ho. lia.
  - apply Nat.leb_gt in E1. apply Ho. lia.
Qed.

Lemma nth_error_splice (G' saved : list groupdata) sg i : (sg + length saved <= length G')%nat ->
  nth_error (splice_groups G' sg saved) i =
  if (sg <=? i)%nat && (i <? sg + length saved)%nat then nth_error saved (i - sg) else nth_error G' i.
Proof.
  intro Hlen. unfold splice_groups.
  destruct (Nat.lt_ge_cases i sg) as [Hlt|Hge].
  - replace (sg <=? i)%nat with false by (symmetry; apply Nat.leb_gt; lia). simpl.
    rewrite nth_error_app1 by (rewrite firstn_length; lia). apply nth_error_firstn'. exact Hlt.
  - replace (sg <=? i)%nat with true by (symmetry; apply Nat.leb_le; lia). simpl.
    rewrite nth_error_app2 by (rewrite firstn_length; lia). rewrite firstn_length.
    replace (Nat.min sg (length G')) with sg by lia.
    destruct (i <? sg + length saved)%nat eqn:E2.
    + apply Nat.ltb_lt in E2. rewrite nth_error_app1 by lia. reflexivity.
    + apply Nat.ltb_ge in E2. rewrite nth_error_app2 by lia. rewrite nth_error_skipn'. f_equal. lia.
Qed.

Lemma splice_slice (G G' : list groupdata) sg eg : (sg <= eg)%nat -> (eg <= length G)%nat ->
  length G' = length G -> (forall i, (i < sg \/ eg <= i)%nat -> nth_error G' i = nth_error G i) ->
  splice_groups G' sg (slice G sg eg) = G.
Proof.
  intros H1 H2 Hl Ho. apply list_ext. intro i.
  rewrite nth_error_splice by (rewrite slice_length by assumption; lia).
  rewrite slice_length by assumption.
  destruct (sg <=? i)%nat eqn:E1; simpl.
  - apply Nat.leb_le in E1. destruct (i <? sg + (eg - sg))%nat eqn:E2.
    + apply Nat.ltb_lt in E2. rewrite nth_error_slice by lia. f_equal. lia.
    + apply Nat.ltb_ge in E2. apply Ho. lia.
  - apply Nat.leb_gt in E1. apply Ho. lia.
Qed.
