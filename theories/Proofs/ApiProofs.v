(* ApiProofs.v — theorems about the model of api.rs (Match accessors, replace*, expand_replacement, escape). *)
From RV Require Import Base.
From RV.Model Require Import Utf8 Api.

Lemma N_eqb_list_eq (a b : list N) : list_eqb N.eqb a b = true <-> a = b.
Proof.
  revert b; induction a as [|x a IH]; intros [|y b]; simpl; split; intro H; try congruence; auto.
  - apply andb_true_iff in H as [H1 H2]. apply N.eqb_eq in H1. apply IH in H2. congruence.
  - inversion H; subst. apply andb_true_iff; split; [apply N.eqb_refl | apply IH; reflexivity].
Qed.
Lemma name_eqb_eq a b : name_eqb a b = true <-> a = b.
Proof. apply N_eqb_list_eq. Qed.
Lemma name_eqb_refl a : name_eqb a a = true.
Proof. apply name_eqb_eq; reflexivity. Qed.
Lemma name_eqb_sym a b : name_eqb a b = name_eqb b a.
Proof.
  destruct (name_eqb a b) eqn:E1, (name_eqb b a) eqn:E2; auto.
  - apply name_eqb_eq in E1; subst. rewrite name_eqb_refl in E2; discriminate.
  - apply name_eqb_eq in E2; subst. rewrite name_eqb_refl in E1; discriminate.
Qed.

(* ---------------- C16: accessors ---------------- *)
Lemma group_zero m : group m 0 = Some (am_range m).
Proof. reflexivity. Qed.

Lemma group_succ m i : group m (S i) = nth i (am_caps m) None.
Proof.
  simpl. revert i. induction (am_caps m) as [|c cs IH]; intros [|i]; simpl; auto.
Qed.

Lemma map_nth_seq {A} (l : list A) (d : A) : map (fun i => nth i l d) (seq 0 (length l)) = l.
Proof.
  induction l as [|x l IH]; simpl; auto. f_equal.
  rewrite <- seq_shift, map_map. exact IH.
Qed.

Lemma groups_spec m : groups m = Some (am_range m) :: am_caps m.
Proof.
  unfold groups. simpl. f_equal.
  rewrite <- seq_shift, map_map.
  erewrite map_ext; [apply map_nth_seq|]. intro i. apply group_succ.
Qed.

(* what named_group computes: the first participating capture among the groups carrying the name *)
Lemma named_group_go_some name names caps r :
  named_group_go name names caps = Some r ->
  exists i, nth_error names i = Some name /\ nth_error caps i = Some (Some r) /\
            forall j, (j < i)%nat -> nth_error names j = Some name -> nth_error caps j = Some None.
Proof.
  revert caps; induction names as [|n ns IH]; intros [|c cs] H; simpl in H; try discriminate.
  destruct (name_eqb n name) eqn:E.
  - apply name_eqb_eq in E; subst n. destruct c as [r'|].
    + inversion H; subst. exists 0%nat. repeat split; auto. intros j Hj; lia.
    + destruct (IH _ H) as (i & H1 & H2 & H3). exists (S i). repeat split; auto.
      intros [|j] Hj Hn; simpl in *; auto. apply H3; auto; lia.
  - destruct (IH _ H) as (i & H1 & H2 & H3). exists (S i). repeat split; auto.
    intros [|j] Hj Hn; simpl in *.
    + inversion Hn; subst. rewrite name_eqb_refl in E; discriminate.
    + apply H3; auto; lia.
Qed.

Lemma named_group_go_none name names caps :
  length names = length caps ->
  named_group_go name names caps = None ->
  forall i, nth_error names i = Some name -> nth_error caps i = Some None.
Proof.
  revert caps; induction names as [|n ns IH]; intros [|c cs] HL H i Hi; simpl in *; try discriminate.
  - destruct i; discriminate.
  - destruct i as [|i]; simpl in *.
    + inversion Hi; subst. rewrite name_eqb_refl in H. destruct c; [discriminate|reflexivity].
    + destruct (name_eqb n name); [destruct c; [discriminate|]|]; eapply IH; eauto.
Qed.

(* named_groups: lookup of a name *)
Definition ng_lookup (name : list N) (l : list (list N * option range)) : option range :=
  match find (fun p => name_eqb (fst p) name) l with Some (_, r) => r | None => None end.

Lemma best_range_spec name first names caps :
  best_range name first names caps =
  match first with Some _ => first | None => named_group_go name names caps end.
Proof.
  destruct first as [r|]; [destruct names; reflexivity|].
  revert caps; induction names as [|n ns IH]; intros [|c cs]; simpl; auto.
  destruct (name_eqb n name); [destruct c; auto|]; apply IH.
Qed.

Lemma named_groups_go_lookup name seen names caps :
  name <> [] ->
  existsb (name_eqb name) seen = false ->
  ng_lookup name (named_groups_go seen names caps) = named_group_go name names caps.
Proof.
  intros Hne. revert seen caps. induction names as [|n ns IH]; intros seen [|c cs] Hseen; simpl; auto.
  assert (Hseen' : name_eqb n name = false -> existsb (name_eqb name) (seen ++ [n]) = false).
  { intro E. rewrite existsb_app, Hseen. simpl. rewrite name_eqb_sym, E. reflexivity. }
  destruct (name_eqb n []) eqn:En.
  - apply name_eqb_eq in En; subst n.
    destruct (name_eqb [] name) eqn:E.
    + apply name_eqb_eq in E. congruence.
    + apply IH. apply Hseen'; first [exact E | reflexivity].
  - destruct (existsb (name_eqb n) seen) eqn:Es.
    + destruct (name_eqb n name) eqn:E.
      * apply name_eqb_eq in E; subst n. congruence.
      * apply IH. apply Hseen'; first [exact E | reflexivity].
    + unfold ng_lookup; simpl. destruct (name_eqb n name) eqn:E.
      * apply name_eqb_eq in E; subst n. rewrite best_range_spec. destruct c; reflexivity.
      * fold (ng_lookup name (named_groups_go (seen ++ [n]) ns cs)). apply IH. apply Hseen'; first [exact E | reflexivity].
Qed.

Lemma named_agree m name :
  named_group m name = AOk (ng_lookup name (named_groups m)).
Proof.
  unfold named_group, named_groups. destruct name as [|c name]; simpl.
  - (* the empty name is the sentinel: never reported by named_groups *)
    f_equal. unfold ng_lookup.
    assert (H : forall seen names caps, find (fun p => name_eqb (fst p) []) (named_groups_go seen names caps) = None).
    { intros seen names; revert seen; induction names as [|n ns IH]; intros seen [|c cs]; simpl; auto.
      destruct (name_eqb n []) eqn:E; auto. destruct (existsb (name_eqb n) seen); auto.
      simpl. rewrite E. apply IH. }
    rewrite H. reflexivity.
  - f_equal. symmetry. apply named_groups_go_lookup; [discriminate | reflexivity].
Qed.

(* names reported by named_groups: non-empty, pairwise distinct, and not among [seen] *)
Lemma named_groups_go_names seen names caps n r :
  In (n, r) (named_groups_go seen names caps) ->
  n <> [] /\ existsb (name_eqb n) seen = false /\ In n names.
Proof.
  revert seen caps; induction names as [|x ns IH]; intros seen [|c cs] H; simpl in H; try contradiction.
  assert (Hrec : In (n, r) (named_groups_go (seen ++ [x]) ns cs) ->
                 n <> [] /\ existsb (name_eqb n) seen = false /\ In n (x :: ns)).
  { intro H'. destruct (IH _ _ H') as (A & B & C). rewrite existsb_app in B.
    apply orb_false_iff in B as [B1 _]. repeat split; auto. right; exact C. }
  destruct (name_eqb x []) eqn:E; [auto|].
  destruct (existsb (name_eqb x) seen) eqn:Es; [auto|].
  destruct H as [H|H]; [|auto]. inversion H; subst. repeat split; auto.
  - intro; subst. rewrite name_eqb_refl in E; discriminate.
  - left; reflexivity.
Qed.

Lemma named_groups_go_nodup seen names caps :
  NoDup (map fst (named_groups_go seen names caps)).
Proof.
  revert seen caps; induction names as [|x ns IH]; intros seen [|c cs]; simpl; try constructor.
  destruct (name_eqb x []); [apply IH|]. destruct (existsb (name_eqb x) seen); [apply IH|].
  simpl. constructor; [|apply IH]. intro Hin. apply in_map_iff in Hin as ((n & r) & Hn & Hin). simpl in Hn; subst n.
  apply named_groups_go_names in Hin as (_ & B & _). rewrite existsb_app in B. apply orb_false_iff in B as [_ B].
  simpl in B. rewrite name_eqb_refl in B. discriminate.
Qed.

(* ---------------- C17: replace ---------------- *)
Lemma slice_full {A} (l : list A) : slice l 0 (length l) = l.
Proof. unfold slice. rewrite Nat.sub_0_r. simpl. apply firstn_all. Qed.

Lemma skipn_add {A} (l : list A) a b : skipn (a + b) l = skipn b (skipn a l).
Proof. revert l; induction a as [|a IH]; intros [|x l]; simpl; auto. destruct b; reflexivity. Qed.
Lemma firstn_plus {A} (l : list A) a b : firstn (a + b) l = firstn a l ++ firstn b (skipn a l).
Proof. revert l; induction a as [|a IH]; intros [|x l]; simpl; auto. - destruct b; reflexivity. - f_equal; apply IH. Qed.

Lemma slice_app {A} (l : list A) a b c : (a <= b)%nat -> (b <= c)%nat -> (c <= length l)%nat ->
  slice l a b ++ slice l b c = slice l a c.
Proof.
  intros H1 H2 H3. unfold slice.
  assert (Hs : skipn b l = skipn (b - a) (skipn a l)) by (rewrite <- skipn_add; f_equal; lia).
  rewrite Hs.
  replace (c - a)%nat with ((b - a) + (c - b))%nat by lia.
  rewrite firstn_plus. reflexivity.
Qed.

(* a match sequence as the iterator produces it: in order, non-overlapping, inside the text *)
Fixpoint ms_ok (len last : nat) (ms : list amatch) : Prop :=
  match ms with
  | [] => (last <= len)%nat
  | m :: ms' => (last <= fst (am_range m))%nat /\ (fst (am_range m) <= snd (am_range m))%nat /\
                (snd (am_range m) <= len)%nat /\ ms_ok len (snd (am_range m)) ms'
  end.

(* the declarative result: unmatched slices interleaved with the replacements *)
Fixpoint splice (text : list N) (ms : list amatch) (r : amatch -> list N) (last : nat) : list N :=
  match ms with
  | [] => slice text last (length text)
  | m :: ms' => slice text last (fst (am_range m)) ++ r m ++ splice text ms' r (snd (am_range m))
  end.

Lemma checked_slice_ok text a b : (a <= b)%nat -> (b <= length text)%nat ->
  checked_slice text a b = AOk (slice text a b).
Proof.
  intros H1 H2. unfold checked_slice.
  destruct (b <? a)%nat eqn:E1; [apply Nat.ltb_lt in E1; lia|].
  destruct (length text <? b)%nat eqn:E2; [apply Nat.ltb_lt in E2; lia|]. reflexivity.
Qed.

Lemma replace_all_go_splice text ms f r last :
  ms_ok (length text) last ms -> (forall m, In m ms -> f m = AOk (r m)) ->
  replace_all_go text ms f last = AOk (splice text ms r last).
Proof.
  revert last; induction ms as [|m ms IH]; intros last Hok Hf; simpl in *.
  - apply checked_slice_ok; [exact Hok | lia].
  - destruct Hok as (H1 & H2 & H3 & H4).
    rewrite checked_slice_ok by lia. rewrite (Hf m) by (left; reflexivity).
    rewrite (IH (snd (am_range m))); auto.
Qed.

Lemma splice_identity text ms last :
  ms_ok (length text) last ms ->
  splice text ms (fun m => text_slice text (am_range m)) last = slice text last (length text).
Proof.
  revert last; induction ms as [|m ms IH]; intros last Hok; simpl in *; auto.
  destruct Hok as (H1 & H2 & H3 & H4). rewrite IH by exact H4. unfold text_slice.
  assert (Hle : (snd (am_range m) <= length text)%nat) by exact H3.
  rewrite slice_app by lia. rewrite slice_app by lia. reflexivity.
Qed.

Lemma ms_ok_last_le len last ms : ms_ok len last ms -> (last <= len)%nat.
Proof. destruct ms; simpl; intros; lia. Qed.

(* expand_replacement on a template without '$' is the template itself *)
Lemma expand_no_dollar f m text t :
  (length t < f)%nat -> forallb (fun c => negb (c =? 36)) t = true ->
  expand f m text t = AOk (encode_str t).
Proof.
  revert t; induction f as [|f IH]; intros t Hl Hd; [lia|].
  destruct t as [|c t]; simpl; auto.
  simpl in Hd. apply andb_true_iff in Hd as [Hc Hd]. apply negb_true_iff in Hc. rewrite Hc.
  rewrite IH; auto. simpl in Hl; lia.
Qed.

(* escape only ever inserts a backslash before one of the 14 special characters *)
Fixpoint unescape (s : list N) : list N :=
  match s with
  | 92 :: c :: t => c :: unescape t
  | c :: t => c :: unescape t
  | [] => []
  end.

Lemma escape_cons c s : escape (c :: s) = (if is_special c then [92; c] else [c]) ++ escape s.
Proof. reflexivity. Qed.

(* ---------------- expand_replacement: fuel independence and the token equations ---------------- *)
Lemma parse_group_num_len acc t : (length (snd (parse_group_num acc t)) <= length t)%nat.
Proof.
  revert acc; induction t as [|d t IH]; intros acc; simpl; auto.
  destruct (is_digit d); simpl; [|lia].
  destruct (MAX_CAPTURE_GROUPS <? acc * 10 + (d - 48)); simpl; [lia|]. specialize (IH (acc * 10 + (d - 48))). lia.
Qed.

Lemma split_brace_len t n r : split_brace t = Some (n, r) -> (length r < length t)%nat.
Proof.
  revert n r; induction t as [|c t IH]; intros n r H; simpl in H; [discriminate|].
  destruct (c =? 125).
  - inversion H; subst; simpl; lia.
  - destruct (split_brace t) as [[n' r']|] eqn:E; [|discriminate]. inversion H; subst.
    specialize (IH _ _ eq_refl). simpl; lia.
Qed.

Lemma expand_fuel f1 f2 m text t :
  (length t < f1)%nat -> (length t < f2)%nat -> expand f1 m text t = expand f2 m text t.
Proof.
  revert f2 t; induction f1 as [|f1 IH]; intros f2 t H1 H2; [lia|].
  destruct f2 as [|f2]; [lia|].
  destruct t as [|ch rest]; [reflexivity|]. simpl in H1, H2.
  cbn [expand].
  destruct (ch =? 36).
  - destruct rest as [|c2 rest2]; [reflexivity|]. simpl in H1, H2.
    destruct (c2 =? 36); [rewrite (IH f2 rest2) by lia; reflexivity|].
    destruct (is_digit c2) eqn:Ed.
    + pose proof (parse_group_num_len 0 (c2 :: rest2)) as Hl.
      destruct (parse_group_num 0 (c2 :: rest2)) as [num rest3]. simpl in Hl.
      rewrite (IH f2 rest3) by lia. reflexivity.
    + destruct (c2 =? 123).
      * destruct (split_brace rest2) as [[name rest3]|] eqn:Es; [|reflexivity].
        apply split_brace_len in Es.
        rewrite (IH f2 rest3) by lia. reflexivity.
      * rewrite (IH f2 (c2 :: rest2)) by (simpl; lia). reflexivity.
  - rewrite (IH f2 rest) by lia. reflexivity.
Qed.

Definition app_out (pre : list N) (k : ares (list N)) : ares (list N) :=
  match k with APanic => APanic | AOk o => AOk (pre ++ o) end.

(* one unfolding of expand on a non-empty template *)
Lemma expand_S f m text ch rest :
  expand (S f) m text (ch :: rest) =
  if ch =? 36 then
    match rest with
    | c2 :: rest2 =>
      if c2 =? 36 then app_out [36] (expand f m text rest2)
      else if is_digit c2 then
        let '(num, rest3) := parse_group_num 0 rest in
        app_out (match group m (N.to_nat num) with Some r => text_slice text r | None => [] end)
                (expand f m text rest3)
      else if c2 =? 123 then
        match split_brace rest2 with
        | Some (name, rest3) =>
            match named_group m (encode_str name) with
            | APanic => APanic
            | AOk (Some r) => app_out (text_slice text r) (expand f m text rest3)
            | AOk None => expand f m text rest3
            end
        | None => AOk ([36; 123] ++ encode_str rest2)
        end
      else app_out [36] (expand f m text rest)
    | [] => AOk [36]
    end
  else app_out (utf8_encode ch) (expand f m text rest).
Proof. reflexivity. Qed.

(* any other character is literal *)
Lemma expand_lit m text c t : c <> 36 ->
  expand_replacement m text (c :: t) = app_out (utf8_encode c) (expand_replacement m text t).
Proof.
  intro H. unfold expand_replacement. cbn [length]. rewrite expand_S.
  apply N.eqb_neq in H. rewrite H. reflexivity.
Qed.

(* $$ is a dollar sign *)
Lemma expand_dollar_dollar m text t :
  expand_replacement m text (36 :: 36 :: t) = app_out [36] (expand_replacement m text t).
Proof.
  unfold expand_replacement. cbn [length]. rewrite expand_S. rewrite N.eqb_refl.
  rewrite (expand_fuel (S (S (length t))) (S (length t))) by lia. reflexivity.
Qed.

(* $N: the text of group N (nothing if absent or not participating), N the maximal digit run capped at 65535 *)
Lemma expand_group m text d t : is_digit d = true ->
  expand_replacement m text (36 :: d :: t) =
  let '(num, rest) := parse_group_num 0 (d :: t) in
  app_out (match group m (N.to_nat num) with Some r => text_slice text r | None => [] end)
          (expand_replacement m text rest).
Proof.
  intro Hd. unfold expand_replacement. cbn [length]. rewrite expand_S. rewrite N.eqb_refl.
  assert (d =? 36 = false) as ->.
  { unfold is_digit in Hd. apply andb_true_iff in Hd as [A B]. apply N.leb_le in A, B. apply N.eqb_neq. lia. }
  rewrite Hd.
  pose proof (parse_group_num_len 0 (d :: t)) as Hl.
  destruct (parse_group_num 0 (d :: t)) as [num rest]. simpl in Hl.
  rewrite (expand_fuel (S (S (length t))) (S (length rest))) by lia. reflexivity.
Qed.

(* ${name}: the text of the participating group of that name *)
Lemma expand_named m text t name rest : split_brace t = Some (name, rest) ->
  expand_replacement m text (36 :: 123 :: t) =
  match named_group m (encode_str name) with
  | APanic => APanic
  | AOk (Some r) => app_out (text_slice text r) (expand_replacement m text rest)
  | AOk None => expand_replacement m text rest
  end.
Proof.
  intro Hs. unfold expand_replacement. cbn [length]. rewrite expand_S. rewrite N.eqb_refl.
  change (123 =? 36) with false. change (is_digit 123) with false. change (123 =? 123) with true. cbv iota.
  rewrite Hs. pose proof (split_brace_len _ _ _ Hs) as Hl.
  rewrite (expand_fuel (S (S (length t))) (S (length rest))) by lia. reflexivity.
Qed.

(* an unterminated ${ is literal to the end of the template *)
Lemma expand_unterminated m text t : split_brace t = None ->
  expand_replacement m text (36 :: 123 :: t) = AOk ([36; 123] ++ encode_str t).
Proof.
  intro Hs. unfold expand_replacement. cbn [length]. rewrite expand_S. rewrite N.eqb_refl.
  change (123 =? 36) with false. change (is_digit 123) with false. change (123 =? 123) with true. cbv iota.
  rewrite Hs. reflexivity.
Qed.

(* a trailing $, or $ before anything else, is literal *)
Lemma expand_dollar_end m text : expand_replacement m text [36] = AOk [36].
Proof. reflexivity. Qed.
Lemma expand_dollar_other m text c t : c <> 36 -> is_digit c = false -> c <> 123 ->
  expand_replacement m text (36 :: c :: t) = app_out [36] (expand_replacement m text (c :: t)).
Proof.
  intros H1 H2 H3. unfold expand_replacement. cbn [length]. rewrite expand_S. rewrite N.eqb_refl.
  apply N.eqb_neq in H1, H3. rewrite H1, H2, H3.
  reflexivity.
Qed.

(* ---------------- C18: shape of escape ---------------- *)
Inductive Esc : list N -> list N -> Prop :=
| Esc_nil : Esc [] []
| Esc_plain c s e : is_special c = false -> Esc s e -> Esc (c :: s) (c :: e)
| Esc_special c s e : is_special c = true -> Esc s e -> Esc (c :: s) (92 :: c :: e).

Lemma escape_Esc s : Esc s (escape s).
Proof.
  induction s as [|c s IH]; [constructor|]. rewrite escape_cons.
  destruct (is_special c) eqn:E; simpl; constructor; assumption.
Qed.

Lemma unescape_plain c t : c <> 92 -> unescape (c :: t) = c :: unescape t.
Proof.
  intro H. simpl. destruct c as [|p]; [reflexivity|].
  do 7 (destruct p as [p|p|]; try reflexivity). exfalso; apply H; reflexivity.
Qed.

Lemma unescape_escape s : unescape (escape s) = s.
Proof.
  induction s as [|c s IH]; [reflexivity|]. rewrite escape_cons.
  destruct (is_special c) eqn:E.
  - simpl. rewrite IH. reflexivity.
  - simpl app. rewrite unescape_plain; [rewrite IH; reflexivity|].
    intro; subst. discriminate E.
Qed.

Lemma escape_app a b : escape (a ++ b) = escape a ++ escape b.
Proof. unfold escape. apply flat_map_app. Qed.

Lemma escape_injective a b : escape a = escape b -> a = b.
Proof. intro H. rewrite <- (unescape_escape a), <- (unescape_escape b), H. reflexivity. Qed.
