(* ClassAtom.v — one link of C01 carried all the way: a v-mode class atom without \q strings.
   The reference semantics (Spec.v, on the code points of the text) and the IR semantics of the node the parser model
   emits for the class (IRSem.v, on the UTF-8 bytes) take the same decision on the character in front of the cursor
   and move to corresponding positions: the reference from character index i to i+1, the IR from the byte offset of
   character i to the byte offset of character i+1.  Chain: ClassSetProofs (class set = reference members),
   OptBrackets (a bracket node is its step function), the UTF-8 theory (the cursor at a character boundary reads that
   character). *)
From RV Require Import Base.
From RV.Model Require Import Utf8 Indexer CodePointSet Insn Fold IR Optimizer Unfold Emit ClassSet.
From RV.Spec Require Import Spec IRSem IRShape.
From RV.Proofs Require Import CpsProofs Closure ClassSetProofs OptMono OptBrackets OptTop Utf8Facts Utf8Valid OptTextUtf8.

Lemma vstrs_sfree canon ic e : sfree e = true -> vstrs canon ic e = [].
Proof.
  induction e as [c|a b|n rs|l|l H|l H|l H|e IH] using vexpr_ind2; intros Hs; try reflexivity; try discriminate Hs.
  - cbn [sfree] in Hs. rewrite sfree_list in Hs. cbn [vstrs]. induction H as [|x t Hx Ht IHt]; [reflexivity|].
    cbn [forallb] in Hs. apply andb_true_iff in Hs as [S1 S2]. rewrite (Hx S1), (IHt S2). reflexivity.
  - cbn [sfree] in Hs. rewrite sfree_list in Hs. cbn [vstrs]. destruct l as [|h t]; [reflexivity|].
    inversion H as [|? ? Hh Ht]; subst. cbn [forallb] in Hs. apply andb_true_iff in Hs as [S1 _]. rewrite (Hh S1). reflexivity.
  - cbn [sfree] in Hs. rewrite sfree_list in Hs. cbn [vstrs]. destruct l as [|h t]; [reflexivity|].
    inversion H as [|? ? Hh Ht]; subst. cbn [forallb] in Hs. apply andb_true_iff in Hs as [S1 _]. rewrite (Hh S1). reflexivity.
Qed.

Section Atom.
  Variable eqclass : N -> list N.
  Hypothesis Hec : eqclass_spec fold eqclass.
  Variable foldf : N -> bool -> N.                 (* the input type's fold function: a class node does not use it *)
  Variables unicode utf16 : bool.

  (* the text: well-formed characters pre ++ c :: post; the cursor stands in front of c *)
  Variables (pre post : list (list N)) (c : list N).
  Hypothesis Hw : wf_text (pre ++ c :: post).
  Notation cs := (pre ++ c :: post).
  Notation q := (length (concat pre)).
  Notation u8 := (utf8_indexer foldf).

  Lemma q_bnd : bnd cs q.
  Proof. exists pre, (c :: post). split; reflexivity. Qed.
  Lemma c_wf : wf_char c = true.
  Proof. unfold wf_text in Hw. rewrite Forall_forall in Hw. apply Hw. apply in_or_app. right. left. reflexivity. Qed.
  Lemma dec_c_max : dec c <= CODE_POINT_MAX.
  Proof.
    destruct (wf_facts c c_wf) as (Hs & _). unfold is_scalar in Hs. apply andb_true_iff in Hs as [H1 _]. apply N.leb_le in H1. exact H1.
  Qed.

  (* the cursor reads c *)
  Lemma reads_c : cnext u8 true (concat cs) q = Ok (Some (dec c, (q + length c)%nat)).
  Proof. rewrite cnext_fwd, concat_mid. apply u8_right_at. exact c_wf. Qed.

  Variable ic : bool.
  Variable e : vexpr.
  Hypothesis Hwf : vwf e = true.
  Hypothesis Hsf : sfree e = true.

  (* the IR semantics of the node the class set model emits *)
  Theorem class_node_step f G :
    ir_results u8 unicode utf16 (concat cs) (S f) (class_node ic e) true (q, G) =
    Some (if vmem fold eqclass ic e (dec c) then [((q + length c)%nat, G)] else []).
  Proof.
    destruct (class_node_meaning eqclass Hec ic e Hwf Hsf) as (cps' & En & Wc & M). rewrite En.
    rewrite (bracket_ir u8 unicode utf16 (concat cs)).
    destruct (text_ok_utf8 foldf cs Hw unicode) as (_ & _ & _ & _ & _ & _ & Hb2 & _).
    set (b := mkBracket (top_neg e) cps').
    assert (Hcs : charstep u8 (concat cs) true (bracket_matches b) q =
                  Some (if vmem fold eqclass ic e (dec c) then Some (q + length c)%nat else None)).
    { unfold charstep, next_if. rewrite reads_c. cbn [bindR]. f_equal.
      assert (Em : bracket_matches b (dec c) = vmem fold eqclass ic e (dec c)).
      { rewrite <- (M (dec c) dec_c_max). unfold bracket_matches, b. cbn [br_ivs br_invert].
        change (ivs_contains cps' (dec c)) with (cps_contains cps' (dec c)).
        destruct (cps_contains cps' (dec c)), (top_neg e); reflexivity. }
      rewrite Em. reflexivity. }
    rewrite (char_bracket_step u8 (concat cs) (bnd cs) Hb2 true b q _ q_bnd Hcs).
    destruct (vmem fold eqclass ic e (dec c)); reflexivity.
  Qed.

  (* the reference semantics on the code points of the same text, at the index of c *)
  Theorem class_reference_step f caps :
    es_results fold eqclass (map dec cs) (S f) (RVClass e ic) Fwd (length pre, caps) =
    Some (if vmem fold eqclass ic e (dec c) then [(S (length pre), caps)] else []).
  Proof.
    cbn [es_results]. rewrite (vstrs_sfree fold ic e Hsf). cbn [filter flat_map existsb app]. rewrite app_nil_r.
    unfold one, peek. cbn [fst snd]. rewrite map_app. cbn [map].
    assert (En : nth_error (map dec pre ++ dec c :: map dec post) (length pre) = Some (dec c)).
    { rewrite <- (map_length dec pre). clear. induction (map dec pre) as [|x l IH]; [reflexivity|exact IH]. }
    rewrite En. destruct (vmem fold eqclass ic e (dec c)); reflexivity.
  Qed.

  (* the same read backwards (inside a lookbehind): from the end of c to its start *)
  Lemma reads_c_back : cnext u8 false (concat cs) (q + length c) = Ok (Some (dec c, q)).
  Proof. rewrite cnext_bwd, concat_mid. apply u8_left_at. exact c_wf. Qed.
  Lemma qc_bnd : bnd cs (q + length c).
  Proof.
    exists (pre ++ [c]), post. split; [rewrite <- app_assoc; reflexivity|].
    rewrite concat_app, app_length. cbn [concat]. rewrite app_nil_r. reflexivity.
  Qed.

  Theorem class_node_step_back f G :
    ir_results u8 unicode utf16 (concat cs) (S f) (class_node ic e) false ((q + length c)%nat, G) =
    Some (if vmem fold eqclass ic e (dec c) then [(q, G)] else []).
  Proof.
    destruct (class_node_meaning eqclass Hec ic e Hwf Hsf) as (cps' & En & Wc & M). rewrite En.
    rewrite (bracket_ir u8 unicode utf16 (concat cs)).
    destruct (text_ok_utf8 foldf cs Hw unicode) as (_ & _ & _ & _ & _ & _ & Hb2 & _).
    set (b := mkBracket (top_neg e) cps').
    assert (Hcs : charstep u8 (concat cs) false (bracket_matches b) (q + length c) =
                  Some (if vmem fold eqclass ic e (dec c) then Some q else None)).
    { unfold charstep, next_if. rewrite reads_c_back. cbn [bindR]. f_equal.
      assert (Em : bracket_matches b (dec c) = vmem fold eqclass ic e (dec c)).
      { rewrite <- (M (dec c) dec_c_max). unfold bracket_matches, b. cbn [br_ivs br_invert].
        change (ivs_contains cps' (dec c)) with (cps_contains cps' (dec c)).
        destruct (cps_contains cps' (dec c)), (top_neg e); reflexivity. }
      rewrite Em. reflexivity. }
    rewrite (char_bracket_step u8 (concat cs) (bnd cs) Hb2 false b (q + length c)%nat _ qc_bnd Hcs).
    destruct (vmem fold eqclass ic e (dec c)); reflexivity.
  Qed.

  Theorem class_reference_step_back f caps :
    es_results fold eqclass (map dec cs) (S f) (RVClass e ic) Bwd (S (length pre), caps) =
    Some (if vmem fold eqclass ic e (dec c) then [(length pre, caps)] else []).
  Proof.
    cbn [es_results]. rewrite (vstrs_sfree fold ic e Hsf). cbn [filter flat_map existsb app]. rewrite app_nil_r.
    unfold one, peek. cbn [fst snd]. rewrite map_app. cbn [map].
    assert (En : nth_error (map dec pre ++ dec c :: map dec post) (length pre) = Some (dec c)).
    { rewrite <- (map_length dec pre). clear. induction (map dec pre) as [|x l IH]; [reflexivity|exact IH]. }
    rewrite En. destruct (vmem fold eqclass ic e (dec c)); reflexivity.
  Qed.
End Atom.

(* ---- literal characters and the dot ---- *)
Lemma expand_spec unicode c a : In a (expand_code_point c true unicode) <-> fold_code_point a unicode = fold_code_point c unicode.
Proof.
  unfold expand_code_point, fold_code_point. cbn [negb]. destruct unicode; [apply unfold_char_spec|apply unfold_uppercase_char_spec].
Qed.

(* Parser::char_node never meets its panic *)
Theorem char_node_total icase unicode c : exists n, char_node icase unicode c = Ok n.
Proof.
  unfold char_node. destruct icase; cbn [negb]; [|eauto].
  pose proof (expand_code_point_length c true unicode) as [H1 H4].
  destruct (expand_code_point c true unicode) as [|x [|y t]] eqn:E; cbn [length] in *; [lia|eauto|].
  assert (Hl : ((2 <=? S (S (length t))) && (S (S (length t)) <=? 4))%nat = true)
    by (apply andb_true_iff; split; apply Nat.leb_le; lia).
  rewrite Hl. eauto.
Qed.

Section CharAtom.
  Variable foldf : N -> bool -> N.
  Variables unicode utf16 : bool.
  Variables (pre post : list (list N)) (c : list N).
  Hypothesis Hw : wf_text (pre ++ c :: post).
  Notation cs := (pre ++ c :: post).
  Notation q := (length (concat pre)).
  Notation u8 := (utf8_indexer foldf).
  (* the reference's canonical form and equivalence classes for this mode: simple case folding under u/v, the legacy
     upper-casing otherwise *)
  Notation canon := (fun x => fold_code_point x unicode).
  Variable eqclass : N -> list N.

  Lemma next_if_c test : next_if u8 true (concat cs) q test = Ok (if test (dec c) then Some (q + length c)%nat else None).
  Proof. unfold next_if. rewrite (reads_c foldf pre post c Hw). reflexivity. Qed.

  Lemma nth_c : nth_error (map dec cs) (length pre) = Some (dec c).
  Proof. rewrite map_app. cbn [map]. rewrite <- (map_length dec pre). induction (map dec pre) as [|x l IH]; [reflexivity|exact IH]. Qed.

  (* a literal character *)
  Theorem char_atom_step ch icase n f f' G caps : char_node icase unicode ch = Ok n ->
    let decision := char_matches canon ch icase (dec c) in
    es_results canon eqclass (map dec cs) (S f) (RChar ch icase) Fwd (length pre, caps) =
      Some (if decision then [(S (length pre), caps)] else []) /\
    ir_results u8 unicode utf16 (concat cs) (S f') n true (q, G) =
      Some (if decision then [((q + length c)%nat, G)] else []).
  Proof.
    intros En decision. split.
    - cbn [es_results]. unfold one, peek. cbn [fst snd]. rewrite nth_c. subst decision. destruct (char_matches _ ch icase (dec c)); reflexivity.
    - unfold char_node in En. subst decision. unfold char_matches. destruct icase; cbn [negb] in En.
      + pose proof (expand_spec unicode ch) as Hx. destruct (expand_code_point ch true unicode) as [|x [|y t]] eqn:E.
        * cbn [length] in En. discriminate.
        * (* one member: it is ch itself *)
          inversion En; subst n. assert (x = ch) by (destruct (proj2 (Hx ch) eq_refl) as [H|[]]; exact H). subst x.
          cbn [ir_results leaf_code run_insns match1]. unfold results_of. cbn [fst snd]. unfold char_pike. rewrite next_if_c.
          destruct (N.eqb_spec ch (dec c)) as [->|Hne].
          -- rewrite N.eqb_refl. reflexivity.
          -- destruct (N.eqb_spec (fold_code_point ch unicode) (fold_code_point (dec c) unicode)) as [Ef|_]; [|reflexivity].
             exfalso. apply Hne. symmetry in Ef. destruct (proj2 (Hx (dec c)) Ef) as [H|[]]. exact H.
        * destruct ((2 <=? length (x :: y :: t)) && (length (x :: y :: t) <=? 4))%nat eqn:El; [|discriminate]. inversion En; subst n.
          apply andb_true_iff in El as [_ L4]. apply Nat.leb_le in L4.
          rewrite (charset_ir u8 unicode utf16 (concat cs) f' true (x :: y :: t) q G L4). unfold charset_step, charstep. rewrite next_if_c.
          assert (Ed : list_contains (x :: y :: t) (dec c) = (fold_code_point ch unicode =? fold_code_point (dec c) unicode)).
          { apply eq_true_iff_eq. unfold list_contains. rewrite existsb_exists, N.eqb_eq. split.
            - intros (a & Ha & Ea). apply N.eqb_eq in Ea. subst a. symmetry. apply Hx. exact Ha.
            - intros Ef. exists (dec c). split; [apply Hx; symmetry; exact Ef|apply N.eqb_refl]. }
          rewrite Ed. destruct (_ =? _); reflexivity.
      + inversion En; subst n. cbn [ir_results leaf_code run_insns match1]. unfold results_of. cbn [fst snd]. unfold char_pike. rewrite next_if_c.
        destruct (ch =? dec c); reflexivity.
  Qed.

  (* the dot *)
  Theorem dot_atom_step dot_all f f' G caps :
    let decision := dot_all || negb (is_lt (dec c)) in
    es_results canon eqclass (map dec cs) (S f) (RAny dot_all) Fwd (length pre, caps) =
      Some (if decision then [(S (length pre), caps)] else []) /\
    ir_results u8 unicode utf16 (concat cs) (S f') (dot_node dot_all) true (q, G) =
      Some (if decision then [((q + length c)%nat, G)] else []).
  Proof.
    intros decision. split.
    - cbn [es_results]. unfold one, peek. cbn [fst snd]. rewrite nth_c. subst decision. destruct (dot_all || negb (is_lt (dec c))); reflexivity.
    - subst decision. unfold dot_node. destruct dot_all; cbn [ir_results leaf_code run_insns match1 orb]; unfold results_of; cbn [fst snd]; rewrite next_if_c.
      + reflexivity.
      + change (is_line_terminator (dec c)) with (is_lt (dec c)). destruct (negb (is_lt (dec c))); reflexivity.
  Qed.
End CharAtom.
