(* OptBytes.v — the form_literal_bytes pass keeps the meaning of every node, on text where a scalar value read as an
   element is its UTF-8 encoding read as bytes: a literal character means its bytes, a character set of ASCII
   characters means the byte set, and adjacent byte sequences mean their concatenation (in text order, which inside
   a lookbehind is the reverse of execution order). *)
From RV Require Import Base.
From RV.Model Require Import Utf8 Indexer CodePointSet Insn IR Optimizer Unfold Emit.
From RV.Spec Require Import IRSem IRShape.
From RV.Proofs Require Import NodeInd OptDD OptMono OptWalk OptRel OptBrackets.

(* ---- comparing byte strings ---- *)
Lemma bytes_eqb_app (a a' b b' : list N) : length a = length a' ->
  bytes_eqb (a ++ b) (a' ++ b') = bytes_eqb a a' && bytes_eqb b b'.
Proof.
  revert a'. induction a as [|x a IH]; intros [|y a'] Hl; try discriminate Hl; [reflexivity|].
  cbn [app]. unfold bytes_eqb in *. cbn [list_eqb]. rewrite IH by (cbn in Hl; lia). rewrite andb_assoc. reflexivity.
Qed.

Lemma slice_len {A} (h : list A) a b : (a <= b)%nat -> (b <= length h)%nat -> length (slice h a b) = (b - a)%nat.
Proof. intros H1 H2. unfold slice. rewrite firstn_length, skipn_length. lia. Qed.

Lemma firstn_plus {A} : forall m n (l : list A), firstn (m + n) l = firstn m l ++ firstn n (skipn m l).
Proof.
  induction m as [|m IH]; intros n l; [reflexivity|]. destruct l as [|x l]; cbn [Nat.add firstn skipn app].
  - rewrite firstn_nil. reflexivity.
  - rewrite IH. reflexivity.
Qed.

Lemma skipn_plus {A} : forall m n (l : list A), skipn m (skipn n l) = skipn (m + n) l.
Proof.
  intros m n. revert m. induction n as [|n IH]; intros m l; [rewrite Nat.add_0_r; reflexivity|].
  destruct l as [|x l]; [rewrite !skipn_nil; reflexivity|]. rewrite Nat.add_succ_r. cbn [skipn]. apply IH.
Qed.

Lemma slice_split {A} (h : list A) a b c : (a <= b)%nat -> (b <= c)%nat -> slice h a c = slice h a b ++ slice h b c.
Proof.
  intros H1 H2. unfold slice. replace (c - a)%nat with ((b - a) + (c - b))%nat by lia.
  rewrite firstn_plus. f_equal. rewrite skipn_plus. replace (b - a + a)%nat with b by lia. reflexivity.
Qed.

Section Bytes.
  Variable h : hay.
  Notation len := (length h).

  Lemma mb_fwd_unfold q bs : (q <= len)%nat ->
    match_bytes true h q bs =
    if (len - q <? length bs)%nat then Ok None
    else Ok (if bytes_eqb bs (slice h q (q + length bs)) then Some (q + length bs)%nat else None).
  Proof.
    intro Hq. unfold match_bytes, try_move_right. replace (q <=? len)%nat with true by (symmetry; apply Nat.leb_le; exact Hq).
    cbn [bindR]. destruct (len - q <? length bs)%nat; reflexivity.
  Qed.

  Lemma mb_bwd_unfold q bs :
    match_bytes false h q bs =
    if (q <? length bs)%nat then Ok None
    else Ok (if bytes_eqb bs (slice h (q - length bs) q) then Some (q - length bs)%nat else None).
  Proof. unfold match_bytes, try_move_left. destruct (q <? length bs)%nat; reflexivity. Qed.

  Lemma mb_fwd_le q bs e : (q <= len)%nat -> match_bytes true h q bs = Ok (Some e) -> (e = q + length bs /\ e <= len)%nat.
  Proof.
    intros Hq E. rewrite (mb_fwd_unfold q bs Hq) in E. destruct (Nat.ltb_spec (len - q) (length bs)); [discriminate|].
    destruct (bytes_eqb bs _); inversion E; subst. lia.
  Qed.

  Lemma mb_bwd_le q bs e : match_bytes false h q bs = Ok (Some e) -> (q = e + length bs)%nat.
  Proof.
    intro E. rewrite mb_bwd_unfold in E. destruct (Nat.ltb_spec q (length bs)); [discriminate|].
    destruct (bytes_eqb bs _); inversion E; subst. lia.
  Qed.

  Lemma mb_app_fwd q a b : (q <= len)%nat ->
    match_bytes true h q (a ++ b) =
    match match_bytes true h q a with Ok (Some q1) => match_bytes true h q1 b | Ok None => Ok None | Err e => Err e end.
  Proof.
    intro Hq. rewrite (mb_fwd_unfold q (a ++ b) Hq), (mb_fwd_unfold q a Hq), app_length.
    destruct (Nat.ltb_spec (len - q) (length a)) as [Ha|Ha].
    - replace (len - q <? length a + length b)%nat with true by (symmetry; apply Nat.ltb_lt; lia). reflexivity.
    - destruct (bytes_eqb a (slice h q (q + length a))) eqn:Ea.
      + rewrite (mb_fwd_unfold (q + length a) b) by lia.
        replace (len - (q + length a) <? length b)%nat with (len - q <? length a + length b)%nat
          by (destruct (Nat.ltb_spec (len - q) (length a + length b)); destruct (Nat.ltb_spec (len - (q + length a)) (length b)); try reflexivity; lia).
        destruct (Nat.ltb_spec (len - q) (length a + length b)) as [Hab|Hab]; [reflexivity|].
        rewrite (slice_split h q (q + length a) (q + (length a + length b))) by lia.
        rewrite bytes_eqb_app by (rewrite slice_len; lia). rewrite Ea. cbn [andb].
        replace (q + length a + length b)%nat with (q + (length a + length b))%nat by lia. reflexivity.
      + destruct (Nat.ltb_spec (len - q) (length a + length b)) as [Hab|Hab]; [reflexivity|].
        rewrite (slice_split h q (q + length a) (q + (length a + length b))) by lia.
        rewrite bytes_eqb_app by (rewrite slice_len; lia). rewrite Ea. reflexivity.
  Qed.

  Lemma mb_app_bwd q a b : (q <= len)%nat ->
    match_bytes false h q (a ++ b) =
    match match_bytes false h q b with Ok (Some q1) => match_bytes false h q1 a | Ok None => Ok None | Err e => Err e end.
  Proof.
    intro Hq. rewrite (mb_bwd_unfold q (a ++ b)), (mb_bwd_unfold q b), app_length.
    destruct (Nat.ltb_spec q (length b)) as [Hb|Hb].
    - replace (q <? length a + length b)%nat with true by (symmetry; apply Nat.ltb_lt; lia). reflexivity.
    - destruct (bytes_eqb b (slice h (q - length b) q)) eqn:Eb.
      + rewrite (mb_bwd_unfold (q - length b) a).
        replace (q - length b <? length a)%nat with (q <? length a + length b)%nat
          by (destruct (Nat.ltb_spec q (length a + length b)); destruct (Nat.ltb_spec (q - length b) (length a)); try reflexivity; lia).
        destruct (Nat.ltb_spec q (length a + length b)) as [Hab|Hab]; [reflexivity|].
        rewrite (slice_split h (q - (length a + length b)) (q - length b) q) by lia.
        rewrite bytes_eqb_app by (rewrite slice_len; lia). rewrite Eb, andb_true_r.
        replace (q - length b - length a)%nat with (q - (length a + length b))%nat by lia. reflexivity.
      + destruct (Nat.ltb_spec q (length a + length b)) as [Hab|Hab]; [reflexivity|].
        rewrite (slice_split h (q - (length a + length b)) (q - length b) q) by lia.
        rewrite bytes_eqb_app by (rewrite slice_len; lia). rewrite Eb, andb_false_r. reflexivity.
  Qed.

  Lemma mb_nil fwd q : (q <= len)%nat -> match_bytes fwd h q [] = Ok (Some q).
  Proof.
    intro Hq. destruct fwd.
    - rewrite (mb_fwd_unfold q [] Hq). cbn [length]. replace (len - q <? 0)%nat with false by reflexivity.
      unfold slice. rewrite Nat.add_0_r, Nat.sub_diag. reflexivity.
    - rewrite mb_bwd_unfold. cbn [length]. replace (q <? 0)%nat with false by reflexivity.
      unfold slice. rewrite Nat.sub_0_r, Nat.sub_diag. reflexivity.
  Qed.
End Bytes.

(* ---- a byte sequence node, emitted in chunks of 16, matches its bytes as a whole ---- *)
Section Run.
  Variable ix : indexer.
  Variable unicode : bool.
  Variable h : hay.
  Notation len := (length h).
  Notation run := (run_insns ix unicode h).

  Definition mbs (fwd : bool) (bs : list N) (q : nat) : option (option nat) :=
    match match_bytes fwd h q bs with Ok r => Some r | Err _ => None end.

  Lemma run_byteseq bs rest fwd q : run (ByteSeq bs :: rest) fwd q =
    match match_bytes fwd h q bs with Ok (Some q1) => run rest fwd q1 | Ok None => Some None | Err _ => None end.
  Proof. reflexivity. Qed.

  Lemma run_app : forall l1 l2 fwd q, run (l1 ++ l2) fwd q =
    match run l1 fwd q with Some (Some q1) => run l2 fwd q1 | Some None => Some None | None => None end.
  Proof.
    induction l1 as [|i l1 IH]; intros l2 fwd q; [reflexivity|]. cbn [app run_insns].
    match goal with |- match ?r with _ => _ end = _ => destruct r as [[e|[p'|]]|] end; try reflexivity. apply IH.
  Qed.

  Lemma chunks_nil k : chunks16 k [] = [].
  Proof. destruct k; reflexivity. Qed.

  Lemma skipn_length_lt {A} (l : list A) n : l <> [] -> (0 < n)%nat -> (length (skipn n l) < length l)%nat.
  Proof. intros Hl Hn. rewrite skipn_length. destruct l; [contradiction|]. cbn [length]. lia. Qed.

  Lemma run_chunks_fwd : forall k bs q, (length bs < k)%nat -> (q <= len)%nat ->
    run (map ByteSeq (chunks16 k bs)) true q = mbs true bs q.
  Proof.
    induction k as [|k IH]; intros bs q Hk Hq; [lia|]. destruct bs as [|x t].
    - cbn [chunks16 map run_insns]. unfold mbs. rewrite (mb_nil h true q Hq). reflexivity.
    - cbn [chunks16 map]. remember (x :: t) as bs eqn:Ebs. rewrite run_byteseq.
      unfold mbs. replace (match_bytes true h q bs) with (match_bytes true h q (firstn 16 bs ++ skipn 16 bs))
        by (rewrite firstn_skipn; reflexivity). rewrite (mb_app_fwd h q _ _ Hq).
      destruct (match_bytes true h q (firstn 16 bs)) as [e|[q1|]] eqn:E1; try reflexivity.
      destruct (mb_fwd_le h q _ q1 Hq E1) as [_ Hq1].
      rewrite IH; [reflexivity| |exact Hq1].
      assert (length (skipn 16 bs) < length bs)%nat by (apply skipn_length_lt; [subst bs; discriminate|lia]). lia.
  Qed.

  Lemma run_chunks_bwd : forall k bs q, (length bs < k)%nat -> (q <= len)%nat ->
    run (map ByteSeq (rev (chunks16 k bs))) false q = mbs false bs q.
  Proof.
    induction k as [|k IH]; intros bs q Hk Hq; [lia|]. destruct bs as [|x t].
    - cbn [chunks16 rev map run_insns]. unfold mbs. rewrite (mb_nil h false q Hq). reflexivity.
    - cbn [chunks16 rev]. remember (x :: t) as bs eqn:Ebs. rewrite map_app, run_app. cbn [map].
      assert (Hlt : (length (skipn 16 bs) < k)%nat).
      { assert (length (skipn 16 bs) < length bs)%nat by (apply skipn_length_lt; [subst bs; discriminate|lia]). lia. }
      rewrite (IH (skipn 16 bs) q Hlt Hq).
      unfold mbs. replace (match_bytes false h q bs) with (match_bytes false h q (firstn 16 bs ++ skipn 16 bs))
        by (rewrite firstn_skipn; reflexivity). rewrite (mb_app_bwd h q _ _ Hq).
      destruct (match_bytes false h q (skipn 16 bs)) as [e|[q1|]] eqn:E1; try reflexivity.
      rewrite run_byteseq. destruct (match_bytes false h q1 (firstn 16 bs)) as [e|[q2|]]; reflexivity.
  Qed.

  Lemma byteseq_run fwd bs q : (q <= len)%nat -> run (emit_byte_sequence (negb fwd) bs) fwd q = mbs fwd bs q.
  Proof.
    intro Hq. unfold emit_byte_sequence. destruct fwd; cbn [negb].
    - apply run_chunks_fwd; [lia|exact Hq].
    - apply run_chunks_bwd; [lia|exact Hq].
  Qed.

  Lemma chunks_small bs : bs <> [] -> (length bs <= 16)%nat -> chunks16 (S (length bs)) bs = [bs].
  Proof.
    intros Hne Hl. destruct bs as [|x t]; [contradiction|]. cbn [chunks16]. remember (x :: t) as bs.
    rewrite firstn_all2 by exact Hl. rewrite skipn_all2 by exact Hl. rewrite chunks_nil. reflexivity.
  Qed.
End Run.

Lemma enc_small c : utf8_encode c <> [] /\ (length (utf8_encode c) <= 16)%nat.
Proof. unfold utf8_encode. destruct (c <? 128); [|destruct (c <? 2048); [|destruct (c <? 65536)]]; split; cbn; try discriminate; lia. Qed.

Lemma slice_one (h : hay) q b : nth_error h q = Some b -> slice h q (S q) = [b].
Proof.
  unfold slice. replace (S q - q)%nat with 1%nat by lia. revert q. induction h as [|x t IH]; intros [|q] E; cbn in E; try discriminate.
  - inversion E; subst. reflexivity.
  - cbn [skipn]. apply IH. exact E.
Qed.

Section Literal.
  Variable ix : indexer.
  Variables unicode utf16 : bool.
  Variable h : hay.
  Variable okp : nat -> Prop.
  Notation len := (length h).
  Notation IR := (ir_results ix unicode utf16 h).
  Notation run := (run_insns ix unicode h).
  Notation ref := (ref ix unicode utf16 h okp).
  Notation al := (al ix unicode utf16 h okp).
  Notation PRel := (PRel ix unicode utf16 h okp).
  Notation fleO := (fleO okp).
  Notation sclo := (sclo okp).
  Notation cstep := (charstep ix h).
  Notation bstep := (bytestep h).
  Notation mbs := (mbs h).
  (* the text, at the well-formed positions: they lie inside the text; reading an element leads to one; bytes and
     elements agree below 128; and a scalar value read as an element is its UTF-8 encoding read as bytes, whose end
     is a well-formed position *)
  Hypothesis Hk0 : forall q, okp q -> (q <= len)%nat.
  Hypothesis Hk1 : forall fwd p c p', okp p -> cnext ix fwd h p = Ok (Some (c, p')) -> okp p'.
  Hypothesis Hbyte1 : forall fwd q, okp q ->
    match next_byte fwd h q with
    | Ok (Some (b, q1)) => if b <? 128 then cnext ix fwd h q = Ok (Some (b, q1))
                           else exists c q2, cnext ix fwd h q = Ok (Some (c, q2)) /\ 128 <= c
    | Ok None => cnext ix fwd h q = Ok None
    | Err _ => True
    end.
  Hypothesis Hbyte2 : forall fwd q, okp q ->
    match cnext ix fwd h q with
    | Ok (Some (c, q2)) => if c <? 128 then next_byte fwd h q = Ok (Some (c, q2))
                           else exists b q1, next_byte fwd h q = Ok (Some (b, q1)) /\ 128 <= b
    | Ok None => next_byte fwd h q = Ok None
    | Err _ => True
    end.
  Hypothesis Henc1 : forall fwd q c, okp q -> is_scalar c = true ->
    match next_if ix fwd h q (N.eqb c) with Ok r => match_bytes fwd h q (utf8_encode c) = Ok r | Err _ => True end.
  Hypothesis Henc2 : forall fwd q c e, okp q -> is_scalar c = true ->
    match_bytes fwd h q (utf8_encode c) = Ok (Some e) -> okp e.

  (* a byte sequence node is its whole-match step *)
  Lemma byteseq_ir f fwd bs q G : okp q -> IR (S f) (NByteSequence bs) fwd (q, G) =
    match mbs fwd bs q with Some (Some q') => Some [(q', G)] | Some None => Some [] | None => None end.
  Proof.
    intro Hq. cbn [ir_results leaf_code]. rewrite (byteseq_run ix unicode h fwd bs q (Hk0 q Hq)).
    destruct (mbs fwd bs q) as [[q'|]|]; reflexivity.
  Qed.

  Lemma al_byteseq bs : (forall fwd q e, okp q -> match_bytes fwd h q bs = Ok (Some e) -> okp e) -> al (NByteSequence bs).
  Proof.
    intro Hc. split.
    - intros [|f] fwd [q G] r Hx E; [discriminate|]. rewrite (byteseq_ir f fwd bs q G (proj1 Hx)) in E. unfold OptBytes.mbs in E.
      destruct (match_bytes fwd h q bs) as [e|[q'|]] eqn:Em; inversion E; subst; constructor; [|constructor].
      apply (oks_move okp q G q' Hx). eapply Hc; [exact (proj1 Hx)|exact Em].
    - intros fwd s Es. unfold single_step, leaf_code in Es. injection Es as Hs. subst s.
      intros q q' Hq E. change (run (emit_byte_sequence (negb fwd) bs) fwd q = Some (Some q')) in E.
      rewrite (byteseq_run ix unicode h fwd bs q (Hk0 q Hq)) in E. unfold OptBytes.mbs in E.
      destruct (match_bytes fwd h q bs) as [e|[q1|]] eqn:Em; inversion E; subst. eapply Hc; eauto.
  Qed.

  Lemma l1ok_byteseq bs : bs <> [] -> (length bs <= 16)%nat -> l1_body_ok (NByteSequence bs) = true.
  Proof.
    intros Hne Hl. unfold l1_body_ok, leaf_code, emit_byte_sequence. rewrite (chunks_small bs Hne Hl). reflexivity.
  Qed.

  Lemma ref_char_bytes fwd c : is_scalar c = true -> ref fwd (NChar c) (NByteSequence (utf8_encode c)).
  Proof.
    intro Hs. destruct (enc_small c) as [Hne Hl].
    assert (Hstep : forall q o, okp q -> run [Char c] fwd q = Some o -> mbs fwd (utf8_encode c) q = Some o).
    { intros q o Hq E. cbn [run_insns] in E. unfold char_pike in E. pose proof (Henc1 fwd q c Hq Hs) as He.
      unfold OptBytes.mbs. destruct (next_if ix fwd h q (N.eqb c)) as [e|[p'|]]; try discriminate; rewrite He; exact E. }
    split.
    - apply (rres_fleO ix unicode utf16 h okp fwd _ _ 0%nat). intros [|f] [q G] r Hx E; [discriminate|].
      rewrite Nat.add_0_r. rewrite (byteseq_ir f fwd _ q G Hx). cbn [ir_results leaf_code] in E.
      destruct (run [Char c] fwd q) as [o|] eqn:Eo; [|discriminate]. rewrite (Hstep q o Hx Eo).
      destruct o; exact E.
    - intros _. split; [apply l1ok_byteseq; assumption|]. intros s Es. unfold single_step, leaf_code in Es.
      injection Es as Hs0. subst s. eexists. split; [reflexivity|]. intros q o Hq E.
      change (run [Char c] fwd q = Some o) in E.
      change (run (emit_byte_sequence (negb fwd) (utf8_encode c)) fwd q = Some o).
      rewrite (byteseq_run ix unicode h fwd _ q (Hk0 q Hq)). apply Hstep; assumption.
  Qed.

  (* ---- an ASCII character set as a byte set ---- *)
  Definition byteset_step (fwd : bool) (cs : list N) (q : nat) : option (option nat) :=
    match cs with
    | [] => Some None
    | [b] => mbs fwd [b] q
    | _ => bstep fwd (list_contains cs) q
    end.

  Lemma mbs_single fwd b q : okp q -> mbs fwd [b] q = bstep fwd (list_contains [b]) q.
  Proof.
    intro Hq. pose proof (Hk0 q Hq) as Hle. unfold OptBytes.mbs, bytestep, byte_if, next_byte. destruct fwd.
    - rewrite (mb_fwd_unfold h q [b] Hle). cbn [length]. unfold peek_byte_right.
      destruct (Nat.eqb_spec q len) as [->|Hne].
      + rewrite Nat.sub_diag. reflexivity.
      + replace (len - q <? 1)%nat with false by (symmetry; apply Nat.ltb_ge; lia).
        unfold getb. destruct (nth_error h q) as [b'|] eqn:En; [|exfalso; apply nth_error_None in En; lia].
        cbn [bindR]. replace (q + 1)%nat with (S q) by lia. rewrite (slice_one h q b' En).
        unfold bytes_eqb, list_contains. cbn [list_eqb existsb]. rewrite andb_true_r, orb_false_r.
        rewrite (N.eqb_sym b b'). destruct (b' =? b); reflexivity.
    - rewrite (mb_bwd_unfold h q [b]). cbn [length]. unfold peek_byte_left.
      destruct (Nat.eqb_spec q 0) as [->|Hne]; [reflexivity|].
      replace (q <? 1)%nat with false by (symmetry; apply Nat.ltb_ge; lia).
      unfold psub. replace (1 <=? q)%nat with true by (symmetry; apply Nat.leb_le; lia). cbn [bindR].
      unfold getb. destruct (nth_error h (q - 1)) as [b'|] eqn:En; [|exfalso; apply nth_error_None in En; lia].
      cbn [bindR]. replace q with (S (q - 1)) at 2 by lia. rewrite (slice_one h (q - 1) b' En).
      unfold bytes_eqb, list_contains. cbn [list_eqb existsb]. rewrite andb_true_r, orb_false_r.
      rewrite (N.eqb_sym b b'). destruct (b' =? b); reflexivity.
  Qed.

  Lemma ascii_set_hi cs : forallb (fun c => c <=? 127) cs = true -> forall v, 128 <= v -> list_contains cs v = false.
  Proof.
    intros Hall v Hv. unfold list_contains. apply not_true_is_false. intro Hex. apply existsb_exists in Hex as (c & Hin & Hc).
    apply N.eqb_eq in Hc. subst c. rewrite forallb_forall in Hall. specialize (Hall v Hin). apply N.leb_le in Hall. lia.
  Qed.

  Lemma charset_byteset fwd cs : forallb (fun c => c <=? 127) cs = true ->
    fleO (charset_step ix h fwd cs) (byteset_step fwd cs).
  Proof.
    intro Hall. pose proof (ascii_set_hi cs Hall) as Hhi.
    assert (Hcb : fleO (cstep fwd (list_contains cs)) (bstep fwd (list_contains cs))).
    { apply (char_to_byte ix h okp Hbyte2); [reflexivity|]. intros v Hv. split; apply Hhi; exact Hv. }
    unfold charset_step, byteset_step. destruct cs as [|b [|b2 t]].
    - apply fleO_refl.
    - intros q o Hq E. rewrite (mbs_single fwd b q Hq). apply Hcb; assumption.
    - exact Hcb.
  Qed.

  Lemma byteset_step_clo fwd cs : forallb (fun c => c <=? 127) cs = true -> sclo (byteset_step fwd cs).
  Proof.
    intro Hall. pose proof (ascii_set_hi cs Hall) as Hhi.
    assert (Hb : sclo (bstep fwd (list_contains cs))) by (apply (bytestep_clo ix h okp Hk1 Hbyte1); exact Hhi).
    unfold byteset_step. destruct cs as [|b [|b2 t]].
    - intros q q' _ E. discriminate E.
    - intros q q' Hq E. rewrite (mbs_single fwd b q Hq) in E. eapply Hb; eauto.
    - exact Hb.
  Qed.

  Lemma byteset_ir f fwd cs q G : (length cs <= 4)%nat -> IR (S f) (NByteSet cs) fwd (q, G) =
    match byteset_step fwd cs q with Some (Some q') => Some [(q', G)] | Some None => Some [] | None => None end.
  Proof.
    intro Hl. cbn [ir_results leaf_code]. unfold emit_byte_set, byteset_step.
    destruct cs as [|b1 [|b2 [|b3 [|b4 [|b5 t]]]]]; cbn [length] in *; try lia; cbn [run_insns match1];
      unfold OptBytes.mbs, bytestep;
      try match goal with
          | |- context [match_bytes ?a ?b ?c ?d] => destruct (match_bytes a b c d) as [e|[p'|]]
          | |- context [byte_if ?a ?b ?c ?d] => destruct (byte_if a b c d) as [e|[p'|]]
          end; reflexivity.
  Qed.

  Lemma byteset_single lb fwd cs : (length cs <= 4)%nat ->
    exists s, single_step ix unicode h lb (NByteSet cs) fwd = Some s /\ forall q, s q = byteset_step fwd cs q.
  Proof.
    intro Hl. unfold single_step, leaf_code, emit_byte_set, byteset_step.
    destruct cs as [|b1 [|b2 [|b3 [|b4 [|b5 t]]]]]; cbn [length] in *; try lia;
      (eexists; split; [reflexivity|]; intro q; cbn [run_insns match1]; unfold OptBytes.mbs, bytestep;
       try match goal with
           | |- context [match_bytes ?a ?b ?c ?d] => destruct (match_bytes a b c d) as [e|[p'|]]
           | |- context [byte_if ?a ?b ?c ?d] => destruct (byte_if a b c d) as [e|[p'|]]
           end; reflexivity).
  Qed.

  Lemma al_byteset cs : (length cs <= 4)%nat -> forallb (fun c => c <=? 127) cs = true -> al (NByteSet cs).
  Proof.
    intros Hl Hall. split.
    - intros [|f] fwd [q G] r Hx E; [discriminate|]. rewrite (byteset_ir f fwd cs q G Hl) in E.
      destruct (byteset_step fwd cs q) as [[q'|]|] eqn:Es; inversion E; subst; constructor; [|constructor].
      apply (oks_move okp q G q' Hx). eapply byteset_step_clo; [exact Hall|exact (proj1 Hx)|exact Es].
    - intros fwd s Es. destruct (byteset_single (negb fwd) fwd cs Hl) as [s0 [Es0 Hs0]]. rewrite Es0 in Es. inversion Es; subst s0.
      intros q q' Hq E. rewrite Hs0 in E. eapply byteset_step_clo; eauto.
  Qed.

  Lemma ref_charset_byteset fwd cs : (length cs <= 4)%nat -> forallb (fun c => c <=? 127) cs = true ->
    ref fwd (NCharSet cs) (NByteSet cs).
  Proof.
    intros Hl Hall. pose proof (charset_byteset fwd cs Hall) as Hstep. split.
    - apply (rres_fleO ix unicode utf16 h okp fwd _ _ 0%nat). intros [|f] [q G] r Hx E; [discriminate|].
      rewrite Nat.add_0_r. rewrite (charset_ir ix unicode utf16 h f fwd cs q G Hl) in E. rewrite (byteset_ir f fwd cs q G Hl).
      destruct (charset_step ix h fwd cs q) as [o|] eqn:Eo; [|discriminate]. rewrite (Hstep q o Hx Eo). exact E.
    - intros _. split.
      + unfold l1_body_ok, leaf_code, emit_byte_set.
        destruct cs as [|b1 [|b2 [|b3 [|b4 [|b5 t]]]]]; cbn [length] in *; try lia; reflexivity.
      + intros s Es. destruct (charset_single ix unicode h (negb fwd) fwd cs Hl) as [s0 [Es0 Hs0]].
        rewrite Es0 in Es. inversion Es; subst s0.
        destruct (byteset_single (negb fwd) fwd cs Hl) as [s1 [Es1 Hs1]]. exists s1. split; [exact Es1|].
        intros q o Hq Eq. rewrite Hs1. apply Hstep; [exact Hq|]. rewrite <- Hs0. exact Eq.
  Qed.

  (* ---- adjacent byte sequences ---- *)
  Lemma al_byteseq_inv bs : al (NByteSequence bs) -> forall fwd q e, okp q -> match_bytes fwd h q bs = Ok (Some e) -> okp e.
  Proof.
    intros [Hc _] fwd q e Hq E. pose proof (Hc 1%nat fwd (q, []) [(e, [])]) as Hr.
    rewrite (byteseq_ir 0 fwd bs q [] Hq) in Hr. unfold OptBytes.mbs in Hr. rewrite E in Hr.
    assert (Hq0 : oks okp (q, [])) by (split; [exact Hq|constructor]).
    specialize (Hr Hq0 eq_refl). inversion Hr as [|y0 l0 Hy _]; subst. exact (proj1 Hy).
  Qed.

  Lemma al_byteseq_nil : al (NByteSequence []).
  Proof.
    apply al_byteseq. intros fwd q e Hq E. rewrite (mb_nil h fwd q (Hk0 q Hq)) in E. inversion E; subst. exact Hq.
  Qed.

  Definition merged (lb : bool) (pb cb : list N) : list N := if lb then cb ++ pb else pb ++ cb.

  Lemma mbs_merged fwd pb cb q : okp q ->
    mbs fwd (merged (negb fwd) pb cb) q =
    match mbs fwd pb q with Some (Some q1) => mbs fwd cb q1 | Some None => Some None | None => None end.
  Proof.
    intro Hq. pose proof (Hk0 q Hq) as Hle. unfold OptBytes.mbs, merged. destruct fwd; cbn [negb].
    - rewrite (mb_app_fwd h q pb cb Hle). destruct (match_bytes true h q pb) as [e|[q1|]]; reflexivity.
    - rewrite (mb_app_bwd h q cb pb Hle). destruct (match_bytes false h q pb) as [e|[q1|]]; reflexivity.
  Qed.

  Lemma al_merged lb pb cb : al (NByteSequence pb) -> al (NByteSequence cb) -> al (NByteSequence (merged lb pb cb)).
  Proof.
    intros Hp Hc. apply al_byteseq. intros fwd q e Hq E.
    pose proof (Hk0 q Hq) as Hle. unfold merged in E. destruct lb.
    - (* text order cb ++ pb *)
      destruct fwd.
      + rewrite (mb_app_fwd h q cb pb Hle) in E. destruct (match_bytes true h q cb) as [e0|[q1|]] eqn:E1; try discriminate.
        eapply (al_byteseq_inv pb Hp); [|exact E]. eapply (al_byteseq_inv cb Hc); eauto.
      + rewrite (mb_app_bwd h q cb pb Hle) in E. destruct (match_bytes false h q pb) as [e0|[q1|]] eqn:E1; try discriminate.
        eapply (al_byteseq_inv cb Hc); [|exact E]. eapply (al_byteseq_inv pb Hp); eauto.
    - destruct fwd.
      + rewrite (mb_app_fwd h q pb cb Hle) in E. destruct (match_bytes true h q pb) as [e0|[q1|]] eqn:E1; try discriminate.
        eapply (al_byteseq_inv cb Hc); [|exact E]. eapply (al_byteseq_inv pb Hp); eauto.
      + rewrite (mb_app_bwd h q pb cb Hle) in E. destruct (match_bytes false h q cb) as [e0|[q1|]] eqn:E1; try discriminate.
        eapply (al_byteseq_inv pb Hp); [|exact E]. eapply (al_byteseq_inv cb Hc); eauto.
  Qed.

  Lemma obindm_fleP {A} (P : A -> Prop) (f g : A -> option (list mst)) :
    (forall x r, P x -> f x = Some r -> g x = Some r) -> forall xs r, Forall P xs -> obindm f xs = Some r -> obindm g xs = Some r.
  Proof.
    intro Hfg. induction xs as [|x xs IH]; intros r HP E; [exact E|]. cbn [obindm] in *. inversion HP; subst.
    destruct (f x) as [a|] eqn:Ef; [|discriminate]. destruct (obindm f xs) as [b|] eqn:Eb; [|discriminate].
    rewrite (Hfg x a) by assumption. rewrite (IH b) by auto. exact E.
  Qed.

  Lemma obindm_comp {A} (f : A -> option (list mst)) (g : mst -> option (list mst)) : forall xs ys r,
    obindm f xs = Some ys -> obindm g ys = Some r ->
    obindm (fun y => match f y with None => None | Some zs => obindm g zs end) xs = Some r.
  Proof.
    induction xs as [|x xs IH]; intros ys r Ef Eg; cbn [obindm] in *.
    - inversion Ef; subst. exact Eg.
    - destruct (f x) as [a|] eqn:Ea; [|discriminate]. destruct (obindm f xs) as [b|] eqn:Eb; [|discriminate].
      inversion Ef; subst. rewrite obindm_app in Eg.
      destruct (obindm g a) as [ra|]; [|discriminate]. destruct (obindm g b) as [rb|] eqn:Erb; [|discriminate].
      rewrite (IH b rb eq_refl Erb). exact Eg.
  Qed.

  (* running pb then cb is running the merged sequence *)
  Lemma byteseq_comp f fwd pb cb xs ys r : okl okp xs -> al (NByteSequence pb) ->
    obindm (IR (S f) (NByteSequence pb) fwd) xs = Some ys -> obindm (IR (S f) (NByteSequence cb) fwd) ys = Some r ->
    obindm (IR (S f) (NByteSequence (merged (negb fwd) pb cb)) fwd) xs = Some r.
  Proof.
    intros Hx Hp E1 E2. pose proof (obindm_comp _ _ xs ys r E1 E2) as Hc.
    eapply (obindm_fleP (oks okp)); [|exact Hx|exact Hc].
    intros [q G] r0 [Hq HG] Er. cbn [fst snd] in Hq. cbn beta in Er. rewrite (byteseq_ir f fwd pb q G Hq) in Er.
    rewrite (byteseq_ir f fwd _ q G Hq), (mbs_merged fwd pb cb q Hq).
    destruct (mbs fwd pb q) as [[q1|]|] eqn:Em; try discriminate.
    - cbn [obindm] in Er. assert (Hq1 : okp q1).
      { unfold OptBytes.mbs in Em. destruct (match_bytes fwd h q pb) as [e|[q2|]] eqn:Eb; inversion Em; subst.
        eapply (al_byteseq_inv pb Hp); eauto. }
      rewrite (byteseq_ir f fwd cb q1 G Hq1) in Er.
      destruct (mbs fwd cb q1) as [[q2|]|]; try discriminate; rewrite app_nil_r in Er; exact Er.
    - exact Er.
  Qed.

  Lemma byteseq_nil_id f fwd : forall xs, okl okp xs -> obindm (IR (S f) (NByteSequence []) fwd) xs = Some xs.
  Proof.
    induction xs as [|[q G] xs IH]; intro Hx; [reflexivity|]. inversion Hx as [|x0 l0 [Hq HG] Hxs]; subst. cbn [fst] in Hq. cbn [obindm].
    rewrite (byteseq_ir f fwd [] q G Hq). unfold OptBytes.mbs. rewrite (mb_nil h fwd q (Hk0 q Hq)). rewrite (IH Hxs). reflexivity.
  Qed.

  Lemma merge_ok fwd : forall t cur, al cur -> Forall al t -> qok cur = true -> forallb qok t = true ->
    Forall al (fst (merge_bytes_tail (negb fwd) cur t)) /\
    forallb qok (fst (merge_bytes_tail (negb fwd) cur t)) = true /\
    list_sum (map ng (fst (merge_bytes_tail (negb fwd) cur t))) = list_sum (map ng (cur :: t)) /\
    forall f xs r, okl okp xs -> cat_results (fun c => IR (S f) c fwd) (cur :: t) xs = Some r ->
                   cat_results (fun c => IR (S f) c fwd) (fst (merge_bytes_tail (negb fwd) cur t)) xs = Some r.
  Proof.
    induction t as [|c t IH]; intros cur Hac Hat Hqc Hqt.
    - cbn [merge_bytes_tail fst]. split; [constructor; [exact Hac|constructor]|]. split; [cbn [forallb]; rewrite Hqc; reflexivity|].
      split; [reflexivity|]. intros f xs r _ E. exact E.
    - inversion Hat as [|c0 t0 Hacc Hatt]; subst. cbn [forallb] in Hqt. apply andb_true_iff in Hqt as [Hqcc Hqtt].
      (* the step that does not merge *)
      assert (Hkeep : let l' := cur :: fst (merge_bytes_tail (negb fwd) c t) in
                Forall al l' /\ forallb qok l' = true /\ list_sum (map ng l') = list_sum (map ng (cur :: c :: t)) /\
                forall f xs r, okl okp xs -> cat_results (fun c => IR (S f) c fwd) (cur :: c :: t) xs = Some r ->
                               cat_results (fun c => IR (S f) c fwd) l' xs = Some r).
      { destruct (IH c Hacc Hatt Hqcc Hqtt) as (A1 & Q1 & N1 & S1). cbn zeta.
        split; [constructor; assumption|]. split; [cbn [forallb]; rewrite Hqc, Q1; reflexivity|].
        split; [cbn [map]; rewrite !list_sum_cons; cbn [map] in N1; rewrite list_sum_cons in N1; lia|].
        intros f xs r Hx E. cbn [cat_results] in E |- *.
        destruct (obindm (IR (S f) cur fwd) xs) as [ys|] eqn:Ey; [|discriminate].
        apply S1; [|exact E]. eapply (obindm_okl okp (oks okp)); [|exact Hx|exact Ey].
        intros x r0 Hxx Er. eapply (closed_al ix unicode utf16 h okp (S f) cur fwd Hac); eauto. }
      destruct cur; try (cbn [merge_bytes_tail]; destruct (merge_bytes_tail (negb fwd) c t) as [r0 m0]; exact Hkeep).
      destruct c; try (cbn [merge_bytes_tail]; match goal with |- context [merge_bytes_tail ?a ?b ?d] => destruct (merge_bytes_tail a b d) as [r0 m0] end; exact Hkeep).
      cbn [merge_bytes_tail].
      destruct (negb (list_is_empty bs) && negb (list_is_empty bs0)) eqn:Hne;
        [|destruct (merge_bytes_tail (negb fwd) (NByteSequence bs0) t) as [r0 m0]; exact Hkeep].
      fold (merged (negb fwd) bs bs0).
      destruct (IH (NByteSequence (merged (negb fwd) bs bs0)) (al_merged (negb fwd) bs bs0 Hac Hacc) Hatt eq_refl Hqtt) as (A1 & Q1 & N1 & S1).
      destruct (merge_bytes_tail (negb fwd) (NByteSequence (merged (negb fwd) bs bs0)) t) as [r0 m0]. cbn [fst] in *.
      split; [constructor; [apply al_byteseq_nil|exact A1]|]. split; [cbn [forallb qok]; exact Q1|].
      split; [cbn [map] in *; rewrite !list_sum_cons in *; cbn [ng] in *; lia|].
      intros f xs r Hx E. cbn [cat_results] in E |- *. rewrite (byteseq_nil_id f fwd xs Hx).
      destruct (obindm (IR (S f) (NByteSequence bs) fwd) xs) as [ys|] eqn:Ey; [|discriminate].
      destruct (obindm (IR (S f) (NByteSequence bs0) fwd) ys) as [zs|] eqn:Ez; [|discriminate].
      apply S1; [exact Hx|]. cbn [cat_results]. rewrite (byteseq_comp f fwd bs bs0 xs ys zs Hx Hac Ey Ez). exact E.
  Qed.

  Lemma literal_sound lb n a : form_literal_bytes lb n = Ok a -> PRel lb n (act_node a n).
  Proof.
    intros E. destruct n; try (inversion E; subst; apply PRel_refl); cbn [form_literal_bytes] in E.
    - (* Char *)
      destruct (is_scalar c) eqn:Hs; inversion E; subst; [|apply PRel_refl].
      intros Hq Ha. cbn [act_node]. split; [apply ref_char_bytes; exact Hs|]. split; [reflexivity|].
      split; [|reflexivity]. apply al_byteseq. intros fwd q e Hq0 Em. eapply Henc2; eauto.
    - (* CharSet *)
      destruct (forallb (fun c => c <=? 127) cs) eqn:Hall; inversion E; subst; [|apply PRel_refl].
      intros Hq Ha. cbn [act_node]. cbn [qok] in Hq. apply Nat.leb_le in Hq.
      split; [apply ref_charset_byteset; assumption|]. split; [reflexivity|]. split; [apply al_byteset; assumption|reflexivity].
    - (* Cat *)
      destruct l as [|x t]; [inversion E; subst; apply PRel_refl|].
      destruct (merge_bytes_tail lb x t) as [l' m] eqn:Em. destruct m; inversion E; subst; [|apply PRel_refl].
      intros Hq Ha. cbn [act_node]. cbn [qok forallb] in Hq. apply andb_true_iff in Hq as [Hqx Hqt].
      apply al_cat in Ha. inversion Ha as [|x0 t0 Hax Hat]; subst.
      pose proof (merge_ok (negb lb) t x Hax Hat Hqx Hqt) as Hm. rewrite Bool.negb_involutive, Em in Hm. cbn [fst] in Hm.
      destruct Hm as (A1 & Q1 & N1 & S1).
      split; [|split; [exact Q1|split; [apply al_cat; exact A1|exact N1]]].
      split; [|apply rstep_nol1; reflexivity].
      apply (rres_fleS ix unicode utf16 h okp (negb lb) _ _ 0%nat). intros [|f] x0 r Hx Er; [discriminate|].
      rewrite Nat.add_0_r. rewrite ir_cat_eq in *. destruct f as [|f].
      + cbn [cat_results obindm] in Er. discriminate.
      + apply S1; [constructor; [exact Hx|constructor]|exact Er].
  Qed.

  Theorem literal_pass_sound fuel n n' : run_to_fixpoint form_literal_bytes fuel n = Ok n' -> PRel false n n'.
  Proof. apply pass_sound. exact literal_sound. Qed.

  (* ---- \q string sets: every alternative is lowered to pieces (src/literal.rs), each piece a leaf that starts and
     ends at well-formed positions ---- *)
  Definition piece_leaf (n : node) : Prop :=
    match n with NChar _ | NByteSequence _ | NByteSet _ | NCharSet _ => True | _ => False end.

  (* a leaf of these kinds run as a piece *)
  Lemma piece_run_clo n fwd code q q' : piece_leaf n -> al n -> leaf_code (negb fwd) n = Some code -> okp q ->
    run code fwd q = Some (Some q') -> okp q'.
  Proof.
    intros Hp Ha El Hq Er.
    assert (Hx : OptMono.oks okp (q, [])) by (split; [exact Hq|constructor]).
    destruct n; try contradiction; destruct Ha as [Hc _];
      (assert (E : IR 1 _ fwd (q, []) = Some [(q', [])])
         by (cbn [ir_results]; rewrite El; unfold results_of; cbn [fst snd]; rewrite Er; reflexivity);
       specialize (Hc 1%nat fwd (q, []) _ Hx E); inversion Hc as [|? ? [H1 _] _]; subst; exact H1).
  Qed.

  Lemma pieces_run_clo fwd : forall l q q', Forall (fun n => piece_leaf n /\ al n) l -> okp q ->
    pieces_run ix unicode h (negb fwd) l fwd q = Some (Some q') -> okp q'.
  Proof.
    induction l as [|n l IH]; intros q q' HF Hq E; cbn [pieces_run] in E; [inversion E; subst; exact Hq|].
    inversion HF as [|? ? [Hp Ha] Hl]; subst.
    destruct (leaf_code (negb fwd) n) as [code|] eqn:El; [|discriminate].
    destruct (run code fwd q) as [[q1|]|] eqn:Er; try discriminate.
    eapply IH; [exact Hl| |exact E]. eapply piece_run_clo; eauto.
  Qed.

  Lemma al_enc c : is_scalar c = true -> al (NByteSequence (utf8_encode c)).
  Proof. intros Hs. apply al_byteseq. intros fwd q e Hq E. eapply Henc2; eauto. Qed.

  Definition piece_ok (p : piece) : Prop := piece_leaf (node_of_piece p) /\ al (node_of_piece p).

  Lemma lower_go_ok icase : forall cps_ acc pieces, Forall piece_ok acc ->
    lower_go cps_ icase unicode acc = Some pieces -> Forall piece_ok pieces.
  Proof.
    induction cps_ as [|cp t IH]; intros acc pieces Hacc E; cbn [lower_go] in E.
    - inversion E; subst. apply Forall_rev. exact Hacc.
    - destruct (expand_code_point cp icase unicode) as [|c [|c2 rest]] eqn:Ex; [discriminate| |].
      + destruct (is_scalar c) eqn:Es.
        * destruct acc as [|[pc|prev|pb|pcs] acc'];
            try (eapply IH; [|exact E]; constructor; [split; [exact I|apply al_enc; exact Es]|exact Hacc]).
          eapply IH; [|exact E]. inversion Hacc as [|? ? [_ Hprev] Hacc']; subst. constructor; [|exact Hacc'].
          split; [exact I|]. cbn [node_of_piece] in *. exact (al_merged false prev (utf8_encode c) Hprev (al_enc c Es)).
        * eapply IH; [|exact E]. constructor; [split; [exact I|apply al_char; exact Hk1]|exact Hacc].
      + destruct (4 <? length (c :: c2 :: rest))%nat eqn:El; [discriminate|]. apply Nat.ltb_ge in El.
        destruct (forallb (fun c0 => c0 <=? 127) (c :: c2 :: rest)) eqn:Ea.
        * eapply IH; [|exact E]. constructor; [split; [exact I|apply al_byteset; assumption]|exact Hacc].
        * eapply IH; [|exact E]. constructor; [split; [exact I|apply al_charset_any; exact Hk1]|exact Hacc].
  Qed.

  Theorem al_stringset alts icase : al (NStringSet alts icase).
  Proof.
    split; [|intros fwd s Es; discriminate Es]. intros [|f] fwd [q G] r Hx E; [discriminate|]. cbn [ir_results] in E. unfold strset_results in E.
    revert r E. induction alts as [|a alts IHa]; intros r E; cbn [obindm] in E; [inversion E; constructor|].
    destruct (if utf16 then None else lower_code_point_sequence a icase unicode) as [pieces|] eqn:Ep; [|discriminate].
    match type of E with match ?x with _ => _ end = _ => destruct x as [ra|] eqn:Er; [|discriminate] end.
    match type of E with match ?x with _ => _ end = _ => destruct x as [rb|] eqn:Eb; [|discriminate] end.
    inversion E; subst. apply Forall_app. split; [|apply IHa; reflexivity].
    destruct utf16; [discriminate|]. unfold lower_code_point_sequence in Ep.
    pose proof (lower_go_ok icase a [] pieces (Forall_nil _) Ep) as Hok.
    assert (Hl : Forall (fun n => piece_leaf n /\ al n) (map node_of_piece (if fwd then pieces else rev pieces))).
    { rewrite Forall_forall. intros n Hn. apply in_map_iff in Hn as (p0 & <- & Hp0). rewrite Forall_forall in Hok. apply Hok.
      destruct fwd; [exact Hp0|apply in_rev; exact Hp0]. }
    unfold results_of in Er. cbn [fst snd] in Er.
    destruct (pieces_run ix unicode h (negb fwd) (map node_of_piece (if fwd then pieces else rev pieces)) fwd q) as [[q'|]|] eqn:Epr;
      inversion Er; subst; constructor; [|constructor].
    apply (oks_move okp q G q' Hx). eapply pieces_run_clo; [exact Hl|exact (proj1 Hx)|exact Epr].
  Qed.
End Literal.
